(** Model of the symmetry analysis of pomerol (properties C07, C08):

      Symmetrizer::checkSymmetry / compute(bool) / compute(vector<Operator>)   src/pomerol/Symmetrizer.cpp
      Symmetrizer::QuantumNumbers                                              include/pomerol/Symmetrizer.h
      StatesClassification::compute, getBlockNumber, getInnerState, getFockState   src/pomerol/StatesClassification.cpp
      FieldOperator::mapsTo, {Creation,Annihilation,Quadratic}Operator::prepare    src/pomerol/FieldOperator.cpp

    on top of the operator-algebra model PV.Poly (coefficients: a commutative ring given by Section
    variables; executed at exact rationals, see the end of the file).  The model follows the code loop
    for loop; array accesses are bounds-checked ([OOB]), C++ exceptions are [Throws code]:
      Throws 1 = Operator::exWrongLabel (thrown by the Sz constructor),
      Throws 2 = StatesClassification::exWrongState.

    Conventions.
    - A lattice enters only through IndexClassification: the number of single-particle indices [N]
      (IndexSize) and the spin label of every index ([spins], length N; IndexInfo.getInfo(i).Spin).
      enum spin {down, up} (include/pomerol/Misc.h:123): down = 0, up = 1; a spinless site has one
      spin value 0 = down for all its indices, a site with 3 spins has labels 0, 1, 2.
    - Operator equality is the repaired one ([sized = true] in PV.Poly: /repo commit
      "fix: compare monomial lengths in Operator equality").
    - Quantum numbers: the C++ stores the vector of diagonal matrix elements <s|Q_k|s> (doubles) and
      compares / orders QuantumNumbers objects by boost::hash of that vector.  The model compares the
      tuples themselves, i.e. ASSUMES that the hash is injective on the tuples that occur (and that the
      doubles are exact: dyadic coefficients).  The harness h_c07 checks this assumption on every run.
    - Two repairs are modelled behind boolean parameters so that the theorems can be stated for the
      code as it is ([false]) and as it would be after the proposed patches ([true]):
        [fixed_sz]  : Symmetrizer::compute(bool) offers S_z only when #up = #down indices
                      (proposed/fix-symmetrizer-sz-throw.diff);
        [shiftfix]  : checkSymmetry additionally demands [Q, c^+_i] = q_i c^+_i for every i
                      (proposed/fix-checksymmetry-uniform-shift.diff). *)
Require Import Bool List Arith.
From PV Require Import Outcome Fock Poly.
Import ListNotations.

(** * Generic pieces that do not depend on the coefficient ring *)

(** StatesContainer[b].push_back(s), bounds-checked *)
Fixpoint push_at (b : nat) (s : nat) (blocks : list (list nat)) : outcome (list (list nat)) :=
  match blocks, b with
  | [], _ => OOB
  | l :: t, O => Done ((l ++ [s]) :: t)
  | l :: t, S b' => match push_at b' s t with Done t' => Done (l :: t') | e => e end
  end.

(** position of [s] in a block's list (the linear search of getInnerState) *)
Fixpoint index_of (s : nat) (l : list nat) (n : nat) : option nat :=
  match l with
  | [] => None
  | x :: r => if Nat.eqb x s then Some n else index_of s r (S n)
  end.

(** std::map<size_t,BlockNumber>::operator[]= : overwrite or insert *)
Fixpoint map_set (k v : nat) (m : list (nat * nat)) : list (nat * nat) :=
  match m with
  | [] => [(k, v)]
  | (k', v') :: t => if Nat.eqb k' k then (k, v) :: t else (k', v') :: map_set k v t
  end.
Fixpoint map_get (k : nat) (m : list (nat * nat)) : option nat :=
  match m with
  | [] => None
  | (k', v) :: t => if Nat.eqb k' k then Some v else map_get k t
  end.

(** boost::bimap<set_of<BlockNumber>, set_of<BlockNumber>>::insert((L,R)): the relation is refused
    when the left key OR the right key is already present (both views are sets).
    Stored here in insertion order as (left, right); the views are the sorted projections. *)
Definition bimap := list (nat * nat).
Definition bimap_insert (L R : nat) (bm : bimap) : bimap :=
  if existsb (fun lr => Nat.eqb (fst lr) L || Nat.eqb (snd lr) R) bm then bm else bm ++ [(L, R)].
Definition bimap_left_find (L : nat) (bm : bimap) : option nat :=
  match find (fun lr => Nat.eqb (fst lr) L) bm with Some lr => Some (snd lr) | None => None end.
Definition bimap_right_find (R : nat) (bm : bimap) : option nat :=
  match find (fun lr => Nat.eqb (snd lr) R) bm with Some lr => Some (fst lr) | None => None end.

(** insertion sort by a nat key: the iteration order of bimap.left / bimap.right and of std::map *)
Fixpoint ins_by {A} (key : A -> nat) (x : A) (l : list A) : list A :=
  match l with
  | [] => [x]
  | y :: t => if key x <=? key y then x :: l else y :: ins_by key x t
  end.
Definition sort_by {A} (key : A -> nat) (l : list A) : list A := fold_right (ins_by key) [] l.
Definition left_view (bm : bimap) : list (nat * nat) := sort_by fst bm.
Definition right_view (bm : bimap) : list (nat * nat) := sort_by snd bm.

Definition zeros (N : nat) : state := repeat false N.

(** * StatesClassification::compute for an arbitrary key (the quantum-number tuple) *)
Section Classify.
Variable Key : Type.
Variable keq : Key -> Key -> bool.              (* QuantumNumbers::operator== / map lookup *)
Variable key : nat -> outcome Key.              (* QNumbers of Fock state number s (lines 28-33) *)

Record sclass := {
  sc_q2b : list (Key * nat);        (* QuantumToBlock (a std::map ordered by hash: only find/insert are used) *)
  sc_b2q : list (nat * Key);        (* BlockToQuantum *)
  sc_blocks : list (list nat);      (* StatesContainer *)
  sc_sbi : list nat                 (* StateBlockIndex *)
}.
Definition sc_empty : sclass := {| sc_q2b := []; sc_b2q := []; sc_blocks := []; sc_sbi := [] |}.

Fixpoint q2b_find (q : Key) (m : list (Key * nat)) : option nat :=
  match m with
  | [] => None
  | (q', b) :: t => if keq q q' then Some b else q2b_find q t
  end.

(** one iteration of the loop at StatesClassification.cpp:27-49; [bi] is the counter block_index *)
Definition sc_step (acc : sclass * nat) (s : nat) : outcome (sclass * nat) :=
  let c := fst acc in let bi := snd acc in
  bind (key s) (fun q =>
    match q2b_find q (sc_q2b c) with
    | None =>                                                         (* :35-43 *)
      bind (push_at bi s (sc_blocks c ++ [[]])) (fun blocks' =>       (* :39-40 *)
        Done ({| sc_q2b := sc_q2b c ++ [(q, bi)];                     (* :37 *)
                 sc_b2q := sc_b2q c ++ [(bi, q)];                     (* :38 *)
                 sc_blocks := blocks';
                 sc_sbi := sc_sbi c ++ [bi] |}, S bi))                (* :41-42 *)
    | Some b =>                                                       (* :44-48 *)
      bind (push_at b s (sc_blocks c)) (fun blocks' =>
        Done ({| sc_q2b := sc_q2b c; sc_b2q := sc_b2q c; sc_blocks := blocks';
                 sc_sbi := sc_sbi c ++ [b] |}, bi))
    end).

Fixpoint sc_loop (l : list nat) (acc : sclass * nat) : outcome (sclass * nat) :=
  match l with
  | [] => Done acc
  | s :: r => bind (sc_step acc s) (sc_loop r)
  end.

(** for (FockStateIndex = 0; FockStateIndex < StateSize; ++FockStateIndex) *)
Definition sc_compute_gen (StateSize : nat) : outcome sclass :=
  bind (sc_loop (seq 0 StateSize) (sc_empty, 0)) (fun a => Done (fst a)).

(** getBlockNumber(QuantumState), StatesClassification.cpp:71-76: the test is [in > StateSize]
    (so in = StateSize passes and reads past the vector: [OOB]; that off-by-one belongs to C17) *)
Definition getBlockNumber (StateSize : nat) (c : sclass) (s : nat) : outcome nat :=
  if StateSize <? s then Throws 2
  else match nth_error (sc_sbi c) s with Some b => Done b | None => OOB end.

(** getInnerState, :78-96 *)
Definition getInnerState (StateSize : nat) (c : sclass) (s : nat) : outcome nat :=
  if StateSize <? s then Throws 2 else
  bind (getBlockNumber StateSize c s) (fun b =>
    match nth_error (sc_blocks c) b with
    | None => OOB
    | Some l => match index_of s l 0 with Some n => Done n | None => Throws 2 end
    end).

(** getFockState(BlockNumber, InnerQuantumState), :120-129 *)
Definition getFockState (c : sclass) (b m : nat) : outcome nat :=
  match nth_error (sc_blocks c) b with
  | Some l => match nth_error l m with Some s => Done s | None => Throws 2 end
  | None => Throws 2
  end.

Definition numberOfBlocks (c : sclass) : nat := length (sc_blocks c).

End Classify.

Arguments sc_q2b {Key}. Arguments sc_b2q {Key}. Arguments sc_blocks {Key}. Arguments sc_sbi {Key}.
Arguments getBlockNumber {Key}. Arguments getInnerState {Key}. Arguments getFockState {Key}.
Arguments numberOfBlocks {Key}.

(** * FieldOperator::prepare for an arbitrary block map *)

(** state of a FieldOperator after prepare(): parts (as (left, right) block pairs, in creation order),
    mapPartsFromRight, mapPartsFromLeft (std::map, operator[]= overwrites), LeftRightBlocks (bimap) *)
Record fieldop := {
  fo_parts : list (nat * nat);
  fo_fromRight : list (nat * nat);
  fo_fromLeft : list (nat * nat);
  fo_bimap : bimap
}.
Definition fo_empty : fieldop := {| fo_parts := []; fo_fromRight := []; fo_fromLeft := []; fo_bimap := [] |}.

(** body of the loop in CreationOperator::prepare (FieldOperator.cpp:114-126; the other two are identical) *)
Definition prepare_step (mapsTo : nat -> outcome (option nat)) (f : fieldop) (R : nat) : outcome fieldop :=
  bind (mapsTo R) (fun o =>
    match o with
    | None => Done f                                                   (* LeftIndex == ERROR_BLOCK_NUMBER *)
    | Some L =>
      let Size := length (fo_parts f) in
      Done {| fo_parts := fo_parts f ++ [(L, R)];                      (* :120 *)
              fo_fromRight := map_set R Size (fo_fromRight f);          (* :121 *)
              fo_fromLeft := map_set L Size (fo_fromLeft f);            (* :122 *)
              fo_bimap := bimap_insert L R (fo_bimap f) |}              (* :123 *)
    end).
Fixpoint prepare_loop (mapsTo : nat -> outcome (option nat)) (l : list nat) (f : fieldop) : outcome fieldop :=
  match l with
  | [] => Done f
  | R :: r => bind (prepare_step mapsTo f R) (prepare_loop mapsTo r)
  end.

(** * The part that depends on the operator algebra *)
Section Symm.
Variable K : Type.
Variables (k0 k1 : K) (kadd kmul ksub : K -> K -> K) (kopp : K -> K).
Variable kzero : K -> bool.
Variable khalf : K.

Local Notation poly := (poly K).
Local Notation commutes := (commutes K kadd kmul ksub kopp kzero true).
Local Notation commutator := (commutator K kadd kmul ksub kopp kzero).
Local Notation poly_eq := (poly_eq K ksub kzero true).
Local Notation pscale := (pscale K kmul kzero).
Local Notation p_n := (p_n K k1).
Local Notation p_c := (p_c K k1).
Local Notation p_cdag := (p_cdag K k1).
Local Notation p_n_offdiag := (p_n_offdiag K k1).
Local Notation p_N := (p_N K k1 kadd kzero).
Local Notation p_Sz := (p_Sz K k1 kadd kmul ksub kopp kzero khalf).
Local Notation act_poly := (act_poly K kadd kopp).

(** ** Operator::getMatrixElement(bra, ket), Operator.cpp:86-94:
       output = actRight(ket); output.find(bra) == end ? 0 : output[bra]
    (actRight removes entries below epsilon; looking such an entry up gives 0 either way) *)
Fixpoint lc_find (t : state) (l : list (state * K)) : K :=
  match l with
  | [] => k0
  | (s', c) :: r => if Nat.eqb (nat_of_state t) (nat_of_state s') then c else lc_find t r
  end.
Definition get_melem (p : poly) (bra ket : state) : outcome K :=
  bind (act_poly p ket) (fun l => Done (lc_find bra l)).

(** ** Symmetrizer::checkSymmetry, Symmetrizer.cpp:165-181 *)

(** for (i = 0; i < IndexSize; ++i) if (!OperatorPresets::n(i).commutes(OP1)) return false;   :173-175 *)
Fixpoint commutes_all_n (l : list nat) (op : poly) : outcome bool :=
  match l with
  | [] => Done true
  | i :: r => bind (commutes (p_n i) op) (fun b => if b then commutes_all_n r op else Done false)
  end.

(** the additional test of the proposed repair: comm = [OP1, c^+_i]; q_i = <1_i| comm |vac>;
    require comm == c^+_i * q_i *)
Definition shift_test_i (N : nat) (op : poly) (i : nat) : outcome bool :=
  bind (commutator op (p_cdag i)) (fun comm =>
  bind (get_melem comm (upd i true (zeros N)) (zeros N)) (fun q =>
  poly_eq comm (pscale q (p_cdag i)))).
Fixpoint shift_test_all (N : nat) (l : list nat) (op : poly) : outcome bool :=
  match l with
  | [] => Done true
  | i :: r => bind (shift_test_i N op i) (fun b => if b then shift_test_all N r op else Done false)
  end.

(** returns whether the candidate is accepted (then the caller's copy is pushed to Operations and
    NSymmetries is incremented, :177-179) *)
Definition check_symmetry (shiftfix : bool) (N : nat) (H op : poly) : outcome bool :=
  bind (commutes H op) (fun b1 =>                                       (* :169 Storage.commutes(OP1) *)
    if b1 then
      bind (commutes_all_n (seq 0 N) op) (fun b2 =>                     (* :173-175 *)
        if b2 then (if shiftfix then shift_test_all N (seq 0 N) op else Done true)
        else Done false)
    else Done false).

(** Symmetrizer object after compute: Operations (NSymmetries = length) and, for the comparison
    with the implementation only, the accept flag of every candidate offered *)
Record symm := { sy_ops : list poly; sy_flags : list bool }.
Definition sy_empty : symm := {| sy_ops := []; sy_flags := [] |}.
Definition sy_offer (shiftfix : bool) (N : nat) (H : poly) (sy : symm) (op : poly) : outcome symm :=
  bind (check_symmetry shiftfix N H op) (fun b =>
    Done {| sy_ops := if b then sy_ops sy ++ [op] else sy_ops sy; sy_flags := sy_flags sy ++ [b] |}).

(** ** Symmetrizer::compute(const std::vector<Operator>&), :183-194: rejected candidates are skipped *)
Fixpoint compute_custom_loop (shiftfix : bool) (N : nat) (H : poly) (cands : list poly) (sy : symm) : outcome symm :=
  match cands with
  | [] => Done sy
  | q :: r => bind (sy_offer shiftfix N H sy q) (compute_custom_loop shiftfix N H r)
  end.
Definition compute_custom (shiftfix : bool) (N : nat) (H : poly) (cands : list poly) : outcome symm :=
  compute_custom_loop shiftfix N H cands sy_empty.

(** ** Symmetrizer::compute(bool ignore_symmetries), :196-222 *)
Definition spin_is_up (sp : nat) : bool := Nat.eqb sp 1.
Definition spin_is_down (sp : nat) : bool := Nat.eqb sp 0.
(** :205-207  valid_sz: every index has Spin == up or Spin == down (loop with early exit = forallb) *)
Definition valid_sz (spins : list nat) : bool := forallb (fun sp => spin_is_up sp || spin_is_down sp) spins.
(** :210-213  SpinUpIndices *)
Definition spin_up_indices (spins : list nat) : list nat :=
  filter (fun i => spin_is_up (nth i spins 0)) (seq 0 (length spins)).

Definition compute_default (fixed_sz shiftfix : bool) (ignore : bool) (spins : list nat) (H : poly) : outcome symm :=
  let N := length spins in                                              (* IndexSize = IndexInfo.getIndexSize() *)
  if ignore then Done sy_empty else
  bind (sy_offer shiftfix N H sy_empty (p_N N)) (fun sy1 =>             (* :201-202 *)
    if valid_sz spins then
      let ups := spin_up_indices spins in
      if fixed_sz && negb (Nat.eqb (length ups) (length (sz_down N ups))) then Done sy1   (* repair: S_z undefined, not offered *)
      else bind (p_Sz N ups) (fun op_sz =>                              (* :214 the constructor may throw *)
             sy_offer shiftfix N H sy1 op_sz)                           (* :215 *)
    else Done sy1).

(** ** Quantum numbers of a Fock state, StatesClassification.cpp:29-33:
       QNumbers.set(n, sym_op[n]->getMatrixElement(current_state, current_state)) *)
Fixpoint qn_of (ops : list poly) (s : state) : outcome (list K) :=
  match ops with
  | [] => Done []
  | q :: r => bind (get_melem q s s) (fun v => bind (qn_of r s) (fun vs => Done (v :: vs)))
  end.
(** equality of QuantumNumbers = equality of hashes; under the injectivity assumption: of tuples *)
Fixpoint qn_eqb (a b : list K) : bool :=
  match a, b with
  | [], [] => true
  | x :: a', y :: b' => kzero (ksub x y) && qn_eqb a' b'
  | _, _ => false
  end.

Definition qclass := sclass (list K).
Definition sc_compute (N : nat) (ops : list poly) : outcome qclass :=
  sc_compute_gen (list K) qn_eqb (fun s => qn_of ops (state_of_nat N s)) (Nat.pow 2 N).

(** ** FieldOperator::mapsTo(BlockNumber RightIndex), FieldOperator.cpp:167-177.
    [O->actRight(state)] is a std::map ordered by the Fock state; result.begin()->first is the
    entry with the smallest label among the non-zero ones *)
Fixpoint min_label (l : list (state * K)) : option nat :=
  match l with
  | [] => None
  | (s, c) :: r =>
    if kzero c then min_label r
    else match min_label r with
         | None => Some (nat_of_state s)
         | Some m => Some (Nat.min (nat_of_state s) m)
         end
  end.
(** first state of the list that is not annihilated -> label of the (first) image *)
Fixpoint first_image (N : nat) (O : poly) (states : list nat) : outcome (option nat) :=
  match states with
  | [] => Done None
  | s :: r =>
    bind (act_poly O (state_of_nat N s)) (fun res =>
      match min_label res with
      | Some t => Done (Some t)             (* found = (result.size() > 0) *)
      | None => first_image N O r
      end)
  end.
Definition mapsTo (N : nat) (c : qclass) (O : poly) (R : nat) : outcome (option nat) :=
  match nth_error (sc_blocks c) R with
  | None => OOB                             (* S.getFockStates(RightIndex) on a wrong block number *)
  | Some states =>
    bind (first_image N O states) (fun o =>
      match o with
      | None => Done None                   (* ERROR_BLOCK_NUMBER *)
      | Some t => bind (getBlockNumber (Nat.pow 2 N) c t) (fun b => Done (Some b))
      end)
  end.

(** ** prepare(): for (RightIndex = 0; RightIndex < S.NumberOfBlocks(); RightIndex++) *)
Definition prepare (N : nat) (c : qclass) (O : poly) : outcome fieldop :=
  prepare_loop (mapsTo N c O) (seq 0 (numberOfBlocks c)) fo_empty.

Definition prepare_cdag (N : nat) (c : qclass) (i : nat) := prepare N c (p_cdag i).
Definition prepare_c (N : nat) (c : qclass) (i : nat) := prepare N c (p_c i).
Definition prepare_quad (N : nat) (c : qclass) (i j : nat) := prepare N c (p_n_offdiag i j).

(** ** The whole analysis as run by the documented workflow *)
Inductive symm_mode :=
| SymmDefault                      (* Symm.compute()        *)
| SymmIgnore                       (* Symm.compute(true)    *)
| SymmCustom (cands : list poly).  (* Symm.compute(vector)  *)

Definition symmetrize (fixed_sz shiftfix : bool) (mode : symm_mode) (spins : list nat) (H : poly) : outcome symm :=
  match mode with
  | SymmDefault => compute_default fixed_sz shiftfix false spins H
  | SymmIgnore => compute_default fixed_sz shiftfix true spins H
  | SymmCustom cands => compute_custom shiftfix (length spins) H cands
  end.

Record analysis := {
  an_symm : symm;
  an_class : qclass;
  an_cdag : list fieldop;            (* CreationOperator(i).prepare(), i < N *)
  an_c : list fieldop                (* AnnihilationOperator(i).prepare() *)
}.

Fixpoint mapM {A B} (f : A -> outcome B) (l : list A) : outcome (list B) :=
  match l with
  | [] => Done []
  | a :: r => bind (f a) (fun b => bind (mapM f r) (fun bs => Done (b :: bs)))
  end.

Definition analyse (fixed_sz shiftfix : bool) (mode : symm_mode) (spins : list nat) (H : poly) : outcome analysis :=
  let N := length spins in
  bind (symmetrize fixed_sz shiftfix mode spins H) (fun sy =>
  bind (sc_compute N (sy_ops sy)) (fun c =>
  bind (mapM (prepare_cdag N c) (seq 0 N)) (fun cd =>
  bind (mapM (prepare_c N c) (seq 0 N)) (fun cc =>
  Done {| an_symm := sy; an_class := c; an_cdag := cd; an_c := cc |})))).

End Symm.

Arguments sy_ops {K}. Arguments sy_flags {K}.
Arguments an_symm {K}. Arguments an_class {K}. Arguments an_cdag {K}. Arguments an_c {K}.


(** * Executable instance at exact rationals (PV.PolyQ) *)
Require Import ZArith QArith.
From PV Require Import PolyQ.

Definition q_get_melem := get_melem Q 0%Q qadd qopp.
Definition q_check_symmetry := check_symmetry Q 0%Q 1%Q qadd qmul qsub qopp qzero.
Definition q_symmetrize := symmetrize Q 0%Q 1%Q qadd qmul qsub qopp qzero qhalf.
Definition q_qn_of := qn_of Q 0%Q qadd qopp.
Definition q_sc_compute := sc_compute Q 0%Q qadd qsub qopp qzero.
Definition q_mapsTo := mapsTo Q qadd qopp qzero.
Definition q_prepare := prepare Q qadd qopp qzero.
Definition q_prepare_cdag := prepare_cdag Q 1%Q qadd qopp qzero.
Definition q_prepare_c := prepare_c Q 1%Q qadd qopp qzero.
Definition q_prepare_quad := prepare_quad Q 1%Q qadd qopp qzero.
Definition q_analyse := analyse Q 0%Q 1%Q qadd qmul qsub qopp qzero qhalf.
