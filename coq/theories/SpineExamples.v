(** Non-vacuity of the spine theorem: the Hubbard atom on exact rationals.

    Number type: canonical rationals Qc (order and |.| the rational ones, conjugation the identity; the "exponential"
    is the positive rational stand-in x |-> 1/(1-x) on x <= 0 -- the spine theorem does not use any property of exp).
    Model: two modes (0 = up, 1 = down), H = -mu (n_up + n_dn) + U n_up n_dn with mu = 1, U = 3, diagonal in the Fock
    basis: one block, eigenvalues E = (0, -1, -1, 1), eigenvectors the identity (the exact certificate H U = U diag E,
    U^+ U = 1 holds and is evaluated below), beta = 1, z = 1/2, component G_00.  All tolerances are 0. *)
Require Import Bool List Arith ZArith Lia QArith Qcanon Qcabs Ring_theory Field_theory.
From PV Require Import Outcome Fock Poly EDSpec HPart HPartSpec HPartProofs Sparse TermList GFPart GFPartProofs
     Spine SpinePartition SpineOneBlock ChiSymmetryExamples.
From PVgen Require Import Gen_C01.
Import ListNotations.
Local Open Scope Qc_scope.

Definition QcS : numops Qc := {|
  n0 := 0; n1 := 1; nadd := Qcplus; nsub := Qcminus; nmul := Qcmult; ndiv := Qcdiv;
  nopp := Qcopp; nconj := fun x => x; nexp := fun x => 1 / (1 - x);
  nre_ltb := qltb; nabs := Qcabs; nofZ := fun k => Q2Qc (inject_Z k); nI := 0 |}.

Lemma QcS_ring : ring_theory (n0 Qc QcS) (n1 Qc QcS) (nadd Qc QcS) (nmul Qc QcS) (nsub Qc QcS) (nopp Qc QcS) eq.
Proof. exact Qcrt. Qed.
Lemma QcS_div : forall a b, ndiv Qc QcS a b = nmul Qc QcS a (/ b).
Proof. reflexivity. Qed.

Lemma qabs_not_pos x : qltb 0 (Qcabs x) = false -> x = 0.
Proof.
  intros H. assert (Hn : ~ 0 < Qcabs x) by (intro L; apply qltb_spec in L; congruence).
  apply Qcnot_lt_le in Hn. pose proof (Qcabs_nonneg x) as Hp.
  assert (E : Qcabs x = 0) by (apply Qcle_antisym; assumption).
  revert E. apply Qcabs_case; intros _ E; [exact E|]. rewrite <- (Qcopp_involutive x), E. reflexivity.
Qed.

Definition T0 : tols Qc := mktols Qc 0 0 0 (1 / (1 + 1)).

Lemma T0_rel : forall R, gf_relevant Qc QcS (t_matrix_element Qc T0) R = false -> R = n0 Qc QcS.
Proof. intros R. unfold gf_relevant. cbn [t_matrix_element T0 nre_ltb nabs QcS]. apply qabs_not_pos. Qed.

Lemma T0_cmp : forall a b, gf_compare Qc QcS (t_compare Qc T0) a b = false -> gf_compare Qc QcS (t_compare Qc T0) b a = true.
Proof.
  intros a b. unfold gf_compare. cbn [t_compare T0 nre_ltb nsub QcS]. rewrite negb_false_iff, negb_true_iff.
  intros H1. apply qltb_spec in H1. destruct (qltb (a - b) 0) eqn:H2; [|reflexivity]. apply qltb_spec in H2. exfalso.
  apply Qclt_minus_iff in H1. replace (0 + - (b - a)) with (a - b) in H1 by ring.
  exact (Qclt_not_le _ _ (Qclt_trans _ _ _ H1 H2) (Qcle_refl 0)).
Qed.

Lemma keep0 : forall x, keep_entry Qc QcS 1 0 x = false -> x = n0 Qc QcS.
Proof.
  intros x. unfold keep_entry. cbn [nre_ltb nabs nmul QcS]. replace (Qcabs 1 * 0) with 0 by ring. apply qabs_not_pos.
Qed.

(** * The Hubbard atom *)
Definition qz (k : Z) : Qc := Q2Qc (inject_Z k).
Definition hub_E : list Qc := [qz 0; qz (-1); qz (-1); qz 1].
Definition hub_U : mat Qc := [[1; 0; 0; 0]; [0; 1; 0; 0]; [0; 0; 1; 0]; [0; 0; 0; 1]].
(** H = -1 (n_0 + n_1) + 3 n_0 n_1  (normal-ordered: c^+_0 c^+_1 c_1 c_0) *)
Definition hub_h : poly Qc := [([cdag 0; cann 0], qz (-1)); ([cdag 1; cann 1], qz (-1)); ([cdag 0; cdag 1; cann 1; cann 0], qz 3)].
Definition hub_z : Qc := 1 / (1 + 1).

Definition hub_run := spine_gf Qc QcS true 0 1 0 T0 true false (one_block 2) ((hub_E, hub_U) :: nil) 1 0 0.

(** the block of HamiltonianPart::prepare is the Jordan-Wigner matrix of h, and (E, U) is its exact eigen-decomposition *)
Example hub_certificate :
  exists Hb, spine_hblocks Qc QcS true 0 (one_block 2) hub_h = Done (Hb :: nil) /\
    Hb = poly_matrix Qc QcS 2 hub_h /\
    residual_HU Qc QcS 4 Hb hub_U hub_E = 0 /\ residual_unitary Qc QcS 4 hub_U = 0.
Proof.
  eexists. split; [vm_compute; reflexivity|]. split; [vm_compute; reflexivity|].
  split; apply Qc_is_canon; vm_compute; reflexivity.
Qed.

Lemma hub_U_square : square Qc (Nat.pow 2 2) hub_U.
Proof. split; [reflexivity|]. intros i Hi. do 4 (destruct i as [|i]; [reflexivity|]). cbn in Hi. lia. Qed.

(** the pipeline runs to completion, and by the spine theorem its value is the specification's Lehmann sum *)
Example hub_spine :
  exists parts, hub_run = Done (WDone parts) /\
    gf_value Qc QcS parts hub_z =
    gf Qc QcS hub_E (weights Qc QcS 1 hub_E) (rotate Qc QcS 4 hub_U (op_matrix Qc QcS 2 (cann 0)))
       (rotate Qc QcS 4 hub_U (op_matrix Qc QcS 2 (cdag 0))) hub_z.
Proof.
  destruct hub_run as [[parts| | |]| | | |] eqn:E; try (vm_compute in E; discriminate E).
  exists parts. split; [reflexivity|].
  exact (spine_gf_one_block Qc QcS Qcinv QcS_ring QcS_div eq_refl true 0 eq_refl eq_refl eq_refl eq_refl 1 0 keep0
           T0 T0_rel T0_cmp 2 hub_E hub_U eq_refl hub_U_square 0 0 ltac:(lia) ltac:(lia) true false 1 hub_z parts E).
Qed.

(** ... and that value is not zero: G_00(1/2) = (9/17)/(1/2+1) + (8/17)/(1/2-2) = 2/51 (poles -1 and 2, residues w_0+w_1 and w_2+w_3) *)
Definition hub_value : Qc :=
  match hub_run with Done (WDone parts) => gf_value Qc QcS parts hub_z | _ => 0 end.
Example hub_value_nonzero : hub_value = Q2Qc (2 # 51) /\ hub_value <> 0.
Proof.
  assert (E : hub_value = Q2Qc (2 # 51)) by (apply Qc_is_canon; vm_compute; reflexivity).
  split; [exact E|]. rewrite E. intros H. apply (f_equal this) in H. vm_compute in H. discriminate H.
Qed.

(** * The same atom with the partition by (N, S_z): four blocks of one state each -- a non-trivial instance of the
    hypotheses [partition_ok], [eig_ok], [op_ok] of the general theorem [spine_gf_partition] *)
Definition S4 : classification := classification_of_blocks 2 ((0 :: nil) :: (1 :: nil) :: (2 :: nil) :: (3 :: nil) :: nil)%nat.
Definition ED4 : eigdata Qc :=
  ((qz 0 :: nil, (1 :: nil) :: nil) :: (qz (-1) :: nil, (1 :: nil) :: nil) :: (qz (-1) :: nil, (1 :: nil) :: nil) :: (qz 1 :: nil, (1 :: nil) :: nil) :: nil).
Definition pairsC4 : list (nat * nat) := ((0, 1) :: (2, 3) :: nil)%nat.      (* c_0:   |up> -> |0>,  |up dn> -> |dn> *)
Definition pairsCX4 : list (nat * nat) := ((1, 0) :: (3, 2) :: nil)%nat.     (* c^+_0: |0> -> |up>,  |dn> -> |up dn> *)

Lemma S4_partition_ok : partition_ok S4.
Proof.
  constructor.
  - split.
    + intros b sts Hb. do 4 (destruct b as [|b]; [cbn in Hb; injection Hb as <-; constructor; [intros []|constructor]|]).
      destruct b; discriminate Hb.
    + intros b sts s Hb Hs.
      do 4 (destruct b as [|b]; [cbn in Hb; injection Hb as <-; destruct Hs as [<-|[]]; split; [cbn; lia|reflexivity]|]).
      destruct b; discriminate Hb.
  - intros s Hs. change (state_size S4) with 4%nat in Hs.
    do 4 (destruct s as [|s]; [split; [cbn; lia|cbn; auto]|]). lia.
  - reflexivity.
Qed.

Lemma S4_eig_ok : eig_ok Qc S4 ED4.
Proof.
  constructor.
  - reflexivity.
  - intros b Hb. cbn in Hb. do 4 (destruct b as [|b]; [reflexivity|]). lia.
  - intros b Hb. cbn in Hb.
    do 4 (destruct b as [|b]; [split; [reflexivity|]; intros r Hr; cbn in Hr; destruct r; [reflexivity|lia]|]). lia.
Qed.

Lemma S4_opC_ok : op_ok Qc QcS true 0 S4 (FC 0) pairsC4.
Proof.
  constructor.
  - repeat constructor.
  - vm_compute. reflexivity.
  - reflexivity.
  - intros L R [H|[H|[]]]; injection H as <- <-; cbn; lia.
  - intros L R s t sg [H|[H|[]]] Hs Ht; injection H as <- <-; cbn in Hs; destruct Hs as [<-|[]];
      vm_compute in Ht; injection Ht as <- _; cbn; auto.
  - intros R s t sg HR Hs Ht. cbn in HR.
    do 4 (destruct R as [|R]; [cbn in Hs; destruct Hs as [<-|[]]; vm_compute in Ht; try discriminate Ht;
                               eexists; ((left; reflexivity) || (right; left; reflexivity))|]). lia.
Qed.

Lemma S4_opCX_ok : op_ok Qc QcS true 0 S4 (FCdag 0) pairsCX4.
Proof.
  constructor.
  - repeat constructor.
  - vm_compute. reflexivity.
  - reflexivity.
  - intros L R [H|[H|[]]]; injection H as <- <-; cbn; lia.
  - intros L R s t sg [H|[H|[]]] Hs Ht; injection H as <- <-; cbn in Hs; destruct Hs as [<-|[]];
      vm_compute in Ht; injection Ht as <- _; cbn; auto.
  - intros R s t sg HR Hs Ht. cbn in HR.
    do 4 (destruct R as [|R]; [cbn in Hs; destruct Hs as [<-|[]]; vm_compute in Ht; try discriminate Ht;
                               eexists; ((left; reflexivity) || (right; left; reflexivity))|]). lia.
Qed.

Definition hub_run4 := spine_gf Qc QcS true 0 1 0 T0 true false S4 ED4 1 0 0.

Example hub_spine4 :
  exists parts D, hub_run4 = Done (WDone parts) /\ spine_dm Qc QcS 1 S4 ED4 = Done D /\
    gf_value Qc QcS parts hub_z =
    gf Qc QcS (assembled_E Qc ED4) (assembled_w Qc D)
       (rotate Qc QcS 4 (assembled_U Qc QcS S4 ED4) (op_matrix Qc QcS 2 (cann 0)))
       (rotate Qc QcS 4 (assembled_U Qc QcS S4 ED4) (op_matrix Qc QcS 2 (cdag 0))) hub_z.
Proof.
  destruct hub_run4 as [[parts| | |]| | | |] eqn:E; try (vm_compute in E; discriminate E).
  destruct (spine_gf_partition Qc QcS Qcinv QcS_ring QcS_div eq_refl true 0 eq_refl eq_refl eq_refl eq_refl 1 0 keep0
              T0 T0_rel T0_cmp S4 ED4 0 0 pairsC4 pairsCX4 S4_partition_ok S4_eig_ok S4_opC_ok S4_opCX_ok
              true false 1 hub_z parts E) as [D [HD Hv]].
  exists parts, D. split; [reflexivity|]. split; [exact HD|exact Hv].
Qed.

(** two parts (block pairs (0,1) and (2,3)), the same non-zero value as with one block, and the assembled data are those of
    the one-block run *)
Definition hub_value4 : Qc :=
  match hub_run4 with Done (WDone parts) => gf_value Qc QcS parts hub_z | _ => 0 end.
Example hub_value4_nonzero :
  hub_value4 = Q2Qc (2 # 51) /\ hub_value4 <> 0 /\
  match hub_run4 with Done (WDone parts) => map fst parts = ((0, 1) :: (2, 3) :: nil)%nat | _ => False end /\
  assembled_E Qc ED4 = hub_E /\ assembled_U Qc QcS S4 ED4 = hub_U.
Proof.
  assert (E : hub_value4 = Q2Qc (2 # 51)) by (apply Qc_is_canon; vm_compute; reflexivity).
  split; [exact E|]. split; [rewrite E; intros H; apply (f_equal this) in H; vm_compute in H; discriminate H|].
  split; [vm_compute; reflexivity|]. split; [reflexivity|vm_compute; reflexivity].
Qed.
