(** Stage 3 of the spine, PROOFS: the value computed by the model pipeline [SpineBridgeEA.spine_ea] for <c^+_i c_j> equals
    Tr(rho O) = EDSpec.trace_rho on the FULL Fock space, with the assembled weights and O = U^+ (c^+_i c_j) U rotated by the
    assembled eigenvector matrix -- for any partition satisfying [partition_ok] and [op_ok] for the quadratic operator
    ([spine_ea_partition]), hence for the partition produced by the symmetry-analysis model ([spine_ea_symmetry]; both
    hypotheses discharged from C07 by PV.SpineBridge).  Only diagonal block pairs contribute (EnsembleAverage.cpp:14-42), the
    other diagonal blocks of the rotated operator vanish because the operator maps each block into at most one block.
    Commutative ring; conj 0 = 0; pruning tolerance 0 ([Hkeep]).  No axioms. *)
Require Import Bool List Arith Lia Ring Ring_theory.
From PV Require Import Outcome Fock Poly PolySem EDSpec HPart HPartSpec HPartProofs Sparse SparseProofs BigSum
     TermList GFPart GFPartProofs GFFullProofs Spine SpineLinAlg SpinePartition SpineBridge SpineBridgeEA.
From PV Require Symm SymmProofs PartitionInvariance Thermal.
Import ListNotations.

Section EA.
Variable K : Type.
Variable NO : numops K.
Notation k0 := (n0 K NO).
Notation k1 := (n1 K NO).
Notation kadd := (nadd K NO).
Notation ksub := (nsub K NO).
Notation kmul := (nmul K NO).
Notation kopp := (nopp K NO).
Notation ltb := (nre_ltb K NO).
Notation kabs := (nabs K NO).
Hypothesis Kr : ring_theory k0 k1 kadd kmul ksub kopp (@eq K).
Hypothesis conj0 : nconj K NO k0 = k0.
Add Ring KringSEA : Kr.
Notation bsum := (bigsum K k0 kadd).
Let BS_ext := @bigsum_ext K k0 kadd.
Let BS_zero := @bigsum_zero K k0 k1 kadd kmul ksub kopp Kr.

Variable fb : bool.
Variable eps : K.
Hypothesis one_not_small : ltb (kabs k1) eps = false.
Hypothesis mone_not_small : ltb (kabs (kopp k1)) eps = false.
Hypothesis one_large : ltb eps (kabs k1) = true.
Hypothesis mone_large : ltb eps (kabs (kopp k1)) = true.
Variables reference prec : K.
Hypothesis Hkeep : forall x, keep_entry K NO reference prec x = false -> x = k0.

Variable S : classification.
Variable ED : eigdata K.
Hypothesis PO : partition_ok S.
Hypothesis EO : eig_ok K S ED.
Notation nb := (length (sc_states S)).
Notation dimf := (block_size S).
Notation N := (state_size S).
Notation offs := (off (block_size S)).
Notation Ug := (assembled_U K NO S ED).

Variables i j : nat.
Notation o := (FQuad i j).
Variable prs : list (nat * nat).
Hypothesis OO : op_ok K NO fb eps S o prs.
Variable D : list (Thermal.dmpart K).
Hypothesis DO : dm_ok K NO S D.
Variable qparts : list ((nat * nat) * mat K).
Hypothesis HQ : op_compute K NO fb eps S ED o = Done qparts.

Notation lv := (Symm.left_view (fo_bimap (map fst qparts))).
Notation dflt := (Thermal.mk_dmpart K [] k0 false).

Lemma lv_in lr : In lr lv <-> In lr prs.
Proof. unfold Symm.left_view. rewrite PartitionInvariance.sort_by_In. rewrite (bimap_parts K NO fb eps S ED o prs OO qparts HQ). reflexivity. Qed.

Lemma lv_nodup_fst : NoDup (map fst lv).
Proof. unfold Symm.left_view. apply PartitionInvariance.sort_by_keys_nodup. exact (proj1 (hp_fo_bimap_wf _)). Qed.

Lemma lv_nodup : NoDup lv.
Proof. exact (NoDup_map_inv fst lv lv_nodup_fst). Qed.

(** EnsembleAverage::prepare: the sum of the contributions of the diagonal parts *)
Definition ea_term (p : Thermal.oppart K) : K :=
  if Thermal.op_left K p =? Thermal.op_right K p
  then Thermal.ea_compute K k0 kadd kmul p (nth (Thermal.op_left K p) D dflt) else k0.

Lemma ea_prepare_sum (A : Thermal.fieldop K) : NoDup (map (Thermal.op_left K) A) ->
  (forall p, In p A -> Thermal.op_left K p < nb) ->
  Thermal.ea_prepare K k0 kadd kmul A D = Done (bsum A ea_term).
Proof.
  intros Hnd Hlt. unfold Thermal.ea_prepare.
  assert (G : forall l acc, incl l A ->
    fold_left (fun acc p => bind acc (fun r =>
       if Thermal.op_left K p =? Thermal.op_right K p then
         if Thermal.is_retained K D (Thermal.op_left K p) then
           match Thermal.get_part_from_left K A (Thermal.op_left K p), nth_error D (Thermal.op_left K p) with
           | Some Apart, Some dp => Done (kadd r (Thermal.ea_compute K k0 kadd kmul Apart dp))
           | _, _ => OOB
           end
         else Done r
       else Done r)) l (Done acc) = Done (kadd acc (bsum l ea_term))).
  { induction l as [|p l IH]; intros acc Hin; cbn [fold_left bigsum]; [f_equal; ring|].
    assert (Hp : In p A) by (apply Hin; left; reflexivity).
    assert (Hl : incl l A) by (intros x Hx; apply Hin; right; exact Hx).
    cbn [bind]. unfold ea_term at 1. destruct (Thermal.op_left K p =? Thermal.op_right K p).
    - rewrite (do_ret K NO S D DO _ (Hlt p Hp)).
      assert (Hf : Thermal.get_part_from_left K A (Thermal.op_left K p) = Some p).
      { unfold Thermal.get_part_from_left. exact (find_unique (Thermal.op_left K) A p Hnd Hp). }
      rewrite Hf. rewrite (nth_error_nth' D dflt) by (rewrite (do_len K NO S D DO); exact (Hlt p Hp)).
      rewrite (IH _ Hl). f_equal. ring.
    - rewrite (IH _ Hl). f_equal. ring. }
  rewrite (G A k0 (incl_refl A)). f_equal. ring.
Qed.

Lemma coeff_prune (Dm : mat K) n m : n < length Dm -> m < length (nth n Dm []) ->
  Thermal.coeff K k0 (prune K NO reference prec Dm) n m = mget K NO Dm n m.
Proof.
  intros Hn Hm. unfold Thermal.coeff, prune.
  set (g := fun x : K => if keep_entry K NO reference prec x then x else k0).
  rewrite (nth_indep _ [] (map g [])) by (rewrite map_length; exact Hn). rewrite (map_nth (map g) Dm [] n).
  rewrite (nth_indep _ k0 (g k0)) by (rewrite map_length; exact Hm). rewrite (map_nth g (nth n Dm []) k0 m).
  unfold g. exact (keep_id K NO reference prec Hkeep _).
Qed.

(** contribution of block L: sum_n <L,n| O |L,n> w_{L,n}, the matrix element written as in [SpinePartition.rot_term] *)
Definition diag_block (L : nat) : K :=
  bsum (seq 0 (dimf L)) (fun n => kmul (bsum (seq 0 (dimf L)) (rot_term K NO S ED o L L n n)) (nth n (Wof K NO D L) k0)).

Lemma ea_term_part lr : In lr lv -> ea_term (ea_part K NO reference prec qparts lr) = if fst lr =? snd lr then diag_block (fst lr) else k0.
Proof.
  intros Hin. apply lv_in in Hin. destruct lr as [L R]. unfold ea_term, ea_part. cbn [Thermal.op_left Thermal.op_right Thermal.op_mat fst snd].
  destruct (Nat.eqb_spec L R) as [<-|_]; [|reflexivity].
  destruct (part_of_pair K NO Kr fb eps one_not_small mone_not_small one_large mone_large S ED PO EO o prs OO qparts HQ L L Hin)
    as [Dm [Hf [_ [Hlen [Hrow Hent]]]]].
  rewrite Hf. unfold Thermal.ea_compute. cbn [Thermal.op_mat Thermal.op_left Thermal.op_right].
  replace (length (prune K NO reference prec Dm)) with (dimf L) by (unfold prune; rewrite map_length; symmetry; exact Hlen).
  rewrite (bsum_fold K NO Kr (dimf L)
             (fun n => kmul (Thermal.coeff K k0 (prune K NO reference prec Dm) n n) (nth n (Thermal.dp_weights K (nth L D dflt)) k0))).
  unfold diag_block. apply BS_ext. intros n Hn. apply in_seq in Hn.
  rewrite coeff_prune by (rewrite ?Hrow; lia). rewrite (Hent n n) by lia. reflexivity.
Qed.

Lemma W_entry b n : b < nb -> n < dimf b -> nth (offs b + n) (assembled_w K D) k0 = nth n (Wof K NO D b) k0.
Proof.
  intros Hb Hn. unfold assembled_w. rewrite (offs_concat S (map (Thermal.dp_weights K) D) k0 b n); try assumption.
  - unfold Wof. change (@nil K) with (Thermal.dp_weights K dflt). rewrite map_nth. reflexivity.
  - rewrite map_length. exact (do_len K NO S D DO).
  - intros b' Hb'. change (@nil K) with (Thermal.dp_weights K dflt). rewrite map_nth. exact (do_W K NO S D DO b' Hb').
Qed.

Notation Om := (rotate K NO N Ug (poly_matrix K NO (sc_M S) (fop_poly K NO o))).

Theorem ea_value : Thermal.ea_prepare K k0 kadd kmul (ea_parts K NO reference prec qparts) D = Done (trace_rho K NO (assembled_w K D) Om).
Proof.
  unfold ea_parts. rewrite ea_prepare_sum.
  2:{ rewrite map_map. cbn [ea_part Thermal.op_left]. exact lv_nodup_fst. }
  2:{ intros p Hp. apply in_map_iff in Hp. destruct Hp as [[L R] [<- Hin]]. cbn [ea_part Thermal.op_left fst].
      apply lv_in in Hin. exact (proj1 (oo_pairs K NO fb eps S o prs OO L R Hin)). }
  f_equal. rewrite (bigsum_map K (n0 K NO) (nadd K NO)).
  (* left: a sum over the blocks *)
  transitivity (bsum (seq 0 nb) (fun L => if memb (L, L) lv then diag_block L else k0)).
  { transitivity (bsum lv (fun lr => if fst lr =? snd lr then diag_block (fst lr) else k0)).
    { apply BS_ext. exact ea_term_part. }
    rewrite (sum_over_pairs K NO Kr nb lv _ lv_nodup)
      by (intros [L R] Hin; apply lv_in in Hin; exact (oo_pairs K NO fb eps S o prs OO L R Hin)).
    apply BS_ext. intros L HL. apply in_seq in HL. cbn [fst snd].
    transitivity (bsum (seq 0 nb) (fun R => if L =? R then (if memb (L, R) lv then diag_block L else k0) else k0)).
    { apply BS_ext. intros R _. destruct (memb (L, R) lv); destruct (L =? R); reflexivity. }
    rewrite (bigsum_delta_seq K k0 k1 kadd kmul ksub kopp Kr 0 nb L).
    destruct (Nat.leb_spec 0 L); [|lia]. destruct (Nat.ltb_spec L (0 + nb)); [reflexivity|lia]. }
  (* right: the trace over the global index, block by block *)
  unfold trace_rho. set (OM := Om).
  rewrite (ksum_idx K NO Kr (fun g row => kmul (nth g (assembled_w K D) k0) (nth g row k0)) [] OM).
  replace (length OM) with (offs nb) by (unfold OM; rewrite rotate_length; exact (offs_total S PO)).
  rewrite (bsum_blocks K NO Kr dimf _ nb). unfold OM.
  apply BS_ext. intros b Hb. apply in_seq in Hb.
  assert (Hent : forall n, n < dimf b ->
            nth (offs b + n) (nth (offs b + n) Om []) k0 = bsum (seq 0 (dimf b)) (rot_term K NO S ED o b b n n)).
  { intros n Hn. exact (rotated_block_entry K NO Kr conj0 S ED PO EO o b b n n ltac:(lia) ltac:(lia) Hn Hn). }
  destruct (memb (b, b) lv) eqn:Mb.
  - unfold diag_block. apply BS_ext. intros n Hn. apply in_seq in Hn.
    rewrite (W_entry b n) by lia. rewrite (Hent n) by lia. ring.
  - symmetry. apply BS_zero. intros n Hn. apply in_seq in Hn. rewrite (Hent n) by lia.
    rewrite BS_zero; [ring|]. intros k Hk. apply in_seq in Hk.
    apply (rot_term_zero K NO fb eps S ED PO o prs OO b b n n k); try lia.
    intro Hin. apply lv_in in Hin. apply memb_in in Hin. congruence.
Qed.

End EA.

(** * The spine theorem for the ensemble average: any partition satisfying C07's conclusions *)
Theorem spine_ea_partition (K : Type) (NO : numops K)
  (Kr : ring_theory (n0 K NO) (n1 K NO) (nadd K NO) (nmul K NO) (nsub K NO) (nopp K NO) (@eq K))
  (conj0 : nconj K NO (n0 K NO) = n0 K NO)
  (fb : bool) (eps : K)
  (one_not_small : nre_ltb K NO (nabs K NO (n1 K NO)) eps = false)
  (mone_not_small : nre_ltb K NO (nabs K NO (nopp K NO (n1 K NO))) eps = false)
  (one_large : nre_ltb K NO eps (nabs K NO (n1 K NO)) = true)
  (mone_large : nre_ltb K NO eps (nabs K NO (nopp K NO (n1 K NO))) = true)
  (reference prec : K) (Hkeep : forall x, keep_entry K NO reference prec x = false -> x = n0 K NO)
  (S : classification) (ED : eigdata K) (i j : nat) (prs : list (nat * nat)) :
  partition_ok S -> eig_ok K S ED -> op_ok K NO fb eps S (FQuad i j) prs ->
  forall (beta : K) D, spine_dm K NO beta S ED = Done D ->
  spine_ea K NO fb eps reference prec S ED beta i j =
  Done (trace_rho K NO (assembled_w K D)
          (rotate K NO (state_size S) (assembled_U K NO S ED)
             (poly_matrix K NO (sc_M S) (p_n_offdiag K (n1 K NO) i j)))).
Proof.
  intros PO EO OO beta D HD. unfold spine_ea. rewrite HD. cbn [bind].
  destruct (op_compute_spec K NO Kr fb eps one_not_small mone_not_small one_large mone_large S ED PO EO (FQuad i j) prs OO) as [qparts HQ].
  rewrite HQ. cbn [bind].
  exact (ea_value K NO Kr conj0 fb eps one_not_small mone_not_small one_large mone_large reference prec Hkeep S ED PO EO i j prs OO
           D (spine_dm_ok K NO S ED EO D beta HD) qparts HQ).
Qed.

(** * ... on the partition produced by the symmetry-analysis model (no inter-layer hypothesis left) *)
Theorem spine_ea_symmetry (KS : Type) (s0 s1 : KS) (sadd smul ssub : KS -> KS -> KS) (sopp : KS -> KS) (szero : KS -> bool)
  (SRING : ring_ok KS s0 s1 sadd smul ssub sopp szero) (S10 : s1 <> s0)
  (N : nat) (ops : list (poly KS)) (c : Symm.qclass KS)
  (Hops : Forall (poly_in_range KS N) ops)
  (Ec : Symm.sc_compute KS s0 sadd ssub sopp szero N ops = Done c)
  (Hush : Forall (SymmProofs.uniform_shift KS s0 s1 sadd smul sopp N) ops)
  (K : Type) (NO : numops K)
  (Kr : ring_theory (n0 K NO) (n1 K NO) (nadd K NO) (nmul K NO) (nsub K NO) (nopp K NO) (@eq K))
  (conj0 : nconj K NO (n0 K NO) = n0 K NO)
  (fb : bool) (eps : K)
  (one_not_small : nre_ltb K NO (nabs K NO (n1 K NO)) eps = false)
  (mone_not_small : nre_ltb K NO (nabs K NO (nopp K NO (n1 K NO))) eps = false)
  (one_large : nre_ltb K NO eps (nabs K NO (n1 K NO)) = true)
  (mone_large : nre_ltb K NO eps (nabs K NO (nopp K NO (n1 K NO))) = true)
  (reference prec : K) (Hkeep : forall x, keep_entry K NO reference prec x = false -> x = n0 K NO)
  (ED : eigdata K) (i j : nat) :
  i < N -> j < N -> eig_ok K (bridge N c) ED ->
  forall (beta : K) D, spine_dm K NO beta (bridge N c) ED = Done D ->
  spine_ea K NO fb eps reference prec (bridge N c) ED beta i j =
  Done (trace_rho K NO (assembled_w K D)
          (rotate K NO (Nat.pow 2 N) (assembled_U K NO (bridge N c) ED)
             (poly_matrix K NO N (p_n_offdiag K (n1 K NO) i j)))).
Proof.
  intros Hi Hj EO beta D HD.
  exact (spine_ea_partition K NO Kr conj0 fb eps one_not_small mone_not_small one_large mone_large reference prec Hkeep
           (bridge N c) ED i j _
           (symm_partition_ok KS s0 s1 sadd smul ssub sopp szero SRING N ops c Hops Ec) EO
           (symm_op_ok KS s0 s1 sadd smul ssub sopp szero SRING S10 N ops c Hops Ec Hush K NO fb eps one_not_small mone_not_small
              (FQuad i j) (conj Hi Hj)) beta D HD).
Qed.
