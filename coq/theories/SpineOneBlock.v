(** Stage 1 of the spine: the one-block partition (symmetries ignored).  Every inter-layer hypothesis of
    [SpinePartition.spine_gf_partition] is discharged from the definitions: the partition facts ([partition_ok]), the
    block map of each operator ([op_ok]); the assembled data collapse to the block's own data (E, w, U) and the
    weights of the Thermal model are the Gibbs weights of the specification ([EDSpec.weights]). *)
Require Import Bool List Arith Lia Ring Ring_theory.
From PV Require Import Outcome Fock Poly PolySem EDSpec HPart HPartSpec HPartProofs Sparse BigSum
     TermList GFPart GFPartProofs GFFullProofs Spine SpineLinAlg SpinePartition.
From PV Require Thermal.
From PVgen Require Import Gen_C01.
Import ListNotations.

Section OneBlock.
Variable K : Type.
Variable NO : numops K.
Notation k0 := (n0 K NO).
Notation k1 := (n1 K NO).
Notation kadd := (nadd K NO).
Notation ksub := (nsub K NO).
Notation kmul := (nmul K NO).
Notation kdiv := (ndiv K NO).
Notation kopp := (nopp K NO).
Notation ltb := (nre_ltb K NO).
Notation kabs := (nabs K NO).
Variable kinv : K -> K.
Hypothesis Kr : ring_theory k0 k1 kadd kmul ksub kopp (@eq K).
Hypothesis Kdiv : forall a b, kdiv a b = kmul a (kinv b).
Hypothesis conj0 : nconj K NO k0 = k0.
Add Ring KringOB : Kr.

Variable fb : bool.
Variable eps : K.
Hypothesis one_not_small : ltb (kabs k1) eps = false.
Hypothesis mone_not_small : ltb (kabs (kopp k1)) eps = false.
Hypothesis one_large : ltb eps (kabs k1) = true.
Hypothesis mone_large : ltb eps (kabs (kopp k1)) = true.

Variable M : nat.
Notation N := (Nat.pow 2 M).
Notation S1 := (one_block M).

Lemma existsb_seq s n : s < n -> existsb (Nat.eqb s) (seq 0 n) = true.
Proof. intros H. apply existsb_exists. exists s. split; [apply in_seq; lia|apply Nat.eqb_refl]. Qed.

Lemma S1_index s : s < N -> nth_error (sc_index S1) s = Some 0.
Proof.
  intros H. unfold one_block, classification_of_blocks. cbn [sc_index].
  assert (Hs : nth_error (seq 0 N) s = Some s).
  { rewrite nth_error_nth' with (d := 0) by (rewrite seq_length; exact H). rewrite seq_nth by exact H. reflexivity. }
  erewrite map_nth_error; [|exact Hs]. cbn [block_containing]. rewrite existsb_seq by exact H. reflexivity.
Qed.

Lemma S1_wf : wf_class S1.
Proof.
  split.
  - intros b sts Hb. destruct b as [|b]; cbn in Hb; [|destruct b; discriminate]. injection Hb as <-. apply seq_NoDup.
  - intros b sts s Hb Hs. destruct b as [|b]; cbn in Hb; [|destruct b; discriminate]. injection Hb as <-.
    apply in_seq in Hs. split; [exact (proj2 Hs)|]. apply S1_index. lia.
Qed.

Lemma S1_block_of s : s < N -> block_of S1 s = 0.
Proof. intros H. unfold block_of. apply (nth_error_nth _ _ 0 (S1_index s H)). Qed.

Lemma S1_partition_ok : partition_ok S1.
Proof.
  constructor.
  - exact S1_wf.
  - intros s Hs. change (state_size S1) with N in Hs. rewrite (S1_block_of s Hs). split; [cbn; lia|]. cbn. apply in_seq. lia.
  - cbn [one_block classification_of_blocks sc_states concat]. rewrite app_nil_r, seq_length. reflexivity.
Qed.

Lemma S1_pos_in s : s < N -> pos_in S1 s = s.
Proof.
  intros H. unfold pos_in. rewrite (S1_block_of s H). cbn [one_block classification_of_blocks sc_states nth].
  rewrite (find_pos_nth (seq 0 N) s s 0 (seq_NoDup _ _)); [reflexivity|].
  rewrite nth_error_nth' with (d := 0) by (rewrite seq_length; exact H). rewrite seq_nth by exact H. reflexivity.
Qed.

(** ** the block map of an operator *)
Variable o : fop.
Hypothesis o_range : mono_in_range M (fop_mono o).

Fixpoint first_tgt (l : list nat) : option nat :=
  match l with
  | [] => None
  | s :: t => match tgt_of K NO M o s with Some (L, _) => Some L | None => first_tgt t end
  end.

Lemma first_image_spec l : first_image K NO eps M (fop_poly K NO o) l = Done (first_tgt l).
Proof.
  induction l as [|s t IH]; [reflexivity|]. cbn [first_image first_tgt].
  rewrite (act_map_fop K NO eps one_not_small mone_not_small M o s o_range). cbn [bind].
  destruct (tgt_of K NO M o s) as [[L sg]|]; [reflexivity|exact IH].
Qed.

Lemma first_tgt_none l : first_tgt l = None -> forall s, In s l -> tgt_of K NO M o s = None.
Proof.
  induction l as [|x t IH]; intros H s Hs; [destruct Hs|]. cbn [first_tgt] in H.
  destruct (tgt_of K NO M o x) as [[L sg]|] eqn:E; [discriminate|]. destruct Hs as [<-|Hs]; [exact E|apply IH; assumption].
Qed.
Lemma first_tgt_some l L : first_tgt l = Some L -> exists s sg, In s l /\ tgt_of K NO M o s = Some (L, sg).
Proof.
  induction l as [|x t IH]; intros H; [discriminate|]. cbn [first_tgt] in H.
  destruct (tgt_of K NO M o x) as [[L' sg]|] eqn:E.
  - injection H as <-. exists x, sg. split; [left; reflexivity|exact E].
  - destruct (IH H) as [s [sg [Hs Ht]]]. exists s, sg. split; [right; exact Hs|exact Ht].
Qed.

Definition one_block_pairs : list (nat * nat) :=
  match first_tgt (seq 0 N) with Some _ => [(0, 0)] | None => [] end.

Lemma S1_tgt_range s t sg : tgt_of K NO M o s = Some (t, sg) -> t < N.
Proof. exact (tgt_of_range K NO S1 o s t sg). Qed.

Lemma S1_op_ok : op_ok K NO fb eps S1 o one_block_pairs.
Proof.
  constructor.
  - exact o_range.
  - unfold fo_prepare, one_block_pairs. change (sc_states S1) with [seq 0 N]. cbn [length seq fold_left bind].
    unfold mapsTo, getFockStates. change (sc_states S1) with [seq 0 N]. change (sc_M S1) with M.
    cbn [nth_error bind]. rewrite first_image_spec. cbn [bind].
    destruct (first_tgt (seq 0 N)) as [L|] eqn:E; [|reflexivity].
    destruct (first_tgt_some _ L E) as [s [sg [_ Ht]]]. pose proof (S1_tgt_range s L sg Ht) as HL.
    rewrite (getBlockNumber_wf fb S1 0 (seq 0 N) L S1_wf eq_refl) by (apply in_seq; lia). reflexivity.
  - unfold one_block_pairs. destruct (first_tgt (seq 0 N)); reflexivity.
  - unfold one_block_pairs. intros L R H. destruct (first_tgt (seq 0 N)); [|destruct H].
    destruct H as [H|[]]. injection H as <- <-. cbn. lia.
  - intros L R s t sg H _ Ht. unfold one_block_pairs in H. destruct (first_tgt (seq 0 N)); [|destruct H].
    destruct H as [H|[]]. injection H as <- <-. cbn. apply in_seq. pose proof (S1_tgt_range s t sg Ht). lia.
  - intros R s t sg HR Hs Ht. cbn in HR. assert (R = 0) by lia. subst R. cbn in Hs.
    unfold one_block_pairs. destruct (first_tgt (seq 0 N)) eqn:E; [exists 0; left; reflexivity|].
    change (sc_M S1) with M in Ht. rewrite (first_tgt_none _ E s Hs) in Ht. discriminate.
Qed.

End OneBlock.

Section OneBlockSpine.
Variable K : Type.
Variable NO : numops K.
Notation k0 := (n0 K NO).
Notation k1 := (n1 K NO).
Notation kadd := (nadd K NO).
Notation ksub := (nsub K NO).
Notation kmul := (nmul K NO).
Notation kdiv := (ndiv K NO).
Notation kopp := (nopp K NO).
Notation ltb := (nre_ltb K NO).
Notation kabs := (nabs K NO).
Variable kinv : K -> K.
Hypothesis Kr : ring_theory k0 k1 kadd kmul ksub kopp (@eq K).
Hypothesis Kdiv : forall a b, kdiv a b = kmul a (kinv b).
Hypothesis conj0 : nconj K NO k0 = k0.
Add Ring KringOB2 : Kr.
Variable fb : bool.
Variable eps : K.
Hypothesis one_not_small : ltb (kabs k1) eps = false.
Hypothesis mone_not_small : ltb (kabs (kopp k1)) eps = false.
Hypothesis one_large : ltb eps (kabs k1) = true.
Hypothesis mone_large : ltb eps (kabs (kopp k1)) = true.
Variables reference prec : K.
Hypothesis Hkeep : forall x, keep_entry K NO reference prec x = false -> x = k0.
Variable T : tols K.
Hypothesis Hrel : forall R, gf_relevant K NO (t_matrix_element K T) R = false -> R = k0.
Hypothesis Hcmp : forall a b, gf_compare K NO (t_compare K T) a b = false -> gf_compare K NO (t_compare K T) b a = true.

Variable M : nat.
Notation N := (Nat.pow 2 M).
Notation S1 := (one_block M).
Variables (E : list K) (U : mat K).
Hypothesis E_len : length E = N.
Hypothesis U_sq : square K N U.

Lemma S1_eig_ok : eig_ok K S1 [(E, U)].
Proof.
  constructor.
  - reflexivity.
  - intros b Hb. cbn in Hb. assert (b = 0) by lia. subst b. cbn. rewrite seq_length. exact E_len.
  - intros b Hb. cbn in Hb. assert (b = 0) by lia. subst b. unfold block_size. cbn. rewrite seq_length. exact U_sq.
Qed.

(** the assembled data of one block are the block's own data *)
Lemma S1_assembled_E : assembled_E K [(E, U)] = E.
Proof. unfold assembled_E. cbn. apply app_nil_r. Qed.

Lemma S1_assembled_U : assembled_U K NO S1 [(E, U)] = U.
Proof.
  unfold assembled_U. change (state_size S1) with N.
  transitivity (map (fun s => nth s U []) (seq 0 N)); [|rewrite <- (proj1 U_sq); apply map_nth_seq_id].
  apply map_ext_in. intros s Hs. apply in_seq in Hs.
  cbn [length seq combine map concat]. rewrite app_nil_r. unfold useg. cbn [fst snd].
  rewrite (S1_block_of M s) by lia. cbn [Nat.eqb]. rewrite (S1_pos_in M s) by lia.
  apply nth_indep. rewrite (proj1 U_sq). lia.
Qed.

(** the weights of the Thermal model on one block are the Gibbs weights of the specification *)
Lemma S1_dm beta D : E <> [] -> spine_dm K NO beta S1 [(E, U)] = Done D ->
  assembled_w K D = weights K NO beta E.
Proof.
  intros HE. unfold spine_dm, Thermal.dm_compute, thermal_hparts.
  cbn [one_block classification_of_blocks sc_states combine map fst snd].
  unfold Thermal.ground_energy. cbn [Thermal.map_outcome Thermal.hp_eig].
  destruct E as [|e0 Et] eqn:EE; [congruence|]. cbn [Thermal.min_coeff bind].
  set (g := fold_left (fun acc y => if ltb y acc then y else acc) Et e0).
  assert (Hg : min_re K NO (e0 :: Et) = g) by reflexivity.
  set (El := e0 :: Et) in *. clearbody El g.
  intros H. injection H as <-. unfold assembled_w. cbn [map concat Thermal.dm_unnormalized Thermal.normalize Thermal.dp_weights
    Thermal.compute_unnormalized Thermal.hp_eig Thermal.dm_Z fold_left Thermal.dp_zpart].
  rewrite app_nil_r. unfold weights. rewrite Hg.
  rewrite map_map.
  assert (Hu : map (Thermal.unnormalized_weight K ksub kmul kopp (nexp K NO) beta g) El =
               map (fun e => nexp K NO (kopp (kmul beta (ksub e g)))) El).
  { apply map_ext. intros e. unfold Thermal.unnormalized_weight. f_equal. ring. }
  set (u := map (fun e => nexp K NO (kopp (kmul beta (ksub e g)))) El) in *.
  assert (HZ : kadd k0 (fold_left kadd u k0) = ksum K NO u (fun x => x)).
  { transitivity (fold_left kadd u k0); [ring|reflexivity]. }
  rewrite <- (map_map (Thermal.unnormalized_weight K ksub kmul kopp (nexp K NO) beta g)
                      (fun x => kdiv x (kadd k0 (fold_left kadd (map (Thermal.unnormalized_weight K ksub kmul kopp (nexp K NO) beta g) El) k0)))).
  rewrite Hu, HZ. reflexivity.
Qed.

(** * Stage 1: the spine theorem for the one-block partition *)
Theorem spine_gf_one_block (i j : nat) : i < M -> j < M ->
  forall (fixed lenient : bool) (beta z : K) (parts : list ((nat * nat) * part_out K)),
  spine_gf K NO fb eps reference prec T fixed lenient S1 [(E, U)] beta i j = Done (WDone parts) ->
  gf_value K NO parts z =
  gf K NO E (weights K NO beta E) (rotate K NO N U (op_matrix K NO M (cann i))) (rotate K NO N U (op_matrix K NO M (cdag j))) z.
Proof.
  intros Hi Hj fixed lenient beta z parts H.
  assert (Ri : mono_in_range M (fop_mono (FC i))) by (repeat constructor; exact Hi).
  assert (Rj : mono_in_range M (fop_mono (FCdag j))) by (repeat constructor; exact Hj).
  destruct (spine_gf_partition K NO kinv Kr Kdiv conj0 fb eps one_not_small mone_not_small one_large mone_large
              reference prec Hkeep T Hrel Hcmp S1 [(E, U)] i j _ _ (S1_partition_ok M) S1_eig_ok
              (S1_op_ok K NO fb eps one_not_small mone_not_small M (FC i) Ri)
              (S1_op_ok K NO fb eps one_not_small mone_not_small M (FCdag j) Rj)
              fixed lenient beta z parts H) as [D [HD Hv]].
  rewrite Hv. change (state_size S1) with N. change (sc_M S1) with M.
  rewrite S1_assembled_E, S1_assembled_U.
  rewrite (S1_dm beta D); [reflexivity| |exact HD].
  intros HE. rewrite HE in E_len. cbn in E_len. pose proof (Nat.pow_nonzero 2 M ltac:(lia)). lia.
Qed.

Lemma S1_dm_total beta : E <> [] -> exists D, spine_dm K NO beta S1 [(E, U)] = Done D.
Proof.
  intros HE. unfold spine_dm, Thermal.dm_compute, thermal_hparts.
  cbn [one_block classification_of_blocks sc_states combine map fst snd].
  unfold Thermal.ground_energy. cbn [Thermal.map_outcome Thermal.hp_eig].
  destruct E as [|e0 Et]; [congruence|]. cbn [Thermal.min_coeff bind]. eexists. reflexivity.
Qed.

(** with the repaired loops the one-block pipeline returns a value *)
Theorem spine_gf_one_block_total (i j : nat) : i < M -> j < M ->
  forall (lenient : bool) (beta : K),
  exists parts, spine_gf K NO fb eps reference prec T true lenient S1 [(E, U)] beta i j = Done (WDone parts).
Proof.
  intros Hi Hj lenient beta.
  assert (Ri : mono_in_range M (fop_mono (FC i))) by (repeat constructor; exact Hi).
  assert (Rj : mono_in_range M (fop_mono (FCdag j))) by (repeat constructor; exact Hj).
  assert (HE : E <> []).
  { intros HE. rewrite HE in E_len. cbn in E_len. pose proof (Nat.pow_nonzero 2 M ltac:(lia)). lia. }
  destruct (S1_dm_total beta HE) as [D HD].
  exact (spine_gf_partition_total K NO kinv Kr Kdiv conj0 fb eps one_not_small mone_not_small one_large mone_large
              reference prec Hkeep T S1 [(E, U)] i j _ _ (S1_partition_ok M) S1_eig_ok
              (S1_op_ok K NO fb eps one_not_small mone_not_small M (FC i) Ri)
              (S1_op_ok K NO fb eps one_not_small mone_not_small M (FCdag j) Rj) lenient beta D HD).
Qed.

End OneBlockSpine.
