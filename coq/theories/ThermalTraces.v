(** ThermalTraces.v -- the trace statements of C09 over ANY commutative ring with an involution, so that they
    cover both builds of pomerol: real matrix elements (K = R, conj = identity; this re-derives the theorems of
    ThermalProofs.v, section 4) and POMEROL_COMPLEX_MATRIX_ELEMENTS (K = C, conj = complex conjugation, weights
    and eigenvalues embedded as real complex numbers).

    The model functions are those of PV.Thermal at K; the only property of [kabs] that is used is
    |v*v| = v conj(v) ([kabs_sq]), which is how DensityMatrixPart computes |v|^2 (std::abs(v*v)).
    The specification is the density matrix rho = Sum_n w_n |n><n| on the full Fock space,
    rho f g = Sum_n w_n <f|n> conj(<g|n>), and Tr(rho O) = Sum_{f,g} rho f g O g f. *)
Require Import Bool List Arith Lia Ring Ring_theory.
From PV Require Import Outcome Thermal ThermalSpec ThermalProofs.
Import ListNotations.

Section Generic.
Variable K : Type.
Variables (k0 k1 : K) (kadd kmul ksub : K -> K -> K) (kopp : K -> K).
Hypothesis Kring : ring_theory k0 k1 kadd kmul ksub kopp (@eq K).
Add Ring Kr : Kring.
Variable conj : K -> K.
Variable kabs : K -> K.
Variable kofnat : nat -> K.
Hypothesis conj_0 : conj k0 = k0.
Hypothesis kabs_sq : forall v, kabs (kmul v v) = kmul v (conj v).
Hypothesis kofnat_0 : kofnat 0 = k0.
Hypothesis kofnat_1 : kofnat 1 = k1.

Notation "0" := k0.
Notation "1" := k1.
Infix "+" := kadd.
Infix "*" := kmul.

Notation Khpart := (hpart K).
Notation Kdmpart := (dmpart K).
Notation Koppart := (oppart K).

(** * finite sums in K *)
Fixpoint ksum {A : Type} (f : A -> K) (l : list A) : K :=
  match l with [] => 0 | a :: t => f a + ksum f t end.

Lemma kadd_0_l (x : K) : 0 + x = x.
Proof. ring. Qed.

Lemma fold_left_ksum {A} (f : A -> K) (l : list A) (x : K) :
  fold_left (fun acc a => acc + f a) l x = x + ksum f l.
Proof. revert x. induction l as [|a t IH]; intros x; cbn [fold_left ksum]; [ring|rewrite IH; ring]. Qed.

Lemma ksum_ext {A} (f g : A -> K) (l : list A) : (forall a, In a l -> f a = g a) -> ksum f l = ksum g l.
Proof.
  induction l as [|a t IH]; intros E; cbn [ksum]; [reflexivity|].
  rewrite (E a (or_introl eq_refl)), IH; [reflexivity|]. intros b Hb. apply E. right. exact Hb.
Qed.

Lemma ksum_map {A B} (f : B -> K) (g : A -> B) (l : list A) : ksum f (map g l) = ksum (fun a => f (g a)) l.
Proof. induction l as [|a t IH]; cbn [ksum map]; [reflexivity|rewrite IH; reflexivity]. Qed.

Lemma ksum_scal {A} (c : K) (f : A -> K) (l : list A) : ksum (fun a => c * f a) l = c * ksum f l.
Proof. induction l as [|a t IH]; cbn [ksum]; [ring|rewrite IH; ring]. Qed.

Lemma ksum_scal_r {A} (c : K) (f : A -> K) (l : list A) : ksum (fun a => f a * c) l = ksum f l * c.
Proof. induction l as [|a t IH]; cbn [ksum]; [ring|rewrite IH; ring]. Qed.

Lemma ksum_plus {A} (f g : A -> K) (l : list A) : ksum (fun a => f a + g a) l = ksum f l + ksum g l.
Proof. induction l as [|a t IH]; cbn [ksum]; [ring|rewrite IH; ring]. Qed.

Lemma ksum_zero {A} (f : A -> K) (l : list A) : (forall a, In a l -> f a = 0) -> ksum f l = 0.
Proof.
  induction l as [|a t IH]; intros E; cbn [ksum]; [reflexivity|].
  rewrite (E a (or_introl eq_refl)), IH; [ring|]. intros b Hb. apply E. right. exact Hb.
Qed.

Lemma ksum_swap {A B} (f : A -> B -> K) (l1 : list A) (l2 : list B) :
  ksum (fun a => ksum (fun b => f a b) l2) l1 = ksum (fun b => ksum (fun a => f a b) l1) l2.
Proof.
  induction l1 as [|a t IH]; cbn [ksum].
  - symmetry. apply ksum_zero. reflexivity.
  - rewrite IH, <- ksum_plus. reflexivity.
Qed.

Lemma ksum_single (f : nat -> K) (l : list nat) (y : nat) :
  NoDup l -> In y l -> ksum (fun x => if Nat.eqb y x then f x else 0) l = f y.
Proof.
  induction l as [|x t IH]; intros ND Hy; [destruct Hy|]. cbn [ksum].
  inversion ND as [|x' t' Hnx NDt]; subst x' t'.
  destruct (Nat.eqb y x) eqn:E.
  - apply Nat.eqb_eq in E. subst x. rewrite ksum_zero; [ring|].
    intros z Hz. destruct (Nat.eqb y z) eqn:E2; [|reflexivity].
    apply Nat.eqb_eq in E2. subst z. contradiction.
  - destruct Hy as [->|Hy]; [rewrite Nat.eqb_refl in E; discriminate|].
    rewrite (IH NDt Hy). ring.
Qed.

Lemma ksum_restrict (F : nat -> K) (l ks : list nat) :
  NoDup l -> NoDup ks -> incl ks l -> (forall b, In b l -> ~ In b ks -> F b = 0) ->
  ksum F l = ksum F ks.
Proof.
  intros NDl. revert F. induction ks as [|k ks IH]; intros F NDk Hin Hz.
  - cbn [ksum]. apply ksum_zero. intros b Hb. apply Hz; [exact Hb|intros []].
  - inversion NDk as [|k' ks' Hnk NDks]; subst k' ks'. cbn [ksum].
    rewrite (ksum_ext F (fun b => (if Nat.eqb k b then F b else 0) + (if Nat.eqb k b then 0 else F b))).
    2:{ intros b _. destruct (Nat.eqb k b); ring. }
    rewrite ksum_plus, ksum_single; [|exact NDl|apply Hin; left; reflexivity]. f_equal.
    rewrite (IH (fun b => if Nat.eqb k b then 0 else F b) NDks).
    + apply ksum_ext. intros b Hb. destruct (Nat.eqb k b) eqn:E; [|reflexivity].
      apply Nat.eqb_eq in E. subst b. contradiction.
    + intros b Hb. apply Hin. right. exact Hb.
    + intros b Hb Hnb. destruct (Nat.eqb k b) eqn:E; [reflexivity|]. apply Hz; [exact Hb|].
      intros [->|Hb2]; [rewrite Nat.eqb_refl in E; discriminate|contradiction].
Qed.

Lemma ksum_enum_snd {A} (f : A -> K) (l : list A) : ksum (fun p => f (snd p)) (enum l) = ksum f l.
Proof.
  induction l as [|a t IH]; [reflexivity|]. rewrite enum_cons. cbn [ksum snd]. rewrite ksum_map. cbn [snd].
  rewrite IH. reflexivity.
Qed.

Lemma ksum_enum_nth {A} (d : A) (f : nat * A -> K) (l : list A) :
  ksum f (enum l) = ksum (fun i => f (i, nth i l d)) (seq 0 (length l)).
Proof.
  revert f. induction l as [|a t IH]; intros f; [reflexivity|].
  rewrite enum_cons. cbn [length seq ksum nth]. f_equal.
  rewrite ksum_map, IH, <- seq_shift, ksum_map. reflexivity.
Qed.

Lemma ksum_fock_index (fock st : list nat) (G : nat -> nat -> K) :
  NoDup fock -> NoDup st -> incl st fock ->
  ksum (fun f => match index_of f st with Some fi => G f fi | None => 0 end) fock =
  ksum (fun p => G (snd p) (fst p)) (enum st).
Proof.
  intros NDf NDs Hin.
  rewrite (ksum_restrict _ fock st NDf NDs Hin).
  2:{ intros b _ Hnb. rewrite (index_of_None b st Hnb). reflexivity. }
  rewrite <- (ksum_enum_snd (fun f => match index_of f st with Some fi => G f fi | None => 0 end) st).
  apply ksum_ext. intros [i a] Hia. cbn [fst snd]. destruct (in_enum st i a Hia) as [_ N].
  rewrite (index_of_nth_error st i a NDs N). reflexivity.
Qed.

Lemma fold_left_nested_k {A B} (g : A -> B -> K) (L : A -> list B) (l : list A) (x : K) :
  fold_left (fun acc a => fold_left (fun acc' b => acc' + g a b) (L a) acc) l x =
  x + ksum (fun a => ksum (g a) (L a)) l.
Proof.
  revert x. induction l as [|a t IH]; intros x; cbn [fold_left ksum]; [ring|].
  rewrite IH, fold_left_ksum. ring.
Qed.

Lemma combine_col_enum_k (st : list nat) (vec : list (list K)) (s : nat) :
  length vec = length st ->
  combine st (col K 0 vec s) = map (fun p => (snd p, nth s (nth (fst p) vec []) 0)) (enum st).
Proof.
  revert vec. induction st as [|f t IH]; intros vec L; [reflexivity|].
  destruct vec as [|row vec]; [discriminate L|]. rewrite enum_cons.
  cbn [col map combine fst snd nth]. f_equal. rewrite map_map. cbn [fst snd nth].
  apply IH. cbn in L. lia.
Qed.

Lemma ksum_combine_enum (w e : list K) :
  ksum (fun we => fst we * snd we) (combine w e) = ksum (fun sw => snd sw * nth (fst sw) e 0) (enum w).
Proof.
  revert e. induction w as [|x w IH]; intros e; [reflexivity|]. rewrite enum_cons.
  destruct e as [|y e].
  - cbn [combine ksum fst snd nth]. rewrite ksum_map. cbn [fst snd].
    rewrite ksum_zero; [ring|]. intros [i a] _. cbn [fst snd]. destruct i; cbn [nth]; ring.
  - cbn [combine ksum fst snd nth]. rewrite ksum_map. cbn [fst snd nth]. rewrite IH. reflexivity.
Qed.

Lemma ksum_combine_nth {A B} (da : A) (db : B) (f : A -> B -> K) (l1 : list A) (l2 : list B) :
  length l1 = length l2 ->
  ksum (fun p => f (fst p) (snd p)) (combine l1 l2) = ksum (fun b => f (nth b l1 da) (nth b l2 db)) (seq 0 (length l1)).
Proof.
  revert l2. induction l1 as [|a t IH]; intros [|b l2] L; try discriminate L; [reflexivity|].
  cbn [combine ksum fst snd length seq nth]. f_equal. rewrite <- seq_shift, ksum_map. cbn [nth].
  apply IH. cbn in L. lia.
Qed.

Lemma ksum_filter {A} (f : A -> K) (p : A -> bool) (l : list A) :
  ksum f (filter p l) = ksum (fun a => if p a then f a else 0) l.
Proof.
  induction l as [|a t IH]; [reflexivity|]. cbn [filter ksum]. destruct (p a); cbn [ksum]; rewrite IH; ring.
Qed.

(** * specification on the full Fock space *)
Definition wf_hpartK (hp : Khpart) : Prop :=
  length (hp_states K hp) = length (hp_eig K hp) /\
  length (hp_vec K hp) = length (hp_eig K hp) /\
  NoDup (hp_states K hp).
Definition vcompK (hp : Khpart) (fi s : nat) : K := nth s (nth fi (hp_vec K hp) []) 0.
Definition compK (hp : Khpart) (s f : nat) : K :=
  match index_of f (hp_states K hp) with Some fi => vcompK hp fi s | None => 0 end.
Definition dummy_hpK : Khpart := mk_hpart K [] [] [].
Definition dummy_dpK : Kdmpart := mk_dmpart K [] 0 true.

Section Traces.
Variable fock : list nat.
Variable H : list Khpart.
Variable D : list Kdmpart.

Definition sum_statesK (F : Khpart -> nat -> K) : K :=
  ksum (fun hd => ksum (fun sw => snd sw * F (fst hd) (fst sw)) (enum (dp_weights K (snd hd)))) (combine H D).
(** rho f g = Sum_n w_n <f|n> conj(<g|n>) *)
Definition rhoK (f g : nat) : K := sum_statesK (fun hp s => compK hp s f * conj (compK hp s g)).
Definition trace_rho_opK (O : nat -> nat -> K) : K := ksum (fun f => ksum (fun g => rhoK f g * O g f) fock) fock.
(** <n|O|n> = Sum_{f,g} conj(<f|n>) O f g <g|n> *)
Definition expectK (O : nat -> nat -> K) (hp : Khpart) (s : nat) : K :=
  ksum (fun f => ksum (fun g => conj (compK hp s f) * O f g * compK hp s g) fock) fock.
Definition diag_opK (d : nat -> K) (f g : nat) : K := if Nat.eqb f g then d f else 0.
Definition b2K (b : bool) : K := if b then 1 else 0.

Hypothesis fock_nodup : NoDup fock.
Hypothesis blocks_wf : forall hp, In hp H -> wf_hpartK hp.
Hypothesis blocks_in_fock : forall hp, In hp H -> incl (hp_states K hp) fock.

Lemma ksum_fock_comp (hp : Khpart) (s : nat) (G : nat -> K -> K) :
  In hp H -> (forall f, G f 0 = 0) ->
  ksum (fun f => G f (compK hp s f)) fock = ksum (fun p => G (snd p) (vcompK hp (fst p) s)) (enum (hp_states K hp)).
Proof.
  intros Hhp G0. destruct (blocks_wf hp Hhp) as [_ [_ ND]].
  rewrite <- (ksum_fock_index fock (hp_states K hp) (fun f fi => G f (vcompK hp fi s)) fock_nodup ND (blocks_in_fock hp Hhp)).
  apply ksum_ext. intros f _. unfold compK. destruct (index_of f (hp_states K hp)); [reflexivity|apply G0].
Qed.

Lemma trace_eigen_formK (O : nat -> nat -> K) : trace_rho_opK O = sum_statesK (expectK O).
Proof.
  unfold trace_rho_opK, rhoK, sum_statesK, expectK.
  rewrite (ksum_ext _ (fun f => ksum (fun g => ksum (fun hd => ksum (fun sw =>
             snd sw * (compK (fst hd) (fst sw) f * conj (compK (fst hd) (fst sw) g)) * O g f)
             (enum (dp_weights K (snd hd)))) (combine H D)) fock)).
  2:{ intros f _. apply ksum_ext. intros g _. rewrite <- ksum_scal_r. apply ksum_ext. intros hd _.
      rewrite <- ksum_scal_r. reflexivity. }
  rewrite (ksum_ext _ (fun f => ksum (fun hd => ksum (fun g => ksum (fun sw =>
             snd sw * (compK (fst hd) (fst sw) f * conj (compK (fst hd) (fst sw) g)) * O g f)
             (enum (dp_weights K (snd hd)))) fock) (combine H D))).
  2:{ intros f _. apply ksum_swap. }
  rewrite ksum_swap. apply ksum_ext. intros hd _.
  rewrite (ksum_ext _ (fun f => ksum (fun sw => ksum (fun g =>
             snd sw * (compK (fst hd) (fst sw) f * conj (compK (fst hd) (fst sw) g)) * O g f) fock)
             (enum (dp_weights K (snd hd))))).
  2:{ intros f _. apply ksum_swap. }
  rewrite ksum_swap. apply ksum_ext. intros sw _.
  rewrite <- ksum_scal.
  rewrite (ksum_swap (fun f g => snd sw * (compK (fst hd) (fst sw) f * conj (compK (fst hd) (fst sw) g)) * O g f)).
  apply ksum_ext. intros f _. rewrite <- ksum_scal. apply ksum_ext. intros g _. ring.
Qed.

Lemma expect_diagK (d : nat -> K) (hp : Khpart) (s : nat) :
  In hp H ->
  expectK (diag_opK d) hp s = ksum (fun p => d (snd p) * (vcompK hp (fst p) s * conj (vcompK hp (fst p) s))) (enum (hp_states K hp)).
Proof.
  intros Hhp. unfold expectK, diag_opK.
  rewrite (ksum_ext _ (fun f => d f * (compK hp s f * conj (compK hp s f)))).
  2:{ intros f Hf. rewrite (ksum_ext _ (fun g => if Nat.eqb f g then conj (compK hp s f) * d f * compK hp s g else 0)).
      - rewrite (ksum_single (fun g => conj (compK hp s f) * d f * compK hp s g) fock f fock_nodup Hf). ring.
      - intros g _. destruct (Nat.eqb f g); ring. }
  apply (ksum_fock_comp hp s (fun f v => d f * (v * conj v)) Hhp). intros f. rewrite conj_0. ring.
Qed.

Lemma part_fock_average_sumK (pre : K -> nat -> K) (hp : Khpart) (dp : Kdmpart) :
  length (hp_vec K hp) = length (hp_states K hp) ->
  part_fock_average K 0 kadd kmul kabs pre hp dp =
  ksum (fun sw => ksum (fun p => pre (snd sw) (snd p) * (vcompK hp (fst p) (fst sw) * conj (vcompK hp (fst p) (fst sw))))
                       (enum (hp_states K hp)))
       (enum (dp_weights K dp)).
Proof.
  intros L. unfold part_fock_average.
  rewrite (fold_left_nested_k (fun sw fv => pre (snd sw) (fst fv) * kabs (snd fv * snd fv))
                              (fun sw => combine (hp_states K hp) (col K 0 (hp_vec K hp) (fst sw)))).
  rewrite kadd_0_l. fold (enum (dp_weights K dp)).
  apply ksum_ext. intros sw _. rewrite (combine_col_enum_k _ _ _ L), ksum_map.
  apply ksum_ext. intros p _. cbn [fst snd]. unfold vcompK. rewrite kabs_sq. reflexivity.
Qed.

Lemma dm_sum_parts_sumK (f : Khpart -> Kdmpart -> K) :
  dm_sum_parts K 0 kadd f H D = ksum (fun hd => f (fst hd) (snd hd)) (combine H D).
Proof. unfold dm_sum_parts. rewrite (fold_left_ksum (fun hd => f (fst hd) (snd hd))). apply kadd_0_l. Qed.

(** weighted sums over |eigenvector components|^2 times a function of the Fock state = Tr(rho diag(d)) *)
Theorem fock_average_is_traceK (pre : K -> nat -> K) (d : nat -> K) :
  (forall w f, pre w f = w * d f) ->
  dm_sum_parts K 0 kadd (part_fock_average K 0 kadd kmul kabs pre) H D = trace_rho_opK (diag_opK d).
Proof.
  intros Hpre. rewrite trace_eigen_formK, dm_sum_parts_sumK. unfold sum_statesK.
  apply ksum_ext. intros [hp dp] Hhd. cbn [fst snd]. destruct (in_combine_H _ _ _ Hhd) as [Hhp _]. cbn [fst] in Hhp.
  destruct (blocks_wf hp Hhp) as [L1 [L2 _]].
  rewrite part_fock_average_sumK by congruence.
  apply ksum_ext. intros sw _. rewrite (expect_diagK d hp (fst sw) Hhp), <- ksum_scal.
  apply ksum_ext. intros p _. rewrite Hpre. ring.
Qed.

Theorem occupancy_is_traceK (M i : nat) :
  (i < M)%nat ->
  dm_average_occupancy_i K 0 kadd kmul kabs kofnat M i H D =
  Done (trace_rho_opK (diag_opK (fun f => b2K (Nat.testbit f i)))).
Proof.
  intros Hi. unfold dm_average_occupancy_i. apply Nat.ltb_lt in Hi. rewrite Hi. f_equal. unfold part_average_occupancy_i.
  apply (fock_average_is_traceK _ (fun f => b2K (Nat.testbit f i))).
  intros w f. unfold b2k, b2K. destruct (Nat.testbit f i); [rewrite kofnat_1|rewrite kofnat_0]; reflexivity.
Qed.

Theorem total_occupancy_is_traceK (M : nat) :
  dm_average_occupancy K 0 kadd kmul kabs kofnat M H D = trace_rho_opK (diag_opK (fun f => kofnat (popcount M f))).
Proof.
  unfold dm_average_occupancy, part_average_occupancy.
  apply (fock_average_is_traceK _ (fun f => kofnat (popcount M f))). intros w f. reflexivity.
Qed.

Theorem double_occ_is_traceK (M i j : nat) :
  (i < M)%nat -> (j < M)%nat ->
  dm_average_double_occupancy K 0 kadd kmul kabs kofnat M i j H D =
  Done (trace_rho_opK (diag_opK (fun f => b2K (Nat.testbit f i) * b2K (Nat.testbit f j)))).
Proof.
  intros Hi Hj. unfold dm_average_double_occupancy.
  apply Nat.ltb_lt in Hi. apply Nat.ltb_lt in Hj. rewrite Hi, Hj. cbn [andb]. f_equal.
  unfold part_average_double_occupancy.
  apply (fock_average_is_traceK _ (fun f => b2K (Nat.testbit f i) * b2K (Nat.testbit f j))).
  intros w f. unfold b2k, b2K. destruct (Nat.testbit f i), (Nat.testbit f j);
    rewrite ?kofnat_1, ?kofnat_0; ring.
Qed.

(** average energy = Tr(rho Hm) for any Fock-space matrix Hm of which the assembled eigenvectors are normalised
    eigenvectors with the stored eigenvalues *)
Theorem avg_energy_is_traceK (Hm : nat -> nat -> K) :
  (* eigen_equation *)
  (forall hp s f, In hp H -> (s < hp_size K hp)%nat -> In f fock ->
     ksum (fun g => Hm f g * compK hp s g) fock = nth s (hp_eig K hp) 0 * compK hp s f) ->
  (* eigenvectors_normalised *)
  (forall hp s, In hp H -> (s < hp_size K hp)%nat -> ksum (fun f => conj (compK hp s f) * compK hp s f) fock = 1) ->
  (* weights_sized *)
  (forall hd, In hd (combine H D) -> length (dp_weights K (snd hd)) = hp_size K (fst hd)) ->
  dm_average_energy K 0 kadd kmul H D = trace_rho_opK Hm.
Proof.
  intros Heig Hnorm Hsz. rewrite trace_eigen_formK. unfold dm_average_energy.
  rewrite dm_sum_parts_sumK. unfold sum_statesK. apply ksum_ext. intros [hp dp] Hhd. cbn [fst snd].
  destruct (in_combine_H _ _ _ Hhd) as [Hhp _]. cbn [fst] in Hhp.
  unfold part_average_energy. rewrite (fold_left_ksum (fun we => fst we * snd we)), kadd_0_l.
  rewrite ksum_combine_enum.
  apply ksum_ext. intros [s w] Hsw. cbn [fst snd]. f_equal.
  destruct (in_enum _ _ _ Hsw) as [Ls _]. specialize (Hsz (hp, dp) Hhd). cbn [fst snd] in Hsz. rewrite Hsz in Ls.
  unfold expectK.
  rewrite (ksum_ext _ (fun f => nth s (hp_eig K hp) 0 * (conj (compK hp s f) * compK hp s f))).
  - rewrite ksum_scal, (Hnorm hp s Hhp Ls). ring.
  - intros f Hf. rewrite (ksum_ext _ (fun g => conj (compK hp s f) * (Hm f g * compK hp s g))) by (intros; ring).
    rewrite ksum_scal, (Heig hp s f Hhp Ls Hf). ring.
Qed.

(** ** EnsembleAverage *)
Hypothesis parts_paired : length D = length H.
Hypothesis weights_sized : forall hd, In hd (combine H D) -> length (dp_weights K (snd hd)) = hp_size K (fst hd).

Lemma ea_compute_sumK (p : Koppart) (dp : Kdmpart) :
  ea_compute K 0 kadd kmul p dp = ksum (fun i => coeff K 0 (op_mat K p) i i * nth i (dp_weights K dp) 0) (seq 0 (length (op_mat K p))).
Proof.
  unfold ea_compute.
  rewrite (fold_left_ksum (fun i => coeff K 0 (op_mat K p) i i * nth i (dp_weights K dp) 0)). apply kadd_0_l.
Qed.

Definition ea_termK (D0 : list Kdmpart) (p : Koppart) : K :=
  if Nat.eqb (op_left K p) (op_right K p) && is_retained K D0 (op_left K p)
  then ea_compute K 0 kadd kmul p (nth (op_left K p) D0 dummy_dpK) else 0.

Lemma ea_prepare_sumK (A : fieldop K) (D0 : list Kdmpart) :
  NoDup (map (op_left K) A) ->
  (forall p, In p A -> op_left K p = op_right K p -> (op_left K p < length D0)%nat) ->
  ea_prepare K 0 kadd kmul A D0 = Done (ksum (ea_termK D0) A).
Proof.
  intros ND Hb. unfold ea_prepare.
  assert (G : forall l r, incl l A ->
     fold_left (fun acc p => bind acc (fun r =>
        if Nat.eqb (op_left K p) (op_right K p) then
          if is_retained K D0 (op_left K p) then
            match get_part_from_left K A (op_left K p), nth_error D0 (op_left K p) with
            | Some Apart, Some dp => Done (r + ea_compute K 0 kadd kmul Apart dp)
            | _, _ => OOB
            end
          else Done r
        else Done r)) l (Done r) = Done (r + ksum (ea_termK D0) l)).
  { induction l as [|p t IH]; intros r Hl; cbn [fold_left ksum]; [f_equal; ring|].
    assert (Hp : In p A) by (apply Hl; left; reflexivity).
    assert (Ht : incl t A) by (intros q Hq; apply Hl; right; exact Hq).
    cbn [bind]. unfold ea_termK at 1.
    destruct (Nat.eqb (op_left K p) (op_right K p)) eqn:Ed; cbn [andb].
    - destruct (is_retained K D0 (op_left K p)) eqn:Er.
      + unfold get_part_from_left. rewrite (find_nodup_key (op_left K) A p ND Hp).
        apply Nat.eqb_eq in Ed. pose proof (Hb p Hp Ed) as Lb.
        destruct (nth_error D0 (op_left K p)) as [dp|] eqn:En; [|apply nth_error_None in En; lia].
        rewrite (nth_error_nth _ _ dummy_dpK En). rewrite (IH _ Ht). f_equal. ring.
      + rewrite (IH _ Ht). f_equal. ring.
    - rewrite (IH _ Ht). f_equal. ring. }
  rewrite (G A 0 (incl_refl A)). f_equal. ring.
Qed.

Theorem ensemble_average_is_traceK (A : fieldop K) (O : nat -> nat -> K) :
  NoDup (map (op_left K) A) ->
  (* parts_in_range *) (forall p, In p A -> (op_left K p < length H)%nat) ->
  (* rotated *)
  (forall p, In p A -> op_left K p = op_right K p ->
     length (op_mat K p) = hp_size K (nth (op_left K p) H dummy_hpK) /\
     forall n, (n < hp_size K (nth (op_left K p) H dummy_hpK))%nat ->
       coeff K 0 (op_mat K p) n n = expectK O (nth (op_left K p) H dummy_hpK) n) ->
  (* bimap_complete *)
  (forall b, (b < length H)%nat -> (forall p, In p A -> op_left K p = op_right K p -> op_left K p <> b) ->
     forall s, (s < hp_size K (nth b H dummy_hpK))%nat -> expectK O (nth b H dummy_hpK) s = 0) ->
  (* nothing truncated *) (forall b, (b < length D)%nat -> is_retained K D b = true) ->
  ea_prepare K 0 kadd kmul A D = Done (trace_rho_opK O).
Proof.
  intros ND Hrange Hrot Hcompl Hret.
  rewrite ea_prepare_sumK; [|exact ND|intros p Hp _; rewrite parts_paired; apply Hrange; exact Hp]. f_equal.
  rewrite trace_eigen_formK. unfold sum_statesK.
  set (T := fun (hp : Khpart) (dp : Kdmpart) => ksum (fun sw => snd sw * expectK O hp (fst sw)) (enum (dp_weights K dp))).
  change (ksum (ea_termK D) A = ksum (fun hd => T (fst hd) (snd hd)) (combine H D)).
  rewrite (ksum_combine_nth dummy_hpK dummy_dpK T H D) by (symmetry; exact parts_paired).
  set (diag := fun p : Koppart => Nat.eqb (op_left K p) (op_right K p)).
  assert (Wsz : forall b, (b < length H)%nat -> length (dp_weights K (nth b D dummy_dpK)) = hp_size K (nth b H dummy_hpK)).
  { intros b Lb. apply (weights_sized (nth b H dummy_hpK, nth b D dummy_dpK)).
    rewrite <- combine_nth by (symmetry; exact parts_paired). apply nth_In. rewrite combine_length, parts_paired. lia. }
  rewrite (ksum_restrict _ (seq 0 (length H)) (map (op_left K) (filter diag A))).
  - rewrite ksum_map, ksum_filter. apply ksum_ext. intros p Hp. unfold ea_termK. fold (diag p).
    destruct (diag p) eqn:Ed; cbn [andb]; [|reflexivity].
    assert (Edd : op_left K p = op_right K p) by (apply Nat.eqb_eq; exact Ed).
    pose proof (Hrange p Hp) as Lb. rewrite Hret by (rewrite parts_paired; exact Lb).
    destruct (Hrot p Hp Edd) as [Lm Hc]. rewrite ea_compute_sumK, Lm. unfold T.
    rewrite (ksum_enum_nth 0), (Wsz _ Lb). apply ksum_ext. intros n Hn. apply in_seq in Hn. cbn [fst snd].
    rewrite Hc by lia. ring.
  - apply seq_NoDup.
  - apply NoDup_map_filter. exact ND.
  - intros b Hb. apply in_map_iff in Hb. destruct Hb as [p [<- Hp]]. apply filter_In in Hp. apply in_seq.
    pose proof (Hrange p (proj1 Hp)). lia.
  - intros b Hb Hnb. apply in_seq in Hb. unfold T. apply ksum_zero. intros [s w] Hsw. cbn [fst snd].
    destruct (in_enum _ _ _ Hsw) as [Ls _]. rewrite (Wsz b) in Ls by lia.
    rewrite Hcompl; [ring|lia| |exact Ls].
    intros p Hp Edd E. apply Hnb. apply in_map_iff. exists p. split; [exact E|]. apply filter_In. split; [exact Hp|].
    unfold diag. apply Nat.eqb_eq. exact Edd.
Qed.

End Traces.
End Generic.
