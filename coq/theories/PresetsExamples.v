(** PresetsExamples.v -- C04: the hypotheses of the theorems of PresetsPrepare / PresetsProofs / PresetsSU2 are
    satisfiable by a non-trivial value, and the theorems apply to it.

    Ring: the exact rationals Qc (Leibniz equality), 1/2 = Q2Qc (1#2), conjugation = identity (real build).
    Lattice: two sites (labels 0 and 1) with 2 orbitals and 2 spins each; modes numbered site-major,
    idx l a z = 4 l + 2 a + z (what IndexClassification::prepare(false) produces), M = 8 modes. *)
Require Import Bool List Arith Lia ZArith QArith Qcanon Ring_theory.
From PV Require Import Lattice.
From PV Require Import Outcome Fock Poly PolySem CAR AlgebraBasics.
From PV Require Import PresetsSpec IndexHam PresetsConfig PresetsBasics PresetsPrepare PresetsLeaves PresetsProofs PresetsTransport PresetsSU2
  PresetsAgreement.
Import ListNotations.
Local Open Scope nat_scope.

Definition qc0 : Qc := Q2Qc 0.
Definition qc1 : Qc := Q2Qc 1.
Definition qchalf : Qc := Q2Qc (1 # 2).
Definition qczero (c : Qc) : bool := Qc_eq_bool c qc0.
Definition qcid (c : Qc) : Qc := c.

Lemma ring_ok_Qc : ring_ok Qc qc0 qc1 Qcplus Qcmult Qcminus Qcopp qczero.
Proof.
  split; [exact Qcrt|]. intro c. unfold qczero. split.
  - apply Qc_eq_bool_correct.
  - intros ->. unfold Qc_eq_bool. destruct (Qc_eq_dec qc0 qc0); [reflexivity|congruence].
Qed.

Lemma qchalf_ok : Qcplus qchalf qchalf = qc1.
Proof. apply Qc_is_canon. reflexivity. Qed.

Lemma qc_nontrivial : qc1 <> qc0.
Proof. intro H. apply (f_equal this) in H. discriminate. Qed.

Definition ex_idx (l a z : nat) : nat := 4 * l + 2 * a + z.
Definition ex_m : site_map nat := [(0, (2, 2)); (1, (2, 2))].
Definition ex_sites : list (nat * nat) := [(0, 2); (1, 2)].

Lemma ex_leqb_spec : forall a b, Nat.eqb a b = true <-> a = b.
Proof. intros a b. apply Nat.eqb_eq. Qed.

Lemma ex_site_ok : forall l, l < 2 -> site_ok 8 nat ex_idx l 2 2.
Proof. intros l Hl a z Ha Hz. unfold ex_idx. lia. Qed.
Lemma ex_site_inj : forall l, site_inj nat ex_idx l 2 2.
Proof. intros l a z a' z' Ha Hz Ha' Hz' E. unfold ex_idx in E. lia. Qed.
Lemma ex_sites_apart : sites_apart nat ex_idx 0 1 2 2.
Proof. intros a z a' z' Ha Hz Ha' Hz'. unfold ex_idx. lia. Qed.
Lemma ex_sites_ok : sites_ok 8 nat ex_idx ex_sites.
Proof.
  split; [|split].
  - cbn. repeat constructor; cbn; intuition discriminate.
  - intros l n a z Hin Ha Hz. unfold ex_idx. destruct Hin as [E|[E|[]]]; inversion E; subst; lia.
  - intros l n a z l' n' a' z' Hin Hin' Ha Ha' Hz Hz' E. unfold ex_idx in E.
    destruct Hin as [E1|[E1|[]]]; inversion E1; subst; destruct Hin' as [E2|[E2|[]]]; inversion E2; subst; lia.
Qed.

(** every hypothesis used anywhere in the C04 theorems, satisfied at once *)
Example c04_hypotheses_satisfiable :
  ring_ok Qc qc0 qc1 Qcplus Qcmult Qcminus Qcopp qczero /\ Qcplus qchalf qchalf = qc1 /\ qc1 <> qc0 /\
  (qcid qc0 = qc0 /\ qcid qc1 = qc1 /\ (forall a b, qcid (Qcplus a b) = Qcplus (qcid a) (qcid b)) /\
   (forall a b, qcid (Qcmult a b) = Qcmult (qcid a) (qcid b)) /\ (forall a, qcid (Qcopp a) = Qcopp (qcid a)) /\
   (forall a, qcid (qcid a) = a)) /\
  (forall a b, Nat.eqb a b = true <-> a = b) /\
  Lattice.find_site nat Nat.eqb 0 ex_m = Some (2, 2) /\ Lattice.find_site nat Nat.eqb 1 ex_m = Some (2, 2) /\
  site_ok 8 nat ex_idx 0 2 2 /\ site_ok 8 nat ex_idx 1 2 2 /\ site_inj nat ex_idx 0 2 2 /\
  sites_apart nat ex_idx 0 1 2 2 /\ sites_ok 8 nat ex_idx ex_sites /\ In (0, 2) ex_sites /\ In (1, 2) ex_sites.
Proof.
  split; [exact ring_ok_Qc|]. split; [exact qchalf_ok|]. split; [exact qc_nontrivial|].
  split; [repeat split|]. split; [apply Nat.eqb_eq|]. split; [reflexivity|]. split; [reflexivity|].
  split; [apply ex_site_ok; lia|]. split; [apply ex_site_ok; lia|]. split; [apply ex_site_inj|].
  split; [apply ex_sites_apart|]. split; [apply ex_sites_ok|]. split; cbn; tauto.
Qed.

Local Notation vo := (kvops Qc Qcplus Qcmult Qcminus Qcopp qczero qchalf qcid).
Local Notation prep := (IndexHam.prepare nat Qc qc1 Qcplus Qcmult Qcopp qczero ex_idx true).
Local Notation cpq := (coef_poly Qc qc0 qc1 Qcplus Qcmult Qcopp).

(** the theorems applied: Kanamori on site 0 with U = 2, J = 1/2, level -1 *)
Example kanamori_applies :
  exists h, prep (lattice_of Qc nat ex_m (fst (Lattice.addCoulombP3 nat Nat.eqb Qc vo ex_m 0 (Q2Qc 2) qchalf (Q2Qc (-1))))) = Done h /\
    meq Qc 8 (cpq h) (spec_coulombP3 Qc qc0 qc1 Qcplus Qcmult Qcminus Qcopp qchalf 8 nat ex_idx 0 2 2 (Q2Qc 2) qchalf (Q2Qc (-1))) /\
    m_hermitian Qc qcid 8 (cpq h) /\
    meq Qc 8 (m_comm Qc qc0 Qcplus Qcmult Qcminus 8 (cpq h) (m_Splus_tot Qc qc0 qc1 Qcplus Qcmult Qcopp 8 nat ex_idx ex_sites))
             (m_zero Qc qc0) /\
    meq Qc 8 (m_comm Qc qc0 Qcplus Qcmult Qcminus 8 (cpq h) (m_Sminus_tot Qc qc0 qc1 Qcplus Qcmult Qcopp 8 nat ex_idx ex_sites))
             (m_zero Qc qc0).
Proof.
  pose proof (addCoulombP3_denotes Qc qc0 qc1 Qcplus Qcmult Qcminus Qcopp qczero ring_ok_Qc qchalf qcid 8 nat Nat.eqb ex_idx
                ex_m 0 2 2 (Q2Qc 2) qchalf (Q2Qc (-1)) eq_refl (le_n 2) (le_n 2) (ex_site_ok 0 ltac:(lia))) as D.
  destruct D as (Dn & (h & E & HA) & _). exists h. split; [exact E|]. split; [exact HA|]. split.
  - unfold Lattice.addCoulombP3 in E.
    eapply (addCoulombP_hermitian Qc qc0 qc1 Qcplus Qcmult Qcminus Qcopp qczero ring_ok_Qc qchalf qchalf_ok qcid 8 nat Nat.eqb ex_idx);
      try exact E; try reflexivity; try (intros; reflexivity); try lia.
    + apply ex_site_ok; lia.
    + apply ex_site_inj.
  - eapply (addCoulombP3_su2 Qc qc0 qc1 Qcplus Qcmult Qcminus Qcopp qczero ring_ok_Qc qchalf qchalf_ok 8 nat ex_idx Nat.eqb qcid ex_sites);
      try exact E; try reflexivity; try lia.
    + apply ex_sites_ok.
    + cbn; tauto.
Qed.

(** spin-spin exchange between the two sites, J = -3/4 *)
Example ss_applies :
  exists h, prep (lattice_of Qc nat ex_m (fst (Lattice.addSS nat Nat.eqb Qc vo as_is ex_m 0 1 (Q2Qc (-3 # 4))))) = Done h /\
    meq Qc 8 (cpq h) (spec_ss Qc qc0 qc1 Qcplus Qcmult Qcminus Qcopp qchalf 8 nat ex_idx 0 1 2 (Q2Qc (-3 # 4))) /\
    meq Qc 8 (m_comm Qc qc0 Qcplus Qcmult Qcminus 8 (cpq h) (m_Splus_tot Qc qc0 qc1 Qcplus Qcmult Qcopp 8 nat ex_idx ex_sites))
             (m_zero Qc qc0).
Proof.
  pose proof (addSS_denotes Qc qc0 qc1 Qcplus Qcmult Qcminus Qcopp qczero ring_ok_Qc qchalf qcid 8 nat Nat.eqb ex_leqb_spec ex_idx
                as_is ex_m 0 1 2 (Q2Qc (-3 # 4)) eq_refl eq_refl (ex_site_ok 0 ltac:(lia)) (ex_site_ok 1 ltac:(lia))) as D.
  destruct D as (Dn & (h & E & HA) & _). exists h. split; [exact E|]. split; [exact HA|].
  refine (proj1 (addSS_su2 Qc qc0 qc1 Qcplus Qcmult Qcminus Qcopp qczero ring_ok_Qc qchalf qchalf_ok 8 nat ex_idx Nat.eqb ex_leqb_spec qcid as_is ex_sites
                  ex_m 0 1 2 (Q2Qc (-3 # 4)) h ex_sites_ok _ _ eq_refl eq_refl E)).
  - cbn; tauto.
  - cbn; tauto.
Qed.

(** a raw user term of 6 operators, in range and well formed: [storage_ok] / [term_ok] are satisfiable *)
Definition ex_term6 : Lattice.term nat Qc :=
  mkTerm [true; true; true; false; false; false] [0; 0; 1; 1; 0; 0] [0; 1; 0; 1; 1; 0] [1; 0; 1; 0; 1; 0] qchalf.
Example raw_term6_applies :
  exists h, prep (lattice_of Qc nat ex_m [ex_term6]) = Done h /\
    meq Qc 8 (cpq h) (term_matrix Qc qc0 qc1 Qcplus Qcmult Qcopp 8 nat ex_idx ex_term6).
Proof.
  apply (raw_term_sound Qc qc0 qc1 Qcplus Qcmult Qcminus Qcopp qczero ring_ok_Qc 8 nat ex_idx).
  - cbn. lia.
  - unfold term_ok. cbn. repeat split; try reflexivity. repeat constructor.
Qed.

(** the magnetic splitting on site 0, mH = 3/4, in the variant the source text of this tree has, against the operator the
    header of this tree documents: the theorem applies, and the operator is not the zero matrix
    (<s| H |s> = 3/4 * (1 or 1/2) for the state s with only mode (site 0, orbital 0, up) occupied) *)
Example magnetization_applies :
  exists h, prep (lattice_of Qc nat ex_m (fst (addMagnetization_code nat Nat.eqb Qc vo ex_m 0 (Q2Qc (3 # 4))))) = Done h /\
    meq Qc 8 (cpq h) (spec_magnetization Qc qc0 qc1 Qcplus Qcmult Qcminus qchalf nat ex_idx 0 2 (Q2Qc (3 # 4))) /\
    cpq h [false; true; false; false; false; false; false; false] [false; true; false; false; false; false; false; false] <> qc0.
Proof.
  pose proof (addMagnetization_with_denotes Qc qc0 qc1 Qcplus Qcmult Qcminus Qcopp qczero ring_ok_Qc qchalf qcid 8 nat Nat.eqb ex_idx
                Gen_MagnetizationCode.code_magnetization_half ex_m 0 2 (Q2Qc (3 # 4)) eq_refl (ex_site_ok 0 ltac:(lia))) as D.
  destruct D as (Dn & (h & E & HA) & _). exists h. split; [exact E|]. split; [exact HA|].
  rewrite (HA [false; true; false; false; false; false; false; false] [false; true; false; false; false; false; false; false] eq_refl eq_refl).
  intro H. apply (f_equal this) in H. vm_compute in H. discriminate.
Qed.

(** [storage_ok] and [storage_bounded] (hypotheses of [prepare_after_push] and of the third clause of [denotes]) hold for a
    lattice that already holds a term, and that lattice is not empty *)
Example nonempty_lattice_hypotheses :
  storage_ok Qc 8 nat ex_idx (lattice_of Qc nat ex_m [ex_term6]) /\
  storage_bounded Qc nat (lattice_of Qc nat ex_m [ex_term6]) /\
  getTerms nat Qc (lattice_of Qc nat ex_m [ex_term6]) 6 = [ex_term6].
Proof.
  split; [|split].
  - apply storage_ok_lattice_of. constructor; [|constructor].
    unfold term_ok. cbn. repeat split; try reflexivity. repeat constructor.
  - apply storage_bounded_push_all. apply storage_bounded_init.
  - reflexivity.
Qed.

(** adding the exchange term to that lattice: the third clause of [denotes] applies *)
Example ss_added_to_nonempty_lattice :
  exists h h', prep (lattice_of Qc nat ex_m [ex_term6]) = Done h /\
    prep (push_all nat Qc (fst (Lattice.addSS nat Nat.eqb Qc vo as_is ex_m 0 1 (Q2Qc (-3 # 4)))) (lattice_of Qc nat ex_m [ex_term6])) = Done h' /\
    meq Qc 8 (cpq h') (m_add Qc Qcplus (cpq h) (spec_ss Qc qc0 qc1 Qcplus Qcmult Qcminus Qcopp qchalf 8 nat ex_idx 0 1 2 (Q2Qc (-3 # 4)))).
Proof.
  pose proof (addSS_denotes Qc qc0 qc1 Qcplus Qcmult Qcminus Qcopp qczero ring_ok_Qc qchalf qcid 8 nat Nat.eqb ex_leqb_spec ex_idx
                as_is ex_m 0 1 2 (Q2Qc (-3 # 4)) eq_refl eq_refl (ex_site_ok 0 ltac:(lia)) (ex_site_ok 1 ltac:(lia))) as D.
  destruct D as (_ & _ & Hadd). destruct nonempty_lattice_hypotheses as (H1 & H2 & _).
  exact (Hadd _ H1 H2).
Qed.

(** the two agreement facts hold on this tree (they are the hypotheses under which Properties_C04 type-checks) *)
Example agreement_holds : cfg_fixed = true /\ cfg_mag_half = cfg_doc_half.
Proof. exact cfg_summary. Qed.

(** a list of raw terms closed under adjoints that is not empty: the 6-operator term and its conjugate
    (hypothesis [Permutation (map term_adj ts) ts] of [adjoint_closed_hermitian]); [raw_term_with_hc_hermitian] applies *)
Example adjoint_closed_list :
  Permutation.Permutation (map (term_adj Qc qcid nat) [ex_term6; term_adj Qc qcid nat ex_term6]) [ex_term6; term_adj Qc qcid nat ex_term6] /\
  term_adj Qc qcid nat ex_term6 <> ex_term6.
Proof.
  split.
  - cbn [map]. replace (term_adj Qc qcid nat (term_adj Qc qcid nat ex_term6)) with ex_term6 by reflexivity.
    apply Permutation.perm_swap.
  - intro H. apply (f_equal (fun t => t_orbs t)) in H. cbn in H. discriminate.
Qed.

Example raw_term6_with_hc_applies :
  exists h, prep (lattice_of Qc nat ex_m [ex_term6; term_adj Qc qcid nat ex_term6]) = Done h /\ m_hermitian Qc qcid 8 (cpq h).
Proof.
  apply (raw_term_with_hc_hermitian Qc qc0 qc1 Qcplus Qcmult Qcminus Qcopp qczero ring_ok_Qc qcid 8 nat ex_idx);
    try reflexivity; try (intros; reflexivity).
  - cbn. lia.
  - unfold term_ok. cbn. repeat split; try reflexivity. repeat constructor.
Qed.
