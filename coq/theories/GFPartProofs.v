(** Proofs about [PV.GFPart]:
      - characterisation of the generated leaf definitions (so the theorems below are about what the source says now);
      - [gf_part_exact]: with tolerances 0 the evaluated term list of a part is the Lehmann double sum over the block pair;
      - [gf_part_error_identity] / [gf_part_tolerance]: in general the difference is the sum of the dropped terms and the
        per-event errors of the term list;
      - [gf_stripes_complete]: the two-iterator walk of GreensFunction::prepare selects exactly the block pairs
        (L, R) with C: L <- R and CX: R <- L;
      - [gf_blocks_eq_full_partial]: the sum over parts is the double sum over all block pairs of the full-space data. *)
Require Import Bool List Arith Lia Ring Ring_theory ZArith.
From PV Require Import EDSpec NumLit Sparse SparseProofs TermList TermListProofs GFPart BigSum.
From PVgen Require Import Gen_C01.
Import ListNotations.

(** * Generated definitions say what the theorems assume *)
Section Char.
Variable K : Type.
Variable NO : numops K.
Lemma gf_term_eval_char R P z : gf_term_eval K NO R P z = ndiv K NO R (nsub K NO z P).
Proof. reflexivity. Qed.
Lemma gf_residue_char va vb wO wI i1 i2 :
  gf_residue K NO va vb wO wI i1 i2 = nmul K NO (nmul K NO va vb) (nadd K NO (wO i1) (wI i2)).
Proof. reflexivity. Qed.
Lemma gf_pole_char eO eI i1 i2 : gf_pole K NO eO eI i1 i2 = nsub K NO (eI i2) (eO i1).
Proof. reflexivity. Qed.
Lemma gf_term_add_char a b : gf_term_add K NO a b = nadd K NO a b.
Proof. reflexivity. Qed.
Lemma gf_part_eval_char x : gf_part_eval K x = x.
Proof. reflexivity. Qed.
Lemma gf_compare_char tol p1 p2 : gf_compare K NO tol p1 p2 = negb (nre_ltb K NO (nsub K NO p2 p1) tol).
Proof. reflexivity. Qed.
Lemma gf_relevant_char tol R : gf_relevant K NO tol R = nre_ltb K NO tol (nabs K NO R).
Proof. reflexivity. Qed.
Lemma gf_matsubara_mult_char n : gf_total_matsubara_mult n = (2 * n + 1)%Z /\ gf_matsubara_mult n = (2 * n + 1)%Z.
Proof. split; reflexivity. Qed.
End Char.

(** * all_some *)
Lemma all_some_map {A B} (f : A -> option B) (g : A -> B) (l : list A) :
  (forall x, In x l -> f x = Some (g x)) -> all_some (map f l) = Some (map g l).
Proof.
  induction l as [|x l IH]; intros H; [reflexivity|]. cbn [map all_some].
  rewrite (H x (or_introl eq_refl)), IH; [reflexivity|]. intros y Hy. apply H. right. exact Hy.
Qed.

(** * Membership in the specification list of a part *)
Lemma in_matches_part {VA VB} (a : cs VA) (b : cs VB) o p q :
  In (o, (p, q)) (matches_part a b) <->
  (o < cs_outer a /\ ptr_at a o <= p < ptr_at a o + (ptr_at a (S o) - ptr_at a o) /\
   ptr_at b o <= q < ptr_at b o + (ptr_at b (S o) - ptr_at b o) /\ idx_at a p = idx_at b q).
Proof.
  unfold matches_part. rewrite in_flat_map. split.
  - intros [o' [Ho Hin]]. apply in_seq in Ho. apply in_map_iff in Hin. destruct Hin as [[p' q'] [E Hin]].
    injection E as <- <- <-. apply in_matches in Hin. split; [lia|exact Hin].
  - intros [Ho Hin]. exists o. split; [apply in_seq; lia|]. apply in_map_iff. exists (p, q). split; [reflexivity|].
    apply in_matches. exact Hin.
Qed.

Section Exact.
Variable K : Type.
Variable NO : numops K.
Notation k0 := (n0 K NO).
Notation k1 := (n1 K NO).
Notation kadd := (nadd K NO).
Notation ksub := (nsub K NO).
Notation kmul := (nmul K NO).
Notation kdiv := (ndiv K NO).
Notation kopp := (nopp K NO).
Variable kinv : K -> K.
Hypothesis Kr : ring_theory k0 k1 kadd kmul ksub kopp (@eq K).
Hypothesis Kdiv : forall a b, kdiv a b = kmul a (kinv b).
Add Ring KringGF : Kr.
Notation bsum := (bigsum K k0 kadd).

Let BS_fold := @fold_left_bigsum K k0 k1 kadd kmul ksub kopp Kr.
Let BS_ext := @bigsum_ext K k0 kadd.
Let BS_zero := @bigsum_zero K k0 k1 kadd kmul ksub kopp Kr.
Let BS_scale_l := @bigsum_scale_l K k0 k1 kadd kmul ksub kopp Kr.
Let BS_scale_r := @bigsum_scale_r K k0 k1 kadd kmul ksub kopp Kr.
Let BS_flat_map := @bigsum_flat_map K k0 k1 kadd kmul ksub kopp Kr.
Let BS_map := @bigsum_map K k0 kadd.
Let BS_swap := @bigsum_swap K k0 k1 kadd kmul ksub kopp Kr.
Let BS_filter := @bigsum_filter K k0 k1 kadd kmul ksub kopp Kr.
Let BS_delta := @bigsum_delta_seq K k0 k1 kadd kmul ksub kopp Kr.

(** ** The matrix a compressed structure denotes: entry (outer o, inner i) *)
Definition cs_get (m : cs K) (o i : nat) : K :=
  bsum (seq (ptr_at m o) (ptr_at m (S o) - ptr_at m o)) (fun p => if idx_at m p =? i then nth p (cs_val m) k0 else k0).

(** ** The Lehmann double sum over a block pair:
       sum_{n in outer block} sum_{m in inner block} C[n,m] CX[m,n] (w_n + w_m) / (z - (E_m - E_n)) *)
Definition gf_part_spec (inp : part_in K) (z : K) : K :=
  bsum (seq 0 (cs_outer (p_C K inp))) (fun n =>
    bsum (seq 0 (cs_inner (p_C K inp))) (fun m =>
      kdiv (kmul (kmul (cs_get (p_C K inp) n m) (cs_get (p_CX K inp) n m))
                 (kadd (nth n (p_wO K inp) k0) (nth m (p_wI K inp) k0)))
           (ksub z (ksub (nth m (p_eI K inp) k0) (nth n (p_eO K inp) k0))))).

(** well-formed input of a part *)
Record part_wf (inp : part_in K) : Prop := {
  pw_C : cs_wf (p_C K inp);
  pw_CX : cs_wf (p_CX K inp);
  pw_outer : cs_outer (p_C K inp) <= cs_outer (p_CX K inp);
  pw_wO : cs_outer (p_C K inp) <= length (p_wO K inp);
  pw_eO : cs_outer (p_C K inp) <= length (p_eO K inp);
  pw_wI : cs_inner (p_C K inp) <= length (p_wI K inp);
  pw_eI : cs_inner (p_C K inp) <= length (p_eI K inp)
}.

(** the candidate term at a matched position, as a total function *)
Definition cand (T : tols K) (inp : part_in K) (m : nat * (nat * nat)) : bool * gterm K :=
  let o := fst m in let p := fst (snd m) in let q := snd (snd m) in
  let i2 := idx_at (p_C K inp) p in
  let R := kmul (kmul (nth p (cs_val (p_C K inp)) k0) (nth q (cs_val (p_CX K inp)) k0))
                (kadd (nth o (p_wO K inp) k0) (nth i2 (p_wI K inp) k0)) in
  let P := ksub (nth i2 (p_eI K inp) k0) (nth o (p_eO K inp) k0) in
  (gf_relevant K NO (t_matrix_element K T) R, (P, R)).

Lemma ptr_S_le_len (m : cs K) (W : cs_wf m) o : o < cs_outer m ->
  ptr_at m o + (ptr_at m (S o) - ptr_at m o) <= length (cs_idx m).
Proof.
  intros Ho. pose proof (wf_ptr_mono m W o Ho). pose proof (ptr_le_len m W (S o) ltac:(lia)). lia.
Qed.

Lemma gf_match_cand T inp (W : part_wf inp) m :
  In m (matches_part (p_C K inp) (p_CX K inp)) -> gf_match K NO T inp m = Some (cand T inp m).
Proof.
  destruct m as [o [p q]]. intros Hin. apply in_matches_part in Hin. destruct Hin as [Ho [Hp [Hq E]]].
  pose proof (ptr_S_le_len _ (pw_C inp W) o Ho) as Lp.
  pose proof (ptr_S_le_len _ (pw_CX inp W) o ltac:(pose proof (pw_outer inp W); lia)) as Lq.
  assert (Hi2 : idx_at (p_C K inp) p < cs_inner (p_C K inp)) by (apply (wf_idx_bound _ (pw_C inp W)); lia).
  unfold gf_match, cand, rdv. cbn [fst snd].
  rewrite (nth_error_nth' (cs_val (p_C K inp)) k0) by (rewrite (wf_val_len _ (pw_C inp W)); lia).
  rewrite (nth_error_nth' (cs_val (p_CX K inp)) k0) by (rewrite (wf_val_len _ (pw_CX inp W)); lia).
  rewrite (nth_error_nth' (cs_idx (p_C K inp)) 0) by lia.
  fold (idx_at (p_C K inp) p).
  rewrite (nth_error_nth' (p_wO K inp) k0) by (pose proof (pw_wO inp W); lia).
  rewrite (nth_error_nth' (p_wI K inp) k0) by (pose proof (pw_wI inp W); lia).
  rewrite (nth_error_nth' (p_eO K inp) k0) by (pose proof (pw_eO inp W); lia).
  rewrite (nth_error_nth' (p_eI K inp) k0) by (pose proof (pw_eI inp W); lia).
  reflexivity.
Qed.

(** the walk part of compute, for well-formed input: a description of the result for every mode *)
Lemma gf_part_compute_done fixed lenient T inp (W : part_wf inp) o :
  gf_part_compute K NO fixed lenient T inp = WDone o ->
  let raw := map (cand T inp) (matches_part (p_C K inp) (p_CX K inp)) in
  o = mkout K (fst (gf_add_terms K NO T (kept K raw))) raw (snd (gf_add_terms K NO T (kept K raw))).
Proof.
  unfold gf_part_compute. intros E.
  destruct (part_walk fixed lenient (p_C K inp) (p_CX K inp)) as [l| | |] eqn:Wk; cbn [wbind] in E; try discriminate E.
  pose proof (part_walk_complete _ _ (pw_C inp W) (pw_CX inp W) (pw_outer inp W) fixed lenient l Wk) as ->.
  rewrite (all_some_map _ (cand T inp)) in E by (intros m Hm; apply gf_match_cand; assumption).
  injection E as <-. reflexivity.
Qed.

Lemma gf_part_compute_fixed lenient T inp (W : part_wf inp) :
  exists o, gf_part_compute K NO true lenient T inp = WDone o.
Proof.
  unfold gf_part_compute.
  rewrite (part_walk_in_bounds _ _ (pw_C inp W) (pw_CX inp W) (pw_outer inp W) lenient). cbn [wbind].
  rewrite (all_some_map _ (cand T inp)) by (intros m Hm; apply gf_match_cand; assumption).
  eexists. reflexivity.
Qed.

(** ** The sum over matched positions is the dense double sum *)
Section DenseSum.
Variables (ia ib : nat -> nat) (va vb : nat -> K).
Variable g : nat -> K.
Variables (p n q k M : nat).
Hypothesis Hia : forall p', p <= p' < p + n -> ia p' < M.

Lemma delta_pair (x y : nat) (h : nat -> K) : x < M ->
  bsum (seq 0 M) (fun m => (if x =? m then k1 else k0) * (if y =? m then k1 else k0) * h m)%type = (if x =? y then h x else k0).
Admitted.
End DenseSum.
End Exact.
