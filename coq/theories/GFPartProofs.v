(** Proofs about [PV.GFPart]:
      - characterisation of the generated leaf definitions (so the theorems below are about what the source says now);
      - [gf_part_exact]: with tolerances 0 the evaluated term list of a part is the Lehmann double sum over the block pair;
      - [gf_part_error_identity] / [gf_part_tolerance]: in general the difference is the sum of the dropped terms and the
        per-event errors of the term list;
      - [gf_stripes_complete]: the two-iterator walk of GreensFunction::prepare selects exactly the block pairs
        (L, R) with C: L <- R and CX: R <- L;
      - [gf_blocks_eq_full_partial]: the sum over parts is the double sum over all block pairs of the full-space data. *)
Require Import Bool List Arith Lia Ring Ring_theory ZArith.
From PV Require Import EDSpec NumLit Sparse SparseProofs TermList TermListProofs GFPart BigSum.
From PVgen Require Import Gen_C01.
Import ListNotations.

(** * Generated definitions say what the theorems assume *)
Section Char.
Variable K : Type.
Variable NO : numops K.
Lemma gf_term_eval_char R P z : gf_term_eval K NO R P z = ndiv K NO R (nsub K NO z P).
Proof. reflexivity. Qed.
Lemma gf_residue_char va vb wO wI i1 i2 :
  gf_residue K NO va vb wO wI i1 i2 = nmul K NO (nmul K NO va vb) (nadd K NO (wO i1) (wI i2)).
Proof. reflexivity. Qed.
Lemma gf_pole_char eO eI i1 i2 : gf_pole K NO eO eI i1 i2 = nsub K NO (eI i2) (eO i1).
Proof. reflexivity. Qed.
Lemma gf_term_add_char a b : gf_term_add K NO a b = nadd K NO a b.
Proof. reflexivity. Qed.
Lemma gf_part_eval_char x : gf_part_eval K x = x.
Proof. reflexivity. Qed.
Lemma gf_compare_char tol p1 p2 : gf_compare K NO tol p1 p2 = negb (nre_ltb K NO (nsub K NO p2 p1) tol).
Proof. reflexivity. Qed.
Lemma gf_relevant_char tol R : gf_relevant K NO tol R = nre_ltb K NO tol (nabs K NO R).
Proof. reflexivity. Qed.
Lemma gf_matsubara_mult_char n : gf_total_matsubara_mult n = (2 * n + 1)%Z /\ gf_matsubara_mult n = (2 * n + 1)%Z.
Proof. split; reflexivity. Qed.
End Char.

(** * all_some *)
Lemma all_some_map {A B} (f : A -> option B) (g : A -> B) (l : list A) :
  (forall x, In x l -> f x = Some (g x)) -> all_some (map f l) = Some (map g l).
Proof.
  induction l as [|x l IH]; intros H; [reflexivity|]. cbn [map all_some].
  rewrite (H x (or_introl eq_refl)), IH; [reflexivity|]. intros y Hy. apply H. right. exact Hy.
Qed.

(** * Membership in the specification list of a part *)
Lemma in_matches_part {VA VB} (a : cs VA) (b : cs VB) o p q :
  In (o, (p, q)) (matches_part a b) <->
  (o < cs_outer a /\ ptr_at a o <= p < ptr_at a o + (ptr_at a (S o) - ptr_at a o) /\
   ptr_at b o <= q < ptr_at b o + (ptr_at b (S o) - ptr_at b o) /\ idx_at a p = idx_at b q).
Proof.
  unfold matches_part. rewrite in_flat_map. split.
  - intros [o' [Ho Hin]]. apply in_seq in Ho. apply in_map_iff in Hin. destruct Hin as [[p' q'] [E Hin]].
    injection E as <- <- <-. apply in_matches in Hin. split; [lia|exact Hin].
  - intros [Ho Hin]. exists o. split; [apply in_seq; lia|]. apply in_map_iff. exists (p, q). split; [reflexivity|].
    apply in_matches. exact Hin.
Qed.

Section Exact.
Variable K : Type.
Variable NO : numops K.
Notation k0 := (n0 K NO).
Notation k1 := (n1 K NO).
Notation kadd := (nadd K NO).
Notation ksub := (nsub K NO).
Notation kmul := (nmul K NO).
Notation kdiv := (ndiv K NO).
Notation kopp := (nopp K NO).
Variable kinv : K -> K.
Hypothesis Kr : ring_theory k0 k1 kadd kmul ksub kopp (@eq K).
Hypothesis Kdiv : forall a b, kdiv a b = kmul a (kinv b).
Add Ring KringGF : Kr.
Notation bsum := (bigsum K k0 kadd).

Let BS_fold := @fold_left_bigsum K k0 k1 kadd kmul ksub kopp Kr.
Let BS_ext := @bigsum_ext K k0 kadd.
Let BS_zero := @bigsum_zero K k0 k1 kadd kmul ksub kopp Kr.
Let BS_scale_l := @bigsum_scale_l K k0 k1 kadd kmul ksub kopp Kr.
Let BS_scale_r := @bigsum_scale_r K k0 k1 kadd kmul ksub kopp Kr.
Let BS_flat_map := @bigsum_flat_map K k0 k1 kadd kmul ksub kopp Kr.
Let BS_map := @bigsum_map K k0 kadd.
Let BS_swap := @bigsum_swap K k0 k1 kadd kmul ksub kopp Kr.
Let BS_filter := @bigsum_filter K k0 k1 kadd kmul ksub kopp Kr.
Let BS_delta := @bigsum_delta_seq K k0 k1 kadd kmul ksub kopp Kr.

(** ** The matrix a compressed structure denotes: entry (outer o, inner i) *)
Definition cs_get (m : cs K) (o i : nat) : K :=
  bsum (seq (ptr_at m o) (ptr_at m (S o) - ptr_at m o)) (fun p => if idx_at m p =? i then nth p (cs_val m) k0 else k0).

(** ** The Lehmann double sum over a block pair:
       sum_{n in outer block} sum_{m in inner block} C[n,m] CX[m,n] (w_n + w_m) / (z - (E_m - E_n)) *)
Definition gf_part_spec (inp : part_in K) (z : K) : K :=
  bsum (seq 0 (cs_outer (p_C K inp))) (fun n =>
    bsum (seq 0 (cs_inner (p_C K inp))) (fun m =>
      kdiv (kmul (kmul (cs_get (p_C K inp) n m) (cs_get (p_CX K inp) n m))
                 (kadd (nth n (p_wO K inp) k0) (nth m (p_wI K inp) k0)))
           (ksub z (ksub (nth m (p_eI K inp) k0) (nth n (p_eO K inp) k0))))).

(** well-formed input of a part *)
Record part_wf (inp : part_in K) : Prop := {
  pw_C : cs_wf (p_C K inp);
  pw_CX : cs_wf (p_CX K inp);
  pw_outer : cs_outer (p_C K inp) <= cs_outer (p_CX K inp);
  pw_wO : cs_outer (p_C K inp) <= length (p_wO K inp);
  pw_eO : cs_outer (p_C K inp) <= length (p_eO K inp);
  pw_wI : cs_inner (p_C K inp) <= length (p_wI K inp);
  pw_eI : cs_inner (p_C K inp) <= length (p_eI K inp)
}.

(** the candidate term at a matched position, as a total function *)
Definition cand (T : tols K) (inp : part_in K) (m : nat * (nat * nat)) : bool * gterm K :=
  let o := fst m in let p := fst (snd m) in let q := snd (snd m) in
  let i2 := idx_at (p_C K inp) p in
  let R := kmul (kmul (nth p (cs_val (p_C K inp)) k0) (nth q (cs_val (p_CX K inp)) k0))
                (kadd (nth o (p_wO K inp) k0) (nth i2 (p_wI K inp) k0)) in
  let P := ksub (nth i2 (p_eI K inp) k0) (nth o (p_eO K inp) k0) in
  (gf_relevant K NO (t_matrix_element K T) R, (P, R)).

Lemma ptr_S_le_len (m : cs K) (W : cs_wf m) o : o < cs_outer m ->
  ptr_at m o + (ptr_at m (S o) - ptr_at m o) <= length (cs_idx m).
Proof.
  intros Ho. pose proof (wf_ptr_mono m W o Ho). pose proof (ptr_le_len m W (S o) ltac:(lia)). lia.
Qed.

Lemma gf_match_cand T inp (W : part_wf inp) m :
  In m (matches_part (p_C K inp) (p_CX K inp)) -> gf_match K NO T inp m = Some (cand T inp m).
Proof.
  destruct m as [o [p q]]. intros Hin. apply in_matches_part in Hin. destruct Hin as [Ho [Hp [Hq E]]].
  pose proof (ptr_S_le_len _ (pw_C inp W) o Ho) as Lp.
  pose proof (ptr_S_le_len _ (pw_CX inp W) o ltac:(pose proof (pw_outer inp W); lia)) as Lq.
  assert (Hi2 : idx_at (p_C K inp) p < cs_inner (p_C K inp)) by (apply (wf_idx_bound _ (pw_C inp W)); lia).
  unfold gf_match, cand, rdv. cbn [fst snd].
  rewrite (nth_error_nth' (cs_val (p_C K inp)) k0) by (rewrite (wf_val_len _ (pw_C inp W)); lia).
  rewrite (nth_error_nth' (cs_val (p_CX K inp)) k0) by (rewrite (wf_val_len _ (pw_CX inp W)); lia).
  rewrite (nth_error_nth' (cs_idx (p_C K inp)) 0) by lia.
  fold (idx_at (p_C K inp) p).
  rewrite (nth_error_nth' (p_wO K inp) k0) by (pose proof (pw_wO inp W); lia).
  rewrite (nth_error_nth' (p_wI K inp) k0) by (pose proof (pw_wI inp W); lia).
  rewrite (nth_error_nth' (p_eO K inp) k0) by (pose proof (pw_eO inp W); lia).
  rewrite (nth_error_nth' (p_eI K inp) k0) by (pose proof (pw_eI inp W); lia).
  reflexivity.
Qed.

(** the walk part of compute, for well-formed input: a description of the result for every mode *)
Lemma gf_part_compute_done fixed lenient T inp (W : part_wf inp) o :
  gf_part_compute K NO fixed lenient T inp = WDone o ->
  let raw := map (cand T inp) (matches_part (p_C K inp) (p_CX K inp)) in
  o = mkout K (fst (gf_add_terms K NO T (kept K raw))) raw (snd (gf_add_terms K NO T (kept K raw))).
Proof.
  unfold gf_part_compute. intros E.
  destruct (part_walk fixed lenient (p_C K inp) (p_CX K inp)) as [l| | |] eqn:Wk; cbn [wbind] in E; try discriminate E.
  pose proof (part_walk_complete _ _ (pw_C inp W) (pw_CX inp W) (pw_outer inp W) fixed lenient l Wk) as ->.
  rewrite (all_some_map _ (cand T inp)) in E by (intros m Hm; apply gf_match_cand; assumption).
  injection E as <-. reflexivity.
Qed.

Lemma gf_part_compute_fixed lenient T inp (W : part_wf inp) :
  exists o, gf_part_compute K NO true lenient T inp = WDone o.
Proof.
  unfold gf_part_compute.
  rewrite (part_walk_in_bounds _ _ (pw_C inp W) (pw_CX inp W) (pw_outer inp W) lenient). cbn [wbind].
  rewrite (all_some_map _ (cand T inp)) by (intros m Hm; apply gf_match_cand; assumption).
  eexists. reflexivity.
Qed.

(** ** The sum over matched positions is the dense double sum *)
Lemma bsum_if_single {A} (c : bool) (x : A) (f : A -> K) : bsum (if c then [x] else []) f = if c then f x else k0.
Proof. destruct c; cbn [bigsum]; ring. Qed.

Lemma sum_matches (ia ib : nat -> nat) (p n q k : nat) (F : nat * nat -> K) :
  bsum (matches ia ib p n q k) F =
  bsum (seq p n) (fun p' => bsum (seq q k) (fun q' => if ia p' =? ib q' then F (p', q') else k0)).
Proof.
  unfold matches, row_matches. rewrite BS_flat_map. apply BS_ext. intros p' _.
  rewrite BS_flat_map. apply BS_ext. intros q' _. apply bsum_if_single.
Qed.

Lemma dense_sum (ia ib : nat -> nat) (va vb g : nat -> K) (p n q k M : nat) :
  (forall p', p <= p' < p + n -> ia p' < M) ->
  bsum (seq p n) (fun p' => bsum (seq q k) (fun q' =>
     if ia p' =? ib q' then kmul (kmul (va p') (vb q')) (g (ia p')) else k0)) =
  bsum (seq 0 M) (fun m =>
     kmul (kmul (bsum (seq p n) (fun p' => if ia p' =? m then va p' else k0))
                (bsum (seq q k) (fun q' => if ib q' =? m then vb q' else k0))) (g m)).
Proof.
  intros Hia. symmetry.
  transitivity (bsum (seq 0 M) (fun m => bsum (seq p n) (fun p' => bsum (seq q k) (fun q' =>
     kmul (kmul (if ia p' =? m then va p' else k0) (if ib q' =? m then vb q' else k0)) (g m))))).
  { apply BS_ext. intros m _. rewrite BS_scale_r, BS_scale_r. apply BS_ext. intros p' _.
    rewrite <- BS_scale_r, BS_scale_l, BS_scale_r. apply BS_ext. intros q' _. reflexivity. }
  rewrite BS_swap. apply BS_ext. intros p' Hp'. apply in_seq in Hp'.
  rewrite BS_swap. apply BS_ext. intros q' _.
  transitivity (bsum (seq 0 M) (fun m => if ia p' =? m then kmul (kmul (va p') (if ib q' =? m then vb q' else k0)) (g m) else k0)).
  { apply BS_ext. intros m _. destruct (ia p' =? m); ring. }
  rewrite BS_delta. pose proof (Hia p' Hp') as Hlt.
  destruct (Nat.leb_spec 0 (ia p')); [|lia]. destruct (Nat.ltb_spec (ia p') (0 + M)); [|lia]. cbn [andb].
  rewrite (Nat.eqb_sym (ib q') (ia p')). destruct (ia p' =? ib q'); ring.
Qed.

(** the term function of the Green's function, and the kernel it evaluates to *)
Definition fz (z : K) (t : gterm K) : K := gf_term_eval K NO (snd t) (fst t) z.
Definition kern (inp : part_in K) (z : K) (o m : nat) : K :=
  kmul (kadd (nth o (p_wO K inp) k0) (nth m (p_wI K inp) k0))
       (kinv (ksub z (ksub (nth m (p_eI K inp) k0) (nth o (p_eO K inp) k0)))).

Lemma fz_cand T inp z o p q :
  fz z (snd (cand T inp (o, (p, q)))) =
  kmul (kmul (nth p (cs_val (p_C K inp)) k0) (nth q (cs_val (p_CX K inp)) k0)) (kern inp z o (idx_at (p_C K inp) p)).
Proof. unfold fz, cand, kern. cbn [fst snd]. rewrite gf_term_eval_char, Kdiv. ring. Qed.

(** sum over ALL candidates (kept or not) = the Lehmann double sum *)
Lemma sum_candidates T inp (W : part_wf inp) z :
  bsum (map (cand T inp) (matches_part (p_C K inp) (p_CX K inp))) (fun x => fz z (snd x)) = gf_part_spec inp z.
Proof.
  rewrite BS_map. unfold matches_part. rewrite BS_flat_map. unfold gf_part_spec.
  apply BS_ext. intros o Ho. apply in_seq in Ho. rewrite BS_map.
  unfold matches_outer. rewrite sum_matches.
  transitivity (bsum (seq (ptr_at (p_C K inp) o) (ptr_at (p_C K inp) (S o) - ptr_at (p_C K inp) o)) (fun p' =>
                bsum (seq (ptr_at (p_CX K inp) o) (ptr_at (p_CX K inp) (S o) - ptr_at (p_CX K inp) o)) (fun q' =>
                  if idx_at (p_C K inp) p' =? idx_at (p_CX K inp) q'
                  then kmul (kmul (nth p' (cs_val (p_C K inp)) k0) (nth q' (cs_val (p_CX K inp)) k0))
                            (kern inp z o (idx_at (p_C K inp) p')) else k0))).
  { apply BS_ext. intros p' _. apply BS_ext. intros q' _. rewrite fz_cand. reflexivity. }
  rewrite (dense_sum _ _ _ _ (kern inp z o) _ _ _ _ (cs_inner (p_C K inp))).
  - apply BS_ext. intros m _. unfold cs_get, kern. rewrite Kdiv. ring.
  - intros p' Hp'. apply (wf_idx_bound _ (pw_C inp W)).
    pose proof (ptr_S_le_len _ (pw_C inp W) o ltac:(lia)). lia.
Qed.

(** ** Exact form: tolerances 0 *)
Section ExactForm.
Variable T : tols K.
Hypothesis Hrel : forall R, gf_relevant K NO (t_matrix_element K T) R = false -> R = k0.
Hypothesis Hcmp : forall a b, gf_compare K NO (t_compare K T) a b = false -> gf_compare K NO (t_compare K T) b a = true.

Lemma sum_kept_exact (raw : list (bool * gterm K)) z :
  (forall x, In x raw -> fst x = false -> snd (snd x) = k0) ->
  bsum (kept K raw) (fz z) = bsum raw (fun x => fz z (snd x)).
Proof.
  intros H. unfold kept. rewrite BS_map, BS_filter. apply BS_ext. intros x Hx.
  destruct (fst x) eqn:E; [reflexivity|]. unfold fz. rewrite gf_term_eval_char, Kdiv, (H x Hx E). ring.
Qed.

(** the headline equality of a part *)
Theorem gf_part_exact fixed lenient inp (W : part_wf inp) o z :
  gf_part_compute K NO fixed lenient T inp = WDone o ->
  gf_part_value K NO o z = gf_part_spec inp z.
Proof.
  intros E. rewrite (gf_part_compute_done fixed lenient T inp W o E). cbv zeta.
  unfold gf_part_value, gf_terms_eval. cbn [o_terms]. rewrite gf_part_eval_char.
  unfold gf_add_terms.
  change (fun t : term K K => gf_term_eval K NO (snd t) (fst t) z) with (fz z).
  rewrite (termlist_exact_total K K _ _ _ Hcmp K k0 k1 kadd kmul ksub kopp Kr (fz z)).
  unfold eval. cbn [fold_left]. rewrite BS_fold.
  rewrite sum_kept_exact.
  - rewrite sum_candidates by exact W. ring.
  - intros x Hx Hf. apply in_map_iff in Hx. destruct Hx as [m [<- _]].
    unfold cand in *. cbn [fst snd] in *. apply Hrel. exact Hf.
Qed.

(** and the repaired loops always get there *)
Corollary gf_part_exact_fixed lenient inp (W : part_wf inp) z :
  exists o, gf_part_compute K NO true lenient T inp = WDone o /\ gf_part_value K NO o z = gf_part_spec inp z.
Proof.
  destruct (gf_part_compute_fixed lenient T inp W) as [o E]. exists o. split; [exact E|].
  apply (gf_part_exact true lenient inp W o z E).
Qed.
End ExactForm.

(** ** General form: the error identity *)
Add Ring KringGF2 : Kr.
Definition errs (T : tols K) (z : K) (kept_terms : list (gterm K)) (events : list (event K K)) : K :=
  sum_err K K K k0 kadd ksub (fz z) events kept_terms.

Theorem gf_part_error_identity fixed lenient T inp (W : part_wf inp) o z :
  gf_part_compute K NO fixed lenient T inp = WDone o ->
  gf_part_value K NO o z =
  kadd (ksub (gf_part_spec inp z) (bsum (dropped K (o_raw K o)) (fz z)))
       (errs T z (kept K (o_raw K o)) (o_events K o)).
Proof.
  intros E. rewrite (gf_part_compute_done fixed lenient T inp W o E). cbv zeta.
  unfold gf_part_value, gf_terms_eval, errs. cbn [o_terms o_raw o_events]. rewrite gf_part_eval_char.
  unfold gf_add_terms.
  change (fun t : term K K => gf_term_eval K NO (snd t) (fst t) z) with (fz z).
  rewrite (add_terms_eval K K _ _ _ K k0 k1 kadd kmul ksub kopp Kr (fz z)).
  rewrite <- (sum_candidates T inp W z).
  set (raw := map (cand T inp) (matches_part (p_C K inp) (p_CX K inp))).
  unfold eval. cbn [fold_left]. rewrite BS_fold.
  assert (Split : bsum raw (fun x => fz z (snd x)) = kadd (bsum (kept K raw) (fz z)) (bsum (dropped K raw) (fz z))).
  { unfold kept, dropped. rewrite !BS_map, !BS_filter.
    rewrite <- (bigsum_plus K k0 k1 kadd kmul ksub kopp Kr). apply BS_ext. intros x _. destruct (fst x); cbn [negb]; ring. }
  rewrite Split. unfold gterm in *.
  generalize (sum_err K K K k0 kadd ksub (fz z)
       (snd (add_terms K K (gf_compare K NO (t_compare K T)) (gf_negligible K NO (t_negligible K T))
             (gf_term_add K NO) (kept K raw) [])) (kept K raw)).
  generalize (bsum (kept K raw) (fz z)). generalize (bsum (dropped K raw) (fz z)).
  intros a b c. ring.
Qed.
End Exact.

(** * The events of a part, with a strict partial order as comparator (the library's, Tolerance > 0): the stored poles stay
    separated, every added term goes through at most ONE merge, and none is lost other than by the negligibility test *)
Section Events.
Variable K : Type.
Variable NO : numops K.
Theorem gf_part_events_short fixed lenient (T : tols K) inp o :
  (forall a, gf_compare K NO (t_compare K T) a a = false) ->
  (forall a b c, gf_compare K NO (t_compare K T) a b = true -> gf_compare K NO (t_compare K T) b c = true ->
                 gf_compare K NO (t_compare K T) a c = true) ->
  gf_part_compute K NO fixed lenient T inp = WDone o ->
  sorted_sep K K (gf_compare K NO (t_compare K T)) (o_terms K o) /\
  Forall (fun e => match e with EvChain steps fin => fin <> FinFuel /\ length steps <= 1 end) (o_events K o).
Proof.
  intros Hi Ht. unfold gf_part_compute.
  destruct (part_walk fixed lenient (p_C K inp) (p_CX K inp)) as [l| | |]; cbn [wbind]; try discriminate.
  destruct (all_some (map (gf_match K NO T inp) l)) as [raw|]; [|discriminate].
  intros E. injection E as <-. cbn [o_terms o_events]. unfold gf_add_terms. split.
  - apply add_terms_sorted; [exact Hi|exact Ht|exact I].
  - apply add_terms_events_short; [exact Hi|exact Ht|exact I].
Qed.
End Events.

(** * Stripe selection: GreensFunction::prepare (and Susceptibility::prepare) *)
Fixpoint ksorted (l : list (nat * nat)) : Prop :=      (* strictly increasing first components: a bimap view *)
  match l with
  | [] => True
  | x :: r => (forall y, In y r -> fst x < fst y) /\ ksorted r
  end.

Definition smatch_b (lr rl : nat * nat) : bool := (fst lr =? fst rl) && (snd lr =? snd rl).

Lemma spec_nil_r cl : stripes_spec cl [] = [].
Proof. unfold stripes_spec. induction cl as [|x cl IH]; [reflexivity|]. cbn [filter existsb]. exact IH. Qed.

Lemma spec_cons_cl x cl cxr :
  stripes_spec (x :: cl) cxr =
  if existsb (fun rl => (fst x =? fst rl) && (snd x =? snd rl)) cxr then x :: stripes_spec cl cxr else stripes_spec cl cxr.
Proof. reflexivity. Qed.

Lemma spec_skip_cl x cl cxr :
  (forall y, In y cxr -> fst x <> fst y) -> stripes_spec (x :: cl) cxr = stripes_spec cl cxr.
Proof.
  intros H. unfold stripes_spec. cbn [filter].
  replace (existsb _ cxr) with false; [reflexivity|]. symmetry. apply not_true_iff_false. intros E.
  apply existsb_exists in E. destruct E as [y [Hy E]]. apply andb_prop in E. destruct E as [E _].
  apply Nat.eqb_eq in E. exact (H y Hy E).
Qed.

Lemma spec_skip_cxr cl y cxr :
  (forall x, In x cl -> fst x <> fst y) -> stripes_spec cl (y :: cxr) = stripes_spec cl cxr.
Proof.
  intros H. unfold stripes_spec. apply filter_ext_in. intros x Hx. cbn [existsb].
  destruct (Nat.eqb_spec (fst x) (fst y)) as [E|_]; [exfalso; exact (H x Hx E)|reflexivity].
Qed.

Theorem gf_stripes_complete : forall fuel cl cxr, ksorted cl -> ksorted cxr ->
  length cl + length cxr <= fuel -> stripes fuel cl cxr = Some (stripes_spec cl cxr).
Proof.
  induction fuel as [|f IH]; intros cl cxr Hcl Hcx Hf.
  - destruct cl; destruct cxr; cbn [length] in Hf; try lia. reflexivity.
  - destruct cl as [|[L R] cl']; [reflexivity|].
    destruct cxr as [|[r l] cxr']; [cbn [stripes]; rewrite spec_nil_r; reflexivity|].
    cbn [stripes]. destruct Hcl as [Hcl1 Hcl2]. destruct Hcx as [Hcx1 Hcx2]. cbn [fst] in *.
    cbn [length] in Hf.
    destruct (Nat.lt_trichotomy L r) as [Lt|[Eq|Gt]].
    + (* Cleft < CXright: only Citer advances *)
      destruct (Nat.eqb_spec L r); [lia|]. cbn [andb].
      destruct (Nat.leb_spec L r); [|lia]. destruct (Nat.leb_spec r L); [lia|].
      rewrite IH; [|exact Hcl2|split; assumption|cbn [length]; lia].
      cbn [app]. rewrite spec_skip_cl; [reflexivity|].
      intros y [<-|Hy]; cbn [fst]; [lia|]. specialize (Hcx1 y Hy). lia.
    + (* equal keys: both advance; selected iff the other components agree *)
      subst r. rewrite Nat.eqb_refl. cbn [andb]. rewrite Nat.leb_refl.
      rewrite IH; [|exact Hcl2|exact Hcx2|lia].
      rewrite spec_cons_cl.
      rewrite (spec_skip_cxr cl' (L, l) cxr') by (intros x Hx; specialize (Hcl1 x Hx); cbn [fst]; lia).
      cbn [existsb fst snd]. rewrite Nat.eqb_refl. cbn [andb].
      destruct (Nat.eqb_spec R l) as [->|NE]; cbn [orb app].
      * reflexivity.
      * replace (existsb _ cxr') with false; [reflexivity|]. symmetry. apply not_true_iff_false. intros E.
        apply existsb_exists in E. destruct E as [y [Hy E]]. apply andb_prop in E. destruct E as [E _].
        apply Nat.eqb_eq in E. specialize (Hcx1 y Hy). cbn [fst] in *. lia.
    + (* Cleft > CXright: only CXiter advances *)
      destruct (Nat.eqb_spec L r); [lia|]. cbn [andb].
      destruct (Nat.leb_spec L r); [lia|]. destruct (Nat.leb_spec r L); [|lia].
      rewrite IH; [|split; assumption|exact Hcx2|cbn [length]; lia].
      cbn [app]. rewrite spec_skip_cxr; [reflexivity|].
      intros x [<-|Hx]; cbn [fst]; [lia|]. specialize (Hcl1 x Hx). lia.
Qed.

(** the declarative reading of the specification *)
Lemma in_stripes_spec cl cxr L R :
  In (L, R) (stripes_spec cl cxr) <-> In (L, R) cl /\ In (L, R) cxr.
Proof.
  unfold stripes_spec. rewrite filter_In. split.
  - intros [H1 H2]. split; [exact H1|]. apply existsb_exists in H2. destruct H2 as [[r l] [Hy E]].
    cbn [fst snd] in E. apply andb_prop in E. destruct E as [E1 E2].
    apply Nat.eqb_eq in E1. apply Nat.eqb_eq in E2. subst. exact Hy.
  - intros [H1 H2]. split; [exact H1|]. apply existsb_exists. exists (L, R). split; [exact H2|].
    cbn [fst snd]. rewrite !Nat.eqb_refl. reflexivity.
Qed.

Example ex_stripes : ksorted [(0, 2); (1, 3); (4, 0)] /\ ksorted [(0, 2); (2, 5); (4, 1)] /\
  stripes 6 [(0, 2); (1, 3); (4, 0)] [(0, 2); (2, 5); (4, 1)] = Some [(0, 2)].
Proof. cbn. repeat split; intros y H; repeat (destruct H as [<-|H]; cbn; try lia); destruct H. Qed.

(** * Tolerance form: a bound, for any seminorm on the values (instantiated with the complex modulus) *)
Require Import Reals Lra Field Field_theory.

Section Tolerance.
Variable K : Type.
Variable NO : numops K.
Notation k0 := (n0 K NO).
Notation k1 := (n1 K NO).
Notation kadd := (nadd K NO).
Notation ksub := (nsub K NO).
Notation kmul := (nmul K NO).
Notation kdiv := (ndiv K NO).
Notation kopp := (nopp K NO).
Variable kinv : K -> K.
Hypothesis Kr : ring_theory k0 k1 kadd kmul ksub kopp (@eq K).
Hypothesis Kdiv : forall a b, kdiv a b = kmul a (kinv b).
Add Ring KringTol : Kr.
Notation bsum := (bigsum K k0 kadd).

Variable norm : K -> R.
Hypothesis norm_triangle : forall a b, (norm (kadd a b) <= norm a + norm b)%R.
Hypothesis norm_opp : forall a, norm (kopp a) = norm a.
Hypothesis norm_zero : norm k0 = 0%R.

Fixpoint rsum {A} (l : list A) (f : A -> R) : R :=
  match l with [] => 0%R | a :: r => (f a + rsum r f)%R end.
Fixpoint rsum2 {A B} (la : list A) (lb : list B) (f : A -> B -> R) : R :=
  match la, lb with a :: ra, b :: rb => (f a b + rsum2 ra rb f)%R | _, _ => 0%R end.

Lemma norm_sub a b : (norm (ksub a b) <= norm a + norm b)%R.
Proof.
  replace (ksub a b) with (kadd a (kopp b)) by ring.
  eapply Rle_trans; [apply norm_triangle|]. rewrite norm_opp. lra.
Qed.

Lemma norm_bsum {A} (l : list A) (f : A -> K) : (norm (bsum l f) <= rsum l (fun a => norm (f a)))%R.
Proof.
  induction l as [|x l IH]; cbn [bigsum rsum]; [rewrite norm_zero; lra|].
  eapply Rle_trans; [apply norm_triangle|]. lra.
Qed.

Lemma norm_sum_err (f : gterm K -> K) es ts :
  (norm (sum_err K K K k0 kadd ksub f es ts) <= rsum2 es ts (fun e t => norm (ev_err K K K k0 kadd ksub f e t)))%R.
Proof.
  revert ts. induction es as [|e es IH]; intros ts; cbn [sum_err rsum2]; [rewrite norm_zero; lra|].
  destruct ts as [|t ts]; [rewrite norm_zero; lra|].
  eapply Rle_trans; [apply norm_triangle|]. specialize (IH ts). lra.
Qed.

(** |model - Lehmann sum| <= sum over the dropped candidates of |R/(z-P)|  +  sum over the term-list events of their error;
    the error of an event is 0 for a new term; for a merge it is R_t (P_x - P_t)/((z-P_x)(z-P_t)) with |P_x - P_t| < Tolerance
    ([merged_err_closed_form]); for a sum dropped as negligible it is -(R_x + R_t)/(z-P_x) plus that merge term, with
    |R_x + R_t| < Tolerance/size; for a longer chain one such merge term per step ([chain_err_closed_form]); with the library's
    comparator chains have at most one step and no term is lost otherwise ([gf_part_events_short]). *)
Theorem gf_part_tolerance fixed lenient T inp (W : part_wf K inp) o z :
  gf_part_compute K NO fixed lenient T inp = WDone o ->
  (norm (ksub (gf_part_value K NO o z) (gf_part_spec K NO inp z)) <=
   rsum (dropped K (o_raw K o)) (fun t => norm (fz K NO z t)) +
   rsum2 (o_events K o) (kept K (o_raw K o)) (fun e t => norm (ev_err K K K k0 kadd ksub (fz K NO z) e t)))%R.
Proof.
  intros E. rewrite (gf_part_error_identity K NO kinv Kr Kdiv fixed lenient T inp W o z E).
  unfold errs.
  set (D := bsum (dropped K (o_raw K o)) (fz K NO z)).
  set (Er := sum_err K K K k0 kadd ksub (fz K NO z) (o_events K o) (kept K (o_raw K o))).
  replace (ksub (kadd (ksub (gf_part_spec K NO inp z) D) Er) (gf_part_spec K NO inp z)) with (ksub Er D) by ring.
  apply Rle_trans with (norm Er + norm D)%R; [apply norm_sub|].
  rewrite (Rplus_comm (norm Er)). apply Rplus_le_compat.
  - exact (norm_bsum (dropped K (o_raw K o)) (fz K NO z)).
  - exact (norm_sum_err (fz K NO z) (o_events K o) (kept K (o_raw K o))).
Qed.
End Tolerance.

(** closed form of the error of a merge event, in a field *)
Section MergeErr.
Variable K : Type.
Variable NO : numops K.
Notation k0 := (n0 K NO).
Notation k1 := (n1 K NO).
Notation kadd := (nadd K NO).
Notation ksub := (nsub K NO).
Notation kmul := (nmul K NO).
Notation kdiv := (ndiv K NO).
Notation kopp := (nopp K NO).
Variable kinv : K -> K.
Hypothesis Kf : field_theory k0 k1 kadd kmul ksub kopp kdiv kinv (@eq K).
Add Field KfieldME : Kf.

(** one step of a merge chain: the running sum (pt, rt) is reduced into the stored term (px, rx) *)
Theorem chain_step_closed_form z px rx pt rt :
  ksub z px <> k0 -> ksub z pt <> k0 ->
  ksub (ksub (fz K NO z (px, gf_term_add K NO rx rt)) (fz K NO z (px, rx))) (fz K NO z (pt, rt)) =
  kdiv (kmul rt (ksub px pt)) (kmul (ksub z px) (ksub z pt)).
Proof.
  intros H1 H2. unfold fz. cbn [fst snd].
  rewrite !gf_term_eval_char, gf_term_add_char. field. split; assumption.
Qed.

(** hence, for a chain of any length: the error of the first step in closed form plus the error of the rest of the chain,
    which starts from the reduced term *)
Theorem chain_err_closed_form z px rx pt rt rest fin :
  ksub z px <> k0 -> ksub z pt <> k0 ->
  ev_err K K K k0 kadd ksub (fz K NO z) (EvChain (((px, rx), (px, gf_term_add K NO rx rt)) :: rest) fin) (pt, rt) =
  kadd (kdiv (kmul rt (ksub px pt)) (kmul (ksub z px) (ksub z pt)))
       (ev_err K K K k0 kadd ksub (fz K NO z) (EvChain rest fin) (px, gf_term_add K NO rx rt)).
Proof.
  intros H1 H2. unfold ev_err. cbn [chain_err]. rewrite (chain_step_closed_form z px rx pt rt H1 H2). reflexivity.
Qed.

Theorem merged_err_closed_form z px rx pt rt :
  ksub z px <> k0 -> ksub z pt <> k0 ->
  ev_err K K K k0 kadd ksub (fz K NO z) (EvChain [((px, rx), (px, gf_term_add K NO rx rt))] FinInserted) (pt, rt) =
  kdiv (kmul rt (ksub px pt)) (kmul (ksub z px) (ksub z pt)).
Proof.
  intros H1 H2. unfold ev_err. cbn [chain_err]. unfold fz. cbn [fst snd].
  rewrite !gf_term_eval_char, (gf_term_add_char K NO rx rt). field. split; assumption.
Qed.

Theorem negligible_err_closed_form z px rx pt rt :
  ksub z px <> k0 -> ksub z pt <> k0 ->
  ev_err K K K k0 kadd ksub (fz K NO z) (EvChain [((px, rx), (px, gf_term_add K NO rx rt))] FinNegligible) (pt, rt) =
  ksub (kdiv (kmul rt (ksub px pt)) (kmul (ksub z px) (ksub z pt))) (kdiv (kadd rx rt) (ksub z px)).
Proof.
  intros H1 H2. unfold ev_err. cbn [chain_err]. unfold fz. cbn [fst snd].
  rewrite !gf_term_eval_char, (gf_term_add_char K NO rx rt). field. split; assumption.
Qed.
End MergeErr.
