(** PolyGen.v -- Pomerol::Operator rebuilt around the descriptions that the translator reads off the C++ (C05).

    PV.Poly / PV.Fock are hand-written.  translator/gen_operator.py regenerates, on every run, from the source text of the tree
    under test, one file per C++ function (coq/gen/Gen_Op*.v, Gen_Preset*.v, Gen_N*.v, Gen_Sz*.v; list in the header of the
    translator).  Below every function of PV.Poly / PV.Fock is written once more around the GENERATED pieces ([..._src]):

      - the order of operators from the enum codes and the field order of composite_index_t ([op_compare_src], [flip_src]);
      - the comparator of the map from [gen_mono_less]; the map insertion from the generated insert shape and erase test;
      - normalize_and_insert as an INTERPRETER of the generated statement lists (guard, statements in front of `do`, per pass,
        the for header, the loop body, the while condition, the final insert) over an explicit state (the monomial as an array,
        n, coeff, target, is_swapped, the scratch monomial) -- so a scratch monomial declared outside the loop keeps its contents,
        an extra `return` returns, a changed bound changes the positions read;
      - actRight(monomial, ket) as an interpreter of the generated loop body over (bra, int locals, prev_pos_);
      - the algebra (+=, -=, *=, unary minus, scalar multiple, commutator, anticommutator, ==, commutes, isEmpty), the action of
        a polynomial on a Fock state and the presets around the generated expressions.

    PV.PolyGenProofs proves `generated piece = what the model assumes` (closed computations), from them `..._src = model`, and
    transports the theorems (props/Properties_C05_source.v).   Definitions only. *)
Require Import String.
Require Import Bool List Arith.
From PV Require Import Outcome Fock Poly PolyShapes.
From PVgen Require Import Gen_OpClass Gen_OpMonoLess Gen_OpEraseZero Gen_OpNormalize Gen_OpEntryEq Gen_OpEq
                          Gen_OpAddAssign Gen_OpSubAssign Gen_OpMulAssign Gen_OpNeg Gen_OpScale Gen_OpAddConst Gen_OpSubConst
                          Gen_OpCommutator Gen_OpAntiCommutator Gen_OpCommutes Gen_OpIsEmpty
                          Gen_OpActMono Gen_OpActPoly Gen_OpMatrixElement
                          Gen_PresetC Gen_PresetCdag Gen_PresetN1 Gen_PresetNoffdiag Gen_PresetClasses
                          Gen_NCtor Gen_NActRight Gen_NMelem2 Gen_NMelem1
                          Gen_SzCtorModes Gen_SzCtorLists Gen_SzTerms Gen_SzMelem1 Gen_SzMelem2 Gen_SzActRight.
Import ListNotations.
Local Open Scope bool_scope.

(** * The order of composite_index_t = boost::tuple<fields>: field by field, in the order of the typedef; op_type by enum code *)
Definition code_of (ann : bool) : nat := if ann then gen_code_annihilation else gen_code_creation.
Definition field_compare (f : string) (a b : op) : comparison :=
  if String.eqb f "op_type"%string then Nat.compare (code_of (fst a)) (code_of (fst b))
  else if String.eqb f "ParticleIndex"%string then Nat.compare (snd a) (snd b)
  else Eq.
Fixpoint fields_compare (fields : list string) (a b : op) : comparison :=
  match fields with
  | [] => Eq
  | f :: r => match field_compare f a b with Eq => fields_compare r a b | c => c end
  end.
Definition op_compare_src (a b : op) : comparison := fields_compare gen_index_fields a b.
Definition op_lt_src (a b : op) : bool := match op_compare_src a b with Lt => true | _ => false end.

(** boost::get<create_annihilate>(x) = op_type(!bool(boost::get<create_annihilate>(x))) *)
Definition flip_src (o : op) : op :=
  if String.eqb (nth gen_create_annihilate gen_index_fields ""%string) "op_type"%string
  then (Nat.eqb (if Nat.eqb (code_of (fst o)) 0 then 1 else 0) gen_code_annihilation, snd o)
  else o.

(** std::lexicographical_compare with operator< of the tuples *)
Fixpoint lex_lt_src (a b : monomial) : bool :=
  match a, b with
  | _, [] => false
  | [], _ :: _ => true
  | x :: a', y :: b' => if op_lt_src x y then true else if op_lt_src y x then false else lex_lt_src a' b'
  end.
(** friend operator<(monomial_t, monomial_t), the comparator of the map *)
Definition mono_less_src (a b : monomial) : bool :=
  gen_mono_less (length a) (length b) (lex_lt_src a b) (lex_lt_src b a).

(** array write *)
Fixpoint lset {A} (i : nat) (v : A) (l : list A) : list A :=
  match l, i with
  | [], _ => []
  | _ :: t, O => v :: t
  | x :: t, S j => x :: lset j v t
  end.

Section PolyGen.
Variable K : Type.
Variables (k0 k1 : K) (kadd kmul ksub : K -> K -> K) (kopp : K -> K).
Variable ksmall : nat -> K -> bool.      (* ksmall n x:  std::abs(x) < n * epsilon() *)
Variable kbig : nat -> K -> bool.        (* kbig n x:    std::abs(x) > n * epsilon() *)
Variable khalf : K.                      (* the literal 0.5 *)

Notation poly := (poly K).

(** * erase_zero_monomial and the insert-or-accumulate idiom on the sorted association list (std::map with [mono_less_src]) *)
Definition erase_test_src (c : K) : bool := gen_erase_test K ksmall c.
Definition ins_newval (sh : ins_shape) (c : K) : K := match ins_new sh with InsCoeff => c | InsNegCoeff => kopp c end.
Definition ins_update (sh : ins_shape) (c' c : K) : K :=
  match ins_upd sh with InsPlus => kadd c' c | InsMinus => ksub c' c | InsKeep => c' end.
Fixpoint insert_src (sh : ins_shape) (m : monomial) (c : K) (p : poly) : poly :=
  match p with
  | [] => [(m, ins_newval sh c)]
  | (m', c') :: t =>
    if mono_less_src m m' then (m, ins_newval sh c) :: p
    else if mono_less_src m' m then (m', c') :: insert_src sh m c t
    else let s := ins_update sh c' c in
         if ins_erase sh && erase_test_src s then t else (m', s) :: t
  end.

(** * normalize_and_insert: interpreter of the generated description *)
Record nstate : Type := mk_ns {
  ns_m : monomial;              (* the array m *)
  ns_n : nat;                   (* the variable of the for loop *)
  ns_c : K;                     (* coeff *)
  ns_tgt : poly;                (* target *)
  ns_sw : bool;                 (* is_swapped *)
  ns_scr : option monomial      (* the scratch monomial, once declared *)
}.
Definition init_ns (m : monomial) (c : K) (tgt : poly) : nstate := mk_ns m 0 c tgt false None.
Definition set_n (s : nstate) (n : nat) : nstate := mk_ns (ns_m s) n (ns_c s) (ns_tgt s) (ns_sw s) (ns_scr s).
Definition set_m (s : nstate) (m : monomial) : nstate := mk_ns m (ns_n s) (ns_c s) (ns_tgt s) (ns_sw s) (ns_scr s).
Definition set_c (s : nstate) (c : K) : nstate := mk_ns (ns_m s) (ns_n s) c (ns_tgt s) (ns_sw s) (ns_scr s).
Definition set_tgt (s : nstate) (t : poly) : nstate := mk_ns (ns_m s) (ns_n s) (ns_c s) t (ns_sw s) (ns_scr s).
Definition set_sw (s : nstate) (b : bool) : nstate := mk_ns (ns_m s) (ns_n s) (ns_c s) (ns_tgt s) b (ns_scr s).
Definition set_scr (s : nstate) (x : option monomial) : nstate := mk_ns (ns_m s) (ns_n s) (ns_c s) (ns_tgt s) (ns_sw s) x.

(** reading an operand: [None] = a position outside the array *)
Fixpoint eval_operand (o : nrm_operand) (s : nstate) : option op :=
  match o with
  | OpdAt pos => nth_error (ns_m s) (pos (ns_n s) (length (ns_m s)))
  | OpdFlipped o' => option_map flip_src (eval_operand o' s)
  end.
Definition cmp2 (f : comparison -> bool) (a b : nrm_operand) (s : nstate) : option bool :=
  match eval_operand a s, eval_operand b s with
  | Some x, Some y => Some (f (op_compare_src x y))
  | _, _ => None
  end.
Definition is_eq (c : comparison) : bool := match c with Eq => true | _ => false end.
Definition is_lt (c : comparison) : bool := match c with Lt => true | _ => false end.
Definition is_gt (c : comparison) : bool := match c with Gt => true | _ => false end.
Fixpoint eval_cond (c : nrm_cond) (s : nstate) : option bool :=
  match c with
  | NcEq a b => cmp2 is_eq a b s
  | NcNe a b => cmp2 (fun x => negb (is_eq x)) a b s
  | NcLt a b => cmp2 is_lt a b s
  | NcGt a b => cmp2 is_gt a b s
  | NcLe a b => cmp2 (fun x => negb (is_gt x)) a b s
  | NcGe a b => cmp2 (fun x => negb (is_lt x)) a b s
  | NcNot a => option_map negb (eval_cond a s)
  | NcAnd a b => match eval_cond a s with Some true => eval_cond b s | r => r end
  | NcOr a b => match eval_cond a s with Some false => eval_cond b s | r => r end
  end.

(** what a statement does: fall through, `return`, `continue`, `break`, or a failure (position outside the array: OOB; the
    scratch monomial used before its declaration: Uninit; a failing nested call) *)
Inductive nres : Type :=
| NNext (s : nstate) | NRet (s : nstate) | NCont (s : nstate) | NBrk (s : nstate) | NFail (e : outcome poly).

Section Run.
Variable rec : monomial -> K -> poly -> outcome poly.      (* normalize_and_insert itself, for the contraction call *)

Fixpoint run_stmt (st : nrm_stmt) (s : nstate) {struct st} : nres :=
  let go := fix go (l : list nrm_stmt) (s : nstate) {struct l} : nres :=
    match l with
    | [] => NNext s
    | x :: r => match run_stmt x s with NNext s' => go r s' | other => other end
    end in
  match st with
  | NsIf c t e => match eval_cond c s with
                  | None => NFail OOB
                  | Some true => go t s
                  | Some false => go e s
                  end
  | NsReturn => NRet s
  | NsContinue => NCont s
  | NsBreak => NBrk s
  | NsScratchNew => NNext (set_scr s (Some []))
  | NsScratchCopy from to =>
    match ns_scr s with
    | None => NFail Uninit
    | Some sc =>
      let a := from (ns_n s) (length (ns_m s)) in
      let b := to (ns_n s) (length (ns_m s)) in
      if (a <=? b) && (b <=? length (ns_m s))
      then NNext (set_scr s (Some (sc ++ firstn (b - a) (skipn a (ns_m s)))))
      else NFail OOB
    end
  | NsRecurse =>
    match ns_scr s with
    | None => NFail Uninit
    | Some sc => match rec sc (ns_c s) (ns_tgt s) with Done t' => NNext (set_tgt s t') | e => NFail e end
    end
  | NsNegate => NNext (set_c s (kopp (ns_c s)))
  | NsSwap a b =>
    let pa := a (ns_n s) (length (ns_m s)) in
    let pb := b (ns_n s) (length (ns_m s)) in
    match nth_error (ns_m s) pa, nth_error (ns_m s) pb with
    | Some x, Some y => NNext (set_m s (lset pa y (lset pb x (ns_m s))))
    | _, _ => NFail OOB
    end
  | NsSetSwapped b => NNext (set_sw s b)
  end.

Fixpoint run_list (l : list nrm_stmt) (s : nstate) {struct l} : nres :=
  match l with
  | [] => NNext s
  | x :: r => match run_stmt x s with NNext s' => run_list r s' | other => other end
  end.

(** for (n = FIRST; COND; ++n) BODY   -- [ns_n] is n *)
Fixpoint for_src (fuel : nat) (s : nstate) {struct fuel} : nres :=
  match fuel with
  | O => NFail OutOfFuel
  | S f =>
    if gen_norm_for_cond (ns_n s) (length (ns_m s)) then
      match run_list gen_norm_body s with
      | NNext s' => for_src f (set_n s' (S (ns_n s')))
      | NCont s' => for_src f (set_n s' (S (ns_n s')))
      | NBrk s' => NNext s'
      | other => other
      end
    else NNext s
  end.
End Run.

Definition final_insert_src (s : nstate) : poly := insert_src gen_norm_insert (ns_m s) (ns_c s) (ns_tgt s).

(** One unit of fuel per pass of the do-while (and per nesting level of the contraction calls), as in Poly.normalize_and_insert.
    [entry = true]: the call starts here (guard, statements in front of `do`); [entry = false]: the next pass of the same call
    (the state, the scratch monomial included, is kept). *)
Fixpoint nai_src (fuel : nat) (entry : bool) (s : nstate) {struct fuel} : outcome poly :=
  match fuel with
  | O => OutOfFuel
  | S f =>
    let rec := fun m c t => nai_src f true (init_ns m c t) in
    if entry && negb (gen_norm_guard (length (ns_m s))) then Done (final_insert_src s)
    else
      match (if entry then run_list rec gen_norm_call_pre s else NNext s) with
      | NNext s1 =>
        match run_list rec gen_norm_pass_pre s1 with
        | NNext s2 =>
          match for_src rec (S (length (ns_m s2))) (set_n s2 (gen_norm_for_first (length (ns_m s2)))) with
          | NNext s3 => if gen_norm_again (ns_sw s3) then nai_src f false s3 else Done (final_insert_src s3)
          | NRet s3 => Done (ns_tgt s3)
          | NFail e => e
          | _ => Uninit
          end
        | NRet s2 => Done (ns_tgt s2)
        | NFail e => e
        | _ => Uninit
        end
      | NRet s1 => Done (ns_tgt s1)
      | NFail e => e
      | _ => Uninit
      end
  end.

Definition normalize_and_insert_src (fuel : nat) (m : monomial) (c : K) (tgt : poly) : outcome poly :=
  nai_src fuel true (init_ns m c tgt).
Definition normalize_src (m : monomial) (c : K) (tgt : poly) : outcome poly :=
  normalize_and_insert_src (fuel_for m) m c tgt.

(** * The algebra *)
(** operator+=(Operator), operator-=(Operator): BOOST_FOREACH over the right operand *)
Definition padd_src (a b : poly) : poly :=
  if gen_add_assign_over_rhs then fold_left (fun acc mc => insert_src gen_add_assign_ins (fst mc) (snd mc) acc) b a else a.
Definition psub_src (a b : poly) : poly :=
  if gen_sub_assign_over_rhs then fold_left (fun acc mc => insert_src gen_sub_assign_ins (fst mc) (snd mc) acc) b a else a.
(** operator-=(Operator const& op) called with an operand that may be the object itself: [aliased] stands for the test &op == this of
    the generated guard (an aliased operand has, in particular, the value of *this). With the guard the aliased call clears the map and
    returns; a call with a distinct object runs the loop. Without the guard the aliased call would erase, through erase_zero_monomial,
    the entry BOOST_FOREACH is visiting (undefined behaviour, not modelled): the leaf lemma gen_sub_alias_guard_is_model requires it *)
Definition psub_assign_src (aliased : bool) (a b : poly) : poly :=
  if gen_sub_assign_alias_guard && aliased then [] else psub_src a b.
(** unary minus *)
Definition pneg_src (a : poly) : poly := map (fun mc => (fst mc, gen_neg_coeff K kopp (snd mc))) a.
(** operator*=(MelemType) *)
Definition pscale_src (alpha : K) (a : poly) : poly :=
  if gen_scale_clear K ksmall alpha then [] else map (fun mc => (fst mc, gen_scale_coeff K kmul (snd mc) alpha)) a.
(** operator+=(MelemType), operator-=(MelemType) *)
Definition padd_const_src (alpha : K) (a : poly) : poly := insert_src gen_add_const_ins gen_add_const_key alpha a.
Definition psub_const_src (alpha : K) (a : poly) : poly := insert_src gen_sub_const_ins gen_sub_const_key alpha a.

(** operator*=(Operator): the two loops in the generated order, the product monomial and coefficient as generated *)
Definition mul_pick (o : mul_operand) (this rhs : poly) : poly := match o with MoThis => this | MoRhs => rhs end.
Definition pmul_src (a b : poly) : outcome poly :=
  fold_left (fun acc mo =>
    fold_left (fun acc' mi =>
      bind acc' (fun t => normalize_src (gen_mul_monomial (fst mo) (fst mi)) (gen_mul_coeff K kmul kopp (snd mo) (snd mi)) t))
      (mul_pick (snd gen_mul_loops) a b) acc) (mul_pick (fst gen_mul_loops) a b) (Done []).

(** operator*, +, - and unary - on Operators (boost operators: copy the left operand, then *=, +=, -=), lifted to outcomes;
    the left operand is evaluated first *)
Definition lift2 (f : poly -> poly -> outcome poly) (x y : outcome poly) : outcome poly :=
  bind x (fun a => bind y (fun b => f a b)).
Definition omul := lift2 pmul_src.
Definition oadd := lift2 (fun a b => Done (padd_src a b)).
Definition osub := lift2 (fun a b => Done (psub_src a b)).
Definition oneg (x : outcome poly) : outcome poly := bind x (fun a => Done (pneg_src a)).

Definition commutator_src (a b : poly) : outcome poly :=
  gen_commutator (outcome poly) omul oadd osub oneg (Done a) (Done b).
Definition anticommutator_src (a b : poly) : outcome poly :=
  gen_anticommutator (outcome poly) omul oadd osub oneg (Done a) (Done b).

(** * operator== *)
(** tests that may read out of bounds; && and || short-circuit from left to right *)
Definition oband (x y : outcome bool) : outcome bool := bind x (fun a => if a then y else Done false).
Definition obor (x y : outcome bool) : outcome bool := bind x (fun a => if a then Done true else y).
Definition obnot (x : outcome bool) : outcome bool := bind x (fun a => Done (negb a)).

(** both iterators advance; the loop ends when the left one is at its end (bl) / the right one is at its end (br); an iterator
    that is dereferenced at its end: OOB; [eq] compares two elements *)
Fixpoint walk_src {A} (eq : A -> A -> outcome bool) (bl br : bool) (a b : list A) {struct a} : outcome bool :=
  match a with
  | [] => if bl then Done true
          else match b with
               | [] => if br then Done true else OOB
               | _ :: _ => OOB
               end
  | x :: a' =>
    match b with
    | [] => if br then Done true else OOB
    | y :: b' => bind (eq x y) (fun e => if e then walk_src eq bl br a' b' else Done false)
    end
  end.
Definition op_eq_src (x y : op) : outcome bool := Done (is_eq (op_compare_src x y)).

Definition entry_eq_src (l r : monomial * K) : outcome bool :=
  gen_entry_eq K (outcome bool) oband obor obnot ksub
    (Done (length (fst l) =? length (fst r)))
    (fun bl br => walk_src op_eq_src bl br (fst l) (fst r))
    (walk_src op_eq_src true false (fst r) (fst l))
    (fun n x => Done (ksmall n x))
    (snd l) (snd r).
Definition poly_eq_src (a b : poly) : outcome bool :=
  gen_poly_eq (outcome bool) oband obor obnot
    (Done (length a =? length b))
    (fun bl br => walk_src entry_eq_src bl br a b)
    (walk_src entry_eq_src true false b a).

(** Operator::commutes, Operator::isEmpty *)
Definition commutes_src (a b : poly) : outcome bool :=
  gen_commutes (outcome poly) omul oadd osub oneg (outcome bool)
    (fun x y => bind x (fun p => bind y (fun q => poly_eq_src p q))) (Done a) (Done b).
Definition is_empty_src (a : poly) : bool := gen_is_empty (length a).

(** * Presets *)
Definition p_c_src (i : nat) : poly := gen_c K k1 i.
Definition p_cdag_src (i : nat) : poly := gen_c_dag K k1 i.
Definition p_n_src (i : nat) : poly := gen_n K k1 i.
Definition p_n_offdiag_src (i j : nat) : poly := gen_n_offdiag K k1 i j.

Definition scale_right (p : poly) (a : K) : poly := pscale_src a p.      (* p * a *)
(** N::N(Nmodes) *)
Definition p_N_src (M : nat) : poly :=
  fold_left (gen_N_step poly K padd_src psub_src scale_right p_n_src khalf) (gen_N_range M) [].
(** Sz::generateTerms on the two stored lists; Sz::Sz(up, down); Sz::Sz(Nmodes, up) *)
Definition sz_terms_src (ups downs : list nat) : poly :=
  fold_left (gen_Sz_terms_step poly K padd_src psub_src scale_right p_n_src khalf
               (fun i => nth i ups 0) (fun i => nth i downs 0))
            (gen_Sz_terms_range (length ups) (length downs)) [].
Definition p_Sz_lists_src (ups downs : list nat) : outcome poly :=
  if gen_Sz_lists_throws (length ups) (length downs) then Throws 1 else Done (sz_terms_src ups downs).
Definition sz_down_src (M : nat) (ups : list nat) : list nat :=
  filter (gen_Sz_down_keep (fun i => existsb (Nat.eqb i) ups)) (gen_Sz_down_range M).
Definition p_Sz_src (M : nat) (ups : list nat) : outcome poly :=
  let downs := sz_down_src M ups in
  if gen_Sz_modes_throws (length ups) (length downs) then Throws 1 else Done (sz_terms_src ups downs).

(** the shortcuts: N::getMatrixElement(ket), N::getMatrixElement(bra, ket), N::actRight(ket), and the same for Sz;
    [kofnat]: conversion of an integer to MelemType *)
Fixpoint kofnat (n : nat) : K := match n with O => k0 | S m => kadd k1 (kofnat m) end.
Definition occ_count (l : list nat) (ket : state) : nat := length (filter (fun i => nth i ket false) l).
Definition state_same (s t : state) : bool := Nat.eqb (length s) (length t) && Nat.eqb (nat_of_state s) (nat_of_state t).

Definition N_melem1_src (ket : state) : K := kofnat (gen_N_melem1 (count_occ ket)).
Definition N_melem2_src (bra ket : state) : K := gen_N_melem2 state K k0 state_same N_melem1_src bra ket.
Definition N_act_right_src (ket : state) : list (state * K) := gen_N_act_right state K N_melem1_src ket.
Definition Sz_melem1_src (ups downs : list nat) (ket : state) : K :=
  gen_Sz_melem1 K kadd ksub kmul kopp khalf kofnat (occ_count ups ket) (occ_count downs ket) (count_occ ket).
Definition Sz_melem2_src (ups downs : list nat) (bra ket : state) : K :=
  gen_Sz_melem2 state K k0 state_same (Sz_melem1_src ups downs) bra ket.
Definition Sz_act_right_src (ups downs : list nat) (ket : state) : list (state * K) :=
  gen_Sz_act_right state K (Sz_melem1_src ups downs) ket.

End PolyGen.

(** * Operator::actRight(monomial, ket): interpreter of the generated loop body *)
Record astate : Type := mk_as {
  as_bra : state;               (* bra *)
  as_vars : list bool;          (* the int locals: true = -1, false = +1 *)
  as_prev : nat                 (* prev_pos_ *)
}.
Definition pos_val (p : act_pos) (ind : nat) (s : astate) : nat :=
  match p with ApPrev => as_prev s | ApInd => ind | ApConst k => k end.
(** [None]: a bit outside the bit string is read (boost::dynamic_bitset: undefined behaviour) *)
Fixpoint eval_bexp (b : act_bexp) (ann : bool) (ind : nat) (s : astate) : option bool :=
  match b with
  | AbIsCreation => Some (negb ann)
  | AbIsAnnihilation => Some ann
  | AbBit p => nth_error (as_bra s) (pos_val p ind s)
  | AbNot a => option_map negb (eval_bexp a ann ind s)
  | AbAnd a c => match eval_bexp a ann ind s with Some true => eval_bexp c ann ind s | r => r end
  | AbOr a c => match eval_bexp a ann ind s with Some false => eval_bexp c ann ind s | r => r end
  | AbPosLt a c => Some (pos_val a ind s <? pos_val c ind s)
  | AbPosLe a c => Some (pos_val a ind s <=? pos_val c ind s)
  | AbPosEq a c => Some (pos_val a ind s =? pos_val c ind s)
  end.
Fixpoint toggle (v : nat) (by_ : bool) (vars : list bool) : list bool :=
  match vars, v with
  | [], _ => []
  | x :: t, O => xorb x by_ :: t
  | x :: t, S w => x :: toggle w by_ t
  end.
Definition set_vars (s : astate) (l : list bool) : astate := mk_as (as_bra s) l (as_prev s).
(** `if (bra[j]) v *= -1` for j over the positions, in order *)
Definition scan_src (v : nat) (positions : list nat) (s : astate) : outcome (option astate) :=
  fold_left (fun acc j => bind acc (fun os =>
               match os with
               | None => Done None
               | Some s => match nth_error (as_bra s) j with
                           | None => OOB
                           | Some bit => Done (Some (set_vars s (toggle v bit (as_vars s))))
                           end
               end)) positions (Done (Some s)).

(** result of a statement: [Done (Some s)] go on, [Done None] the function has returned (ERROR_FOCK_STATE, 0), OOB *)
Fixpoint run_astmt (st : act_stmt) (ann : bool) (ind : nat) (s : astate) {struct st} : outcome (option astate) :=
  let go := fix go (l : list act_stmt) (s : astate) {struct l} : outcome (option astate) :=
    match l with
    | [] => Done (Some s)
    | x :: r => match run_astmt x ann ind s with Done (Some s') => go r s' | other => other end
    end in
  match st with
  | AsIf c t e => match eval_bexp c ann ind s with
                  | None => OOB
                  | Some true => go t s
                  | Some false => go e s
                  end
  | AsReturnZero => Done None
  | AsScanUp v from to =>
    let a := pos_val from ind s in let b := pos_val to ind s in scan_src v (seq a (b - a)) s
  | AsScanDown v from to =>
    let a := pos_val from ind s in let b := pos_val to ind s in scan_src v (rev (seq (S b) (a - b))) s
  | AsSetBit p b =>
    match eval_bexp b ann ind s with
    | None => OOB
    | Some bit => if pos_val p ind s <? length (as_bra s)
                  then Done (Some (mk_as (upd (pos_val p ind s) bit (as_bra s)) (as_vars s) (as_prev s)))
                  else OOB
    end
  | AsMulVar v w => Done (Some (set_vars s (toggle v (nth w (as_vars s) false) (as_vars s))))
  | AsFlip v => Done (Some (set_vars s (toggle v true (as_vars s))))
  | AsSetPrev p => Done (Some (mk_as (as_bra s) (as_vars s) (pos_val p ind s)))
  end.
Fixpoint run_alist (l : list act_stmt) (ann : bool) (ind : nat) (s : astate) {struct l} : outcome (option astate) :=
  match l with
  | [] => Done (Some s)
  | x :: r => match run_astmt x ann ind s with Done (Some s') => run_alist r ann ind s' | other => other end
  end.

Definition act_init (ket : state) : astate := mk_as ket (repeat false gen_act_sign_vars) gen_act_prev_init.
Definition act_step (m : monomial) (acc : outcome (option astate)) (i : nat) : outcome (option astate) :=
  bind acc (fun os =>
    match os with
    | None => Done None
    | Some s => match nth_error m i with
                | None => OOB
                | Some o => run_alist gen_act_body (fst o) (snd o) s
                end
    end).
Definition act_mono_src (m : monomial) (ket : state) : outcome (option (bool * state)) :=
  if gen_act_empty_shortcut && (length m =? 0) then Done (Some (false, ket))
  else bind (fold_left (act_step m) (gen_act_order (length m)) (Done (Some (act_init ket))))
            (fun os => Done (option_map (fun s => (nth gen_act_result_var (as_vars s) false, as_bra s)) os)).

(** * Operator::actRight(ket), Operator::getMatrixElement(bra, ket) *)
Section ActPoly.
Variable K : Type.
Variables (k0 k1 : K) (kadd kmul : K -> K -> K) (kopp : K -> K).
Variables ksmall kbig : nat -> K -> bool.

(** MelemType(sign) *)
Definition melem_of_sign (sg : bool) : K := if sg then kopp k1 else k1.
(** result1[bra] += x (operator[] creates the entry with value 0) *)
Fixpoint acc_add (s : state) (x : K) (l : list (state * K)) : list (state * K) :=
  match l with
  | [] => [(s, kadd k0 x)]
  | (s', c') :: t => if Nat.eqb (nat_of_state s) (nat_of_state s') then (s', kadd c' x) :: t else (s', c') :: acc_add s x t
  end.
Definition act_poly_step (p : poly K) (ket : state) (acc : outcome (list (state * K))) (i : nat) : outcome (list (state * K)) :=
  bind acc (fun l =>
    match nth_error p i with
    | None => OOB
    | Some mc =>
      bind (act_mono_src (fst mc) ket) (fun r =>
        (* (bra, melem): ERROR_FOCK_STATE with 0, or the state with MelemType(sign) *)
        let valid := match r with Some _ => true | None => false end in
        let melem := match r with Some (sg, _) => melem_of_sign sg | None => k0 end in
        if gen_actpoly_guard K ksmall kbig valid melem
        then match r with
             | Some (_, bra) => Done (acc_add bra (gen_actpoly_term K kmul melem (snd mc)) l)
             | None => Uninit                       (* result1[ERROR_FOCK_STATE] += ... : not a state of the model *)
             end
        else Done l)
    end).
Definition act_poly_src (p : poly K) (ket : state) : outcome (list (state * K)) :=
  bind (fold_left (act_poly_step p ket) (gen_actpoly_range (length p)) (Done []))
       (fun l => Done (filter (fun e => negb (gen_actpoly_drop K ksmall kbig (snd e))) l)).
Fixpoint lookup_state (bra : state) (l : list (state * K)) : option K :=
  match l with
  | [] => None
  | (s, c) :: t => if Nat.eqb (nat_of_state bra) (nat_of_state s) then Some c else lookup_state bra t
  end.
Definition matrix_element_src (p : poly K) (bra ket : state) : outcome K :=
  bind (act_poly_src p ket) (fun l => Done (gen_matrix_element K k0 (lookup_state bra l))).
End ActPoly.
