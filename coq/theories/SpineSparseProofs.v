(** Representation glue 1: the compressed storage built by [Spine.cs_of_rows] / [cs_row_major] / [cs_col_major] is
    well-formed ([Sparse.cs_wf]) and denotes ([GFPartProofs.cs_get]) the dense matrix it was built from, with the
    entries that fail the keep test replaced by 0. *)
Require Import Bool List Arith Lia Ring Ring_theory Sorted.
From PV Require Import Outcome EDSpec HPart HPartProofs Sparse BigSum GFPart GFPartProofs Spine.
Import ListNotations.

Section Offsets.
Variable K : Type.

(** first storage position of row o *)
Fixpoint loff (rows : list (list (nat * K))) (o : nat) : nat :=
  match o, rows with
  | S o', r :: t => length r + loff t o'
  | _, _ => 0
  end.

Lemma ptrs_from_length : forall rows s, length (ptrs_from K s rows) = S (length rows).
Proof. induction rows as [|r t IH]; intros s; cbn [ptrs_from length]; [reflexivity|]. rewrite IH. reflexivity. Qed.

Lemma ptrs_from_nth : forall rows s o, o <= length rows -> nth o (ptrs_from K s rows) 0 = s + loff rows o.
Proof.
  induction rows as [|r t IH]; intros s o Ho; cbn [length] in Ho.
  - assert (o = 0) by lia. subst o. cbn. lia.
  - destruct o as [|o]; cbn [ptrs_from nth loff]; [lia|]. rewrite IH by lia. lia.
Qed.

Lemma loff_S : forall rows o, o < length rows -> loff rows (S o) = loff rows o + length (nth o rows []).
Proof.
  induction rows as [|r t IH]; intros o Ho; cbn [length] in Ho; [lia|].
  destruct o as [|o].
  - cbn [loff nth]. destruct t; cbn [loff]; lia.
  - change (loff (r :: t) (S (S o))) with (length r + loff t (S o)). rewrite IH by lia. cbn [loff nth]. lia.
Qed.

Lemma loff_all {B} (f : nat * K -> B) : forall rows, loff rows (length rows) = length (concat (map (map f) rows)).
Proof.
  induction rows as [|r t IH]; [reflexivity|]. cbn [length loff map concat]. rewrite app_length, map_length, IH. reflexivity.
Qed.

Lemma nth_concat_loff {B} (f : nat * K -> B) (d : B) : forall rows o k, o < length rows -> k < length (nth o rows []) ->
  nth (loff rows o + k) (concat (map (map f) rows)) d = nth k (map f (nth o rows [])) d.
Proof.
  induction rows as [|r t IH]; intros o k Ho Hk; cbn [length] in Ho; [lia|].
  destruct o as [|o]; cbn [loff nth map concat] in *.
  - rewrite app_nth1 by (rewrite map_length; exact Hk). reflexivity.
  - rewrite app_nth2 by (rewrite map_length; lia). rewrite map_length.
    replace (length r + loff t o + k - length r) with (loff t o + k) by lia. apply IH; [lia|exact Hk].
Qed.

Lemma ssorted_nth_lt : forall (l : list nat) k, StronglySorted lt l -> S k < length l -> nth k l 0 < nth (S k) l 0.
Proof.
  induction l as [|a l IH]; intros k Hs Hk; cbn [length] in Hk; [lia|].
  inversion Hs as [|a' l' Hs' Hall]; subst. destruct k as [|k].
  - destruct l as [|b l]; cbn [length] in Hk; [lia|]. cbn [nth]. inversion Hall; assumption.
  - change (nth (S k) (a :: l) 0) with (nth k l 0). change (nth (S (S k)) (a :: l) 0) with (nth (S k) l 0).
    apply IH; [exact Hs'|lia].
Qed.

Definition row_ok (inner : nat) (r : list (nat * K)) : Prop :=
  StronglySorted lt (map fst r) /\ Forall (fun j => j < inner) (map fst r).

Theorem cs_of_rows_wf : forall inner rows, Forall (row_ok inner) rows -> cs_wf (cs_of_rows K inner rows).
Proof.
  intros inner rows Hok.
  assert (Ho : cs_outer (cs_of_rows K inner rows) = length rows).
  { unfold cs_outer, cs_of_rows. cbn [cs_ptr]. rewrite ptrs_from_length. reflexivity. }
  assert (Hp : forall o, o <= length rows -> ptr_at (cs_of_rows K inner rows) o = loff rows o).
  { intros o H. unfold ptr_at, cs_of_rows. cbn [cs_ptr]. rewrite ptrs_from_nth by exact H. reflexivity. }
  constructor.
  - rewrite Ho. unfold cs_of_rows. cbn [cs_ptr]. apply ptrs_from_length.
  - rewrite Ho. intros o H. rewrite !Hp by lia. rewrite loff_S by exact H. lia.
  - rewrite Ho, Hp by lia. unfold cs_of_rows. cbn [cs_idx]. apply loff_all.
  - unfold cs_of_rows. cbn [cs_val cs_idx]. rewrite <- !loff_all. reflexivity.
  - rewrite Ho. intros o p H H1 H2. rewrite Hp in H1 by lia. rewrite Hp in H2 by lia. rewrite loff_S in H2 by exact H.
    unfold idx_at, cs_of_rows. cbn [cs_idx].
    replace p with (loff rows o + (p - loff rows o)) by lia.
    replace (S (loff rows o + (p - loff rows o))) with (loff rows o + S (p - loff rows o)) by lia.
    rewrite !(nth_concat_loff fst 0) by (try exact H; lia).
    apply ssorted_nth_lt; [|rewrite map_length; lia].
    rewrite Forall_forall in Hok. apply (Hok (nth o rows [])). apply nth_In. exact H.
  - unfold idx_at, cs_of_rows. cbn [cs_idx cs_inner]. intros p Hpl.
    assert (Hall : Forall (fun j => j < inner) (concat (map (map fst) rows))).
    { clear - Hok. induction Hok as [|r t [_ Hr] _ IH]; cbn [map concat]; [constructor|]. apply Forall_app. split; assumption. }
    rewrite Forall_forall in Hall. apply Hall. apply nth_In. exact Hpl.
Qed.

End Offsets.

Section Get.
Variable K : Type.
Variable NO : numops K.
Notation k0 := (n0 K NO).
Notation k1 := (n1 K NO).
Notation kadd := (nadd K NO).
Notation ksub := (nsub K NO).
Notation kmul := (nmul K NO).
Notation kopp := (nopp K NO).
Hypothesis Kr : ring_theory k0 k1 kadd kmul ksub kopp (@eq K).
Add Ring KringSpS : Kr.
Notation bsum := (bigsum K k0 kadd).
Notation cs_get := (cs_get K NO).

Let BS_ext := @bigsum_ext K k0 kadd.
Let BS_filter := @bigsum_filter K k0 k1 kadd kmul ksub kopp Kr.
Let BS_delta := @bigsum_delta_seq K k0 k1 kadd kmul ksub kopp Kr.

Lemma bsum_shift (s n : nat) (f : nat -> K) : bsum (seq s n) f = bsum (seq 0 n) (fun k => f (s + k)).
Proof.
  revert s f. induction n as [|n IH]; intros s f; [reflexivity|]. cbn [seq bigsum].
  rewrite (IH (S s) f), (IH 1 (fun k => f (s + k))). rewrite Nat.add_0_r. f_equal. apply BS_ext. intros k _. f_equal. lia.
Qed.

Lemma bsum_nth_seq {A} (d : A) (G : A -> K) : forall l : list A, bsum (seq 0 (length l)) (fun k => G (nth k l d)) = bsum l G.
Proof.
  induction l as [|x l IH]; [reflexivity|]. cbn [length seq bigsum nth]. f_equal.
  rewrite (bsum_shift 1). rewrite <- IH. apply BS_ext. intros k _. reflexivity.
Qed.

Lemma bsum_combine {A} (F : nat -> A -> K) (d : A) : forall (l : list A) (s : nat),
  bsum (combine (seq s (length l)) l) (fun ix => F (fst ix) (snd ix)) = bsum (seq s (length l)) (fun i => F i (nth (i - s) l d)).
Proof.
  induction l as [|x l IH]; intros s; [reflexivity|]. cbn [length seq combine bigsum fst snd].
  rewrite Nat.sub_diag. cbn [nth]. f_equal. rewrite IH. apply BS_ext. intros i Hi. apply in_seq in Hi.
  replace (i - s) with (S (i - S s)) by lia. reflexivity.
Qed.

(** the entry a compressed matrix built from rows denotes *)
Theorem cs_of_rows_get : forall inner rows o i, o < length rows ->
  cs_get (cs_of_rows K inner rows) o i = bsum (nth o rows []) (fun jc => if fst jc =? i then snd jc else k0).
Proof.
  intros inner rows o i Ho. unfold GFPartProofs.cs_get.
  assert (Hp : forall o', o' <= length rows -> ptr_at (cs_of_rows K inner rows) o' = loff K rows o').
  { intros o' H. unfold ptr_at, cs_of_rows. cbn [cs_ptr]. rewrite ptrs_from_nth by exact H. reflexivity. }
  rewrite !Hp by lia. rewrite loff_S by exact Ho.
  replace (loff K rows o + length (nth o rows []) - loff K rows o) with (length (nth o rows [])) by lia.
  rewrite bsum_shift. rewrite <- (bsum_nth_seq (0, k0) (fun jc => if fst jc =? i then snd jc else k0)).
  apply BS_ext. intros k Hk. apply in_seq in Hk.
  unfold idx_at, cs_of_rows. cbn [cs_idx cs_val].
  rewrite (nth_concat_loff K fst 0) by (try exact Ho; lia). rewrite (nth_concat_loff K snd k0) by (try exact Ho; lia).
  change 0 with (fst (0, k0)) at 1. rewrite map_nth. change k0 with (snd (0, k0)) at 2. rewrite map_nth. reflexivity.
Qed.

Lemma sparse_row_sum keep (r : list K) i :
  bsum (sparse_row K keep r) (fun jc => if fst jc =? i then snd jc else k0) =
  if i <? length r then (if keep (nth i r k0) then nth i r k0 else k0) else k0.
Proof.
  unfold sparse_row. rewrite BS_filter. unfold idx.
  rewrite (bsum_combine (fun j x => if keep x then (if j =? i then x else k0) else k0) k0 r 0).
  transitivity (bsum (seq 0 (length r)) (fun j => if i =? j then (if keep (nth j r k0) then nth j r k0 else k0) else k0)).
  - apply BS_ext. intros j _. rewrite Nat.sub_0_r, (Nat.eqb_sym j i). destruct (keep (nth j r k0)); destruct (i =? j); reflexivity.
  - rewrite BS_delta. cbn [Nat.leb andb Nat.add]. reflexivity.
Qed.

Lemma seq_ssorted : forall n s, StronglySorted lt (seq s n).
Proof.
  induction n as [|n IH]; intros s; cbn [seq]; constructor; [apply IH|].
  apply Forall_forall. intros x Hx. apply in_seq in Hx. lia.
Qed.

Lemma map_fst_combine_seq {A} : forall (l : list A) s, map fst (combine (seq s (length l)) l) = seq s (length l).
Proof. induction l as [|x l IH]; intros s; [reflexivity|]. cbn [length seq combine map fst]. rewrite IH. reflexivity. Qed.

Lemma ssorted_filter_fst {A} (p : nat * A -> bool) : forall l : list (nat * A),
  StronglySorted lt (map fst l) -> StronglySorted lt (map fst (filter p l)).
Proof.
  induction l as [|x l IH]; intros Hs; [constructor|]. cbn [map] in Hs. inversion Hs as [|a l' Hs' Hall]; subst.
  cbn [filter]. destruct (p x); [|apply IH; exact Hs']. cbn [map]. constructor; [apply IH; exact Hs'|].
  rewrite Forall_forall in *. intros y Hy. apply Hall. apply in_map_iff in Hy. destruct Hy as [z [<- Hz]].
  apply filter_In in Hz. apply in_map. exact (proj1 Hz).
Qed.

Lemma sparse_row_ok keep (r : list K) inner : length r <= inner -> row_ok K inner (sparse_row K keep r).
Proof.
  intros Hl. unfold sparse_row, idx. split.
  - apply ssorted_filter_fst. rewrite map_fst_combine_seq. apply seq_ssorted.
  - apply Forall_forall. intros j Hj. apply in_map_iff in Hj. destruct Hj as [z [<- Hz]]. apply filter_In in Hz.
    destruct Hz as [Hz _]. assert (In (fst z) (map fst (combine (seq 0 (length r)) r))) by (apply in_map; exact Hz).
    rewrite map_fst_combine_seq in H. apply in_seq in H. lia.
Qed.

(** row-major storage of a dense matrix whose rows are not longer than [ncols] *)
Theorem cs_row_major_wf keep ncols (D : mat K) :
  (forall r, In r D -> length r <= ncols) -> cs_wf (cs_row_major K keep ncols D).
Proof.
  intros H. unfold cs_row_major. apply cs_of_rows_wf. apply Forall_forall. intros r Hr.
  apply in_map_iff in Hr. destruct Hr as [r' [<- Hr']]. apply sparse_row_ok. apply H. exact Hr'.
Qed.

Lemma cs_row_major_outer keep ncols (D : mat K) : cs_outer (cs_row_major K keep ncols D) = length D.
Proof. unfold cs_outer, cs_row_major, cs_of_rows. cbn [cs_ptr]. rewrite ptrs_from_length, map_length. reflexivity. Qed.
Lemma cs_row_major_inner keep ncols (D : mat K) : cs_inner (cs_row_major K keep ncols D) = ncols.
Proof. reflexivity. Qed.

Theorem cs_row_major_get keep ncols (D : mat K) n m : n < length D -> m < length (nth n D []) ->
  cs_get (cs_row_major K keep ncols D) n m = (if keep (mget K NO D n m) then mget K NO D n m else k0).
Proof.
  intros Hn Hm. unfold cs_row_major. rewrite cs_of_rows_get by (rewrite map_length; exact Hn).
  change (@nil (nat * K)) with (sparse_row K keep []). rewrite map_nth. rewrite sparse_row_sum.
  destruct (Nat.ltb_spec m (length (nth n D []))); [reflexivity|lia].
Qed.

(** column-major storage of a dense nrows x ncols matrix: outer = column, inner = row *)
Theorem cs_col_major_wf keep nrows ncols (D : mat K) : length D <= nrows -> cs_wf (cs_col_major K NO keep nrows ncols D).
Proof.
  intros H. unfold cs_col_major. apply cs_row_major_wf. intros r Hr.
  destruct (In_nth _ _ [] Hr) as [c [Hc <-]]. unfold transpose in Hc. rewrite transpose_aux_length in Hc.
  rewrite (transpose_nth K NO ncols D c Hc), map_length. exact H.
Qed.
Lemma cs_col_major_outer keep nrows ncols (D : mat K) : cs_outer (cs_col_major K NO keep nrows ncols D) = ncols.
Proof. unfold cs_col_major. rewrite cs_row_major_outer. unfold transpose. apply transpose_aux_length. Qed.

Theorem cs_col_major_get keep nrows ncols (D : mat K) c r : c < ncols -> r < length D ->
  cs_get (cs_col_major K NO keep nrows ncols D) c r = (if keep (mget K NO D r c) then mget K NO D r c else k0).
Proof.
  intros Hc Hr. unfold cs_col_major.
  assert (Hl : length (transpose K NO ncols D) = ncols) by (unfold transpose; apply transpose_aux_length).
  assert (Hrow : nth c (transpose K NO ncols D) [] = map (fun row => nth c row k0) D) by (apply transpose_nth; exact Hc).
  rewrite cs_row_major_get by (rewrite ?Hl, ?Hrow, ?map_length; assumption).
  unfold mget at 1 2. rewrite Hrow.
  rewrite (nth_indep _ k0 (nth c [] k0)) by (rewrite map_length; exact Hr).
  rewrite (map_nth (fun row => nth c row k0) D [] r). reflexivity.
Qed.

End Get.
