(** C18 -- executable model of IndexClassification (src/pomerol/IndexClassification.cpp,
    include/pomerol/IndexClassification.h) and of the part of Lattice that feeds it
    (Lattice::addSite, the std::map of sites).

    Conventions
    - A site label is a [string]; [String.compare] is the byte-lexicographic order
      (bytes compared as unsigned numbers through [N_of_ascii], a proper prefix is smaller),
      which is what std::less<std::string> does (char_traits<char>::compare = memcmp, then length).
    - Lattice::SiteMap = std::map<std::string, Site*> (Lattice.h:28); iteration visits the
      sites in increasing label order whatever the order of the addSite calls was.
      [site_map] builds that ordered sequence from the sequence of addSite calls.
    - IndicesToInfo is a std::vector<IndexInfo*>: [vec] = list of [option info], [None] = null
      pointer.  resize(IndexSize) value-initialises, i.e. fills with null pointers.
      Dereferencing a null entry is undefined behaviour: outcome [Uninit].  A write or read at
      a position >= size() is outcome [OOB].
    - InfoToIndices is a std::map<IndexInfo, ParticleIndex> whose key order
      (IndexClassification.cpp:17-22) compares (boost::hash of the label, orbital, spin).  Two
      keys are equivalent for the map iff hash, orbital and spin agree.  The model keys the map
      by (label, orbital, spin), i.e. it ASSUMES that boost::hash<std::string> is injective on
      the labels that occur (harness h_c18 prints the hashes, checks/C18.py checks the assumption
      on every run).  Only find / operator[]= are used by the class, so the map is modelled as
      an association list with find and insert-or-assign; the iteration order of the std::map is
      never observed by the class.
    - [fixed] selects between the loop as it is written today ([fixed = false]: `break` at
      IndexClassification.cpp:53) and the minimally repaired loop ([fixed = true]: `continue`).
      Which of the two the library is, is decided by the correspondence check, not here.
    - Not modelled (not part of the property): calling prepare() twice on one object.  IndexSize
      is a member initialised to 0 by the constructor (cpp:33) and the first loop does
      `IndexSize +=` (cpp:41), so a second call doubles IndexSize, resize keeps the old pointers
      and appends nulls, and the loop at cpp:72 dereferences them.  The model describes one
      call on a freshly constructed object.
    - Orbital and spin numbers are `unsigned short` in IndexInfo (h:83-85); the loop counters are
      unsigned int / size_t and are narrowed in the constructor call at cpp:55/65.  Counts
      >= 65536 are outside the model (nat, no wrap-around). *)
Require Import Bool List Arith.
Require Strings.String Strings.Ascii.   (* not imported: String.length would shadow List.length *)
From PV Require Import Outcome.
Import ListNotations.

Definition label := String.string.

(** Lattice::Site (Lattice.h:82-95): Label, OrbitalSize, SpinSize *)
Record site := mkSite { s_label : label; s_orb : nat; s_spin : nat }.

(** IndexClassification::IndexInfo (h:74-92) without the hash: (SiteLabel, Orbital, Spin) *)
Definition info := (label * nat * nat)%type.
Definition info_label (x : info) : label := fst (fst x).
Definition info_orb (x : info) : nat := snd (fst x).
Definition info_spin (x : info) : nat := snd x.

Definition info_eqb (a b : info) : bool :=
  String.eqb (info_label a) (info_label b) && Nat.eqb (info_orb a) (info_orb b)
  && Nat.eqb (info_spin a) (info_spin b).

(** * The site map *)

(** Lattice::addSite(Site* S) { Sites[S->Label] = S; }   (Lattice.cpp:134-137).
    operator[] on the ordered map: walk to the position of the key; an existing key keeps its
    place and gets the new pointer (the old Site leaks), a new key is inserted in order. *)
Fixpoint map_insert (s : site) (m : list site) : list site :=
  match m with
  | [] => [s]
  | h :: t =>
    match String.compare (s_label s) (s_label h) with
    | Lt => s :: h :: t
    | Eq => s :: t
    | Gt => h :: map_insert s t
    end
  end.

(** the sites in iteration order after the given sequence of addSite calls *)
Definition site_map (calls : list site) : list site :=
  fold_left (fun m s => map_insert s m) calls [].

(** * Vector and map primitives *)

Definition vec := list (option info).

Fixpoint vec_set (v : vec) (k : nat) (x : info) : vec :=
  match v, k with
  | [], _ => []
  | _ :: t, O => Some x :: t
  | h :: t, S j => h :: vec_set t j x
  end.

(** IndicesToInfo[k] = new IndexInfo(...)  -- std::vector::operator[] is unchecked: k >= size() is UB *)
Definition vec_write (v : vec) (k : nat) (x : info) : outcome vec :=
  if k <? length v then Done (vec_set v k x) else OOB.

(** *(IndicesToInfo[k]) *)
Definition vec_deref (v : vec) (k : nat) : outcome info :=
  match nth_error v k with
  | None => OOB
  | Some None => Uninit
  | Some (Some x) => Done x
  end.

Definition imap := list (info * nat).

Fixpoint map_find (k : info) (m : imap) : option nat :=
  match m with
  | [] => None
  | (k', v) :: t => if info_eqb k k' then Some v else map_find k t
  end.

(** InfoToIndices[k] = v *)
Fixpoint map_set (k : info) (v : nat) (m : imap) : imap :=
  match m with
  | [] => [(k, v)]
  | (k', v') :: t => if info_eqb k k' then (k', v) :: t else (k', v') :: map_set k v t
  end.

(** [for (i = lo; i < lo + n; ++i) body]  -- the trip count of every counted loop in prepare()
    is fixed before the loop starts (bounds are const members), hence structural recursion on it. *)
Fixpoint for_range {St : Type} (n lo : nat) (body : nat -> St -> outcome St) (st : St) : outcome St :=
  match n with
  | O => Done st
  | S n' => bind (body lo st) (for_range n' (S lo) body)
  end.

(** * prepare *)

(** cpp:40-43, first run over the sites: IndexSize += OrbitalSize*SpinSize (from 0), MaxSpinSize = max *)
Fixpoint index_total (ss : list site) : nat :=
  match ss with
  | [] => 0
  | s :: r => s_orb s * s_spin s + index_total r
  end.

Fixpoint max_spin (ss : list site) : nat :=
  match ss with
  | [] => 0
  | s :: r => Nat.max (s_spin s) (max_spin r)
  end.

(** enumeration state: (IndicesToInfo, currentIndex) *)
Definition estate := (vec * nat)%type.

(** cpp:55-56 and cpp:65-66:
      IndicesToInfo[currentIndex] = new IndexInfo(it1->first, i, z);  currentIndex++; *)
Definition emit (l : label) (i z : nat) (st : estate) : outcome estate :=
  bind (vec_write (fst st) (snd st) (l, i, z)) (fun v' => Done (v', S (snd st))).

(** order_spins == false, cpp:62-69:
      for (site in Sites) for (i < OrbitalSize) for (z < SpinSize) emit(site, i, z) *)
Fixpoint site_major (ss : list site) (st : estate) : outcome estate :=
  match ss with
  | [] => Done st
  | s :: rest =>
    bind (for_range (s_orb s) 0
            (fun i => for_range (s_spin s) 0 (fun z => emit (s_label s) i z)) st)
         (site_major rest)
  end.

(** order_spins == true, the site loop for one value of z, cpp:52-58:
      for (site in Sites) {
          if (z >= SpinSize) break;                 // cpp:53   (repaired variant: continue)
          for (i < OrbitalSize) emit(site, i, z);   // cpp:54-57
      }
    `break` terminates the *site* loop: the remaining sites are not visited for this z. *)
Fixpoint spin_major_sites (fixed : bool) (z : nat) (ss : list site) (st : estate) : outcome estate :=
  match ss with
  | [] => Done st
  | s :: rest =>
    if s_spin s <=? z
    then (if fixed then spin_major_sites fixed z rest st else Done st)
    else bind (for_range (s_orb s) 0 (fun i => emit (s_label s) i z) st)
              (spin_major_sites fixed z rest)
  end.

(** cpp:51-59: for (z < MaxSpinSize) <site loop> *)
Definition spin_major (fixed : bool) (ss : list site) (st : estate) : outcome estate :=
  for_range (max_spin ss) 0 (fun z => spin_major_sites fixed z ss) st.

(** cpp:47-70: currentIndex = 0; IndicesToInfo.resize(IndexSize); the enumeration loops.
    Result: the vector and the final value of currentIndex. *)
Definition fill_vector (fixed order_spins : bool) (ss : list site) : outcome estate :=
  let st0 := (repeat None (index_total ss), 0) in
  if order_spins then spin_major fixed ss st0 else site_major ss st0.

(** cpp:72: for (i < IndexSize) InfoToIndices[*(IndicesToInfo[i])] = i; *)
Definition build_step (v : vec) (i : nat) (m : imap) : outcome imap :=
  bind (vec_deref v i) (fun x => Done (map_set x i m)).

Record table := mkTable { IndexSize : nat; IndicesToInfo : vec; InfoToIndices : imap }.

(** IndexClassification::prepare(order_spins) on a freshly constructed object whose Sites
    iterate as [ss]. *)
Definition prepare (fixed order_spins : bool) (ss : list site) : outcome table :=
  let size := index_total ss in
  bind (fill_vector fixed order_spins ss) (fun st =>
  bind (for_range size 0 (build_step (fst st)) []) (fun m =>
  Done (mkTable size (fst st) m))).

(** the whole path Lattice::addSite ... ; IndexClassification(L.getSiteMap()).prepare(order_spins) *)
Definition prepare_lattice (fixed order_spins : bool) (calls : list site) : outcome table :=
  prepare fixed order_spins (site_map calls).

(** * Lookups *)

(** getIndex, cpp:91-101: find in the map, IndexSize when absent *)
Definition getIndex (t : table) (x : info) : nat :=
  match map_find x (InfoToIndices t) with
  | Some i => i
  | None => IndexSize t
  end.

(** exception class code of IndexClassification::exWrongIndex for [Throws] *)
Definition exWrongIndex : nat := 18.

(** getInfo, cpp:111-116: throws for in >= IndexSize, else *IndicesToInfo[in] *)
Definition getInfo (t : table) (i : nat) : outcome info :=
  if IndexSize t <=? i then Throws exWrongIndex else vec_deref (IndicesToInfo t) i.

(** checkIndex, cpp:80-83 *)
Definition checkIndex (t : table) (i : nat) : bool := i <? IndexSize t.

(** * Vocabulary of the specification (used by the statements in PVprops.Properties_C18) *)

(** (label, orbital, spin) names a single-particle mode of the lattice *)
Definition valid (ss : list site) (x : info) : Prop :=
  exists s, In s ss /\ s_label s = info_label x /\ info_orb x < s_orb s /\ info_spin x < s_spin s.

Definition labels (ss : list site) : list label := map s_label ss.

(** spin counts do not increase along the iteration order of the sites *)
Fixpoint spins_nonincreasing (ss : list site) : Prop :=
  match ss with
  | [] => True
  | s :: r => (forall s', In s' r -> s_spin s' <= s_spin s) /\ spins_nonincreasing r
  end.

(** the condition under which the enumeration visits every mode: always for the repaired loop
    and for the site-major order; for the spin-major order as written, exactly when the `break`
    can only fire at a site after which no site has more spins. *)
Definition harmless (fixed order_spins : bool) (ss : list site) : Prop :=
  fixed = true \/ order_spins = false \/ spins_nonincreasing ss.

(** relabelling of sites *)
Definition rename_site (f : label -> label) (s : site) : site :=
  mkSite (f (s_label s)) (s_orb s) (s_spin s).
Definition rename_info (f : label -> label) (x : info) : info :=
  (f (info_label x), info_orb x, info_spin x).

(** the index map induced between two prepared tables by a relabelling [f]:
    i |-> getIndex_2 (f-renamed getInfo_1 i) *)
Definition index_perm (t1 t2 : table) (f : label -> label) (i : nat) : nat :=
  match getInfo t1 i with
  | Done x => getIndex t2 (rename_info f x)
  | _ => IndexSize t2
  end.
