(** SplitCommProofs.v -- proofs about the model SplitComm.v (property C06).

    Layer 1: characterisation lemmas about the definitions the translator generates (PVgen.Gen_SplitColors).
    Layer 2: everything else, using only those lemmas and the model.

    No axioms.  The two float statements ([float_sweep_64], [float_eq_sweep_17], [float_color_neq_exact_18]) are
    closed by [vm_compute] over Coq's primitive binary64 floats and 63-bit integers; these are primitives of the
    kernel (implemented by the machine's IEEE arithmetic), not axioms of this development; [Print Assumptions]
    lists them as such. *)
Require Import List Arith Bool PeanoNat ZArith Zquot Lia QArith Qround Permutation.
From PVgen Require Import Gen_SplitColors.
From PV Require Import SplitComm.
Import ListNotations.
Local Open Scope nat_scope.

(* ======================================================================================================= *)
(** * Layer 1: the generated definitions *)

(** the parts of the two functions the model writes out literally agree with the source text *)
Lemma model_shape_matches_code :
  (gen_skel_barriers_before_loop, gen_skel_barriers_after, gen_skel_bcasts_root_branch,
   gen_skel_bcasts_other_branch, gen_skel_root, gen_distribute_bcasts_per_part) = (2, 1, 2, 2, 0, 3).
Proof. reflexivity. Qed.

Lemma ncolors_eq : forall P n, ncolors P n = Nat.min P n.
Proof.
  intros P n. unfold ncolors, gen_ncolors. rewrite <- Nat2Z.inj_min. apply Nat2Z.id.
Qed.

Lemma quot_nat : forall a b : nat, Z.to_nat (Z.quot (Z.of_nat a) (Z.of_nat b)) = a / b.
Proof.
  intros a b. destruct b as [|b].
  - simpl Z.of_nat. rewrite Zquot_0_r. reflexivity.
  - rewrite Z.quot_div_nonneg by lia. rewrite <- Nat2Z.inj_div. apply Nat2Z.id.
Qed.

Lemma elem_colour_eq : forall P n i, elem_colour P n i = (i * ncolors P n) / n.
Proof.
  intros P n i. unfold elem_colour, gen_elem_color. rewrite <- Nat2Z.inj_mul. apply quot_nat.
Qed.

Local Open Scope Q_scope.
Lemma Qfloor_div_Z : forall a b : Z, (0 < b)%Z -> Qfloor (inject_Z a / inject_Z b) = (a / b)%Z.
Proof.
  intros a b Hb. destruct b as [|pb|pb]; try lia.
  unfold Qdiv, Qinv, Qmult, inject_Z, Qfloor. simpl Qnum. simpl Qden.
  rewrite Z.mul_1_r. rewrite Pos.mul_1_l. reflexivity.
Qed.

(** the exact-arithmetic rank colour is floor(p * ncolors / P) *)
Lemma exact_color_Z : forall P nc p : Z, (0 < P)%Z -> (0 < nc)%Z -> (0 <= p)%Z ->
  gen_proc_color_exact P nc p = (p * nc / P)%Z.
Proof.
  intros P nc p HP Hnc Hp. unfold gen_proc_color_exact, gen_color_size_exact.
  assert (HPq : ~ inject_Z P == 0).
  { intro H. unfold Qeq in H. simpl in H. lia. }
  assert (Hncq : ~ inject_Z nc == 0).
  { intro H. unfold Qeq in H. simpl in H. lia. }
  assert (E : (1 # 1) * inject_Z p / ((1 # 1) * inject_Z P / inject_Z nc) == inject_Z (p * nc) / inject_Z P).
  { rewrite inject_Z_mult. field. split; assumption. }
  assert (Hnn : 0 <= inject_Z (p * nc) / inject_Z P).
  { apply Qle_shift_div_l.
    - unfold Qlt. simpl. lia.
    - rewrite Qmult_0_l. unfold Qle. simpl. nia. }
  apply Qle_bool_iff in Hnn. rewrite <- E in Hnn.
  unfold gen_Qtrunc. rewrite Hnn. rewrite E. apply Qfloor_div_Z. assumption.
Qed.

(** rank colours as functions on [nat] *)
Definition ecolN (P nc p : nat) : nat :=
  Z.to_nat (gen_proc_color_exact (Z.of_nat P) (Z.of_nat nc) (Z.of_nat p)).
Definition fcolN (P nc p : nat) : nat :=
  Z.to_nat (gen_proc_color_f (Z.of_nat P) (Z.of_nat nc) (Z.of_nat p)).

Lemma exact_color_nat : forall P nc p, (1 <= P)%nat -> (1 <= nc)%nat -> ecolN P nc p = ((p * nc) / P)%nat.
Proof.
  intros P nc p HP Hnc. unfold ecolN. rewrite exact_color_Z by lia.
  rewrite <- Nat2Z.inj_mul, <- Nat2Z.inj_div. apply Nat2Z.id.
Qed.

(** no components: ncolors = 0, color_size = P/0; in Q division by zero yields 0, and so does the result *)
Lemma exact_color_nc0 : forall P p, ecolN P 0 p = 0%nat.
Proof.
  intros P p. unfold ecolN, gen_proc_color_exact, gen_color_size_exact. simpl (Z.of_nat 0).
  assert (E : (1 # 1) * inject_Z (Z.of_nat p) / ((1 # 1) * inject_Z (Z.of_nat P) / inject_Z 0) == 0).
  { unfold Qdiv at 2. change (/ inject_Z 0) with 0. rewrite Qmult_0_r. unfold Qdiv. change (/ 0) with 0. apply Qmult_0_r. }
  unfold gen_Qtrunc.
  assert (Hb : Qle_bool 0 ((1 # 1) * inject_Z (Z.of_nat p) / ((1 # 1) * inject_Z (Z.of_nat P) / inject_Z 0)) = true).
  { rewrite E. reflexivity. }
  rewrite Hb. rewrite E. reflexivity.
Qed.
Local Close Scope Q_scope.

Lemma pcol_exact : forall P ncomp p, pcol (exact_colouring P ncomp) p = ecolN P (ncolors P ncomp) p.
Proof. reflexivity. Qed.
Lemma pcol_float : forall P ncomp p, pcol (float_colouring P ncomp) p = fcolN P (ncolors P ncomp) p.
Proof. reflexivity. Qed.
Lemma ecol_exact : forall P ncomp k, ecol (exact_colouring P ncomp) k = elem_colour P ncomp k.
Proof. reflexivity. Qed.
Lemma ecol_float : forall P ncomp k, ecol (float_colouring P ncomp) k = elem_colour P ncomp k.
Proof. reflexivity. Qed.

(** complete finite sweeps over the float expression (kernel primitives, see the header) *)
Definition float_sweep_row (P nc : nat) : bool :=
  let cols := map (fcolN P nc) (seq 0 P) in
  forallb (fun x => x <? nc) cols && forallb (fun c => existsb (fun x => x =? c) cols) (seq 0 nc).
Definition float_sweep (N : nat) : bool :=
  forallb (fun P => forallb (float_sweep_row P) (seq 1 P) && forallb (fun p => fcolN P 0 p =? 0) (seq 0 P)) (seq 1 N).
Lemma float_sweep_64 : float_sweep 64 = true.
Proof. vm_compute. reflexivity. Qed.

Definition float_eq_sweep (N : nat) : bool :=
  forallb (fun P => forallb (fun nc => forallb (fun p => fcolN P nc p =? (p * nc) / P) (seq 0 P)) (seq 1 P)) (seq 1 N).
Lemma float_eq_sweep_17 : float_eq_sweep 17 = true.
Proof. vm_compute. reflexivity. Qed.

(* ======================================================================================================= *)
(** * Layer 2 *)

(** ** Colours *)

Lemma div_lt_colour : forall n N i, 1 <= n -> i < N -> (i * n) / N < n.
Proof.
  intros n N i Hn Hi. apply Nat.div_lt_upper_bound; [lia|]. nia.
Qed.

Lemma div_surj_colour : forall n N c, 1 <= n -> n <= N -> c < n -> exists i, i < N /\ (i * n) / N = c.
Proof.
  intros n N c Hn HnN Hc.
  set (i := (c * N + (n - 1)) / n).
  assert (Hdm := Nat.div_mod (c * N + (n - 1)) n ltac:(lia)).
  assert (Hr := Nat.mod_upper_bound (c * N + (n - 1)) n ltac:(lia)).
  fold i in Hdm.
  exists i. split.
  - nia.
  - symmetry. apply (Nat.div_unique (i * n) N c (i * n - c * N)); nia.
Qed.

Lemma elem_colours_wf : forall P ncomp, 1 <= P ->
  (forall k, k < ncomp -> elem_colour P ncomp k < ncolors P ncomp) /\
  (forall c, c < ncolors P ncomp -> exists k, k < ncomp /\ elem_colour P ncomp k = c).
Proof.
  intros P ncomp HP. split.
  - intros k Hk. rewrite elem_colour_eq. apply div_lt_colour; [|exact Hk]. rewrite ncolors_eq. lia.
  - intros c Hc. assert (Hnc := ncolors_eq P ncomp).
    destruct (div_surj_colour (ncolors P ncomp) ncomp c) as [k [Hk E]]; try lia.
    exists k. split; [exact Hk|]. rewrite elem_colour_eq. exact E.
Qed.

(** For every P >= 1 and every number of components, in exact arithmetic: every colour has a rank, rank colours
    are in range, element colours are in range, every colour has an element. *)
Theorem every_colour_nonempty_exact : forall P ncomp, 1 <= P ->
  colours_well_formed (exact_colouring P ncomp) P ncomp.
Proof.
  intros P ncomp HP. unfold colours_well_formed. cbv zeta.
  assert (Hnc := ncolors_eq P ncomp).
  destruct (elem_colours_wf P ncomp HP) as [He1 He2].
  split; [|split; [|split]].
  - intros c Hc. destruct (div_surj_colour (ncolors P ncomp) P c) as [r [Hr E]]; try lia.
    exists r. split; [exact Hr|]. rewrite pcol_exact, exact_color_nat by lia. exact E.
  - intros r Hr. rewrite pcol_exact. destruct (ncolors P ncomp) as [|nc'] eqn:En.
    + rewrite exact_color_nc0. simpl. lia.
    + rewrite exact_color_nat by lia. assert (H := div_lt_colour (S nc') P r ltac:(lia) Hr). lia.
  - intros k Hk. rewrite ecol_exact. apply He1. exact Hk.
  - intros c Hc. destruct (He2 c Hc) as [k [Hk E]]. exists k. split; [exact Hk|]. rewrite ecol_exact. exact E.
Qed.

Lemma float_sweep_spec : forall N, float_sweep N = true -> forall P, 1 <= P <= N ->
  (forall nc, 1 <= nc <= P ->
     (forall p, p < P -> fcolN P nc p < nc) /\ (forall c, c < nc -> exists p, p < P /\ fcolN P nc p = c)) /\
  (forall p, p < P -> fcolN P 0 p = 0).
Proof.
  intros N HS P HP. unfold float_sweep in HS. rewrite forallb_forall in HS.
  assert (HPin : In P (seq 1 N)) by (apply in_seq; lia).
  specialize (HS P HPin). apply andb_prop in HS. destruct HS as [Hrows Hzero].
  rewrite forallb_forall in Hrows. rewrite forallb_forall in Hzero. split.
  - intros nc Hnc. assert (Hin : In nc (seq 1 P)) by (apply in_seq; lia).
    specialize (Hrows nc Hin). unfold float_sweep_row in Hrows. cbv zeta in Hrows.
    apply andb_prop in Hrows. destruct Hrows as [Hlt Hex].
    rewrite forallb_forall in Hlt. rewrite forallb_forall in Hex. split.
    + intros p Hp. apply Nat.ltb_lt. apply Hlt. apply in_map. apply in_seq. lia.
    + intros c Hc. assert (Hcin : In c (seq 0 nc)) by (apply in_seq; lia).
      specialize (Hex c Hcin). apply existsb_exists in Hex. destruct Hex as [x [Hx Hxc]].
      apply in_map_iff in Hx. destruct Hx as [p [Hp Hpin]]. apply in_seq in Hpin.
      exists p. split; [lia|]. apply Nat.eqb_eq in Hxc. lia.
  - intros p Hp. apply Nat.eqb_eq. apply Hzero. apply in_seq. lia.
Qed.

(** The same for the colours the C++ actually computes (doubles), for 1 <= P <= 64 and every number of components:
    a complete finite sweep ([float_sweep_64]); the rank colour only depends on (P, ncolors, p) and ncolors <= P. *)
Theorem every_colour_nonempty_float : forall P ncomp, 1 <= P <= 64 ->
  colours_well_formed (float_colouring P ncomp) P ncomp.
Proof.
  intros P ncomp HP. unfold colours_well_formed. cbv zeta.
  assert (Hnc := ncolors_eq P ncomp).
  destruct (elem_colours_wf P ncomp ltac:(lia)) as [He1 He2].
  destruct (float_sweep_spec 64 float_sweep_64 P HP) as [Hrow Hzero].
  split; [|split; [|split]].
  - intros c Hc. destruct (Hrow (ncolors P ncomp) ltac:(lia)) as [_ Hex].
    destruct (Hex c Hc) as [p [Hp E]]. exists p. split; [exact Hp|]. rewrite pcol_float. exact E.
  - intros r Hr. rewrite pcol_float. destruct (ncolors P ncomp) as [|nc'] eqn:En.
    + rewrite Hzero by exact Hr. simpl. lia.
    + destruct (Hrow (S nc') ltac:(lia)) as [Hlt _]. specialize (Hlt r Hr). lia.
  - intros k Hk. rewrite ecol_float. apply He1. exact Hk.
  - intros c Hc. destruct (He2 c Hc) as [k [Hk E]]. exists k. split; [exact Hk|]. rewrite ecol_float. exact E.
Qed.

(** the double computation agrees with floor(p*ncolors/P) for every P <= 17 ... *)
Theorem float_color_eq_exact_17 : forall P nc p, 1 <= P <= 17 -> 1 <= nc <= P -> p < P ->
  fcolN P nc p = ecolN P nc p.
Proof.
  intros P nc p HP Hnc Hp. rewrite exact_color_nat by lia.
  assert (HS := float_eq_sweep_17). unfold float_eq_sweep in HS.
  rewrite forallb_forall in HS. specialize (HS P ltac:(apply in_seq; lia)).
  rewrite forallb_forall in HS. specialize (HS nc ltac:(apply in_seq; lia)).
  rewrite forallb_forall in HS. specialize (HS p ltac:(apply in_seq; lia)).
  apply Nat.eqb_eq. exact HS.
Qed.

(** ... and not beyond: with 18 ranks and 14 colours rank 9 gets colour 6 (1.0*18/14 rounds up, 9/1.2857142857142858
    is just below 7) while floor(9*14/18) = 7.  Harmless (every colour stays inhabited, see the sweep), but the
    colours must be taken from the float expression, never from the integer formula. *)
Theorem float_color_neq_exact_18 : exists P nc p, p < P /\ 1 <= nc <= P /\ fcolN P nc p <> ecolN P nc p.
Proof.
  exists 18, 14, 9. split; [lia|]. split; [lia|]. vm_compute. discriminate.
Qed.

Lemma well_formed_inhabited : forall col P ncomp, colours_well_formed col P ncomp -> colours_inhabited col P ncomp.
Proof.
  intros col P ncomp [H1 [_ [H3 _]]] k Hk. destruct (H1 (ecol col k) (H3 k Hk)) as [r [Hr E]].
  exists r. split; assumption.
Qed.

Lemma colours_ok_b_spec : forall col P ncomp, colours_ok_b col P ncomp = true <-> colours_inhabited col P ncomp.
Proof.
  intros col P ncomp. unfold colours_ok_b, colours_inhabited. rewrite forallb_forall. split.
  - intros H k Hk. specialize (H k ltac:(apply in_seq; lia)). apply existsb_exists in H.
    destruct H as [r [Hr E]]. apply in_seq in Hr. apply Nat.eqb_eq in E. exists r. split; [lia|exact E].
  - intros H k Hk. apply in_seq in Hk. destruct (H k ltac:(lia)) as [r [Hr E]].
    apply existsb_exists. exists r. split; [apply in_seq; lia|apply Nat.eqb_eq; exact E].
Qed.

(** ** List helpers *)

Lemma nth_error_combine_seq : forall A (l : list A) a k,
  nth_error (combine (seq a (length l)) l) k = option_map (pair (a + k)) (nth_error l k).
Proof.
  intros A l. induction l as [|x l IH]; intros a k.
  - destruct k; reflexivity.
  - destruct k as [|k].
    + simpl. rewrite Nat.add_0_r. reflexivity.
    + simpl. rewrite IH. replace (S a + k) with (a + S k) by lia. reflexivity.
Qed.

Lemma nth_error_indexed : forall A (l : list A) k, nth_error (indexed l) k = option_map (pair k) (nth_error l k).
Proof. intros A l k. unfold indexed. rewrite nth_error_combine_seq. reflexivity. Qed.

Lemma In_indexed : forall A (l : list A) k c, In (k, c) (indexed l) -> nth_error l k = Some c.
Proof.
  intros A l k c H. apply In_nth_error in H. destruct H as [n Hn].
  rewrite nth_error_indexed in Hn. destruct (nth_error l n) as [x|] eqn:E; simpl in Hn; [|discriminate].
  inversion Hn. subst. exact E.
Qed.

Lemma existsb_eqb_In : forall r l, existsb (Nat.eqb r) l = true <-> In r l.
Proof.
  intros r l. rewrite existsb_exists. split.
  - intros [x [Hx E]]. apply Nat.eqb_eq in E. subst. exact Hx.
  - intros H. exists r. split; [exact H|apply Nat.eqb_refl].
Qed.

Lemma find_seq_first : forall (f : nat -> bool) n a r, find f (seq a n) = Some r ->
  f r = true /\ a <= r < a + n /\ forall q, a <= q < r -> f q = false.
Proof.
  intros f n. induction n as [|n IH]; intros a r H.
  - discriminate.
  - simpl in H. destruct (f a) eqn:Fa.
    + inversion H. subst. split; [exact Fa|]. split; [lia|]. intros q Hq. lia.
    + destruct (IH (S a) r H) as [H1 [H2 H3]]. split; [exact H1|]. split; [lia|].
      intros q Hq. destruct (Nat.eq_dec q a) as [->|Hne]; [exact Fa|]. apply H3. lia.
Qed.

Lemma find_app : forall A (f : A -> bool) l1 l2,
  find f (l1 ++ l2) = match find f l1 with Some x => Some x | None => find f l2 end.
Proof.
  intros A f l1 l2. induction l1 as [|x l1 IH]; [reflexivity|]. simpl. destruct (f x); [reflexivity|exact IH].
Qed.

Lemma filter_nil_iff : forall A (f : A -> bool) l, (forall x, In x l -> f x = false) -> filter f l = [].
Proof.
  intros A f l. induction l as [|x l IH]; intros H; [reflexivity|]. simpl.
  rewrite (H x (or_introl eq_refl)). apply IH. intros y Hy. apply H. right. exact Hy.
Qed.

Lemma map_flat_map_ : forall A B C (f : B -> C) (g : A -> list B) l,
  map f (flat_map g l) = flat_map (fun x => map f (g x)) l.
Proof.
  intros A B C f g l. induction l as [|x l IH]; [reflexivity|]. simpl. rewrite map_app, IH. reflexivity.
Qed.

(** ** Roots of the colours (Container.cpp:80-84, :112) *)

Section Roots.
Variable fx : fixes.
Variable col : colouring.

Definition colour_is (c : nat) (r : nat) : bool := pcol col r =? c.

(** repaired code: the root of a colour is its first rank *)
Lemma roots_fold_first : fix_root fx = true -> forall l m c,
  fold_left (roots_step fx col) l m c =
  match m c with Some v => Some v | None => find (colour_is c) l end.
Proof.
  intros Hf l. induction l as [|p l IH]; intros m c.
  - simpl. destruct (m c); reflexivity.
  - simpl fold_left. rewrite IH. unfold roots_step at 1. rewrite Hf. unfold colour_is at 2. simpl find.
    destruct (m (pcol col p)) as [v|] eqn:Em.
    + destruct (m c) eqn:Ec; [reflexivity|].
      destruct (pcol col p =? c) eqn:E; [|reflexivity]. apply Nat.eqb_eq in E. congruence.
    + unfold upd. destruct (c =? pcol col p) eqn:E.
      * apply Nat.eqb_eq in E. subst c. rewrite Em. rewrite Nat.eqb_refl. reflexivity.
      * rewrite Nat.eqb_sym in E. rewrite E. reflexivity.
Qed.

Lemma color_roots_first : fix_root fx = true -> forall P c, color_roots fx col P c = find (colour_is c) (seq 0 P).
Proof. intros Hf P c. unfold color_roots. rewrite roots_fold_first by exact Hf. reflexivity. Qed.

(** original code: the root of a colour is its last rank *)
Lemma roots_fold_last : fix_root fx = false -> forall l m c,
  fold_left (roots_step fx col) l m c =
  match find (colour_is c) (rev l) with Some v => Some v | None => m c end.
Proof.
  intros Hf l. induction l as [|p l IH]; intros m c.
  - reflexivity.
  - simpl fold_left. rewrite IH. simpl rev. rewrite find_app.
    destruct (find (colour_is c) (rev l)); [reflexivity|].
    unfold roots_step. rewrite Hf. unfold upd. simpl find. unfold colour_is.
    rewrite (Nat.eqb_sym c). destruct (pcol col p =? c); reflexivity.
Qed.

Lemma color_roots_last : fix_root fx = false -> forall P c,
  color_roots fx col P c = find (colour_is c) (rev (seq 0 P)).
Proof.
  intros Hf P c. unfold color_roots. rewrite roots_fold_last by exact Hf.
  destruct (find (colour_is c) (rev (seq 0 P))); reflexivity.
Qed.

(** whichever variant: if the colour of element k has a rank, the sender is a rank of that colour *)
Lemma sender_member : forall P k, (exists r, r < P /\ pcol col r = ecol col k) ->
  sender fx col P k < P /\ pcol col (sender fx col P k) = ecol col k.
Proof.
  intros P k [r [Hr E]]. unfold sender. destruct (fix_root fx) eqn:Hf.
  - rewrite color_roots_first by exact Hf.
    destruct (find (colour_is (ecol col k)) (seq 0 P)) as [s|] eqn:F.
    + apply find_some in F. destruct F as [Hin Hc]. apply in_seq in Hin. unfold colour_is in Hc.
      apply Nat.eqb_eq in Hc. split; [lia|exact Hc].
    + exfalso. assert (H := find_none _ _ F r ltac:(apply in_seq; lia)). unfold colour_is in H.
      apply Nat.eqb_neq in H. contradiction.
  - rewrite color_roots_last by exact Hf.
    destruct (find (colour_is (ecol col k)) (rev (seq 0 P))) as [s|] eqn:F.
    + apply find_some in F. destruct F as [Hin Hc]. apply in_rev in Hin. apply in_seq in Hin. unfold colour_is in Hc.
      apply Nat.eqb_eq in Hc. split; [lia|exact Hc].
    + exfalso. assert (H := find_none _ _ F r ltac:(apply -> in_rev; apply in_seq; lia)). unfold colour_is in H.
      apply Nat.eqb_neq in H. contradiction.
Qed.

(** repaired code: the sender is rank 0 of its colour's communicator -- the smallest world rank of the colour --
    which is where TwoParticleGF::compute reduces the table to *)
Lemma sender_is_local_root : fix_root fx = true -> forall P k, (exists r, r < P /\ pcol col r = ecol col k) ->
  let s := sender fx col P k in
  In s (members col P (Colour (ecol col k))) /\
  local_rank col (Colour (ecol col k)) s = 0 /\
  forall q, In q (members col P (Colour (ecol col k))) -> s <= q.
Proof.
  intros Hf P k Hex. cbv zeta. destruct (sender_member P k Hex) as [HsP Hsc].
  assert (Hfirst : forall q, q < sender fx col P k -> pcol col q =? ecol col k = false).
  { unfold sender in *. rewrite color_roots_first in * by exact Hf.
    destruct (find (colour_is (ecol col k)) (seq 0 P)) as [s|] eqn:F.
    - apply find_seq_first in F. destruct F as [_ [_ H3]]. intros q Hq. apply (H3 q). lia.
    - intros q Hq. lia. }
  split; [|split].
  - simpl. apply filter_In. split; [apply in_seq; lia|apply Nat.eqb_eq; exact Hsc].
  - simpl. rewrite filter_nil_iff; [reflexivity|]. intros q Hq. apply in_seq in Hq. apply Hfirst. lia.
  - intros q Hq. simpl in Hq. apply filter_In in Hq. destruct Hq as [_ Hq].
    destruct (le_lt_dec (sender fx col P k) q) as [Hle|Hlt]; [exact Hle|].
    rewrite (Hfirst q Hlt) in Hq. discriminate.
Qed.

End Roots.

(** ** Collective traces *)

Lemma commid_eqb_eq : forall a b, commid_eqb a b = true <-> a = b.
Proof.
  intros [|x] [|y]; simpl; split; intros H; try reflexivity; try discriminate.
  - apply Nat.eqb_eq in H. subst. reflexivity.
  - inversion H. apply Nat.eqb_refl.
Qed.

Lemma commid_eqb_refl : forall a, commid_eqb a a = true.
Proof. intros a. apply commid_eqb_eq. reflexivity. Qed.

Lemma ckind_eqb_refl : forall k, ckind_eqb k k = true.
Proof. intros [|x|x|]; simpl; try reflexivity; apply Nat.eqb_refl. Qed.

Lemma proj_app : forall cm a b, proj cm (a ++ b) = proj cm a ++ proj cm b.
Proof. intros cm a b. unfold proj. rewrite filter_app, map_app. reflexivity. Qed.

Definition on_comm (cm : commid) (t : list event) : Prop := forall e, In e t -> fst e = cm.

Lemma proj_on_other : forall cm cm' t, on_comm cm' t -> cm <> cm' -> proj cm t = [].
Proof.
  intros cm cm' t H Hne. unfold proj. rewrite filter_nil_iff; [reflexivity|].
  intros e He. destruct (commid_eqb (fst e) cm) eqn:E; [|reflexivity].
  apply commid_eqb_eq in E. rewrite (H e He) in E. congruence.
Qed.

Lemma on_comm_map_pair : forall cm t, on_comm cm t -> t = map (pair cm) (map snd t).
Proof.
  intros cm t. induction t as [|[c k] t IH]; intros H; [reflexivity|]. simpl.
  assert (E : c = cm) by (apply (H (c, k)); left; reflexivity). subst c.
  f_equal. apply IH. intros e He. apply H. right. exact He.
Qed.

Lemma proj_map_pair : forall cm ks, proj cm (map (pair cm) ks) = ks.
Proof.
  intros cm ks. unfold proj. induction ks as [|k ks IH]; [reflexivity|].
  simpl. rewrite commid_eqb_refl. simpl. f_equal. exact IH.
Qed.

Lemma on_comm_app : forall cm a b, on_comm cm a -> on_comm cm b -> on_comm cm (a ++ b).
Proof. intros cm a b Ha Hb e He. apply in_app_or in He. destruct He; auto. Qed.

Section Traces.
Variable fx : fixes.

(** every event of the dispatch skeleton is on the communicator it was given, or on the world communicator *)
Lemma skel_run_comms : forall cm e, In e (skel_run fx cm) -> fst e = cm \/ fst e = World.
Proof.
  intros cm e H. unfold skel_run in H. simpl in H.
  destruct H as [H|[H|[H|[H|[H|[H|[]]]]]]]; subst e; simpl; auto.
  destruct (fix_barrier fx); auto.
Qed.

Lemma gf2_compute_comms : forall cm clear c jmk e, In e (gf2_compute fx cm clear c jmk) -> fst e = cm \/ fst e = World.
Proof.
  intros cm clear c jmk e H. unfold gf2_compute in H. destruct (vanishing c); [destruct H|].
  apply in_app_or in H. destruct H as [H|H]; [apply skel_run_comms; exact H|].
  apply in_app_or in H. destruct H as [H|H].
  - simpl in H. destruct H as [H|[H|[]]]; subst e; auto.
  - destruct clear; [destruct H|]. apply in_app_or in H. destruct H as [H|H].
    + apply in_flat_map in H. destruct H as [p [_ H]]. simpl in H. destruct H as [H|[H|[]]]; subst e; auto.
    + simpl in H. destruct H as [H|[]]; subst e; auto.
Qed.

(** repaired barrier: the dispatch skeleton and TwoParticleGF::compute touch only their own communicator *)
Lemma skel_run_on : fix_barrier fx = true -> forall cm, on_comm cm (skel_run fx cm).
Proof.
  intros Hf cm e H. unfold skel_run in H. rewrite Hf in H. simpl in H.
  destruct H as [H|[H|[H|[H|[H|[H|[]]]]]]]; subst e; reflexivity.
Qed.

Lemma gf2_compute_on : fix_barrier fx = true -> forall cm clear c jmk, on_comm cm (gf2_compute fx cm clear c jmk).
Proof.
  intros Hf cm clear c jmk e H. unfold gf2_compute in H. destruct (vanishing c); [destruct H|].
  apply in_app_or in H. destruct H as [H|H]; [apply (skel_run_on Hf cm); exact H|].
  apply in_app_or in H. destruct H as [H|H].
  - simpl in H. destruct H as [H|[H|[]]]; subst e; reflexivity.
  - destruct clear; [destruct H|]. apply in_app_or in H. destruct H as [H|H].
    + apply in_flat_map in H. destruct H as [p [_ H]]. simpl in H. destruct H as [H|[H|[]]]; subst e; reflexivity.
    + simpl in H. destruct H as [H|[]]; subst e; reflexivity.
Qed.

Section Split.
Variable col : colouring.
Variable P : nat.
Variable comps : list component.
Variable clear : bool.
Variable jm : nat -> nat -> nat.

(** the three phases of computeAll_split *)
Definition split_phase (c : nat) : list event :=
  flat_map (fun kc => if ecol col (fst kc) =? c then gf2_compute fx (Colour c) clear (snd kc) (jm (fst kc)) else [])
           (indexed comps).
Definition split_tail_kinds : list ckind :=
  [Barrier] ++
  flat_map (fun kc => flat_map (fun _ => [Bcast (sender fx col P (fst kc)); Bcast (sender fx col P (fst kc));
                                          Bcast (sender fx col P (fst kc))]) (seq 0 (nparts (snd kc)))) (indexed comps)
  ++ [Barrier].

Lemma split_trace_phases : forall r,
  split_trace fx col P comps clear jm r =
  map (pair World) [Barrier; Split] ++ split_phase (pcol col r) ++ map (pair World) split_tail_kinds.
Proof.
  intros r. unfold split_trace, split_phase, split_tail_kinds. cbv zeta. simpl map at 1.
  rewrite !map_app. simpl. do 5 f_equal.
  rewrite map_flat_map_. apply flat_map_ext. intros [k c]. simpl.
  rewrite map_flat_map_. reflexivity.
Qed.

Lemma split_phase_comms : forall c e, In e (split_phase c) -> fst e = Colour c \/ fst e = World.
Proof.
  intros c e H. unfold split_phase in H. apply in_flat_map in H. destruct H as [kc [_ H]].
  destruct (ecol col (fst kc) =? c); [|destruct H]. apply gf2_compute_comms in H. exact H.
Qed.

Lemma split_phase_on : fix_barrier fx = true -> forall c, on_comm (Colour c) (split_phase c).
Proof.
  intros Hf c e H. unfold split_phase in H. apply in_flat_map in H. destruct H as [kc [_ H]].
  destruct (ecol col (fst kc) =? c); [|destruct H]. apply (gf2_compute_on Hf) in H. exact H.
Qed.

Lemma members_colour : forall r c, In r (members col P (Colour c)) <-> r < P /\ pcol col r = c.
Proof.
  intros r c. simpl. rewrite filter_In, in_seq, Nat.eqb_eq. lia.
Qed.

Lemma members_world : forall r, In r (members col P World) <-> r < P.
Proof. intros r. simpl. rewrite in_seq. lia. Qed.

(** a rank only issues collectives on communicators it belongs to (any variant of the code) *)
Lemma split_trace_membership : forall r e, r < P -> In e (split_trace fx col P comps clear jm r) ->
  In r (members col P (fst e)).
Proof.
  intros r e Hr H. rewrite split_trace_phases in H.
  assert (Hw : forall ks, In e (map (pair World) ks) -> In r (members col P (fst e))).
  { intros ks Hin. apply in_map_iff in Hin. destruct Hin as [k [E _]]. subst e. apply members_world. exact Hr. }
  apply in_app_or in H. destruct H as [H|H]; [apply (Hw _ H)|].
  apply in_app_or in H. destruct H as [H|H]; [|apply (Hw _ H)].
  apply split_phase_comms in H. destruct H as [H|H]; rewrite H.
  - apply members_colour. split; [exact Hr|reflexivity].
  - apply members_world. exact Hr.
Qed.

(** C06 collectives_match for computeAll_split, repaired barrier: any P, any colouring, any components, any job maps *)
Theorem collectives_match_split : fix_barrier fx = true ->
  collectives_match col P (split_trace fx col P comps clear jm).
Proof.
  intros Hf. split.
  - intros cm r1 r2 H1 H2. destruct cm as [|c].
    + rewrite !split_trace_phases, !proj_app.
      rewrite (proj_on_other World (Colour (pcol col r1)) _ (split_phase_on Hf _)) by discriminate.
      rewrite (proj_on_other World (Colour (pcol col r2)) _ (split_phase_on Hf _)) by discriminate.
      reflexivity.
    + apply members_colour in H1. apply members_colour in H2. destruct H1 as [_ E1]. destruct H2 as [_ E2].
      rewrite !split_trace_phases. rewrite E1, E2. reflexivity.
  - intros r e Hr He. apply split_trace_membership; assumption.
Qed.

End Split.

(** unsplit container computation, a single component, the Hamiltonian: the trace does not depend on the rank *)
Theorem collectives_match_nosplit : forall col P comps clear jm,
  collectives_match col P (nosplit_trace fx comps clear jm).
Proof.
  intros col P comps clear jm. split.
  - intros cm r1 r2 _ _. reflexivity.
  - intros r e Hr He. unfold nosplit_trace in He. apply in_flat_map in He. destruct He as [kc [_ He]].
    apply gf2_compute_comms in He. destruct He as [E|E]; rewrite E; simpl; apply in_seq; lia.
Qed.

Theorem collectives_match_single : forall col P c clear jmk,
  collectives_match col P (single_trace fx c clear jmk).
Proof.
  intros col P c clear jmk. split.
  - intros cm r1 r2 _ _. reflexivity.
  - intros r e Hr He. unfold single_trace in He.
    apply gf2_compute_comms in He. destruct He as [E|E]; rewrite E; simpl; apply in_seq; lia.
Qed.

Theorem collectives_match_hamiltonian : forall col P nblocks jmk,
  collectives_match col P (ham_prepare_trace fx World nblocks jmk) /\
  collectives_match col P (ham_compute_trace fx World nblocks jmk).
Proof.
  intros col P nblocks jmk. split; split; try (intros cm r1 r2 _ _; reflexivity).
  - intros r e Hr He. unfold ham_prepare_trace in He. apply in_app_or in He. destruct He as [He|He].
    + apply skel_run_comms in He. destruct He as [E|E]; rewrite E; simpl; apply in_seq; lia.
    + apply in_app_or in He. destruct He as [[E|[]]|He]; [subst e; simpl; apply in_seq; lia|].
      apply in_map_iff in He. destruct He as [p [E _]]. subst e. simpl. apply in_seq. lia.
  - intros r e Hr He. unfold ham_compute_trace in He. apply in_app_or in He. destruct He as [He|He].
    + apply skel_run_comms in He. destruct He as [E|E]; rewrite E; simpl; apply in_seq; lia.
    + apply in_app_or in He. destruct He as [[E|[]]|He]; [subst e; simpl; apply in_seq; lia|].
      apply in_flat_map in He. destruct He as [p [_ [E|[E|[]]]]]; subst e; simpl; apply in_seq; lia.
Qed.

End Traces.

(** ** Blocking semantics: the whole run completes (no deadlock across communicators) *)

Section Blocking.
Variable col : colouring.
Variable P : nat.

Lemma heads_agree_all : forall ms cm st k, ms <> [] ->
  (forall r, In r ms -> exists rest, st r = (cm, k) :: rest) -> heads_agree ms cm st = Some k.
Proof.
  intros ms cm st k Hne H. destruct ms as [|r0 ms']; [congruence|].
  unfold heads_agree.
  destruct (H r0 (or_introl eq_refl)) as [rest0 E0].
  destruct (st r0) as [|[cm0 k0] t] eqn:E0'; [discriminate|].
  inversion E0. subst cm0 k0 t.
  rewrite commid_eqb_refl.
  match goal with |- context [forallb ?f ?l] => assert (Hall : forallb f l = true) end.
  { apply forallb_forall. intros r Hr. destruct (H r Hr) as [rest E]. rewrite E.
    rewrite commid_eqb_refl, ckind_eqb_refl. reflexivity. }
  rewrite Hall. reflexivity.
Qed.

Lemma coll_run_app : forall s1 s2 st, coll_run col P (s1 ++ s2) st =
  match coll_run col P s1 st with Some st' => coll_run col P s2 st' | None => None end.
Proof.
  intros s1. induction s1 as [|cm s1 IH]; intros s2 st; [reflexivity|]. simpl.
  destruct (coll_step col P cm st); [apply IH|reflexivity].
Qed.

(** if every member of cm is about to issue the same block of collectives on cm, the block completes;
    the members are left with what follows the block, nobody else is affected *)
Lemma run_block : forall cm ks st rest, members col P cm <> [] ->
  (forall r, In r (members col P cm) -> st r = map (pair cm) ks ++ rest r) ->
  exists st', coll_run col P (repeat cm (length ks)) st = Some st' /\
              (forall r, In r (members col P cm) -> st' r = rest r) /\
              (forall r, ~ In r (members col P cm) -> st' r = st r).
Proof.
  intros cm ks. induction ks as [|k ks IH]; intros st rest Hne H.
  - exists st. split; [reflexivity|]. split; [|reflexivity]. intros r Hr. rewrite (H r Hr). reflexivity.
  - simpl length. simpl repeat. simpl coll_run. unfold coll_step.
    rewrite (heads_agree_all (members col P cm) cm st k Hne).
    2:{ intros r Hr. rewrite (H r Hr). simpl. eexists. reflexivity. }
    set (st1 := fun r => if existsb (Nat.eqb r) (members col P cm) then tl (st r) else st r).
    destruct (IH st1 rest Hne) as [st' [Hrun [Hin Hout]]].
    { intros r Hr. unfold st1. rewrite (proj2 (existsb_eqb_In r _) Hr). rewrite (H r Hr). reflexivity. }
    exists st'. split; [exact Hrun|]. split; [exact Hin|].
    intros r Hr. rewrite (Hout r Hr). unfold st1.
    destruct (existsb (Nat.eqb r) (members col P cm)) eqn:E; [|reflexivity].
    apply existsb_eqb_In in E. contradiction.
Qed.

Variable fx : fixes.
Variable comps : list component.
Variable clear : bool.
Variable jm : nat -> nat -> nat.
Hypothesis Hfix : fix_barrier fx = true.

Let phase := split_phase fx col comps clear jm.
Let tail := map (pair World) (split_tail_kinds fx col P comps).

(** the colour communicators complete their phases one after the other (any order would do) *)
Lemma run_colour_phases : forall cs, NoDup cs -> (forall c, In c cs -> exists r, r < P /\ pcol col r = c) ->
  forall st,
  (forall r, r < P -> (In (pcol col r) cs -> st r = phase (pcol col r) ++ tail) /\
                      (~ In (pcol col r) cs -> st r = tail)) ->
  exists sched st', coll_run col P sched st = Some st' /\ forall r, r < P -> st' r = tail.
Proof.
  intros cs. induction cs as [|c cs IH]; intros Hnd Hinh st Hst.
  - exists [], st. split; [reflexivity|]. intros r Hr. apply (Hst r Hr). intros [].
  - inversion Hnd as [|? ? Hnotin Hnd']. subst.
    assert (Hne : members col P (Colour c) <> []).
    { destruct (Hinh c (or_introl eq_refl)) as [r [Hr E]]. intro Hnil.
      assert (Hin : In r (members col P (Colour c))) by (apply members_colour; split; assumption).
      rewrite Hnil in Hin. destruct Hin. }
    destruct (run_block (Colour c) (map snd (phase c)) st (fun _ => tail) Hne) as [st1 [Hrun1 [Hin1 Hout1]]].
    { intros r Hr. apply members_colour in Hr. destruct Hr as [Hr E].
      destruct (Hst r Hr) as [H1 _]. rewrite H1 by (left; symmetry; exact E). rewrite E.
      rewrite <- (on_comm_map_pair (Colour c) (phase c)); [reflexivity|]. apply split_phase_on. exact Hfix. }
    destruct (IH Hnd' (fun c' Hc' => Hinh c' (or_intror Hc')) st1) as [sched [st' [Hrun Hdone]]].
    { intros r Hr. destruct (Hst r Hr) as [H1 H2]. split.
      - intros Hin. assert (Hnc : pcol col r <> c) by (intro E; rewrite E in Hin; contradiction).
        rewrite Hout1; [apply H1; right; exact Hin|]. intro Hm. apply members_colour in Hm. destruct Hm as [_ E]. contradiction.
      - intros Hnin. destruct (Nat.eq_dec (pcol col r) c) as [E|Hnc].
        + apply Hin1. apply members_colour. split; assumption.
        + rewrite Hout1; [apply H2; intros [E|Hin]; [symmetry in E|]; contradiction|].
          intro Hm. apply members_colour in Hm. destruct Hm as [_ E]. contradiction. }
    exists (repeat (Colour c) (length (map snd (phase c))) ++ sched), st'. split; [|exact Hdone].
    rewrite coll_run_app, Hrun1. exact Hrun.
Qed.

(** C06 termination, collective part: with the repaired barrier, for every P >= 1, every colouring, every list of
    components and all job maps, the collectives of computeAll_split can be completed in the blocking semantics:
    a schedule exists after which no rank has anything left to issue. *)
Theorem split_run_completes : 1 <= P ->
  exists sched st', coll_run col P sched (split_trace fx col P comps clear jm) = Some st' /\
                    forall r, r < P -> st' r = [].
Proof.
  intros HP.
  assert (HneW : members col P World <> []).
  { simpl. destruct P; [lia|]. simpl. discriminate. }
  (* World: barrier, split *)
  destruct (run_block World [Barrier; Split] (split_trace fx col P comps clear jm)
                      (fun r => phase (pcol col r) ++ tail) HneW) as [st1 [Hrun1 [Hin1 _]]].
  { intros r _. rewrite split_trace_phases. reflexivity. }
  (* colours *)
  set (cs := nodup Nat.eq_dec (map (pcol col) (seq 0 P))).
  destruct (run_colour_phases cs (NoDup_nodup _ _)) with (st := st1) as [sched2 [st2 [Hrun2 Hst2]]].
  { intros c Hc. apply nodup_In in Hc. apply in_map_iff in Hc. destruct Hc as [r [E Hr]]. apply in_seq in Hr.
    exists r. split; [lia|exact E]. }
  { intros r Hr. split.
    - intros _. apply Hin1. apply members_world. exact Hr.
    - intros Hn. exfalso. apply Hn. apply nodup_In. apply in_map. apply in_seq. lia. }
  (* World: barrier, broadcasts, barrier *)
  destruct (run_block World (split_tail_kinds fx col P comps) st2 (fun _ => []) HneW) as [st3 [Hrun3 [Hin3 _]]].
  { intros r Hr. apply members_world in Hr. rewrite (Hst2 r Hr). unfold tail. rewrite app_nil_r. reflexivity. }
  exists (repeat World (length [Barrier; Split]) ++ sched2 ++ repeat World (length (split_tail_kinds fx col P comps))), st3.
  split.
  - rewrite coll_run_app, Hrun1, coll_run_app, Hrun2. exact Hrun3.
  - intros r Hr. apply Hin3. apply members_world. exact Hr.
Qed.

End Blocking.

(** ** Blocking semantics: no reachable deadlock, every run is finite *)

Lemma ckind_eqb_eq : forall a b, ckind_eqb a b = true -> a = b.
Proof.
  intros [|x|x|] [|y|y|]; simpl; intros H; try reflexivity; try discriminate;
    apply Nat.eqb_eq in H; subst; reflexivity.
Qed.

Section Confluence.
Variable col : colouring.
Variable P : nat.

Definition state_eq (st st' : nat -> list event) : Prop := forall r, st r = st' r.
Definition finished (st : nat -> list event) : Prop := forall r, r < P -> st r = [].

Lemma members_lt : forall cm r, In r (members col P cm) -> r < P.
Proof.
  intros [|c] r H; simpl in H; [|apply filter_In in H; destruct H as [H _]]; apply in_seq in H; lia.
Qed.

Lemma heads_agree_spec : forall ms cm st k, heads_agree ms cm st = Some k ->
  ms <> [] /\ forall r, In r ms -> exists rest, st r = (cm, k) :: rest.
Proof.
  intros ms cm st k H. destruct ms as [|r0 ms']; [discriminate|]. split; [discriminate|].
  unfold heads_agree in H. destruct (st r0) as [|[cm0 k0] t] eqn:E0; [discriminate|].
  match type of H with (if ?c then _ else _) = _ => destruct c eqn:Hc end; [|discriminate].
  inversion H. subst k0. apply andb_prop in Hc. destruct Hc as [_ Hall].
  rewrite forallb_forall in Hall. intros r Hr. specialize (Hall r Hr).
  destruct (st r) as [|[cm' k'] t']; [discriminate|]. apply andb_prop in Hall. destruct Hall as [H1 H2].
  apply commid_eqb_eq in H1. apply ckind_eqb_eq in H2. subst. eexists. reflexivity.
Qed.

(** a step on cm: what it needs and what it does *)
Lemma coll_step_spec : forall cm st s, coll_step col P cm st = Some s ->
  members col P cm <> [] /\
  (exists k, forall r, In r (members col P cm) -> exists rest, st r = (cm, k) :: rest) /\
  (forall r, In r (members col P cm) -> s r = tl (st r)) /\
  (forall r, ~ In r (members col P cm) -> s r = st r).
Proof.
  intros cm st s H. unfold coll_step in H. destruct (heads_agree (members col P cm) cm st) as [k|] eqn:Hh; [|discriminate].
  apply heads_agree_spec in Hh. destruct Hh as [Hne Hall]. inversion H. subst s. clear H.
  split; [exact Hne|]. split; [exists k; exact Hall|]. split.
  - intros r Hr. rewrite (proj2 (existsb_eqb_In r _) Hr). reflexivity.
  - intros r Hr. destruct (existsb (Nat.eqb r) (members col P cm)) eqn:E; [|reflexivity].
    apply existsb_eqb_In in E. contradiction.
Qed.

Lemma coll_step_enabled : forall cm st k, members col P cm <> [] ->
  (forall r, In r (members col P cm) -> exists rest, st r = (cm, k) :: rest) ->
  exists s, coll_step col P cm st = Some s.
Proof.
  intros cm st k Hne H. unfold coll_step. rewrite (heads_agree_all (members col P cm) cm st k Hne H).
  eexists. reflexivity.
Qed.

(** two different communicators that can both proceed have no rank in common, the steps commute *)
Lemma coll_step_diamond : forall cm1 cm2 st s1 s2, cm1 <> cm2 ->
  coll_step col P cm1 st = Some s1 -> coll_step col P cm2 st = Some s2 ->
  exists s12 s21, coll_step col P cm2 s1 = Some s12 /\ coll_step col P cm1 s2 = Some s21 /\ state_eq s12 s21.
Proof.
  intros cm1 cm2 st s1 s2 Hne H1 H2.
  destruct (coll_step_spec _ _ _ H1) as [Hne1 [[k1 Hk1] [Hin1 Hout1]]].
  destruct (coll_step_spec _ _ _ H2) as [Hne2 [[k2 Hk2] [Hin2 Hout2]]].
  assert (Hdisj : forall r, In r (members col P cm1) -> In r (members col P cm2) -> False).
  { intros r Hr1 Hr2. destruct (Hk1 r Hr1) as [t1 E1]. destruct (Hk2 r Hr2) as [t2 E2].
    rewrite E1 in E2. inversion E2. contradiction. }
  destruct (coll_step_enabled cm2 s1 k2 Hne2) as [s12 H12].
  { intros r Hr. rewrite Hout1 by (intro Hr1; exact (Hdisj r Hr1 Hr)). apply Hk2. exact Hr. }
  destruct (coll_step_enabled cm1 s2 k1 Hne1) as [s21 H21].
  { intros r Hr. rewrite Hout2 by (intro Hr2; exact (Hdisj r Hr Hr2)). apply Hk1. exact Hr. }
  exists s12, s21. split; [exact H12|]. split; [exact H21|].
  destruct (coll_step_spec _ _ _ H12) as [_ [_ [Hin12 Hout12]]].
  destruct (coll_step_spec _ _ _ H21) as [_ [_ [Hin21 Hout21]]].
  intros r.
  destruct (in_dec Nat.eq_dec r (members col P cm1)) as [Hr1|Hr1];
    destruct (in_dec Nat.eq_dec r (members col P cm2)) as [Hr2|Hr2].
  - exfalso. exact (Hdisj r Hr1 Hr2).
  - rewrite (Hout12 r Hr2), (Hin1 r Hr1), (Hin21 r Hr1), (Hout2 r Hr2). reflexivity.
  - rewrite (Hin12 r Hr2), (Hout1 r Hr1), (Hout21 r Hr1), (Hin2 r Hr2). reflexivity.
  - rewrite (Hout12 r Hr2), (Hout1 r Hr1), (Hout21 r Hr1), (Hout2 r Hr2). reflexivity.
Qed.

(** steps and runs only look at the values of the state *)
Lemma coll_step_ext : forall cm st st' s, state_eq st st' -> coll_step col P cm st = Some s ->
  exists s', coll_step col P cm st' = Some s' /\ state_eq s s'.
Proof.
  intros cm st st' s He H. destruct (coll_step_spec _ _ _ H) as [Hne [[k Hk] [Hin Hout]]].
  destruct (coll_step_enabled cm st' k Hne) as [s' H'].
  { intros r Hr. rewrite <- He. apply Hk. exact Hr. }
  exists s'. split; [exact H'|]. destruct (coll_step_spec _ _ _ H') as [_ [_ [Hin' Hout']]].
  intros r. destruct (in_dec Nat.eq_dec r (members col P cm)) as [Hr|Hr].
  - rewrite (Hin r Hr), (Hin' r Hr), He. reflexivity.
  - rewrite (Hout r Hr), (Hout' r Hr), He. reflexivity.
Qed.

Lemma coll_run_ext : forall sched st st' fin, state_eq st st' -> coll_run col P sched st = Some fin ->
  exists fin', coll_run col P sched st' = Some fin' /\ state_eq fin fin'.
Proof.
  intros sched. induction sched as [|cm sched IH]; intros st st' fin He H.
  - simpl in H. inversion H. subst fin. exists st'. split; [reflexivity|exact He].
  - simpl in H. destruct (coll_step col P cm st) as [s|] eqn:Hs; [|discriminate].
    destruct (coll_step_ext cm st st' s He Hs) as [s' [Hs' He']].
    destruct (IH s s' fin He' H) as [fin' [Hr Hf]]. exists fin'. split; [|exact Hf].
    simpl. rewrite Hs'. exact Hr.
Qed.

Definition completable (st : nat -> list event) : Prop :=
  exists sched fin, coll_run col P sched st = Some fin /\ finished fin.

(** the heart of the matter: a state that can be completed can still be completed after ANY enabled step *)
Lemma completable_step : forall sched st fin, coll_run col P sched st = Some fin -> finished fin ->
  forall cm st1, coll_step col P cm st = Some st1 -> completable st1.
Proof.
  intros sched. induction sched as [|c sched IH]; intros st fin Hrun Hfin cm st1 Hstep.
  - simpl in Hrun. inversion Hrun. subst fin. exfalso.
    destruct (coll_step_spec _ _ _ Hstep) as [Hne [[k Hk] _]].
    destruct (members col P cm) as [|r0 ms] eqn:Em; [congruence|].
    assert (Hr0 : In r0 (members col P cm)) by (rewrite Em; left; reflexivity).
    destruct (Hk r0 ltac:(rewrite <- Em; exact Hr0)) as [rest E].
    rewrite (Hfin r0 (members_lt cm r0 Hr0)) in E. discriminate.
  - simpl in Hrun. destruct (coll_step col P c st) as [sc|] eqn:Hc; [|discriminate].
    destruct (commid_eqb c cm) eqn:Ecm.
    + apply commid_eqb_eq in Ecm. subst c. rewrite Hc in Hstep. inversion Hstep. subst st1.
      exists sched, fin. split; assumption.
    + assert (Hne : c <> cm) by (intro E; subst c; rewrite commid_eqb_refl in Ecm; discriminate).
      destruct (coll_step_diamond c cm st sc st1 Hne Hc Hstep) as [s12 [s21 [H12 [H21 He]]]].
      destruct (IH sc fin Hrun Hfin cm s12 H12) as [sched' [fin' [Hrun' Hfin']]].
      destruct (coll_run_ext sched' s12 s21 fin' He Hrun') as [fin'' [Hrun'' He'']].
      exists (c :: sched'), fin''. split.
      * simpl. rewrite H21. exact Hrun''.
      * intros r Hr. rewrite <- He''. apply Hfin'. exact Hr.
Qed.

(** hence every state reachable from a completable one is completable, and is either finished or has an enabled step *)
Theorem reachable_completable : forall pre st0 st, completable st0 -> coll_run col P pre st0 = Some st ->
  completable st /\ (finished st \/ exists cm st', coll_step col P cm st = Some st').
Proof.
  intros pre. induction pre as [|cm pre IH]; intros st0 st Hc Hrun.
  - simpl in Hrun. inversion Hrun. subst st. split; [exact Hc|].
    destruct Hc as [[|c sched] [fin [Hr Hf]]].
    + simpl in Hr. inversion Hr. subst fin. left. exact Hf.
    + right. simpl in Hr. destruct (coll_step col P c st0) as [s|] eqn:Hs; [|discriminate]. exists c, s. exact Hs.
  - simpl in Hrun. destruct (coll_step col P cm st0) as [s|] eqn:Hs; [|discriminate].
    apply (IH s st); [|exact Hrun]. destruct Hc as [sched [fin [Hr Hf]]].
    apply (completable_step sched st0 fin Hr Hf cm s Hs).
Qed.

(** every successful step consumes at least one event of a rank < P: runs are finite *)
Definition remaining (st : nat -> list event) : nat := list_sum (map (fun r => length (st r)) (seq 0 P)).

Lemma list_sum_lt : forall (f g : nat -> nat) l r0, In r0 l -> (forall r, In r l -> g r <= f r) -> g r0 < f r0 ->
  list_sum (map g l) < list_sum (map f l).
Proof.
  intros f g l r0. induction l as [|x l IH]; intros Hin Hle Hlt; [destruct Hin|]. simpl.
  assert (Hl : list_sum (map g l) <= list_sum (map f l)).
  { clear IH Hin. induction l as [|y l IHl]; [simpl; lia|]. simpl.
    assert (g y <= f y) by (apply Hle; right; left; reflexivity).
    assert (list_sum (map g l) <= list_sum (map f l)).
    { apply IHl. intros r Hr. apply Hle. destruct Hr as [->|Hr]; [left; reflexivity|right; right; exact Hr]. }
    lia. }
  destruct Hin as [->|Hin].
  - lia.
  - assert (g x <= f x) by (apply Hle; left; reflexivity).
    assert (list_sum (map g l) < list_sum (map f l)).
    { apply IH; [exact Hin| |exact Hlt]. intros r Hr. apply Hle. right. exact Hr. }
    lia.
Qed.

Lemma coll_step_decreases : forall cm st s, coll_step col P cm st = Some s -> remaining s < remaining st.
Proof.
  intros cm st s H. destruct (coll_step_spec _ _ _ H) as [Hne [[k Hk] [Hin Hout]]].
  destruct (members col P cm) as [|r0 ms] eqn:Em; [congruence|].
  assert (Hr0 : In r0 (members col P cm)) by (rewrite Em; left; reflexivity).
  rewrite <- Em in *.
  unfold remaining. apply list_sum_lt with (r0 := r0).
  - apply in_seq. assert (Hlt := members_lt cm r0 Hr0). lia.
  - intros r _. destruct (in_dec Nat.eq_dec r (members col P cm)) as [Hr|Hr].
    + rewrite (Hin r Hr). destruct (st r); simpl; lia.
    + rewrite (Hout r Hr). lia.
  - rewrite (Hin r0 Hr0). destruct (Hk r0 Hr0) as [rest E]. rewrite E. simpl. lia.
Qed.

Theorem run_length_bounded : forall sched st fin, coll_run col P sched st = Some fin ->
  length sched + remaining fin <= remaining st.
Proof.
  intros sched. induction sched as [|cm sched IH]; intros st fin H.
  - simpl in H. inversion H. subst. simpl. lia.
  - simpl in H. destruct (coll_step col P cm st) as [s|] eqn:Hs; [|discriminate].
    assert (H1 := coll_step_decreases cm st s Hs). assert (H2 := IH s fin H). simpl. lia.
Qed.

End Confluence.

(** C06 termination, collective part, at full strength: with the repaired barrier, whatever the order in which
    communicators get to proceed ("any timing"), computeAll_split never reaches a state in which some rank still has
    a collective to issue and nothing can proceed; every such run has at most as many steps as there are events;
    and from every reachable state the run can be completed. *)
Theorem split_no_deadlock : forall fx col P comps clear jm, fix_barrier fx = true -> 1 <= P ->
  forall pre st, coll_run col P pre (split_trace fx col P comps clear jm) = Some st ->
  completable col P st /\
  (finished P st \/ exists cm st', coll_step col P cm st = Some st') /\
  length pre <= remaining P (split_trace fx col P comps clear jm).
Proof.
  intros fx col P comps clear jm Hf HP pre st Hrun.
  assert (Hc : completable col P (split_trace fx col P comps clear jm)).
  { destruct (split_run_completes col P fx comps clear jm Hf HP) as [sched [fin [H1 H2]]].
    exists sched, fin. split; assumption. }
  destruct (reachable_completable col P pre _ st Hc Hrun) as [H1 H2].
  split; [exact H1|]. split; [exact H2|].
  assert (H3 := run_length_bounded col P pre _ st Hrun). lia.
Qed.

(** ** Where the data is afterwards *)

Lemma filter_split : forall A (h f1 f2 : A -> bool) l,
  (forall x, h x = f1 x || f2 x) -> (forall x, f1 x && f2 x = false) ->
  Permutation (filter h l) (filter f1 l ++ filter f2 l).
Proof.
  intros A h f1 f2 l Hh Hd. induction l as [|x l IH]; [constructor|].
  simpl. rewrite Hh. specialize (Hd x). destruct (f1 x), (f2 x); simpl in *; try discriminate.
  - constructor. exact IH.
  - apply Permutation_cons_app. exact IH.
  - exact IH.
Qed.

Lemma filter_all : forall A (f : A -> bool) l, (forall x, In x l -> f x = true) -> filter f l = l.
Proof.
  intros A f l. induction l as [|x l IH]; intros H; [reflexivity|]. simpl.
  rewrite (H x (or_introl eq_refl)). f_equal. apply IH. intros y Hy. apply H. right. exact Hy.
Qed.

Lemma partition_by_key : forall (f : nat -> nat) (l : list nat) n,
  Permutation (flat_map (fun lr => filter (fun p => f p =? lr) l) (seq 0 n)) (filter (fun p => f p <? n) l).
Proof.
  intros f l n. induction n as [|n IH].
  - simpl. rewrite filter_nil_iff; [constructor|]. intros x _. reflexivity.
  - rewrite seq_S, flat_map_app. simpl flat_map. rewrite app_nil_r.
    eapply Permutation_trans; [apply Permutation_app_tail; exact IH|].
    apply Permutation_sym. apply filter_split.
    + intros x. destruct (f x <? n) eqn:E1, (f x =? n) eqn:E2, (f x <? S n) eqn:E3; try reflexivity;
        rewrite ?Nat.ltb_lt, ?Nat.ltb_ge, ?Nat.eqb_eq, ?Nat.eqb_neq in *; lia.
    + intros x. destruct (f x <? n) eqn:E1, (f x =? n) eqn:E2; try reflexivity;
        rewrite ?Nat.ltb_lt, ?Nat.eqb_eq in *; lia.
Qed.

(** the reduction over all n ranks of a communicator contains every part exactly once, whatever the job map,
    as long as it names ranks of the communicator *)
Lemma reduce_all_perm : forall np jmk n, jm_in_range jmk np n -> Permutation (reduce_all np jmk n) (seq 0 np).
Proof.
  intros np jmk n H. unfold reduce_all, partial_sum.
  eapply Permutation_trans; [apply partition_by_key|].
  rewrite filter_all; [apply Permutation_refl|]. intros p Hp. apply in_seq in Hp. apply Nat.ltb_lt. apply H. lia.
Qed.

Section Data.
Variable fx : fixes.
Variable col : colouring.
Variable P : nat.
Variable comps : list component.
Variables clear fne : bool.
Variable jm : nat -> nat -> nat.

(** size of the communicator component k is computed on *)
Definition colour_size (k : nat) : nat := length (members col P (Colour (ecol col k))).

Lemma split_state_nth : forall r k c, nth_error comps k = Some c ->
  nth_error (split_state fx col P comps clear fne jm r) k =
  Some (let ck := ecol col k in
        let st1 q := if pcol col q =? ck
                     then gf2_state clear fne c (jm k) (colour_size k) (local_rank col (Colour ck) q)
                     else init_state c in
        let s := sender fx col P k in
        distribute_comp fx clear c (st1 s) (st1 r) (r =? s)).
Proof.
  intros r k c H. unfold split_state. rewrite nth_error_map, nth_error_indexed, H. reflexivity.
Qed.

Lemma nosplit_state_nth : forall r k c, nth_error comps k = Some c ->
  nth_error (nosplit_state P comps clear fne jm r) k = Some (gf2_state clear fne c (jm k) P r).
Proof.
  intros r k c H. unfold nosplit_state. rewrite nth_error_map, nth_error_indexed, H. reflexivity.
Qed.

(** C06 reduce_root_is_sender (repaired root): the rank that broadcasts component k's table is a member of the
    component's colour, is rank 0 of that colour's communicator -- the rank TwoParticleGF::compute reduces to --
    and is the smallest world rank of the colour. *)
Theorem reduce_root_is_sender : fix_root fx = true -> forall k,
  (exists r, r < P /\ pcol col r = ecol col k) ->
  let s := sender fx col P k in
  In s (members col P (Colour (ecol col k))) /\
  local_rank col (Colour (ecol col k)) s = 0 /\
  forall q, In q (members col P (Colour (ecol col k))) -> s <= q.
Proof. intros Hf k Hex. apply sender_is_local_root; assumption. Qed.

(** C06 tables_all_ranks_sum (repaired root): for a non-vanishing component and a non-empty frequency list, the
    table computeAll_split returns is the same on every rank and is the full sum over the parts. *)
Theorem tables_all_ranks_sum : fix_root fx = true -> fne = true -> forall k c, nth_error comps k = Some c ->
  vanishing c = false -> 1 <= nparts c ->
  (exists r, r < P /\ pcol col r = ecol col k) ->
  jm_in_range (jm k) (nparts c) (colour_size k) ->
  exists l, Permutation l (seq 0 (nparts c)) /\
            forall r, exists st, nth_error (split_state fx col P comps clear fne jm r) k = Some st /\ tab st = TData l.
Proof.
  intros Hf Hfne k c Hk Hv Hnp Hex Hjm.
  exists (reduce_all (nparts c) (jm k) (colour_size k)). split; [apply reduce_all_perm; exact Hjm|].
  intros r. eexists. split; [apply split_state_nth; exact Hk|].
  cbv zeta. unfold distribute_comp. cbn [tab].
  destruct (nparts c =? 0) eqn:E0; [apply Nat.eqb_eq in E0; lia|].
  destruct (sender_member fx col P k Hex) as [_ Hsc].
  destruct (sender_is_local_root fx col Hf P k Hex) as [_ [Hlr _]].
  rewrite Hsc, Nat.eqb_refl. unfold gf2_state. rewrite Hv, Hfne. cbn [tab]. rewrite Hlr. reflexivity.
Qed.

Lemma gf2_state_parts_kept : forall c jmk n lr, vanishing c = false -> jm_in_range jmk (nparts c) n ->
  forall x, In x (parts (gf2_state false fne c jmk n lr)) -> terms x = true /\ pstat x = PComputed.
Proof.
  intros c jmk n lr Hv Hjm x Hx. unfold gf2_state in Hx. rewrite Hv in Hx. simpl in Hx.
  apply in_map_iff in Hx. destruct Hx as [p [E Hp]]. apply in_seq in Hp. subst x. simpl.
  assert (Hlt : jmk p <? n = true) by (apply Nat.ltb_lt; apply Hjm; lia).
  rewrite Hlt. unfold run_part. rewrite Nat.eqb_refl. split; reflexivity.
Qed.

(** C06 terms_and_status_everywhere (repaired status): after a non-purging computeAll_split every component can
    be evaluated on every rank, and every part holds its terms there. *)
Theorem terms_and_status_everywhere : fix_status fx = true -> clear = false -> forall k c, nth_error comps k = Some c ->
  (exists r, r < P /\ pcol col r = ecol col k) ->
  jm_in_range (jm k) (nparts c) (colour_size k) ->
  forall r, exists st, nth_error (split_state fx col P comps clear fne jm r) k = Some st /\
                       evaluable c st = true /\ has_all_terms c st = true.
Proof.
  intros Hf Hc k c Hk Hex Hjm r. eexists. split; [apply split_state_nth; exact Hk|].
  unfold evaluable, has_all_terms. destruct (vanishing c) eqn:Hv; [split; reflexivity|]. simpl orb.
  cbv zeta. unfold distribute_comp. simpl parts.
  destruct (sender_member fx col P k Hex) as [_ Hsc]. rewrite Hsc, Nat.eqb_refl.
  rewrite Hf, Hc. simpl andb.
  split; apply forallb_forall; intros x Hx; apply in_map_iff in Hx; destruct Hx as [[a b] [E Hab]]; subst x; simpl.
  - destruct (r =? sender fx col P k) eqn:Ers; [|reflexivity].
    apply Nat.eqb_eq in Ers. subst r. apply in_combine_r in Hab. rewrite Hsc, Nat.eqb_refl in Hab.
    destruct (gf2_state_parts_kept c (jm k) _ _ Hv Hjm b Hab) as [_ Hb]. rewrite Hb. reflexivity.
  - apply in_combine_l in Hab. destruct (gf2_state_parts_kept c (jm k) _ _ Hv Hjm a Hab) as [Ha _]. exact Ha.
Qed.

(** C06 nosplit_root_has_sum: unsplit computation (and a single TwoParticleGF::compute) on P ranks: rank 0 returns
    the full sum; every other rank returns a table of zeros (the reduction is not followed by a broadcast). *)
Theorem nosplit_root_has_sum : fne = true -> forall k c, nth_error comps k = Some c -> vanishing c = false ->
  jm_in_range (jm k) (nparts c) P ->
  (exists st, nth_error (nosplit_state P comps clear fne jm 0) k = Some st /\ is_full_sum (nparts c) (tab st)) /\
  (forall r, r <> 0 -> exists st, nth_error (nosplit_state P comps clear fne jm r) k = Some st /\ tab st = TData []).
Proof.
  intros Hfne k c Hk Hv Hjm. split.
  - eexists. split; [apply nosplit_state_nth; exact Hk|]. unfold gf2_state. rewrite Hv, Hfne. simpl.
    eexists. split; [reflexivity|]. apply reduce_all_perm. exact Hjm.
  - intros r Hr. eexists. split; [apply nosplit_state_nth; exact Hk|]. unfold gf2_state. rewrite Hv, Hfne. simpl.
    destruct (r =? 0) eqn:E; [apply Nat.eqb_eq in E; contradiction|reflexivity].
Qed.

(** unsplit, non-purging: terms and statuses are on every rank (TwoParticleGF.cpp:178-184) *)
Theorem nosplit_terms_everywhere : clear = false -> forall k c, nth_error comps k = Some c ->
  jm_in_range (jm k) (nparts c) P ->
  forall r, exists st, nth_error (nosplit_state P comps clear fne jm r) k = Some st /\
                       evaluable c st = true /\ has_all_terms c st = true.
Proof.
  intros Hc k c Hk Hjm r. eexists. split; [apply nosplit_state_nth; exact Hk|].
  unfold evaluable, has_all_terms. destruct (vanishing c) eqn:Hv; [split; reflexivity|]. simpl orb. rewrite Hc.
  split; apply forallb_forall; intros x Hx;
    destruct (gf2_state_parts_kept c (jm k) _ _ Hv Hjm x Hx) as [Ht Hs]; [rewrite Hs; reflexivity|exact Ht].
Qed.

End Data.

(** Hamiltonian::compute: every rank ends with, for every block, the eigen-data computed by the one rank that
    diagonalised it -- so all ranks hold identical eigenvalues and eigenvectors. *)
Theorem eigendata_identical : forall P jmk nblocks, jm_in_range jmk nblocks P ->
  forall r p, r < P -> p < nblocks -> ham_block_source P jmk r p = Some (jmk p).
Proof.
  intros P jmk nblocks Hjm r p Hr Hp. unfold ham_block_source.
  destruct (r =? jmk p) eqn:E; [apply Nat.eqb_eq in E; subst; reflexivity|].
  assert (Hlt : jmk p <? P = true) by (apply Nat.ltb_lt; apply Hjm; exact Hp). rewrite Hlt. reflexivity.
Qed.

(** the same for every entry point whose trace is the same on all ranks and touches only the communicator passed
    in: unsplit container computation, a single TwoParticleGF::compute, Hamiltonian::prepare / compute --
    for ANY variant of the code (on the world communicator the original barrier is the right one) *)
Theorem uniform_no_deadlock : forall col P (trace : nat -> list event) t, 1 <= P ->
  (forall r, trace r = t) -> on_comm World t ->
  forall pre st, coll_run col P pre trace = Some st ->
  completable col P st /\
  (finished P st \/ exists cm st', coll_step col P cm st = Some st') /\
  length pre <= remaining P trace.
Proof.
  intros col P trace t HP Hu Hon pre st Hrun.
  assert (HneW : members col P World <> []).
  { simpl. destruct P; [lia|]. simpl. discriminate. }
  assert (Hc : completable col P trace).
  { destruct (run_block col P World (map snd t) trace (fun _ => []) HneW) as [fin [H1 [H2 _]]].
    { intros r _. rewrite app_nil_r, Hu. apply on_comm_map_pair. exact Hon. }
    exists (repeat World (length (map snd t))), fin. split; [exact H1|].
    intros r Hr. apply H2. simpl. apply in_seq. lia. }
  destruct (reachable_completable col P pre _ st Hc Hrun) as [H1 H2].
  split; [exact H1|]. split; [exact H2|].
  assert (H3 := run_length_bounded col P pre _ st Hrun). lia.
Qed.

Lemma gf2_compute_world_on : forall fx clear c jmk, on_comm World (gf2_compute fx World clear c jmk).
Proof. intros fx clear c jmk e H. apply gf2_compute_comms in H. destruct H; assumption. Qed.

Theorem nosplit_no_deadlock : forall fx col P comps clear jm, 1 <= P ->
  forall pre st, coll_run col P pre (nosplit_trace fx comps clear jm) = Some st ->
  completable col P st /\
  (finished P st \/ exists cm st', coll_step col P cm st = Some st') /\
  length pre <= remaining P (nosplit_trace fx comps clear jm).
Proof.
  intros fx col P comps clear jm HP. apply uniform_no_deadlock with (t := nosplit_trace fx comps clear jm 0); [exact HP|reflexivity|].
  intros e H. unfold nosplit_trace in H. apply in_flat_map in H. destruct H as [kc [_ H]].
  apply gf2_compute_world_on in H. exact H.
Qed.

Theorem hamiltonian_no_deadlock : forall fx col P nblocks jmk, 1 <= P ->
  let trace := fun r => ham_prepare_trace fx World nblocks jmk r ++ ham_compute_trace fx World nblocks jmk r in
  forall pre st, coll_run col P pre trace = Some st ->
  completable col P st /\
  (finished P st \/ exists cm st', coll_step col P cm st = Some st') /\
  length pre <= remaining P trace.
Proof.
  intros fx col P nblocks jmk HP trace.
  apply uniform_no_deadlock with (t := trace 0); [exact HP|reflexivity|].
  assert (Hs : on_comm World (skel_run fx World)).
  { intros e H. apply skel_run_comms in H. destruct H; assumption. }
  unfold trace, ham_prepare_trace, ham_compute_trace.
  repeat apply on_comm_app; try exact Hs.
  - intros e [H|[]]. subst e. reflexivity.
  - intros e H. apply in_map_iff in H. destruct H as [p [E _]]. subst e. reflexivity.
  - intros e [H|[]]. subst e. reflexivity.
  - intros e H. apply in_flat_map in H. destruct H as [p [_ [E|[E|[]]]]]; subst e; reflexivity.
Qed.

(** ** The original code (all three repairs off): machine-checked counter-examples *)

Definition one_part : component := mkcomp false 1.

(** D1: 2 ranks, 3 non-vanishing components.  Colour 0 = {rank 0} computes two components, colour 1 = {rank 1} one;
    every compute issues MPI_Barrier(MPI_COMM_WORLD), so the two ranks issue different sequences on the world
    communicator ... *)
Theorem collectives_match_refuted : exists P comps clear jm,
  let col := float_colouring P (length comps) in
  ~ collectives_match col P (split_trace none_fixed col P comps clear jm).
Proof.
  exists 2, [one_part; one_part; one_part], true, (fun _ _ => 0). cbv zeta. intros [H _].
  specialize (H World 0 1 ltac:(simpl; auto) ltac:(simpl; auto)).
  revert H. vm_compute. discriminate.
Qed.

(** ... and the run deadlocks in the blocking semantics: a reachable state in which ranks still have collectives
    to issue and no communicator can proceed. *)
Lemma no_step_b_spec : forall col P st, no_step_b col P st = true -> forall cm, coll_step col P cm st = None.
Proof.
  intros col P st H cm. unfold no_step_b in H. rewrite forallb_forall in H.
  assert (Hin : forall cm', In cm' (comms_of col P) -> coll_step col P cm' st = None).
  { intros cm' Hc. specialize (H cm' Hc). destruct (coll_step col P cm' st); [discriminate|reflexivity]. }
  destruct cm as [|c]; [apply Hin; left; reflexivity|].
  destruct (in_dec Nat.eq_dec c (nodup Nat.eq_dec (map (pcol col) (seq 0 P)))) as [Hc|Hc].
  - apply Hin. right. apply in_map. exact Hc.
  - unfold coll_step. replace (members col P (Colour c)) with (@nil nat); [reflexivity|].
    symmetry. simpl. apply filter_nil_iff. intros r Hr. apply Nat.eqb_neq. intro E. apply Hc.
    apply nodup_In. rewrite <- E. apply in_map. exact Hr.
Qed.

Lemma stuck_lift : forall col P (o : option (nat -> list event)),
  match o with Some st => negb (all_done P st) && no_step_b col P st | None => false end = true ->
  match o with
  | Some st => all_done P st = false /\ forall cm, coll_step col P cm st = None
  | None => False
  end.
Proof.
  intros col P [st|] H; [|discriminate]. apply andb_prop in H. destruct H as [H1 H2].
  split; [apply negb_true_iff; exact H1|apply no_step_b_spec; exact H2].
Qed.

Theorem split_deadlock_refuted : exists P comps clear jm sched,
  let col := float_colouring P (length comps) in
  match coll_run col P sched (split_trace none_fixed col P comps clear jm) with
  | Some st => all_done P st = false /\ forall cm, coll_step col P cm st = None
  | None => False
  end.
Proof.
  exists 2, [one_part; one_part; one_part], true, (fun _ _ => 0).
  exists (snd (fst (coll_exec (float_colouring 2 3) 2 100
                        (split_trace none_fixed (float_colouring 2 3) 2 [one_part; one_part; one_part] true (fun _ _ => 0))))).
  cbv zeta. apply stuck_lift. vm_compute. reflexivity.
Qed.

(** D2: 2 ranks, 1 component with 1 part, non-empty frequency list: both ranks have colour 0, the reduction goes to
    rank 0 but the broadcast root is rank 1: every rank returns a table of zeros. *)
Theorem reduce_root_refuted : exists P comps clear jm,
  let col := float_colouring P (length comps) in
  forall r, r < P -> exists st, nth_error (split_state none_fixed col P comps clear true jm r) 0 = Some st /\
                                tab st = TData [] /\ ~ is_full_sum 1 (tab st).
Proof.
  exists 2, [one_part], true, (fun _ _ => 0). cbv zeta. intros r Hr.
  assert (Hnot : ~ is_full_sum 1 (TData [])).
  { intros [l [E Hp]]. inversion E. subst l. apply Permutation_nil in Hp. discriminate. }
  destruct r as [|[|r]]; [| |lia]; eexists; (split; [vm_compute; reflexivity|]); (split; [reflexivity|exact Hnot]).
Qed.

(** D3: 2 ranks, 2 components, terms kept: rank 0 cannot evaluate component 1 (and rank 1 not component 0),
    although computeAll returned it there and its terms were received. *)
Theorem status_refuted : exists P comps jm r k c st,
  let col := float_colouring P (length comps) in
  r < P /\ nth_error comps k = Some c /\
  nth_error (split_state none_fixed col P comps false true jm r) k = Some st /\
  has_all_terms c st = true /\ evaluable c st = false.
Proof.
  exists 2, [one_part; one_part], (fun _ _ => 0), 0, 1, one_part. eexists. cbv zeta.
  split; [lia|]. split; [reflexivity|]. split; [vm_compute; reflexivity|]. split; reflexivity.
Qed.

(** the same three inputs with all repairs on (sanity: the repaired model is not vacuous on them) *)
Example repaired_on_the_witnesses :
  let col3 := float_colouring 2 3 in let col1 := float_colouring 2 1 in let col2 := float_colouring 2 2 in
  fst (fst (coll_exec col3 2 100 (split_trace all_fixed col3 2 [one_part; one_part; one_part] true (fun _ _ => 0)))) = true /\
  map (fun r => map tab (split_state all_fixed col1 2 [one_part] true true (fun _ _ => 0) r)) [0; 1] = [[TData [0]]; [TData [0]]] /\
  map (fun r => map (evaluable one_part) (split_state all_fixed col2 2 [one_part; one_part] false true (fun _ _ => 0) r)) [0; 1]
    = [[true; true]; [true; true]].
Proof. vm_compute. repeat split. Qed.

(** ** OpenMP loop: any schedule gives the sequential table *)

Section OMPProofs.
Variable V : Type.
Variable add : V -> V -> V.
Variable val : nat -> V.

Lemma nth_error_set_nth_other : forall (d : list V) a b v, a <> b -> nth_error (set_nth V d a v) b = nth_error d b.
Proof.
  intros d. induction d as [|x d IH]; intros a b v Hne; [destruct a; reflexivity|].
  destruct a as [|a], b as [|b]; simpl; try reflexivity; [congruence|]. apply IH. congruence.
Qed.

Lemma set_nth_comm : forall (d : list V) a b v w, a <> b ->
  set_nth V (set_nth V d a v) b w = set_nth V (set_nth V d b w) a v.
Proof.
  intros d. induction d as [|x d IH]; intros a b v w Hne; [destruct a, b; reflexivity|].
  destruct a as [|a], b as [|b]; simpl; try reflexivity; [congruence|]. f_equal. apply IH. congruence.
Qed.

(** iterations on different cells commute: iteration w reads and writes cell w only *)
Lemma iter_comm : forall d a b, iter V add val (iter V add val d a) b = iter V add val (iter V add val d b) a.
Proof.
  intros d a b. destruct (Nat.eq_dec a b) as [->|Hne]; [reflexivity|].
  unfold iter.
  destruct (nth_error d a) as [x|] eqn:Ea; cbv beta iota;
    destruct (nth_error d b) as [y|] eqn:Eb; cbv beta iota;
    rewrite ?nth_error_set_nth_other by congruence; rewrite ?Ea, ?Eb; cbv beta iota; try reflexivity.
  apply set_nth_comm. exact Hne.
Qed.

(** C06 omp_schedule_independent: the table after the loop does not depend on the order in which the iterations
    take effect -- any two schedules that are permutations of each other give the same table. *)
Theorem omp_schedule_independent : forall s s', Permutation s s' ->
  forall d, run_schedule V add val s d = run_schedule V add val s' d.
Proof.
  intros s s' Hp. induction Hp as [|x l l' Hp IH|x y l|l l' l'' Hp1 IH1 Hp2 IH2]; intros d.
  - reflexivity.
  - simpl. apply IH.
  - simpl. rewrite iter_comm. reflexivity.
  - rewrite IH1. apply IH2.
Qed.

(** in particular: any assignment of the iterations 0..n-1 to threads ([chunks], one list per thread, every
    iteration in exactly one of them) executed in any interleaving [sched] gives the sequential result *)
Corollary omp_any_partition : forall (chunks : list (list nat)) sched n d,
  Permutation (concat chunks) (seq 0 n) -> Permutation sched (concat chunks) ->
  run_schedule V add val sched d = run_schedule V add val (seq 0 n) d.
Proof.
  intros chunks sched n d H1 H2. apply omp_schedule_independent. eapply Permutation_trans; eassumption.
Qed.

End OMPProofs.

(** ** OpenMP loop at the grain of shared-memory accesses *)

Section OMPMicro.
Variable V : Type.
Variable add : V -> V -> V.
Variable val : nat -> V.

Notation iter := (iter V add val).
Notation run_schedule := (run_schedule V add val).
Notation tstate := (tstate V).

Lemma set_thread_split : forall (T1 T2 : list tstate) ts ts',
  set_thread V (T1 ++ ts :: T2) (length T1) ts' = T1 ++ ts' :: T2.
Proof.
  intros T1. induction T1 as [|x T1 IH]; intros T2 ts ts'; [reflexivity|]. simpl. f_equal. apply IH.
Qed.

Lemma nth_error_other_split : forall (T1 T2 : list tstate) ts ts' t' y, t' <> length T1 ->
  nth_error (T1 ++ ts :: T2) t' = Some y ->
  nth_error (T1 ++ ts' :: T2) t' = Some y /\ (In y T1 \/ In y T2).
Proof.
  intros T1 T2 ts ts' t' y Hne H. destruct (Nat.lt_ge_cases t' (length T1)) as [Hlt|Hge].
  - rewrite nth_error_app1 in * by exact Hlt. split; [exact H|]. left. eapply nth_error_In. exact H.
  - rewrite nth_error_app2 in * by exact Hge.
    destruct (t' - length T1) as [|m] eqn:E; [lia|]. simpl in *. split; [exact H|]. right. eapply nth_error_In. exact H.
Qed.

Lemma concat_fst_split : forall (T1 T2 : list tstate) ts,
  concat (map fst (T1 ++ ts :: T2)) = concat (map fst T1) ++ fst ts ++ concat (map fst T2).
Proof. intros T1 T2 ts. rewrite map_app, concat_app. reflexivity. Qed.

Lemma head_in_concat : forall (T : list tstate) w rest o, In (w :: rest, o) T -> In w (concat (map fst T)).
Proof.
  intros T w rest o H. apply in_concat. exists (w :: rest). split; [|left; reflexivity].
  apply in_map_iff. exists (w :: rest, o). split; [reflexivity|exact H].
Qed.

Lemma iter_out_of_range : forall d w, nth_error d w = None -> iter d w = d.
Proof. intros d w H. unfold SplitComm.iter. rewrite H. reflexivity. Qed.

(** the invariant: every iteration still to be done is in exactly one thread's list; a value read by a thread that
    has not written yet is still the value of the cell (nobody else touches that cell); executing what is left
    sequentially from the current table gives the sequential result *)
Definition omp_inv (target : list V) (st : list V * list tstate) : Prop :=
  NoDup (concat (map fst (snd st))) /\
  (forall t w rest x, nth_error (snd st) t = Some (w :: rest, Some x) -> nth_error (fst st) w = Some x) /\
  run_schedule (concat (map fst (snd st))) (fst st) = target.

Lemma omp_inv_step : forall target st t, omp_inv target st -> omp_inv target (par_step V add val st t).
Proof.
  intros target [d ths] t [Hnd [Hpend Hrun]]. unfold par_step. simpl fst in *. simpl snd in *.
  destruct (nth_error ths t) as [ts|] eqn:Et; [|repeat split; assumption].
  destruct (nth_error_split ths t Et) as [T1 [T2 [Eths Elen]]]. subst ths t.
  destruct ts as [[|w rest] o]; [destruct o; simpl; repeat split; assumption|].
  rewrite concat_fst_split in Hnd, Hrun. simpl fst in Hnd, Hrun.
  set (l1 := concat (map fst T1)) in *. set (l2 := concat (map fst T2)) in *.
  assert (Hother : forall t' w' rest' o', t' <> length T1 ->
            nth_error (T1 ++ (w :: rest, o) :: T2) t' = Some (w' :: rest', o') -> w' <> w).
  { intros t' w' rest' o' Hne H. destruct (nth_error_other_split T1 T2 _ (rest, None) t' _ Hne H) as [_ Hin].
    assert (Hw' : In w' (l1 ++ rest ++ l2)).
    { destruct Hin as [Hin|Hin]; apply head_in_concat in Hin; apply in_or_app; [left; exact Hin|right; apply in_or_app; right; exact Hin]. }
    apply NoDup_remove_2 in Hnd. intro E. subst w'. contradiction. }
  assert (Hdrop : forall d', run_schedule (l1 ++ rest ++ l2) (iter d' w) = run_schedule (l1 ++ (w :: rest) ++ l2) d').
  { intros d'. change (run_schedule (l1 ++ rest ++ l2) (iter d' w)) with (run_schedule (w :: l1 ++ rest ++ l2) d').
    apply omp_schedule_independent. apply Permutation_middle. }
  destruct o as [x|].
  - (* write *)
    simpl micro_step. cbv beta iota. rewrite set_thread_split.
    assert (Ex : nth_error d w = Some x).
    { apply (Hpend (length T1) w rest x). rewrite nth_error_app2, Nat.sub_diag by lia. reflexivity. }
    assert (Ei : set_nth V d w (add x (val w)) = iter d w) by (unfold SplitComm.iter; rewrite Ex; reflexivity).
    split; [|split]; simpl fst; simpl snd.
    + rewrite concat_fst_split. simpl fst. apply NoDup_remove_1 in Hnd. exact Hnd.
    + intros t' w' rest' x' H. destruct (Nat.eq_dec t' (length T1)) as [->|Hne].
      * rewrite nth_error_app2, Nat.sub_diag in H by lia. simpl in H. inversion H.
      * destruct (nth_error_other_split T1 T2 (rest, None) (w :: rest, Some x) t' _ Hne H) as [H' _].
        rewrite nth_error_set_nth_other; [apply (Hpend t' w' rest' x' H')|].
        intro E. apply (Hother t' w' rest' (Some x') Hne H'). symmetry. exact E.
    + rewrite concat_fst_split. simpl fst. rewrite Ei. rewrite Hdrop. exact Hrun.
  - simpl micro_step. destruct (nth_error d w) as [x|] eqn:Ex; cbv beta iota; rewrite set_thread_split;
      (split; [|split]); simpl fst; simpl snd.
    + (* read *) rewrite concat_fst_split. exact Hnd.
    + intros t' w' rest' x' H. destruct (Nat.eq_dec t' (length T1)) as [->|Hne].
      * rewrite nth_error_app2, Nat.sub_diag in H by lia. simpl in H. inversion H. subst. exact Ex.
      * destruct (nth_error_other_split T1 T2 (w :: rest, Some x) (w :: rest, None) t' _ Hne H) as [H' _].
        apply (Hpend t' w' rest' x' H').
    + rewrite concat_fst_split. exact Hrun.
    + (* iteration index outside the table: skipped *)
      rewrite concat_fst_split. simpl fst. apply NoDup_remove_1 in Hnd. exact Hnd.
    + intros t' w' rest' x' H. destruct (Nat.eq_dec t' (length T1)) as [->|Hne].
      * rewrite nth_error_app2, Nat.sub_diag in H by lia. simpl in H. inversion H.
      * destruct (nth_error_other_split T1 T2 (rest, None) (w :: rest, None) t' _ Hne H) as [H' _].
        apply (Hpend t' w' rest' x' H').
    + rewrite concat_fst_split. simpl fst. rewrite <- (iter_out_of_range d w Ex) at 1. rewrite Hdrop. exact Hrun.
Qed.

Lemma threads_done_nil : forall ths : list tstate, threads_done V ths = true -> concat (map fst ths) = [].
Proof.
  intros ths. induction ths as [|[l o] ths IH]; intros H; [reflexivity|]. simpl in H.
  apply andb_prop in H. destruct H as [H1 H2]. destruct l; [|discriminate]. simpl. apply IH. exact H2.
Qed.

(** C06 omp_schedule_independent at the grain of reads and writes: the iterations are distributed over any number
    of threads in any way (every iteration to exactly one thread), the threads' reads and writes of the shared
    table are interleaved in any way by the scheduler; once all threads are done the table is the one the
    sequential loop over the same iterations produces. *)
Theorem omp_interleaving_independent : forall (chunks : list (list nat)) (d : list V) (choices : list nat),
  NoDup (concat chunks) ->
  threads_done V (snd (par_run V add val choices d chunks)) = true ->
  fst (par_run V add val choices d chunks) = run_schedule (concat chunks) d.
Proof.
  intros chunks d choices Hnd Hdone.
  assert (Hinv : omp_inv (run_schedule (concat chunks) d) (par_run V add val choices d chunks)).
  { clear Hdone. unfold par_run.
    assert (H0 : omp_inv (run_schedule (concat chunks) d) (d, map (fun c : list nat => (c, @None V)) chunks)).
    { unfold omp_inv. simpl fst. simpl snd. rewrite map_map. simpl. rewrite map_id. split; [exact Hnd|]. split; [|reflexivity].
      intros t w rest x H. rewrite nth_error_map in H. destruct (nth_error chunks t); simpl in H; inversion H. }
    revert H0. generalize (d, map (fun c : list nat => (c, @None V)) chunks).
    induction choices as [|t choices IH]; intros st H0; [exact H0|]. simpl. apply IH. apply omp_inv_step. exact H0. }
  destruct Hinv as [_ [_ Hrun]]. rewrite (threads_done_nil _ Hdone) in Hrun. simpl in Hrun. exact Hrun.
Qed.

(** the scheduler can always finish: letting every thread run to its end one after the other is a valid choice
    sequence (so the hypothesis [threads_done] above is satisfiable for every input) *)
Lemma par_run_can_finish : forall (chunks : list (list nat)) (d : list V),
  exists choices, threads_done V (snd (par_run V add val choices d chunks)) = true.
Proof.
  intros chunks d. unfold par_run.
  assert (H : forall (T1 T2 : list tstate) d0, threads_done V T1 = true ->
            exists choices, threads_done V (snd (fold_left (par_step V add val) choices (d0, T1 ++ T2))) = true).
  { intros T1 T2. revert T1. induction T2 as [|ts T2 IH]; intros T1 d0 H1.
    - exists []. simpl. rewrite app_nil_r. exact H1.
    - (* run thread (length T1) to its end: measure = 2 * remaining iterations (+1 if nothing pending) *)
      assert (Hone : forall n (l : list nat) o d1, 2 * length l <= n ->
                exists choices d2, fold_left (par_step V add val) choices (d1, T1 ++ (l, o) :: T2) = (d2, T1 ++ ([], None) :: T2) \/
                                   (l = [] /\ fold_left (par_step V add val) choices (d1, T1 ++ (l, o) :: T2) = (d2, T1 ++ (l, o) :: T2))).
      { intros n. induction n as [|n IHn]; intros l o d1 Hn.
        - destruct l; [|simpl in Hn; lia]. exists [], d1. right. split; reflexivity.
        - destruct l as [|w rest]; [exists [], d1; right; split; reflexivity|].
          destruct o as [x|].
          + (* write, then continue *)
            destruct (IHn rest None (set_nth V d1 w (add x (val w))) ltac:(simpl in Hn; lia)) as [ch [d2 Hc]].
            exists (length T1 :: ch), d2. left. simpl fold_left. unfold par_step at 2. simpl fst. simpl snd.
            rewrite nth_error_app2, Nat.sub_diag by lia. simpl nth_error. cbv beta iota. simpl micro_step. cbv beta iota.
            rewrite set_thread_split. destruct Hc as [Hc|[E Hc]]; [exact Hc|]. subst rest. exact Hc.
          + destruct (nth_error d1 w) as [x|] eqn:Ex.
            * (* read, write, continue *)
              destruct (IHn rest None (set_nth V d1 w (add x (val w))) ltac:(simpl in Hn; lia)) as [ch [d2 Hc]].
              exists (length T1 :: length T1 :: ch), d2. left. simpl fold_left.
              unfold par_step at 3. simpl fst. simpl snd.
              rewrite nth_error_app2, Nat.sub_diag by lia. simpl nth_error. cbv beta iota. simpl micro_step. rewrite Ex. cbv beta iota.
              rewrite set_thread_split.
              unfold par_step at 2. simpl fst. simpl snd.
              rewrite nth_error_app2, Nat.sub_diag by lia. simpl nth_error. cbv beta iota. simpl micro_step. cbv beta iota.
              rewrite set_thread_split. destruct Hc as [Hc|[E Hc]]; [exact Hc|]. subst rest. exact Hc.
            * destruct (IHn rest None d1 ltac:(simpl in Hn; lia)) as [ch [d2 Hc]].
              exists (length T1 :: ch), d2. left. simpl fold_left. unfold par_step at 2. simpl fst. simpl snd.
              rewrite nth_error_app2, Nat.sub_diag by lia. simpl nth_error. cbv beta iota. simpl micro_step. rewrite Ex. cbv beta iota.
              rewrite set_thread_split. destruct Hc as [Hc|[E Hc]]; [exact Hc|]. subst rest. exact Hc. }
      destruct ts as [l o]. destruct (Hone (2 * length l) l o d0 (le_n _)) as [ch [d2 Hc]].
      assert (Hfin : exists o', fold_left (par_step V add val) ch (d0, T1 ++ (l, o) :: T2) = (d2, T1 ++ ([], o') :: T2)).
      { destruct Hc as [Hc|[E Hc]]; [exists None; exact Hc|]. subst l. exists o. exact Hc. }
      destruct Hfin as [o' Hfin].
      destruct (IH (T1 ++ [([], o')]) d2) as [ch2 H2].
      { unfold threads_done in *. rewrite forallb_app. apply andb_true_intro. split; [exact H1|reflexivity]. }
      exists (ch ++ ch2). rewrite fold_left_app.
      match goal with |- context [fold_left ?f ch ?i] =>
        replace (fold_left f ch i) with (d2, T1 ++ ([], o') :: T2) by (symmetry; exact Hfin) end.
      rewrite <- app_assoc in H2. exact H2. }
  destruct (H [] (map (fun c : list nat => (c, @None V)) chunks) d eq_refl) as [choices Hc].
  exists choices. exact Hc.
Qed.

End OMPMicro.

(* ======================================================================================================= *)
(** * Summary theorems for computeAll_split *)

(** Everything C06 asks of computeAll_split, for a variant [fx] of the code and a family of colourings [mk]
    (the colouring depends on P and on the number of components):
      - every communicator sees one sequence of collectives; in the blocking semantics, under any order in which
        communicators proceed, no deadlock is reachable, every reachable state can be completed, runs are finite;
      - for every component whose job map names ranks of its colour's communicator (C16 final_state):
        the sender is rank 0 of the colour's communicator; the returned table is the full sum, the same on every
        rank; without purging, the component can be evaluated on every rank from its full term lists. *)
Definition split_correct_for (fx : fixes) (mk : nat -> nat -> colouring) (P : nat) : Prop :=
  forall (comps : list component) (clear fne : bool) (jm : nat -> nat -> nat),
  let col := mk P (length comps) in
  collectives_match col P (split_trace fx col P comps clear jm) /\
  (forall pre st, coll_run col P pre (split_trace fx col P comps clear jm) = Some st ->
     completable col P st /\ (finished P st \/ exists cm st', coll_step col P cm st = Some st') /\
     length pre <= remaining P (split_trace fx col P comps clear jm)) /\
  forall k c, nth_error comps k = Some c -> jm_in_range (jm k) (nparts c) (colour_size col P k) ->
    (In (sender fx col P k) (members col P (Colour (ecol col k))) /\
     local_rank col (Colour (ecol col k)) (sender fx col P k) = 0) /\
    (vanishing c = false -> 1 <= nparts c -> fne = true ->
       exists l, Permutation l (seq 0 (nparts c)) /\
                 forall r, exists st, nth_error (split_state fx col P comps clear fne jm r) k = Some st /\ tab st = TData l) /\
    (clear = false ->
       forall r, exists st, nth_error (split_state fx col P comps clear fne jm r) k = Some st /\
                            evaluable c st = true /\ has_all_terms c st = true).

Lemma split_correct_for_inhabited : forall fx mk P, fx = all_fixed -> 1 <= P ->
  (forall ncomp, colours_inhabited (mk P ncomp) P ncomp) -> split_correct_for fx mk P.
Proof.
  intros fx mk P Hfx HP Hinh comps clear fne jm. cbv zeta. subst fx.
  set (col := mk P (length comps)).
  split; [apply collectives_match_split; reflexivity|].
  split; [intros pre st; apply split_no_deadlock; [reflexivity|exact HP]|].
  intros k c Hk Hjm.
  assert (Hex : exists r, r < P /\ pcol col r = ecol col k).
  { apply (Hinh (length comps)). apply nth_error_Some. rewrite Hk. discriminate. }
  split; [|split].
  - destruct (reduce_root_is_sender all_fixed col P eq_refl k Hex) as [H1 [H2 _]]. split; assumption.
  - intros Hv Hnp Hfne. apply tables_all_ranks_sum with (c := c); try assumption; reflexivity.
  - intros Hc. apply terms_and_status_everywhere; try assumption; reflexivity.
Qed.

(** all P >= 1, colours in exact arithmetic *)
Theorem split_repaired_exact : forall P, 1 <= P -> split_correct_for all_fixed exact_colouring P.
Proof.
  intros P HP. apply split_correct_for_inhabited; [reflexivity|exact HP|].
  intros ncomp. apply well_formed_inhabited. apply every_colour_nonempty_exact. exact HP.
Qed.

(** 1 <= P <= 64, colours as the C++ computes them (doubles) *)
Theorem split_repaired_float64 : forall P, 1 <= P <= 64 -> split_correct_for all_fixed float_colouring P.
Proof.
  intros P HP. apply split_correct_for_inhabited; [reflexivity|lia|].
  intros ncomp. apply well_formed_inhabited. apply every_colour_nonempty_float. exact HP.
Qed.

(** any P, float colours, given the executable check the driver evaluates for the configuration at hand *)
Theorem split_repaired_float_checked : forall P comps, 1 <= P ->
  colours_ok_b (float_colouring P (length comps)) P (length comps) = true ->
  forall clear fne jm, let col := float_colouring P (length comps) in
  collectives_match col P (split_trace all_fixed col P comps clear jm) /\
  (forall pre st, coll_run col P pre (split_trace all_fixed col P comps clear jm) = Some st ->
     completable col P st /\ (finished P st \/ exists cm st', coll_step col P cm st = Some st') /\
     length pre <= remaining P (split_trace all_fixed col P comps clear jm)) /\
  forall k c, nth_error comps k = Some c -> jm_in_range (jm k) (nparts c) (colour_size col P k) ->
    (vanishing c = false -> 1 <= nparts c -> fne = true ->
       exists l, Permutation l (seq 0 (nparts c)) /\
                 forall r, exists st, nth_error (split_state all_fixed col P comps clear fne jm r) k = Some st /\ tab st = TData l) /\
    (clear = false ->
       forall r, exists st, nth_error (split_state all_fixed col P comps clear fne jm r) k = Some st /\
                            evaluable c st = true /\ has_all_terms c st = true).
Proof.
  intros P comps HP Hok clear fne jm. cbv zeta. set (col := float_colouring P (length comps)).
  apply colours_ok_b_spec in Hok. fold col in Hok.
  split; [apply collectives_match_split; reflexivity|].
  split; [intros pre st; apply split_no_deadlock; [reflexivity|exact HP]|].
  intros k c Hk Hjm.
  assert (Hex : exists r, r < P /\ pcol col r = ecol col k).
  { apply Hok. apply nth_error_Some. rewrite Hk. discriminate. }
  split.
  - intros Hv Hnp Hfne. apply tables_all_ranks_sum with (c := c); try assumption; reflexivity.
  - intros Hc. apply terms_and_status_everywhere; try assumption; reflexivity.
Qed.

(** the hypotheses of the summary theorems are satisfiable by non-trivial values: 3 ranks, 4 components
    (one vanishing), a job map that spreads the parts over the colour's ranks *)
Example split_correct_nontrivial :
  let comps := [mkcomp false 3; mkcomp true 0; mkcomp false 2; mkcomp false 1] in
  let col := float_colouring 3 (length comps) in
  let jm := fun k p => p mod (colour_size col 3 k) in
  forallb (fun k => forallb (fun p => jm k p <? colour_size col 3 k) (seq 0 3)) (seq 0 4) = true /\
  map (colour_size col 3) (seq 0 4) = [1; 1; 1; 1] /\
  map (pcol col) (seq 0 3) = [0; 1; 2] /\ map (ecol col) (seq 0 4) = [0; 0; 1; 2].
Proof. vm_compute. repeat split. Qed.

Example split_correct_nontrivial_2 :
  let comps := [mkcomp false 3; mkcomp false 2] in
  let col := float_colouring 5 (length comps) in
  let jm := fun k p => p mod (colour_size col 5 k) in
  map (colour_size col 5) (seq 0 2) = [3; 2] /\
  map (fun r => map tab (split_state all_fixed col 5 comps false true jm r)) (seq 0 5) =
    repeat [TData [0; 1; 2]; TData [0; 1]] 5 /\
  map (fun r => map (fun kc => evaluable (snd kc) (fst kc)) (combine (split_state all_fixed col 5 comps false true jm r) comps)) (seq 0 5) =
    repeat [true; true] 5.
Proof. vm_compute. repeat split. Qed.

(* ======================================================================================================= *)
(** * The variant of the code that is in /repo now *)

(** [code_fixes] is what the translator reads off the source; these lemmas compile for either variant, their
    hypothesis is discharged (by [reflexivity]) in props/Properties_C06_current.v exactly when the source is repaired. *)
Lemma split_correct_of_code_exact : code_fixes = all_fixed ->
  forall P, 1 <= P -> split_correct_for code_fixes exact_colouring P.
Proof. intros E. rewrite E. exact split_repaired_exact. Qed.

Lemma split_correct_of_code_float64 : code_fixes = all_fixed ->
  forall P, 1 <= P <= 64 -> split_correct_for code_fixes float_colouring P.
Proof. intros E. rewrite E. exact split_repaired_float64. Qed.

(* ======================================================================================================= *)
(** * Examples: the hypotheses of the theorems above are satisfiable by non-trivial values *)

(** a component list with a job map in range, 5 ranks in 2 colours of sizes 3 and 2 (hypotheses of
    tables_all_ranks_sum / terms_and_status_everywhere / reduce_root_is_sender) *)
Example data_hypotheses_satisfiable :
  let comps := [mkcomp false 3; mkcomp false 2] in
  let col := float_colouring 5 (length comps) in
  let jm := fun k p => p mod (colour_size col 5 k) in
  (forall k c, nth_error comps k = Some c -> jm_in_range (jm k) (nparts c) (colour_size col 5 k)) /\
  colours_inhabited col 5 (length comps).
Proof.
  cbv zeta. split.
  - intros k c Hk p Hp. apply Nat.mod_upper_bound.
    destruct k as [|[|k]]; [vm_compute; discriminate|vm_compute; discriminate|destruct k; discriminate].
  - apply colours_ok_b_spec. vm_compute. reflexivity.
Qed.

(** unsplit: 3 ranks, parts spread round-robin (hypotheses of nosplit_root_has_sum / nosplit_terms_everywhere /
    eigendata_identical) *)
Example nosplit_hypotheses_satisfiable : jm_in_range (fun p => p mod 3) 7 3.
Proof. intros p _. apply Nat.mod_upper_bound. discriminate. Qed.

(** a reachable intermediate state of the blocking run (hypothesis of split_no_deadlock): after the world barrier,
    the split and two steps of colour 1, 3 ranks / 3 components *)
Lemma is_some_ex : forall A (o : option A), (match o with Some _ => true | None => false end) = true -> exists x, o = Some x.
Proof. intros A [x|] H; [exists x; reflexivity|discriminate]. Qed.

Example reachable_state_exists :
  let comps := [one_part; one_part; one_part] in
  let col := float_colouring 3 3 in
  exists st, coll_run col 3 [World; World; Colour 1; Colour 1] (split_trace all_fixed col 3 comps true (fun _ _ => 0)) = Some st.
Proof. cbv zeta. apply is_some_ex. vm_compute. reflexivity. Qed.

(** OpenMP: 4 iterations on 2 threads ([0;2] and [1;3]), reads and writes interleaved; table of naturals *)
Example omp_interleaving_example :
  let chunks := [[0; 2]; [1; 3]] in
  let d := [10; 20; 30; 40] in
  let choices := [0; 1; 1; 0; 0; 1; 0; 1] in
  NoDup (concat chunks) /\ Permutation (concat chunks) (seq 0 4) /\
  threads_done nat (snd (par_run nat Nat.add S choices d chunks)) = true /\
  fst (par_run nat Nat.add S choices d chunks) = [11; 22; 33; 44] /\
  run_schedule nat Nat.add S (seq 0 4) d = [11; 22; 33; 44].
Proof.
  cbv zeta. split; [|split; [|split; [|split]]]; try reflexivity.
  - simpl. repeat constructor; simpl; intuition discriminate.
  - simpl. apply perm_skip. apply perm_swap.
Qed.
