(** Dispatch.v -- executable transition-system model of pomerol's MPI job dispatcher.

    Sources modelled (line numbers of the tree this was written against):
      include/mpi_dispatcher/mpi_dispatcher.hpp   MPIWorker, MPIMaster (members)
      src/mpi_dispatcher/mpi_dispatcher.cpp       the member functions
      include/mpi_dispatcher/mpi_skel.hpp:68-79   the dispatch loop of mpi_skel::run (include_boss = true)
      test/mpi_dispatcher_test_nomaster.cpp:36-53 the documented loop for include_boss = false
                                                   (root runs only the master, every other rank only a worker)

    One [sys] value is the state of all ranks of one communicator plus the MPI layer between them.
    Atomic steps ([event]) are the actions of the dispatch loop:

      EOrder   l        MPIMaster::order()            cpp:136-145  (the whole while loop; l = pairs dispatched)
      ECheck seen fins  MPIMaster::check_workers()    cpp:147-163  (seen = completions test() reported, in pool order;
                                                                    fins = workers the Finish message was sent to)
      ERecv  w m        MPIWorker::receive_order()    cpp:32-41    (test() succeeded with message m)
      ERun   w j        parts[j].run(); MPIWorker::report_job_done()   mpi_skel.hpp:75-76, cpp:43-47
      EExit  r          the loop condition of rank r is false, the rank leaves the loop   mpi_skel.hpp:68
      EIdle  r          a loop iteration of rank r in which no test() succeeds and nothing is sent (stuttering)
      ENewRound js      all ranks have left the loop; after the barriers (mpi_skel.hpp:49,65,82,85) a new
                        MPIMaster / new MPIWorkers are constructed on the same communicator (mpi_skel.hpp:62,68)

    The scheduler is arbitrary (any enabled event may happen next).  [request::test()] is
    nondeterministic in the usual sense: a message that has been sent may or may not be reported at a
    given poll -- the poll that does not report it is the stuttering event [EIdle] (for check_workers:
    any subsequence of the reportable completions may be reported by one call).

    MPI layer.  Job ids and ranks are [nat].  For every worker rank w there is one "link" between the
    master (rank 0) and w, holding the messages in flight in both directions in send order.  For
    w <> 0 the two directions are distinct (source, destination) pairs, so the worker's wildcard
    receive only ever sees Work/Finish messages and the master's receive only Pending messages.
    For w = 0 (include_boss) both directions are the SAME ordered channel rank 0 -> rank 0 and both the
    worker's [irecv(boss, MPI_ANY_TAG)] and the master's [irecv(worker, Pending)] are posted on rank 0
    for source 0; MPI matches an incoming message with the earliest posted receive whose (source, tag)
    accepts it, and a receive with the earliest such message (non-overtaking).  [wild_match] and
    [pend_match] below implement exactly this rule; [pend_older] records the posting order of the two
    receives.  Because the rule is deterministic given the order of posts and sends it may be evaluated
    lazily, at the time of the test() that reports the completion.

    Things the state does not represent set the sticky flag [err] instead of being ignored:
      - order_worker for a worker whose previous completion receive is still active (the request
        object in wait_statuses[] would be overwritten while active, leaving an untested posted receive),
      - constructing the next round's master while a completion receive is still active.
    DispatchProofs.v proves that [err] is never set.                                                  *)
Require Import List Arith Bool PeanoNat.
Import ListNotations.

Definition job := nat.   (* pMPI::JobId    hpp:17 *)
Definition wid := nat.   (* pMPI::WorkerId hpp:18; also used for ranks of the communicator *)

(** MPIWorker::Status together with current_job_ (hpp:36-38; enum WorkerTag hpp:16). *)
Inductive wstat := Pending | Work (j : job) | Finish.

(** Messages: tag Work with the job id as payload (cpp:130), tag Finish without payload (cpp:158),
    tag Pending without payload (cpp:45). *)
Inductive msg := MWork (j : job) | MFinish | MPend.

(** A configuration: communicator size and the include_boss flag of the MPIMaster constructor (hpp:59). *)
Record cfg := mkcfg { np : nat; ib : bool }.

(** _autorange_workers (cpp:82-93), called on rank 0. *)
Definition pool (c : cfg) : list wid := if ib c then seq 0 (np c) else seq 1 (np c - 1).
Definition ranks (c : cfg) : list wid := seq 0 (np c).
Definition nprocs (c : cfg) : nat := length (pool c).          (* MPIMaster::Nprocs *)
(** rank r runs an MPIWorker in its dispatch loop *)
Definition is_worker (c : cfg) (r : wid) : bool := (r <? np c) && (ib c || negb (r =? 0)).
(** cpp:86: "No workers to evaluate" is thrown otherwise *)
Definition valid_cfg (c : cfg) : bool := negb (nprocs c =? 0).

Definition upd {A : Type} (f : nat -> A) (k : nat) (v : A) : nat -> A :=
  fun x => if x =? k then v else f x.

Record sys := mksys {
  (* --- MPIMaster on rank 0 (hpp:41-68) --- *)
  jobstack : list job;          (* JobStack, head = top *)
  wstack : list wid;            (* WorkerStack, head = top *)
  outst : wid -> bool;          (* wait_statuses[WorkerIndices[w]] is an active (not yet reported) irecv *)
  wfin : wid -> bool;           (* workers_finish[WorkerIndices[w]] *)
  dmap : job -> option wid;     (* DispatchMap *)
  alljobs : list job;           (* task_numbers *)
  (* --- MPIWorker on every worker rank (hpp:20-39) --- *)
  wst : wid -> wstat;
  (* --- MPI --- *)
  chan : wid -> list msg;       (* link rank 0 <-> rank w: messages sent and not yet received, oldest first *)
  pend_older : wid -> bool;     (* the master's active Pending-receive for w was posted before w's current wildcard receive *)
  (* --- control / ghost --- *)
  exited : wid -> bool;         (* rank has left the dispatch loop of this round *)
  log : list (job * wid);       (* ghost: (job, rank that ran it), newest first *)
  err : bool;                   (* see header *)
  round : nat
}.

Inductive event :=
| EOrder (l : list (job * wid))
| ECheck (seen : list wid) (fins : list wid)
| ERecv (w : wid) (m : msg)
| ERun (w : wid) (j : job)
| EExit (r : wid)
| EIdle (r : wid)
| ENewRound (js : list job).

Definition stutter (e : event) : bool := match e with EIdle _ => true | _ => false end.
Definition is_newround (e : event) : bool := match e with ENewRound _ => true | _ => false end.

(** ** Master: order() *)

(** MPIMaster::order_worker, cpp:128-134: send(worker, Work, job); DispatchMap[job] = worker;
    wait_statuses[...] = irecv(worker, Pending).  The wildcard receive of the worker (if any) is older
    than the receive posted here. *)
Definition order_worker (w : wid) (j : job) (s : sys) : sys :=
  mksys (jobstack s) (wstack s) (upd (outst s) w true) (wfin s) (upd (dmap s) j (Some w)) (alljobs s)
        (wst s) (upd (chan s) w (chan s w ++ [MWork j])) (upd (pend_older s) w false)
        (exited s) (log s) (err s || outst s w) (round s).

Definition set_stacks (js : list job) (ws : list wid) (s : sys) : sys :=
  mksys js ws (outst s) (wfin s) (dmap s) (alljobs s) (wst s) (chan s) (pend_older s)
        (exited s) (log s) (err s) (round s).

(** MPIMaster::order, cpp:136-145: while both stacks are non-empty, dispatch top job to top worker, pop both. *)
Fixpoint order_loop (js : list job) (ws : list wid) (s : sys) : sys :=
  match js, ws with
  | j :: js', w :: ws' => order_loop js' ws' (order_worker w j (set_stacks js' ws' s))
  | _, _ => s
  end.
Definition do_order (s : sys) : sys := order_loop (jobstack s) (wstack s) s.
(** the pairs one call of order() dispatches, in order *)
Definition order_pairs (s : sys) : list (job * wid) := combine (jobstack s) (wstack s).

(** ** MPI matching on one link *)

Definition is_pend (m : msg) : bool := match m with MPend => true | _ => false end.
Definition not_pend (m : msg) : bool := negb (is_pend m).

(** first message satisfying p, and the queue without it *)
Fixpoint take_first (p : msg -> bool) (l : list msg) : option (msg * list msg) :=
  match l with
  | [] => None
  | m :: l' => if p m then Some (m, l')
               else match take_first p l' with Some (x, r) => Some (x, m :: r) | None => None end
  end.

(** both endpoints of link w are rank 0 *)
Definition shared (w : wid) : bool := w =? 0.
(** the worker's wildcard receive is posted from construction (cpp:17), re-posted after every
    completion (cpp:38) and cancelled when Finish was received (cpp:39) *)
Definition wildcard_posted (s : sys) (w : wid) : bool := match wst s w with Finish => false | _ => true end.

(** The message the worker's irecv(boss, MPI_ANY_TAG) (cpp:17,38) is matched with, and the link afterwards. *)
Definition wild_match (s : sys) (w : wid) : option (msg * list msg) :=
  if shared w then
    if outst s w && pend_older s w then
      (* the master's older receive takes the first Pending message; the wildcard gets the first of the others *)
      match chan s w with
      | MPend :: m :: l => Some (m, MPend :: l)
      | MPend :: [] => None
      | m :: l => Some (m, l)
      | [] => None
      end
    else (* the wildcard is the oldest posted receive that accepts anything: first message *)
      match chan s w with m :: l => Some (m, l) | [] => None end
  else take_first not_pend (chan s w).   (* distinct ranks: only what was sent to the worker *)

(** The link after the master's active irecv(w, Pending) (cpp:133) has completed; None = cannot complete yet. *)
Definition pend_match (s : sys) (w : wid) : option (list msg) :=
  if shared w && negb (pend_older s w) && wildcard_posted s w then
    (* the worker's older wildcard takes the first message whatever its tag *)
    match chan s w with
    | m :: l => match take_first is_pend l with Some (_, r) => Some (m :: r) | None => None end
    | [] => None
    end
  else match take_first is_pend (chan s w) with Some (_, r) => Some r | None => None end.

(** ** Master: check_workers() *)

(** cpp:150-151: wait_statuses[i].test() reports the completion: push the worker.  With Boost 1.83,
    test() on a request that is null or was already reported returns an empty optional
    (boost/mpi/request.hpp:107), hence the [outst] test. *)
Definition see (w : wid) (s : sys) : option sys :=
  if outst s w then
    match pend_match s w with
    | Some l => Some (mksys (jobstack s) (w :: wstack s) (upd (outst s) w false) (wfin s) (dmap s) (alljobs s)
                            (wst s) (upd (chan s) w l) (pend_older s) (exited s) (log s) (err s) (round s))
    | None => None
    end
  else None.

(** cpp:149-153, the for loop over the pool; [seen] is the subsequence of workers whose test() succeeded. *)
Fixpoint check_loop (ws : list wid) (seen : list wid) (s : sys) : option sys :=
  match ws with
  | [] => match seen with [] => Some s | _ => None end
  | w :: ws' =>
    match seen with
    | [] => Some s
    | w' :: seen' =>
      if w =? w' then match see w s with Some s' => check_loop ws' seen' s' | None => None end
      else check_loop ws' seen s
    end
  end.

(** cpp:154 *)
Definition finish_cond (c : cfg) (s : sys) : bool :=
  match jobstack s with [] => nprocs c <=? length (wstack s) | _ => false end.
(** cpp:155-156 *)
Definition finish_targets (c : cfg) (s : sys) : list wid :=
  if finish_cond c s then filter (fun w => negb (wfin s w)) (pool c) else [].
(** cpp:158-159 *)
Definition send_finish (w : wid) (s : sys) : sys :=
  mksys (jobstack s) (wstack s) (outst s) (upd (wfin s) w true) (dmap s) (alljobs s)
        (wst s) (upd (chan s) w (chan s w ++ [MFinish])) (pend_older s) (exited s) (log s) (err s) (round s).
Definition finish_all (l : list wid) (s : sys) : sys := fold_left (fun s w => send_finish w s) l s.

(** ** Worker *)

(** cpp:37: Status = WorkerTag(status.tag()); the payload of a Work message lands in current_job_ *)
Definition status_of (m : msg) : wstat :=
  match m with MWork j => Work j | MFinish => Finish | MPend => Pending end.

(** receive_order with a successful test(), cpp:36-40: new status, wildcard re-posted (now younger than any
    active receive of the master on this link), cancelled at once if finished. *)
Definition do_recv (w : wid) (m : msg) (l : list msg) (s : sys) : sys :=
  mksys (jobstack s) (wstack s) (outst s) (wfin s) (dmap s) (alljobs s)
        (upd (wst s) w (status_of m)) (upd (chan s) w l) (upd (pend_older s) w true)
        (exited s) (log s) (err s) (round s).

(** mpi_skel.hpp:75-76 and cpp:43-47: run the job, send(boss, Pending), Status = Pending *)
Definition do_run (w : wid) (j : job) (s : sys) : sys :=
  mksys (jobstack s) (wstack s) (outst s) (wfin s) (dmap s) (alljobs s)
        (upd (wst s) w Pending) (upd (chan s) w (chan s w ++ [MPend])) (pend_older s)
        (exited s) ((j, w) :: log s) (err s) (round s).

(** loop condition false: worker.is_finished() (cpp:22-25) on ranks that run a worker (mpi_skel.hpp:68),
    master.is_finished() (cpp:62-66) on a root that runs only the master *)
Definition loop_done (c : cfg) (s : sys) (r : wid) : bool :=
  if is_worker c r then match wst s r with Finish => true | _ => false end
  else forallb (wfin s) (pool c).

Definition do_exit (r : wid) (s : sys) : sys :=
  mksys (jobstack s) (wstack s) (outst s) (wfin s) (dmap s) (alljobs s)
        (wst s) (chan s) (pend_older s) (upd (exited s) r true) (log s) (err s) (round s).

(** ** Rounds *)

(** New MPIMaster (cpp:104-112 + fill_stack_ cpp:53-60: both stacks filled so that the first element is on
    top) and new MPIWorkers (cpp:13-20) on a communicator whose MPI state is [ch]. *)
Definition fresh (c : cfg) (js : list job) (ch : wid -> list msg) (e : bool) (rd : nat) : sys :=
  mksys js (pool c) (fun _ => false) (fun _ => false) (fun _ => None) js
        (fun _ => Pending) ch (fun _ => false) (fun _ => false) [] e rd.

Definition init (c : cfg) (js : list job) : sys := fresh c js (fun _ => []) false 0.

(** the next round on the same communicator: whatever is still in flight stays in flight *)
Definition restart (c : cfg) (s : sys) (js : list job) : sys :=
  fresh c js (chan s) (err s || existsb (outst s) (pool c)) (S (round s)).

(** ** The step function *)

Fixpoint nodupb (l : list nat) : bool :=
  match l with [] => true | x :: l' => negb (existsb (Nat.eqb x) l') && nodupb l' end.

Fixpoint list_eqb (a b : list nat) : bool :=
  match a, b with
  | [], [] => true
  | x :: a', y :: b' => (x =? y) && list_eqb a' b'
  | _, _ => false
  end.

Fixpoint pairs_eqb (a b : list (nat * nat)) : bool :=
  match a, b with
  | [], [] => true
  | (x1, x2) :: a', (y1, y2) :: b' => (x1 =? y1) && (x2 =? y2) && pairs_eqb a' b'
  | _, _ => false
  end.

Definition msg_eqb (a b : msg) : bool :=
  match a, b with
  | MWork i, MWork j => i =? j
  | MFinish, MFinish => true
  | MPend, MPend => true
  | _, _ => false
  end.

Definition step (c : cfg) (s : sys) (e : event) : option sys :=
  match e with
  | EOrder l =>
    if exited s 0 then None else
    match l with
    | [] => None
    | _ => if pairs_eqb l (order_pairs s) then Some (do_order s) else None
    end
  | ECheck seen fins =>
    if exited s 0 then None else
    if match seen, fins with [], [] => true | _, _ => false end then None else
    match check_loop (pool c) seen s with
    | Some s1 => if list_eqb fins (finish_targets c s1) then Some (finish_all fins s1) else None
    | None => None
    end
  | ERecv w m =>
    if is_worker c w && negb (exited s w) then
      match wst s w with
      | Pending =>                      (* cpp:34 *)
        match wild_match s w with
        | Some (m', l) => if msg_eqb m m' then Some (do_recv w m l s) else None
        | None => None
        end
      | _ => None
      end
    else None
  | ERun w j =>
    if is_worker c w && negb (exited s w) then
      match wst s w with
      | Work j' => if j =? j' then Some (do_run w j s) else None      (* mpi_skel.hpp:71-72 *)
      | _ => None
      end
    else None
  | EExit r =>
    if (r <? np c) && negb (exited s r) && loop_done c s r then Some (do_exit r s) else None
  | EIdle r =>
    if (r <? np c) && negb (exited s r) then Some s else None
  | ENewRound js =>
    if forallb (exited s) (ranks c) && nodupb js then Some (restart c s js) else None
  end.

Definition enabled (c : cfg) (s : sys) (e : event) : bool :=
  match step c s e with Some _ => true | None => false end.

Fixpoint run (c : cfg) (s : sys) (t : list event) : option sys :=
  match t with
  | [] => Some s
  | e :: t' => match step c s e with Some s' => run c s' t' | None => None end
  end.

(** all ranks have left the loop *)
Definition finalb (c : cfg) (s : sys) : bool := forallb (exited s) (ranks c).

(** ** Executable end-of-round check (used by the replay driver; proved to hold in DispatchProofs) *)

Fixpoint cnt (j : nat) (l : list nat) : nat :=
  match l with [] => 0 | x :: l' => (if x =? j then 1 else 0) + cnt j l' end.

Definition opt_is (o : option nat) (w : nat) : bool := match o with Some x => x =? w | None => false end.

Definition final_okb (c : cfg) (s : sys) : bool :=
  finalb c s
  && forallb (fun w => match chan s w with [] => true | _ => false end) (ranks c)
  && negb (existsb (outst s) (pool c))
  && negb (err s)
  && match jobstack s with [] => true | _ => false end
  && forallb (fun j => cnt j (map fst (log s)) =? 1) (alljobs s)
  && (length (log s) =? length (alljobs s))
  && forallb (fun jw => opt_is (dmap s (fst jw)) (snd jw)) (log s)
  && forallb (fun w => match wst s w with Finish => true | _ => false end) (pool c)
  && forallb (wfin s) (pool c).

(** ** Enumeration of the enabled non-stuttering events (for exhaustive exploration of small configurations) *)

Fixpoint sublists {A} (l : list A) : list (list A) :=
  match l with
  | [] => [[]]
  | x :: l' => let r := sublists l' in map (cons x) r ++ r
  end.

Definition reportable (s : sys) (w : wid) : bool :=
  outst s w && match pend_match s w with Some _ => true | None => false end.

Definition candidates (c : cfg) (s : sys) : list event :=
  let ord := match order_pairs s with [] => [] | l => [EOrder l] end in
  let chk := flat_map (fun seen =>
                 match check_loop (pool c) seen s with
                 | Some s1 => [ECheck seen (finish_targets c s1)]
                 | None => []
                 end) (sublists (filter (reportable s) (pool c))) in
  let wk := flat_map (fun w =>
                 (match wild_match s w with Some (m, _) => [ERecv w m] | None => [] end)
                 ++ (match wst s w with Work j => [ERun w j] | _ => [] end)) (pool c) in
  let ex := map EExit (ranks c) in
  filter (enabled c s) (ord ++ chk ++ wk ++ ex).
