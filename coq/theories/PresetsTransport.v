(** PresetsTransport.v -- C04: an operator identity verified by the model's own normal-ordering routine on
    concrete mode numbers 0..k-1 (by computation over the integers) holds, as an identity of Jordan-Wigner
    matrices over any commutative ring, for EVERY assignment of k pairwise different modes of an M-mode Fock
    space -- whatever their relative order in the index space.

    Why: the algorithm only ever uses three rewriting rules on operator strings (two equal neighbours = 0; swap of
    two operators on different modes with a sign; contraction c_i c^+_i = 1 - c^+_i c_i), and each of them is
    valid for the Jordan-Wigner matrices of any modes that are different when the concrete ones are different
    (PV.CAR).  [nai_sound_abs] is PV.NormalizeProofs.nai_sound re-proved for an abstract evaluation [sem] of
    operator strings that satisfies the three rules, with the coefficients of the algorithm (integers) mapped into
    the ring by the canonical morphism.

    Used for the SU(2) theorems of PresetsProofs.v: the pair identities [h_pair, S^+_a + S^+_b] = 0 are computed
    once on modes 0..3 and transported to the modes (a up, a down, b up, b down) of arbitrary orbitals a <> b. *)
Require Import Bool List Arith Lia ZArith Ring Ring_theory InitialRing.
From PV Require Import Outcome Fock Poly PolySem CAR AlgebraBasics AlgebraProofs NormalizeProofs PresetsSpec PresetsBasics.
Import ListNotations.

Local Open Scope nat_scope.

Definition zz (c : Z) : bool := Z.eqb c 0.
Definition zpoly := poly Z.
Definition z_insert := Poly.insert Z Z.add zz.
Definition z_nai := Poly.normalize_and_insert Z Z.add Z.opp zz.
Definition z_normalize := Poly.normalize Z Z.add Z.opp zz.

(** normal form of a formal integer combination of operator strings *)
Definition znorm (P : list (monomial * Z)) : outcome zpoly :=
  fold_left (fun acc mc => bind acc (z_normalize (fst mc) (snd mc))) P (Done []).

(** formal commutator A B - B A of two formal combinations *)
Definition zprod (A B : list (monomial * Z)) : list (monomial * Z) :=
  flat_map (fun a => map (fun b => (fst a ++ fst b, (snd a * snd b)%Z)) B) A.
Definition zneg (A : list (monomial * Z)) : list (monomial * Z) := map (fun a => (fst a, (- snd a)%Z)) A.
Definition zcomm (A B : list (monomial * Z)) : list (monomial * Z) := zprod A B ++ zneg (zprod B A).

Definition relabel (f : nat -> nat) (o : op) : op := (fst o, f (snd o)).
Definition zrange (k : nat) (P : list (monomial * Z)) : Prop := Forall (fun mc => mono_in_range k (fst mc)) P.

Section Abs.
Variable K : Type.
Variables (k0 k1 : K) (kadd kmul ksub : K -> K -> K) (kopp : K -> K).
Variable kzero : K -> bool.
Hypothesis Hring : ring_ok K k0 k1 kadd kmul ksub kopp kzero.
Let Rth : ring_theory k0 k1 kadd kmul ksub kopp (@eq K) := proj1 Hring.
Add Ring Kring_PT : Rth.

Definition phi : Z -> K := gen_phiZ k0 k1 kadd kmul kopp.
Let phiM := gen_phiZ_morph (Eqsth K) (Eq_ext kadd kmul kopp) Rth.

Lemma phi0 : phi 0%Z = k0. Proof. exact (morph0 phiM). Qed.
Lemma phi1 : phi 1%Z = k1. Proof. exact (morph1 phiM). Qed.
Lemma phi_add : forall a b, phi (a + b)%Z = kadd (phi a) (phi b). Proof. exact (morph_add phiM). Qed.
Lemma phi_mul : forall a b, phi (a * b)%Z = kmul (phi a) (phi b). Proof. exact (morph_mul phiM). Qed.
Lemma phi_opp : forall a, phi (- a)%Z = kopp (phi a). Proof. exact (morph_opp phiM). Qed.

Variable sem : monomial -> K.
Variable R : nat -> Prop.
Hypothesis sem_twice : forall o A B, R (op_idx o) -> sem (A ++ o :: o :: B) = k0.
Hypothesis sem_swap : forall a b A B, op_idx a <> op_idx b -> R (op_idx a) -> R (op_idx b) ->
  sem (A ++ a :: b :: B) = kopp (sem (A ++ b :: a :: B)).
Hypothesis sem_car : forall i A B, R i ->
  sem (A ++ cann i :: cdag i :: B) = ksub (sem (A ++ B)) (sem (A ++ cdag i :: cann i :: B)).

Definition mono_R (m : monomial) : Prop := Forall (fun o => R (op_idx o)) m.
Definition zsem (p : list (monomial * Z)) : K :=
  fold_right (fun mc acc => kadd (kmul (phi (snd mc)) (sem (fst mc))) acc) k0 p.

Lemma zsem_cons : forall m c p, zsem ((m, c) :: p) = kadd (kmul (phi c) (sem m)) (zsem p).
Proof. reflexivity. Qed.
Lemma zsem_app : forall p q, zsem (p ++ q) = kadd (zsem p) (zsem q).
Proof.
  induction p as [|[m c] p IH]; intros q; cbn [app].
  - cbn. ring.
  - rewrite !zsem_cons, IH. ring.
Qed.

Lemma zinsert_sound : forall m c p, zsem (z_insert m c p) = kadd (zsem p) (kmul (phi c) (sem m)).
Proof.
  intros m c p. unfold z_insert. induction p as [|[m' c'] p IH]; cbn [Poly.insert].
  - rewrite zsem_cons. cbn. ring.
  - destruct (mono_compare m m') eqn:E.
    + apply NormalizeProofs.mono_compare_eq in E. subst m'.
      destruct (zz (c' + c)%Z) eqn:Z.
      * unfold zz in Z. apply Z.eqb_eq in Z. rewrite zsem_cons.
        transitivity (kadd (zsem p) (kmul (phi (c' + c)%Z) (sem m))); [rewrite Z, phi0; ring|].
        rewrite phi_add. ring.
      * rewrite !zsem_cons, phi_add. ring.
    + rewrite !zsem_cons. ring.
    + rewrite zsem_cons, IH, zsem_cons. ring.
Qed.

Local Arguments PassVanish {K} tgt.
Local Arguments PassEnd {K} m c tgt swapped.
Local Arguments PassFail {K} e.
Local Notation pass := (Poly.pass Z Z.opp).

Lemma mono_R_app : forall a b, mono_R (a ++ b) <-> mono_R a /\ mono_R b.
Proof. intros a b. unfold mono_R. apply Forall_app. Qed.
Lemma mono_R_cons : forall o m, mono_R (o :: m) <-> R (op_idx o) /\ mono_R m.
Proof. intros o m. unfold mono_R. split; [intro H; inversion H; auto|intros [H1 H2]; constructor; assumption]. Qed.

Lemma zpass_sound : forall rec,
  (forall m c tgt tgt', mono_R m -> rec m c tgt = Done tgt' ->
     zsem tgt' = kadd (zsem tgt) (kmul (phi c) (sem m))) ->
  forall rest d p c tgt sw,
  mono_R (rev d ++ p :: rest) ->
  match pass rec d p rest c tgt sw with
  | PassVanish tgt' => zsem tgt' = kadd (zsem tgt) (kmul (phi c) (sem (rev d ++ p :: rest)))
  | PassEnd m' c' tgt' _ =>
      mono_R m' /\
      kadd (zsem tgt') (kmul (phi c') (sem m')) = kadd (zsem tgt) (kmul (phi c) (sem (rev d ++ p :: rest)))
  | PassFail _ => True
  end.
Proof.
  intros rec Hrec. induction rest as [|cur rest IH]; intros d p c tgt sw Hr.
  - rewrite (pass_nil Z Z.opp). cbn [rev]. split; [exact Hr|reflexivity].
  - rewrite (pass_cons Z Z.opp).
    pose proof Hr as Hr0.
    apply mono_R_app in Hr0. destruct Hr0 as [Hrd Hr0].
    apply mono_R_cons in Hr0. destruct Hr0 as [Hp Hr0].
    apply mono_R_cons in Hr0. destruct Hr0 as [Hcur Hrest].
    assert (Hsw : mono_R (rev d ++ cur :: p :: rest)).
    { apply mono_R_app. split; [exact Hrd|]. apply mono_R_cons. split; [exact Hcur|].
      apply mono_R_cons. split; assumption. }
    assert (Hdrop : mono_R (rev d ++ rest)).
    { apply mono_R_app. split; assumption. }
    destruct (op_eqb p cur) eqn:Eeq.
    { apply op_eqb_true in Eeq. subst cur. rewrite sem_twice by exact Hp. ring. }
    destruct (op_gtb p cur) eqn:Egt.
    + destruct (op_eqb p (flip_type cur)) eqn:Efl.
      * destruct (op_gt_flip p cur Egt Efl) as [Ep Ec].
        assert (Hi : R (op_idx cur)) by exact Hcur.
        remember (op_idx cur) as i eqn:Ei. clear Ei. subst p cur.
        destruct (rec (rev d ++ rest) c tgt) as [tgt1| | | |] eqn:Er; try exact I.
        pose proof (Hrec _ _ _ _ Hdrop Er) as H1.
        specialize (IH (cdag i :: d) (cann i) (Z.opp c) tgt1 true).
        cbn [rev] in IH. rewrite <- app_assoc in IH. cbn [app] in IH.
        specialize (IH Hsw).
        pose proof (sem_car i (rev d) rest Hi) as Hcar.
        destruct (pass rec (cdag i :: d) (cann i) rest (Z.opp c) tgt1 true) as [tgt2|m' c' tgt2 sw'|e].
        -- rewrite IH, H1, Hcar, phi_opp. ring.
        -- destruct IH as [IHr IHe]. split; [exact IHr|]. rewrite IHe, H1, Hcar, phi_opp. ring.
        -- exact I.
      * pose proof (op_neq_noflip_idx p cur Eeq Efl) as Hidx.
        specialize (IH (cur :: d) p (Z.opp c) tgt true).
        cbn [rev] in IH. rewrite <- app_assoc in IH. cbn [app] in IH.
        specialize (IH Hsw).
        pose proof (sem_swap p cur (rev d) rest Hidx Hp Hcur) as Hswap.
        destruct (pass rec (cur :: d) p rest (Z.opp c) tgt true) as [tgt2|m' c' tgt2 sw'|e].
        -- rewrite IH, Hswap, phi_opp. ring.
        -- destruct IH as [IHr IHe]. split; [exact IHr|]. rewrite IHe, Hswap, phi_opp. ring.
        -- exact I.
    + specialize (IH (p :: d) cur c tgt sw).
      cbn [rev] in IH. rewrite <- app_assoc in IH. cbn [app] in IH.
      exact (IH Hr).
Qed.

Lemma nai_sound_abs : forall f m c tgt tgt',
  mono_R m -> z_nai f m c tgt = Done tgt' ->
  zsem tgt' = kadd (zsem tgt) (kmul (phi c) (sem m)).
Proof.
  unfold z_nai.
  induction f as [|f IHf]; intros m c tgt tgt' Hr H; [rewrite (nai_O Z Z.add Z.opp zz) in H; discriminate|].
  rewrite (nai_S Z Z.add Z.opp zz) in H.
  assert (Hshort : Done (Poly.insert Z Z.add zz m c tgt) = Done tgt' ->
                   zsem tgt' = kadd (zsem tgt) (kmul (phi c) (sem m))).
  { intro HH. inversion HH; subst. apply zinsert_sound. }
  destruct m as [|first [|x r]]; [exact (Hshort H) | exact (Hshort H) |].
  clear Hshort.
  assert (Hrec : forall m c tgt tgt', mono_R m ->
     Poly.normalize_and_insert Z Z.add Z.opp zz f m c tgt = Done tgt' ->
     zsem tgt' = kadd (zsem tgt) (kmul (phi c) (sem m))).
  { intros m0 c0 tgt0 tgt0' Hr0 H0. eapply IHf; eauto. }
  pose proof (zpass_sound (Poly.normalize_and_insert Z Z.add Z.opp zz f) Hrec (x :: r) [] first c tgt false) as HP.
  cbn [rev app] in HP. specialize (HP Hr).
  pose proof (pass_fail_not_done Z Z.opp (Poly.normalize_and_insert Z Z.add Z.opp zz f) (x :: r) [] first c tgt false) as HF.
  destruct (pass (Poly.normalize_and_insert Z Z.add Z.opp zz f) [] first (x :: r) c tgt false) as [tgt1|m' c' tgt1 [|]|e].
  - inversion H; subst. exact HP.
  - destruct HP as [Hr1 He]. rewrite <- He. eapply IHf; eauto.
  - destruct HP as [Hr1 He]. inversion H; subst. rewrite <- He. apply zinsert_sound.
  - exfalso. eapply HF; [reflexivity|exact H].
Qed.

Lemma znorm_sound_gen : forall P acc r, Forall (fun mc => mono_R (fst mc)) P ->
  fold_left (fun acc mc => bind acc (z_normalize (fst mc) (snd mc))) P (Done acc) = Done r ->
  zsem r = kadd (zsem acc) (zsem P).
Proof.
  induction P as [|[m c] P IH]; intros acc r HR H; cbn [fold_left] in H.
  - inversion H; subst. cbn. ring.
  - inversion HR as [|x l Hm HR']; subst. cbn [fst snd bind] in H.
    destruct (z_normalize m c acc) as [acc'| | | |] eqn:E.
    + rewrite (IH acc' r HR' H). unfold z_normalize, Poly.normalize in E.
      rewrite (nai_sound_abs _ m c acc acc' Hm E). rewrite zsem_cons. ring.
    + exfalso. clear -H. induction P as [|y P IHP]; cbn [fold_left bind] in H; [discriminate|auto].
    + exfalso. clear -H. induction P as [|y P IHP]; cbn [fold_left bind] in H; [discriminate|auto].
    + exfalso. clear -H. induction P as [|y P IHP]; cbn [fold_left bind] in H; [discriminate|auto].
    + exfalso. clear -H. induction P as [|y P IHP]; cbn [fold_left bind] in H; [discriminate|auto].
Qed.

Theorem znorm_zero : forall P, Forall (fun mc => mono_R (fst mc)) P -> znorm P = Done [] -> zsem P = k0.
Proof.
  intros P HR H. unfold znorm in H. pose proof (znorm_sound_gen P [] [] HR H) as E. cbn in E.
  transitivity (kadd k0 (zsem P)); [ring|]. symmetry. exact E.
Qed.

End Abs.

(** * Instance: Jordan-Wigner matrices of relabelled operator strings *)
Section Inst.
Variable K : Type.
Variables (k0 k1 : K) (kadd kmul ksub : K -> K -> K) (kopp : K -> K).
Variable kzero : K -> bool.
Hypothesis Hring : ring_ok K k0 k1 kadd kmul ksub kopp kzero.
Let Rth : ring_theory k0 k1 kadd kmul ksub kopp (@eq K) := proj1 Hring.
Add Ring Kring_PT2 : Rth.
Variable M : nat.

Local Notation cm := (coef_mono K k0 k1 kopp).
Local Notation ksum := (@PolySem.ksum K k0 kadd _).
Local Notation mat := (PresetsSpec.mat K).
Local Notation m_zero := (PresetsSpec.m_zero K k0).
Local Notation m_add := (PresetsSpec.m_add K kadd).
Local Notation m_sub := (PresetsSpec.m_sub K ksub).
Local Notation m_scale := (PresetsSpec.m_scale K kmul).
Local Notation m_mul := (PresetsSpec.m_mul K k0 kadd kmul M).
Local Notation m_comm := (PresetsSpec.m_comm K k0 kadd kmul ksub M).
Local Notation meq := (PresetsSpec.meq K M).
Local Notation phi := (phi K k0 k1 kadd kmul kopp).

(** the matrix of a formal integer combination under the assignment i |-> nth i modes *)
Definition zmat (modes : list nat) (P : list (monomial * Z)) : mat :=
  fun s t => fold_right (fun mc acc => kadd (kmul (phi (snd mc)) (cm (map (relabel (fun i => nth i modes 0)) (fst mc)) s t)) acc) k0 P.

Lemma relabel_idx : forall f o, op_idx (relabel f o) = f (op_idx o).
Proof. intros f [a i]. reflexivity. Qed.

Lemma NoDup_nth_inj : forall (l : list nat) i j, NoDup l -> i < length l -> j < length l ->
  nth i l 0 = nth j l 0 -> i = j.
Proof. intros l i j H Hi Hj E. apply (proj1 (NoDup_nth l 0) H i j Hi Hj E). Qed.

Theorem transport : forall (modes : list nat) (P : list (monomial * Z)),
  NoDup modes -> Forall (fun i => i < M) modes -> zrange (length modes) P ->
  znorm P = Done [] -> meq (zmat modes P) m_zero.
Proof.
  intros modes P ND HM HP HN s t Hs _. unfold PresetsSpec.m_zero.
  set (f := fun i => nth i modes 0).
  assert (Hf : forall i, i < length modes -> f i < M).
  { intros i Hi. unfold f. rewrite Forall_forall in HM. apply HM. apply nth_In. exact Hi. }
  change (zmat modes P s t) with
    (zsem K k0 k1 kadd kmul kopp (fun m => cm (map (relabel f) m) s t) P).
  apply (znorm_zero K k0 k1 kadd kmul ksub kopp kzero Hring (fun m => cm (map (relabel f) m) s t)
           (fun i => i < length modes)).
  - intros o A B Ho. rewrite map_app. cbn [map].
    apply (coef_mono_same_twice Hring). rewrite relabel_idx, Hs. apply Hf. exact Ho.
  - intros a b A B Hab Ha Hb. rewrite !map_app. cbn [map].
    apply (coef_mono_swap Hring); rewrite ?relabel_idx, ?Hs; try (apply Hf; assumption).
    intro E. apply Hab. eapply NoDup_nth_inj; eassumption.
  - intros i A B Hi. rewrite !map_app. cbn [map].
    change (relabel f (cann i)) with (cann (f i)). change (relabel f (cdag i)) with (cdag (f i)).
    apply (coef_mono_car Hring). rewrite Hs. apply Hf. exact Hi.
  - exact HP.
  - exact HN.
Qed.

(** ** matrices of formal combinations: sums, products, commutators *)
Lemma zmat_nil : forall modes s t, zmat modes [] s t = k0.
Proof. reflexivity. Qed.
Lemma zmat_cons : forall modes m c P s t,
  zmat modes ((m, c) :: P) s t =
  kadd (kmul (phi c) (cm (map (relabel (fun i => nth i modes 0)) m) s t)) (zmat modes P s t).
Proof. reflexivity. Qed.
Lemma zmat_app : forall modes P Q, meq (zmat modes (P ++ Q)) (m_add (zmat modes P) (zmat modes Q)).
Proof.
  intros modes P Q s t _ _. unfold PresetsSpec.m_add. induction P as [|[m c] P IH]; cbn [app].
  - rewrite zmat_nil. ring.
  - rewrite !zmat_cons, IH. ring.
Qed.
Lemma zmat_neg : forall modes P, meq (zmat modes (zneg P)) (m_scale (kopp k1) (zmat modes P)).
Proof.
  intros modes P s t _ _. unfold PresetsSpec.m_scale, zneg. induction P as [|[m c] P IH]; cbn [map].
  - rewrite zmat_nil. ring.
  - cbn [fst snd]. rewrite !zmat_cons, IH, (phi_opp K k0 k1 kadd kmul ksub kopp kzero Hring). ring.
Qed.

Lemma zmat_prod : forall modes A B, meq (m_mul (zmat modes A) (zmat modes B)) (zmat modes (zprod A B)).
Proof.
  intros modes A B. unfold zprod. induction A as [|[m c] A IH]; cbn [flat_map].
  - intros s t _ _. rewrite zmat_nil. unfold PresetsSpec.m_mul.
    apply (AlgebraBasics.ksum_zero_ext K k0 k1 kadd kmul ksub kopp kzero Hring). intros u _. rewrite zmat_nil. ring.
  - eapply meq_trans; [|apply meq_sym, zmat_app].
    assert (E : meq (zmat modes ((m, c) :: A)) (m_add (zmat modes [(m, c)]) (zmat modes A))).
    { apply (zmat_app modes [(m, c)] A). }
    eapply meq_trans; [apply meq_mul; [exact E|apply meq_refl]|].
    eapply meq_trans; [eapply m_mul_add_l; exact Hring|]. apply meq_add; [|exact IH].
    clear IH E. cbn [fst snd]. induction B as [|[n d] B IHB]; cbn [map].
    + intros s t _ _. rewrite zmat_nil. unfold PresetsSpec.m_mul.
      apply (AlgebraBasics.ksum_zero_ext K k0 k1 kadd kmul ksub kopp kzero Hring). intros u _. rewrite zmat_nil. ring.
    + assert (E : meq (zmat modes ((n, d) :: B)) (m_add (zmat modes [(n, d)]) (zmat modes B))).
      { apply (zmat_app modes [(n, d)] B). }
      eapply meq_trans; [apply meq_mul; [apply meq_refl|exact E]|].
      eapply meq_trans; [eapply m_mul_add_r; exact Hring|].
      eapply meq_trans; [|apply meq_sym; apply (zmat_app modes [(m ++ n, (c * d)%Z)] _)].
      apply meq_add; [|exact IHB]. cbn [fst snd].
      intros s t Hs Ht. unfold PresetsSpec.m_mul. rewrite zmat_cons, zmat_nil.
      rewrite map_app.
      rewrite (AlgebraBasics.coef_mono_app K k0 k1 kadd kmul ksub kopp kzero Hring M _ _ s t Hs).
      rewrite (phi_mul K k0 k1 kadd kmul ksub kopp kzero Hring).
      transitivity (ksum (all_states M) (fun u => kmul (kmul (phi c) (phi d))
         (kmul (cm (map (relabel (fun i => nth i modes 0)) m) u t) (cm (map (relabel (fun i => nth i modes 0)) n) s u)))).
      * apply (AlgebraBasics.ksum_ext K k0 kadd). intros u _. rewrite !zmat_cons, !zmat_nil. ring.
      * rewrite (AlgebraBasics.ksum_scale_l K k0 k1 kadd kmul ksub kopp kzero Hring). ring.
Qed.

Lemma zmat_comm : forall modes A B, meq (m_comm (zmat modes A) (zmat modes B)) (zmat modes (zcomm A B)).
Proof.
  intros modes A B. unfold PresetsSpec.m_comm, zcomm.
  eapply meq_trans; [|apply meq_sym, zmat_app].
  intros s t Hs Ht. unfold PresetsSpec.m_sub, PresetsSpec.m_add.
  rewrite (zmat_prod modes A B s t Hs Ht), (zmat_neg modes (zprod B A) s t Hs Ht).
  unfold PresetsSpec.m_scale. rewrite <- (zmat_prod modes B A s t Hs Ht). ring.
Qed.

Lemma zrange_prod : forall k A B, zrange k A -> zrange k B -> zrange k (zprod A B).
Proof.
  intros k A B HA HB. unfold zrange, zprod in *. apply Forall_flat_map.
  eapply Forall_impl; [|exact HA]. intros a Ha. apply Forall_map.
  eapply Forall_impl; [|exact HB]. intros b Hb. cbn [fst]. apply AlgebraProofs.mono_in_range_app; assumption.
Qed.
Lemma zrange_neg : forall k A, zrange k A -> zrange k (zneg A).
Proof. intros k A H. unfold zrange, zneg in *. apply Forall_map. eapply Forall_impl; [|exact H]. intros a Ha. exact Ha. Qed.
Lemma zrange_comm : forall k A B, zrange k A -> zrange k B -> zrange k (zcomm A B).
Proof.
  intros k A B HA HB. unfold zcomm, zrange. apply Forall_app. split.
  - apply zrange_prod; assumption.
  - apply zrange_neg. apply zrange_prod; assumption.
Qed.

(** the working form: a commutator that the normal-ordering routine computes to be empty on modes 0..k-1
    vanishes for every assignment of k pairwise different modes *)
Theorem commute_by_computation : forall (modes : list nat) (A B : list (monomial * Z)),
  NoDup modes -> Forall (fun i => i < M) modes -> zrange (length modes) A -> zrange (length modes) B ->
  znorm (zcomm A B) = Done [] ->
  meq (m_comm (zmat modes A) (zmat modes B)) m_zero.
Proof.
  intros modes A B ND HM HA HB HN. eapply meq_trans; [apply zmat_comm|].
  apply transport; try assumption. apply zrange_comm; assumption.
Qed.

End Inst.

(** the hypotheses are satisfiable and the computation is what it says: [n_0 n_1, c^+_0 c_1]... on two modes *)
Example znorm_example :
  znorm (zcomm [([cdag 0; cann 0], 1%Z); ([cdag 1; cann 1], 1%Z)] [([cdag 1; cann 0], 1%Z)]) = Done [].
Proof. vm_compute. reflexivity. Qed.
