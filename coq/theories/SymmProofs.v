(** Proofs about PV.Symm (property C07).

    Part A  StatesClassification::compute for an arbitrary key function: the loop invariant and
            [partition_exact] -- for every number of states and every key.
    Part B  bit strings <-> state labels; Operator::getMatrixElement = the matrix of the polynomial.
    Part C  checkSymmetry: accepted => diagonal ([accepted_is_diagonal]), accepted => H has no matrix
            element between states with different quantum numbers ([H_block_diagonal]).
    Part D  uniform shift => single target ([single_target]); N, S_z and every linear form shift
            uniformly; the repaired acceptance test implies uniform shift ([shift_test_sound]).
    Part E  totality of the analysis ([analysis_total] for fixed_sz = true).
    Part F  the refuted statements, by evaluation of the faithful model at exact rationals. *)
Require Import Bool List Arith Lia Ring Ring_theory Sorted.
From PV Require Import Outcome Fock Poly PolySem CAR NormalizeProofs AlgebraBasics AlgebraProofs Symm.
Import ListNotations.

(** * Part A: classification by a key *)

Lemma push_at_ok : forall b s bl, b < length bl ->
  exists bl', push_at b s bl = Done bl' /\ length bl' = length bl /\
    forall b', nth b' bl' [] = if Nat.eqb b' b then nth b bl [] ++ [s] else nth b' bl [].
Proof.
  induction b as [|b IH]; intros s bl Hb; destruct bl as [|l t]; cbn [length] in Hb; try lia.
  - exists ((l ++ [s]) :: t). split; [reflexivity|]. split; [reflexivity|].
    intros [|b']; reflexivity.
  - destruct (IH s t) as [t' [E [Hl Hn]]]; [lia|].
    exists (l :: t'). cbn [push_at]. rewrite E. split; [reflexivity|]. split; [cbn [length]; lia|].
    intros [|b']; [reflexivity|]. cbn [nth]. rewrite Hn. reflexivity.
Qed.

Lemma filter_seq_S : forall (f : nat -> bool) n,
  filter f (seq 0 (S n)) = filter f (seq 0 n) ++ (if f n then [n] else []).
Proof.
  intros f n. rewrite seq_S, filter_app. cbn [filter Nat.add]. destruct (f n); reflexivity.
Qed.

Lemma filter_ext_seq : forall (f g : nat -> bool) n,
  (forall s, s < n -> f s = g s) -> filter f (seq 0 n) = filter g (seq 0 n).
Proof.
  intros f g n H. apply filter_ext_in. intros s Hs. apply in_seq in Hs. apply H. lia.
Qed.

Lemma index_of_ge : forall s l n m, index_of s l n = Some m -> n <= m.
Proof.
  intros s l. induction l as [|x r IH]; intros n m; cbn [index_of]; [discriminate|].
  destruct (Nat.eqb x s); [intros E; inversion E; lia|]. intros E. apply IH in E. lia.
Qed.

Lemma index_of_In : forall s l n, In s l -> exists m, index_of s l n = Some (n + m) /\ nth_error l m = Some s.
Proof.
  intros s l. induction l as [|x r IH]; intros n Hin; [destruct Hin|].
  cbn [index_of]. destruct (Nat.eqb x s) eqn:E.
  - apply Nat.eqb_eq in E. subst x. exists 0. split; [f_equal; lia|reflexivity].
  - destruct Hin as [Hx|Hin]; [subst x; rewrite Nat.eqb_refl in E; discriminate|].
    destruct (IH (S n) Hin) as [m [E1 E2]]. exists (S m). split; [rewrite E1; f_equal; lia|exact E2].
Qed.

Lemma index_of_nth : forall l m s n, NoDup l -> nth_error l m = Some s -> index_of s l n = Some (n + m).
Proof.
  induction l as [|x r IH]; intros m s n Hnd E; [destruct m; discriminate|].
  inversion Hnd as [|x' r' Hx Hr]; subst. cbn [index_of]. destruct m as [|m]; cbn [nth_error] in E.
  - inversion E; subst. rewrite Nat.eqb_refl. f_equal. lia.
  - destruct (Nat.eqb x s) eqn:Exs.
    + apply Nat.eqb_eq in Exs. subst x. apply nth_error_In in E. contradiction.
    + rewrite (IH m s (S n) Hr E). f_equal. lia.
Qed.

Lemma filter_seq_sorted : forall (f : nat -> bool) a n, StronglySorted lt (filter f (seq a n)).
Proof.
  intros f a n. revert a. induction n as [|n IH]; intros a; cbn [seq filter]; [constructor|].
  destruct (f a); [|apply IH]. constructor; [apply IH|].
  apply Forall_forall. intros x Hx. apply filter_In in Hx. destruct Hx as [Hx _]. apply in_seq in Hx. lia.
Qed.

Lemma NoDup_snoc : forall (A : Type) (l : list A) (a : A), NoDup l -> ~ In a l -> NoDup (l ++ [a]).
Proof.
  intros A l a Hnd Hn. induction l as [|x l IH]; cbn [app]; [constructor; [tauto|constructor]|].
  inversion Hnd as [|x' l' Hx Hl]; subst. constructor.
  - intros Hin. apply in_app_or in Hin. destruct Hin as [Hin|[Hin|[]]]; [contradiction|].
    subst. apply Hn. left; reflexivity.
  - apply IH; [exact Hl|]. intros Hin. apply Hn. right; exact Hin.
Qed.

Lemma filter_none : forall (A : Type) (f : A -> bool) (l : list A),
  (forall x, In x l -> f x = false) -> filter f l = [].
Proof.
  intros A f l H. induction l as [|x l IH]; [reflexivity|]. cbn [filter].
  rewrite (H x) by (left; reflexivity). apply IH. intros y Hy. apply H. right; exact Hy.
Qed.

Section ClassifyProofs.
Variable Key : Type.
Variable keq : Key -> Key -> bool.
Hypothesis keq_eq : forall a b, keq a b = true <-> a = b.
Variable key : nat -> outcome Key.
Variable kf : nat -> Key.            (* the key as a pure function *)

Local Notation sclass := (sclass Key).
Local Notation sc_step := (sc_step Key keq key).
Local Notation sc_loop := (sc_loop Key keq key).
Local Notation q2b_find := (q2b_find Key keq).

Lemma q2b_find_none : forall q m, q2b_find q m = None -> ~ In q (map fst m).
Proof.
  intros q m. induction m as [|[q' b] t IH]; cbn [q2b_find map fst]; intros E; [tauto|].
  destruct (keq q q') eqn:Eq; [discriminate|]. intros [H|H]; [|exact (IH E H)].
  subst q'. assert (keq q q = true) by (apply keq_eq; reflexivity). congruence.
Qed.

Lemma q2b_find_some : forall q m b, q2b_find q m = Some b -> In (q, b) m.
Proof.
  intros q m b. induction m as [|[q' b'] t IH]; cbn [q2b_find]; intros E; [discriminate|].
  destruct (keq q q') eqn:Eq.
  - apply keq_eq in Eq. subst q'. inversion E; subst. left; reflexivity.
  - right. apply IH. exact E.
Qed.

Lemma q2b_find_in : forall q m b, NoDup (map fst m) -> In (q, b) m -> q2b_find q m = Some b.
Proof.
  intros q m b. induction m as [|[q' b'] t IH]; cbn [q2b_find map fst]; intros Hnd Hin; [destruct Hin|].
  inversion Hnd as [|x l Hx Hl]; subst. destruct Hin as [E|Hin].
  - inversion E; subst. assert (H : keq q q = true) by (apply keq_eq; reflexivity). rewrite H. reflexivity.
  - destruct (keq q q') eqn:Eq.
    + apply keq_eq in Eq. subst q'. exfalso. apply Hx. apply (in_map fst) in Hin. exact Hin.
    + apply IH; assumption.
Qed.

(** the loop invariant after the states 0 .. n-1 *)
Record Inv (n : nat) (c : sclass) (bi : nat) : Prop := {
  inv_bi : bi = length (sc_blocks c);
  inv_sbi : length (sc_sbi c) = n;
  inv_q2b_snd : map snd (sc_q2b c) = seq 0 (length (sc_blocks c));
  inv_q2b_nodup : NoDup (map fst (sc_q2b c));
  inv_b2q : sc_b2q c = map (fun qb => (snd qb, fst qb)) (sc_q2b c);
  inv_state : forall s, s < n -> In (kf s, nth s (sc_sbi c) 0) (sc_q2b c);
  inv_blocks : forall b, b < length (sc_blocks c) ->
               nth b (sc_blocks c) [] = filter (fun s => Nat.eqb (nth s (sc_sbi c) 0) b) (seq 0 n);
  inv_key_used : forall q b, In (q, b) (sc_q2b c) -> exists s, s < n /\ kf s = q /\ nth s (sc_sbi c) 0 = b
}.

Lemma Inv_block_lt : forall n c bi, Inv n c bi -> forall q b, In (q, b) (sc_q2b c) -> b < length (sc_blocks c).
Proof.
  intros n c bi I q b Hin. apply (in_map snd) in Hin. rewrite (inv_q2b_snd _ _ _ I) in Hin.
  apply in_seq in Hin. cbn [snd] in Hin. lia.
Qed.

Lemma Inv_init : Inv 0 (sc_empty Key) 0.
Proof.
  constructor; cbn; try reflexivity; try constructor; intros; try lia; try contradiction.
Qed.

Lemma Inv_step : forall n c bi, Inv n c bi -> key n = Done (kf n) ->
  exists c' bi', sc_step (c, bi) n = Done (c', bi') /\ Inv (S n) c' bi'.
Proof.
  intros n c bi I Hk. unfold Symm.sc_step. cbn [fst snd]. rewrite Hk. cbn [bind].
  destruct (q2b_find (kf n) (sc_q2b c)) as [b|] eqn:Ef.
  - (* existing block *)
    pose proof (q2b_find_some _ _ _ Ef) as Hin.
    pose proof (Inv_block_lt _ _ _ I _ _ Hin) as Hb.
    destruct (push_at_ok b n (sc_blocks c) Hb) as [bl' [Ep [Hl Hn]]].
    rewrite Ep. cbn [bind]. eexists. eexists. split; [reflexivity|].
    assert (Hsbi : forall s, s < n -> nth s (sc_sbi c ++ [b]) 0 = nth s (sc_sbi c) 0).
    { intros s Hs. apply app_nth1. rewrite (inv_sbi _ _ _ I). exact Hs. }
    assert (Hsbn : nth n (sc_sbi c ++ [b]) 0 = b).
    { rewrite app_nth2 by (rewrite (inv_sbi _ _ _ I); lia). rewrite (inv_sbi _ _ _ I), Nat.sub_diag. reflexivity. }
    constructor; cbn [sc_blocks sc_sbi sc_q2b sc_b2q].
    + rewrite Hl. exact (inv_bi _ _ _ I).
    + rewrite app_length, (inv_sbi _ _ _ I). cbn [length]. lia.
    + rewrite Hl. exact (inv_q2b_snd _ _ _ I).
    + exact (inv_q2b_nodup _ _ _ I).
    + exact (inv_b2q _ _ _ I).
    + intros s Hs. destruct (Nat.eq_dec s n) as [->|Hne].
      * rewrite Hsbn. exact Hin.
      * rewrite Hsbi by lia. apply (inv_state _ _ _ I). lia.
    + intros b' Hb'. rewrite Hl in Hb'. rewrite Hn, filter_seq_S, Hsbn.
      rewrite (filter_ext_seq _ (fun s => Nat.eqb (nth s (sc_sbi c) 0) b') n)
        by (intros s Hs; rewrite Hsbi by exact Hs; reflexivity).
      destruct (Nat.eqb b' b) eqn:Eb.
      * apply Nat.eqb_eq in Eb. subst b'. rewrite Nat.eqb_refl.
        rewrite (inv_blocks _ _ _ I b Hb). reflexivity.
      * rewrite (Nat.eqb_sym b b'), Eb, app_nil_r. apply (inv_blocks _ _ _ I). exact Hb'.
    + intros q b' Hq. destruct (inv_key_used _ _ _ I q b' Hq) as [s [Hs [E1 E2]]].
      exists s. split; [lia|]. split; [exact E1|]. rewrite Hsbi by exact Hs. exact E2.
  - (* new block *)
    pose proof (q2b_find_none _ _ Ef) as Hnin.
    assert (Hbi : bi < length (sc_blocks c ++ [[]])).
    { rewrite app_length, (inv_bi _ _ _ I). cbn [length]. lia. }
    destruct (push_at_ok bi n (sc_blocks c ++ [[]]) Hbi) as [bl' [Ep [Hl Hn]]].
    rewrite Ep. cbn [bind]. eexists. eexists. split; [reflexivity|].
    rewrite app_length in Hl. cbn [length] in Hl.
    assert (Hsbi : forall s, s < n -> nth s (sc_sbi c ++ [bi]) 0 = nth s (sc_sbi c) 0).
    { intros s Hs. apply app_nth1. rewrite (inv_sbi _ _ _ I). exact Hs. }
    assert (Hsbn : nth n (sc_sbi c ++ [bi]) 0 = bi).
    { rewrite app_nth2 by (rewrite (inv_sbi _ _ _ I); lia). rewrite (inv_sbi _ _ _ I), Nat.sub_diag. reflexivity. }
    assert (Hold : forall s, s < n -> nth s (sc_sbi c) 0 < bi).
    { intros s Hs. rewrite (inv_bi _ _ _ I). apply (Inv_block_lt _ _ _ I (kf s)). apply (inv_state _ _ _ I). exact Hs. }
    constructor; cbn [sc_blocks sc_sbi sc_q2b sc_b2q].
    + rewrite Hl, (inv_bi _ _ _ I). lia.
    + rewrite app_length, (inv_sbi _ _ _ I). cbn [length]. lia.
    + rewrite map_app, (inv_q2b_snd _ _ _ I), Hl. cbn [map snd]. rewrite (inv_bi _ _ _ I).
      replace (length (sc_blocks c) + 1) with (S (length (sc_blocks c))) by lia. rewrite seq_S. reflexivity.
    + rewrite map_app. cbn [map fst]. apply NoDup_snoc; [exact (inv_q2b_nodup _ _ _ I)|exact Hnin].
    + rewrite map_app, (inv_b2q _ _ _ I). reflexivity.
    + intros s Hs. apply in_or_app. destruct (Nat.eq_dec s n) as [->|Hne].
      * right. rewrite Hsbn. left; reflexivity.
      * left. rewrite Hsbi by lia. apply (inv_state _ _ _ I). lia.
    + intros b' Hb'. rewrite Hl in Hb'. rewrite Hn, filter_seq_S, Hsbn.
      rewrite (filter_ext_seq _ (fun s => Nat.eqb (nth s (sc_sbi c) 0) b') n)
        by (intros s Hs; rewrite Hsbi by exact Hs; reflexivity).
      destruct (Nat.eqb b' bi) eqn:Eb.
      * apply Nat.eqb_eq in Eb. subst b'. rewrite Nat.eqb_refl.
        rewrite app_nth2 by (rewrite (inv_bi _ _ _ I); lia).
        rewrite (inv_bi _ _ _ I), Nat.sub_diag. cbn [nth app].
        replace (filter _ (seq 0 n)) with (@nil nat); [reflexivity|].
        symmetry. apply filter_none. intros s Hs. apply in_seq in Hs.
        apply Nat.eqb_neq. rewrite <- (inv_bi _ _ _ I). specialize (Hold s). lia.
      * rewrite (Nat.eqb_sym bi b'), Eb, app_nil_r.
        assert (Hlt : b' < length (sc_blocks c)).
        { apply Nat.eqb_neq in Eb. rewrite (inv_bi _ _ _ I) in Eb. lia. }
        rewrite app_nth1 by exact Hlt. apply (inv_blocks _ _ _ I). exact Hlt.
    + intros q b' Hq. apply in_app_or in Hq. destruct Hq as [Hq|[Hq|[]]].
      * destruct (inv_key_used _ _ _ I q b' Hq) as [s [Hs [E1 E2]]].
        exists s. split; [lia|]. split; [exact E1|]. rewrite Hsbi by exact Hs. exact E2.
      * inversion Hq; subst. exists n. split; [lia|]. split; [reflexivity|exact Hsbn].
Qed.

Lemma sc_loop_inv : forall len n c bi, Inv n c bi ->
  (forall s, n <= s < n + len -> key s = Done (kf s)) ->
  exists c' bi', sc_loop (seq n len) (c, bi) = Done (c', bi') /\ Inv (n + len) c' bi'.
Proof.
  induction len as [|len IH]; intros n c bi I Hk.
  - exists c, bi. split; [reflexivity|]. rewrite Nat.add_0_r. exact I.
  - cbn [seq Symm.sc_loop].
    destruct (Inv_step n c bi I (Hk n ltac:(lia))) as [c1 [b1 [E1 I1]]].
    rewrite E1. cbn [bind].
    destruct (IH (S n) c1 b1 I1) as [c2 [b2 [E2 I2]]]; [intros s Hs; apply Hk; lia|].
    exists c2, b2. split; [exact E2|]. replace (n + S len) with (S n + len) by lia. exact I2.
Qed.

(** the classification never fails when the keys can be computed *)
Lemma sc_compute_gen_ok : forall size, (forall s, s < size -> key s = Done (kf s)) ->
  exists c, sc_compute_gen Key keq key size = Done c /\ Inv size c (length (sc_blocks c)).
Proof.
  intros size Hk. unfold sc_compute_gen.
  destruct (sc_loop_inv size 0 (sc_empty Key) 0 Inv_init) as [c [bi [E I]]]; [intros s Hs; apply Hk; lia|].
  rewrite E. cbn [bind fst]. exists c. split; [reflexivity|].
  cbn [Nat.add] in I. rewrite <- (inv_bi _ _ _ I). exact I.
Qed.

(** ** Consequences of the invariant *)
Section Consequences.
Variables (n : nat) (c : sclass) (bi : nat).
Hypothesis I : Inv n c bi.

Lemma sbi_nth_error : forall s, s < n -> nth_error (sc_sbi c) s = Some (nth s (sc_sbi c) 0).
Proof. intros s Hs. apply nth_error_nth'. rewrite (inv_sbi _ _ _ I). exact Hs. Qed.

Lemma gbn_ok : forall s, s < n -> getBlockNumber n c s = Done (nth s (sc_sbi c) 0).
Proof.
  intros s Hs. unfold getBlockNumber.
  destruct (n <? s) eqn:E; [apply Nat.ltb_lt in E; lia|]. rewrite sbi_nth_error by exact Hs. reflexivity.
Qed.

Lemma block_lt : forall s, s < n -> nth s (sc_sbi c) 0 < numberOfBlocks c.
Proof.
  intros s Hs. unfold numberOfBlocks. apply (Inv_block_lt _ _ _ I (kf s)). apply (inv_state _ _ _ I). exact Hs.
Qed.

Lemma in_block_iff : forall b s, b < numberOfBlocks c ->
  (In s (nth b (sc_blocks c) []) <-> s < n /\ nth s (sc_sbi c) 0 = b).
Proof.
  intros b s Hb. rewrite (inv_blocks _ _ _ I b Hb), filter_In, in_seq, Nat.eqb_eq.
  split; intros [H1 H2]; (split; [lia|exact H2]).
Qed.

Lemma block_nth_error : forall b, b < numberOfBlocks c -> nth_error (sc_blocks c) b = Some (nth b (sc_blocks c) []).
Proof. intros b Hb. apply nth_error_nth'. exact Hb. Qed.

Lemma block_sorted : forall b, b < numberOfBlocks c -> StronglySorted lt (nth b (sc_blocks c) []).
Proof. intros b Hb. rewrite (inv_blocks _ _ _ I b Hb). apply filter_seq_sorted. Qed.

Lemma block_nodup : forall b, b < numberOfBlocks c -> NoDup (nth b (sc_blocks c) []).
Proof. intros b Hb. rewrite (inv_blocks _ _ _ I b Hb). apply NoDup_filter. apply seq_NoDup. Qed.

Lemma block_nonempty : forall b, b < numberOfBlocks c -> exists s, In s (nth b (sc_blocks c) []).
Proof.
  intros b Hb. assert (Hin : In b (map snd (sc_q2b c))).
  { rewrite (inv_q2b_snd _ _ _ I). apply in_seq. unfold numberOfBlocks in Hb. lia. }
  apply in_map_iff in Hin. destruct Hin as [[q b'] [E Hin]]. cbn [snd] in E. subst b'.
  destruct (inv_key_used _ _ _ I q b Hin) as [s [Hs [_ E]]].
  exists s. apply in_block_iff; [exact Hb|]. split; assumption.
Qed.

(** every state in exactly one block *)
Lemma exactly_one_block : forall s, s < n ->
  exists b, b < numberOfBlocks c /\ getBlockNumber n c s = Done b /\
            forall b', b' < numberOfBlocks c -> (In s (nth b' (sc_blocks c) []) <-> b' = b).
Proof.
  intros s Hs. exists (nth s (sc_sbi c) 0). split; [apply block_lt; exact Hs|]. split; [apply gbn_ok; exact Hs|].
  intros b' Hb'. rewrite in_block_iff by exact Hb'.
  split; [intros [_ H]; symmetry; exact H|intros ->; split; [exact Hs|reflexivity]].
Qed.

(** state -> (block, inner) -> state *)
Lemma address_roundtrip : forall s, s < n ->
  exists b m, getBlockNumber n c s = Done b /\ getInnerState n c s = Done m /\ getFockState c b m = Done s.
Proof.
  intros s Hs. exists (nth s (sc_sbi c) 0).
  pose proof (block_lt s Hs) as Hb.
  assert (Hin : In s (nth (nth s (sc_sbi c) 0) (sc_blocks c) [])) by (apply in_block_iff; [exact Hb|split; [exact Hs|reflexivity]]).
  destruct (index_of_In s _ 0 Hin) as [m [E1 E2]]. cbn [Nat.add] in E1.
  exists m. split; [apply gbn_ok; exact Hs|]. split.
  - unfold getInnerState. destruct (n <? s) eqn:E; [apply Nat.ltb_lt in E; lia|].
    rewrite gbn_ok by exact Hs. cbn [bind]. rewrite block_nth_error by exact Hb. rewrite E1. reflexivity.
  - unfold getFockState. rewrite block_nth_error by exact Hb. rewrite E2. reflexivity.
Qed.

(** (block, inner) -> state -> (block, inner) *)
Lemma address_roundtrip_inv : forall b m s, getFockState c b m = Done s ->
  s < n /\ getBlockNumber n c s = Done b /\ getInnerState n c s = Done m.
Proof.
  intros b m s. unfold getFockState.
  destruct (nth_error (sc_blocks c) b) as [l|] eqn:El; [|discriminate].
  destruct (nth_error l m) as [s'|] eqn:Em; [|discriminate]. intros E. inversion E; subst s'.
  assert (Hb : b < numberOfBlocks c) by (apply nth_error_Some; congruence).
  assert (Hl : l = nth b (sc_blocks c) []) by (rewrite block_nth_error in El by exact Hb; congruence).
  assert (Hin : In s (nth b (sc_blocks c) [])) by (rewrite <- Hl; eapply nth_error_In; exact Em).
  apply in_block_iff in Hin; [|exact Hb]. destruct Hin as [Hs Hsb].
  split; [exact Hs|]. split; [rewrite gbn_ok by exact Hs; congruence|].
  unfold getInnerState. destruct (n <? s) eqn:E'; [apply Nat.ltb_lt in E'; lia|].
  rewrite gbn_ok by exact Hs. cbn [bind]. rewrite Hsb, El.
  rewrite (index_of_nth l m s 0); [reflexivity| |exact Em]. rewrite Hl. apply block_nodup. exact Hb.
Qed.

(** two states share a block iff they have the same key (quantum numbers) *)
Lemma same_block_iff_same_key : forall s s', s < n -> s' < n ->
  (nth s (sc_sbi c) 0 = nth s' (sc_sbi c) 0 <-> kf s = kf s').
Proof.
  intros s s' Hs Hs'. pose proof (inv_state _ _ _ I s Hs) as H1. pose proof (inv_state _ _ _ I s' Hs') as H2.
  split; intro E.
  - rewrite <- E in H2.
    assert (Hnd : NoDup (map snd (sc_q2b c))) by (rewrite (inv_q2b_snd _ _ _ I); apply seq_NoDup).
    revert H1 H2 Hnd. generalize (nth s (sc_sbi c) 0) (kf s) (kf s'). clear. intros b q q'.
    induction (sc_q2b c) as [|[q0 b0] t IH]; cbn [In map snd]; [tauto|].
    intros [H1|H1] [H2|H2] Hnd; inversion Hnd as [|x l Hx Hl]; subst.
    + congruence.
    + inversion H1; subst. exfalso. apply Hx. apply (in_map snd) in H2. exact H2.
    + inversion H2; subst. exfalso. apply Hx. apply (in_map snd) in H1. exact H1.
    + apply IH; assumption.
  - rewrite <- E in H2. pose proof (inv_q2b_nodup _ _ _ I) as Hnd.
    revert H1 H2 Hnd. generalize (nth s (sc_sbi c) 0) (nth s' (sc_sbi c) 0) (kf s). clear. intros b b' q.
    induction (sc_q2b c) as [|[q0 b0] t IH]; cbn [In map fst]; [tauto|].
    intros [H1|H1] [H2|H2] Hnd; inversion Hnd as [|x l Hx Hl]; subst.
    + congruence.
    + inversion H1; subst. exfalso. apply Hx. apply (in_map fst) in H2. exact H2.
    + inversion H2; subst. exfalso. apply Hx. apply (in_map fst) in H1. exact H1.
    + apply IH; assumption.
Qed.

End Consequences.

End ClassifyProofs.

(** * Part B: bit strings and state labels; getMatrixElement *)

Lemma state_of_nat_length : forall M n, length (state_of_nat M n) = M.
Proof. induction M as [|M IH]; intros n; cbn [state_of_nat length]; [reflexivity|]. rewrite IH. reflexivity. Qed.

Lemma nat_of_state_of_nat : forall M n, n < Nat.pow 2 M -> nat_of_state (state_of_nat M n) = n.
Proof.
  induction M as [|M IH]; intros n Hn; cbn [state_of_nat nat_of_state Nat.pow] in *; [lia|].
  rewrite IH.
  - rewrite (Nat.div2_odd n) at 3. destruct (Nat.odd n); cbn [Nat.b2n]; lia.
  - pose proof (Nat.div2_odd n) as H. destruct (Nat.odd n); cbn [Nat.b2n] in H; lia.
Qed.

Lemma nat_of_state_lt : forall s, nat_of_state s < Nat.pow 2 (length s).
Proof.
  induction s as [|b s IH]; cbn [nat_of_state length Nat.pow]; [lia|]. destruct b; lia.
Qed.

Lemma state_of_nat_of_state : forall s, state_of_nat (length s) (nat_of_state s) = s.
Proof.
  induction s as [|b s IH]; cbn [length state_of_nat nat_of_state]; [reflexivity|].
  f_equal.
  - destruct b.
    + replace (1 + 2 * nat_of_state s) with (S (2 * nat_of_state s)) by lia.
      rewrite Nat.odd_succ. apply Nat.even_spec. exists (nat_of_state s). lia.
    + cbn [Nat.add]. rewrite <- Nat.negb_even. replace (Nat.even (2 * nat_of_state s)) with true; [reflexivity|].
      symmetry. apply Nat.even_spec. exists (nat_of_state s). lia.
  - transitivity (state_of_nat (length s) (nat_of_state s)); [|exact IH]. f_equal. destruct b.
    + replace (1 + 2 * nat_of_state s) with (S (2 * nat_of_state s)) by lia. apply Nat.div2_succ_double.
    + cbn [Nat.add]. apply Nat.div2_double.
Qed.

Lemma nat_of_state_inj : forall s t, length s = length t -> nat_of_state s = nat_of_state t -> s = t.
Proof.
  intros s t Hl Hn. rewrite <- (state_of_nat_of_state s), <- (state_of_nat_of_state t), Hl, Hn. reflexivity.
Qed.

Lemma nat_eqb_state_eqb : forall s t, length s = length t ->
  Nat.eqb (nat_of_state s) (nat_of_state t) = state_eqb s t.
Proof.
  intros s t Hl. destruct (state_eqb s t) eqn:E.
  - apply state_eqb_eq in E. subst. apply Nat.eqb_refl.
  - apply Nat.eqb_neq. intro Hn. apply (nat_of_state_inj s t Hl) in Hn. subst.
    rewrite state_eqb_refl in E. discriminate.
Qed.

Lemma state_eqb_sym : forall s t, state_eqb s t = state_eqb t s.
Proof.
  induction s as [|a s IH]; destruct t as [|b t]; cbn [state_eqb]; try reflexivity.
  rewrite IH. destruct a, b; reflexivity.
Qed.

(** two different bit strings of the same length differ at some position *)
Lemma state_neq_nth : forall s t, length s = length t -> s <> t ->
  exists i, i < length s /\ nth i s false <> nth i t false.
Proof.
  induction s as [|a s IH]; destruct t as [|b t]; cbn [length]; intros Hl Hn; try discriminate.
  - congruence.
  - destruct (bool_dec a b) as [->|Hab].
    + destruct (IH t) as [i [Hi Hd]]; [lia|congruence|]. exists (S i). split; [lia|exact Hd].
    + exists 0. split; [lia|exact Hab].
Qed.

Section Algebra.
Variable K : Type.
Variables (k0 k1 : K) (kadd kmul ksub : K -> K -> K) (kopp : K -> K).
Variable kzero : K -> bool.
Variable khalf : K.
Hypothesis Hring : ring_ok K k0 k1 kadd kmul ksub kopp kzero.

Let Rth := proj1 Hring.
Add Ring KringS : Rth.

Local Notation poly := (poly K).
Local Notation cm := (coef_mono K k0 k1 kopp).
Local Notation cp := (coef_poly K k0 k1 kadd kmul kopp).
Local Notation ksum := (@ksum K k0 kadd _).
Local Notation poly_in_range := (poly_in_range K).
Local Notation commutes := (Poly.commutes K kadd kmul ksub kopp kzero true).
Local Notation commutator := (Poly.commutator K kadd kmul ksub kopp kzero).
Local Notation pmul := (Poly.pmul K kadd kmul kopp kzero).
Local Notation psub := (Poly.psub K ksub kopp kzero).
Local Notation padd := (Poly.padd K kadd kzero).
Local Notation pscale := (Poly.pscale K kmul kzero).
Local Notation poly_eq := (Poly.poly_eq K ksub kzero true).
Local Notation p_n := (p_n K k1).
Local Notation p_c := (p_c K k1).
Local Notation p_cdag := (p_cdag K k1).
Local Notation p_n_offdiag := (p_n_offdiag K k1).
Local Notation p_N := (p_N K k1 kadd kzero).
Local Notation p_Sz := (p_Sz K k1 kadd kmul ksub kopp kzero khalf).
Local Notation act_poly := (act_poly K kadd kopp).
Local Notation lc_add := (lc_add K kadd).
Local Notation lc_find := (lc_find K k0).
Local Notation get_melem := (get_melem K k0 kadd kopp).
Local Notation qn_of := (qn_of K k0 kadd kopp).
Local Notation qn_eqb := (qn_eqb K ksub kzero).
Local Notation check_symmetry := (check_symmetry K k0 k1 kadd kmul ksub kopp kzero).
Local Notation commutes_all_n := (commutes_all_n K k1 kadd kmul ksub kopp kzero).
Local Notation shift_test_i := (shift_test_i K k0 k1 kadd kmul ksub kopp kzero).
Local Notation shift_test_all := (shift_test_all K k0 k1 kadd kmul ksub kopp kzero).
Local Notation sc_compute := (sc_compute K k0 kadd ksub kopp kzero).

(* the library lemmas at this ring *)
Let L_cp_cons := cp_cons K k0 k1 kadd kmul kopp.
Let L_cp_nil := cp_nil K k0 k1 kadd kmul kopp.
Let L_single := ksum_states_single K k0 k1 kadd kmul ksub kopp kzero Hring.
Let L_cp_n := cp_n K k0 k1 kadd kmul ksub kopp kzero Hring.
Let L_padd := padd_sound_gen K k0 k1 kadd kmul ksub kopp kzero Hring.
Let L_psub := psub_sound_gen K k0 k1 kadd kmul ksub kopp kzero Hring.
Let L_pscale := pscale_sound_gen K k0 k1 kadd kmul ksub kopp kzero Hring.
Let L_eq := poly_eq_true_eq K k0 k1 kadd kmul ksub kopp kzero Hring.
Let L_commutes := commutes_sound_gen K k0 k1 kadd kmul ksub kopp kzero Hring.
Let L_commutator := commutator_sound_gen K k0 k1 kadd kmul ksub kopp kzero Hring.
Let L_ksum_ext := ksum_ext K k0 kadd.
Let L_ksum_cons := ksum_cons K k0 kadd.
Let L_ksum_nil := ksum_nil K k0 kadd.
Let L_ksum_zero := ksum_zero_ext K k0 k1 kadd kmul ksub kopp kzero Hring.

Lemma kzero_iff : forall c, kzero c = true <-> c = k0.
Proof. exact (proj2 Hring). Qed.

Lemma lc_find_add : forall t s c l, length s = length t ->
  Forall (fun sc => length (fst sc) = length t) l ->
  lc_find t (lc_add s c l) = if state_eqb s t then kadd (lc_find t l) c else lc_find t l.
Proof.
  intros t s c l Hs. induction l as [|[s' c'] r IH]; intros Hl.
  - cbn [Poly.lc_add Symm.lc_find]. rewrite nat_eqb_state_eqb by congruence.
    rewrite state_eqb_sym. destruct (state_eqb s t); [ring|reflexivity].
  - inversion Hl as [|x y Hx Hy]; subst. cbn [fst] in Hx. cbn [Poly.lc_add].
    rewrite (nat_eqb_state_eqb s s') by congruence.
    destruct (state_eqb s s') eqn:Ess.
    + apply state_eqb_eq in Ess. subst s'. cbn [Symm.lc_find].
      rewrite (nat_eqb_state_eqb t s) by congruence. rewrite (state_eqb_sym t s).
      destruct (state_eqb s t); reflexivity.
    + cbn [Symm.lc_find]. rewrite (nat_eqb_state_eqb t s') by congruence.
      destruct (state_eqb t s') eqn:Ets.
      * apply state_eqb_eq in Ets. subst s'. rewrite Ess. reflexivity.
      * apply IH. exact Hy.
Qed.

Lemma act_poly_fold_sound : forall (N : nat) (p : poly) (ket : state) (l0 : list (state * K)),
  poly_in_range N p -> length ket = N -> Forall (fun sc => length (fst sc) = N) l0 ->
  exists l,
    fold_left (fun acc mc =>
      bind acc (fun l =>
        match act_mono (fst mc) ket with
        | Done (Some (sg, s')) => Done (lc_add s' (if sg then kopp (snd mc) else snd mc) l)
        | Done None => Done l
        | OOB => OOB | Uninit => Uninit | Throws c => Throws c | OutOfFuel => OutOfFuel
        end)) p (Done l0) = Done l /\
    Forall (fun sc => length (fst sc) = N) l /\
    forall t, length t = N -> lc_find t l = kadd (lc_find t l0) (cp p ket t).
Proof.
  intros N p ket. induction p as [|[m c] p IH]; intros l0 Hp Hk Hl0.
  - exists l0. split; [reflexivity|]. split; [exact Hl0|]. intros t Ht. rewrite L_cp_nil. ring.
  - inversion Hp as [|x y Hm Hp']; subst. cbn [fst] in Hm. cbn [fold_left bind fst snd].
    destruct (act_mono_in_range (length ket) m ket Hm eq_refl) as [r Hr]. rewrite Hr.
    destruct r as [[sg s']|].
    + pose proof (act_mono_length _ _ _ _ Hr) as Hls'.
      destruct (IH (lc_add s' (if sg then kopp c else c) l0) Hp' eq_refl) as [l [E [Hl Hf]]].
      { clear -Hl0 Hls'. induction l0 as [|[a b] r IH]; cbn [Poly.lc_add].
        - constructor; [exact Hls'|constructor].
        - inversion Hl0; subst. destruct (Nat.eqb (nat_of_state s') (nat_of_state a)); constructor; auto. }
      exists l. split; [exact E|]. split; [exact Hl|]. intros t Ht. rewrite (Hf t Ht).
      rewrite lc_find_add; [|congruence|].
      * rewrite L_cp_cons. unfold coef_mono. rewrite Hr.
        destruct (state_eqb s' t); destruct sg; ring.
      * eapply Forall_impl; [|exact Hl0]. intros a Ha. cbn beta in *. congruence.
    + destruct (IH l0 Hp' eq_refl Hl0) as [l [E [Hl Hf]]].
      exists l. split; [exact E|]. split; [exact Hl|]. intros t Ht. rewrite (Hf t Ht).
      rewrite L_cp_cons. unfold coef_mono. rewrite Hr. ring.
Qed.

(** Operator::getMatrixElement(bra, ket) is the matrix element <bra| P |ket> *)
Lemma get_melem_sound : forall (N : nat) (p : poly) (bra ket : state),
  poly_in_range N p -> length ket = N -> length bra = N ->
  get_melem p bra ket = Done (cp p ket bra).
Proof.
  intros N p bra ket Hp Hk Hb. unfold Symm.get_melem, Poly.act_poly.
  destruct (act_poly_fold_sound N p ket [] Hp Hk (Forall_nil _)) as [l [E [_ Hf]]].
  rewrite E. cbn [bind]. rewrite (Hf bra Hb). cbn [Symm.lc_find]. f_equal. ring.
Qed.

(** the quantum numbers as a pure function *)
Definition qnf (ops : list poly) (s : state) : list K := map (fun q => cp q s s) ops.

Lemma qn_of_sound : forall (N : nat) (ops : list poly) (s : state),
  Forall (poly_in_range N) ops -> length s = N -> qn_of ops s = Done (qnf ops s).
Proof.
  intros N ops s Hops Hs. induction Hops as [|q r Hq Hr IH]; [reflexivity|].
  cbn [Symm.qn_of qnf map]. rewrite (get_melem_sound N q s s Hq Hs Hs). cbn [bind].
  rewrite IH. reflexivity.
Qed.

Lemma qn_eqb_eq : forall a b, qn_eqb a b = true <-> a = b.
Proof.
  induction a as [|x a IH]; destruct b as [|y b]; cbn [Symm.qn_eqb]; split; intro H; try discriminate; try reflexivity.
  - apply andb_true_iff in H. destruct H as [H1 H2]. apply kzero_iff in H1. apply IH in H2. subst b.
    f_equal. transitivity (kadd (ksub x y) y); [ring|]. rewrite H1. ring.
  - inversion H; subst. apply andb_true_iff. split; [|apply IH; reflexivity].
    apply kzero_iff. ring.
Qed.

(** * Part C: what acceptance by checkSymmetry implies *)

Lemma p_n_in_range : forall N i, i < N -> poly_in_range N (p_n i).
Proof.
  intros N i Hi. unfold Poly.p_n. constructor; [|constructor]. cbn [fst].
  constructor; [exact Hi|]. constructor; [exact Hi|constructor].
Qed.

Lemma commutes_all_n_true : forall l op, commutes_all_n l op = Done true ->
  forall i, In i l -> commutes (p_n i) op = Done true.
Proof.
  induction l as [|j l IH]; intros op H i Hi; [destruct Hi|].
  cbn [Symm.commutes_all_n] in H.
  destruct (commutes (p_n j) op) as [b| | | |] eqn:E; try discriminate. cbn [bind] in H.
  destruct b; [|discriminate]. destruct Hi as [->|Hi]; [exact E|]. apply IH; assumption.
Qed.

Lemma shift_test_all_true : forall N l op, shift_test_all N l op = Done true ->
  forall i, In i l -> shift_test_i N op i = Done true.
Proof.
  intros N. induction l as [|j l IH]; intros op H i Hi; [destruct Hi|].
  cbn [Symm.shift_test_all] in H.
  destruct (shift_test_i N op j) as [b| | | |] eqn:E; try discriminate. cbn [bind] in H.
  destruct b; [|discriminate]. destruct Hi as [->|Hi]; [exact E|]. apply IH; assumption.
Qed.

(** acceptance: the candidate commutes with H, with every n_i and (repaired test) passes the shift test *)
Lemma check_symmetry_true : forall sf N H op, check_symmetry sf N H op = Done true ->
  commutes H op = Done true /\
  (forall i, i < N -> commutes (p_n i) op = Done true) /\
  (sf = true -> forall i, i < N -> shift_test_i N op i = Done true).
Proof.
  intros sf N H op. unfold Symm.check_symmetry.
  destruct (commutes H op) as [b1| | | |] eqn:E1; try discriminate. cbn [bind].
  destruct b1; [|discriminate].
  destruct (commutes_all_n (seq 0 N) op) as [b2| | | |] eqn:E2; try discriminate. cbn [bind].
  destruct b2; [|discriminate]. intro E3.
  split; [reflexivity|]. split.
  - intros i Hi. apply (commutes_all_n_true _ _ E2). apply in_seq. lia.
  - intros Hsf i Hi. subst sf. apply (shift_test_all_true _ _ _ E3). apply in_seq. lia.
Qed.

(** diagonal in the Fock basis on the N-mode space *)
Definition diagonal (N : nat) (Q : poly) : Prop :=
  forall s t, length s = N -> length t = N -> s <> t -> cp Q s t = k0.

(** [n_i, Q] = 0 for every i  =>  Q is diagonal:  (n_i(t) - n_i(s)) <t|Q|s> = 0.
    No assumption on the ring beyond commutativity: n_i(t) - n_i(s) = +-1. *)
Theorem commutes_n_diagonal : forall (N : nat) (Q : poly), poly_in_range N Q ->
  (forall i, i < N -> commutes (p_n i) Q = Done true) -> diagonal N Q.
Proof.
  intros N Q HQ Hc s t Hs Ht Hne.
  destruct (state_neq_nth s t) as [i [Hi Hd]]; [congruence|exact Hne|]. rewrite Hs in Hi.
  pose proof (L_commutes N (p_n i) Q (p_n_in_range N i Hi) HQ (Hc i Hi) s t Hs Ht) as E.
  rewrite (L_single N t) in E; [|exact Ht|].
  2:{ intros u Hu Hut. rewrite L_cp_n by lia. rewrite state_eqb_neq by exact Hut.
      destruct (nth i u false); ring. }
  rewrite (L_single N s) in E; [|exact Hs|].
  2:{ intros u Hu Hus. rewrite L_cp_n by lia. rewrite state_eqb_neq by congruence.
      destruct (nth i s false); ring. }
  rewrite !L_cp_n in E by lia. rewrite !state_eqb_refl in E.
  destruct (nth i s false), (nth i t false); try congruence.
  - transitivity (kmul (cp Q s t) k1); [ring|]. rewrite <- E. ring.
  - transitivity (kmul k1 (cp Q s t)); [ring|]. rewrite E. ring.
Qed.

Theorem accepted_is_diagonal_gen : forall sf N H Q, poly_in_range N Q ->
  check_symmetry sf N H Q = Done true -> diagonal N Q.
Proof.
  intros sf N H Q HQ Hacc. destruct (check_symmetry_true _ _ _ _ Hacc) as [_ [Hn _]].
  apply commutes_n_diagonal; assumption.
Qed.

(** [H, Q] = 0 and Q diagonal  =>  (Q(s) - Q(t)) <t|H|s> = 0 *)
Lemma commutes_diag_melem : forall (N : nat) (H Q : poly), poly_in_range N H -> poly_in_range N Q ->
  commutes H Q = Done true -> diagonal N Q ->
  forall s t, length s = N -> length t = N ->
  kmul (ksub (cp Q s s) (cp Q t t)) (cp H s t) = k0.
Proof.
  intros N H Q HH HQ Hc Hd s t Hs Ht.
  pose proof (L_commutes N H Q HH HQ Hc s t Hs Ht) as E.
  rewrite (L_single N s) in E; [|exact Hs|].
  2:{ intros u Hu Hus. rewrite (Hd s u Hs Hu) by congruence. ring. }
  rewrite (L_single N t) in E; [|exact Ht|].
  2:{ intros u Hu Hut. rewrite (Hd u t Hu Ht Hut). ring. }
  transitivity (ksub (kmul (cp H s t) (cp Q s s)) (kmul (cp Q t t) (cp H s t))); [ring|].
  rewrite E. ring.
Qed.

(** from here on: no zero divisors *)
Section Domain.
Hypothesis Hdom : forall a b : K, kmul a b = k0 -> a = k0 \/ b = k0.

Lemma H_same_qn : forall sf (N : nat) (H : poly) (ops : list poly), poly_in_range N H ->
  Forall (poly_in_range N) ops ->
  Forall (fun Q => check_symmetry sf N H Q = Done true) ops ->
  forall s t, length s = N -> length t = N -> cp H s t <> k0 -> qnf ops s = qnf ops t.
Proof.
  intros sf N H ops HH Hr Hacc s t Hs Ht Hne. unfold qnf.
  apply map_ext_in. intros Q HQ.
  rewrite Forall_forall in Hr, Hacc. specialize (Hr Q HQ). specialize (Hacc Q HQ).
  destruct (check_symmetry_true _ _ _ _ Hacc) as [Hc _].
  pose proof (accepted_is_diagonal_gen _ _ _ _ Hr Hacc) as Hd.
  destruct (Hdom _ _ (commutes_diag_melem N H Q HH Hr Hc Hd s t Hs Ht)) as [E|E]; [|contradiction].
  transitivity (kadd (ksub (cp Q s s) (cp Q t t)) (cp Q t t)); [ring|]. rewrite E. ring.
Qed.

End Domain.

(** ** The classification computed from accepted operators *)

Definition kfN (N : nat) (ops : list poly) (s : nat) : list K := qnf ops (state_of_nat N s).
Definition SInv (N : nat) (ops : list poly) (c : qclass K) : Prop :=
  Inv (list K) (kfN N ops) (Nat.pow 2 N) c (length (sc_blocks c)).

Lemma sc_compute_ok : forall N ops, Forall (poly_in_range N) ops ->
  exists c, sc_compute N ops = Done c /\ SInv N ops c.
Proof.
  intros N ops Hops. unfold Symm.sc_compute, SInv.
  apply (sc_compute_gen_ok (list K) qn_eqb qn_eqb_eq).
  intros s _. apply (qn_of_sound N); [exact Hops|apply state_of_nat_length].
Qed.

Lemma sc_compute_inv : forall N ops c, Forall (poly_in_range N) ops -> sc_compute N ops = Done c -> SInv N ops c.
Proof.
  intros N ops c Hops E. destruct (sc_compute_ok N ops Hops) as [c' [E' I]]. congruence.
Qed.

Section Domain2.
Hypothesis Hdom : forall a b : K, kmul a b = k0 -> a = k0 \/ b = k0.

(** the Hamiltonian has no matrix element between states of different blocks *)
Theorem H_block_diagonal_gen : forall sf N H ops c, poly_in_range N H ->
  Forall (poly_in_range N) ops ->
  Forall (fun Q => check_symmetry sf N H Q = Done true) ops ->
  sc_compute N ops = Done c ->
  forall s t, s < Nat.pow 2 N -> t < Nat.pow 2 N ->
  cp H (state_of_nat N s) (state_of_nat N t) <> k0 ->
  exists b, getBlockNumber (Nat.pow 2 N) c s = Done b /\ getBlockNumber (Nat.pow 2 N) c t = Done b.
Proof.
  intros sf N H ops c HH Hr Hacc Ec s t Hs Ht Hne.
  pose proof (sc_compute_inv N ops c Hr Ec) as I. unfold SInv in I.
  exists (nth s (sc_sbi c) 0).
  rewrite (gbn_ok _ _ _ _ _ I s Hs), (gbn_ok _ _ _ _ _ I t Ht). split; [reflexivity|]. f_equal.
  symmetry. apply (same_block_iff_same_key _ _ _ _ _ I s t Hs Ht). unfold kfN.
  apply (H_same_qn Hdom sf N H ops HH Hr Hacc); [apply state_of_nat_length|apply state_of_nat_length|exact Hne].
Qed.
End Domain2.

(** * Part D: uniform shift and single targets *)

(** Q changes by a state-independent amount under c^+_i, for every i *)
Definition ushift (N : nat) (d : state -> K) : Prop :=
  forall i, i < N -> exists q, forall s, length s = N -> nth i s false = false ->
    d (upd i true s) = kadd (d s) q.
Definition uniform_shift (N : nat) (Q : poly) : Prop := ushift N (fun s => cp Q s s).

(** the monomial m changes the diagonal function d by the fixed amount x wherever it does not vanish *)
Definition shift_by (N : nat) (d : state -> K) (m : monomial) (x : K) : Prop :=
  forall s sg t, length s = N -> act_mono m s = Done (Some (sg, t)) -> d t = kadd (d s) x.

Lemma act_mono_single' : forall o s, act_mono [o] s = act_op o s.
Proof. exact act_mono_single. Qed.

Lemma shift_by_op : forall N d o, ushift N d -> op_idx o < N -> exists x, shift_by N d [o] x.
Proof.
  intros N d [ann i] Hu Hi. cbn [op_idx snd] in Hi. destruct (Hu i Hi) as [q Hq].
  destruct ann.
  - (* annihilation: t = upd i false s, s = upd i true t *)
    exists (kopp q). intros s sg t Hs E. rewrite act_mono_single' in E.
    change (true, i) with (cann i) in E. rewrite act_op_cann in E by lia.
    destruct (nth i s false) eqn:Eo; [|discriminate]. inversion E; subst sg t.
    assert (Hst : s = upd i true (upd i false s)).
    { rewrite upd_upd. rewrite <- Eo. symmetry. apply upd_same. }
    rewrite Hst at 2. rewrite Hq.
    + ring.
    + rewrite AlgebraBasics.upd_length. exact Hs.
    + apply AlgebraBasics.nth_upd_same. lia.
  - exists q. intros s sg t Hs E. rewrite act_mono_single' in E.
    change (false, i) with (cdag i) in E. rewrite act_op_cdag in E by lia.
    destruct (nth i s false) eqn:Eo; [discriminate|]. inversion E; subst sg t.
    apply Hq; assumption.
Qed.

Lemma shift_by_app : forall N d m1 m2 x1 x2, shift_by N d m1 x1 -> shift_by N d m2 x2 ->
  shift_by N d (m1 ++ m2) (kadd x2 x1).
Proof.
  intros N d m1 m2 x1 x2 H1 H2 s sg t Hs E. rewrite act_mono_app' in E.
  destruct (act_mono m2 s) as [[[sg2 u]|]| | | |] eqn:E2; try discriminate.
  destruct (act_mono m1 u) as [[[sg1 t']|]| | | |] eqn:E1; try discriminate.
  inversion E; subst t'.
  rewrite (H1 u sg1 t) by (try exact E1; rewrite (AlgebraBasics.act_mono_length _ _ _ _ E2); exact Hs).
  rewrite (H2 s sg2 u Hs E2). ring.
Qed.

Lemma shift_by_mono : forall N d m, ushift N d -> mono_in_range N m -> exists x, shift_by N d m x.
Proof.
  intros N d m Hu. induction m as [|o m IH]; intros Hm.
  - exists k0. intros s sg t Hs E. cbn [act_mono] in E. inversion E; subst. ring.
  - apply mono_in_range_cons in Hm. destruct Hm as [Ho Hm].
    destruct (shift_by_op N d o Hu Ho) as [x1 H1]. destruct (IH Hm) as [x2 H2].
    exists (kadd x2 x1). change (o :: m) with ([o] ++ m). apply shift_by_app; assumption.
Qed.

(** closure properties of [ushift] *)
Lemma ushift_ext : forall N d d', (forall s, length s = N -> d s = d' s) -> ushift N d -> ushift N d'.
Proof.
  intros N d d' He Hu i Hi. destruct (Hu i Hi) as [q Hq]. exists q. intros s Hs Ho.
  rewrite <- !He by (try rewrite AlgebraBasics.upd_length; exact Hs). apply Hq; assumption.
Qed.
Lemma ushift_const : forall N c, ushift N (fun _ => c).
Proof. intros N c i Hi. exists k0. intros. ring. Qed.
Lemma ushift_add : forall N d1 d2, ushift N d1 -> ushift N d2 -> ushift N (fun s => kadd (d1 s) (d2 s)).
Proof.
  intros N d1 d2 H1 H2 i Hi. destruct (H1 i Hi) as [q1 Hq1]. destruct (H2 i Hi) as [q2 Hq2].
  exists (kadd q1 q2). intros s Hs Ho. rewrite Hq1, Hq2 by assumption. ring.
Qed.
Lemma ushift_sub : forall N d1 d2, ushift N d1 -> ushift N d2 -> ushift N (fun s => ksub (d1 s) (d2 s)).
Proof.
  intros N d1 d2 H1 H2 i Hi. destruct (H1 i Hi) as [q1 Hq1]. destruct (H2 i Hi) as [q2 Hq2].
  exists (ksub q1 q2). intros s Hs Ho. rewrite Hq1, Hq2 by assumption. ring.
Qed.
Lemma ushift_scale : forall N a d, ushift N d -> ushift N (fun s => kmul a (d s)).
Proof.
  intros N a d H i Hi. destruct (H i Hi) as [q Hq].
  exists (kmul a q). intros s Hs Ho. rewrite Hq by assumption. ring.
Qed.
Lemma ushift_ksum : forall N (A : Type) (l : list A) (f : A -> state -> K),
  (forall a, In a l -> ushift N (f a)) -> ushift N (fun s => ksum l (fun a => f a s)).
Proof.
  intros N A l f. induction l as [|a l IH]; intros H.
  - apply (ushift_ext N (fun _ => k0)); [intros; rewrite L_ksum_nil; reflexivity|apply ushift_const].
  - apply (ushift_ext N (fun s => kadd (f a s) (ksum l (fun a => f a s)))).
    + intros s _. rewrite L_ksum_cons. reflexivity.
    + apply ushift_add; [apply H; left; reflexivity|apply IH; intros b Hb; apply H; right; exact Hb].
Qed.
(** the occupation number of mode k *)
Definition occ (k : nat) (s : state) : K := if nth k s false then k1 else k0.
Lemma ushift_occ : forall N k, ushift N (occ k).
Proof.
  intros N k i Hi. exists (if Nat.eqb k i then k1 else k0). intros s Hs Ho. unfold occ.
  destruct (Nat.eqb k i) eqn:E.
  - apply Nat.eqb_eq in E. subst k. rewrite AlgebraBasics.nth_upd_same by lia. rewrite Ho. ring.
  - apply Nat.eqb_neq in E. rewrite AlgebraBasics.nth_upd_other by congruence. ring.
Qed.
Lemma cp_n_diag : forall i s, i < length s -> cp (p_n i) s s = occ i s.
Proof. intros i s Hi. rewrite L_cp_n by exact Hi. rewrite state_eqb_refl. reflexivity. Qed.

(** N shifts uniformly *)
Lemma uniform_shift_N : forall N, uniform_shift N (p_N N).
Proof.
  intros N. unfold uniform_shift.
  apply (ushift_ext N (fun s => ksum (seq 0 N) (fun i => occ i s))).
  - intros s Hs. rewrite (p_N_sem K k0 k1 kadd kmul ksub kopp kzero Hring). apply L_ksum_ext.
    intros i Hi. apply in_seq in Hi. symmetry. apply cp_n_diag. lia.
  - apply ushift_ksum. intros i _. apply ushift_occ.
Qed.

(** S_z shifts uniformly (whenever its constructor succeeds) *)
Lemma uniform_shift_Sz : forall N ups P, Forall (fun i => i < N) ups -> p_Sz N ups = Done P -> uniform_shift N P.
Proof.
  intros N ups P Hu. unfold Poly.p_Sz, Poly.p_Sz_lists.
  destruct (length ups =? length (sz_down N ups)); [|discriminate]. intro E. inversion E as [HP]. clear E HP.
  unfold uniform_shift.
  apply (ushift_ext N (fun s => kadd k0 (ksum (combine ups (sz_down N ups))
           (fun ud => ksub (kmul khalf (occ (fst ud) s)) (kmul khalf (occ (snd ud) s)))))).
  - intros s Hs. rewrite (p_Sz_sem_gen K k0 k1 kadd kmul ksub kopp kzero Hring), L_cp_nil. f_equal.
    apply L_ksum_ext. intros [u d] Hud. cbn [fst snd].
    assert (Hu' : u < N) by (apply in_combine_l in Hud; rewrite Forall_forall in Hu; apply Hu; exact Hud).
    assert (Hd' : d < N).
    { apply in_combine_r in Hud. pose proof (sz_down_range N ups) as Hr. rewrite Forall_forall in Hr. apply Hr; exact Hud. }
    rewrite !cp_n_diag by lia. reflexivity.
  - apply ushift_add; [apply ushift_const|]. apply ushift_ksum. intros ud _.
    apply ushift_sub; apply ushift_scale; apply ushift_occ.
Qed.

(** every operator whose diagonal is a linear form in the occupation numbers shifts uniformly *)
Definition lin_form (c0 : K) (terms : list (K * nat)) (s : state) : K :=
  kadd c0 (ksum terms (fun qk => kmul (fst qk) (occ (snd qk) s))).
Lemma uniform_shift_linear : forall N Q c0 terms,
  (forall s, length s = N -> cp Q s s = lin_form c0 terms s) -> uniform_shift N Q.
Proof.
  intros N Q c0 terms H. unfold uniform_shift.
  apply (ushift_ext N (lin_form c0 terms)); [intros s Hs; symmetry; apply H; exact Hs|].
  unfold lin_form. apply ushift_add; [apply ushift_const|]. apply ushift_ksum. intros qk _.
  apply ushift_scale. apply ushift_occ.
Qed.

(** ** Single target *)

Lemma qnf_cons : forall Q r s, qnf (Q :: r) s = cp Q s s :: qnf r s.
Proof. reflexivity. Qed.

(** if every operator of the list shifts uniformly, a monomial maps states with equal quantum numbers
    to states with equal quantum numbers -- and conversely *)
Lemma qnf_shift : forall N ops m, Forall (uniform_shift N) ops -> mono_in_range N m ->
  forall s s' sg sg' t t', length s = N -> length s' = N ->
  act_mono m s = Done (Some (sg, t)) -> act_mono m s' = Done (Some (sg', t')) ->
  (qnf ops s = qnf ops s' <-> qnf ops t = qnf ops t').
Proof.
  intros N ops m Hu Hm s s' sg sg' t t' Hs Hs' E E'.
  induction Hu as [|Q r HQ Hr IH]; [cbn; tauto|].
  rewrite !qnf_cons. destruct (shift_by_mono N (fun u => cp Q u u) m HQ Hm) as [x Hx].
  pose proof (Hx s sg t Hs E) as H1. pose proof (Hx s' sg' t' Hs' E') as H2. cbn beta in H1, H2.
  split; intro H; inversion H as [[Hh Ht]]; f_equal; try (apply IH; exact Ht).
  - rewrite H1, H2, Hh. reflexivity.
  - transitivity (ksub (kadd (cp Q s s) x) x); [ring|]. rewrite <- H1, Hh, H2. ring.
Qed.

Section WithClass.
Variables (N : nat) (ops : list poly) (c : qclass K).
Hypothesis Hops : Forall (poly_in_range N) ops.
Hypothesis Ec : sc_compute N ops = Done c.

Let I : SInv N ops c := sc_compute_inv N ops c Hops Ec.

Definition blk (s : nat) : nat := nth s (sc_sbi c) 0.

Lemma kfN_label : forall t, length t = N -> kfN N ops (nat_of_state t) = qnf ops t.
Proof. intros t Ht. unfold kfN. rewrite <- Ht, state_of_nat_of_state. reflexivity. Qed.

Lemma label_lt : forall t, length t = N -> nat_of_state t < Nat.pow 2 N.
Proof. intros t Ht. rewrite <- Ht. apply nat_of_state_lt. Qed.

(** [single_target]: all non-vanishing images of the states of one block lie in one block;
    and the images of different blocks lie in different blocks *)
Theorem single_target_gen : forall m, Forall (uniform_shift N) ops -> mono_in_range N m ->
  forall s s' sg sg' t t', s < Nat.pow 2 N -> s' < Nat.pow 2 N ->
  act_mono m (state_of_nat N s) = Done (Some (sg, t)) ->
  act_mono m (state_of_nat N s') = Done (Some (sg', t')) ->
  (blk s = blk s' <-> blk (nat_of_state t) = blk (nat_of_state t')).
Proof.
  intros m Hu Hm s s' sg sg' t t' Hs Hs' E E'.
  pose proof (AlgebraBasics.act_mono_length _ _ _ _ E) as Ht. rewrite state_of_nat_length in Ht.
  pose proof (AlgebraBasics.act_mono_length _ _ _ _ E') as Ht'. rewrite state_of_nat_length in Ht'.
  unfold blk.
  rewrite (same_block_iff_same_key _ _ _ _ _ I s s' Hs Hs').
  rewrite (same_block_iff_same_key _ _ _ _ _ I _ _ (label_lt t Ht) (label_lt t' Ht')).
  rewrite !kfN_label by assumption. unfold kfN.
  apply (qnf_shift N ops m Hu Hm _ _ sg sg'); try assumption; apply state_of_nat_length.
Qed.

(** ** mapsTo and prepare for a one-monomial operator (c_i, c^+_i, c^+_i c_j) *)
Hypothesis H10 : k1 <> k0.

Local Notation first_image := (first_image K kadd kopp kzero).
Local Notation mapsTo := (mapsTo K kadd kopp kzero).
Local Notation prepare := (prepare K kadd kopp kzero).

Lemma kzero_k1 : kzero k1 = false.
Proof. destruct (kzero k1) eqn:E; [apply kzero_iff in E; contradiction|reflexivity]. Qed.
Lemma kzero_opp_k1 : kzero (kopp k1) = false.
Proof.
  destruct (kzero (kopp k1)) eqn:E; [|reflexivity]. apply kzero_iff in E. exfalso. apply H10.
  transitivity (kopp (kopp k1)); [ring|]. rewrite E. ring.
Qed.

Lemma first_image_spec : forall m states, mono_in_range N m ->
  exists o, first_image N [(m, k1)] states = Done o /\
    match o with
    | None => forall s, In s states -> act_mono m (state_of_nat N s) = Done None
    | Some tl => exists s sg t, In s states /\ act_mono m (state_of_nat N s) = Done (Some (sg, t)) /\
                                tl = nat_of_state t
    end.
Proof.
  intros m states Hm. induction states as [|s r IH].
  - exists None. split; [reflexivity|]. intros s [].
  - cbn [Symm.first_image]. unfold Poly.act_poly. cbn [fold_left bind fst snd].
    destruct (act_mono_in_range N m (state_of_nat N s) Hm (state_of_nat_length N s)) as [res Hres].
    rewrite Hres. destruct res as [[sg t]|].
    + cbn [bind Poly.lc_add Symm.min_label].
      assert (Hz : kzero (if sg then kopp k1 else k1) = false) by (destruct sg; [apply kzero_opp_k1|apply kzero_k1]).
      rewrite Hz. exists (Some (nat_of_state t)). split; [reflexivity|].
      exists s, sg, t. split; [left; reflexivity|]. split; [exact Hres|reflexivity].
    + cbn [bind Symm.min_label]. destruct IH as [o [Eo Ho]]. exists o. split; [exact Eo|].
      destruct o as [tl|].
      * destruct Ho as [s' [sg [t [Hin [E1 E2]]]]]. exists s', sg, t. split; [right; exact Hin|]. split; assumption.
      * intros s' [->|Hin]; [exact Hres|apply Ho; exact Hin].
Qed.

(** the transitions of m between blocks that really occur *)
Definition maps (m : monomial) (R L : nat) : Prop :=
  exists s sg t, In s (nth R (sc_blocks c) []) /\ act_mono m (state_of_nat N s) = Done (Some (sg, t)) /\
                 blk (nat_of_state t) = L.

Lemma mapsTo_spec : forall m R, mono_in_range N m -> R < numberOfBlocks c ->
  exists o, mapsTo N c [(m, k1)] R = Done o /\
    match o with
    | None => forall L, ~ maps m R L
    | Some L => maps m R L /\ L < numberOfBlocks c
    end.
Proof.
  intros m R Hm HR. unfold Symm.mapsTo.
  rewrite (block_nth_error _ _ R HR).
  destruct (first_image_spec m (nth R (sc_blocks c) []) Hm) as [o [Eo Ho]]. rewrite Eo. cbn [bind].
  destruct o as [tl|].
  - destruct Ho as [s [sg [t [Hin [E ->]]]]].
    pose proof (AlgebraBasics.act_mono_length _ _ _ _ E) as Ht. rewrite state_of_nat_length in Ht.
    rewrite (gbn_ok _ _ _ _ _ I _ (label_lt t Ht)). cbn [bind].
    exists (Some (blk (nat_of_state t))). split; [reflexivity|]. split.
    + exists s, sg, t. split; [exact Hin|]. split; [exact E|reflexivity].
    + apply (block_lt _ _ _ _ _ I). apply label_lt. exact Ht.
  - exists None. split; [reflexivity|]. intros L [s [sg [t [Hin [E _]]]]]. rewrite (Ho s Hin) in E. discriminate.
Qed.

Section Uniform.
Hypothesis Hu : Forall (uniform_shift N) ops.
Variable m : monomial.
Hypothesis Hm : mono_in_range N m.

Lemma maps_functional : forall R L L', R < numberOfBlocks c -> maps m R L -> maps m R L' -> L = L'.
Proof.
  intros R L L' HR [s [sg [t [Hin [E HL]]]]] [s' [sg' [t' [Hin' [E' HL']]]]].
  apply (in_block_iff _ _ _ _ _ I R s HR) in Hin. apply (in_block_iff _ _ _ _ _ I R s' HR) in Hin'.
  destruct Hin as [Hs Hb]. destruct Hin' as [Hs' Hb'].
  rewrite <- HL, <- HL'. apply (single_target_gen m Hu Hm s s' sg sg' t t' Hs Hs' E E').
  unfold blk. congruence.
Qed.

Lemma maps_injective : forall R R' L, R < numberOfBlocks c -> R' < numberOfBlocks c ->
  maps m R L -> maps m R' L -> R = R'.
Proof.
  intros R R' L HR HR' [s [sg [t [Hin [E HL]]]]] [s' [sg' [t' [Hin' [E' HL']]]]].
  apply (in_block_iff _ _ _ _ _ I R s HR) in Hin. apply (in_block_iff _ _ _ _ _ I R' s' HR') in Hin'.
  destruct Hin as [Hs Hb]. destruct Hin' as [Hs' Hb'].
  rewrite <- Hb, <- Hb'. apply (single_target_gen m Hu Hm s s' sg sg' t t' Hs Hs' E E'). congruence.
Qed.

(** the loop of prepare(): with a functional, injective block map no insertion into the bimap is
    refused and no part-map entry is overwritten *)
Lemma prepare_loop_spec : forall (l : list nat) (f0 : fieldop),
  NoDup l -> (forall R, In R l -> R < numberOfBlocks c) ->
  fo_bimap f0 = fo_parts f0 ->
  (forall L R, In (L, R) (fo_parts f0) -> R < numberOfBlocks c /\ maps m R L /\ ~ In R l) ->
  exists f, prepare_loop (mapsTo N c [(m, k1)]) l f0 = Done f /\
    fo_bimap f = fo_parts f /\
    (forall L R, In (L, R) (fo_parts f) <-> In (L, R) (fo_parts f0) \/ (In R l /\ maps m R L)).
Proof.
  induction l as [|R l IH]; intros f0 Hnd Hl Hbp H0.
  - exists f0. split; [reflexivity|]. split; [exact Hbp|]. intros L R. cbn [In]. tauto.
  - inversion Hnd as [|x y HRl Hnd']; subst. cbn [prepare_loop]. unfold prepare_step.
    assert (HR : R < numberOfBlocks c) by (apply Hl; left; reflexivity).
    destruct (mapsTo_spec m R Hm HR) as [o [Eo Ho]]. rewrite Eo. cbn [bind].
    destruct o as [L|].
    + destruct Ho as [HmL HL].
      assert (Hfresh : existsb (fun lr => Nat.eqb (fst lr) L || Nat.eqb (snd lr) R) (fo_bimap f0) = false).
      { apply not_true_is_false. intro Hex. apply existsb_exists in Hex.
        destruct Hex as [[L' R'] [Hin Hor]]. cbn [fst snd] in Hor. rewrite Hbp in Hin.
        destruct (H0 L' R' Hin) as [HR' [Hm' Hnot]].
        apply orb_true_iff in Hor. destruct Hor as [Hor|Hor]; apply Nat.eqb_eq in Hor; subst.
        - apply Hnot. left. apply (maps_injective R R' L HR HR' HmL Hm').
        - apply Hnot. left; reflexivity. }
      destruct (IH {| fo_parts := fo_parts f0 ++ [(L, R)];
                      fo_fromRight := map_set R (length (fo_parts f0)) (fo_fromRight f0);
                      fo_fromLeft := map_set L (length (fo_parts f0)) (fo_fromLeft f0);
                      fo_bimap := bimap_insert L R (fo_bimap f0) |}) as [f [Ef [Hbpf Hf]]].
      * exact Hnd'.
      * intros R' HR'. apply Hl. right; exact HR'.
      * cbn [fo_bimap fo_parts]. unfold bimap_insert. rewrite Hfresh, Hbp. reflexivity.
      * cbn [fo_parts]. intros L' R' Hin. apply in_app_or in Hin. destruct Hin as [Hin|[Hin|[]]].
        -- destruct (H0 L' R' Hin) as [A [B C]]. split; [exact A|]. split; [exact B|]. intro Hx. apply C. right; exact Hx.
        -- inversion Hin; subst. split; [exact HR|]. split; [exact HmL|exact HRl].
      * exists f. split; [exact Ef|]. split; [exact Hbpf|]. intros L' R'. rewrite Hf. cbn [fo_parts In].
        rewrite in_app_iff. cbn [In]. split.
        -- intros [[Hin|[Hin|[]]]|[Hin Hmm]]; [left; exact Hin| |right; split; [right; exact Hin|exact Hmm]].
           inversion Hin; subst. right. split; [left; reflexivity|exact HmL].
        -- intros [Hin|[[->|Hin] Hmm]]; [left; left; exact Hin| |right; split; assumption].
           left. right. left. f_equal. apply (maps_functional R' L L' HR HmL Hmm).
    + destruct (IH f0) as [f [Ef [Hbpf Hf]]].
      * exact Hnd'.
      * intros R' HR'. apply Hl. right; exact HR'.
      * exact Hbp.
      * intros L' R' Hin. destruct (H0 L' R' Hin) as [A [B C]]. split; [exact A|]. split; [exact B|]. intro Hx. apply C. right; exact Hx.
      * exists f. split; [exact Ef|]. split; [exact Hbpf|]. intros L' R'. rewrite Hf. cbn [In]. split.
        -- intros [Hin|[Hin Hmm]]; [left; exact Hin|right; split; [right; exact Hin|exact Hmm]].
        -- intros [Hin|[[->|Hin] Hmm]]; [left; exact Hin| |right; split; assumption].
           exfalso. exact (Ho L' Hmm).
Qed.

(** prepare() selects exactly the block pairs between which the operator has a matrix element *)
Theorem prepare_complete_gen :
  exists f, prepare N c [(m, k1)] = Done f /\ fo_bimap f = fo_parts f /\
    forall L R, In (L, R) (fo_bimap f) <-> (R < numberOfBlocks c /\ maps m R L).
Proof.
  unfold Symm.prepare.
  destruct (prepare_loop_spec (seq 0 (numberOfBlocks c)) fo_empty) as [f [Ef [Hbp Hf]]].
  - apply seq_NoDup.
  - intros R HR. apply in_seq in HR. lia.
  - reflexivity.
  - intros L R [].
  - exists f. split; [exact Ef|]. split; [exact Hbp|]. intros L R. rewrite Hbp, Hf. cbn [fo_parts fo_empty In].
    rewrite in_seq. split.
    + intros [[]|[H1 H2]]. split; [lia|exact H2].
    + intros [H1 H2]. right. split; [lia|exact H2].
Qed.

End Uniform.
End WithClass.

(** ** The repaired acceptance test implies uniform shift *)

Lemma p_cdag_in_range : forall N i, i < N -> poly_in_range N (p_cdag i).
Proof. intros N i Hi. constructor; [|constructor]. cbn [fst]. constructor; [exact Hi|constructor]. Qed.
Lemma p_c_in_range : forall N i, i < N -> poly_in_range N (p_c i).
Proof. intros N i Hi. constructor; [|constructor]. cbn [fst]. constructor; [exact Hi|constructor]. Qed.
Lemma p_n_offdiag_in_range : forall N i j, i < N -> j < N -> poly_in_range N (p_n_offdiag i j).
Proof.
  intros N i j Hi Hj. constructor; [|constructor]. cbn [fst]. constructor; [exact Hi|]. constructor; [exact Hj|constructor].
Qed.

Lemma shift_test_i_sound : forall N Q i, poly_in_range N Q -> diagonal N Q -> i < N ->
  shift_test_i N Q i = Done true ->
  exists q, forall s, length s = N -> nth i s false = false ->
    cp Q (upd i true s) (upd i true s) = kadd (cp Q s s) q.
Proof.
  intros N Q i HQ Hd Hi. unfold Symm.shift_test_i.
  destruct (commutator Q (p_cdag i)) as [comm| | | |] eqn:Ec; try discriminate. cbn [bind].
  destruct (get_melem comm (upd i true (zeros N)) (zeros N)) as [q| | | |] eqn:Eq; try discriminate. cbn [bind].
  intro Heq. apply L_eq in Heq. exists q. intros s Hs Ho.
  set (t := upd i true s).
  assert (Ht : length t = N) by (unfold t; rewrite AlgebraBasics.upd_length; exact Hs).
  pose proof (L_commutator N Q (p_cdag i) comm s t HQ (p_cdag_in_range N i Hi) Hs Ht Ec) as E.
  rewrite Heq, L_pscale in E.
  assert (Eact : act_mono [cdag i] s = Done (Some (par i s, t))).
  { rewrite act_mono_single', act_op_cdag by lia. rewrite Ho. reflexivity. }
  assert (Hcd : forall u, cp (p_cdag i) s u = kadd (kmul k1 (cm [cdag i] s u)) k0).
  { intros u. unfold Poly.p_cdag. rewrite L_cp_cons, L_cp_nil. reflexivity. }
  rewrite (L_single N t) in E; [|exact Ht|].
  2:{ intros u Hu Hut. rewrite Hcd, (cm_other K k0 k1 kopp _ _ _ _ u Eact Hut). ring. }
  rewrite (L_single N s) in E; [|exact Hs|].
  2:{ intros u Hu Hus. rewrite (Hd s u Hs Hu) by congruence. ring. }
  rewrite Hcd, (cm_unit K k0 k1 kopp _ _ _ _ Eact) in E.
  fold t. set (Qt := cp Q t t) in *. set (Qs := cp Q s s) in *.
  destruct (par i s).
  - transitivity (kadd (kopp (ksub (kmul Qt (kadd (kmul k1 (kopp k1)) k0)) (kmul (kadd (kmul k1 (kopp k1)) k0) Qs))) Qs); [ring|].
    rewrite <- E. ring.
  - transitivity (kadd (ksub (kmul Qt (kadd (kmul k1 k1) k0)) (kmul (kadd (kmul k1 k1) k0) Qs)) Qs); [ring|].
    rewrite <- E. ring.
Qed.

Theorem shift_test_sound : forall N H Q, poly_in_range N Q ->
  check_symmetry true N H Q = Done true -> uniform_shift N Q.
Proof.
  intros N H Q HQ Hacc. pose proof (accepted_is_diagonal_gen _ _ _ _ HQ Hacc) as Hd.
  destruct (check_symmetry_true _ _ _ _ Hacc) as [_ [_ Hs]]. specialize (Hs eq_refl).
  intros i Hi. apply (shift_test_i_sound N Q i HQ Hd Hi). apply Hs. exact Hi.
Qed.

(** * Part E: totality *)

(** ** the operator algebra keeps indices in range *)
Local Notation insert := (Poly.insert K kadd kzero).
Local Notation insert_sub := (Poly.insert_sub K ksub kopp kzero).
Local Notation pass := (Poly.pass K kopp).
Local Notation nai := (Poly.normalize_and_insert K kadd kopp kzero).
Local Notation normalize := (Poly.normalize K kadd kopp kzero).

Lemma insert_range : forall N m c p, mono_in_range N m -> poly_in_range N p -> poly_in_range N (insert m c p).
Proof.
  intros N m c p Hm. induction p as [|[m' c'] p IH]; intro Hp; cbn [Poly.insert].
  - constructor; [exact Hm|constructor].
  - inversion Hp as [|x y Hh Ht]; subst. destruct (mono_compare m m').
    + destruct (kzero (kadd c' c)); [exact Ht|constructor; assumption].
    + constructor; [exact Hm|exact Hp].
    + constructor; [exact Hh|apply IH; exact Ht].
Qed.
Lemma insert_sub_range : forall N m c p, mono_in_range N m -> poly_in_range N p -> poly_in_range N (insert_sub m c p).
Proof.
  intros N m c p Hm. induction p as [|[m' c'] p IH]; intro Hp; cbn [Poly.insert_sub].
  - constructor; [exact Hm|constructor].
  - inversion Hp as [|x y Hh Ht]; subst. destruct (mono_compare m m').
    + destruct (kzero (ksub c' c)); [exact Ht|constructor; assumption].
    + constructor; [exact Hm|exact Hp].
    + constructor; [exact Hh|apply IH; exact Ht].
Qed.

Lemma pass_range : forall N rec,
  (forall m c tgt tgt', mono_in_range N m -> poly_in_range N tgt -> rec m c tgt = Done tgt' -> poly_in_range N tgt') ->
  forall rest d p c tgt sw,
  poly_in_range N tgt -> mono_in_range N d -> op_idx p < N -> mono_in_range N rest ->
  match pass rec d p rest c tgt sw with
  | PassVanish _ tgt' => poly_in_range N tgt'
  | PassEnd _ m' _ tgt' _ => poly_in_range N tgt' /\ mono_in_range N m'
  | PassFail _ _ => True
  end.
Proof.
  intros N rec Hrec. induction rest as [|cur rest IH]; intros d p c tgt sw Ht Hd Hp Hr.
  - rewrite pass_nil. split; [exact Ht|]. cbn [rev]. apply AlgebraProofs.mono_in_range_app.
    + unfold mono_in_range in *. apply Forall_rev. exact Hd.
    + constructor; [exact Hp|constructor].
  - rewrite pass_cons. apply NormalizeProofs.mono_in_range_cons in Hr. destruct Hr as [Hcur Hr].
    destruct (op_eqb p cur); [exact Ht|].
    destruct (op_gtb p cur).
    + destruct (op_eqb p (flip_type cur)).
      * destruct (rec (rev d ++ rest) c tgt) as [tgt1| | | |] eqn:Er; try exact Logic.I.
        assert (Hdr : mono_in_range N (rev d ++ rest)).
        { apply AlgebraProofs.mono_in_range_app; [unfold mono_in_range in *; apply Forall_rev; exact Hd|exact Hr]. }
        apply IH; try assumption.
        -- apply (Hrec _ _ _ _ Hdr Ht Er).
        -- apply NormalizeProofs.mono_in_range_cons. split; assumption.
      * apply IH; try assumption. apply NormalizeProofs.mono_in_range_cons. split; assumption.
    + apply IH; try assumption. apply NormalizeProofs.mono_in_range_cons. split; assumption.
Qed.

Lemma nai_range : forall N f m c tgt tgt', mono_in_range N m -> poly_in_range N tgt ->
  nai f m c tgt = Done tgt' -> poly_in_range N tgt'.
Proof.
  intros N. induction f as [|f IHf]; intros m c tgt tgt' Hm Ht H; [rewrite nai_O in H; discriminate|].
  rewrite NormalizeProofs.nai_S in H.
  destruct m as [|first [|x r]].
  - inversion H; subst. apply insert_range; assumption.
  - inversion H; subst. apply insert_range; assumption.
  - apply NormalizeProofs.mono_in_range_cons in Hm. destruct Hm as [Hf Hm].
    pose proof (pass_range N (nai f) (fun m c t t' => IHf m c t t') (x :: r) [] first c tgt false Ht (Forall_nil _) Hf Hm) as HP.
    pose proof (pass_fail_not_done K kopp (nai f) (x :: r) [] first c tgt false) as HF.
    destruct (pass (nai f) [] first (x :: r) c tgt false) as [tgt1|m' c' tgt1 [|]|e].
    + inversion H; subst. exact HP.
    + destruct HP as [H1 H2]. eapply IHf; eauto.
    + destruct HP as [H1 H2]. inversion H; subst. apply insert_range; assumption.
    + exfalso. eapply HF; [reflexivity|exact H].
Qed.

Lemma normalize_range : forall N m c tgt tgt', mono_in_range N m -> poly_in_range N tgt ->
  normalize m c tgt = Done tgt' -> poly_in_range N tgt'.
Proof. intros N m c tgt tgt' Hm Ht H. unfold Poly.normalize in H. eapply nai_range; eauto. Qed.

Lemma pmul_range : forall N a b ab, poly_in_range N a -> poly_in_range N b -> pmul a b = Done ab -> poly_in_range N ab.
Proof.
  intros N a b ab Ha Hb. unfold Poly.pmul.
  assert (Hgen : forall a acc0 r, poly_in_range N a -> poly_in_range N acc0 ->
    fold_left (fun acc mc => fold_left (fun acc' mc' =>
      bind acc' (fun t => normalize (fst mc ++ fst mc') (kmul (snd mc) (snd mc')) t)) b acc) a (Done acc0) = Done r ->
    poly_in_range N r).
  { clear a Ha ab. intros a. induction a as [|[m c] a IHa]; intros acc0 r Ha Hacc E.
    - cbn [fold_left] in E. inversion E; subst. exact Hacc.
    - inversion Ha as [|x y Hm Ha']; subst. cbn [fst] in Hm. cbn [fold_left fst snd] in E.
      assert (Hin : forall b' acc1 o, poly_in_range N b' -> poly_in_range N acc1 ->
                fold_left (fun acc' mc' => bind acc' (fun t => normalize (m ++ fst mc') (kmul c (snd mc')) t)) b' (Done acc1) = o ->
                match o with Done r' => poly_in_range N r' | _ => True end).
      { intros b'. induction b' as [|[m' c'] b' IHb]; intros acc1 o Hb' Hacc1 Eo.
        - cbn [fold_left] in Eo. subst o. exact Hacc1.
        - inversion Hb' as [|x y Hm' Hb'']; subst. cbn [fst] in Hm'. cbn [fold_left bind fst snd].
          destruct (normalize (m ++ m') (kmul c c') acc1) as [t1| | | |] eqn:En.
          + apply (IHb t1 _ Hb''); [|reflexivity].
            assert (Hmm : mono_in_range N (m ++ m')) by (apply AlgebraProofs.mono_in_range_app; assumption).
            apply (normalize_range N _ _ _ _ Hmm Hacc1 En).
          + clear. induction b' as [|x b' IH]; cbn [fold_left bind]; [exact Logic.I|exact IH].
          + clear. induction b' as [|x b' IH]; cbn [fold_left bind]; [exact Logic.I|exact IH].
          + clear. induction b' as [|x b' IH]; cbn [fold_left bind]; [exact Logic.I|exact IH].
          + clear. induction b' as [|x b' IH]; cbn [fold_left bind]; [exact Logic.I|exact IH]. }
      specialize (Hin b acc0 _ Hb Hacc eq_refl).
      destruct (fold_left (fun acc' mc' => bind acc' (fun t => normalize (m ++ fst mc') (kmul c (snd mc')) t)) b (Done acc0)) as [r1| | | |] eqn:E1.
      + apply (IHa r1 r Ha' Hin E).
      + exfalso. clear -E. induction a as [|x a IH]; cbn [fold_left] in E; [discriminate|].
        apply IH. rewrite <- E. f_equal. clear. induction b as [|y b IH]; cbn [fold_left bind]; [reflexivity|exact IH].
      + exfalso. clear -E. induction a as [|x a IH]; cbn [fold_left] in E; [discriminate|].
        apply IH. rewrite <- E. f_equal. clear. induction b as [|y b IH]; cbn [fold_left bind]; [reflexivity|exact IH].
      + exfalso. clear -E. induction a as [|x a IH]; cbn [fold_left] in E; [discriminate|].
        apply IH. rewrite <- E. f_equal. clear. induction b as [|y b IH]; cbn [fold_left bind]; [reflexivity|exact IH].
      + exfalso. clear -E. induction a as [|x a IH]; cbn [fold_left] in E; [discriminate|].
        apply IH. rewrite <- E. f_equal. clear. induction b as [|y b IH]; cbn [fold_left bind]; [reflexivity|exact IH]. }
  intro E. apply (Hgen a [] ab Ha (Forall_nil _) E).
Qed.

Lemma psub_range : forall N a b, poly_in_range N a -> poly_in_range N b -> poly_in_range N (psub a b).
Proof.
  intros N a b Ha Hb. unfold Poly.psub. revert a Ha. induction Hb as [|[m c] b Hm Hb IH]; intros a Ha; cbn [fold_left]; [exact Ha|].
  apply IH. apply insert_sub_range; assumption.
Qed.
Lemma padd_range : forall N a b, poly_in_range N a -> poly_in_range N b -> poly_in_range N (padd a b).
Proof.
  intros N a b Ha Hb. unfold Poly.padd. revert a Ha. induction Hb as [|[m c] b Hm Hb IH]; intros a Ha; cbn [fold_left]; [exact Ha|].
  apply IH. apply insert_range; assumption.
Qed.
Lemma pscale_range : forall N x a, poly_in_range N a -> poly_in_range N (pscale x a).
Proof.
  intros N x a Ha. unfold Poly.pscale. destruct (kzero x); [constructor|].
  induction Ha as [|[m c] a Hm Ha IH]; cbn [map]; constructor; assumption.
Qed.
Lemma commutator_range : forall N a b r, poly_in_range N a -> poly_in_range N b -> commutator a b = Done r -> poly_in_range N r.
Proof.
  intros N a b r Ha Hb. unfold Poly.commutator.
  destruct (pmul a b) as [ab| | | |] eqn:E1; try discriminate.
  destruct (pmul b a) as [ba| | | |] eqn:E2; try discriminate. cbn [bind]. intro E. inversion E; subst.
  apply psub_range; [apply (pmul_range N a b ab Ha Hb E1)|apply (pmul_range N b a ba Hb Ha E2)].
Qed.

(** ** nothing in the analysis fails *)

Lemma commutes_total : forall a b : poly, exists r, commutes a b = Done r.
Proof.
  intros a b. unfold Poly.commutes.
  destruct (pmul_total K kadd kmul kopp kzero a b) as [ab E1]. destruct (pmul_total K kadd kmul kopp kzero b a) as [ba E2].
  rewrite E1, E2. cbn [bind]. apply poly_eq_total_gen.
Qed.

Lemma commutator_total : forall a b : poly, exists r, commutator a b = Done r.
Proof.
  intros a b. unfold Poly.commutator.
  destruct (pmul_total K kadd kmul kopp kzero a b) as [ab E1]. destruct (pmul_total K kadd kmul kopp kzero b a) as [ba E2].
  rewrite E1, E2. cbn [bind]. eauto.
Qed.

Lemma commutes_all_n_total : forall l op, exists r, commutes_all_n l op = Done r.
Proof.
  induction l as [|i l IH]; intros op; cbn [Symm.commutes_all_n]; [eauto|].
  destruct (commutes_total (p_n i) op) as [b E]. rewrite E. cbn [bind]. destruct b; [apply IH|eauto].
Qed.

Lemma zeros_length : forall N, length (zeros N) = N.
Proof. intros N. apply repeat_length. Qed.

Lemma shift_test_i_total : forall N Q i, poly_in_range N Q -> i < N -> exists r, shift_test_i N Q i = Done r.
Proof.
  intros N Q i HQ Hi. unfold Symm.shift_test_i.
  destruct (commutator_total Q (p_cdag i)) as [comm Ec]. rewrite Ec. cbn [bind].
  rewrite (get_melem_sound N comm).
  - cbn [bind]. apply poly_eq_total_gen.
  - apply (commutator_range N Q (p_cdag i) comm HQ (p_cdag_in_range N i Hi) Ec).
  - apply zeros_length.
  - rewrite AlgebraBasics.upd_length. apply zeros_length.
Qed.

Lemma shift_test_all_total : forall N Q l, poly_in_range N Q -> (forall i, In i l -> i < N) ->
  exists r, shift_test_all N l Q = Done r.
Proof.
  intros N Q l HQ. induction l as [|i l IH]; intros Hl; cbn [Symm.shift_test_all]; [eauto|].
  destruct (shift_test_i_total N Q i HQ (Hl i (or_introl eq_refl))) as [b E]. rewrite E. cbn [bind].
  destruct b; [apply IH; intros j Hj; apply Hl; right; exact Hj|eauto].
Qed.

Lemma check_symmetry_total : forall sf N H Q, poly_in_range N Q -> exists r, check_symmetry sf N H Q = Done r.
Proof.
  intros sf N H Q HQ. unfold Symm.check_symmetry.
  destruct (commutes_total H Q) as [b1 E1]. rewrite E1. cbn [bind]. destruct b1; [|eauto].
  destruct (commutes_all_n_total (seq 0 N) Q) as [b2 E2]. rewrite E2. cbn [bind]. destruct b2; [|eauto].
  destruct sf; [|eauto]. apply shift_test_all_total; [exact HQ|]. intros i Hi. apply in_seq in Hi. lia.
Qed.

Local Notation sy_offer := (sy_offer K k0 k1 kadd kmul ksub kopp kzero).
Local Notation compute_custom_loop := (compute_custom_loop K k0 k1 kadd kmul ksub kopp kzero).
Local Notation compute_custom := (compute_custom K k0 k1 kadd kmul ksub kopp kzero).
Local Notation compute_default := (compute_default K k0 k1 kadd kmul ksub kopp kzero khalf).
Local Notation symmetrize := (symmetrize K k0 k1 kadd kmul ksub kopp kzero khalf).
Local Notation analyse := (analyse K k0 k1 kadd kmul ksub kopp kzero khalf).

(** what a Symmetrizer state is expected to satisfy: accepted operators are in range and were accepted *)
Definition symm_ok (sf : bool) (N : nat) (H : poly) (sy : symm K) : Prop :=
  Forall (poly_in_range N) (sy_ops sy) /\
  Forall (fun Q => check_symmetry sf N H Q = Done true) (sy_ops sy).

Lemma sy_offer_ok : forall sf N H sy Q, poly_in_range N Q -> symm_ok sf N H sy ->
  exists sy', sy_offer sf N H sy Q = Done sy' /\ symm_ok sf N H sy' /\
              (forall P, In P (sy_ops sy') -> In P (sy_ops sy) \/ P = Q).
Proof.
  intros sf N H sy Q HQ [H1 H2]. unfold Symm.sy_offer.
  destruct (check_symmetry_total sf N H Q HQ) as [b E]. rewrite E. cbn [bind].
  eexists. split; [reflexivity|]. cbn [sy_ops]. destruct b.
  - split; [split|].
    + apply Forall_app. split; [exact H1|constructor; [exact HQ|constructor]].
    + apply Forall_app. split; [exact H2|constructor; [exact E|constructor]].
    + intros P HP. apply in_app_or in HP. destruct HP as [HP|[HP|[]]]; [left; exact HP|right; symmetry; exact HP].
  - split; [split; assumption|]. intros P HP. left; exact HP.
Qed.

Lemma compute_custom_loop_ok : forall sf N H cands sy, Forall (poly_in_range N) cands -> symm_ok sf N H sy ->
  exists sy', compute_custom_loop sf N H cands sy = Done sy' /\ symm_ok sf N H sy' /\
              (forall P, In P (sy_ops sy') -> In P (sy_ops sy) \/ In P cands).
Proof.
  intros sf N H cands. induction cands as [|Q r IH]; intros sy Hc Hs; cbn [Symm.compute_custom_loop].
  - exists sy. split; [reflexivity|]. split; [exact Hs|]. intros P HP. left; exact HP.
  - inversion Hc as [|x y HQ Hr]; subst.
    destruct (sy_offer_ok sf N H sy Q HQ Hs) as [sy1 [E1 [Hs1 Hsub1]]]. rewrite E1. cbn [bind].
    destruct (IH sy1 Hr Hs1) as [sy2 [E2 [Hs2 Hsub2]]]. exists sy2. split; [exact E2|]. split; [exact Hs2|].
    intros P HP. destruct (Hsub2 P HP) as [HP1|HP1]; [|right; right; exact HP1].
    destruct (Hsub1 P HP1) as [HP2|HP2]; [left; exact HP2|right; left; symmetry; exact HP2].
Qed.

Lemma symm_ok_empty : forall sf N H, symm_ok sf N H (sy_empty K).
Proof. intros. split; constructor. Qed.

Lemma p_N_in_range : forall N, poly_in_range N (p_N N).
Proof.
  intros N. unfold Poly.p_N.
  assert (Hg : forall l acc, (forall i, In i l -> i < N) -> poly_in_range N acc ->
               poly_in_range N (fold_left (fun acc i => padd acc (p_n i)) l acc)).
  { induction l as [|i l IH]; intros acc Hl Hacc; cbn [fold_left]; [exact Hacc|].
    apply IH; [intros j Hj; apply Hl; right; exact Hj|].
    apply padd_range; [exact Hacc|apply p_n_in_range; apply Hl; left; reflexivity]. }
  apply Hg; [intros i Hi; apply in_seq in Hi; lia|constructor].
Qed.

Lemma p_Sz_in_range : forall N ups P, Forall (fun i => i < N) ups -> p_Sz N ups = Done P -> poly_in_range N P.
Proof.
  intros N ups P Hu. unfold Poly.p_Sz, Poly.p_Sz_lists.
  destruct (length ups =? length (sz_down N ups)); [|discriminate]. intro E. inversion E as [HP]. clear E HP.
  assert (Hg : forall l acc, (forall ud, In ud l -> fst ud < N /\ snd ud < N) -> poly_in_range N acc ->
    poly_in_range N (fold_left (fun acc ud => psub (padd acc (pscale khalf (p_n (fst ud)))) (pscale khalf (p_n (snd ud)))) l acc)).
  { induction l as [|ud l IH]; intros acc Hl Hacc; cbn [fold_left]; [exact Hacc|].
    apply IH; [intros x Hx; apply Hl; right; exact Hx|].
    destruct (Hl ud (or_introl eq_refl)) as [A B].
    apply psub_range; [apply padd_range; [exact Hacc|]|]; apply pscale_range; apply p_n_in_range; assumption. }
  apply Hg; [|constructor]. intros [u d] Hud. cbn [fst snd]. split.
  - apply in_combine_l in Hud. rewrite Forall_forall in Hu. apply Hu; exact Hud.
  - apply in_combine_r in Hud. pose proof (sz_down_range N ups) as Hr. rewrite Forall_forall in Hr. apply Hr; exact Hud.
Qed.

Lemma spin_up_indices_range : forall spins, Forall (fun i => i < length spins) (spin_up_indices spins).
Proof.
  intros spins. apply Forall_forall. intros i Hi. unfold spin_up_indices in Hi.
  apply filter_In in Hi. destruct Hi as [Hi _]. apply in_seq in Hi. lia.
Qed.

(** Symmetrizer::compute(bool) with the repair never throws; without it, it returns or throws exWrongLabel *)
Lemma compute_default_ok : forall sf ignore spins H,
  exists sy, compute_default true sf ignore spins H = Done sy /\ symm_ok sf (length spins) H sy /\
    (forall P, In P (sy_ops sy) -> P = p_N (length spins) \/ p_Sz (length spins) (spin_up_indices spins) = Done P).
Proof.
  intros sf ignore spins H. unfold Symm.compute_default. set (N := length spins).
  destruct ignore.
  - exists (sy_empty K). split; [reflexivity|]. split; [apply symm_ok_empty|]. intros P [].
  - destruct (sy_offer_ok sf N H (sy_empty K) (p_N N) (p_N_in_range N) (symm_ok_empty sf N H)) as [sy1 [E1 [Hs1 Hsub1]]].
    rewrite E1. cbn [bind].
    assert (Hsub1' : forall P, In P (sy_ops sy1) -> P = p_N N \/ p_Sz N (spin_up_indices spins) = Done P).
    { intros P HP. destruct (Hsub1 P HP) as [[]|HP1]. left; exact HP1. }
    destruct (valid_sz spins); [|exists sy1; split; [reflexivity|split; assumption]].
    cbn [andb]. destruct (Nat.eqb (length (spin_up_indices spins)) (length (sz_down N (spin_up_indices spins)))) eqn:El; cbn [negb].
    + unfold Poly.p_Sz at 1, Poly.p_Sz_lists. rewrite El. cbn [bind].
      match goal with |- context [sy_offer sf N H sy1 ?P] => set (Psz := P) end.
      assert (EP : p_Sz N (spin_up_indices spins) = Done Psz).
      { unfold Poly.p_Sz, Poly.p_Sz_lists. rewrite El. reflexivity. }
      destruct (sy_offer_ok sf N H sy1 Psz (p_Sz_in_range N _ Psz (spin_up_indices_range spins) EP) Hs1) as [sy2 [E2 [Hs2 Hsub2]]].
      exists sy2. split; [exact E2|]. split; [exact Hs2|].
      intros P HP. destruct (Hsub2 P HP) as [HP1|HP1]; [apply Hsub1'; exact HP1|right; subst P; exact EP].
    + exists sy1. split; [reflexivity|]. split; assumption.
Qed.

Lemma symmetrize_ok : forall sf mode spins H,
  match mode with SymmCustom _ cands => Forall (poly_in_range (length spins)) cands | _ => True end ->
  exists sy, symmetrize true sf mode spins H = Done sy /\ symm_ok sf (length spins) H sy.
Proof.
  intros sf mode spins H Hm. destruct mode as [| |cands]; cbn [Symm.symmetrize].
  - destruct (compute_default_ok sf false spins H) as [sy [E [Hs _]]]. eauto.
  - destruct (compute_default_ok sf true spins H) as [sy [E [Hs _]]]. eauto.
  - unfold Symm.compute_custom.
    destruct (compute_custom_loop_ok sf (length spins) H cands (sy_empty K) Hm (symm_ok_empty _ _ _)) as [sy [E [Hs _]]]. eauto.
Qed.

(** whenever compute(bool) returns (with or without the S_z repair): the accepted operators are N and/or S_z *)
Lemma compute_default_done : forall fz sf ignore spins H sy,
  compute_default fz sf ignore spins H = Done sy ->
  symm_ok sf (length spins) H sy /\
  (forall P, In P (sy_ops sy) -> P = p_N (length spins) \/ p_Sz (length spins) (spin_up_indices spins) = Done P).
Proof.
  intros fz sf ignore spins H sy. unfold Symm.compute_default. set (N := length spins).
  destruct ignore.
  - intro E. inversion E; subst. split; [apply symm_ok_empty|]. intros P [].
  - destruct (sy_offer_ok sf N H (sy_empty K) (p_N N) (p_N_in_range N) (symm_ok_empty sf N H)) as [sy1 [E1 [Hs1 Hsub1]]].
    rewrite E1. cbn [bind].
    assert (Hsub1' : forall P, In P (sy_ops sy1) -> P = p_N N \/ p_Sz N (spin_up_indices spins) = Done P).
    { intros P HP. destruct (Hsub1 P HP) as [[]|HP1]. left; exact HP1. }
    destruct (valid_sz spins); [|intro E; inversion E; subst; split; assumption].
    destruct (fz && negb (Nat.eqb (length (spin_up_indices spins)) (length (sz_down N (spin_up_indices spins))))).
    + intro E; inversion E; subst; split; assumption.
    + destruct (p_Sz N (spin_up_indices spins)) as [Psz| | | |] eqn:EP; try discriminate. cbn [bind].
      destruct (sy_offer_ok sf N H sy1 Psz (p_Sz_in_range N _ Psz (spin_up_indices_range spins) EP) Hs1) as [sy2 [E2 [Hs2 Hsub2]]].
      rewrite E2. intro E; inversion E; subst. split; [exact Hs2|].
      intros P HP. destruct (Hsub2 P HP) as [HP1|HP1]; [apply Hsub1'; exact HP1|right; subst P; reflexivity].
Qed.

Lemma symmetrize_done : forall fz sf mode spins H sy,
  match mode with SymmCustom _ cands => Forall (poly_in_range (length spins)) cands | _ => True end ->
  symmetrize fz sf mode spins H = Done sy -> symm_ok sf (length spins) H sy.
Proof.
  intros fz sf mode spins H sy Hm. destruct mode as [| |cands]; cbn [Symm.symmetrize]; intro E.
  - apply (compute_default_done _ _ _ _ _ _ E).
  - apply (compute_default_done _ _ _ _ _ _ E).
  - unfold Symm.compute_custom in E.
    destruct (compute_custom_loop_ok sf (length spins) H cands (sy_empty K) Hm (symm_ok_empty _ _ _)) as [sy' [E' [Hs _]]].
    congruence.
Qed.

(** when Symmetrizer::compute(bool) returns normally -- with or without the S_z repair: iff the repair is in
    place, or symmetries are ignored, or some spin label is neither up nor down (S_z not offered), or the
    numbers of up and down indices agree *)
Definition sz_defined (spins : list nat) : bool :=
  negb (valid_sz spins) ||
  Nat.eqb (length (spin_up_indices spins)) (length (sz_down (length spins) (spin_up_indices spins))).

Lemma compute_default_total : forall fz sf ignore spins H,
  fz = true \/ ignore = true \/ sz_defined spins = true ->
  exists sy, compute_default fz sf ignore spins H = Done sy.
Proof.
  intros fz sf ignore spins H Hc. unfold Symm.compute_default. set (N := length spins).
  destruct ignore; [eauto|].
  destruct (sy_offer_ok sf N H (sy_empty K) (p_N N) (p_N_in_range N) (symm_ok_empty sf N H)) as [sy1 [E1 [Hs1 _]]].
  rewrite E1. cbn [bind]. unfold sz_defined in Hc. fold N in Hc.
  destruct (valid_sz spins); [|eauto]. cbn [negb orb] in Hc.
  destruct (Nat.eqb (length (spin_up_indices spins)) (length (sz_down N (spin_up_indices spins)))) eqn:El.
  - replace (fz && negb true) with false by (destruct fz; reflexivity).
    unfold Poly.p_Sz at 1, Poly.p_Sz_lists. rewrite El. cbn [bind].
    match goal with |- context [sy_offer sf N H sy1 ?P] => set (Psz := P) end.
    assert (EP : p_Sz N (spin_up_indices spins) = Done Psz).
    { unfold Poly.p_Sz, Poly.p_Sz_lists. rewrite El. reflexivity. }
    destruct (sy_offer_ok sf N H sy1 Psz (p_Sz_in_range N _ Psz (spin_up_indices_range spins) EP) Hs1) as [sy2 [E2 _]].
    eauto.
  - destruct Hc as [->|[Hc|Hc]]; try discriminate. cbn [andb negb]. eauto.
Qed.

(** conversely: without the repair, a lattice on which S_z is offered but undefined makes compute() throw *)
Lemma compute_default_throws : forall sf spins H, sz_defined spins = false ->
  compute_default false sf false spins H = Throws 1.
Proof.
  intros sf spins H Hc. unfold Symm.compute_default. set (N := length spins).
  destruct (sy_offer_ok sf N H (sy_empty K) (p_N N) (p_N_in_range N) (symm_ok_empty sf N H)) as [sy1 [E1 _]].
  rewrite E1. cbn [bind]. unfold sz_defined in Hc. fold N in Hc.
  apply orb_false_iff in Hc. destruct Hc as [Hv El]. apply negb_false_iff in Hv. rewrite Hv. cbn [andb].
  unfold Poly.p_Sz, Poly.p_Sz_lists. rewrite El. reflexivity.
Qed.

Lemma symmetrize_total : forall fz sf mode spins H,
  match mode with SymmCustom _ cands => Forall (poly_in_range (length spins)) cands | _ => True end ->
  match mode with SymmDefault _ => fz = true \/ sz_defined spins = true | _ => True end ->
  exists sy, symmetrize fz sf mode spins H = Done sy /\ symm_ok sf (length spins) H sy.
Proof.
  intros fz sf mode spins H Hm Hc.
  assert (Hex : exists sy, symmetrize fz sf mode spins H = Done sy).
  { destruct mode as [| |cands]; cbn [Symm.symmetrize].
    - apply compute_default_total. destruct Hc as [Hc|Hc]; [left; exact Hc|right; right; exact Hc].
    - apply compute_default_total. right. left. reflexivity.
    - unfold Symm.compute_custom.
      destruct (compute_custom_loop_ok sf (length spins) H cands (sy_empty K) Hm (symm_ok_empty _ _ _)) as [sy [E _]]. eauto. }
  destruct Hex as [sy E]. exists sy. split; [exact E|]. apply (symmetrize_done fz sf mode spins H sy Hm E).
Qed.

(** the default candidates shift uniformly *)
Lemma default_uniform : forall fz sf ignore spins H sy,
  compute_default fz sf ignore spins H = Done sy -> Forall (uniform_shift (length spins)) (sy_ops sy).
Proof.
  intros fz sf ignore spins H sy E. destruct (compute_default_done _ _ _ _ _ _ E) as [_ Hsub].
  apply Forall_forall. intros P HP. destruct (Hsub P HP) as [->|HSz].
  - apply uniform_shift_N.
  - apply (uniform_shift_Sz (length spins) (spin_up_indices spins) P (spin_up_indices_range spins) HSz).
Qed.

(** with the repaired acceptance test every accepted operator shifts uniformly *)
Lemma fixed_uniform : forall fz mode spins H sy,
  match mode with SymmCustom _ cands => Forall (poly_in_range (length spins)) cands | _ => True end ->
  symmetrize fz true mode spins H = Done sy -> Forall (uniform_shift (length spins)) (sy_ops sy).
Proof.
  intros fz mode spins H sy Hm E. destruct (symmetrize_done _ _ _ _ _ _ Hm E) as [Hr Hacc].
  apply Forall_forall. intros P HP. rewrite Forall_forall in Hr, Hacc.
  apply (shift_test_sound (length spins) H P (Hr P HP) (Hacc P HP)).
Qed.

Section PrepareTotal.
Variables (N : nat) (ops : list poly) (c : qclass K).
Hypothesis Hops : Forall (poly_in_range N) ops.
Hypothesis Ec : sc_compute N ops = Done c.
Hypothesis H10 : k1 <> k0.

Lemma prepare_loop_total : forall m l f0, mono_in_range N m -> (forall R, In R l -> R < numberOfBlocks c) ->
  exists f, prepare_loop (mapsTo K kadd kopp kzero N c [(m, k1)]) l f0 = Done f.
Proof.
  intros m l. induction l as [|R l IH]; intros f0 Hm Hl; cbn [prepare_loop]; [eauto|].
  unfold prepare_step.
  destruct (mapsTo_spec N ops c Hops Ec H10 m R Hm (Hl R (or_introl eq_refl))) as [o [Eo _]]. rewrite Eo. cbn [bind].
  destruct o; apply IH; try exact Hm; intros R' HR'; apply Hl; right; exact HR'.
Qed.

Lemma prepare_total : forall m, mono_in_range N m -> exists f, prepare K kadd kopp kzero N c [(m, k1)] = Done f.
Proof.
  intros m Hm. unfold Symm.prepare. apply prepare_loop_total; [exact Hm|].
  intros R HR. apply in_seq in HR. lia.
Qed.
End PrepareTotal.

Lemma mapM_total : forall (A B : Type) (f : A -> outcome B) (l : list A),
  (forall a, In a l -> exists b, f a = Done b) -> exists bs, mapM f l = Done bs.
Proof.
  intros A B f l. induction l as [|a l IH]; intros H; cbn [mapM]; [eauto|].
  destruct (H a (or_introl eq_refl)) as [b E]. rewrite E. cbn [bind].
  destruct IH as [bs E']; [intros x Hx; apply H; right; exact Hx|]. rewrite E'. cbn [bind]. eauto.
Qed.

(** [analysis_total]: the whole analysis (symmetrizer, classification, prepare of every c_i and c^+_i)
    returns normally for every lattice (spin labels), every Hamiltonian polynomial, in every mode (custom
    candidates with indices in range), with or without the shift test -- provided the S_z repair is in
    place, or the mode is not the default one, or S_z is defined on the lattice *)
Theorem analysis_total_cond : k1 <> k0 -> forall fz sf mode spins H,
  match mode with SymmCustom _ cands => Forall (poly_in_range (length spins)) cands | _ => True end ->
  match mode with SymmDefault _ => fz = true \/ sz_defined spins = true | _ => True end ->
  exists a, analyse fz sf mode spins H = Done a.
Proof.
  intros H10 fz sf mode spins H Hm Hc. unfold Symm.analyse.
  destruct (symmetrize_total fz sf mode spins H Hm Hc) as [sy [E1 [Hr _]]]. rewrite E1. cbn [bind].
  destruct (sc_compute_ok (length spins) (sy_ops sy) Hr) as [c [E2 _]]. rewrite E2. cbn [bind].
  destruct (mapM_total _ _ (prepare_cdag K k1 kadd kopp kzero (length spins) c) (seq 0 (length spins))) as [cd E3].
  { intros i Hi. apply in_seq in Hi. unfold Symm.prepare_cdag, Poly.p_cdag.
    apply (prepare_total (length spins) (sy_ops sy) c Hr E2 H10). constructor; [cbn; lia|constructor]. }
  rewrite E3. cbn [bind].
  destruct (mapM_total _ _ (prepare_c K k1 kadd kopp kzero (length spins) c) (seq 0 (length spins))) as [cc E4].
  { intros i Hi. apply in_seq in Hi. unfold Symm.prepare_c, Poly.p_c.
    apply (prepare_total (length spins) (sy_ops sy) c Hr E2 H10). constructor; [cbn; lia|constructor]. }
  rewrite E4. cbn [bind]. eauto.
Qed.

Theorem analysis_total_gen : k1 <> k0 -> forall sf mode spins H,
  match mode with SymmCustom _ cands => Forall (poly_in_range (length spins)) cands | _ => True end ->
  exists a, analyse true sf mode spins H = Done a.
Proof.
  intros H10 sf mode spins H Hm. apply (analysis_total_cond H10 true sf mode spins H Hm).
  destruct mode; try exact Logic.I. left; reflexivity.
Qed.

(** without the repair the default analysis throws exactly on the lattices where S_z is offered but undefined *)
Theorem analysis_throws_iff : k1 <> k0 -> forall sf spins H,
  (analyse false sf (SymmDefault K) spins H = Throws 1 <-> sz_defined spins = false) /\
  ((exists a, analyse false sf (SymmDefault K) spins H = Done a) <-> sz_defined spins = true).
Proof.
  intros H10 sf spins H.
  assert (A : sz_defined spins = false -> analyse false sf (SymmDefault K) spins H = Throws 1).
  { intros Hc. unfold Symm.analyse. cbn [Symm.symmetrize]. rewrite (compute_default_throws sf spins H Hc). reflexivity. }
  assert (B : sz_defined spins = true -> exists a, analyse false sf (SymmDefault K) spins H = Done a).
  { intros Hc. apply (analysis_total_cond H10 false sf (SymmDefault K) spins H Logic.I). right; exact Hc. }
  split; split.
  - intro E. destruct (sz_defined spins) eqn:Hc; [|reflexivity]. destruct (B eq_refl) as [a Ea]. congruence.
  - exact A.
  - intros [a Ea]. destruct (sz_defined spins) eqn:Hc; [reflexivity|]. rewrite (A eq_refl) in Ea. discriminate.
  - exact B.
Qed.

End Algebra.

(** * The theorems of property C07, fully quantified *)
Section Theorems.
Variable K : Type.
Variables (k0 k1 : K) (kadd kmul ksub : K -> K -> K) (kopp : K -> K).
Variable kzero : K -> bool.
Variable khalf : K.

Local Notation poly := (poly K).
Local Notation cp := (coef_poly K k0 k1 kadd kmul kopp).
Local Notation RING := (ring_ok K k0 k1 kadd kmul ksub kopp kzero).
Local Notation DOMAIN := (forall a b : K, kmul a b = k0 -> a = k0 \/ b = k0).
Local Notation in_range := (poly_in_range K).
Local Notation check_symmetry := (check_symmetry K k0 k1 kadd kmul ksub kopp kzero).
Local Notation symmetrize := (symmetrize K k0 k1 kadd kmul ksub kopp kzero khalf).
Local Notation sc_compute := (sc_compute K k0 kadd ksub kopp kzero).
Local Notation prepare := (prepare K kadd kopp kzero).
Local Notation analyse := (analyse K k0 k1 kadd kmul ksub kopp kzero khalf).
Local Notation qnf := (qnf K k0 k1 kadd kmul kopp).
Local Notation uniform_shift := (uniform_shift K k0 k1 kadd kmul kopp).
Local Notation cands_in_range mode N :=
  (match mode with SymmCustom _ cands => Forall (in_range N) cands | _ => True end).

(** the three operator kinds of the property *)
Inductive fop_kind := FCdag (i : nat) | FC (i : nat) | FQuad (i j : nat).
Definition fop_mono (o : fop_kind) : monomial :=
  match o with FCdag i => [cdag i] | FC i => [cann i] | FQuad i j => [cdag i; cann j] end.
Definition fop_poly (o : fop_kind) : poly := [(fop_mono o, k1)].
Definition fop_in_range (N : nat) (o : fop_kind) : Prop :=
  match o with FCdag i => i < N | FC i => i < N | FQuad i j => i < N /\ j < N end.
Lemma fop_poly_presets : forall i j,
  fop_poly (FCdag i) = p_cdag K k1 i /\ fop_poly (FC i) = p_c K k1 i /\ fop_poly (FQuad i j) = p_n_offdiag K k1 i j.
Proof. intros; repeat split; reflexivity. Qed.
Lemma fop_mono_range : forall N o, fop_in_range N o -> mono_in_range N (fop_mono o).
Proof.
  intros N [i|i|i j] H; cbn [fop_in_range fop_mono] in *.
  - constructor; [exact H|constructor].
  - constructor; [exact H|constructor].
  - destruct H. constructor; [assumption|]. constructor; [assumption|constructor].
Qed.

(** [partition_exact]: for every number of modes and every list of (accepted) operators the
    classification returns normally; every Fock state lies in exactly one block; (block, inner) <-> state
    are mutually inverse; every block is non-empty and lists its states in increasing order; two states
    share a block iff their quantum numbers coincide *)
Theorem partition_exact : RING -> forall N ops, Forall (in_range N) ops ->
  exists c, sc_compute N ops = Done c /\
    let size := Nat.pow 2 N in let nb := numberOfBlocks c in
    (forall s, s < size -> exists b, b < nb /\ getBlockNumber size c s = Done b /\
        forall b', b' < nb -> (In s (nth b' (sc_blocks c) []) <-> b' = b)) /\
    (forall s, s < size -> exists b m,
        getBlockNumber size c s = Done b /\ getInnerState size c s = Done m /\ getFockState c b m = Done s) /\
    (forall b m s, getFockState c b m = Done s ->
        s < size /\ getBlockNumber size c s = Done b /\ getInnerState size c s = Done m) /\
    (forall b, b < nb -> StronglySorted lt (nth b (sc_blocks c) []) /\ nth b (sc_blocks c) [] <> []) /\
    (forall s s', s < size -> s' < size ->
        (getBlockNumber size c s = getBlockNumber size c s' <->
         qnf ops (state_of_nat N s) = qnf ops (state_of_nat N s'))).
Proof.
  intros Hring N ops Hops.
  destruct (sc_compute_ok K k0 k1 kadd kmul ksub kopp kzero Hring N ops Hops) as [c [Ec I]].
  exists c. split; [exact Ec|]. unfold SInv in I. cbn zeta.
  split; [|split; [|split; [|split]]].
  - intros s Hs. eapply exactly_one_block; eauto.
  - intros s Hs. eapply address_roundtrip; eauto.
  - intros b m s E. eapply address_roundtrip_inv; eauto.
  - intros b Hb. split; [eapply block_sorted; eauto|].
    destruct (block_nonempty _ _ _ _ _ I b Hb) as [s Hs]. intro E. rewrite E in Hs. destruct Hs.
  - intros s s' Hs Hs'. rewrite (gbn_ok _ _ _ _ _ I s Hs), (gbn_ok _ _ _ _ _ I s' Hs').
    rewrite <- (same_block_iff_same_key _ _ _ _ _ I s s' Hs Hs'). split; [intro E; inversion E; reflexivity|intros ->; reflexivity].
Qed.

(** [accepted_is_diagonal]: an accepted operator is diagonal in the Fock basis (any commutative ring) *)
Theorem accepted_is_diagonal : RING -> forall sf N H Q, in_range N Q ->
  check_symmetry sf N H Q = Done true ->
  forall s t, length s = N -> length t = N -> s <> t -> cp Q s t = k0.
Proof. intros Hring sf N H Q HQ Hacc. exact (accepted_is_diagonal_gen K k0 k1 kadd kmul ksub kopp kzero Hring sf N H Q HQ Hacc). Qed.

(** [H_block_diagonal]: whatever the mode, the Hamiltonian has no matrix element between blocks
    (coefficient ring without zero divisors) *)
Theorem H_block_diagonal : RING -> DOMAIN -> forall fz sf mode spins H sy c,
  in_range (length spins) H -> cands_in_range mode (length spins) ->
  symmetrize fz sf mode spins H = Done sy -> sc_compute (length spins) (sy_ops sy) = Done c ->
  let size := Nat.pow 2 (length spins) in
  forall s t, s < size -> t < size ->
  cp H (state_of_nat (length spins) s) (state_of_nat (length spins) t) <> k0 ->
  exists b, getBlockNumber size c s = Done b /\ getBlockNumber size c t = Done b.
Proof.
  intros Hring Hdom fz sf mode spins H sy c HH Hm Es Ec.
  destruct (symmetrize_done K k0 k1 kadd kmul ksub kopp kzero khalf Hring fz sf mode spins H sy Hm Es) as [Hr Hacc].
  exact (H_block_diagonal_gen K k0 k1 kadd kmul ksub kopp kzero Hring Hdom sf (length spins) H (sy_ops sy) c HH Hr Hacc Ec).
Qed.

(** [single_target] for operators that shift uniformly: c_i, c^+_i, c^+_i c_j map all states of a block
    into one block, different blocks into different blocks, and prepare() records exactly the block
    pairs between which the operator has a matrix element (nothing refused, nothing lost) *)
Theorem single_target : RING -> k1 <> k0 -> forall N ops c o,
  Forall (in_range N) ops -> Forall (uniform_shift N) ops -> fop_in_range N o ->
  sc_compute N ops = Done c ->
  let size := Nat.pow 2 N in
  let blk s := nth s (sc_sbi c) 0 in
  (forall s s' sg sg' t t', s < size -> s' < size ->
     act_mono (fop_mono o) (state_of_nat N s) = Done (Some (sg, t)) ->
     act_mono (fop_mono o) (state_of_nat N s') = Done (Some (sg', t')) ->
     (blk s = blk s' <-> blk (nat_of_state t) = blk (nat_of_state t'))) /\
  exists f, prepare N c (fop_poly o) = Done f /\ fo_bimap f = fo_parts f /\
    forall L R, In (L, R) (fo_bimap f) <->
      (R < numberOfBlocks c /\
       exists s sg t, In s (nth R (sc_blocks c) []) /\
                      act_mono (fop_mono o) (state_of_nat N s) = Done (Some (sg, t)) /\ blk (nat_of_state t) = L).
Proof.
  intros Hring H10 N ops c o Hr Hu Ho Ec. pose proof (fop_mono_range N o Ho) as Hm. cbn zeta. split.
  - exact (single_target_gen K k0 k1 kadd kmul ksub kopp kzero Hring N ops c Hr Ec (fop_mono o) Hu Hm).
  - exact (prepare_complete_gen K k0 k1 kadd kmul ksub kopp kzero Hring N ops c Hr Ec H10 Hu (fop_mono o) Hm).
Qed.

(** the hypothesis of [single_target] holds for the default analysis (N, S_z) ... *)
Theorem default_candidates_shift_uniformly : RING -> forall fz sf mode spins H sy,
  match mode with SymmCustom _ _ => False | _ => True end ->
  symmetrize fz sf mode spins H = Done sy ->
  Forall (in_range (length spins)) (sy_ops sy) /\ Forall (uniform_shift (length spins)) (sy_ops sy).
Proof.
  intros Hring fz sf mode spins H sy Hm E. destruct mode as [| |cands]; [| |destruct Hm]; cbn [Symm.symmetrize] in E.
  - split; [apply (compute_default_done K k0 k1 kadd kmul ksub kopp kzero khalf Hring _ _ _ _ _ _ E)|].
    exact (default_uniform K k0 k1 kadd kmul ksub kopp kzero khalf Hring _ _ _ _ _ _ E).
  - split; [apply (compute_default_done K k0 k1 kadd kmul ksub kopp kzero khalf Hring _ _ _ _ _ _ E)|].
    exact (default_uniform K k0 k1 kadd kmul ksub kopp kzero khalf Hring _ _ _ _ _ _ E).
Qed.

(** ... for every operator whose diagonal is linear in the occupation numbers,
    <s|Q|s> = c0 + sum_k q_k n_k(s) ... *)
Theorem linear_candidates_shift_uniformly : RING -> forall N Q c0 terms,
  (forall s, length s = N -> cp Q s s = lin_form K k0 k1 kadd kmul c0 terms s) -> uniform_shift N Q.
Proof. intros Hring. exact (uniform_shift_linear K k0 k1 kadd kmul ksub kopp kzero Hring). Qed.

(** ... and, with the repaired acceptance test, for EVERY accepted operator: the full statement *)
Theorem accepted_shift_uniformly_fixed : RING -> forall fz mode spins H sy,
  cands_in_range mode (length spins) ->
  symmetrize fz true mode spins H = Done sy ->
  Forall (in_range (length spins)) (sy_ops sy) /\ Forall (uniform_shift (length spins)) (sy_ops sy).
Proof.
  intros Hring fz mode spins H sy Hm E. split.
  - apply (symmetrize_done K k0 k1 kadd kmul ksub kopp kzero khalf Hring fz true mode spins H sy Hm E).
  - exact (fixed_uniform K k0 k1 kadd kmul ksub kopp kzero khalf Hring fz mode spins H sy Hm E).
Qed.

(** [analysis_total] with the S_z repair *)
Theorem analysis_total : RING -> k1 <> k0 -> forall sf mode spins H,
  cands_in_range mode (length spins) -> exists a, analyse true sf mode spins H = Done a.
Proof. intros Hring H10. exact (analysis_total_gen K k0 k1 kadd kmul ksub kopp kzero khalf Hring H10). Qed.

(** the code as it is: the default analysis throws exWrongLabel exactly when every spin label is up or down
    but the numbers of up and down indices differ (spinless sites, sites with one and sites with two spins);
    the ignored and custom analyses never throw *)
Theorem analysis_total_unrepaired : RING -> k1 <> k0 -> forall sf spins H,
  (analyse false sf (SymmDefault K) spins H = Throws 1 <-> sz_defined spins = false) /\
  ((exists a, analyse false sf (SymmDefault K) spins H = Done a) <-> sz_defined spins = true) /\
  (exists a, analyse false sf (SymmIgnore K) spins H = Done a) /\
  (forall cands, Forall (in_range (length spins)) cands -> exists a, analyse false sf (SymmCustom K cands) spins H = Done a).
Proof.
  intros Hring H10 sf spins H.
  destruct (analysis_throws_iff K k0 k1 kadd kmul ksub kopp kzero khalf Hring H10 sf spins H) as [A B].
  split; [exact A|]. split; [exact B|]. split.
  - apply (analysis_total_cond K k0 k1 kadd kmul ksub kopp kzero khalf Hring H10 false sf (SymmIgnore K) spins H); exact Logic.I.
  - intros cands Hc. apply (analysis_total_cond K k0 k1 kadd kmul ksub kopp kzero khalf Hring H10 false sf (SymmCustom K cands) spins H Hc Logic.I).
Qed.

End Theorems.

(** * Instances: the hypotheses are satisfiable *)
Require Import ZArith QArith Qcanon.

Definition Zzero (c : Z) : bool := Z.eqb c 0.
Example Z_hyps :
  ring_ok Z 0%Z 1%Z Z.add Z.mul Z.sub Z.opp Zzero /\
  (forall a b : Z, (a * b = 0 -> a = 0 \/ b = 0)%Z) /\ (1 <> 0)%Z.
Proof.
  split; [exact Z_ring_ok|]. split; [|discriminate]. intros a b H. apply Z.mul_eq_0. exact H.
Qed.

(** exact rationals in canonical form: a field of characteristic 0 with a genuine one half *)
Definition Qczero (c : Qc) : bool := Qc_eq_bool c (Q2Qc 0).
Definition Qchalf : Qc := Q2Qc (1 # 2).
Example Qc_hyps :
  ring_ok Qc (Q2Qc 0) (Q2Qc 1) Qcplus Qcmult Qcminus Qcopp Qczero /\
  (forall a b : Qc, Qcmult a b = Q2Qc 0 -> a = Q2Qc 0 \/ b = Q2Qc 0) /\ Q2Qc 1 <> Q2Qc 0 /\
  Qcplus Qchalf Qchalf = Q2Qc 1.
Proof.
  split; [split; [exact Qcrt|]|].
  - intros c. unfold Qczero. split; [apply Qc_eq_bool_correct|]. intros ->. unfold Qc_eq_bool.
    destruct (Qc_eq_dec (Q2Qc 0) (Q2Qc 0)); [reflexivity|contradiction].
  - split; [exact Qcmult_integral|]. split; [intro H; inversion H|]. apply Qc_is_canon. reflexivity.
Qed.

(** * Part F: the statements that the faithful model of the code as it is violates *)
Open Scope Z_scope.

Definition z_check_symmetry := check_symmetry Z 0 1 Z.add Z.mul Z.sub Z.opp Zzero.
Definition z_symmetrize := symmetrize Z 0 1 Z.add Z.mul Z.sub Z.opp Zzero 0.
Definition z_sc_compute := sc_compute Z 0 Z.add Z.sub Z.opp Zzero.
Definition z_prepare := prepare Z Z.add Z.opp Zzero.
Definition z_analyse := analyse Z 0 1 Z.add Z.mul Z.sub Z.opp Zzero 0.

(** one Hubbard atom, U = 2, level -1 (the polynomial printed by the library for
    `site A 1 2; addCoulombS A 2 -1`), and the candidate n_0 n_1 = - c^+_0 c^+_1 c_0 c_1 *)
Definition H_hubbard_atom : poly Z :=
  [([cdag 0; cann 0], -1); ([cdag 1; cann 1], -1); ([cdag 0; cdag 1; cann 0; cann 1], -2)].
Definition Q_n0n1 : poly Z := [([cdag 0; cdag 1; cann 0; cann 1], -1)].

(** [single_target], full statement over all accepted integrals of motion: REFUTED for the acceptance
    test of the code.  n_0 n_1 is accepted; states 0 and 2 share a block, their images under c^+_0
    (states 1 and 3) do not; prepare() of c^+_0 loses the block pair (left 1, right 0), and prepare() of
    c_0 has its second bimap insertion refused (two right blocks with the same left block) while the
    part map from the left is overwritten.  The repaired test rejects the candidate. *)
Theorem single_target_refuted :
  exists (H Q : poly Z) (c : qclass Z) (f f' : fieldop),
    poly_in_range Z 2 H /\ poly_in_range Z 2 Q /\
    z_check_symmetry false 2 H Q = Done true /\
    z_symmetrize false false (SymmCustom Z [Q]) [0; 1]%nat H = Done {| sy_ops := [Q]; sy_flags := [true] |} /\
    z_sc_compute 2 [Q] = Done c /\
    nth 0 (sc_sbi c) 0%nat = nth 2 (sc_sbi c) 0%nat /\
    act_mono [cdag 0] (state_of_nat 2 0) = Done (Some (false, state_of_nat 2 1)) /\
    act_mono [cdag 0] (state_of_nat 2 2) = Done (Some (false, state_of_nat 2 3)) /\
    nth 1 (sc_sbi c) 0%nat <> nth 3 (sc_sbi c) 0%nat /\
    z_prepare 2 c (p_cdag Z 1 0) = Done f /\ ~ In (1, 0)%nat (fo_bimap f) /\
    z_prepare 2 c (p_c Z 1 0) = Done f' /\ fo_parts f' = [(0, 0); (0, 1)]%nat /\ fo_bimap f' = [(0, 0)]%nat /\
    fo_fromLeft f' = [(0, 1)]%nat /\
    z_check_symmetry true 2 H Q = Done false.
Proof.
  exists H_hubbard_atom, Q_n0n1.
  eexists. eexists. eexists.
  split; [repeat constructor|]. split; [repeat constructor|].
  split; [vm_compute; reflexivity|]. split; [vm_compute; reflexivity|].
  split; [vm_compute; reflexivity|].
  split; [vm_compute; reflexivity|]. split; [vm_compute; reflexivity|]. split; [vm_compute; reflexivity|].
  split; [vm_compute; discriminate|].
  split; [vm_compute; reflexivity|].
  split; [vm_compute; intros [H|[]]; discriminate|].
  split; [vm_compute; reflexivity|].
  split; [vm_compute; reflexivity|]. split; [vm_compute; reflexivity|]. split; [vm_compute; reflexivity|].
  vm_compute; reflexivity.
Qed.

(** [analysis_total] for the code as it is: REFUTED.  Two spinless sites (both indices carry spin label
    0 = down) with a hopping term: every label is up or down, so S_z is offered, and its constructor
    throws exWrongLabel out of Symmetrizer::compute because #up = 0 <> 2 = #down.  Likewise a lattice
    made of a two-spin site and a spinless site. *)
Definition H_hop01 : poly Z := [([cdag 0; cann 1], 1); ([cdag 1; cann 0], 1)].
Theorem analysis_total_refuted :
  exists (spins : list nat) (H : poly Z),
    poly_in_range Z (length spins) H /\
    z_analyse false false (SymmDefault Z) spins H = Throws 1 /\
    z_analyse false true (SymmDefault Z) spins H = Throws 1 /\
    z_analyse false false (SymmDefault Z) [0; 1; 0]%nat [] = Throws 1.
Proof.
  exists [0; 0]%nat, H_hop01. split; [repeat constructor|].
  split; [vm_compute; reflexivity|]. split; vm_compute; reflexivity.
Qed.

(** the same lattices with the repair: the analysis completes (instances of [analysis_total]) *)
Example analysis_total_witness_fixed :
  (exists a, z_analyse true false (SymmDefault Z) [0; 0]%nat H_hop01 = Done a /\ length (sy_ops (an_symm a)) = 1%nat) /\
  (exists a, z_analyse true false (SymmDefault Z) [0; 1; 0]%nat [] = Done a /\ length (sy_ops (an_symm a)) = 1%nat).
Proof. split; eexists; (split; [vm_compute; reflexivity|reflexivity]). Qed.

(** non-trivial values satisfying the hypotheses of [single_target]: N on three modes; a linear form *)
Example uniform_example :
  Forall (poly_in_range Z 3) [p_N Z 1 Z.add Zzero 3] /\
  Forall (uniform_shift Z 0 1 Z.add Z.mul Z.opp 3) [p_N Z 1 Z.add Zzero 3].
Proof.
  split.
  - constructor; [|constructor]. apply (p_N_in_range Z 1 Z.add Zzero).
  - constructor; [|constructor]. apply (uniform_shift_N Z 0 1 Z.add Z.mul Z.sub Z.opp Zzero Z_ring_ok).
Qed.
Close Scope Z_scope.
