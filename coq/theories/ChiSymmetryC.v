(** C13 -- the hypotheses of the second exchange symmetry (ChiSymmetry.edata_regular) hold for genuine data:
    Coquelicot's complex numbers with the true modulus and a POSITIVE tolerance (the number type CNum of
    GFIdentities: EDSpec instantiated at C), real energies, real weights that agree on equal energies (Gibbs
    weights do), fermionic Matsubara frequencies i (2m+1) pi / beta, and a tolerance that separates the levels
    (|E_a - E_b| < tol only for E_a = E_b) and is at most 2 pi / beta.  This is the situation of the library when
    no two distinct levels are closer than the resonance tolerance.

    Uses the classical real numbers of the standard library (Coquelicot): axioms listed by Print Assumptions in
    props/Properties_C13.v. *)
Require Import Reals List ZArith Bool Arith Lia Lra Field.
From Coquelicot Require Import Coquelicot.
From PV Require Import Fock EDSpec Container4 Container4Spec GFIdentities ChiSymmetry ChiSymmetryProofs ChiSymmetryContainer.
Import ListNotations.
Local Open Scope R_scope.

Lemma CNum_field :
  field_theory (n0 C CNum) (n1 C CNum) (nadd C CNum) (nmul C CNum) (nsub C CNum) (nopp C CNum) (ndiv C CNum) Cinv eq.
Proof. exact C_field_theory. Qed.
Lemma CNum_ring :
  ring_theory (n0 C CNum) (n1 C CNum) (nadd C CNum) (nmul C CNum) (nsub C CNum) (nopp C CNum) eq.
Proof. exact (F_R C_field_theory). Qed.
Lemma CNum_abs_opp : forall x, nabs C CNum (nopp C CNum x) = nabs C CNum x.
Proof. intros x. cbn [nabs nopp CNum]. rewrite Cmod_opp. reflexivity. Qed.
Lemma CNum_nz_exact : forall x, nre_ltb C CNum (n0 C CNum) (nabs C CNum x) = false -> x = n0 C CNum.
Proof.
  intros x. cbn [nre_ltb nabs n0 CNum]. unfold Rltb. cbn [Re RtoC fst].
  destruct (Rlt_dec 0 (Cmod x)) as [L|L]; [discriminate|]. intros _.
  apply Cmod_eq_0. pose proof (Cmod_ge_0 x). lra.
Qed.

(** fermionic Matsubara frequency  i (2m+1) pi / beta *)
Definition fermi (beta : R) (m : Z) : C := (0, IZR (2 * m + 1) * PI / beta).

Lemma fermi_affine beta a b c : fermi beta (a + b - c) = Cminus (Cplus (fermi beta a) (fermi beta b)) (fermi beta c).
Proof.
  unfold fermi, Cminus, Cplus, Copp. cbn [fst snd]. f_equal; [ring|].
  replace (2 * (a + b - c) + 1)%Z with ((2 * a + 1) + (2 * b + 1) - (2 * c + 1))%Z by ring.
  rewrite minus_IZR, plus_IZR. unfold Rdiv. ring.
Qed.

Lemma fermi_opp beta m : Copp (fermi beta m) = fermi beta (- m - 1).
Proof.
  unfold fermi, Copp. cbn [fst snd]. f_equal; [ring|].
  replace (2 * (- m - 1) + 1)%Z with (- (2 * m + 1))%Z by ring. rewrite opp_IZR. unfold Rdiv. ring.
Qed.

Lemma fset_fermi beta m1 m2 m3 f :
  In f (fset C CNum (fermi beta m1) (fermi beta m2) (fermi beta m3)) -> exists k, f = fermi beta k.
Proof.
  unfold fset. cbn [In nopp nadd nsub CNum]. intros [H|[H|[H|[H|[]]]]]; subst f.
  - exists m1. reflexivity.
  - exists m2. reflexivity.
  - exists (- m3 - 1)%Z. apply fermi_opp.
  - exists (- (m1 + m2 - m3) - 1)%Z. rewrite <- fermi_affine. apply fermi_opp.
Qed.

Section Regular.
Variables (n : nat) (beta tolr : R) (e wr : list R).
Hypothesis beta_pos : 0 < beta.
Hypothesis tol_pos : 0 < tolr.
Hypothesis tol_matsubara : tolr <= 2 * PI / beta.
(** the tolerance separates the levels, and equal levels carry equal weights *)
Hypothesis levels_separated : forall a b, (a < n)%nat -> (b < n)%nat ->
  Rabs (nth a e 0 - nth b e 0) < tolr -> nth a e 0 = nth b e 0 /\ nth a wr 0 = nth b wr 0.

Let E := map RtoC e.
Let w := map RtoC wr.

Lemma nth_E a : nth a E (RtoC 0) = RtoC (nth a e 0).
Proof. unfold E. apply (map_nth RtoC). Qed.
Lemma nth_w a : nth a w (RtoC 0) = RtoC (nth a wr 0).
Proof. unfold w. apply (map_nth RtoC). Qed.

Lemma odd_IZR_neq0 k : IZR (2 * k + 1) * PI / beta <> 0.
Proof.
  intros H. assert (HP := PI_RGT_0).
  assert (H2 : IZR (2 * k + 1) = 0).
  { apply Rmult_eq_reg_r with (PI / beta).
    - rewrite Rmult_0_l. rewrite <- H. unfold Rdiv. ring.
    - apply Rgt_not_eq. apply Rdiv_lt_0_compat; lra. }
  apply eq_IZR_R0 in H2. lia.
Qed.

Lemma fermi_sum_im k1 k2 : Im (Cplus (fermi beta k1) (fermi beta k2)) = IZR (k1 + k2 + 1) * (2 * PI / beta).
Proof.
  unfold fermi, Cplus, Im. cbn [fst snd].
  replace (k1 + k2 + 1)%Z with (k1 + k2 + 1)%Z by reflexivity.
  rewrite !plus_IZR, !mult_IZR. unfold Rdiv. simpl (IZR 2). simpl (IZR 1). ring.
Qed.

Lemma small_multiple_zero s : Rabs (IZR s * (2 * PI / beta)) < tolr -> s = 0%Z.
Proof.
  intros H. assert (HP := PI_RGT_0).
  assert (Hq : 0 < 2 * PI / beta) by (apply Rdiv_lt_0_compat; lra).
  rewrite Rabs_mult, (Rabs_pos_eq (2 * PI / beta)) in H by lra.
  assert (H1 : Rabs (IZR s) < 1).
  { apply Rmult_lt_reg_r with (2 * PI / beta); [exact Hq|]. lra. }
  rewrite <- abs_IZR in H1. apply lt_IZR in H1. lia.
Qed.

Lemma matsubara_regular m1 m2 m3 :
  regular C CNum n (RtoC tolr) E w (fset C CNum (fermi beta m1) (fermi beta m2) (fermi beta m3)).
Proof.
  split.
  - intros f a b Hf Ha Hb. destruct (fset_fermi _ _ _ _ _ Hf) as [k ->].
    cbn [nadd nsub n0 CNum]. rewrite !nth_E. intros H0.
    apply (f_equal Im) in H0. unfold fermi, Cminus, Cplus, Copp, RtoC, Im in H0. cbn [fst snd] in H0.
    apply (odd_IZR_neq0 k). lra.
  - intros x y a b Hx Hy Ha Hb.
    destruct (fset_fermi _ _ _ _ _ Hx) as [k1 ->]. destruct (fset_fermi _ _ _ _ _ Hy) as [k2 ->].
    unfold res_ok. cbn [nre_ltb nabs nadd nsub n0 CNum]. rewrite !nth_E, !nth_w.
    unfold Rltb. cbn [Re RtoC fst].
    set (S := Cplus (fermi beta k1) (fermi beta k2)).
    set (dE := Cminus (RtoC (nth a e 0)) (RtoC (nth b e 0))).
    assert (HimS : Im S = IZR (k1 + k2 + 1) * (2 * PI / beta)) by apply fermi_sum_im.
    assert (HreS : Re S = 0) by (unfold S, fermi, Cplus, Re; cbn [fst snd]; ring).
    assert (HdE : dE = RtoC (nth a e 0 - nth b e 0)).
    { unfold dE, Cminus, Cplus, Copp, RtoC. cbn [fst snd]. f_equal; ring. }
    assert (S0 : (k1 + k2 + 1 = 0)%Z -> S = RtoC 0).
    { intros Hs. destruct S as [sr si]. unfold Re, Im in *. cbn [fst snd] in *. unfold RtoC.
      rewrite HreS, HimS, Hs. f_equal. simpl. ring. }
    destruct (Rlt_dec (Cmod S) tolr) as [L1|L1]; cbn [andb];
    [destruct (Rlt_dec (Cmod dE) tolr) as [L2|L2]|].
    + (* resonance detected *)
      assert (Hs : (k1 + k2 + 1 = 0)%Z).
      { apply small_multiple_zero. rewrite <- HimS. eapply Rle_lt_trans; [|exact L1].
        eapply Rle_trans; [|apply Rmax_Cmod]. apply Rmax_r. }
      assert (Hd : Rabs (nth a e 0 - nth b e 0) < tolr).
      { rewrite HdE, Cmod_R in L2. exact L2. }
      destruct (levels_separated a b Ha Hb Hd) as [He Hw]. split.
      * fold S. rewrite (S0 Hs). rewrite He. unfold Cminus, Cplus, Copp, RtoC. cbn [fst snd]. f_equal; ring.
      * rewrite Hw. reflexivity.
    + (* level difference not small *)
      fold S. intros H0. apply L2. rewrite HdE, Cmod_R.
      apply (f_equal Re) in H0. unfold Cminus, Cplus, Copp, RtoC, Re in H0. cbn [fst snd] in H0.
      unfold Re in HreS. rewrite HreS in H0.
      replace (nth a e 0 - nth b e 0) with 0 by lra. rewrite Rabs_R0. exact tol_pos.
    + (* frequency sum not small *)
      fold S. intros H0. apply L1.
      apply (f_equal Im) in H0. unfold Cminus, Cplus, Copp, RtoC, Im in H0. cbn [fst snd] in H0.
      unfold Im in HimS. 
      assert (Hs : (k1 + k2 + 1 = 0)%Z).
      { apply small_multiple_zero. rewrite <- HimS. replace (snd S) with 0 by lra. rewrite Rabs_R0. exact tol_pos. }
      rewrite (S0 Hs), Cmod_0. exact tol_pos.
Qed.

Theorem matsubara_edata_regular (Cm CXm : nat -> list (list C)) :
  (forall i, square C n (Cm i)) -> (forall i, square C n (CXm i)) ->
  edata_regular C CNum n
    {| ed_beta := RtoC beta; ed_tol := RtoC tolr; ed_E := E; ed_w := w; ed_C := Cm; ed_CX := CXm;
       ed_freq := fermi beta |}.
Proof.
  intros SC SX. unfold edata_regular. cbn [ed_C ed_CX ed_freq ed_tol ed_E ed_w]. repeat split.
  - apply SC.
  - apply SC.
  - apply SX.
  - apply SX.
  - intros a b c. apply fermi_affine.
  - apply matsubara_regular.
  - apply matsubara_regular.
Qed.

End Regular.

(** * The Hubbard atom (mu = 1, U = 3, beta = 1) with Gibbs weights, tolerance 1/1000, genuine Matsubara
      frequencies: regular at every index triple. *)
Definition hubE : list R := [0; -1; -1; 1].
Definition hubZ : R := 1 + exp 1 + exp 1 + exp (-1).
Definition hubW : list R := [1 / hubZ; exp 1 / hubZ; exp 1 / hubZ; exp (-1) / hubZ].

Definition hubC : edata C := {|
  ed_beta := RtoC 1; ed_tol := RtoC (1 / 1000);
  ed_E := map RtoC hubE; ed_w := map RtoC hubW;
  ed_C := fun i => op_matrix C CNum 2 (cann i);
  ed_CX := fun i => op_matrix C CNum 2 (cdag i);
  ed_freq := fermi 1 |}.

Example hubC_regular : edata_regular C CNum 4 hubC.
Proof.
  unfold hubC. apply matsubara_edata_regular.
  - lra.
  - lra.
  - assert (H := PI2_1). lra.
  - intros a b Ha Hb H.
    destruct a as [|[|[|[|a]]]]; try lia; destruct b as [|[|[|[|b]]]]; try lia; cbn [nth hubE hubW] in *;
      try (split; reflexivity);
      exfalso; revert H; unfold Rabs; destruct (Rcase_abs _); lra.
  - intros i. apply (op_matrix_square C CNum 2).
  - intros i. apply (op_matrix_square C CNum 2).
Qed.

(** On this data no hypothesis about chi is left: every value any history of container calls returns is the
    Lehmann chi of the requested quadruple at the requested Matsubara indices. *)
Theorem eval_sound_hubC :
  forall (fixed : bool) (van : quad -> bool) (nidx : nat) (ops : list Container4.cop) (q : quad) (t : triple)
         (sg : Z) (q0 : quad) (t0 : triple),
  eval_out fixed van nidx (fst (run fixed van nidx ops)) q t = OVal sg q0 t0 ->
  kscale C CNum sg (chi_lehmann C CNum hubC q0 t0) = chi_lehmann C CNum hubC q t.
Proof.
  exact (eval_sound_lehmann C CNum Cinv CNum_field CNum_abs_opp CNum_nz_exact 4%nat hubC hubC_regular).
Qed.
