(** The two-particle spine for the ONE-BLOCK partition (symmetries ignored): the value computed by the model pipeline
    [SpineChi.spine_chi_dense] -- dense eigenbasis matrices of c_i, c_j, c^+_k, c^+_l -> compressed row-/column-major views ->
    TwoParticleGF::prepare (six parts, one per permutation of the first three operators) -> TwoParticleGFPart::compute ->
    on-demand evaluation -- equals the specification [EDSpec.chi] (the documented Lehmann sum over the six orderings with the
    kernel phi of doc/gamma4.tex).

    HYPOTHESES, all explicit ([spine_chi_one_block_partial]):
      exact form of the value tests    [Hkeep], [nz_exact], [guards_exact];  ofZ 1 = 1, ofZ (-1) = -1;
      [chi_regular6]                   the triple (z1, z2, z3) is regular for the eigen-data in each of the six orderings
                                       (SpineChiPart.chi_regular: fermionic denominators, resonance tests, weight guard);
      [termlists_faithful]             for each of the six parts: the two term lists evaluate to the sum of the terms handed to
                                       them.  THIS is the step named as missing in the header of PV.ChiLehmann; it is a statement
                                       about PV.Chi's add_term (retry loop) and the comparators, not about the neighbouring layers.
    No hypothesis on the neighbouring layers: for one block the stripe condition of prepare() is trivially met
    ([one_block_prepare]: the six parts are computed, not assumed). *)
Require Import Bool List Arith ZArith Lia Field Ring.
From PV Require Import Outcome EDSpec HPartProofs Spine SpineLinAlg Chi ChiProofs ChiLehmann SpineChi SpineChiPart.
From PVgen Require Import Gen_Multiterm.
Import ListNotations.

Section OneBlockChi.
Variable K : Type.
Variable NO : numops K.
Notation "0" := (n0 K NO).
Notation "1" := (n1 K NO).
Notation kadd := (nadd K NO).
Notation ksub := (nsub K NO).
Notation kmul := (nmul K NO).
Notation kdiv := (ndiv K NO).
Notation kopp := (nopp K NO).
Notation ltb := (nre_ltb K NO).
Notation kabs := (nabs K NO).
Notation ofZ := (nofZ K NO).
Infix "+" := (nadd K NO).
Infix "*" := (nmul K NO).
Infix "-" := (nsub K NO).
Notation "- x" := (nopp K NO x).
Hypothesis Kf : field_theory 0 1 kadd kmul ksub kopp kdiv (ChiLehmann.kinv K NO) (@eq K).
Add Field KfieldOB : Kf.
Notation lsum := (ChiLehmann.lsum K NO).

Variable keepf : K -> bool.
Hypothesis Hkeep : forall x, keepf x = false -> x = 0.
Variable tl : tols K.
Hypothesis guards_exact : forall x, abs_gt K NO x (t_coeff K tl) = false -> x = 0.
Hypothesis nz_exact : forall x, ltb 0 (kabs x) = false -> x = 0.
Hypothesis ofZ_1 : ofZ (Zpos xH) = 1.
Hypothesis ofZ_m1 : ofZ (Zneg xH) = kopp 1.
Variable g : nat.                   (* what index() reads on an exhausted iterator (C17); every statement holds for all g *)

(** * on-demand evaluation = the sum over the prepared parts of the values of the computed parts *)
Lemma on_demand_value (ps : list (part_in K)) :
  exists sx, Chi.gf_compute K NO g tl false [] (gf_prepared K ps) = Done ([], sx) /\
    forall f, gf_value K NO tl sx (fst (fst f)) (snd (fst f)) (snd f) = Done (col K NO g tl ps 0 f).
Proof.
  unfold Chi.gf_compute, compute_sizes_table_before_vanishing_test, compute_guards_empty_reduce, gf_compute_gen, gf_prepared.
  cbn [g_status g_vanishing g_parts].
  destruct ps as [|p0 pr] eqn:Eps.
  - cbn [negb map length repeat]. eexists. split; [reflexivity|]. intros f. reflexivity.
  - rewrite <- Eps. cbn [negb].
    replace (match ps with [] => true | _ :: _ => false end) with false by (rewrite Eps; reflexivity). cbn [negb].
    pose proof (run_parts_spec K NO g tl false [] (map (fun p => (p, part_constructed K)) ps) (repeat 0 (length (@nil (K*K*K)))) eq_refl) as R2.
    cbn [length Nat.eqb negb repeat] in R2 |- *. rewrite R2. cbn [bind snd fst andb negb combine map].
    eexists. split; [reflexivity|]. intros f. unfold gf_value. cbn [g_vanishing g_parts].
    replace (match ps with [] => true | _ :: _ => false end) with false by (rewrite Eps; reflexivity).
    rewrite !map_map. cbn [fst]. exact (sum_parts_spec K NO g tl f ps 0).
Qed.

(** the value of a computed part is the sum of the evaluations of its two term lists at the permuted frequencies *)
Lemma part_val_lists (p : part_in K) (z1 z2 z3 : K) :
  part_val K NO tl p (computed_st K NO g tl p) (z1, z2, z3) =
  list_eval K NO (fun t => nr_eval K NO t (permuted K NO (p_perm K p) z1 z2 z3 0) (permuted K NO (p_perm K p) z1 z2 z3 1)
                                         (permuted K NO (p_perm K p) z1 z2 z3 2)) (ps_nr K (computed_st K NO g tl p)) +
  list_eval K NO (fun t => r_eval K NO (t_reduce K tl) t (permuted K NO (p_perm K p) z1 z2 z3 0) (permuted K NO (p_perm K p) z1 z2 z3 1)
                                        (permuted K NO (p_perm K p) z1 z2 z3 2)) (ps_r K (computed_st K NO g tl p)).
Proof. reflexivity. Qed.

(** THE NAMED GAP: the term lists of the computed part evaluate, at (y1, y2, y3), to the sum of the terms handed to them *)
Definition termlists_faithful (p : part_in K) (y1 y2 y3 : K) : Prop :=
  list_eval K NO (fun t => nr_eval K NO t y1 y2 y3) (ps_nr K (computed_st K NO g tl p)) +
  list_eval K NO (fun t => r_eval K NO (t_reduce K tl) t y1 y2 y3) (ps_r K (computed_st K NO g tl p)) =
  lsum (spec_visits K p) (fun v => emitted_value K NO tl y1 y2 y3 (visit_emissions K NO tl p v)).

(** * the one-block world *)
Variable n : nat.
Variables E w : list K.
Variable beta : K.
Variables D1 D2 D3 D4 : mat K.
Hypothesis SQ1 : square K n D1.
Hypothesis SQ2 : square K n D2.
Hypothesis SQ3 : square K n D3.
Hypothesis SQ4 : square K n D4.

Definition opsel (k : nat) : mat K := nth k [D1; D2; D3] [].
Definition perm_part (ps : (nat * nat * nat) * Z) : part_in K :=
  dense_part K NO keepf n E w beta (opsel (perm_nth (fst ps) 0)) (opsel (perm_nth (fst ps) 1)) (opsel (perm_nth (fst ps) 2)) D4 (fst ps) (snd ps).

(** TwoParticleGF::prepare on one block: six parts, the permuted operators, nothing else -- computed *)
Theorem one_block_prepare : Chi.gf_prepare K (world1 K NO keepf n beta E w D1 D2 D3 D4) = Done (map perm_part permutations3).
Proof. reflexivity. Qed.

Lemma opsel_square k : k < 3 -> square K n (opsel k).
Proof. intros H. unfold opsel. destruct k as [|[|[|k]]]; cbn [nth]; try assumption. lia. Qed.

Definition freq_perm (ps : (nat * nat * nat) * Z) (z1 z2 z3 : K) (k : nat) : K := permuted K NO (fst ps) z1 z2 z3 k.

(** regularity of (z1, z2, z3) in each of the six orderings *)
Definition chi_regular6 (z1 z2 z3 : K) : Prop :=
  forall ps, In ps permutations3 ->
  chi_regular K NO tl n E w (freq_perm ps z1 z2 z3 0) (freq_perm ps z1 z2 z3 1) (freq_perm ps z1 z2 z3 2).
Definition termlists_faithful6 (z1 z2 z3 : K) : Prop :=
  forall ps, In ps permutations3 ->
  termlists_faithful (perm_part ps) (freq_perm ps z1 z2 z3 0) (freq_perm ps z1 z2 z3 1) (freq_perm ps z1 z2 z3 2).

Lemma perm_part_value ps z1 z2 z3 : In ps permutations3 -> chi_regular6 z1 z2 z3 -> termlists_faithful6 z1 z2 z3 ->
  part_val K NO tl (perm_part ps) (computed_st K NO g tl (perm_part ps)) (z1, z2, z3) =
  signK K NO (snd ps) *
  chi_ordering K NO beta (t_reduce K tl) E w (opsel (perm_nth (fst ps) 0)) (opsel (perm_nth (fst ps) 1)) (opsel (perm_nth (fst ps) 2)) D4
               (freq_perm ps z1 z2 z3 0) (freq_perm ps z1 z2 z3 1) (freq_perm ps z1 z2 z3 2).
Proof.
  intros Hin REG TF. rewrite part_val_lists.
  change (p_perm K (perm_part ps)) with (fst ps). fold (freq_perm ps z1 z2 z3 0) (freq_perm ps z1 z2 z3 1) (freq_perm ps z1 z2 z3 2).
  rewrite (TF ps Hin).
  assert (P : forall k, k < 3 -> perm_nth (fst ps) k < 3).
  { intros k Hk. cbn in Hin. repeat (destruct Hin as [<-|Hin]; [destruct k as [|[|[|k]]]; cbn; lia|]). destruct Hin. }
  exact (dense_part_emitted K NO Kf keepf Hkeep tl guards_exact nz_exact n E w beta _ _ _ D4
           (opsel_square _ (P O ltac:(lia))) (opsel_square _ (P (S O) ltac:(lia))) (opsel_square _ (P (S (S O)) ltac:(lia))) SQ4
           (fst ps) (snd ps) _ _ _ (REG ps Hin)).
Qed.

Theorem spine_chi_one_block_partial (z1 z2 z3 : K) (s : gf_st K) :
  chi_regular6 z1 z2 z3 ->
  termlists_faithful6 z1 z2 z3 ->
  spine_chi_dense K NO keepf g tl n beta E w D1 D2 D3 D4 = Done s ->
  gf_value K NO tl s z1 z2 z3 = Done (chi K NO beta (t_reduce K tl) E w D1 D2 D3 D4 z1 z2 z3).
Proof.
  intros REG TF. unfold spine_chi_dense, chi_on_demand. rewrite one_block_prepare. cbn [bind].
  destruct (on_demand_value (map perm_part permutations3)) as [sx [Ec Ev]]. rewrite Ec. cbn [bind snd]. intros H. injection H as <-.
  pose proof (Ev (z1, z2, z3)) as Ev'. cbn [fst snd] in Ev'. rewrite Ev'. f_equal.
  unfold col, permutations3. cbn [map fold_left].
  rewrite !perm_part_value by (try assumption; cbn; tauto).
  unfold chi, perms3, ksum. cbn [fold_left fst snd nth]. unfold signK. rewrite ofZ_1, ofZ_m1.
  unfold freq_perm, permuted, part_perm_slots, part_frequencies, opsel. cbn [fst snd perm_nth nth]. ring.
Qed.

(** the pipeline always returns (one block: no part can be missing) *)
Theorem spine_chi_one_block_total : exists s, spine_chi_dense K NO keepf g tl n beta E w D1 D2 D3 D4 = Done s.
Proof.
  unfold spine_chi_dense, chi_on_demand. rewrite one_block_prepare. cbn [bind].
  destruct (on_demand_value (map perm_part permutations3)) as [sx [Ec _]]. rewrite Ec. eexists. reflexivity.
Qed.

End OneBlockChi.
