(** Vertex4Refs.v -- the vertex reads its sources through references (C15).

    Vertex4::value(n1,n2,n3) is chi(n1,n2,n3) plus / minus beta times products of the four Green's functions (coq/gen/Gen_Vertex4.v,
    theories/Matsubara4*.v).  Which chi and which Green's functions: the OBJECTS handed to the constructor, as they are when the
    vertex is asked -- the members are references (coq/gen/Gen_Vertex4Refs.v, regenerated from include/pomerol/Vertex4.h on every
    run).  With by-value members the vertex would evaluate copies taken at construction; a vertex constructed before its sources
    are computed would then return the bare chi on the triples with n1 = n3 or n2 = n3.  [sources_at_evaluation] makes that
    explicit: what an evaluation sees of a source, given how the member is held.  No axioms. *)
Require Import List String.
From PVgen Require Import Gen_Vertex4Refs.
Import ListNotations.
Local Open Scope string_scope.

(** the state of a source object an evaluation of the vertex sees: the state now (reference) or the state at construction (copy) *)
Definition seen {S : Type} (k : member_kind) (at_construction now : S) : S :=
  match k with ByReference => now | ByValue => at_construction end.

Lemma gen_vertex4_members_are_references :
  gen_vertex4_member_kinds = [("Chi4", ByReference); ("G13", ByReference); ("G24", ByReference); ("G14", ByReference); ("G23", ByReference)].
Proof. reflexivity. Qed.

(** every source is seen in its current state, whatever it was when the vertex was constructed *)
Lemma sources_at_evaluation : forall (S : Type) (name : string) (k : member_kind) (at_construction now : S),
  In (name, k) gen_vertex4_member_kinds -> seen k at_construction now = now.
Proof.
  intros S name k a n H. rewrite gen_vertex4_members_are_references in H. cbn [In] in H.
  repeat (destruct H as [H|H]; [injection H as _ <-; reflexivity|]). contradiction.
Qed.

(** a by-value member sees the state at construction: if the source was computed afterwards, the vertex does not see it *)
Example by_value_member_is_stale : seen ByValue 0 1 = 0 /\ seen ByReference 0 1 = 1.
Proof. split; reflexivity. Qed.
