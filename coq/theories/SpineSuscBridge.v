(** The susceptibility spine on the partition produced by the symmetry-analysis model (PV.Symm; C07), and from the Hamiltonian
    polynomial: the C14 counterparts of SpineBridge.spine_gf_symmetry, SpineBridgeMain.spine_gf_symmetry_analysis and
    SpineBridgeMain.spine_gf_of_hamiltonian.  [partition_ok] and [op_ok] (for both quadratic operators) are DISCHARGED from
    C07's partition_exact / single_target through SpineBridge.symm_partition_ok / symm_op_ok.
    Inter-layer hypotheses left: none; [eig_ok] (shapes) and, for [spine_susc_of_hamiltonian], the exact per-block certificate of
    the external eigen-solver remain hypotheses on the INPUT.  No axioms. *)
Require Import Bool List Arith Lia Ring Ring_theory Field Field_theory.
From PV Require Import Outcome Fock Poly PolySem EDSpec HPart HPartSpec HPartProofs Sparse TermList GFPart SuscPart SuscPartProofs
     Spine SpinePartition SpineBridge SpineBridgeHam SpineBridgeMain SpineSusc SpineSuscPartition.
From PV Require Symm SymmProofs Thermal.
From PVgen Require Import Gen_C01.
Import ListNotations.

Section SymmetrySusc.
Variable KS : Type.
Variables (s0 s1 : KS) (sadd smul ssub : KS -> KS -> KS) (sopp : KS -> KS).
Variable szero : KS -> bool.
Variable shalf : KS.
Hypothesis SRING : ring_ok KS s0 s1 sadd smul ssub sopp szero.
Hypothesis S10 : s1 <> s0.

Variable K : Type.
Variable NO : numops K.
Variable kinv : K -> K.
Hypothesis Kr : ring_theory (n0 K NO) (n1 K NO) (nadd K NO) (nmul K NO) (nsub K NO) (nopp K NO) (@eq K).
Hypothesis Kdiv : forall a b, ndiv K NO a b = nmul K NO a (kinv b).
Hypothesis conj0 : nconj K NO (n0 K NO) = n0 K NO.
Variable fb : bool.
Variable eps : K.
Hypothesis one_not_small : nre_ltb K NO (nabs K NO (n1 K NO)) eps = false.
Hypothesis mone_not_small : nre_ltb K NO (nabs K NO (nopp K NO (n1 K NO))) eps = false.
Hypothesis one_large : nre_ltb K NO eps (nabs K NO (n1 K NO)) = true.
Hypothesis mone_large : nre_ltb K NO eps (nabs K NO (nopp K NO (n1 K NO))) = true.
Variables reference prec : K.
Hypothesis Hkeep : forall x, keep_entry K NO reference prec x = false -> x = n0 K NO.
Variable T : tols K.
Hypothesis Hrel : forall R, susc_relevant K NO (t_matrix_element K T) R = false -> R = n0 K NO.
Hypothesis Hcmp : forall a b, susc_compare K NO (t_compare K T) a b = false -> susc_compare K NO (t_compare K T) b a = true.

Section Classification.
Variables (N : nat) (ops : list (poly KS)) (c : Symm.qclass KS).
Hypothesis Hops : Forall (poly_in_range KS N) ops.
Hypothesis Ec : Symm.sc_compute KS s0 sadd ssub sopp szero N ops = Done c.
Hypothesis Hush : Forall (SymmProofs.uniform_shift KS s0 s1 sadd smul sopp N) ops.

Notation PO := (symm_partition_ok KS s0 s1 sadd smul ssub sopp szero SRING N ops c Hops Ec).
Notation OO o Ho := (symm_op_ok KS s0 s1 sadd smul ssub sopp szero SRING S10 N ops c Hops Ec Hush K NO fb eps one_not_small mone_not_small o Ho).

Theorem spine_susc_symmetry (ED : eigdata K) (a b c' d : nat) : a < N -> b < N -> c' < N -> d < N -> eig_ok K (bridge N c) ED ->
  forall (fixed lenient : bool) (beta z : K) (parts : list ((nat * nat) * spart_out K)),
  spine_susc K NO fb eps reference prec T fixed lenient (bridge N c) ED beta a b c' d = Done (WDone parts) ->
  exists D, spine_dm K NO beta (bridge N c) ED = Done D /\
    spine_susc_value K NO parts beta z =
    susc K NO beta (t_resonance K T) (assembled_E K ED) (assembled_w K D)
       (rotate K NO (Nat.pow 2 N) (assembled_U K NO (bridge N c) ED) (poly_matrix K NO N (p_n_offdiag K (n1 K NO) a b)))
       (rotate K NO (Nat.pow 2 N) (assembled_U K NO (bridge N c) ED) (poly_matrix K NO N (p_n_offdiag K (n1 K NO) c' d)))
       z (z_is_zero K NO z).
Proof.
  intros Ha Hb Hc Hd EO fixed lenient beta z parts H.
  exact (spine_susc_partition K NO kinv Kr Kdiv conj0 fb eps one_not_small mone_not_small one_large mone_large
           reference prec Hkeep T Hrel Hcmp (bridge N c) ED a b c' d _ _ PO EO
           (OO (FQuad a b) (conj Ha Hb)) (OO (FQuad c' d) (conj Hc Hd)) fixed lenient beta z parts H).
Qed.

Theorem spine_susc_symmetry_total (ED : eigdata K) (a b c' d : nat) : a < N -> b < N -> c' < N -> d < N -> eig_ok K (bridge N c) ED ->
  forall (lenient : bool) (beta : K) D, spine_dm K NO beta (bridge N c) ED = Done D ->
  exists parts, spine_susc K NO fb eps reference prec T true lenient (bridge N c) ED beta a b c' d = Done (WDone parts).
Proof.
  intros Ha Hb Hc Hd EO lenient beta D HD.
  exact (spine_susc_partition_total K NO Kr conj0 fb eps one_not_small mone_not_small one_large mone_large
           reference prec Hkeep T (bridge N c) ED a b c' d _ _ PO EO
           (OO (FQuad a b) (conj Ha Hb)) (OO (FQuad c' d) (conj Hc Hd)) lenient beta D HD).
Qed.
End Classification.

(** ... on the operators accepted by the symmetry analysis of a Hamiltonian *)
Theorem spine_susc_symmetry_analysis (fz sf : bool) (mode : Symm.symm_mode KS) (spins : list nat) (h : poly KS) (sy : Symm.symm KS) :
  mode_uniform KS sf mode (length spins) ->
  Symm.symmetrize KS s0 s1 sadd smul ssub sopp szero shalf fz sf mode spins h = Done sy ->
  exists c, Symm.sc_compute KS s0 sadd ssub sopp szero (length spins) (Symm.sy_ops sy) = Done c /\
    forall (ED : eigdata K) (a b c' d : nat), a < length spins -> b < length spins -> c' < length spins -> d < length spins ->
    eig_ok K (bridge (length spins) c) ED ->
    forall (fixed lenient : bool) (beta z : K) (parts : list ((nat * nat) * spart_out K)),
    spine_susc K NO fb eps reference prec T fixed lenient (bridge (length spins) c) ED beta a b c' d = Done (WDone parts) ->
    exists D, spine_dm K NO beta (bridge (length spins) c) ED = Done D /\
      spine_susc_value K NO parts beta z =
      susc K NO beta (t_resonance K T) (assembled_E K ED) (assembled_w K D)
         (rotate K NO (Nat.pow 2 (length spins)) (assembled_U K NO (bridge (length spins) c) ED)
                 (poly_matrix K NO (length spins) (p_n_offdiag K (n1 K NO) a b)))
         (rotate K NO (Nat.pow 2 (length spins)) (assembled_U K NO (bridge (length spins) c) ED)
                 (poly_matrix K NO (length spins) (p_n_offdiag K (n1 K NO) c' d)))
         z (z_is_zero K NO z).
Proof.
  intros Hm Esy.
  destruct (analysis_ops_ok KS s0 s1 sadd smul ssub sopp szero shalf SRING fz sf mode spins h sy Hm Esy) as [Hr Hu].
  destruct (analysis_class_total KS s0 s1 sadd smul ssub sopp szero shalf SRING fz sf mode spins h sy Hm Esy) as [c Ec].
  exists c. split; [exact Ec|]. intros ED a b c' d.
  exact (spine_susc_symmetry (length spins) (Symm.sy_ops sy) c Hr Ec Hu ED a b c' d).
Qed.

End SymmetrySusc.

(** * One number type (a field with an exact zero test): from the Hamiltonian polynomial to the susceptibility *)
Section OneNumberType.
Variable K : Type.
Variable NO : numops K.
Notation k0 := (n0 K NO).
Notation k1 := (n1 K NO).
Notation kadd := (nadd K NO).
Notation ksub := (nsub K NO).
Notation kmul := (nmul K NO).
Notation kdiv := (ndiv K NO).
Notation kopp := (nopp K NO).
Variable kinv : K -> K.
Hypothesis Kf : field_theory k0 k1 kadd kmul ksub kopp kdiv kinv (@eq K).
Variable kzero : K -> bool.
Variable khalf : K.
Hypothesis Kzero : forall x, kzero x = true <-> x = k0.
Hypothesis conj0 : nconj K NO k0 = k0.
Variable fb : bool.
Variable eps : K.
Hypothesis one_not_small : nre_ltb K NO (nabs K NO k1) eps = false.
Hypothesis mone_not_small : nre_ltb K NO (nabs K NO (kopp k1)) eps = false.
Hypothesis one_large : nre_ltb K NO eps (nabs K NO k1) = true.
Hypothesis mone_large : nre_ltb K NO eps (nabs K NO (kopp k1)) = true.
Hypothesis zero_test_exact : forall x, is_zero K NO eps x = true <-> x = k0.
Variables reference prec : K.
Hypothesis Hkeep : forall x, keep_entry K NO reference prec x = false -> x = k0.
Variable T : tols K.
Hypothesis Hrel : forall R, susc_relevant K NO (t_matrix_element K T) R = false -> R = k0.
Hypothesis Hcmp : forall a b, susc_compare K NO (t_compare K T) a b = false -> susc_compare K NO (t_compare K T) b a = true.

Theorem spine_susc_of_hamiltonian (fz sf : bool) (mode : Symm.symm_mode K) (spins : list nat) (h : poly K) (sy : Symm.symm K) :
  poly_in_range K (length spins) h ->
  mode_uniform K sf mode (length spins) ->
  Symm.symmetrize K k0 k1 kadd kmul ksub kopp kzero khalf fz sf mode spins h = Done sy ->
  exists c Hs,
    Symm.sc_compute K k0 kadd ksub kopp kzero (length spins) (Symm.sy_ops sy) = Done c /\
    spine_hblocks K NO fb eps (bridge (length spins) c) h = Done Hs /\
    forall ED : eigdata K, eig_ok K (bridge (length spins) c) ED ->
    (forall b, b < length (sc_states (bridge (length spins) c)) ->
       eigensystem K NO (block_size (bridge (length spins) c) b) (nth b Hs []) (Uof K ED b) (Eof K ED b)) ->
    eigensystem K NO (Nat.pow 2 (length spins)) (poly_matrix K NO (length spins) h)
                (assembled_U K NO (bridge (length spins) c) ED) (assembled_E K ED) /\
    forall a b c' d : nat, a < length spins -> b < length spins -> c' < length spins -> d < length spins ->
    forall (fixed lenient : bool) (beta z : K) (parts : list ((nat * nat) * spart_out K)),
    spine_susc K NO fb eps reference prec T fixed lenient (bridge (length spins) c) ED beta a b c' d = Done (WDone parts) ->
    exists D, spine_dm K NO beta (bridge (length spins) c) ED = Done D /\
      spine_susc_value K NO parts beta z =
      susc K NO beta (t_resonance K T) (assembled_E K ED) (assembled_w K D)
         (rotate K NO (Nat.pow 2 (length spins)) (assembled_U K NO (bridge (length spins) c) ED)
                 (poly_matrix K NO (length spins) (p_n_offdiag K k1 a b)))
         (rotate K NO (Nat.pow 2 (length spins)) (assembled_U K NO (bridge (length spins) c) ED)
                 (poly_matrix K NO (length spins) (p_n_offdiag K k1 c' d)))
         z (z_is_zero K NO z).
Proof.
  intros Hh Hm Esy.
  pose proof (F_R Kf) as Kr.
  pose proof (field_no_zero_divisors K NO kinv Kf kzero Kzero) as Kdom.
  assert (RING : ring_ok K k0 k1 kadd kmul ksub kopp kzero) by (split; [exact Kr|exact Kzero]).
  assert (Hc : match mode with Symm.SymmCustom _ cands => Forall (poly_in_range K (length spins)) cands | _ => True end)
    by (destruct mode; [exact I|exact I|exact (proj2 Hm)]).
  destruct (analysis_ops_ok K k0 k1 kadd kmul ksub kopp kzero khalf RING fz sf mode spins h sy Hm Esy) as [Hr Hu].
  destruct (analysis_class_total K k0 k1 kadd kmul ksub kopp kzero khalf RING fz sf mode spins h sy Hm Esy) as [c Ec].
  exists c. eexists. split; [exact Ec|]. split.
  - exact (spine_hblocks_symmetry K NO kzero khalf Kr Kzero Kdom fz sf mode spins h Hh Hc sy Esy c Ec fb eps zero_test_exact).
  - intros ED EO CERT. split.
    + apply (spine_symmetry_eigensystem K NO kzero khalf Kr Kzero Kdom fz sf mode spins h Hh Hc sy Esy c Ec fb eps
               zero_test_exact conj0 ED _ EO
               (spine_hblocks_symmetry K NO kzero khalf Kr Kzero Kdom fz sf mode spins h Hh Hc sy Esy c Ec fb eps zero_test_exact)).
      exact CERT.
    + intros a b c' d Ha Hb Hc' Hd.
      exact (spine_susc_symmetry K k0 k1 kadd kmul ksub kopp kzero RING (F_1_neq_0 Kf) K NO kinv Kr (Fdiv_def Kf) conj0 fb eps
               one_not_small mone_not_small one_large mone_large reference prec Hkeep T Hrel Hcmp
               (length spins) (Symm.sy_ops sy) c Hr Ec Hu ED a b c' d Ha Hb Hc' Hd EO).
Qed.

End OneNumberType.
