(** From the parts to the full Fock space (C01 step 4, shared with C08):
      [gf_value_sum]      the value of the object is the sum of the Lehmann double sums of its parts;
      [gf_prepare_spec]   which parts prepare() makes (from gf_stripes_complete);
      [gf_blocks_sum]     that sum = the block-indexed quadruple sum  sum_{L,R} sum_{n in L, m in R} C[L n, R m] CX[R m, L n] kernel
                          when the block structure is sound: every part is the restriction of its operator to the block pair,
                          and the operator vanishes on every other block pair;
      [gf_blocks_eq_full] the same with the global (flattened) data: the value equals [EDSpec.gf] on the assembled
                          eigenvalues, weights and matrices. *)
Require Import Bool List Arith Lia Ring Ring_theory ZArith.
From PV Require Import EDSpec NumLit Sparse SparseProofs TermList TermListProofs GFPart BigSum GFPartProofs.
From PVgen Require Import Gen_C01.
Import ListNotations.

Section Full.
Variable K : Type.
Variable NO : numops K.
Notation k0 := (n0 K NO).
Notation k1 := (n1 K NO).
Notation kadd := (nadd K NO).
Notation ksub := (nsub K NO).
Notation kmul := (nmul K NO).
Notation kdiv := (ndiv K NO).
Notation kopp := (nopp K NO).
Variable kinv : K -> K.
Hypothesis Kr : ring_theory k0 k1 kadd kmul ksub kopp (@eq K).
Hypothesis Kdiv : forall a b, kdiv a b = kmul a (kinv b).
Add Ring KringFull : Kr.
Notation bsum := (bigsum K k0 kadd).
Notation cs_get := (cs_get K NO).

Let BS_fold := @fold_left_bigsum K k0 k1 kadd kmul ksub kopp Kr.
Let BS_ext := @bigsum_ext K k0 kadd.
Let BS_zero := @bigsum_zero K k0 k1 kadd kmul ksub kopp Kr.
Let BS_map := @bigsum_map K k0 kadd.
Let BS_plus := @bigsum_plus K k0 k1 kadd kmul ksub kopp Kr.
Let BS_filter := @bigsum_filter K k0 k1 kadd kmul ksub kopp Kr.
Let BS_delta := @bigsum_delta_seq K k0 k1 kadd kmul ksub kopp Kr.
Let BS_app := @bigsum_app K k0 k1 kadd kmul ksub kopp Kr.

Variable T : tols K.
Hypothesis Hrel : forall R, gf_relevant K NO (t_matrix_element K T) R = false -> R = k0.
Hypothesis Hcmp : forall a b, gf_compare K NO (t_compare K T) a b = false -> gf_compare K NO (t_compare K T) b a = true.

(** * A. the object's value is the sum over its parts *)
Lemma compute_parts_values fixed lenient z : forall ps outs,
  (forall p, In p ps -> part_wf K (snd p)) ->
  compute_parts K NO fixed lenient T ps = WDone outs ->
  bsum outs (fun po => gf_part_value K NO (snd po) z) = bsum ps (fun p => gf_part_spec K NO (snd p) z).
Proof.
  induction ps as [|[lr inp] ps IH]; intros outs W E; cbn [compute_parts] in E.
  - injection E as <-. reflexivity.
  - destruct (gf_part_compute K NO fixed lenient T inp) as [o| | |] eqn:C; cbn [wbind] in E; try discriminate E.
    destruct (compute_parts K NO fixed lenient T ps) as [r| | |] eqn:R; cbn [wmap] in E; try discriminate E.
    injection E as <-. cbn [bigsum snd].
    rewrite (gf_part_exact K NO kinv Kr Kdiv T Hrel Hcmp fixed lenient inp (W (lr, inp) (or_introl eq_refl)) o z C).
    rewrite (IH r); [reflexivity| |reflexivity]. intros p Hp. apply W. right. exact Hp.
Qed.

Lemma gf_value_bsum (parts : list ((nat * nat) * part_out K)) z :
  gf_value K NO parts z = bsum parts (fun po => gf_part_value K NO (snd po) z).
Proof.
  unfold gf_value. destruct parts as [|p r]; [reflexivity|]. rewrite BS_fold. ring.
Qed.

Theorem gf_value_sum fixed lenient z ps outs :
  (forall p, In p ps -> part_wf K (snd p)) ->
  compute_parts K NO fixed lenient T ps = WDone outs ->
  gf_value K NO outs z = bsum ps (fun p => gf_part_spec K NO (snd p) z).
Proof. intros W E. rewrite gf_value_bsum. apply (compute_parts_values fixed lenient z ps outs W E). Qed.

(** * B. which parts prepare() makes *)
Definition mkpart_of (g : gf_in K) (lr : nat * nat) : option ((nat * nat) * part_in K) :=
  match g_cpart K g (fst lr), g_cxpart K g (fst lr) with
  | Some c, Some cx => Some (lr, mkpart K c cx (g_E K g (fst lr)) (g_E K g (snd lr)) (g_W K g (fst lr)) (g_W K g (snd lr)))
  | _, _ => None
  end.

Lemma gf_prepare_spec (g : gf_in K) :
  ksorted (g_cl K g) -> ksorted (g_cxr K g) ->
  gf_prepare K g = all_some (map (mkpart_of g)
     (filter (fun lr => g_ret K g (fst lr) || g_ret K g (snd lr)) (stripes_spec (g_cl K g) (g_cxr K g)))).
Proof.
  intros H1 H2. unfold gf_prepare.
  rewrite (gf_stripes_complete _ _ _ H1 H2) by (unfold stripes_fuel; lia). reflexivity.
Qed.

(** * C. the block-indexed quadruple sum *)
Variable nb : nat.                          (* number of blocks *)
Variable dim : nat -> nat.                  (* block sizes *)
Variable g : gf_in K.
(** full-space data, block-indexed: <L n| c_i |R m>, <R m| c^+_j |L n>, energies and weights *)
Variable Cf : nat -> nat -> nat -> nat -> K.
Variable CXf : nat -> nat -> nat -> nat -> K.     (* CXf R m L n *)

Definition memb (x : nat * nat) (l : list (nat * nat)) : bool :=
  existsb (fun y => (fst x =? fst y) && (snd x =? snd y)) l.

Lemma memb_in x l : memb x l = true <-> In x l.
Proof.
  unfold memb. rewrite existsb_exists. split.
  - intros [y [Hy E]]. apply andb_prop in E. destruct E as [E1 E2]. apply Nat.eqb_eq in E1. apply Nat.eqb_eq in E2.
    destruct x, y. cbn in *. subst. exact Hy.
  - intros H. exists x. split; [exact H|]. rewrite !Nat.eqb_refl. reflexivity.
Qed.

(** soundness of the block structure *)
Record blocks_sound : Prop := {
  bs_cl_sorted : ksorted (g_cl K g);
  bs_cxr_sorted : ksorted (g_cxr K g);
  bs_cl_range : forall L R, In (L, R) (g_cl K g) -> L < nb /\ R < nb;
  bs_cxr_range : forall L R, In (L, R) (g_cxr K g) -> L < nb /\ R < nb;
  bs_retained : forall b, g_ret K g b = true;
  (* the parts exist, are well-formed and have the sizes of their blocks *)
  bs_cpart : forall L R, In (L, R) (g_cl K g) -> exists a, g_cpart K g L = Some a /\ cs_wf a /\ cs_outer a = dim L /\ cs_inner a = dim R;
  bs_cxpart : forall L R, In (L, R) (g_cxr K g) -> exists b, g_cxpart K g L = Some b /\ cs_wf b /\ cs_outer b = dim L /\ cs_inner b = dim R;
  bs_E : forall b, b < nb -> length (g_E K g b) = dim b;
  bs_W : forall b, b < nb -> length (g_W K g b) = dim b;
  (* every part is the restriction of the operator to its block pair; the operator vanishes on all other pairs
     (it maps a block into at most one block: the bimap) *)
  bs_C_restr : forall L R n m, L < nb -> R < nb -> n < dim L -> m < dim R ->
     Cf L n R m = if memb (L, R) (g_cl K g) then match g_cpart K g L with Some a => cs_get a n m | None => k0 end else k0;
  bs_CX_restr : forall L R n m, L < nb -> R < nb -> n < dim L -> m < dim R ->
     CXf R m L n = if memb (L, R) (g_cxr K g) then match g_cxpart K g L with Some b => cs_get b n m | None => k0 end else k0
}.

Definition block_term (z : K) (L R n m : nat) : K :=
  kdiv (kmul (kmul (Cf L n R m) (CXf R m L n)) (kadd (nth n (g_W K g L) k0) (nth m (g_W K g R) k0)))
       (ksub z (ksub (nth m (g_E K g R) k0) (nth n (g_E K g L) k0))).

Definition gf_blocks_spec (z : K) : K :=
  bsum (seq 0 nb) (fun L => bsum (seq 0 nb) (fun R =>
    bsum (seq 0 (dim L)) (fun n => bsum (seq 0 (dim R)) (fun m => block_term z L R n m)))).

Hypothesis BS : blocks_sound.

Lemma filter_all_true {A} (p : A -> bool) (l : list A) : (forall x, In x l -> p x = true) -> filter p l = l.
Proof.
  induction l as [|x l IH]; intros H; [reflexivity|]. cbn [filter]. rewrite (H x (or_introl eq_refl)).
  f_equal. apply IH. intros y Hy. apply H. right. exact Hy.
Qed.

Lemma kadd_0_r (a : K) : kadd a k0 = a.
Proof. ring. Qed.
Lemma kadd_0_l (a : K) : kadd k0 a = a.
Proof. ring. Qed.

Lemma ksorted_nodup l : ksorted l -> NoDup l.
Proof.
  induction l as [|x l IH]; intros H; [constructor|]. destruct H as [H1 H2]. constructor; [|apply IH; exact H2].
  intros Hin. specialize (H1 x Hin). lia.
Qed.

(** sum over a duplicate-free list of pairs in range = masked double sum over the square *)
Lemma sum_over_pairs (l : list (nat * nat)) (G : nat * nat -> K) :
  NoDup l -> (forall x, In x l -> fst x < nb /\ snd x < nb) ->
  bsum l G = bsum (seq 0 nb) (fun L => bsum (seq 0 nb) (fun R => if memb (L, R) l then G (L, R) else k0)).
Proof.
  induction l as [|x l IH]; intros ND Hr.
  - cbn [bigsum]. symmetry. apply BS_zero. intros L _. apply BS_zero. reflexivity.
  - inversion ND as [|x' l' Hnot ND']; subst. cbn [bigsum].
    rewrite IH by (try assumption; intros y Hy; apply Hr; right; exact Hy).
    destruct (Hr x (or_introl eq_refl)) as [Hx1 Hx2].
    transitivity (kadd (bsum (seq 0 nb) (fun L => bsum (seq 0 nb) (fun R => if (fst x =? L) && (snd x =? R) then G (L, R) else k0)))
                       (bsum (seq 0 nb) (fun L => bsum (seq 0 nb) (fun R => if memb (L, R) l then G (L, R) else k0)))).
    + f_equal.
      transitivity (bsum (seq 0 nb) (fun L => if fst x =? L then G (L, snd x) else k0)).
      * rewrite BS_delta. destruct (Nat.leb_spec 0 (fst x)); [|lia]. destruct (Nat.ltb_spec (fst x) (0 + nb)); [|lia].
        cbn [andb]. destruct x; reflexivity.
      * apply BS_ext. intros L _.
        transitivity (bsum (seq 0 nb) (fun R => if snd x =? R then (if fst x =? L then G (L, R) else k0) else k0)).
        -- rewrite BS_delta. destruct (Nat.leb_spec 0 (snd x)); [|lia]. destruct (Nat.ltb_spec (snd x) (0 + nb)); [|lia].
           reflexivity.
        -- apply BS_ext. intros R _. destruct (fst x =? L); destruct (snd x =? R); reflexivity.
    + rewrite <- BS_plus. apply BS_ext. intros L _. rewrite <- BS_plus. apply BS_ext. intros R _.
      unfold memb at 2. cbn [existsb fst snd]. fold (memb (L, R) l).
      rewrite (Nat.eqb_sym L (fst x)), (Nat.eqb_sym R (snd x)).
      destruct ((fst x =? L) && (snd x =? R)) eqn:E; cbn [orb].
      * apply andb_prop in E. destruct E as [E1 E2]. apply Nat.eqb_eq in E1. apply Nat.eqb_eq in E2.
        assert (Hm : memb (L, R) l = false).
        { apply not_true_iff_false. intros M. apply memb_in in M. apply Hnot. destruct x. cbn in *. subst. exact M. }
        rewrite Hm. apply kadd_0_r.
      * apply kadd_0_l.
Qed.

(** the part made for a selected pair *)
Definition part_at (lr : nat * nat) : part_in K :=
  match mkpart_of g lr with
  | Some p => snd p
  | None => mkpart K (mkcs 0 [] [] []) (mkcs 0 [] [] []) [] [] [] []
  end.

Lemma selected_part L R : In (L, R) (g_cl K g) -> In (L, R) (g_cxr K g) ->
  exists a b, mkpart_of g (L, R) = Some ((L, R), mkpart K a b (g_E K g L) (g_E K g R) (g_W K g L) (g_W K g R)) /\
              g_cpart K g L = Some a /\ g_cxpart K g L = Some b /\
              part_wf K (mkpart K a b (g_E K g L) (g_E K g R) (g_W K g L) (g_W K g R)) /\
              cs_outer a = dim L /\ cs_inner a = dim R.
Proof.
  intros H1 H2. destruct (bs_cpart BS L R H1) as [a [Ea [Wa [Oa Ia]]]]. destruct (bs_cxpart BS L R H2) as [b [Eb [Wb [Ob Ib]]]].
  destruct (bs_cl_range BS L R H1) as [HL HR].
  exists a, b. unfold mkpart_of. cbn [fst snd]. rewrite Ea, Eb. split; [reflexivity|]. split; [reflexivity|]. split; [reflexivity|].
  split; [|split; assumption].
  constructor; cbn [p_C p_CX p_wO p_eO p_wI p_eI]; try assumption; try lia.
  - rewrite (bs_W BS L HL). lia.
  - rewrite (bs_E BS L HL). lia.
  - rewrite (bs_W BS R HR). lia.
  - rewrite (bs_E BS R HR). lia.
Qed.

(** the quadruple sum restricted to one block pair: the part's Lehmann sum if the pair is selected, 0 otherwise *)
Lemma block_pair_sum z L R : L < nb -> R < nb ->
  bsum (seq 0 (dim L)) (fun n => bsum (seq 0 (dim R)) (fun m => block_term z L R n m)) =
  if memb (L, R) (g_cl K g) && memb (L, R) (g_cxr K g) then gf_part_spec K NO (part_at (L, R)) z else k0.
Proof.
  intros HL HR. destruct (memb (L, R) (g_cl K g)) eqn:M1; destruct (memb (L, R) (g_cxr K g)) eqn:M2; cbn [andb].
  - apply memb_in in M1. apply memb_in in M2.
    destruct (selected_part L R M1 M2) as [a [b [E [Ea [Eb [_ [Oa Ia]]]]]]].
    unfold part_at. rewrite E. cbn [snd]. unfold gf_part_spec. cbn [p_C p_CX p_wO p_eO p_wI p_eI]. rewrite Oa, Ia.
    apply BS_ext. intros n Hn. apply in_seq in Hn. apply BS_ext. intros m Hm. apply in_seq in Hm.
    unfold block_term.
    rewrite (bs_C_restr BS L R n m) by lia. rewrite (bs_CX_restr BS L R n m) by lia.
    apply memb_in in M1. apply memb_in in M2. rewrite M1, M2, Ea, Eb. reflexivity.
  - apply BS_zero. intros n Hn. apply in_seq in Hn. apply BS_zero. intros m Hm. apply in_seq in Hm.
    unfold block_term. rewrite (bs_CX_restr BS L R n m) by lia. rewrite M2, Kdiv. ring.
  - apply BS_zero. intros n Hn. apply in_seq in Hn. apply BS_zero. intros m Hm. apply in_seq in Hm.
    unfold block_term. rewrite (bs_C_restr BS L R n m) by lia. rewrite M1, Kdiv. ring.
  - apply BS_zero. intros n Hn. apply in_seq in Hn. apply BS_zero. intros m Hm. apply in_seq in Hm.
    unfold block_term. rewrite (bs_C_restr BS L R n m) by lia. rewrite M1, Kdiv. ring.
Qed.

Lemma all_some_mkpart (sel : list (nat * nat)) :
  (forall lr, In lr sel -> In lr (g_cl K g) /\ In lr (g_cxr K g)) ->
  all_some (map (mkpart_of g) sel) = Some (map (fun lr => (lr, part_at lr)) sel).
Proof.
  intros H. apply all_some_map. intros [L R] Hin. destruct (H _ Hin) as [H1 H2].
  destruct (selected_part L R H1 H2) as [a [b [E _]]]. unfold part_at. rewrite E. reflexivity.
Qed.

(** the sum over the parts that compute() makes = the block-indexed quadruple sum over the full space *)
Theorem gf_blocks_sum fixed lenient z parts :
  gf_compute K NO fixed lenient T g = WDone parts -> gf_value K NO parts z = gf_blocks_spec z.
Proof.
  unfold gf_compute. rewrite (gf_prepare_spec g (bs_cl_sorted BS) (bs_cxr_sorted BS)).
  set (sel := filter (fun lr => g_ret K g (fst lr) || g_ret K g (snd lr)) (stripes_spec (g_cl K g) (g_cxr K g))).
  assert (Esel : sel = stripes_spec (g_cl K g) (g_cxr K g)).
  { unfold sel. apply filter_all_true. intros lr _. rewrite (bs_retained BS). reflexivity. }
  assert (Hsel : forall lr, In lr sel -> In lr (g_cl K g) /\ In lr (g_cxr K g)).
  { intros [L R] H. rewrite Esel in H. apply in_stripes_spec in H. exact H. }
  rewrite (all_some_mkpart sel Hsel). intros E.
  rewrite (gf_value_sum fixed lenient z (map (fun lr => (lr, part_at lr)) sel) parts) ; [| |exact E].
  2:{ intros p Hp. apply in_map_iff in Hp. destruct Hp as [[L R] [<- Hin]]. cbn [snd].
      destruct (Hsel _ Hin) as [H1 H2]. destruct (selected_part L R H1 H2) as [a [b [Em [_ [_ [W _]]]]]].
      unfold part_at. rewrite Em. exact W. }
  rewrite BS_map. cbn [snd]. rewrite Esel. unfold stripes_spec. rewrite BS_filter.
  rewrite (sum_over_pairs (g_cl K g)).
  - unfold gf_blocks_spec. apply BS_ext. intros L HL. apply in_seq in HL. apply BS_ext. intros R HR. apply in_seq in HR.
    rewrite (block_pair_sum z L R) by lia. fold (memb (L, R) (g_cxr K g)).
    destruct (memb (L, R) (g_cl K g)); destruct (memb (L, R) (g_cxr K g)); reflexivity.
  - apply ksorted_nodup. exact (bs_cl_sorted BS).
  - intros [L R] H. exact (bs_cl_range BS L R H).
Qed.

(** * D. the flattened (global) data: EDSpec.gf *)
Fixpoint off (b : nat) : nat := match b with O => 0 | S b' => off b' + dim b' end.   (* first global index of block b *)

Lemma bsum_shift (s n : nat) (f : nat -> K) : bsum (seq s n) f = bsum (seq 0 n) (fun k => f (s + k)).
Proof.
  revert s f. induction n as [|n IH]; intros s f; [reflexivity|]. cbn [seq bigsum].
  rewrite (IH (Datatypes.S s) f), (IH 1 (fun k => f (s + k))). rewrite Nat.add_0_r. f_equal. apply BS_ext. intros k _. f_equal. lia.
Qed.

Lemma bsum_blocks (f : nat -> K) : forall n,
  bsum (seq 0 (off n)) f = bsum (seq 0 n) (fun b => bsum (seq 0 (dim b)) (fun k => f (off b + k))).
Proof.
  induction n as [|n IH]; [reflexivity|]. cbn [off]. rewrite seq_app, BS_app, IH. cbn [plus].
  rewrite seq_S, BS_app. cbn [bigsum plus]. rewrite (bsum_shift (off n)). ring.
Qed.

Lemma bsum_combine {A} (F : nat -> A -> K) (d : A) : forall (l : list A) (s : nat),
  bsum (combine (seq s (length l)) l) (fun ix => F (fst ix) (snd ix)) = bsum (seq s (length l)) (fun i => F i (nth (i - s) l d)).
Proof.
  induction l as [|x l IH]; intros s; [reflexivity|]. cbn [length seq combine bigsum fst snd].
  rewrite Nat.sub_diag. cbn [nth]. f_equal. rewrite IH. apply BS_ext. intros i Hi. apply in_seq in Hi.
  replace (i - s) with (Datatypes.S (i - Datatypes.S s)) by lia. reflexivity.
Qed.

Lemma ksum_idx {A} (F : nat -> A -> K) (d : A) (l : list A) :
  ksum K NO (idx l) (fun ix => F (fst ix) (snd ix)) = bsum (seq 0 (length l)) (fun i => F i (nth i l d)).
Proof.
  unfold ksum, idx. rewrite BS_fold, (bsum_combine F d l 0).
  transitivity (bsum (seq 0 (length l)) (fun i => F i (nth (i - 0) l d))); [ring|].
  apply BS_ext. intros i _. rewrite Nat.sub_0_r. reflexivity.
Qed.

(** the assembled global eigenvalues, weights and eigenbasis matrices *)
Variables (E w : list K) (Ci CXj : list (list K)).
Record assembled : Prop := {
  as_rows : length Ci = off nb;
  as_cols : forall i, i < off nb -> length (nth i Ci []) = off nb;
  as_C : forall L R n m, L < nb -> R < nb -> n < dim L -> m < dim R -> mget K NO Ci (off L + n) (off R + m) = Cf L n R m;
  as_CX : forall L R n m, L < nb -> R < nb -> n < dim L -> m < dim R -> mget K NO CXj (off R + m) (off L + n) = CXf R m L n;
  as_E : forall b k, b < nb -> k < dim b -> nth (off b + k) E k0 = nth k (g_E K g b) k0;
  as_w : forall b k, b < nb -> k < dim b -> nth (off b + k) w k0 = nth k (g_W K g b) k0
}.
Hypothesis AS : assembled.

Lemma off_mono : forall b n, b < n -> off b + dim b <= off n.
Proof. induction n as [|n IH]; intros H; [lia|]. cbn [off]. destruct (Nat.eq_dec b n) as [->|]; [lia|]. specialize (IH ltac:(lia)). lia. Qed.

Theorem gf_full_is_blocks z : gf K NO E w Ci CXj z = gf_blocks_spec z.
Proof.
  unfold gf.
  rewrite (ksum_idx (fun n row => ksum K NO (idx row) (fun mc =>
             kdiv (kmul (kmul (snd mc) (mget K NO CXj (fst mc) n)) (kadd (nth n w k0) (nth (fst mc) w k0)))
                  (ksub z (ksub (nth (fst mc) E k0) (nth n E k0))))) [] Ci).
  rewrite (as_rows AS), bsum_blocks. unfold gf_blocks_spec.
  apply BS_ext. intros L HL. apply in_seq in HL.
  transitivity (bsum (seq 0 (dim L)) (fun n => bsum (seq 0 nb) (fun R => bsum (seq 0 (dim R)) (fun m => block_term z L R n m)))).
  2:{ rewrite (bigsum_swap K k0 k1 kadd kmul ksub kopp Kr). reflexivity. }
  apply BS_ext. intros n Hn. apply in_seq in Hn.
  pose proof (off_mono L nb ltac:(lia)) as HoL.
  rewrite (ksum_idx (fun m c => kdiv (kmul (kmul c (mget K NO CXj m (off L + n))) (kadd (nth (off L + n) w k0) (nth m w k0)))
                                     (ksub z (ksub (nth m E k0) (nth (off L + n) E k0)))) k0 (nth (off L + n) Ci [])).
  rewrite (as_cols AS) by lia. rewrite bsum_blocks.
  apply BS_ext. intros R HR. apply in_seq in HR. apply BS_ext. intros m Hm. apply in_seq in Hm.
  unfold block_term.
  rewrite <- (as_C AS L R n m) by lia. rewrite <- (as_CX AS L R n m) by lia.
  rewrite (as_E AS L n), (as_E AS R m), (as_w AS L n), (as_w AS R m) by lia.
  reflexivity.
Qed.

(** the headline: for a sound block structure and assembled global data, the value the library's algorithm computes
    (any mode of the loops that returns; exact form) is the full-space Lehmann sum of the specification *)
Theorem gf_blocks_eq_full fixed lenient z parts :
  gf_compute K NO fixed lenient T g = WDone parts -> gf_value K NO parts z = gf K NO E w Ci CXj z.
Proof. intros H. rewrite gf_full_is_blocks. apply (gf_blocks_sum fixed lenient z parts H). Qed.

End Full.
