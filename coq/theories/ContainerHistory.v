(** Model of the histories of a FieldOperatorContainer (src/pomerol/FieldOperatorContainer.cpp), property C10.

    The container holds two std::map<ParticleIndex, Operator*>.  What matters for C10 is, per index, whether the creation and the
    annihilation operator it hands out are Computed and what their stored parts are.  [V] stands for "the stored parts of one
    operator" (block map + matrices); [single_cx i] is what CreationOperator(i).prepare(); compute() produces one by one (the code is
    deterministic: HPart.fo_prepare / HPart.fop_compute are its model, Properties_C10.rotation_formula_model its theorem) and
    [adjoint] is the copy made by computeAll (HPart.container_copy, Properties_C10.container_copy_is_adjoint).

      prepareAll(in):  if in is empty, in := {0, .., n-1};  for every i in in:  map[i] := a NEW operator in state Prepared
                       (an operator that was there before is replaced, computed or not)
      computeAll():    for every (i, cdag) of the creation map, ascending:  cdag.compute()  -- returns at once when cdag is Computed --
                       then every part of c_i := adjoint of the matching part of cdag, c_i.Status := Computed

    Model file: definitions only.  Proofs: ContainerHistoryProofs.v. *)
From Coq Require Import List Arith Bool.
Import ListNotations.

Section ContainerHistory.
  Variable V : Type.
  Variable single_cx : nat -> V.
  Variable adjoint : V -> V.

  (** [None]: Prepared (parts allocated, every stored matrix empty); [Some v]: Computed with stored parts [v] *)
  Record entry := mkEntry { e_cx : option V; e_c : option V }.

  (** the two maps, zipped: ascending in the index, one entry per index *)
  Definition container := list (nat * entry).

  Inductive step := PrepareAll (s : list nat) | ComputeAll.

  Definition fresh : entry := mkEntry None None.

  Fixpoint put (i : nat) (e : entry) (c : container) : container :=
    match c with
    | [] => [(i, e)]
    | (j, f) :: r => if i <? j then (i, e) :: c else if i =? j then (i, e) :: r else (j, f) :: put i e r
    end.

  Fixpoint get (i : nat) (c : container) : option entry :=
    match c with
    | [] => None
    | (j, f) :: r => if i =? j then Some f else get i r
    end.

  (** the index set prepareAll works on *)
  Definition effective (n : nat) (s : list nat) : list nat := match s with [] => seq 0 n | _ => s end.

  Definition prepare_all (n : nat) (s : list nat) (c : container) : container :=
    fold_left (fun c i => put i fresh c) (effective n s) c.

  Definition compute_entry (i : nat) (e : entry) : entry :=
    let cx := match e_cx e with Some v => v | None => single_cx i end in
    mkEntry (Some cx) (Some (adjoint cx)).

  Definition compute_all (c : container) : container := map (fun p => (fst p, compute_entry (fst p) (snd p))) c.

  Definition do_step (n : nat) (st : step) (c : container) : container :=
    match st with PrepareAll s => prepare_all n s c | ComputeAll => compute_all c end.

  Definition run_from (n : nat) (h : list step) (c : container) : container := fold_left (fun c st => do_step n st c) h c.
  Definition run (n : nat) (h : list step) : container := run_from n h [].

  (** index [i] was asked for by some prepareAll of the history *)
  Definition requested (n : nat) (h : list step) (i : nat) : Prop := exists s, In (PrepareAll s) h /\ In i (effective n s).

  (** what the container must hand out for index [i]: the one-by-one creation operator and its adjoint *)
  Definition computed (i : nat) : entry := mkEntry (Some (single_cx i)) (Some (adjoint (single_cx i))).

  (** A variant that is NOT the code: computeAll with the shortcut "the first annihilation operator of the map is Computed, so
      everything is".  Used only to show that the theorem about [run] is not vacuous (ContainerHistoryProofs.early_return_breaks). *)
  Definition compute_all_early (c : container) : container :=
    match c with
    | (_, mkEntry _ (Some _)) :: _ => c
    | _ => compute_all c
    end.
  Definition do_step_early (n : nat) (st : step) (c : container) : container :=
    match st with PrepareAll s => prepare_all n s c | ComputeAll => compute_all_early c end.
  Definition run_early (n : nat) (h : list step) : container := fold_left (fun c st => do_step_early n st c) h [].
End ContainerHistory.

Arguments mkEntry {V}.
Arguments e_cx {V}.
Arguments e_c {V}.
