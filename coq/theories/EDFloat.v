(** Binary64 complex instance of the numeric operations used by EDSpec (execution only:
    the theorems are about exact fields). [fexp] is supplied by the OCaml driver
    (Stdlib.exp); Coq's primitive floats have no exponential. *)
Require Import Floats ZArith List.
From PV Require Import EDSpec.
Local Open Scope float_scope.

Definition fc := (float * float)%type.
Definition fadd (a b : fc) : fc := (fst a + fst b, snd a + snd b).
Definition fsub (a b : fc) : fc := (fst a - fst b, snd a - snd b).
Definition fmul (a b : fc) : fc := (fst a * fst b - snd a * snd b, fst a * snd b + snd a * fst b).
Definition fdiv (a b : fc) : fc :=
  let d := fst b * fst b + snd b * snd b in
  ((fst a * fst b + snd a * snd b) / d, (snd a * fst b - fst a * snd b) / d).
Definition fopp (a : fc) : fc := (- fst a, - snd a).
Definition fconj (a : fc) : fc := (fst a, - snd a).
Definition fabs (a : fc) : fc := (sqrt (fst a * fst a + snd a * snd a), 0).
Fixpoint pos_to_float (p : positive) : float :=
  match p with xH => 1 | xO q => 2 * pos_to_float q | xI q => 2 * pos_to_float q + 1 end.
Definition fofZ (z : Z) : fc := (match z with Z0 => 0 | Zpos p => pos_to_float p | Zneg p => - pos_to_float p end, 0).

Definition fops (fexp : float -> float) : numops fc :=
  {| n0 := (0, 0); n1 := (1, 0); nadd := fadd; nsub := fsub; nmul := fmul; ndiv := fdiv;
     nopp := fopp; nconj := fconj; nexp := fun a => (fexp (fst a), 0);
     nre_ltb := fun a b => ltb (fst a) (fst b); nabs := fabs; nofZ := fofZ; nI := (0, 1) |}.
