(** C18 -- IndexClassification::prepare called again on the same object (supported since repository commit
    1fd1f00: "A repeated call starts from scratch").  PV.Index models one call on a freshly constructed object;
    this file models the object state across calls (the header of Index.v, "Not modelled: calling prepare() twice",
    describes the code before that commit: the behaviour it mentions is [prepare_body] without the [reset], see
    IndexReprepareProofs.second_call_without_reset_fails).

    The object state is the three members (IndexSize, IndicesToInfo, InfoToIndices) = [Index.table].
    - constructor (cpp:33-35): IndexSize(0), both containers empty: [constructed].
    - prepare, the three statements at the top (cpp:40-42):
          IndexSize=0; InfoToIndices.clear(); IndicesToInfo.clear();                       [reset]
    - the rest of prepare (cpp:43-76) reads the members it finds:                          [prepare_body]
          IndexSize += orbitals*spins per site          -- accumulates on top of the value found
          IndicesToInfo.resize(IndexSize)               -- keeps the elements found, appends null pointers / truncates
          the enumeration loops write IndicesToInfo[currentIndex] from currentIndex = 0
          for (i < IndexSize) InfoToIndices[*IndicesToInfo[i]] = i      -- operator[] on the map found: overwrites
      i.e. [Index.prepare] with the starting values taken from the object instead of 0 / empty.
    [prepare_on] = reset, then the body: one call of the repaired prepare on an object in state [t0].
    [prepare_history] = a sequence of calls on one object. *)
Require Import Bool List Arith.
From PV Require Import Outcome Index.
Import ListNotations.

(** IndexClassification::IndexClassification: IndexSize(0), empty vector, empty map *)
Definition constructed : table := mkTable 0 [] [].

(** std::vector<IndexInfo*>::resize(n): the first n elements stay, missing ones are value-initialised (null) *)
Definition vec_resize (v : vec) (n : nat) : vec := firstn n v ++ repeat None (n - length v).

(** cpp:43-76 on an object whose members hold [t0] *)
Definition prepare_body (fixed order_spins : bool) (ss : list site) (t0 : table) : outcome table :=
  let size := IndexSize t0 + index_total ss in
  let st0 := (vec_resize (IndicesToInfo t0) size, 0) in
  bind (if order_spins then spin_major fixed ss st0 else site_major ss st0) (fun st =>
  bind (for_range size 0 (build_step (fst st)) (InfoToIndices t0)) (fun m =>
  Done (mkTable size (fst st) m))).

(** cpp:40-42 *)
Definition reset (t0 : table) : table := mkTable 0 [] [].

(** IndexClassification::prepare(order_spins) on an object in state [t0] *)
Definition prepare_on (fixed order_spins : bool) (ss : list site) (t0 : table) : outcome table :=
  prepare_body fixed order_spins ss (reset t0).

(** prepare(m1); prepare(m2); ... on one object; a call that does not return normally ends the history *)
Fixpoint prepare_history (fixed : bool) (ms : list bool) (ss : list site) (t0 : table) : outcome table :=
  match ms with
  | [] => Done t0
  | m :: r => bind (prepare_on fixed m ss t0) (prepare_history fixed r ss)
  end.
