(** C12 -- Wick's theorem for quadratic Hamiltonians: definitions.

    For H = sum_i eps_i n_i on M modes the Fock basis is an eigenbasis: state s (mode i = bit i of s),
    E_s = sum_{i in s} eps_i,  w_s = prod_{i in s} x_i / prod_i (1 + x_i)  with x_i = e^{-beta eps_i}.
    The statements are about the EXECUTABLE SPECIFICATION PV.EDSpec (gf, chi, phi, op_matrix) itself,
    instantiated at a number type [FNum F] built from an arbitrary field F:

      - the Boltzmann factors x_i, the levels eps_i, beta and the frequencies are FREE field elements, so
        every identity proved is an identity of rational functions;
      - the two threshold tests of the specification (|matrix element| > 0 in chi_ordering,
        |z1+z2| < tol && |E_i-E_k| < tol in phi) are assumed EXACT zero tests: [fnz_test], [fres_test]
        (the exact-arithmetic idealisation tol -> 0+ of the code's 1e-8 thresholds);
      - the characteristic is not 2 ([ftwo]): needed only to conclude eps = 0 from eps + eps = 0.

    An instance over Coquelicot's complex numbers (classical zero test) is in WickC.v, so the hypotheses
    are satisfiable.  Proofs: WickProofs.v (basics, tactics, free propagator), WickCase*.v (one file per
    index quadruple, compiled in parallel), WickMain.v (assembly). *)
Require Import List Bool ZArith Field Arith.
From PV Require Import Outcome Fock Poly EDSpec.
Import ListNotations.

Set Primitive Projections.
Record fsetting := {
  fK : Type;
  f0 : fK; f1 : fK; fadd : fK -> fK -> fK; fmul : fK -> fK -> fK; fsub : fK -> fK -> fK;
  fopp : fK -> fK; fdiv : fK -> fK -> fK; finv : fK -> fK;
  fKf : field_theory f0 f1 fadd fmul fsub fopp fdiv finv (@eq fK);
  fisz : fK -> bool;                                  (* zero test *)
  fisz_spec : forall x, fisz x = true <-> x = f0;
  fabs : fK -> fK; fltb : fK -> fK -> bool; ftol : fK;
  fnz_test : forall x, fltb f0 (fabs x) = negb (fisz x);    (* "matrix element is non-zero" is exact *)
  fres_test : forall x, fltb (fabs x) ftol = fisz x;         (* "resonance" is exact *)
  ftwo : fadd f1 f1 <> f0
}.
Unset Primitive Projections.

(** the number type of PV.EDSpec over the field (conjugation, exponential, integer injection and the
    imaginary unit are not used by gf / chi / phi / op_matrix) *)
Definition FNum (F : fsetting) : numops (fK F) :=
  Build_numops (fK F) (f0 F) (f1 F) (fadd F) (fsub F) (fmul F) (fdiv F) (fopp F) (fun x => x) (fun x => x)
               (fltb F) (fabs F) (fun _ => f0 F) (f0 F).

Section Defs.
Variable F : fsetting.
Notation K := (fK F).
Notation "0" := (f0 F). Notation "1" := (f1 F).
Infix "+" := (fadd F). Infix "*" := (fmul F). Infix "-" := (fsub F). Infix "/" := (fdiv F).
Notation isz := (fisz F).

Definition bit (s i : nat) : bool := Nat.testbit s i.

(** E_s = sum_{i in s} eps_i, s = 0 .. 2^M - 1 *)
Definition energies (eps : list K) : list K :=
  map (fun s => fold_left (fun acc ie => if bit s (fst ie) then acc + snd ie else acc) (idx eps) 0)
      (seq 0 (Nat.pow 2 (length eps))).

(** w_s = prod_{i in s} x_i / prod_i (1 + x_i) *)
Definition gibbs (xs : list K) : list K :=
  let Z := fold_left (fun acc x => acc * (1 + x)) xs 1 in
  map (fun s => fold_left (fun acc ix => if bit s (fst ix) then acc * snd ix else acc) (idx xs) 1 / Z)
      (seq 0 (Nat.pow 2 (length xs))).

(** c_i and c^+_i on M modes in the Fock basis: the specification's Jordan-Wigner matrices *)
Definition Cm (M i : nat) := op_matrix K (FNum F) M (cann i).
Definition CXm (M i : nat) := op_matrix K (FNum F) M (cdag i).

(** the free propagator  g_ij(z) = delta_ij / (z - eps_i) *)
Definition gfree (eps : list K) (i j : nat) (z : K) : K :=
  if Nat.eqb i j then 1 / (z - nth i eps 0) else 0.

(** the documented Wick part (doc/gamma4.tex; conventions of PV.Matsubara4Spec.chi0) built from the free
    propagator, with the Kronecker symbols of frequencies expressed by the zero test
    (w1 = w4 iff w2 = w3 because w4 = w1 + w2 - w3):
      chi0_ijkl(z1,z2;z3) = beta [z2=z3] g_il(z1) g_jk(z2) - beta [z1=z3] g_ik(z1) g_jl(z2) *)
Definition chi0_free (eps : list K) (beta : K) (i j k l : nat) (z1 z2 z3 : K) : K :=
  (if isz (z2 - z3) then beta * (gfree eps i l z1 * gfree eps j k z2) else 0) -
  (if isz (z1 - z3) then beta * (gfree eps i k z1 * gfree eps j l z2) else 0).

(** Regularity of a point (levels e1 e2, Boltzmann factors x1 x2, frequencies z1 z2 z3) for two modes:
    what is true for x_i = e^{-beta e_i} > 0, real e_i and fermionic Matsubara frequencies z = i omega:
    - fermionic denominators never vanish;
    - a bosonic denominator W + Delta (W = z1+z2, z1-z3, z2-z3; Delta a level difference) vanishes only
      when both W = 0 and Delta = 0 (W imaginary, Delta real);
    - degenerate levels have equal Boltzmann factors; e1 + e2 = 0 means x1 x2 = 1. *)
Record regular (e1 e2 x1 x2 z1 z2 z3 : K) : Prop := {
  r_x1 : 1 + x1 <> 0; r_x2 : 1 + x2 <> 0;
  r_11 : z1 - e1 <> 0; r_12 : z1 - e2 <> 0; r_21 : z2 - e1 <> 0; r_22 : z2 - e2 <> 0;
  r_31 : z3 - e1 <> 0; r_32 : z3 - e2 <> 0;
  r_41 : z1 + z2 - z3 - e1 <> 0; r_42 : z1 + z2 - z3 - e2 <> 0;
  r_pp : z1 + z2 - (e1 + e2) = 0 -> z1 + z2 = 0 /\ e1 + e2 = 0;
  r_13a : z1 - z3 + (e1 - e2) = 0 -> z1 - z3 = 0 /\ e1 - e2 = 0;
  r_13b : z1 - z3 - (e1 - e2) = 0 -> z1 - z3 = 0 /\ e1 - e2 = 0;
  r_23a : z2 - z3 + (e1 - e2) = 0 -> z2 - z3 = 0 /\ e1 - e2 = 0;
  r_23b : z2 - z3 - (e1 - e2) = 0 -> z2 - z3 = 0 /\ e1 - e2 = 0;
  r_ferm : z1 <> 0;
  r_deg : e1 - e2 = 0 -> x1 = x2;
  r_ph : e1 + e2 = 0 -> x1 * x2 = 1
}.

(** markers used by the proof scripts for candidate disequalities (frequency / energy) *)
Definition nzf (x : K) : Prop := x <> 0.
Definition nze (x : K) : Prop := x <> 0.
End Defs.
