(** C10: the executable list-level model of FieldOperatorPart::compute (HPart.fop_dense), instantiated at an arbitrary
    field [F] with involution [conj] and exact zero tests, IS the rotation  U_to^+ O U_from  of mathcomp matrices:

        [fop_dense_is_rotation]   fop_dense ... = Done D   and   (D as a matrix) = adj U_to *m O *m U_from,

    where U_to, U_from are the stored eigenvector matrices and O is the matrix with the sign of O|K_k> in row l_k of
    column k ([jw_entry_tgt] identifies it with the Jordan-Wigner block).  It combines the list-level characterisation
    HPartProofs.fop_dense_entries with Rotate.rotation_formula; ssreflect/mathcomp style. *)
From mathcomp Require Import all_ssreflect all_algebra.
From PV Require Import Outcome Fock Poly PolySem EDSpec HPart HPartSpec HPartProofs Rotate.
Set Implicit Arguments.
Unset Strict Implicit.
Unset Printing Implicit Defensive.
Import GRing.Theory.
Local Open Scope ring_scope.

Section Bridge.
Variable F : fieldType.
Variable conj : {rmorphism F -> F}.

(** the numeric operations of the model at F; the magnitude tests |x| < eps, |x| > eps become exact zero tests
    (eps = 0, |x| = x, "a < b" := a = 0 and b <> 0) *)
Definition Fops : numops F :=
  {| n0 := 0; n1 := 1; nadd := +%R; nsub := fun x y => x - y; nmul := *%R; ndiv := fun x y => x / y;
     nopp := -%R; nconj := conj; nexp := id; nre_ltb := fun a b => (a == 0) && (b != 0);
     nabs := id; nofZ := fun _ => 0; nI := 0 |}.

Lemma F_one_not_small : nre_ltb F Fops (nabs F Fops (n1 F Fops)) 0 = false.
Proof. by rewrite /= eqxx andbF. Qed.
Lemma F_mone_not_small : nre_ltb F Fops (nabs F Fops (nopp F Fops (n1 F Fops))) 0 = false.
Proof. by rewrite /= eqxx andbF. Qed.
Lemma F_one_large : nre_ltb F Fops 0 (nabs F Fops (n1 F Fops)) = true.
Proof. by rewrite /= eqxx oner_neq0. Qed.
Lemma F_mone_large : nre_ltb F Fops 0 (nabs F Fops (nopp F Fops (n1 F Fops))) = true.
Proof. by rewrite /= eqxx oppr_eq0 oner_neq0. Qed.

Lemma fold_left_sum n (f : nat -> F) :
  List.fold_left (fun acc k => acc + f k) (List.seq 0 n) 0 = \sum_(k < n) f k.
Proof.
elim: n => [|n IH]; first by rewrite big_ord0.
by rewrite List.seq_S List.fold_left_app IH big_ord_recr.
Qed.

Variables (fb : bool) (S : classification) (o : fop) (from to : nat) (fromStates toStates : list nat) (Hfrom Hto : mat F).
Let nt := length toStates.
Let nf := length fromStates.
Hypothesis S_wf : wf_class S.
Hypothesis o_in_range : mono_in_range (sc_M S) (fop_mono o).
Hypothesis from_block : List.nth_error (sc_states S) from = Some fromStates.
Hypothesis to_block : List.nth_error (sc_states S) to = Some toStates.
Hypothesis Hfrom_square : square F nf Hfrom.
Hypothesis Hto_square : square F nt Hto.
(** the operator respects the pair of blocks (C07: single target) *)
Hypothesis respected : forall Kst L sg, List.In Kst fromStates -> tgt_of F Fops (sc_M S) o Kst = Some (L, sg) -> List.In L toStates.

Definition Uto : 'M[F]_nt := \matrix_(i, j) mget F Fops Hto i j.
Definition Ufrom : 'M[F]_nf := \matrix_(i, j) mget F Fops Hfrom i j.
Definition tgt (k : 'I_nf) : option 'I_nt :=
  match tgt_of F Fops (sc_M S) o (List.nth k fromStates 0%N) with
  | Some (L, sg) => match find_pos toStates L 0 with Some l => insub l | None => None end
  | None => None
  end.
Definition sgK (k : 'I_nf) : F :=
  match tgt_of F Fops (sc_M S) o (List.nth k fromStates 0%N) with Some (L, sg) => sg | None => 0 end.
(** O(l,k) = sign of O|K_k> if its image is the l-th state of the left block, else 0 *)
Definition Omx : 'M[F]_(nt, nf) := \matrix_(l, k) if tgt k == Some l then sgK k else 0.

Lemma Omx_one_per_column k l : tgt k != Some l -> Omx l k = 0.
Proof. by move=> ne; rewrite mxE (negbTE ne). Qed.

Theorem fop_dense_is_rotation :
  exists D, fop_dense fb F Fops 0 S o from to Hfrom Hto = Done D /\
    (\matrix_(n < nt, m < nf) mget F Fops D n m) = adj conj Uto *m Omx *m Ufrom.
Proof.
have [D [HD Hent]] := fop_dense_entries fb F Fops 0 F_one_not_small F_mone_not_small F_one_large F_mone_large
                        S o from to fromStates toStates Hfrom Hto S_wf o_in_range from_block to_block
                        Hfrom_square Hto_square respected.
exists D; split=> //.
rewrite -(rotation_formula conj Uto Ufrom Omx_one_per_column).
apply/matrixP => n m; rewrite !mxE.
rewrite Hent; [|exact/ltP|exact/ltP].
rewrite (fold_left_sum nf (fun k => lentry F Fops (sc_M S) o fromStates toStates Hto k n * rentry F Fops (sc_M S) o fromStates Hfrom k m)).
apply: eq_bigr => k _; rewrite !mxE /lentry /rentry.
have Hk : List.In (List.nth k fromStates 0%N) fromStates by apply: List.nth_In; exact/ltP.
case E: (tgt_of F Fops (sc_M S) o (List.nth k fromStates 0%N)) => [[L sg]|]; last by rewrite /tgt E.
have [l Hl] := find_pos_in toStates L 0 (respected Hk E).
have /ltP ll : (l < 0 + length toStates)%coq_nat := find_pos_lt toStates L 0 l Hl.
have Et : tgt k = Some (Ordinal ll) by rewrite /tgt E Hl insubT.
by rewrite Et Hl /sgn Et !mxE Et eqxx /sgK E.
Qed.

(** O is the block <left states| O |right states> of the Jordan-Wigner matrix on the full Fock space *)
Definition JWblock : 'M[F]_(nt, nf) :=
  \matrix_(l, k) mget F Fops (jw_block F Fops (sc_M S) (fop_poly F Fops o) toStates fromStates) l k.

Lemma Omx_is_jw_block : Omx = JWblock.
Proof.
apply/matrixP => l k; rewrite !mxE /jw_block restrict_entry; [|exact/ltP|exact/ltP].
have Hl : List.nth_error toStates l = Some (List.nth l toStates 0%N) by apply: List.nth_error_nth'; exact/ltP.
have Hk : List.nth_error fromStates k = Some (List.nth k fromStates 0%N) by apply: List.nth_error_nth'; exact/ltP.
have [lt2 _] := proj2 S_wf to toStates _ to_block (List.nth_error_In _ _ Hl).
have [kt2 _] := proj2 S_wf from fromStates _ from_block (List.nth_error_In _ _ Hk).
rewrite jw_entry_tgt //= add0r /sgK.
case E: (tgt_of F Fops (sc_M S) o (List.nth k fromStates 0%N)) => [[L sg]|]; last by rewrite /tgt E.
have [l' Hl'] := find_pos_in toStates L 0 (respected (List.nth_error_In _ _ Hk) E).
have /ltP ll : (l' < 0 + length toStates)%coq_nat := find_pos_lt toStates L 0 l' Hl'.
have Et : tgt k = Some (Ordinal ll) by rewrite /tgt E Hl' insubT.
rewrite Et; congr (if _ then _ else _).
apply/eqP/idP => [[<-]|/PeanoNat.Nat.eqb_eq EL].
  have := find_pos_sound toStates L 0 l' Hl'; rewrite PeanoNat.Nat.sub_0_r /= => Hs.
  by apply/PeanoNat.Nat.eqb_eq; rewrite (List.nth_error_nth _ _ 0%N Hs).
have := find_pos_nth toStates l _ 0 (proj1 S_wf to toStates to_block) Hl.
rewrite -EL Hl' => -[Ell]; congr Some; apply: val_inj => /=.
by rewrite Ell.
Qed.

(** C10, end to end for the model: the dense matrix computed by the two loops is the rotation of the Jordan-Wigner block *)
Corollary fop_dense_is_rotated_jw :
  exists D, fop_dense fb F Fops 0 S o from to Hfrom Hto = Done D /\
    (\matrix_(n < nt, m < nf) mget F Fops D n m) = adj conj Uto *m JWblock *m Ufrom.
Proof. by rewrite -Omx_is_jw_block; exact: fop_dense_is_rotation. Qed.

End Bridge.
