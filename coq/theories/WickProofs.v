(** C12 -- proofs, part 1: basic facts about the field setting, the proof tactics shared by the
    WickCase*.v files, and the free propagator  G_ij(z) = delta_ij / (z - eps_i)  for M = 1, 2, 3. *)
Require Import List Bool ZArith Field Arith Lia.
From PV Require Import Outcome Fock Poly EDSpec Wick.
Import ListNotations.

Section Basics.
Variable F : fsetting.
Notation K := (fK F).
Notation "0" := (f0 F). Notation "1" := (f1 F).
Infix "+" := (fadd F). Infix "*" := (fmul F). Infix "-" := (fsub F). Infix "/" := (fdiv F).
Notation "- x" := (fopp F x).
Notation isz := (fisz F).
Notation NO := (FNum F).
Add Field Ffield0 : (fKf F).

Lemma isz_true : forall x, x = 0 -> isz x = true.
Proof. intros x H. now apply fisz_spec. Qed.
Lemma isz_false : forall x, x <> 0 -> isz x = false.
Proof. intros x H. destruct (isz x) eqn:E; [|reflexivity]. apply fisz_spec in E. contradiction. Qed.
Lemma isz_true_inv : forall x, isz x = true -> x = 0.
Proof. intros x H. now apply fisz_spec. Qed.
Lemma isz_false_inv : forall x, isz x = false -> x <> 0.
Proof. intros x H E. apply isz_true in E. congruence. Qed.
Lemma one_neq_zero : 1 <> 0.
Proof. exact (F_1_neq_0 (fKf F)). Qed.

(** the tests of the specification, in the form they take after partial evaluation *)
Lemma nzF : forall x, nre_ltb K NO (n0 K NO) (nabs K NO x) = negb (isz x).
Proof. exact (fnz_test F). Qed.
Lemma resF : forall x, fltb F (fabs F x) (ftol F) = isz x.
Proof. exact (fres_test F). Qed.
(** entries of the Jordan-Wigner matrices computed by op_matrix are literally 0+0, 0+1, 0+(-1) *)
Lemma Hz00 : isz (nadd K NO (n0 K NO) (n0 K NO)) = true.
Proof. apply isz_true. cbv [FNum n0 n1 nadd nopp]. ring. Qed.
Lemma Hz01 : isz (nadd K NO (n0 K NO) (n1 K NO)) = false.
Proof. apply isz_false. cbv [FNum n0 n1 nadd nopp]. intro H. apply one_neq_zero. rewrite <- H. ring. Qed.
Lemma Hz0m1 : isz (nadd K NO (n0 K NO) (nopp K NO (n1 K NO))) = false.
Proof.
  apply isz_false. cbv [FNum n0 n1 nadd nopp]. intro H. apply one_neq_zero.
  transitivity (- (0 + - (1))); [ring|]. rewrite H. ring.
Qed.

Lemma mul_zero_inv : forall a b, a * b = 0 -> a <> 0 -> b = 0.
Proof. intros a b H Ha. transitivity ((a * b) / a); [field; exact Ha | rewrite H; field; exact Ha]. Qed.
Lemma mul_nz : forall a b, a <> 0 -> b <> 0 -> a * b <> 0.
Proof. intros a b Ha Hb E. apply Hb. now apply (mul_zero_inv a). Qed.
Lemma double_zero : forall a, a + a = 0 -> a = 0.
Proof. intros a H. apply (mul_zero_inv (1 + 1)); [rewrite <- H; ring | exact (ftwo F)]. Qed.
Lemma x_from_ph : forall x1 x2, x1 * x2 = 1 -> x1 <> 0 /\ x2 = 1 / x1.
Proof.
  intros x1 x2 H. assert (Hx : x1 <> 0). { intro E. apply one_neq_zero. rewrite <- H, E. ring. }
  split; [exact Hx|]. transitivity ((x1 * x2) / x1); [field; exact Hx | rewrite H; reflexivity].
Qed.
Lemma x_one : forall x, x * x = 1 -> 1 + x <> 0 -> x = 1.
Proof.
  intros x H Hx. assert (E : (1 + x) * (x - 1) = 0) by (transitivity (x * x - 1); [ring | rewrite H; ring]).
  apply mul_zero_inv in E; [|exact Hx]. transitivity ((x - 1) + 1); [ring | rewrite E; ring].
Qed.

(** tables for two modes, in the literal form produced by evaluation *)
Lemma energies2 : forall e1 e2, energies F [e1;e2] = [0; 0 + e1; 0 + e2; 0 + e1 + e2].
Proof. reflexivity. Qed.
Lemma gibbs2 : forall x1 x2, gibbs F [x1;x2] =
  [1 / (1 * (1 + x1) * (1 + x2)); 1 * x1 / (1 * (1 + x1) * (1 + x2));
   1 * x2 / (1 * (1 + x1) * (1 + x2)); 1 * x1 * x2 / (1 * (1 + x1) * (1 + x2))].
Proof. reflexivity. Qed.

(** vanishing matrix elements contribute nothing to the (dense) double sum of EDSpec.gf, whatever the
    denominator: 0 * s / d = 0 * s * (1/d) = 0 *)
Lemma gf_zero_l : forall b s d, (0 + 0) * b * s / d = 0.
Proof. intros. rewrite (Fdiv_def (fKf F)). ring. Qed.
Lemma gf_zero_r : forall a s d, a * (0 + 0) * s / d = 0.
Proof. intros. rewrite (Fdiv_def (fKf F)). ring. Qed.
End Basics.

(** * Tactics (global; the field setting is passed as argument, the field structure must have been
      declared by [Add Field] in the section where they are used) *)

(** evaluation of chi at literal tables: cbv, then rewrite the (closed) non-zero tests, four times; phi stays folded *)
Ltac wick_step F :=
  cbv -[phi FNum n0 n1 nadd nsub nmul ndiv nopp nre_ltb nabs fK f0 f1 fadd fmul fsub fopp fdiv finv fisz fabs fltb ftol];
  rewrite ?(nzF F), ?(Hz00 F), ?(Hz01 F), ?(Hz0m1 F).
Ltac wick_expand F :=
  wick_step F; wick_step F; wick_step F; wick_step F;
  cbv -[phi FNum n0 n1 nadd nsub nmul ndiv nopp nre_ltb nabs fK f0 f1 fadd fmul fsub fopp fdiv finv fisz fabs fltb ftol];
  change (n0 (fK F) (FNum F)) with (f0 F); change (n1 (fK F) (FNum F)) with (f1 F);
  change (nadd (fK F) (FNum F)) with (fadd F); change (nmul (fK F) (FNum F)) with (fmul F);
  change (nopp (fK F) (FNum F)) with (fopp F); change (nsub (fK F) (FNum F)) with (fsub F).

(** t <> 0 from a hypothesis u <> 0 with u = t or u = - t (as polynomials) *)
Ltac nz_by F H t :=
  let HE := fresh "HE" in
  solve [ intro HE; apply H; transitivity t; [ring | exact HE]
        | intro HE; apply H; transitivity (fopp F t); [ring | rewrite HE; ring] ].
Ltac nzgoal F :=
  match goal with
  | H : ?u <> f0 F |- ?t <> f0 F => nz_by F H t
  | H : nzf F ?u |- ?t <> f0 F => nz_by F H t
  | H : nze F ?u |- ?t <> f0 F => nz_by F H t
  end.
Ltac nzgoal_f F := match goal with H : nzf F ?u |- ?t <> f0 F => nz_by F H t end.
Ltac nzgoal_e F := match goal with H : nze F ?u |- ?t <> f0 F => nz_by F H t end.
Ltac sidecond F := first [ nzgoal F | apply (mul_nz F); sidecond F ].

(** frequency tests have the shape isz (a + b) (in phi); energy tests and the tests of chi0 isz (a - b) *)
Ltac resolve_f F :=
  repeat match goal with
  | |- context [fisz F (fadd F ?a ?b)] =>
      first [ rewrite (isz_true F (fadd F a b)) by ring | rewrite (isz_false F (fadd F a b)) by nzgoal_f F ]
  end.
Ltac resolve_e F :=
  repeat match goal with
  | |- context [fisz F (fsub F ?a ?b)] =>
      first [ rewrite (isz_true F (fsub F a b)) by ring
            | rewrite (isz_false F (fsub F a b)) by nzgoal_e F
            | rewrite (isz_false F (fsub F a b)) by nzgoal_f F ]
  end.
(** the core: unfold the kernel, decide every test from the case hypotheses, close the rational identity *)
Ltac wick_core F :=
  unfold phi; cbv beta iota zeta delta [FNum n0 n1 nadd nsub nmul ndiv nopp nre_ltb nabs];
  rewrite ?(resF F); unfold chi0_free;
  resolve_f F; cbv beta iota delta [andb]; resolve_e F; cbv beta iota delta [andb gfree Nat.eqb nth];
  field; repeat split; sidecond F.

(** eliminating an equation by substitution *)
Ltac sub_sum F A z1 z2 :=   (* A : z1 + z2 = 0, z2 a variable *)
  let H := fresh in
  assert (H : z2 = fopp F z1) by (transitivity (fsub F (fadd F z1 z2) z1); [ring | rewrite A; ring]); clear A; subst z2.
Ltac sub_diff F B a b :=   (* B : a - b = 0, b a variable *)
  let H := fresh in
  assert (H : b = a) by (transitivity (fsub F a (fsub F a b)); [ring | rewrite B; ring]); clear B; subst b.
Ltac sub_diff_l F B a b :=   (* B : a - b = 0, a a variable *)
  let H := fresh in
  assert (H : a = b) by (transitivity (fadd F (fsub F a b) b); [ring | rewrite B; ring]); clear B; subst a.

(** case analysis on the levels: degenerate e1 = e2 (then x1 = x2), particle-hole e1 + e2 = 0 (then x2 = 1/x1),
    both (then e1 = e2 = 0, x1 = x2 = 1) *)
Ltac caseD F e1 e2 x2 Rdeg :=
  let D := fresh "D" in
  destruct (fisz F (fsub F e1 e2)) eqn:D;
  [ apply (isz_true_inv F) in D; (let Hx := fresh in pose proof (Rdeg D) as Hx; sub_diff F D e1 e2; subst x2)
  | apply (isz_false_inv F) in D; fold (nze F (fsub F e1 e2)) in D ].
Ltac caseE F e1 e2 x2 Rph :=
  let E := fresh "E" in
  destruct (fisz F (fadd F e1 e2)) eqn:E;
  [ apply (isz_true_inv F) in E;
    (let Hx := fresh in let Hx1 := fresh "Hx1" in let Hx2 := fresh in
     pose proof (Rph E) as Hx; apply (x_from_ph F) in Hx; destruct Hx as [Hx1 Hx2]; sub_sum F E e1 e2; subst x2)
  | apply (isz_false_inv F) in E; fold (nze F (fadd F e1 e2)) in E ].
Ltac caseDE F e1 x1 Rx1 Rph :=   (* after caseD's first branch: e2 = e1, x2 = x1 *)
  let E := fresh "E" in
  destruct (fisz F (fadd F e1 e1)) eqn:E;
  [ apply (isz_true_inv F) in E;
    (let Hx := fresh in pose proof (Rph E) as Hx; apply (double_zero F) in E; apply (x_one F) in Hx; [|exact Rx1];
     subst e1; subst x1)
  | apply (isz_false_inv F) in E; fold (nze F (fadd F e1 e1)) in E ].

(** the complete case analysis for one index quadruple of the two-mode model; [expand] is the expansion
    lemma of chi into kernels for that quadruple.  Patterns: A (z1+z2=0), B (z1=z3), C (z2=z3). *)
Ltac wick_quadruple F expand :=
  let beta := fresh "beta" in let e1 := fresh "e1" in let e2 := fresh "e2" in
  let x1 := fresh "x1" in let x2 := fresh "x2" in
  let z1 := fresh "z1" in let z2 := fresh "z2" in let z3 := fresh "z3" in
  let Rx1 := fresh "Rx1" in let Rx2 := fresh "Rx2" in
  let R11 := fresh "R11" in let R12 := fresh "R12" in let R21 := fresh "R21" in let R22 := fresh "R22" in
  let R31 := fresh "R31" in let R32 := fresh "R32" in let R41 := fresh "R41" in let R42 := fresh "R42" in
  let Rpp := fresh "Rpp" in let R13a := fresh "R13a" in let R13b := fresh "R13b" in
  let R23a := fresh "R23a" in let R23b := fresh "R23b" in let Rf := fresh "Rf" in
  let Rdeg := fresh "Rdeg" in let Rph := fresh "Rph" in
  let A := fresh "A" in let B := fresh "B" in let C := fresh "C" in let Htwo := fresh "Htwo" in
  intros beta e1 e2 x1 x2 z1 z2 z3 [Rx1 Rx2 R11 R12 R21 R22 R31 R32 R41 R42 Rpp R13a R13b R23a R23b Rf Rdeg Rph];
  rewrite (energies2 F), (gibbs2 F), expand; pose proof (ftwo F) as Htwo;
  destruct (fisz F (fadd F z1 z2)) eqn:A; destruct (fisz F (fsub F z1 z3)) eqn:B; destruct (fisz F (fsub F z2 z3)) eqn:C;
  try apply (isz_true_inv F) in A; try apply (isz_true_inv F) in B; try apply (isz_true_inv F) in C;
  try (apply (isz_false_inv F) in A; fold (nzf F (fadd F z1 z2)) in A;
       assert (fsub F (fadd F z1 z2) (fadd F e1 e2) <> f0 F)
         by (let HE := fresh in intro HE; apply Rpp in HE; unfold nzf in A; tauto));
  try (apply (isz_false_inv F) in B; fold (nzf F (fsub F z1 z3)) in B;
       assert (fadd F (fsub F z1 z3) (fsub F e1 e2) <> f0 F)
         by (let HE := fresh in intro HE; apply R13a in HE; unfold nzf in B; tauto);
       assert (fsub F (fsub F z1 z3) (fsub F e1 e2) <> f0 F)
         by (let HE := fresh in intro HE; apply R13b in HE; unfold nzf in B; tauto));
  try (apply (isz_false_inv F) in C; fold (nzf F (fsub F z2 z3)) in C;
       assert (fadd F (fsub F z2 z3) (fsub F e1 e2) <> f0 F)
         by (let HE := fresh in intro HE; apply R23a in HE; unfold nzf in C; tauto);
       assert (fsub F (fsub F z2 z3) (fsub F e1 e2) <> f0 F)
         by (let HE := fresh in intro HE; apply R23b in HE; unfold nzf in C; tauto));
  clear Rpp R13a R13b R23a R23b;
  [ (* A B C: impossible for fermionic frequencies *)
    exfalso; sub_diff F B z1 z3; sub_diff_l F C z2 z1; apply Rf; now apply (double_zero F)
  | (* A B *)
    sub_sum F A z1 z2; sub_diff F B z1 z3;
    caseD F e1 e2 x2 Rdeg; [ caseDE F e1 x1 Rx1 Rph | caseE F e1 e2 x2 Rph ]; wick_core F
  | (* A C *)
    sub_sum F A z1 z2; sub_diff F C (fopp F z1) z3;
    caseD F e1 e2 x2 Rdeg; [ caseDE F e1 x1 Rx1 Rph | caseE F e1 e2 x2 Rph ]; wick_core F
  | (* A *)
    sub_sum F A z1 z2; caseE F e1 e2 x2 Rph; wick_core F
  | (* B C *)
    sub_diff F B z1 z3; sub_diff_l F C z2 z1; caseD F e1 e2 x2 Rdeg; wick_core F
  | (* B *)
    sub_diff F B z1 z3; caseD F e1 e2 x2 Rdeg; wick_core F
  | (* C *)
    sub_diff F C z2 z3; caseD F e1 e2 x2 Rdeg; wick_core F
  | (* generic: no resonance *)
    wick_core F ].

(** evaluation of EDSpec.gf at literal tables with elimination of the vanishing matrix elements *)
Ltac gf_eval F :=
  cbv -[fK f0 f1 fadd fmul fsub fopp fdiv finv fisz fabs fltb ftol];
  repeat rewrite (gf_zero_l F); repeat rewrite (gf_zero_r F).

(** * free_gf_diag: for H = sum eps_i n_i the specification's G is delta_ij / (z - eps_i), M = 1, 2, 3,
      for all levels, Boltzmann factors and z (identities of rational functions). *)
Section FreeGF.
Variable F : fsetting.
Notation K := (fK F).
Notation "0" := (f0 F). Notation "1" := (f1 F).
Infix "+" := (fadd F). Infix "*" := (fmul F). Infix "-" := (fsub F). Infix "/" := (fdiv F).
Notation NO := (FNum F).
Add Field Ffield1 : (fKf F).

Ltac small_index i H :=
  match type of H with
  | (i < 1)%nat => destruct i as [|i]; [|exfalso; lia]
  | (i < 2)%nat => destruct i as [|[|i]]; [| |exfalso; lia]
  | (i < 3)%nat => destruct i as [|[|[|i]]]; [| | |exfalso; lia]
  end.

Theorem free_gf_diag_1 : forall e1 x1 z, 1 + x1 <> 0 -> z - e1 <> 0 ->
  gf K NO (energies F [e1]) (gibbs F [x1]) (Cm F 1 0) (CXm F 1 0) z = gfree F [e1] 0 0 z.
Proof.
  intros e1 x1 z H1 Hz. gf_eval F. field. repeat split; assumption.
Qed.

Theorem free_gf_diag_2 : forall e1 e2 x1 x2 z i j, (i < 2)%nat -> (j < 2)%nat ->
  1 + x1 <> 0 -> 1 + x2 <> 0 -> z - e1 <> 0 -> z - e2 <> 0 ->
  gf K NO (energies F [e1;e2]) (gibbs F [x1;x2]) (Cm F 2 i) (CXm F 2 j) z = gfree F [e1;e2] i j z.
Proof.
  intros e1 e2 x1 x2 z i j Hi Hj H1 H2 Hz1 Hz2.
  small_index i Hi; small_index j Hj; gf_eval F; first [ ring | field; repeat split; assumption ].
Qed.

Theorem free_gf_diag_3 : forall e1 e2 e3 x1 x2 x3 z i j, (i < 3)%nat -> (j < 3)%nat ->
  1 + x1 <> 0 -> 1 + x2 <> 0 -> 1 + x3 <> 0 -> z - e1 <> 0 -> z - e2 <> 0 -> z - e3 <> 0 ->
  gf K NO (energies F [e1;e2;e3]) (gibbs F [x1;x2;x3]) (Cm F 3 i) (CXm F 3 j) z = gfree F [e1;e2;e3] i j z.
Proof.
  intros e1 e2 e3 x1 x2 x3 z i j Hi Hj H1 H2 H3 Hz1 Hz2 Hz3.
  small_index i Hi; small_index j Hj; gf_eval F; first [ ring | field; repeat split; assumption ].
Qed.
End FreeGF.
