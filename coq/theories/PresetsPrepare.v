(** PresetsPrepare.v -- C04, layer 2: IndexHamiltonian::prepare (model PV.IndexHam) builds the sum of the
    lattice's terms, each read as Value * (product of the Jordan-Wigner matrices of its operators).

      - [prepare_sound]          any lattice whose stored terms are well formed and in range, any term length;
      - [prepare_sound_refuted]  the loop as written (fixed = false) does not: witness c^+_0 c^+_0 c_1 c_2;
      - [prepare_of_terms]       for a lattice holding the terms [ts] (in any order of insertion) the matrix is
                                 the sum over [ts] -- the form used for the presets;
      - [raw_term_sound]         a user term of 2, 4 or 6 (indeed any N >= 1) operators;
      - the semantics of the writer combinators of Lattice.v ([wseq], [wfor], [wwhen], [wpush_f]). *)
Require Import Bool List Arith Lia Ring Ring_theory ZArith.
From PV Require Import Lattice.
From PV Require Import Outcome Fock Poly PolySem CAR AlgebraBasics AlgebraProofs NormalizeProofs.
From PV Require Import PresetsSpec IndexHam PresetsBasics.
Import ListNotations.

(** * Term storage facts (re-proved here so that this file does not depend on the C20 proof file) *)
Section Storage.
Variables L V : Type.
Notation term := (Lattice.term L V).

Lemma tm_get_push' (n k : nat) (t : term) (m : term_map L V) :
  tm_get L V n (tm_push L V k t m) = if k =? n then tm_get L V n m ++ [t] else tm_get L V n m.
Proof.
  induction m as [|[j l] m IH]; cbn [tm_push tm_get].
  - destruct (k =? n) eqn:E; reflexivity.
  - destruct (j =? k) eqn:Ejk; cbn [tm_get].
    + apply Nat.eqb_eq in Ejk. subst j. destruct (k =? n) eqn:E; reflexivity.
    + destruct (j =? n) eqn:Ejn.
      * apply Nat.eqb_eq in Ejn. subst j. rewrite Nat.eqb_sym in Ejk. rewrite Ejk. reflexivity.
      * exact IH.
Qed.

Lemma getTerms_push_all' (ts : list term) (st : Lattice.state L V) (n : nat) :
  getTerms L V (push_all L V ts st) n = getTerms L V st n ++ filter (fun t => t_order t =? n) ts.
Proof.
  revert st. induction ts as [|t ts IH]; intros st; cbn [Lattice.push_all fold_left filter].
  - rewrite app_nil_r. reflexivity.
  - change (fold_left (fun s t0 => ts_add L V t0 s) ts (ts_add L V t st)) with (push_all L V ts (ts_add L V t st)).
    rewrite IH. unfold Lattice.getTerms at 1, Lattice.ts_add. cbn [terms]. rewrite tm_get_push'.
    fold (getTerms L V st n). destruct (t_order t =? n).
    + rewrite <- app_assoc. reflexivity.
    + reflexivity.
Qed.

Lemma maxorder_push_all' (ts : list term) (st : Lattice.state L V) :
  maxorder (push_all L V ts st) = fold_left Nat.max (map t_order ts) (maxorder st).
Proof.
  revert st. induction ts as [|t ts IH]; intros st; cbn [Lattice.push_all fold_left map]; [reflexivity|].
  change (fold_left (fun s t0 => ts_add L V t0 s) ts (ts_add L V t st)) with (push_all L V ts (ts_add L V t st)).
  rewrite IH. f_equal. unfold Lattice.ts_add. cbn [maxorder].
  destruct (maxorder st <? t_order t) eqn:E; [apply Nat.ltb_lt in E|apply Nat.ltb_ge in E]; lia.
Qed.

Lemma fold_max_ge : forall (l : list nat) a, a <= fold_left Nat.max l a.
Proof. induction l as [|x l IH]; intros a; cbn [fold_left]; [lia|]. specialize (IH (Nat.max a x)). lia. Qed.
Lemma fold_max_in : forall (l : list nat) a x, In x l -> x <= fold_left Nat.max l a.
Proof.
  induction l as [|y l IH]; intros a x H; [destruct H|]. cbn [fold_left]. destruct H as [->|H].
  - pose proof (fold_max_ge l (Nat.max a x)). lia.
  - apply IH. exact H.
Qed.
End Storage.

Section PP.
Variable K : Type.
Variables (k0 k1 : K) (kadd kmul ksub : K -> K -> K) (kopp : K -> K).
Variable kzero : K -> bool.
Hypothesis Hring : ring_ok K k0 k1 kadd kmul ksub kopp kzero.
Let Rth : ring_theory k0 k1 kadd kmul ksub kopp (@eq K) := proj1 Hring.
Add Ring Kring_PP : Rth.
Variable M : nat.
Variable L : Type.
Variable idx : L -> nat -> nat -> nat.

Notation term := (Lattice.term L K).
Local Notation cm := (coef_mono K k0 k1 kopp).
Local Notation cp := (coef_poly K k0 k1 kadd kmul kopp).
Local Notation ksum := (@PolySem.ksum K k0 kadd _).
Local Notation poly_in_range := (poly_in_range K).
Local Notation pmul := (Poly.pmul K kadd kmul kopp kzero).
Local Notation padd := (Poly.padd K kadd kzero).
Local Notation pscale := (Poly.pscale K kmul kzero).
Local Notation insert := (Poly.insert K kadd kzero).
Local Notation meq := (PresetsSpec.meq K M).
Local Notation m_op := (PresetsSpec.m_op K k0 k1 kopp).
Local Notation m_prod := (PresetsSpec.m_prod K k0 k1 kadd kmul M).
Local Notation term_ops := (PresetsSpec.term_ops K L idx).
Local Notation term_matrix := (PresetsSpec.term_matrix K k0 k1 kadd kmul kopp M L idx).
Local Notation x_term_matrix := (PresetsSpec.x_term_matrix K k0 k1 kmul kopp L idx).
Local Notation factors := (IndexHam.factors L idx).
Local Notation term_factors := (IndexHam.term_factors L K idx).
Local Notation product_loop := (IndexHam.product_loop K k1 kadd kmul kopp kzero).
Local Notation add_term := (IndexHam.add_term L K k1 kadd kmul kopp kzero idx).
Local Notation add_terms := (IndexHam.add_terms L K k1 kadd kmul kopp kzero idx).
Local Notation prepare := (IndexHam.prepare L K k1 kadd kmul kopp kzero idx).
Local Notation terms_read := (IndexHam.terms_read L K).
Local Notation p_factor := (IndexHam.p_factor K k1).

Let ks_ext := AlgebraBasics.ksum_ext K k0 kadd.
Let ks_zero_ext := AlgebraBasics.ksum_zero_ext K k0 k1 kadd kmul ksub kopp kzero Hring.
Let ks_app := AlgebraBasics.ksum_app K k0 k1 kadd kmul ksub kopp kzero Hring.
Let ks_swap := AlgebraBasics.ksum_swap K k0 k1 kadd kmul ksub kopp kzero Hring.

(** ** the two readings of a term agree *)
Lemma term_matrix_x : forall t, meq (term_matrix t) (x_term_matrix t).
Proof.
  intros t s u Hs _. unfold PresetsSpec.term_matrix, PresetsSpec.x_term_matrix, PresetsSpec.m_scale.
  rewrite (m_prod_mono K k0 k1 kadd kmul ksub kopp kzero Hring M) by exact Hs. reflexivity.
Qed.

(** ** well-formed, in-range terms *)
Definition term_ok (n : nat) (t : term) : Prop :=
  length (t_ops t) = n /\ length (t_labels t) = n /\ length (t_orbs t) = n /\ length (t_spins t) = n /\
  mono_in_range M (term_ops t).

(** every term read by prepare is well formed for the order it is stored under and mentions only modes < M *)
Definition storage_ok (st : Lattice.state L K) : Prop :=
  forall n, 1 <= n -> Forall (term_ok n) (getTerms L K st n).

Lemma factors_term_ops : forall n ops ls os ss,
  length ops = n -> length ls = n -> length os = n -> length ss = n ->
  factors n ops ls os ss =
  Done (map (fun x : bool * nat => if fst x then cdag (snd x) else cann (snd x))
            (combine ops (map (fun y : L * nat * nat => idx (fst (fst y)) (snd (fst y)) (snd y))
                              (combine (combine ls os) ss)))).
Proof.
  induction n as [|n IH]; intros ops ls os ss H1 H2 H3 H4.
  - destruct ops; [|discriminate]. reflexivity.
  - destruct ops as [|o ops]; [discriminate|]. destruct ls as [|l ls]; [discriminate|].
    destruct os as [|a os]; [discriminate|]. destruct ss as [|z ss]; [discriminate|].
    cbn [IndexHam.factors]. cbn [length] in *.
    rewrite (IH ops ls os ss) by lia. cbn [bind combine map fst snd].
    unfold IndexHam.factor_op. reflexivity.
Qed.

Lemma term_factors_ok : forall n t, term_ok n t -> term_factors n t = Done (term_ops t).
Proof.
  intros n t (H1 & H2 & H3 & H4 & _). unfold IndexHam.term_factors, PresetsSpec.term_ops.
  apply factors_term_ops; assumption.
Qed.

Lemma term_ops_length : forall n t, term_ok n t -> length (term_ops t) = n.
Proof.
  intros n t (H1 & H2 & H3 & H4 & _). unfold PresetsSpec.term_ops.
  rewrite map_length, combine_length, map_length, !combine_length. lia.
Qed.

(** ** ranges *)
Lemma pscale_range : forall c p, poly_in_range M p -> poly_in_range M (pscale c p).
Proof.
  intros c p H. unfold Poly.pscale. destruct (kzero c); [constructor|].
  unfold PolySem.poly_in_range in *. apply Forall_map. eapply Forall_impl; [|exact H]. intros [m x] Hm. exact Hm.
Qed.

Lemma padd_range : forall b a, poly_in_range M a -> poly_in_range M b -> poly_in_range M (padd a b).
Proof.
  unfold Poly.padd. induction b as [|[m c] b IH]; intros a Ha Hb; cbn [fold_left]; [exact Ha|].
  inversion Hb as [|x l Hm Hb']; subst. apply IH; [|exact Hb'].
  apply (insert_range K kadd kzero M); assumption.
Qed.

(** ** the running product, repaired variant *)
Lemma product_loop_true : forall fs done tmp,
  poly_in_range M tmp -> mono_in_range M fs ->
  (forall s t, length s = M -> length t = M -> cp tmp s t = cm done s t) ->
  exists p, product_loop true fs tmp false = Done p /\ poly_in_range M p /\
    forall s t, length s = M -> length t = M -> cp p s t = cm (done ++ fs) s t.
Proof.
  induction fs as [|f fs IH]; intros done tmp Hr Hfs Hsem.
  - exists tmp. cbn [IndexHam.product_loop]. rewrite app_nil_r. auto.
  - cbn [IndexHam.product_loop].
    inversion Hfs as [|x l Hf Hfs']; subst.
    assert (Hpf : poly_in_range M (p_factor f)).
    { constructor; [|constructor]. cbn [fst]. constructor; [exact Hf|constructor]. }
    destruct (pmul_total K kadd kmul kopp kzero tmp (p_factor f)) as [tmp' Htmp']. rewrite Htmp'.
    cbn [bind].
    destruct (IH (done ++ [f]) tmp') as (p & Hp & Hpr & Hps).
    + exact (pmul_range K kadd kmul kopp kzero M tmp (p_factor f) tmp' Hr Hpf Htmp').
    + exact Hfs'.
    + intros s t Hs Ht.
      rewrite (pmul_sound_gen K k0 k1 kadd kmul ksub kopp kzero Hring M tmp (p_factor f) tmp' s t Hr Hpf Hs Ht Htmp').
      rewrite (AlgebraBasics.coef_mono_app K k0 k1 kadd kmul ksub kopp kzero Hring M done [f] s t Hs).
      apply ks_ext. intros u Hu. apply all_states_length in Hu.
      rewrite Hsem by assumption. unfold IndexHam.p_factor. rewrite cp_cons, cp_nil. ring.
    + exists p. rewrite <- app_assoc in Hps. auto.
Qed.

Lemma product_loop_first : forall f fs, mono_in_range M (f :: fs) ->
  exists p, product_loop true (f :: fs) [] true = Done p /\ poly_in_range M p /\
    forall s t, length s = M -> length t = M -> cp p s t = cm (f :: fs) s t.
Proof.
  intros f fs H. cbn [IndexHam.product_loop]. inversion H as [|x l Hf Hfs]; subst.
  apply (product_loop_true fs [f] (p_factor f)).
  - constructor; [|constructor]. cbn [fst]. constructor; [exact Hf|constructor].
  - exact Hfs.
  - intros s t _ _. unfold IndexHam.p_factor. rewrite cp_cons, cp_nil. ring.
Qed.

(** ** one term *)
Definition term_sem (t : term) (s u : state) : K := kmul (t_val t) (cm (term_ops t) s u).

Lemma add_term_sound : forall n t h, 1 <= n -> term_ok n t -> poly_in_range M h ->
  exists h', add_term true n t h = Done h' /\ poly_in_range M h' /\
    forall s u, length s = M -> length u = M -> cp h' s u = kadd (cp h s u) (term_sem t s u).
Proof.
  intros n t h Hn Hok Hh. unfold IndexHam.add_term. rewrite (term_factors_ok n t Hok). cbn [bind].
  pose proof (term_ops_length n t Hok) as Hlen.
  destruct Hok as (_ & _ & _ & _ & Hr).
  destruct (term_ops t) as [|f fs] eqn:E; [cbn in Hlen; lia|].
  destruct (product_loop_first f fs Hr) as (p & Hp & Hpr & Hps). rewrite Hp. cbn [bind].
  eexists. split; [reflexivity|]. split.
  - apply padd_range; [exact Hh|]. apply pscale_range. exact Hpr.
  - intros s u Hs Hu.
    rewrite (padd_sound_gen K k0 k1 kadd kmul ksub kopp kzero Hring).
    rewrite (pscale_sound_gen K k0 k1 kadd kmul ksub kopp kzero Hring).
    rewrite Hps by assumption. unfold term_sem. rewrite E. reflexivity.
Qed.

Lemma add_terms_sound : forall n ts h, 1 <= n -> Forall (term_ok n) ts -> poly_in_range M h ->
  exists h', add_terms true n ts (Done h) = Done h' /\ poly_in_range M h' /\
    forall s u, length s = M -> length u = M ->
      cp h' s u = kadd (cp h s u) (ksum ts (fun t => term_sem t s u)).
Proof.
  intros n ts. unfold IndexHam.add_terms. induction ts as [|t ts IH]; intros h Hn Hok Hh.
  - exists h. cbn [fold_left]. split; [reflexivity|]. split; [exact Hh|].
    intros s u _ _. cbn. ring.
  - inversion Hok as [|x l Ht Hts]; subst. cbn [fold_left bind].
    destruct (add_term_sound n t h Hn Ht Hh) as (h1 & E1 & R1 & S1). rewrite E1.
    destruct (IH h1 Hn Hts R1) as (h2 & E2 & R2 & S2). exists h2. split; [exact E2|]. split; [exact R2|].
    intros s u Hs Hu. rewrite S2, S1 by assumption. rewrite ksum_cons'. ring.
Qed.

(** ** IndexHamiltonian::prepare, repaired variant: the matrix of the polynomial it builds is the sum over the
       stored terms (orders MaxTermOrder ... 1, insertion order within an order) of Value * product of the
       Jordan-Wigner matrices of the term's operators; it never fails *)
Lemma prepare_fold_sound : forall (st : Lattice.state L K) (ns : list nat) h,
  (forall n, In n ns -> 1 <= n /\ Forall (term_ok n) (getTerms L K st n)) -> poly_in_range M h ->
  exists h', fold_left (fun acc n => add_terms true n (getTerms L K st n) acc) ns (Done h) = Done h' /\
    poly_in_range M h' /\
    forall s u, length s = M -> length u = M ->
      cp h' s u = kadd (cp h s u)
        (ksum (flat_map (fun n => map (fun t => (n, t)) (getTerms L K st n)) ns) (fun nt => term_sem (snd nt) s u)).
Proof.
  intros st ns. induction ns as [|n ns IH]; intros h Hok Hh.
  - exists h. cbn [fold_left flat_map]. split; [reflexivity|]. split; [exact Hh|]. intros s u _ _. cbn. ring.
  - cbn [fold_left flat_map].
    destruct (Hok n (or_introl eq_refl)) as [Hn Hts].
    destruct (add_terms_sound n (getTerms L K st n) h Hn Hts Hh) as (h1 & E1 & R1 & S1). rewrite E1.
    destruct (IH h1 (fun k Hk => Hok k (or_intror Hk)) R1) as (h2 & E2 & R2 & S2).
    exists h2. split; [exact E2|]. split; [exact R2|].
    intros s u Hs Hu. rewrite S2, S1 by assumption. rewrite ks_app.
    rewrite (AlgebraBasics.ksum_map K k0 kadd). cbn [snd]. ring.
Qed.

Lemma orders_down_in : forall n k, In k (orders_down n) <-> 1 <= k <= n.
Proof.
  induction n as [|n IH]; intros k; cbn [orders_down In]; [lia|]. rewrite IH. lia.
Qed.

Theorem prepare_sound_x : forall st : Lattice.state L K, storage_ok st ->
  exists h, prepare true st = Done h /\ poly_in_range M h /\
    forall s u, length s = M -> length u = M ->
      cp h s u = ksum (terms_read st) (fun nt => x_term_matrix (snd nt) s u).
Proof.
  intros st Hok. unfold IndexHam.prepare, IndexHam.terms_read.
  destruct (prepare_fold_sound st (orders_down (maxorder st)) []) as (h & E & R & S).
  - intros n Hn. apply orders_down_in in Hn. split; [lia|]. apply Hok. lia.
  - constructor.
  - exists h. split; [exact E|]. split; [exact R|]. intros s u Hs Hu. rewrite S by assumption.
    rewrite cp_nil. unfold term_sem, PresetsSpec.x_term_matrix, PresetsSpec.m_scale. ring.
Qed.

Theorem prepare_sound : forall st : Lattice.state L K, storage_ok st ->
  exists h, prepare true st = Done h /\ poly_in_range M h /\
    forall s u, length s = M -> length u = M ->
      cp h s u = ksum (terms_read st) (fun nt => term_matrix (snd nt) s u).
Proof.
  intros st Hok. destruct (prepare_sound_x st Hok) as (h & E & R & S). exists h. split; [exact E|].
  split; [exact R|]. intros s u Hs Hu. rewrite S by assumption. apply ks_ext. intros nt _.
  symmetry. apply term_matrix_x; assumption.
Qed.

(** ** a lattice holding the terms [ts]: the order of insertion is irrelevant for the matrix *)
Definition lattice_of (m : site_map L) (ts : list term) : Lattice.state L K :=
  push_all L K ts (mkState m [] 0).

Lemma getTerms_lattice_of : forall m ts n, getTerms L K (lattice_of m ts) n = filter (fun t => t_order t =? n) ts.
Proof. intros m ts n. unfold lattice_of. rewrite getTerms_push_all'. reflexivity. Qed.

Lemma ksum_orders_down : forall n o (c : K),
  ksum (orders_down n) (fun k => if o =? k then c else k0) = if (1 <=? o) && (o <=? n) then c else k0.
Proof.
  induction n as [|n IH]; intros o c; cbn [orders_down].
  - destruct o; reflexivity.
  - rewrite ksum_cons', IH.
    destruct (Nat.eq_dec o (S n)) as [E|E].
    + subst o. rewrite Nat.eqb_refl.
      replace (S n <=? n) with false by (symmetry; apply Nat.leb_gt; lia).
      replace (S n <=? S n) with true by (symmetry; apply Nat.leb_le; lia).
      rewrite andb_false_r. cbn [Nat.leb andb]. ring.
    + replace (o =? S n) with false by (symmetry; apply Nat.eqb_neq; exact E).
      destruct (1 <=? o); cbn [andb]; [|ring].
      destruct (o <=? n) eqn:E1.
      * apply Nat.leb_le in E1. replace (o <=? S n) with true by (symmetry; apply Nat.leb_le; lia). ring.
      * apply Nat.leb_gt in E1. replace (o <=? S n) with false by (symmetry; apply Nat.leb_gt; lia). ring.
Qed.

Lemma terms_read_lattice_of : forall m ts (G : term -> K),
  ksum (terms_read (lattice_of m ts)) (fun nt => G (snd nt)) =
  ksum ts (fun t => if 1 <=? t_order t then G t else k0).
Proof.
  intros m ts G. unfold IndexHam.terms_read.
  rewrite (ksum_flat_map K k0 k1 kadd kmul ksub kopp kzero Hring).
  set (mx := maxorder (lattice_of m ts)).
  transitivity (ksum (orders_down mx) (fun n => ksum ts (fun t => if t_order t =? n then G t else k0))).
  { apply ks_ext. intros n _. rewrite (AlgebraBasics.ksum_map K k0 kadd). cbn [snd].
    rewrite getTerms_lattice_of. apply (ksum_filter K k0 k1 kadd kmul ksub kopp kzero Hring). }
  rewrite ks_swap. apply ks_ext. intros t Ht. rewrite ksum_orders_down.
  assert (Hle : t_order t <= mx).
  { unfold mx, lattice_of. rewrite maxorder_push_all'. apply fold_max_in. apply in_map. exact Ht. }
  replace (t_order t <=? mx) with true by (symmetry; apply Nat.leb_le; exact Hle).
  rewrite andb_true_r. reflexivity.
Qed.

Lemma storage_ok_lattice_of : forall m ts,
  Forall (fun t => term_ok (t_order t) t) ts -> storage_ok (lattice_of m ts).
Proof.
  intros m ts H n Hn. rewrite getTerms_lattice_of. apply Forall_forall. intros t Ht.
  apply filter_In in Ht. destruct Ht as [Hin E]. apply Nat.eqb_eq in E. subst n.
  rewrite Forall_forall in H. apply H. exact Hin.
Qed.

Theorem prepare_of_terms : forall m ts, Forall (fun t => term_ok (t_order t) t) ts ->
  exists h, prepare true (lattice_of m ts) = Done h /\ poly_in_range M h /\
    forall s u, length s = M -> length u = M ->
      cp h s u = ksum ts (fun t => if 1 <=? t_order t then x_term_matrix t s u else k0).
Proof.
  intros m ts H. destruct (prepare_sound_x (lattice_of m ts) (storage_ok_lattice_of m ts H)) as (h & E & R & S).
  exists h. split; [exact E|]. split; [exact R|]. intros s u Hs Hu. rewrite S by assumption.
  apply (terms_read_lattice_of m ts (fun t => x_term_matrix t s u)).
Qed.

(** ** adding terms to ANY lattice adds their operators to its Hamiltonian.
       [storage_bounded]: nothing is stored above MaxTermOrder (an invariant of Lattice::TermStorage: addTerm raises
       MaxTermOrder to the order of every term it stores; it holds for the empty storage and is kept by [push_all]). *)
Definition storage_bounded (st : Lattice.state L K) : Prop :=
  forall n, maxorder st < n -> getTerms L K st n = [].

Lemma storage_bounded_init : forall m, storage_bounded (mkState m [] 0).
Proof. intros m n _. reflexivity. Qed.

Lemma maxorder_push_all_ge : forall ts (st : Lattice.state L K), maxorder st <= maxorder (push_all L K ts st).
Proof. intros ts st. rewrite maxorder_push_all'. apply fold_max_ge. Qed.

Lemma storage_bounded_push_all : forall ts st, storage_bounded st -> storage_bounded (push_all L K ts st).
Proof.
  intros ts st H n Hn. rewrite getTerms_push_all'.
  pose proof (maxorder_push_all_ge ts st) as Hge.
  rewrite H by lia. cbn [app].
  destruct (filter (fun t => t_order t =? n) ts) as [|t r] eqn:E; [reflexivity|].
  assert (Hin : In t (filter (fun t => t_order t =? n) ts)) by (rewrite E; left; reflexivity).
  apply filter_In in Hin. destruct Hin as [Hin Ho]. apply Nat.eqb_eq in Ho.
  rewrite maxorder_push_all' in Hn.
  pose proof (fold_max_in (map t_order ts) (maxorder st) (t_order t) (in_map _ _ _ Hin)). lia.
Qed.

Lemma storage_ok_push_all : forall ts st, storage_ok st -> Forall (fun t => term_ok (t_order t) t) ts ->
  storage_ok (push_all L K ts st).
Proof.
  intros ts st Hst Hts n Hn. rewrite getTerms_push_all'. apply Forall_app. split; [apply Hst; exact Hn|].
  apply Forall_forall. intros t Ht. apply filter_In in Ht. destruct Ht as [Hin E]. apply Nat.eqb_eq in E. subst n.
  rewrite Forall_forall in Hts. apply Hts. exact Hin.
Qed.

Lemma ksum_orders_down_above : forall n' n (f : nat -> K), n <= n' -> (forall k, n < k -> f k = k0) ->
  ksum (orders_down n') f = ksum (orders_down n) f.
Proof.
  induction n' as [|p IH]; intros n f Hle Hz.
  - replace n with 0 by lia. reflexivity.
  - destruct (Nat.eq_dec n (S p)) as [->|Hne]; [reflexivity|].
    cbn [orders_down]. rewrite ksum_cons'. rewrite (Hz (S p)) by lia. rewrite (IH n f) by (try lia; exact Hz). ring.
Qed.

Lemma terms_read_push_all : forall ts st (G : term -> K), storage_bounded st ->
  ksum (terms_read (push_all L K ts st)) (fun nt => G (snd nt)) =
  kadd (ksum (terms_read st) (fun nt => G (snd nt))) (ksum ts (fun t => if 1 <=? t_order t then G t else k0)).
Proof.
  intros ts st G Hb. unfold IndexHam.terms_read.
  rewrite !(ksum_flat_map K k0 k1 kadd kmul ksub kopp kzero Hring).
  set (mx' := maxorder (push_all L K ts st)).
  transitivity (ksum (orders_down mx') (fun n => kadd (ksum (getTerms L K st n) G)
                                                     (ksum ts (fun t => if t_order t =? n then G t else k0)))).
  { apply ks_ext. intros n _. rewrite (AlgebraBasics.ksum_map K k0 kadd). cbn [snd].
    rewrite getTerms_push_all', ks_app. f_equal. apply (ksum_filter K k0 k1 kadd kmul ksub kopp kzero Hring). }
  rewrite (AlgebraBasics.ksum_add K k0 k1 kadd kmul ksub kopp kzero Hring). f_equal.
  - rewrite (ksum_orders_down_above mx' (maxorder st)).
    + apply ks_ext. intros n _. rewrite (AlgebraBasics.ksum_map K k0 kadd). reflexivity.
    + apply maxorder_push_all_ge.
    + intros k Hk. rewrite (Hb k Hk). reflexivity.
  - rewrite ks_swap. apply ks_ext. intros t Ht. rewrite ksum_orders_down.
    assert (Hle : t_order t <= mx').
    { unfold mx'. rewrite maxorder_push_all'. apply fold_max_in. apply in_map. exact Ht. }
    replace (t_order t <=? mx') with true by (symmetry; apply Nat.leb_le; exact Hle).
    rewrite andb_true_r. reflexivity.
Qed.

Theorem prepare_after_push : forall st ts, storage_ok st -> storage_bounded st ->
  Forall (fun t => term_ok (t_order t) t) ts ->
  exists h h', prepare true st = Done h /\ prepare true (push_all L K ts st) = Done h' /\
    forall s u, length s = M -> length u = M ->
      cp h' s u = kadd (cp h s u) (ksum ts (fun t => if 1 <=? t_order t then x_term_matrix t s u else k0)).
Proof.
  intros st ts Hok Hb Hts.
  destruct (prepare_sound_x st Hok) as (h & E & _ & S).
  destruct (prepare_sound_x (push_all L K ts st) (storage_ok_push_all ts st Hok Hts)) as (h' & E' & _ & S').
  exists h, h'. split; [exact E|]. split; [exact E'|]. intros s u Hs Hu.
  rewrite S', S by assumption. apply (terms_read_push_all ts st (fun t => x_term_matrix t s u) Hb).
Qed.

(** ** an arbitrary user term (2, 4, 6, ... operators): its contribution is Value * the product of the
       Jordan-Wigner matrices of its operators, in the order written *)
Theorem raw_term_sound : forall m (t : term), 1 <= t_order t -> term_ok (t_order t) t ->
  exists h, prepare true (lattice_of m [t]) = Done h /\ meq (cp h) (term_matrix t).
Proof.
  intros m t Hn Hok. destruct (prepare_of_terms m [t]) as (h & E & R & S).
  - constructor; [exact Hok|constructor].
  - exists h. split; [exact E|]. intros s u Hs Hu. rewrite S by assumption.
    cbn [PolySem.ksum fold_right]. replace (1 <=? t_order t) with true by (symmetry; apply Nat.leb_le; exact Hn).
    rewrite (term_matrix_x t s u Hs Hu). ring.
Qed.

(** * Semantics of the writer combinators of Lattice.v *)
Notation W := (Lattice.W L K).
Definition wsem (w : W) (s u : state) : K := ksum (fst w) (fun t => x_term_matrix t s u).
Definition wdone (w : W) : Prop := snd w = Done tt.

Lemma wsem_ret : forall s u, wsem (wret L K) s u = k0.
Proof. reflexivity. Qed.
Lemma wdone_ret : wdone (wret L K).
Proof. reflexivity. Qed.
Lemma wsem_push : forall t s u, wsem (wpush L K t) s u = x_term_matrix t s u.
Proof. intros t s u. unfold wsem, Lattice.wpush. cbn [fst PolySem.ksum fold_right]. ring. Qed.
Lemma wdone_push : forall t, wdone (wpush L K t).
Proof. reflexivity. Qed.
Lemma wseq_done : forall a b, wdone a -> wdone b -> wdone (wseq L K a b).
Proof. intros [ta ra] [tb rb] Ha Hb. unfold wdone, Lattice.wseq in *. cbn [snd fst] in *. subst ra. exact Hb. Qed.
Lemma wsem_seq : forall a b s u, wdone a -> wsem (wseq L K a b) s u = kadd (wsem a s u) (wsem b s u).
Proof.
  intros [ta ra] [tb rb] s u Ha. unfold wdone, Lattice.wseq, wsem in *. cbn [snd fst] in *. subst ra.
  cbn [fst]. apply ks_app.
Qed.
Lemma wdone_when : forall c a, (c = true -> wdone a) -> wdone (wwhen L K c a).
Proof. intros [|] a H; [apply H; reflexivity|reflexivity]. Qed.
Lemma wsem_when : forall c a s u, wsem (wwhen L K c a) s u = if c then wsem a s u else k0.
Proof. intros [|] a s u; reflexivity. Qed.

Lemma wfor_from_sem : forall k i body, (forall j, i <= j < i + k -> wdone (body j)) ->
  wdone (wfor_from L K k i body) /\
  forall s u, wsem (wfor_from L K k i body) s u = ksum (seq i k) (fun j => wsem (body j) s u).
Proof.
  induction k as [|k IH]; intros i body H; cbn [Lattice.wfor_from seq].
  - split; [reflexivity|]. intros s u. reflexivity.
  - destruct (IH (S i) body) as [D S]; [intros j Hj; apply H; lia|].
    assert (D0 : wdone (body i)) by (apply H; lia).
    split; [apply wseq_done; assumption|]. intros s u. rewrite wsem_seq by exact D0. rewrite S. reflexivity.
Qed.
Lemma wdone_for : forall n body, (forall j, j < n -> wdone (body j)) -> wdone (wfor L K n body).
Proof. intros n body H. apply wfor_from_sem. intros j Hj. apply H. lia. Qed.
Lemma wsem_for : forall n body s u, (forall j, j < n -> wdone (body j)) ->
  wsem (wfor L K n body) s u = ksum (seq 0 n) (fun j => wsem (body j) s u).
Proof. intros n body s u H. apply wfor_from_sem. intros j Hj. apply H. lia. Qed.

End PP.

(** * The loop as written does not have the property: c^+_0 c^+_0 c_1 c_2 becomes c_1 c_2.
      Witness over the integers: one site (label 0) with three orbitals and one spin, index = orbital; the raw
      term 1 * c^+_{0} c^+_{0} c_{1} c_{2}; the matrix element <000| . |011> is 0 for the documented operator
      (c^+_0 c^+_0 = 0) but -1 (the matrix element of c_1 c_2) for the polynomial prepare builds. *)
Definition refute_idx (l a z : nat) : nat := a.
Definition refute_term : Lattice.term nat Z :=
  mkTerm [true; true; false; false] [0; 0; 0; 0]%nat [0; 0; 1; 2]%nat [0; 0; 0; 0]%nat 1%Z.
Definition refute_lattice : Lattice.state nat Z := lattice_of Z nat [(0%nat, (3, 1))%nat] [refute_term].

Definition prepare_sound_stmt (fixed : bool) : Prop :=
  forall st : Lattice.state nat Z, storage_ok Z 3 nat refute_idx st ->
  exists h, IndexHam.prepare nat Z 1%Z Z.add Z.mul Z.opp (fun c => Z.eqb c 0) refute_idx fixed st = Done h /\
    forall s u, length s = 3 -> length u = 3 ->
      coef_poly Z 0%Z 1%Z Z.add Z.mul Z.opp h s u =
      PolySem.ksum Z 0%Z Z.add (IndexHam.terms_read nat Z st)
        (fun nt => PresetsSpec.term_matrix Z 0%Z 1%Z Z.add Z.mul Z.opp 3 nat refute_idx (snd nt) s u).

Lemma refute_storage_ok : storage_ok Z 3 nat refute_idx refute_lattice.
Proof.
  apply storage_ok_lattice_of. constructor; [|constructor].
  unfold term_ok. cbn. repeat split; try reflexivity. repeat constructor.
Qed.

Theorem prepare_sound_refuted : ~ prepare_sound_stmt false.
Proof.
  intro H. destruct (H refute_lattice refute_storage_ok) as (h & E & S).
  vm_compute in E. inversion E; subst h; clear E.
  specialize (S [false; true; true] [false; false; false] eq_refl eq_refl).
  vm_compute in S. discriminate.
Qed.

(** the same statement holds for the repaired loop (instance of [prepare_sound]) *)
Theorem prepare_sound_fixed_instance : prepare_sound_stmt true.
Proof.
  intros st Hok.
  destruct (prepare_sound Z 0%Z 1%Z Z.add Z.mul Z.sub Z.opp (fun c => Z.eqb c 0) ring_ok_Z 3 nat refute_idx st Hok)
    as (h & E & _ & S).
  exists h. split; [exact E|exact S].
Qed.

(** the polynomial the loop as written builds for the witness *)
Example prepare_as_written_witness :
  IndexHam.prepare nat Z 1%Z Z.add Z.mul Z.opp (fun c => Z.eqb c 0) refute_idx false refute_lattice
    = Done [([cann 1; cann 2], 1%Z)] /\
  IndexHam.prepare nat Z 1%Z Z.add Z.mul Z.opp (fun c => Z.eqb c 0) refute_idx true refute_lattice = Done [].
Proof. split; vm_compute; reflexivity. Qed.
