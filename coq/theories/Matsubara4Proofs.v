(** Proofs for C15: MatsubaraContainer4::fill / operator() are transparent, and
    Vertex4::value is chi - chi^0.

    Two layers, so that a harmless rewrite of the C++ (which changes the text of the
    regenerated PVgen.Gen_*.v but not its meaning) does not break anything here:

    - Layer 1 ("characterisation lemmas", [gen_*]): one small fact per generated
      definition, proved by unfolding the generated definition and arithmetic only.
      This is the ONLY place where generated definitions are unfolded.
    - Layer 2: storage lemmas, loop invariants, fill and lookup, using only layer 1
      (the generated definitions are made opaque after layer 1). *)
Require Import ZArith Bool List Lia ZifyBool Ring Ring_theory.
From PV Require Import Outcome OutcomeLemmas Matsubara4 Matsubara4Spec.
From PVgen Require Import Gen_Matsubara4 Gen_Vertex4.
Local Open Scope Z_scope.

(** * Reference formulas (hand-written; doc/gamma4.tex and the class documentation) *)

(** size of the square matrix stored for bosonic index V - 2N *)
Definition Sz (N V : Z) : Z := 2 * N - Z.abs (V - 2 * N + 1).
(** first fermionic number stored in that matrix *)
Definition Off (N V : Z) : Z := (if V - 2 * N <? 0 then 0 else V - 2 * N + 1) - N.

Lemma Sz_range (N V : Z) : 0 <= V <= 4 * N - 2 -> 1 <= Sz N V <= 2 * N.
Proof. unfold Sz. lia. Qed.

Lemma Off_cases (N V : Z) :
  (V - 2 * N < 0 /\ Off N V = - N) \/ (0 <= V - 2 * N /\ Off N V = V - 3 * N + 1).
Proof. unfold Off. destruct (Z.ltb_spec (V - 2 * N) 0); lia. Qed.

Lemma pair3_eq (a a' b b' c c' : Z) :
  a = a' -> b = b' -> c = c' -> (a, b, c) = (a', b', c').
Proof. intros -> -> ->. reflexivity. Qed.

(** * Layer 1: characterisation of the generated definitions *)

Ltac gen_solve :=
  intros;
  repeat match goal with
         | |- context [if ?b then _ else _] => destruct b eqn:?
         end;
  lia.

Lemma gen_is_empty (N : Z) : 0 <= N -> (fill_is_empty N = true <-> N = 0).
Proof. unfold fill_is_empty. gen_solve. Qed.

Lemma gen_nvalues (N : Z) : fill_nvalues N = 4 * N - 1.
Proof. unfold fill_nvalues. gen_solve. Qed.

Lemma gen_noffsets (N : Z) : fill_noffsets N = 4 * N - 1.
Proof. unfold fill_noffsets. gen_solve. Qed.

Lemma gen_V_first (N : Z) : fill_V_first N = 0.
Proof. unfold fill_V_first. gen_solve. Qed.

Lemma gen_V_cond (N V : Z) : 0 <= V -> (fill_V_cond N V = true <-> V < 4 * N - 1).
Proof. unfold fill_V_cond. gen_solve. Qed.

Lemma gen_size (N V : Z) : fill_size N V (fill_bosonic N V) = Sz N V.
Proof. unfold fill_size, fill_bosonic, Sz. gen_solve. Qed.

Lemma gen_offset (N V : Z) : fill_offset N V (fill_bosonic N V) = Off N V.
Proof. unfold fill_offset, fill_bosonic, Off. gen_solve. Qed.

Lemma gen_nu_first (N V : Z) :
  fill_nu_first N V (fill_bosonic N V) (fill_size N V (fill_bosonic N V)) = 0.
Proof. unfold fill_nu_first, fill_size, fill_bosonic. gen_solve. Qed.

Lemma gen_nu_cond (N V i : Z) :
  0 <= i ->
  (fill_nu_cond N V (fill_bosonic N V) (fill_size N V (fill_bosonic N V)) i = true <-> i < Sz N V).
Proof. unfold fill_nu_cond, fill_size, fill_bosonic, Sz. gen_solve. Qed.

Lemma gen_nup_first (N V : Z) :
  fill_nup_first N V (fill_bosonic N V) (fill_size N V (fill_bosonic N V)) = 0.
Proof. unfold fill_nup_first, fill_size, fill_bosonic. gen_solve. Qed.

Lemma gen_nup_cond (N V i : Z) :
  0 <= i ->
  (fill_nup_cond N V (fill_bosonic N V) (fill_size N V (fill_bosonic N V)) i = true <-> i < Sz N V).
Proof. unfold fill_nup_cond, fill_size, fill_bosonic, Sz. gen_solve. Qed.

(** FermionicIndexOffset is only ever read at index V while filling Values[V] *)
Lemma gen_off_reads (N V nu nup i : Z) :
  In i (fill_off_reads N V (fill_bosonic N V) (fill_size N V (fill_bosonic N V)) nu nup) -> i = V.
Proof.
  unfold fill_off_reads, fill_size, fill_bosonic. cbn [In]. intros H.
  repeat (destruct H as [H|H]; [lia|]). destruct H.
Qed.

Lemma gen_cell (nu nup : Z) : fill_cell nu nup = (nu, nup).
Proof. unfold fill_cell. apply f_equal2; lia. Qed.

(** the triple handed to pSource->value for cell (nu, nup) of Values[V] *)
Lemma gen_args (off : Z -> Z) (N V nu nup : Z) :
  fill_src_args
    (fill_n1 off N V (fill_bosonic N V) (fill_size N V (fill_bosonic N V)) nu nup)
    (fill_n2 off N V (fill_bosonic N V) (fill_size N V (fill_bosonic N V)) nu nup
       (fill_n1 off N V (fill_bosonic N V) (fill_size N V (fill_bosonic N V)) nu nup))
    (fill_n3 off N V (fill_bosonic N V) (fill_size N V (fill_bosonic N V)) nu nup
       (fill_n1 off N V (fill_bosonic N V) (fill_size N V (fill_bosonic N V)) nu nup)
       (fill_n2 off N V (fill_bosonic N V) (fill_size N V (fill_bosonic N V)) nu nup
          (fill_n1 off N V (fill_bosonic N V) (fill_size N V (fill_bosonic N V)) nu nup)))
  = (nu + off V, (V - 2 * N) - (nu + off V), nup + off V).
Proof.
  unfold fill_src_args, fill_n1, fill_n2, fill_n3, fill_size, fill_bosonic.
  apply pair3_eq; lia.
Qed.

Lemma gen_lookup_V (N n1 n2 n3 : Z) : lookup_V N n1 n2 n3 = n1 + n2 + 2 * N.
Proof. unfold lookup_V. gen_solve. Qed.

Lemma gen_lookup_outer (N V : Z) : lookup_outer N V = true <-> 0 <= V <= 4 * N - 2.
Proof. unfold lookup_outer. gen_solve. Qed.

Lemma gen_lookup_nu (off : Z -> Z) (N V n1 n2 n3 : Z) :
  lookup_nu off N V n1 n2 n3 = n1 - off V.
Proof. unfold lookup_nu. gen_solve. Qed.

Lemma gen_lookup_nup (off : Z -> Z) (N V n1 n2 n3 : Z) :
  lookup_nup off N V n1 n2 n3 = n3 - off V.
Proof. unfold lookup_nup. gen_solve. Qed.

Lemma gen_lookup_off_reads (N V n1 n2 n3 i : Z) :
  In i (lookup_off_reads N V n1 n2 n3) -> i = V.
Proof.
  unfold lookup_off_reads. cbn [In]. intros H.
  repeat (destruct H as [H|H]; [lia|]). destruct H.
Qed.

Lemma gen_lookup_inner (nu nup r c : Z) :
  lookup_inner nu nup r c = true <-> (0 <= nu < r /\ 0 <= nup < c).
Proof. unfold lookup_inner. gen_solve. Qed.

Lemma gen_lookup_cell (nu nup : Z) : lookup_cell nu nup = (nu, nup).
Proof. unfold lookup_cell. apply f_equal2; lia. Qed.

Lemma gen_lookup_src_args (n1 n2 n3 : Z) : lookup_src_args n1 n2 n3 = (n1, n2, n3).
Proof. unfold lookup_src_args. apply pair3_eq; lia. Qed.

(** From here on the generated definitions are used only through the lemmas above. *)
#[local] Opaque fill_is_empty fill_nvalues fill_noffsets fill_V_first fill_V_cond
  fill_bosonic fill_size fill_offset fill_nu_first fill_nu_cond fill_nup_first
  fill_nup_cond fill_n1 fill_n2 fill_n3 fill_off_reads fill_cell fill_src_args
  lookup_V lookup_outer lookup_nu lookup_nup lookup_off_reads lookup_inner
  lookup_cell lookup_src_args.

(** * Layer 2 *)

(** ** Pure arithmetic: the stored region is exactly the documented window *)

Lemma window_hit (N n1 n2 n3 : Z) :
  let V := n1 + n2 + 2 * N in
  in_window N n1 n2 n3 = true <->
  (0 <= V <= 4 * N - 2 /\
   0 <= n1 - Off N V < Sz N V /\ 0 <= n3 - Off N V < Sz N V).
Proof.
  intros V. subst V. unfold in_window, in_range, Sz.
  destruct (Off_cases N (n1 + n2 + 2 * N)) as [[H1 H2]|[H1 H2]]; rewrite H2; lia.
Qed.

(** ** The bounds-checked storage operations *)

Section Store.
Variable T : Type.

Lemma set_dims_ok (st : storage T) (V r c : Z) :
  0 <= V < nvals T st -> 0 <= r -> 0 <= c ->
  exists st', set_dims T st V r c = Done st' /\
    nvals T st' = nvals T st /\ noffs T st' = noffs T st /\
    dims T st' V = (r, c) /\
    (forall v, v <> V -> dims T st' v = dims T st v) /\
    (forall v, offs T st' v = offs T st v) /\
    (forall v i j, v <> V -> cells T st' v i j = cells T st v i j).
Proof.
  intros HV Hr Hc. unfold set_dims.
  replace (inb V (nvals T st) && (0 <=? r) && (0 <=? c)) with true
    by (symmetry; unfold inb; lia).
  eexists. split; [reflexivity|]. cbn [nvals noffs dims offs cells].
  repeat split.
  - rewrite Z.eqb_refl. reflexivity.
  - intros v Hv. destruct (Z.eqb_spec v V) as [E|E]; [contradiction|reflexivity].
  - intros v i j Hv. destruct (Z.eqb_spec v V) as [E|E]; [contradiction|reflexivity].
Qed.

Lemma set_off_ok (st : storage T) (V o : Z) :
  0 <= V < noffs T st ->
  exists st', set_off T st V o = Done st' /\
    nvals T st' = nvals T st /\ noffs T st' = noffs T st /\
    (forall v, dims T st' v = dims T st v) /\
    offs T st' V = o /\
    (forall v, v <> V -> offs T st' v = offs T st v) /\
    (forall v i j, cells T st' v i j = cells T st v i j).
Proof.
  intros HV. unfold set_off.
  replace (inb V (noffs T st)) with true by (symmetry; unfold inb; lia).
  eexists. split; [reflexivity|]. cbn [nvals noffs dims offs cells].
  repeat split.
  - rewrite Z.eqb_refl. reflexivity.
  - intros v Hv. destruct (Z.eqb_spec v V) as [E|E]; [contradiction|reflexivity].
Qed.

Lemma set_cell_ok (st : storage T) (V i j : Z) (x : T) (r c : Z) :
  0 <= V < nvals T st -> dims T st V = (r, c) -> 0 <= i < r -> 0 <= j < c ->
  exists st', set_cell T st V i j x = Done st' /\
    nvals T st' = nvals T st /\ noffs T st' = noffs T st /\
    (forall v, dims T st' v = dims T st v) /\
    (forall v, offs T st' v = offs T st v) /\
    cells T st' V i j = Some x /\
    (forall v a b, (v <> V \/ a <> i \/ b <> j) -> cells T st' v a b = cells T st v a b).
Proof.
  intros HV Hd Hi Hj. unfold set_cell.
  replace (inb V (nvals T st)) with true by (symmetry; unfold inb; lia).
  rewrite Hd.
  replace (inb i r && inb j c) with true by (symmetry; unfold inb; lia).
  eexists. split; [reflexivity|]. cbn [nvals noffs dims offs cells].
  repeat split.
  - rewrite !Z.eqb_refl. reflexivity.
  - intros v a b Hne.
    replace ((v =? V) && (a =? i) && (b =? j)) with false by (symmetry; lia).
    reflexivity.
Qed.

End Store.

(** ** fill *)

Section Fill.
Variable T : Type.
Variable src : Z * Z * Z -> T.

(** value that must end up in Values[V](i,j) *)
Definition val (N V i j : Z) : T :=
  src (i + Off N V, (V - 2 * N) - (i + Off N V), j + Off N V).

(** Values[V] and FermionicIndexOffset[V] are completely and correctly filled *)
Definition full (N : Z) (st : storage T) (V : Z) : Prop :=
  dims T st V = (Sz N V, Sz N V) /\ offs T st V = Off N V /\
  forall i j, 0 <= i < Sz N V -> 0 <= j < Sz N V -> cells T st V i j = Some (val N V i j).

(** invariant of the V loop: everything below V is full *)
Definition InvV (N V : Z) (st : storage T) : Prop :=
  nvals T st = 4 * N - 1 /\ noffs T st = 4 * N - 1 /\
  forall V', 0 <= V' < V -> full N st V'.

(** invariant inside the V-th iteration: rows below nu are written, and row nu up to nup *)
Definition Inv (N V nu nup : Z) (st : storage T) : Prop :=
  nvals T st = 4 * N - 1 /\ noffs T st = 4 * N - 1 /\
  (forall V', 0 <= V' < V -> full N st V') /\
  dims T st V = (Sz N V, Sz N V) /\ offs T st V = Off N V /\
  forall i j, (0 <= i < nu /\ 0 <= j < Sz N V) \/ (i = nu /\ 0 <= j < nup) ->
              cells T st V i j = Some (val N V i j).

(** what a lookup needs after fill; vacuous for N = 0 *)
Definition Post (N : Z) (st : storage T) : Prop :=
  forall V, 0 <= V <= 4 * N - 2 ->
    0 <= V < nvals T st /\ 0 <= V < noffs T st /\ full N st V.

(** the three nested pieces of [fill_body], named *)
Definition cell_step (N V nu nup : Z) (st : storage T) : outcome (storage T) :=
  let B := fill_bosonic N V in
  let S := fill_size N V B in
  if forallb (fun i => inb i (noffs T st)) (fill_off_reads N V B S nu nup) then
    let n1 := fill_n1 (offs T st) N V B S nu nup in
    let n2 := fill_n2 (offs T st) N V B S nu nup n1 in
    let n3 := fill_n3 (offs T st) N V B S nu nup n1 n2 in
    let '(i, j) := fill_cell nu nup in
    set_cell T st V i j (src (fill_src_args n1 n2 n3))
  else OOB.

Definition row_step (N V nu : Z) (st : storage T) : outcome (storage T) :=
  let B := fill_bosonic N V in
  let S := fill_size N V B in
  loop_up (fuelN N) (fill_nup_first N V B S) (fill_nup_cond N V B S) (cell_step N V nu) st.

Lemma fill_body_eq (N V : Z) (st : storage T) :
  fill_body T src N V st =
  let B := fill_bosonic N V in
  let S := fill_size N V B in
  bind (set_dims T st V S S) (fun st1 =>
  bind (set_off T st1 V (fill_offset N V B)) (fun st2 =>
  loop_up (fuelN N) (fill_nu_first N V B S) (fill_nu_cond N V B S) (row_step N V) st2)).
Proof. reflexivity. Qed.

Lemma cell_step_ok (N V nu nup : Z) (st : storage T) :
  0 <= V <= 4 * N - 2 -> 0 <= nu < Sz N V -> 0 <= nup < Sz N V ->
  Inv N V nu nup st ->
  exists st', cell_step N V nu nup st = Done st' /\ Inv N V nu (nup + 1) st'.
Proof.
  intros HV Hnu Hnup (Hnv & Hno & Hfull & Hd & Ho & Hc).
  unfold cell_step. cbv zeta.
  rewrite forallb_inb_const with (v := V);
    [ | intros i; apply gen_off_reads | lia ].
  rewrite gen_cell, gen_args, Ho. cbv beta iota.
  destruct (set_cell_ok T st V nu nup (val N V nu nup) (Sz N V) (Sz N V))
    as (st' & E & Hnv' & Hno' & Hd' & Ho' & Hc1 & Hc2); [lia|exact Hd|lia|lia|].
  exists st'. split; [exact E|].
  unfold Inv. rewrite Hnv', Hno', Hd', Ho'.
  refine (conj Hnv (conj Hno (conj _ (conj Hd (conj Ho _))))).
  - intros V' HV'. destruct (Hfull V' HV') as (Fd & Fo & Fc).
    unfold full. rewrite Hd', Ho'. refine (conj Fd (conj Fo _)).
    intros i j Hi Hj. rewrite Hc2 by lia. apply Fc; assumption.
  - intros i j Hij.
    destruct (Z.eq_dec i nu) as [Ei|Ei]; [destruct (Z.eq_dec j nup) as [Ej|Ej]|].
    + subst i j. exact Hc1.
    + rewrite Hc2 by lia. apply Hc. lia.
    + rewrite Hc2 by lia. apply Hc. lia.
Qed.

Lemma row_step_ok (N V nu : Z) (st : storage T) :
  0 <= V <= 4 * N - 2 -> 0 <= nu < Sz N V ->
  Inv N V nu 0 st ->
  exists st', row_step N V nu st = Done st' /\ Inv N V (nu + 1) 0 st'.
Proof.
  intros HV Hnu HI. pose proof (Sz_range N V HV) as HS.
  unfold row_step. cbv zeta. rewrite gen_nup_first.
  apply (loop_up_inv_post (fun nup s => Inv N V nu nup s) _ (Sz N V)).
  - lia.
  - intros i Hi. apply gen_nup_cond. lia.
  - unfold fuelN. lia.
  - exact HI.
  - intros nup t Hnup HIt. apply cell_step_ok; assumption.
  - intros s' (Hnv & Hno & Hfull & Hd & Ho & Hc).
    refine (conj Hnv (conj Hno (conj Hfull (conj Hd (conj Ho _))))).
    intros i j Hij. apply Hc. lia.
Qed.

Lemma fill_body_ok (N V : Z) (st : storage T) :
  0 <= V <= 4 * N - 2 -> InvV N V st ->
  exists st', fill_body T src N V st = Done st' /\ InvV N (V + 1) st'.
Proof.
  intros HV (Hnv & Hno & Hfull). pose proof (Sz_range N V HV) as HS.
  pose proof (gen_size N V) as HSz.
  rewrite fill_body_eq. cbv zeta. rewrite gen_offset, gen_nu_first.
  destruct (set_dims_ok T st V (fill_size N V (fill_bosonic N V)) (fill_size N V (fill_bosonic N V)))
    as (st1 & E1 & Hnv1 & Hno1 & Hd1 & Hd1' & Ho1 & Hc1); [lia|lia|lia|].
  rewrite (bind_Done _ _ _ E1).
  destruct (set_off_ok T st1 V (Off N V))
    as (st2 & E2 & Hnv2 & Hno2 & Hd2 & Ho2 & Ho2' & Hc2); [lia|].
  rewrite (bind_Done _ _ _ E2).
  rewrite HSz in Hd1.
  apply (loop_up_inv_post (fun nu s => Inv N V nu 0 s) _ (Sz N V)).
  - lia.
  - intros i Hi. apply gen_nu_cond. lia.
  - unfold fuelN. lia.
  - unfold Inv. rewrite Hnv2, Hnv1, Hno2, Hno1, Hd2.
    refine (conj Hnv (conj Hno (conj _ (conj Hd1 (conj Ho2 _))))).
    + intros V' HV'. destruct (Hfull V' HV') as (Fd & Fo & Fc).
      unfold full. rewrite Hd2, Hd1', Ho2', Ho1 by lia.
      refine (conj Fd (conj Fo _)).
      intros i j Hi Hj. rewrite Hc2, Hc1 by lia. apply Fc; assumption.
    + intros i j Hij. exfalso. lia.
  - intros nu t Hnu HIt. apply row_step_ok; assumption.
  - intros s' (Hnv' & Hno' & Hfull' & Hd' & Ho' & Hc').
    refine (conj Hnv' (conj Hno' _)).
    intros V' HV'. destruct (Z.eq_dec V' V) as [->|Hne]; [|apply Hfull'; lia].
    refine (conj Hd' (conj Ho' _)).
    intros i j Hi Hj. apply Hc'. lia.
Qed.

(** fill on ANY existing storage: nothing about the previous contents is needed, because
    the two vector resizes fix the sizes and every block / offset in the new range is
    re-sized and overwritten. *)
Lemma fill_from_post (st0 : storage T) (N : Z) :
  0 <= N -> exists st, fill_from T src st0 N = Done st /\ Post N st.
Proof.
  intros HN. unfold fill_from. destruct (fill_is_empty N) eqn:E.
  - apply (gen_is_empty N HN) in E. subst N. eexists. split; [reflexivity|].
    intros V HV. exfalso. lia.
  - assert (HN' : 0 < N).
    { destruct (Z.eq_dec N 0) as [H0|H0]; [|lia].
      apply (gen_is_empty N HN) in H0. congruence. }
    rewrite gen_V_first, gen_nvalues, gen_noffsets.
    apply (loop_up_inv_post (fun V s => InvV N V s) _ (4 * N - 1)).
    + lia.
    + intros i Hi. apply gen_V_cond. lia.
    + unfold fuelN. lia.
    + unfold InvV, resize_storage. cbn [nvals noffs].
      refine (conj eq_refl (conj eq_refl _)). intros V' HV'. exfalso. lia.
    + intros V t HV HIt. apply fill_body_ok; [lia|exact HIt].
    + intros s' (Hnv & Hno & Hfull) V HV. rewrite Hnv, Hno.
      split; [lia|]. split; [lia|]. apply Hfull. lia.
Qed.

Lemma fill_post (N : Z) :
  0 <= N -> exists st, fill T src N = Done st /\ Post N st.
Proof. intros HN. unfold fill. apply fill_from_post. exact HN. Qed.

(** a freshly constructed container behaves like a filled one with window 0 *)
Lemma Post_0 (st : storage T) : Post 0 st.
Proof. intros V HV. exfalso. lia. Qed.

Lemma last_cons (A : Type) (l : list A) (a d : A) : last (a :: l) d = last l a.
Proof.
  revert a d. induction l as [|b l IH]; intros a d; [reflexivity|].
  change (last (a :: b :: l) d) with (last (b :: l) d). rewrite (IH b d), (IH b a). reflexivity.
Qed.

Lemma refill_fold_post (Ns : list Z) :
  Forall (fun N => 0 <= N) Ns ->
  forall (st0 : storage T) (N0 : Z), Post N0 st0 ->
  exists st,
    fold_left (fun acc N => bind acc (fun st => fill_from T src st N)) Ns (Done st0) = Done st /\
    Post (last Ns N0) st.
Proof.
  induction 1 as [|N Ns HN HNs IH]; intros st0 N0 HP.
  - exists st0. split; [reflexivity|exact HP].
  - cbn [fold_left bind]. destruct (fill_from_post st0 N HN) as (st1 & E1 & HP1).
    rewrite E1. rewrite last_cons. apply IH. exact HP1.
Qed.

Lemma refill_post (Ns : list Z) :
  Forall (fun N => 0 <= N) Ns ->
  exists st, refill T src Ns = Done st /\ Post (last Ns 0) st.
Proof. intros H. unfold refill. apply refill_fold_post; [exact H|apply Post_0]. Qed.

(** ** lookup *)

Lemma lookup_post (src' : Z * Z * Z -> T) (N : Z) (st : storage T) (n1 n2 n3 : Z) :
  Post N st ->
  lookup T src' st N n1 n2 n3 =
  Done (if in_window N n1 n2 n3 then src (n1, n2, n3) else src' (n1, n2, n3)).
Proof.
  intros HP. pose proof (window_hit N n1 n2 n3) as HW. cbv zeta in HW.
  unfold lookup. cbv zeta.
  rewrite gen_lookup_V, gen_lookup_nu, gen_lookup_nup, gen_lookup_src_args.
  destruct (lookup_outer N (n1 + n2 + 2 * N)) eqn:Ho.
  - apply gen_lookup_outer in Ho.
    destruct (HP _ Ho) as (Hnv & Hno & Hd & Hof & Hc).
    rewrite forallb_inb_const with (v := n1 + n2 + 2 * N);
      [ | intros i; apply gen_lookup_off_reads | exact Hno ].
    rewrite (inb_true _ _ Hnv). cbn [andb].
    rewrite Hd, Hof.
    destruct (lookup_inner (n1 - Off N (n1 + n2 + 2 * N)) (n3 - Off N (n1 + n2 + 2 * N))
                           (Sz N (n1 + n2 + 2 * N)) (Sz N (n1 + n2 + 2 * N))) eqn:Hi.
    + apply gen_lookup_inner in Hi. destruct Hi as [Hi1 Hi3].
      rewrite gen_lookup_cell. cbv beta iota.
      rewrite (inb_true _ _ Hi1), (inb_true _ _ Hi3). cbn [andb].
      rewrite (Hc _ _ Hi1 Hi3).
      rewrite (proj2 HW) by (split; [exact Ho|split; assumption]).
      unfold val. f_equal. f_equal. apply pair3_eq; lia.
    + destruct (in_window N n1 n2 n3) eqn:Hw; [|reflexivity].
      exfalso. destruct (proj1 HW eq_refl) as (_ & Hi1 & Hi3).
      assert (Ht : lookup_inner (n1 - Off N (n1 + n2 + 2 * N)) (n3 - Off N (n1 + n2 + 2 * N))
                                (Sz N (n1 + n2 + 2 * N)) (Sz N (n1 + n2 + 2 * N)) = true)
        by (apply gen_lookup_inner; split; assumption).
      congruence.
  - destruct (in_window N n1 n2 n3) eqn:Hw; [|reflexivity].
    exfalso. destruct (proj1 HW eq_refl) as (Ho' & _).
    apply gen_lookup_outer in Ho'. congruence.
Qed.

(** ** The statements of props/Properties_C15.v *)

Theorem fill_in_bounds_sec : forall (N : Z),
  0 <= N -> exists st, fill T src N = Done st.
Proof.
  intros N HN. destruct (fill_post N HN) as (st & E & _). exists st. exact E.
Qed.

Theorem storage_window_sec : forall (src' : Z * Z * Z -> T) (N : Z) st (n1 n2 n3 : Z),
  0 <= N -> fill T src N = Done st ->
  lookup T src' st N n1 n2 n3 =
  Done (if in_window N n1 n2 n3 then src (n1, n2, n3) else src' (n1, n2, n3)).
Proof.
  intros src' N st n1 n2 n3 HN E.
  destruct (fill_post N HN) as (st0 & E0 & HP).
  assert (st0 = st) by congruence. subst st0.
  apply lookup_post. exact HP.
Qed.

Theorem fill_from_in_bounds_sec : forall (st0 : storage T) (N : Z),
  0 <= N -> exists st, fill_from T src st0 N = Done st.
Proof.
  intros st0 N HN. destruct (fill_from_post st0 N HN) as (st & E & _). exists st. exact E.
Qed.

Theorem refill_window_sec :
  forall (src' : Z * Z * Z -> T) (st0 : storage T) (N : Z) st (n1 n2 n3 : Z),
  0 <= N -> fill_from T src st0 N = Done st ->
  lookup T src' st N n1 n2 n3 =
  Done (if in_window N n1 n2 n3 then src (n1, n2, n3) else src' (n1, n2, n3)).
Proof.
  intros src' st0 N st n1 n2 n3 HN E.
  destruct (fill_from_post st0 N HN) as (st1 & E1 & HP).
  assert (st1 = st) by congruence. subst st1.
  apply lookup_post. exact HP.
Qed.

Theorem refill_transparent_sec : forall (Ns : list Z),
  Forall (fun N => 0 <= N) Ns ->
  exists st, refill T src Ns = Done st /\
    forall n1 n2 n3, lookup T src st (last Ns 0) n1 n2 n3 = Done (src (n1, n2, n3)).
Proof.
  intros Ns H. destruct (refill_post Ns H) as (st & E & HP).
  exists st. split; [exact E|]. intros n1 n2 n3.
  rewrite (lookup_post src (last Ns 0) st n1 n2 n3 HP).
  destruct (in_window (last Ns 0) n1 n2 n3); reflexivity.
Qed.

Theorem storage_transparent_sec : forall (N n1 n2 n3 : Z),
  0 <= N -> fill_then_lookup T src N n1 n2 n3 = Done (src (n1, n2, n3)).
Proof.
  intros N n1 n2 n3 HN. unfold fill_then_lookup.
  destruct (fill_post N HN) as (st & E & HP).
  rewrite (bind_Done _ _ _ E). rewrite (lookup_post src N st n1 n2 n3 HP).
  destruct (in_window N n1 n2 n3); reflexivity.
Qed.

End Fill.

Theorem fill_in_bounds : forall (T : Type) (src : Z * Z * Z -> T) (N : Z),
  0 <= N -> exists st, fill T src N = Done st.
Proof. exact fill_in_bounds_sec. Qed.

Theorem storage_window : forall (T : Type) (src src' : Z * Z * Z -> T) (N : Z) st (n1 n2 n3 : Z),
  0 <= N -> fill T src N = Done st ->
  lookup T src' st N n1 n2 n3 =
  Done (if in_window N n1 n2 n3 then src (n1, n2, n3) else src' (n1, n2, n3)).
Proof. exact storage_window_sec. Qed.

Theorem storage_transparent : forall (T : Type) (src : Z * Z * Z -> T) (N n1 n2 n3 : Z),
  0 <= N -> fill_then_lookup T src N n1 n2 n3 = Done (src (n1, n2, n3)).
Proof. exact storage_transparent_sec. Qed.

(** refill of an existing container *)

Theorem fill_from_in_bounds : forall (T : Type) (src : Z * Z * Z -> T) (st0 : storage T) (N : Z),
  0 <= N -> exists st, fill_from T src st0 N = Done st.
Proof. exact fill_from_in_bounds_sec. Qed.

Theorem refill_window :
  forall (T : Type) (src src' : Z * Z * Z -> T) (st0 : storage T) (N : Z) st (n1 n2 n3 : Z),
  0 <= N -> fill_from T src st0 N = Done st ->
  lookup T src' st N n1 n2 n3 =
  Done (if in_window N n1 n2 n3 then src (n1, n2, n3) else src' (n1, n2, n3)).
Proof. exact refill_window_sec. Qed.

Theorem refill_transparent : forall (T : Type) (src : Z * Z * Z -> T) (Ns : list Z),
  Forall (fun N => 0 <= N) Ns ->
  exists st, refill T src Ns = Done st /\
    forall n1 n2 n3, lookup T src st (last Ns 0) n1 n2 n3 = Done (src (n1, n2, n3)).
Proof. exact refill_transparent_sec. Qed.

(** * Vertex4::value = chi - chi^0 *)

Section VertexProof.
Variable K : Type.
Variables (k0 k1 : K) (kadd kmul ksub : K -> K -> K) (kopp : K -> K).
Hypothesis Kr : ring_theory k0 k1 kadd kmul ksub kopp (@eq K).
Add Ring Kring : Kr.

Lemma vertex_is_chi_minus_chi0_sec :
  forall (beta : K) (Chi4 : Z -> Z -> Z -> K) (G13 G24 G14 G23 : Z -> K) (n1 n2 n3 : Z),
  vertex_value K kadd ksub kmul beta Chi4 G13 G24 G14 G23 n1 n2 n3 =
  ksub (Chi4 n1 n2 n3) (chi0 K k0 k1 kmul ksub beta G13 G24 G14 G23 n1 n2 n3).
Proof.
  intros. unfold vertex_value, chi0, delta. cbv zeta.
  repeat match goal with
         | |- context [Z.eqb ?a ?b] => destruct (Z.eqb_spec a b)
         end;
    try (exfalso; lia); ring.
Qed.
End VertexProof.

Theorem vertex_is_chi_minus_chi0 :
  forall (K : Type) (k0 k1 : K) (kadd kmul ksub : K -> K -> K) (kopp : K -> K),
  ring_theory k0 k1 kadd kmul ksub kopp (@eq K) ->
  forall (beta : K) (Chi4 : Z -> Z -> Z -> K) (G13 G24 G14 G23 : Z -> K) (n1 n2 n3 : Z),
  vertex_value K kadd ksub kmul beta Chi4 G13 G24 G14 G23 n1 n2 n3 =
  ksub (Chi4 n1 n2 n3) (chi0 K k0 k1 kmul ksub beta G13 G24 G14 G23 n1 n2 n3).
Proof. exact vertex_is_chi_minus_chi0_sec. Qed.

(** * Non-vacuity *)

(** The hypothesis [0 <= N] with a non-trivial N; fill really returns a storage. *)
Example fill_N2_done :
  match fill (Z * Z * Z) (fun t => t) 2 with Done _ => true | _ => false end = true.
Proof. vm_compute. reflexivity. Qed.

(** 1^2 + 2^2 + 3^2 + 4^2 + 3^2 + 2^2 + 1^2 cells are stored for N = 2 *)
Example window_cells_N2 : window_cells 2 = 44.
Proof. vm_compute. reflexivity. Qed.

(** a triple inside the window is served from the storage, and from the right cell *)
Example probe_inside : probe 2 1 (-2) 0 = Done (1, -2, 0).
Proof. vm_compute. reflexivity. Qed.
Example in_window_inside : in_window 2 1 (-2) 0 = true.
Proof. vm_compute. reflexivity. Qed.

(** a triple outside the window falls through to the source *)
Example probe_outside : probe 2 2 0 0 = Done (2, 0, 0).
Proof. vm_compute. reflexivity. Qed.
Example in_window_outside : in_window 2 2 0 0 = false.
Proof. vm_compute. reflexivity. Qed.

(** inside/outside is really decided by the storage: with a fallback source that
    differs from the filling source the two cases are told apart *)
Example lookup_distinguishes :
  match fill (Z * Z * Z) (fun t => t) 2 with
  | Done st => (lookup _ (fun _ => (0, 0, 0)) st 2 1 (-2) 0,
                lookup _ (fun _ => (0, 0, 0)) st 2 2 0 0)
  | _ => (OOB, OOB)
  end = (Done (1, -2, 0), Done (0, 0, 0)).
Proof. vm_compute. reflexivity. Qed.

(** Refill.  The hypotheses of [refill_window] / [refill_transparent] are satisfiable with
    non-trivial histories (shrinking, growing, through 0), and the model's vector resize
    really keeps old blocks, so a refill starts from stale data rather than from an empty
    storage: after N = 3, shrinking Values to 3 entries leaves block 0 (1x1, filled from
    (-3,-3,-3)) and block 2 (3x3) in place, and drops block 3. *)
Example refill_hyp_sat : Forall (fun N => 0 <= N) (3 :: 1 :: 0 :: 2 :: nil).
Proof. repeat constructor; lia. Qed.
Example resize_keeps_old_blocks :
  match fill (Z * Z * Z) (fun t => t) 3 with
  | Done st => let st' := resize_storage _ st 3 3 in
               (dims _ st' 0, cells _ st' 0 0 0, dims _ st' 2, offs _ st' 2, dims _ st' 3,
                dims _ (resize_storage _ st' 11 11) 3)
  | _ => ((0, 0), None, (0, 0), 0, (0, 0), (0, 0))
  end = ((1, 1), Some (-3, -3, -3), (3, 3), -3, (0, 0), (0, 0)).
Proof. vm_compute. reflexivity. Qed.
(** block 0 for N = 1 is filled from (-1,-1,-1), not the stale (-3,-3,-3) *)
Example probe_seq_shrink : probe_seq (3 :: 1 :: nil) (-1) (-1) (-1) = Done (-1, -1, -1).
Proof. vm_compute. reflexivity. Qed.
Example probe_seq_shrink_outside : probe_seq (3 :: 1 :: nil) 1 0 0 = Done (1, 0, 0).
Proof. vm_compute. reflexivity. Qed.
Example probe_seq_grow : probe_seq (1 :: 3 :: nil) 2 (-3) 1 = Done (2, -3, 1).
Proof. vm_compute. reflexivity. Qed.
Example probe_seq_through_zero : probe_seq (2 :: 0 :: 2 :: nil) 1 (-2) 0 = Done (1, -2, 0).
Proof. vm_compute. reflexivity. Qed.
Example probe_seq_to_zero : probe_seq (2 :: 0 :: nil) 0 0 0 = Done (0, 0, 0).
Proof. vm_compute. reflexivity. Qed.
(** the refilled storage, not the fallback, serves in-window triples after a shrink *)
Example refill_lookup_distinguishes :
  match refill (Z * Z * Z) (fun t => t) (3 :: 1 :: nil) with
  | Done st => (lookup _ (fun _ => (7, 7, 7)) st 1 (-1) 0 (-1),
                lookup _ (fun _ => (7, 7, 7)) st 1 (-2) 0 (-1))
  | _ => (OOB, OOB)
  end = (Done (-1, 0, -1), Done (7, 7, 7)).
Proof. vm_compute. reflexivity. Qed.

(** the ring hypothesis of [vertex_is_chi_minus_chi0] is satisfiable (integers), and
    both Kronecker terms of chi^0 are exercised at n1 = n2 = n3 *)
Example vertex_ring_hyp_sat : ring_theory 0 1 Z.add Z.mul Z.sub Z.opp (@eq Z).
Proof. exact InitialRing.Zth. Qed.
Example vertex_value_diag :
  vertex_value Z Z.add Z.sub Z.mul 2 (fun _ _ _ => 100) (fun _ => 3) (fun _ => 5)
               (fun _ => 7) (fun _ => 11) 4 4 4 = 100 + 2 * 3 * 5 - 2 * 7 * 11.
Proof. vm_compute. reflexivity. Qed.
