(** LehmannInterp.v -- interpreters of the descriptions of PV.LehmannShapes (what translator/gen_lehmann.py writes into
    coq/gen/Gen_Leh*.v).  Nothing here depends on a generated file or on a model of a property: PV.LehmannGen / PV.LehmannGenChi
    instantiate these interpreters with the generated descriptions (the [..._src] functions), PV.LehmannInterpProofs proves that
    the interpreters, run on the descriptions the models were written after, ARE the model functions.

    Conventions shared with PV.Sparse: a read of InnerIterator::index() goes through [Sparse.rd]; [lenient] decides whether a read
    past the end of the inner vector continues with the value in memory; fuel as in PV.Sparse ([chase_fuel], [walk_fuel]).
    A description that uses a construct the interpreter has no meaning for (a `return` inside a loop of compute, ...) yields
    [WFuel], which no theorem accepts as a result.   Definitions only. *)
Require Import Bool List Arith ZArith.
From PV Require Import Sparse LehmannShapes.
Import ListNotations.

Definition cmp_eval (c : cmpop) (x y : nat) : bool :=
  match c with
  | CmpLt => x <? y | CmpLe => x <=? y | CmpEq => x =? y | CmpNe => negb (x =? y) | CmpGt => y <? x | CmpGe => y <=? x
  end.

Definition acc_apply {K} (kadd ksub : K -> K -> K) (op : acc_op) (acc v : K) : K :=
  match op with AccPlus => kadd acc v | AccMinus => ksub acc v | AccAssign => v end.

(** `for(v = first; v CMP bound; ++v)`: the values of v, [None] for a comparison that is not a bound from above *)
Definition outer_range (first : nat) (c : cmpop) (bound : nat) : option (list nat) :=
  match c with
  | CmpLt => Some (seq first (bound - first))
  | CmpLe => Some (seq first (S bound - first))
  | _ => None
  end.

(** * 1. merge loops over two compressed matrices (GreensFunctionPart::compute, SusceptibilityPart::compute) *)
Record wst : Set := mk_wst { w_p : nat; w_q : nat; w_la : nat; w_lb : nat }.   (* positions of ItA, ItB; the two index locals *)
Record xst : Set := mk_xst { x_w : wst; x_out : list (nat * (nat * nat)); x_ret : option bool }.   (* + WsBody visits (n, (p, q)) *)

Section CsWalk.
Context {VA VB : Type}.
Variable lenient : bool.
Variable a : cs VA.
Variable b : cs VB.
Variables pe qe outer : nat.

Definition it_valid (i : itr) (s : wst) : bool := match i with ItA => w_p s <? pe | ItB => w_q s <? qe end.
Definition read_at {V} (sd : side) (m : cs V) (e id : nat) : wres nat :=
  match rd m e id with
  | Val j => WDone j
  | PastEnd j => if lenient then WDone j else WPastEnd sd id
  | ROOB => WOOB sd id
  end.
Definition it_read (i : itr) (s : wst) : wres nat :=
  match i with ItA => read_at SideA a pe (w_p s) | ItB => read_at SideB b qe (w_q s) end.
Definition it_advance (i : itr) (s : wst) : wst :=
  match i with
  | ItA => mk_wst (S (w_p s)) (w_q s) (w_la s) (w_lb s)
  | ItB => mk_wst (w_p s) (S (w_q s)) (w_la s) (w_lb s)
  end.
Definition set_local (i : itr) (v : nat) (s : wst) : wst :=
  match i with
  | ItA => mk_wst (w_p s) (w_q s) v (w_lb s)
  | ItB => mk_wst (w_p s) (w_q s) (w_la s) v
  end.
Definition ival_eval (v : ival) (s : wst) : wres nat :=
  match v with
  | IvLocal ItA => WDone (w_la s)
  | IvLocal ItB => WDone (w_lb s)
  | IvOuter => WDone outer
  | IvRead i => it_read i s
  end.
Fixpoint icond_eval (c : icond) (s : wst) : wres bool :=
  match c with
  | IcValid i => WDone (it_valid i s)
  | IcCmp c x y => wbind (ival_eval x s) (fun vx => wbind (ival_eval y s) (fun vy => WDone (cmp_eval c vx vy)))
  | IcAnd x y => wbind (icond_eval x s) (fun bx => if bx then icond_eval y s else WDone false)
  | IcOr x y => wbind (icond_eval x s) (fun bx => if bx then WDone true else icond_eval y s)
  | IcNot x => wmap negb (icond_eval x s)
  end.
Definition it_fuel (i : itr) : nat := match i with ItA => chase_fuel a | ItB => chase_fuel b end.

(** for(; c; ++i); *)
Fixpoint for_src (c : icond) (i : itr) (fuel : nat) (s : wst) : wres wst :=
  match fuel with
  | O => WFuel
  | S f => wbind (icond_eval c s) (fun bc => if bc then for_src c i f (it_advance i s) else WDone s)
  end.

Definition upd_w (x : xst) (s : wst) : xst := mk_xst s (x_out x) (x_ret x).

Fixpoint exec (st : wstmt) (x : xst) {struct st} : wres xst :=
  match x_ret x with
  | Some _ => WDone x
  | None =>
    match st with
    | WsReadIndex i => wmap (fun v => upd_w x (set_local i v (x_w x))) (it_read i (x_w x))
    | WsIf c t e =>
      wbind (icond_eval c (x_w x)) (fun bc =>
        (fix go (l : list wstmt) (x : xst) {struct l} : wres xst :=
           match l with [] => WDone x | s :: r => wbind (exec s x) (go r) end) (if bc then t else e) x)
    | WsAdvance i => WDone (upd_w x (it_advance i (x_w x)))
    | WsFor c i => wmap (upd_w x) (for_src c i (it_fuel i) (x_w x))
    | WsBody n => WDone (mk_xst (x_w x) (x_out x ++ [(n, (w_p (x_w x), w_q (x_w x)))]) (x_ret x))
    | WsReturn r => WDone (mk_xst (x_w x) (x_out x) (Some r))
    | WsIfChase _ => WFuel
    | WsPush _ => WFuel
    end
  end.
Fixpoint exec_list (l : list wstmt) (x : xst) {struct l} : wres xst :=
  match l with [] => WDone x | s :: r => wbind (exec s x) (exec_list r) end.

(** while(c) { body } : the visits, in order *)
Fixpoint while_src (c : icond) (body : list wstmt) (fuel : nat) (s : wst) : wres (list (nat * (nat * nat))) :=
  match fuel with
  | O => WFuel
  | S f =>
    wbind (icond_eval c s) (fun bc =>
      if bc then
        wbind (exec_list body (mk_xst s [] None)) (fun x =>
          match x_ret x with
          | Some _ => WFuel
          | None => wmap (app (x_out x)) (while_src c body f (x_w x))
          end)
      else WDone [])
  end.
End CsWalk.

(** the loop for one outer index, from the construction of the two iterators *)
Definition walk_outer_src {VA VB} (lenient : bool) (nest : merge_nest) (a : cs VA) (b : cs VB) (o : nat)
  : wres (list (nat * (nat * nat))) :=
  match iter_begin a o with
  | None => WOOB SideA o
  | Some (p, pe) =>
    match iter_begin b o with
    | None => WOOB SideB o
    | Some (q, qe) => while_src lenient a b pe qe o (mn_while nest) (mn_body nest) (walk_fuel p pe q qe) (mk_wst p q 0 0)
    end
  end.

(** all outer indices: (block n, (index1, (position in a, position in b))) of every WsBody executed, in order *)
Fixpoint part_walk_list {VA VB} (lenient : bool) (nest : merge_nest) (a : cs VA) (b : cs VB) (os : list nat)
  : wres (list (nat * (nat * (nat * nat)))) :=
  match os with
  | [] => WDone []
  | o :: r =>
    wbind (walk_outer_src lenient nest a b o) (fun l =>
      wmap (fun rest => map (fun v => (fst v, (o, snd v))) l ++ rest) (part_walk_list lenient nest a b r))
  end.
Definition part_walk_src {VA VB} (lenient : bool) (nest : merge_nest) (a : cs VA) (b : cs VB)
  : wres (list (nat * (nat * (nat * nat)))) :=
  match outer_range (mn_first nest) (mn_cmp nest) (match mn_bound nest with ItA => cs_outer a | ItB => cs_outer b end) with
  | Some os => part_walk_list lenient nest a b os
  | None => WFuel
  end.

(** * 2. the statements executed at a matched position *)
Section MatchBody.
Variable K : Type.
Variable k0 : K.
Definition locf (locs : list K) : nat -> K := fun n => nth n locs k0.
(** result: the locals afterwards, the events in order *)
Fixpoint mexec (st : mstmt K) (e : menv K) (locs : list K) {struct st} : list K * list (mevent K) :=
  match st with
  | MsLet f => (locs ++ [f e (locf locs)], [])
  | MsIf c t el =>
    (locs, snd ((fix go (l : list (mstmt K)) (locs : list K) {struct l} : list K * list (mevent K) :=
                   match l with
                   | [] => (locs, [])
                   | s :: r => let r1 := mexec s e locs in let r2 := go r (fst r1) in (fst r2, snd r1 ++ snd r2)
                   end) (if c e (locf locs) then t else el) locs))
  | MsAddTerm r p => (locs, [MeAdd (r e (locf locs)) (p e (locf locs))])
  | MsZeroAdd w => (locs, [MeZero (w e (locf locs))])
  end.
Fixpoint mexec_list (l : list (mstmt K)) (e : menv K) (locs : list K) {struct l} : list K * list (mevent K) :=
  match l with
  | [] => (locs, [])
  | s :: r => let r1 := mexec s e locs in let r2 := mexec_list r e (fst r1) in (fst r2, snd r1 ++ snd r2)
  end.
Definition block_events (blocks : list (list (mstmt K))) (n : nat) (e : menv K) : list (mevent K) :=
  snd (mexec_list (nth n blocks []) e []).
End MatchBody.

(** * 3. TermList::add_term over a std::set modelled by its in-order sequence (as in PV.Chi / PV.TermList):
    insert = libstdc++'s _M_get_insert_unique_pos: the position is the first element e with comp(t, e); the element before it, if
    any, must satisfy comp(pred, t), else the insertion is refused and the returned iterator points to pred. *)
Section AddTerm.
Variable T : Type.
Variable comp : T -> T -> bool.
Variable plus : T -> T -> T.
Variable negl : T -> nat -> bool.

Fixpoint split_upper (t : T) (l : list T) : list T * list T :=
  match l with
  | [] => ([], [])
  | e :: r => if comp t e then ([], l) else let (x, y) := split_upper t r in (e :: x, y)
  end.
(** (res.second, *res.first, the set without *res.first), the set afterwards *)
Definition insert_src (t : T) (l : list T) : (bool * T * list T) * list T :=
  let (x, y) := split_upper t l in
  match rev x with
  | [] => ((true, t, l), t :: y)
  | pred :: rx => if comp pred t then ((true, t, l), x ++ t :: y) else ((false, pred, rev rx ++ y), l)
  end.

Record ast : Type := mk_ast {
  a_data : list T; a_sum : T; a_reduced : T; a_res : bool * T * list T;
  a_done : bool;          (* `return` executed *)
  a_fail : bool           (* the fuel of for(;;) ran out *)
}.
Fixpoint at_cond_eval (c : at_cond) (s : ast) : bool :=
  match c with
  | AcInserted => fst (fst (a_res s))
  | AcNegligible k => negl (a_reduced s) (length (a_data s) + k)
  | AcNot c => negb (at_cond_eval c s)
  end.
Section Exec.
Variable term : T.
Fixpoint at_loop (body : ast -> ast) (fuel : nat) (s : ast) : ast :=
  let s' := body s in
  if a_done s' then s'
  else match fuel with
       | O => mk_ast (a_data s') (a_sum s') (a_reduced s') (a_res s') true true
       | S f => at_loop body f s'
       end.
Fixpoint at_exec (st : at_stmt) (s : ast) {struct st} : ast :=
  if a_done s then s else
  match st with
  | AtSumInit => mk_ast (a_data s) term (a_reduced s) (a_res s) false false
  | AtInsert => let r := insert_src (a_sum s) (a_data s) in mk_ast (snd r) (a_sum s) (a_reduced s) (fst r) false false
  | AtIf c t e =>
    (fix go (l : list at_stmt) (s : ast) {struct l} : ast := match l with [] => s | x :: r => go r (at_exec x s) end)
      (if at_cond_eval c s then t else e) s
  | AtReturn => mk_ast (a_data s) (a_sum s) (a_reduced s) (a_res s) true false
  | AtReducedInit => mk_ast (a_data s) (a_sum s) (snd (fst (a_res s))) (a_res s) false false
  | AtReducedAddSum => mk_ast (a_data s) (a_sum s) (plus (a_reduced s) (a_sum s)) (a_res s) false false
  | AtErase => mk_ast (snd (a_res s)) (a_sum s) (a_reduced s) (a_res s) false false
  | AtSumAssign => mk_ast (a_data s) (a_reduced s) (a_reduced s) (a_res s) false false
  | AtLoop body =>
    at_loop ((fix go (l : list at_stmt) (s : ast) {struct l} : ast := match l with [] => s | x :: r => go r (at_exec x s) end) body)
            (length (a_data s)) s
  end.
Fixpoint at_exec_list (l : list at_stmt) (s : ast) {struct l} : ast :=
  match l with [] => s | x :: r => at_exec_list r (at_exec x s) end.
End Exec.
(** add_term(term) on the set l: (no fuel exhaustion, the set afterwards) -- the convention of Chi.add_term_loop *)
Definition add_term_by (descr : list at_stmt) (term : T) (l : list T) : bool * list T :=
  let s := at_exec_list term descr (mk_ast l term term (false, term, l) false false) in (negb (a_fail s), a_data s).
End AddTerm.

(** * 4. TermList::operator() *)
Section TermListEval.
Variables (T K : Type) (k0 : K) (kadd ksub : K -> K -> K).
Definition termlist_eval_by (sh : tl_eval_shape) (f : T -> K) (l : list T) : K :=
  fold_left (fun acc t => acc_apply kadd ksub (te_op sh) acc (f t)) (if te_forward sh then l else rev l) k0.
End TermListEval.

(** * 5. value of an object: sum over the parts, subtraction *)
Section Values.
Variable K : Type.
Variables (k0 : K) (kadd ksub : K -> K -> K).
Variables (vanishing subtract : bool).
Variable parts : list K.            (* the value of every part at the argument, in the order of the container *)
Variable env : venv K.
Fixpoint vcond_eval (c : vcond K) : bool :=
  match c with
  | VcVanishing => vanishing
  | VcSubtract => subtract
  | VcNot c => negb (vcond_eval c)
  | VcLeaf f => f env
  end.
(** state: Value, the returned value if a return was executed *)
Fixpoint vexec (st : vstmt K) (s : K * option K) {struct st} : K * option K :=
  match snd s with
  | Some _ => s
  | None =>
    match st with
    | VsInit => (k0, None)
    | VsIf c t e =>
      (fix go (l : list (vstmt K)) (s : K * option K) {struct l} : K * option K :=
         match l with [] => s | x :: r => go r (vexec x s) end) (if vcond_eval c then t else e) s
    | VsReturnZero => (fst s, Some k0)
    | VsReturnValue => (fst s, Some (fst s))
    | VsForParts op => (fold_left (fun acc v => acc_apply kadd ksub op acc v) parts (fst s), None)
    | VsSub f => (ksub (fst s) (f env), None)
    end
  end.
Fixpoint vexec_list (l : list (vstmt K)) (s : K * option K) {struct l} : K * option K :=
  match l with [] => s | x :: r => vexec_list r (vexec x s) end.
(** falling off the end of a value-returning function is undefined: [None] *)
Definition value_by (descr : list (vstmt K)) : option K := snd (vexec_list descr (k0, None)).
End Values.

(** * 6. TwoParticleGFPart::addMultiterm: the terms handed to the two term lists, in order *)
Section Multiterm.
Variable K : Type.
Variable k0 : K.
Fixpoint texec (st : tstmt K) (tol : K) (locs : list K) {struct st} : list K * list (temit K) :=
  match st with
  | TsLet f => (locs ++ [f tol (locf K k0 locs)], [])
  | TsIf c t el =>
    (locs, snd ((fix go (l : list (tstmt K)) (locs : list K) {struct l} : list K * list (temit K) :=
                   match l with
                   | [] => (locs, [])
                   | s :: r => let r1 := texec s tol locs in let r2 := go r (fst r1) in (fst r2, snd r1 ++ snd r2)
                   end) (if c tol (locf K k0 locs) then t else el) locs))
  | TsAddNonRes c p1 p2 p3 fl =>
    (locs, [TeNonRes (c tol (locf K k0 locs)) (p1 tol (locf K k0 locs)) (p2 tol (locf K k0 locs)) (p3 tol (locf K k0 locs)) fl])
  | TsAddRes rc nc p1 p2 p3 fl =>
    (locs, [TeRes (rc tol (locf K k0 locs)) (nc tol (locf K k0 locs)) (p1 tol (locf K k0 locs)) (p2 tol (locf K k0 locs))
                  (p3 tol (locf K k0 locs)) fl])
  end.
Fixpoint texec_list (l : list (tstmt K)) (tol : K) (locs : list K) {struct l} : list K * list (temit K) :=
  match l with
  | [] => (locs, [])
  | s :: r => let r1 := texec s tol locs in let r2 := texec_list r tol (fst r1) in (fst r2, snd r1 ++ snd r2)
  end.
(** addMultiterm(args): the parameters are the first locals *)
Definition addmultiterm_by (descr : list (tstmt K)) (tol : K) (args : list K) : list (temit K) := snd (texec_list descr tol args).
End Multiterm.

(** * 7. the innermost body of TwoParticleGFPart::compute for one quadruple: the argument lists of the addMultiterm calls *)
Section TPBody.
Variable K : Type.
Variable k0 : K.
Variable kmul : K -> K -> K.
Fixpoint upd_nth (n : nat) (v : K) (l : list K) : list K :=
  match l, n with
  | [], _ => []
  | _ :: r, O => v :: r
  | x :: r, S n' => x :: upd_nth n' v r
  end.
Fixpoint pexec (st : pstmt K) (e : tenv K) (locs : list K) {struct st} : list K * list (list K) :=
  match st with
  | PsLet f => (locs ++ [f e (locf K k0 locs)], [])
  | PsIf c t el =>
    (* locals declared inside the branch end with it; assignments to outer locals persist *)
    let r := (fix go (l : list (pstmt K)) (locs : list K) {struct l} : list K * list (list K) :=
                match l with
                | [] => (locs, [])
                | s :: r => let r1 := pexec s e locs in let r2 := go r (fst r1) in (fst r2, snd r1 ++ snd r2)
                end) (if c e (locf K k0 locs) then t else el) locs in
    (firstn (length locs) (fst r), snd r)
  | PsMulAssign n f => (upd_nth n (kmul (nth n locs k0) (f e (locf K k0 locs))) locs, [])
  | PsAddMultiterm args => (locs, [map (fun a => a e (locf K k0 locs)) args])
  end.
Fixpoint pexec_list (l : list (pstmt K)) (e : tenv K) (locs : list K) {struct l} : list K * list (list K) :=
  match l with
  | [] => (locs, [])
  | s :: r => let r1 := pexec s e locs in let r2 := pexec_list r e (fst r1) in (fst r2, snd r1 ++ snd r2)
  end.
Definition tp_inner_by (descr : list (pstmt K)) (e : tenv K) : list (list K) := snd (pexec_list descr e []).
End TPBody.
