(** C12 -- assembly for the free model with DIAGONAL single-particle matrix on ANY number M >= 1 of modes:
    for all index quadruples i j k l < M and every regular point the specification's two-particle Green's function
    is the documented Wick part, hence the GENERATED Vertex4::value (PVgen.Gen_Vertex4) vanishes.

    Induction over the number of modes: a quadruple in which some mode occurs an odd number of times gives chi = 0
    (WickAllMChi.chi_odd_zero); otherwise at most two modes are involved, M >= 3 leaves a spectator mode among
    {0, 1, 2}, which is removed (WickAllMChi.chi_remove_spectator); M = 2 is WickMain.free_chi_is_chi0.
    No axioms. *)
Require Import List Bool ZArith Field Arith Lia.
From PV Require Import Outcome Fock Poly EDSpec Matsubara4Spec Wick WickProofs WickCaseZero WickMain WickAllM WickAllMChi.
From PVgen Require Import Gen_Vertex4.
Import ListNotations.

Lemma two_values_spectator : forall a b : nat, exists p, p < 3 /\ p <> a /\ p <> b.
Proof.
  intros a b. destruct (Nat.eq_dec 0 a), (Nat.eq_dec 0 b), (Nat.eq_dec 1 a), (Nat.eq_dec 1 b);
  first [exists 0; lia | exists 1; lia | exists 2; lia].
Qed.

Lemma paired_spectator : forall i j k l, paired i j k l -> exists p, p < 3 /\ p <> i /\ p <> j /\ p <> k /\ p <> l.
Proof.
  intros i j k l [[A B]|[[A B]|[A B]]].
  - destruct (two_values_spectator i k) as [p Hp]. exists p. lia.
  - destruct (two_values_spectator i j) as [p Hp]. exists p. lia.
  - destruct (two_values_spectator i j) as [p Hp]. exists p. lia.
Qed.

Lemma odd_offdiag : forall i j k l q, xor4 i j k l q = true ->
  (Nat.eqb i l && Nat.eqb j k = false)%bool /\ (Nat.eqb i k && Nat.eqb j l = false)%bool.
Proof.
  intros i j k l q H. unfold xor4 in H. split.
  - destruct (Nat.eqb i l) eqn:A, (Nat.eqb j k) eqn:B; try reflexivity.
    apply Nat.eqb_eq in A. apply Nat.eqb_eq in B. subst.
    destruct (Nat.eqb l q), (Nat.eqb k q); discriminate.
  - destruct (Nat.eqb i k) eqn:A, (Nat.eqb j l) eqn:B; try reflexivity.
    apply Nat.eqb_eq in A. apply Nat.eqb_eq in B. subst.
    destruct (Nat.eqb l q), (Nat.eqb k q); discriminate.
Qed.

Section MainM.
Variable F : fsetting.
Notation K := (fK F).
Notation "0" := (f0 F). Notation "1" := (f1 F).
Infix "+" := (fadd F). Infix "*" := (fmul F). Infix "-" := (fsub F). Infix "/" := (fdiv F).
Notation "- x" := (fopp F x).
Notation NO := (FNum F).
Notation isz := (fisz F).
Add Field Ffield_MainM : (fKf F).

(** regularity of a point for M modes: every Boltzmann factor has 1 + x <> 0 and every PAIR of modes (a = b
    included) is regular in the sense of Wick.regular -- true for x_i = e^{-beta eps_i}, real levels and fermionic
    Matsubara frequencies (WickC.regular_C, WickAllMC.regularM_C) *)
Definition regularM (eps xs : list K) (z1 z2 z3 : K) : Prop :=
  length xs = length eps /\ (forall x, In x xs -> 1 + x <> 0) /\
  (forall a b, (a < length eps)%nat -> (b < length eps)%nat ->
     regular F (nth a eps 0) (nth b eps 0) (nth a xs 0) (nth b xs 0) z1 z2 z3).

Lemma regularM_del : forall p eps xs z1 z2 z3, (p < length eps)%nat ->
  regularM eps xs z1 z2 z3 -> regularM (del p eps) (del p xs) z1 z2 z3.
Proof.
  intros p eps xs z1 z2 z3 Hp [HL [HX HR]]. split; [|split].
  - rewrite !length_del by lia. now rewrite HL.
  - intros x Hin. apply HX. eapply In_del; eassumption.
  - intros a b Ha Hb. rewrite length_del in Ha, Hb by assumption. rewrite !nth_del_up.
    apply HR; apply up_lt; assumption.
Qed.

Lemma chi0_free_del : forall p eps beta i j k l z1 z2 z3, i <> p -> j <> p -> k <> p -> l <> p ->
  chi0_free F (del p eps) beta (dn p i) (dn p j) (dn p k) (dn p l) z1 z2 z3 = chi0_free F eps beta i j k l z1 z2 z3.
Proof.
  intros p eps beta i j k l z1 z2 z3 Hi Hj Hk Hl. unfold chi0_free, gfree.
  rewrite !dn_eqb, !nth_del by assumption. reflexivity.
Qed.

Lemma free_chi_is_chi0_ind : forall n eps xs beta z1 z2 z3 i j k l, length eps = S (S n) ->
  regularM eps xs z1 z2 z3 ->
  (i < length eps)%nat -> (j < length eps)%nat -> (k < length eps)%nat -> (l < length eps)%nat ->
  chi K NO beta (ftol F) (energies F eps) (gibbs F xs)
      (Cm F (length eps) i) (Cm F (length eps) j) (CXm F (length eps) k) (CXm F (length eps) l) z1 z2 z3 =
  chi0_free F eps beta i j k l z1 z2 z3.
Proof.
  induction n as [|n IH]; intros eps xs beta z1 z2 z3 i j k l HM Hreg Hi Hj Hk Hl.
  - destruct Hreg as [HL [HX HR]]. rewrite HM in *.
    destruct eps as [|e1 [|e2 [|e3 eps]]]; try discriminate HM.
    destruct xs as [|x1 [|x2 [|x3 xs]]]; try discriminate HL.
    apply (free_chi_is_chi0 F); try assumption. apply (HR 0%nat 1%nat); cbn [length]; lia.
  - destruct (paired_or_odd i j k l) as [Hp|[q Hq]].
    + destruct (paired_spectator i j k l Hp) as [p [Hp3 [Ni [Nj [Nk Nl]]]]].
      pose proof Hreg as [HL [HX HR]].
      assert (Hpl : (p < length eps)%nat) by lia.
      rewrite (chi_remove_spectator F eps xs p) by (assumption || lia).
      rewrite <- (chi0_free_del p eps beta i j k l) by lia.
      apply IH.
      * rewrite length_del by assumption. rewrite HM. reflexivity.
      * now apply regularM_del.
      * rewrite length_del by assumption. apply dn_lt; lia.
      * rewrite length_del by assumption. apply dn_lt; lia.
      * rewrite length_del by assumption. apply dn_lt; lia.
      * rewrite length_del by assumption. apply dn_lt; lia.
    + rewrite (chi_odd_zero F eps xs i j k l beta (ftol F) z1 z2 z3 q) by assumption.
      destruct (odd_offdiag _ _ _ _ _ Hq) as [O1 O2]. symmetry. now apply (chi0_free_offdiag F).
Qed.

(** one mode: add a spectator copy of the mode *)
Lemma free_chi_is_chi0_M1 : forall e x beta z1 z2 z3, regular F e e x x z1 z2 z3 ->
  chi K NO beta (ftol F) (energies F [e]) (gibbs F [x]) (Cm F 1 0) (Cm F 1 0) (CXm F 1 0) (CXm F 1 0) z1 z2 z3 =
  chi0_free F [e] beta 0 0 0 0 z1 z2 z3.
Proof.
  intros e x beta z1 z2 z3 Hreg.
  assert (HX : forall y, In y [x; x] -> 1 + y <> 0).
  { intros y [Hy|[Hy|[]]]; subst y; destruct Hreg; assumption. }
  pose proof (chi_remove_spectator F [e; e] [x; x] 1 0 0 0 0 beta (ftol F) z1 z2 z3) as R.
  cbn [length del dn Nat.ltb Nat.leb] in R.
  rewrite <- R; try (cbn; lia); try exact HX; [|left; split; reflexivity].
  rewrite (free_chi_is_chi0 F) by (assumption || lia). reflexivity.
Qed.

(** chi = chi0 for every M >= 1, every index quadruple, every regular point *)
Theorem free_chi_is_chi0_allM : forall eps xs beta z1 z2 z3 i j k l, (1 <= length eps)%nat ->
  regularM eps xs z1 z2 z3 ->
  (i < length eps)%nat -> (j < length eps)%nat -> (k < length eps)%nat -> (l < length eps)%nat ->
  chi K NO beta (ftol F) (energies F eps) (gibbs F xs)
      (Cm F (length eps) i) (Cm F (length eps) j) (CXm F (length eps) k) (CXm F (length eps) l) z1 z2 z3 =
  chi0_free F eps beta i j k l z1 z2 z3.
Proof.
  intros eps xs beta z1 z2 z3 i j k l HM.
  destruct (Nat.eq_dec (length eps) 1) as [E1|E1]; [|apply (free_chi_is_chi0_ind (length eps - 2)); lia].
  intros [HL [HX HR]] Hi Hj Hk Hl. rewrite E1 in *.
  destruct eps as [|e [|e2 eps]]; try discriminate E1. destruct xs as [|x [|x2 xs]]; try discriminate HL.
  assert (i = 0 /\ j = 0 /\ k = 0 /\ l = 0)%nat as [Zi [Zj [Zk Zl]]] by lia. subst i j k l.
  apply free_chi_is_chi0_M1. apply (HR 0%nat 0%nat); cbn [length]; lia.
Qed.

(** Matsubara numbers: an injection zf of Z into the field *)
Variable zf : Z -> K.
Hypothesis zf_inj : forall n m, zf n - zf m = 0 -> n = m.

Definition Chi4M (beta : K) (eps xs : list K) (i j k l : nat) (n1 n2 n3 : Z) : K :=
  chi K NO beta (ftol F) (energies F eps) (gibbs F xs)
      (Cm F (length eps) i) (Cm F (length eps) j) (CXm F (length eps) k) (CXm F (length eps) l) (zf n1) (zf n2) (zf n3).
Definition GmnM (eps xs : list K) (i j : nat) (n : Z) : K :=
  gf K NO (energies F eps) (gibbs F xs) (Cm F (length eps) i) (CXm F (length eps) j) (zf n).

Lemma regularM_poles : forall eps xs z1 z2 z3 a, regularM eps xs z1 z2 z3 ->
  (a < length eps)%nat -> z1 - nth a eps 0 <> 0 /\ z2 - nth a eps 0 <> 0.
Proof.
  intros eps xs z1 z2 z3 a [HL [HX HR]] Ha. destruct (HR a a Ha Ha). split; assumption.
Qed.

Lemma GmnM_free : forall eps xs z1 z2 z3 i j, regularM eps xs z1 z2 z3 ->
  (i < length eps)%nat -> (j < length eps)%nat ->
  gf K NO (energies F eps) (gibbs F xs) (Cm F (length eps) i) (CXm F (length eps) j) z1 = gfree F eps i j z1 /\
  gf K NO (energies F eps) (gibbs F xs) (Cm F (length eps) i) (CXm F (length eps) j) z2 = gfree F eps i j z2.
Proof.
  intros eps xs z1 z2 z3 i j Hreg Hi Hj.
  destruct (regularM_poles eps xs z1 z2 z3 i Hreg Hi) as [P1 P2]. destruct Hreg as [HL [HX HR]].
  split; apply (free_gf_diag_allM F); auto.
Qed.

(** chi is the documented chi0 (PV.Matsubara4Spec.chi0, doc/gamma4.tex) built from the specification's G *)
Theorem free_chi_is_documented_chi0_allM : forall beta eps xs i j k l n1 n2 n3, (1 <= length eps)%nat ->
  (i < length eps)%nat -> (j < length eps)%nat -> (k < length eps)%nat -> (l < length eps)%nat ->
  regularM eps xs (zf n1) (zf n2) (zf n3) ->
  Chi4M beta eps xs i j k l n1 n2 n3 =
  chi0 K 0 1 (fmul F) (fsub F) beta
       (GmnM eps xs i k) (GmnM eps xs j l) (GmnM eps xs i l) (GmnM eps xs j k) n1 n2 n3.
Proof.
  intros beta eps xs i j k l n1 n2 n3 HM Hi Hj Hk Hl Hreg.
  unfold Chi4M. rewrite free_chi_is_chi0_allM by assumption.
  unfold chi0, delta, GmnM. cbv zeta.
  rewrite (proj1 (GmnM_free eps xs _ _ _ i k Hreg Hi Hk)), (proj1 (GmnM_free eps xs _ _ _ i l Hreg Hi Hl)).
  rewrite (proj2 (GmnM_free eps xs _ _ _ j l Hreg Hj Hl)), (proj2 (GmnM_free eps xs _ _ _ j k Hreg Hj Hk)).
  unfold chi0_free. rewrite !(isz_zf F zf zf_inj).
  replace (n1 =? n1 + n2 - n3)%Z with (n2 =? n3)%Z.
  2:{ destruct (Z.eqb n2 n3) eqn:E1; symmetry; [apply Z.eqb_eq; apply Z.eqb_eq in E1; lia | apply Z.eqb_neq; apply Z.eqb_neq in E1; lia]. }
  replace (n2 =? n1 + n2 - n3)%Z with (n1 =? n3)%Z.
  2:{ destruct (Z.eqb n1 n3) eqn:E1; symmetry; [apply Z.eqb_eq; apply Z.eqb_eq in E1; lia | apply Z.eqb_neq; apply Z.eqb_neq in E1; lia]. }
  destruct (Z.eqb n2 n3), (Z.eqb n1 n3); ring.
Qed.

(** the generated Vertex4::value vanishes *)
Theorem free_vertex_zero_diag_allM : forall beta eps xs i j k l n1 n2 n3, (1 <= length eps)%nat ->
  (i < length eps)%nat -> (j < length eps)%nat -> (k < length eps)%nat -> (l < length eps)%nat ->
  regularM eps xs (zf n1) (zf n2) (zf n3) ->
  vertex_value K (fadd F) (fsub F) (fmul F) beta (Chi4M beta eps xs i j k l)
     (GmnM eps xs i k) (GmnM eps xs j l) (GmnM eps xs i l) (GmnM eps xs j k) n1 n2 n3 = 0.
Proof.
  intros beta eps xs i j k l n1 n2 n3 HM Hi Hj Hk Hl Hreg.
  unfold vertex_value, Chi4M, GmnM. rewrite free_chi_is_chi0_allM by assumption.
  rewrite (proj1 (GmnM_free eps xs _ _ _ i k Hreg Hi Hk)), (proj1 (GmnM_free eps xs _ _ _ i l Hreg Hi Hl)).
  rewrite (proj2 (GmnM_free eps xs _ _ _ j l Hreg Hj Hl)), (proj2 (GmnM_free eps xs _ _ _ j k Hreg Hj Hk)).
  unfold chi0_free. rewrite !(isz_zf F zf zf_inj).
  destruct (Z.eqb n2 n3), (Z.eqb n1 n3); ring.
Qed.
End MainM.
