(** Property C08 -- observables do not depend on the choice of the symmetry partition: the part that is
    about the PARTITION (as opposed to the eigenbasis chosen inside degenerate subspaces).

    1. Every bimap produced by FieldOperator::prepare -- for any partition, sound or not -- is a partial
       bijection ([prepare_bimap_wf]); its left / right views are strictly increasing in their key
       ([left_view_ksorted], [right_view_ksorted]).  These are the hypotheses of the stripe-selection
       theorem of property C01, PV.GFPartProofs.gf_stripes_complete (the two-iterator walk of
       GreensFunction::prepare and, identically, Susceptibility::prepare), which therefore applies to
       every pair of prepared operators: [gf_stripes_select].
    2. For a partition produced by the symmetry analysis whose accepted operators shift uniformly (C07:
       the default candidates, linear forms, and with the repaired acceptance test every accepted
       operator) the bimaps hold exactly the block pairs between which the operator has a matrix
       element (PV.SymmProofs.single_target).  Hence the walk selects exactly the stripes that can
       contribute: [gf_stripes_exact]; and EnsembleAverage::prepare selects exactly the diagonal blocks on
       which c^+_i c_j has a matrix element: [avg_stripes_complete].
    3. Regrouping: a sum over all Fock states / pairs of Fock states of a function that vanishes outside
       the selected blocks / stripes equals the block-wise sum ([blocks_sum_eq_full],
       [stripes_sum_eq_full]) -- the right-hand sides do not mention the partition.

    Not formalised (C08 is claimed `partial`): the block-wise Lehmann sums are written in the eigenbasis
    of each block; that the full-space sum does not depend on the eigenbasis chosen inside degenerate
    subspaces is standard linear algebra (block-diagonal unitary U, trace invariance) and is decided
    numerically by the differential runs of checks/C08.py; the closed 4-chains of TwoParticleGF::prepare
    are covered only by those runs. *)
Require Import Bool List Arith Lia Ring Ring_theory Sorted.
From PV Require Import Outcome Fock Poly PolySem AlgebraBasics Symm SymmProofs GFPart GFPartProofs.
Import ListNotations.

(** * 1. Bimaps are partial bijections; views are sorted *)

Definition bimap_wf (bm : bimap) : Prop := NoDup (map fst bm) /\ NoDup (map snd bm).

Lemma bimap_insert_wf : forall L R bm, bimap_wf bm -> bimap_wf (bimap_insert L R bm).
Proof.
  intros L R bm [H1 H2]. unfold bimap_insert.
  destruct (existsb (fun lr => Nat.eqb (fst lr) L || Nat.eqb (snd lr) R) bm) eqn:E; [split; assumption|].
  assert (Hn : forall lr, In lr bm -> fst lr <> L /\ snd lr <> R).
  { intros lr Hin. destruct (Nat.eq_dec (fst lr) L) as [E1|E1]; [|destruct (Nat.eq_dec (snd lr) R) as [E2|E2]; [|tauto]].
    - exfalso. assert (Hex : existsb (fun lr => Nat.eqb (fst lr) L || Nat.eqb (snd lr) R) bm = true).
      { apply existsb_exists. exists lr. split; [exact Hin|]. apply orb_true_iff. left. apply Nat.eqb_eq. exact E1. }
      congruence.
    - exfalso. assert (Hex : existsb (fun lr => Nat.eqb (fst lr) L || Nat.eqb (snd lr) R) bm = true).
      { apply existsb_exists. exists lr. split; [exact Hin|]. apply orb_true_iff. right. apply Nat.eqb_eq. exact E2. }
      congruence. }
  split; rewrite map_app; cbn [map fst snd]; apply NoDup_snoc; try assumption.
  - intro Hin. apply in_map_iff in Hin. destruct Hin as [lr [E1 Hin]]. destruct (Hn lr Hin). congruence.
  - intro Hin. apply in_map_iff in Hin. destruct Hin as [lr [E1 Hin]]. destruct (Hn lr Hin). congruence.
Qed.

(** whatever mapsTo returns -- i.e. for ANY classification, sound or not, and any operator *)
Lemma prepare_loop_bimap_wf : forall mapsTo l f0 f, bimap_wf (fo_bimap f0) ->
  prepare_loop mapsTo l f0 = Done f -> bimap_wf (fo_bimap f).
Proof.
  intros mapsTo l. induction l as [|R l IH]; intros f0 f Hwf E; cbn [prepare_loop] in E.
  - inversion E; subst. exact Hwf.
  - unfold prepare_step in E. destruct (mapsTo R) as [o| | | |]; try discriminate. cbn [bind] in E.
    destruct o as [L|]; cbn [bind] in E.
    + apply (IH _ f) in E; [exact E|]. cbn [fo_bimap]. apply bimap_insert_wf. exact Hwf.
    + apply (IH _ f) in E; [exact E|exact Hwf].
Qed.

Section AnyRing.
Variable K : Type.
Variables (kadd : K -> K -> K) (kopp : K -> K) (kzero : K -> bool).
Theorem prepare_bimap_wf : forall N (c : qclass K) (O : poly K) f,
  prepare K kadd kopp kzero N c O = Done f -> bimap_wf (fo_bimap f).
Proof.
  intros N c O f E. unfold prepare in E. eapply prepare_loop_bimap_wf; [|exact E].
  split; constructor.
Qed.
End AnyRing.

(** insertion sort: same elements, keys non-decreasing *)
Lemma ins_by_In : forall (A : Type) (key : A -> nat) x y l, In y (ins_by key x l) <-> y = x \/ In y l.
Proof.
  intros A key x y l. induction l as [|z t IH]; cbn [ins_by].
  - cbn [In]. intuition.
  - destruct (key x <=? key z); cbn [In]; [intuition|]. rewrite IH. intuition.
Qed.
Lemma sort_by_In : forall (A : Type) (key : A -> nat) y l, In y (sort_by key l) <-> In y l.
Proof.
  intros A key y l. unfold sort_by. induction l as [|x l IH]; cbn [fold_right]; [tauto|].
  rewrite ins_by_In, IH. cbn [In]. intuition.
Qed.

Fixpoint key_sorted {A} (key : A -> nat) (l : list A) : Prop :=
  match l with
  | [] => True
  | x :: r => (forall y, In y r -> key x <= key y) /\ key_sorted key r
  end.
Lemma ins_by_sorted : forall (A : Type) (key : A -> nat) x l, key_sorted key l -> key_sorted key (ins_by key x l).
Proof.
  intros A key x l. induction l as [|z t IH]; intro Hs; cbn [ins_by].
  - cbn. split; [intros y []|exact I].
  - destruct Hs as [Hz Ht]. destruct (key x <=? key z) eqn:E.
    + apply Nat.leb_le in E. cbn [key_sorted]. split; [|split; assumption].
      intros y [->|Hy]; [exact E|]. specialize (Hz y Hy). lia.
    + apply Nat.leb_gt in E. cbn [key_sorted]. split; [|apply IH; exact Ht].
      intros y Hy. apply ins_by_In in Hy. destruct Hy as [->|Hy]; [lia|apply Hz; exact Hy].
Qed.
Lemma sort_by_sorted : forall (A : Type) (key : A -> nat) l, key_sorted key (sort_by key l).
Proof.
  intros A key l. unfold sort_by. induction l as [|x l IH]; cbn [fold_right]; [exact I|].
  apply ins_by_sorted. exact IH.
Qed.

Lemma ins_by_keys_nodup : forall (A : Type) (key : A -> nat) x l,
  NoDup (map key l) -> ~ In (key x) (map key l) -> NoDup (map key (ins_by key x l)).
Proof.
  intros A key x l. induction l as [|z t IH]; intros Hnd Hx; cbn [ins_by map].
  - constructor; [tauto|constructor].
  - destruct (key x <=? key z); cbn [map]; [constructor; assumption|].
    inversion Hnd as [|a b Hz Ht]; subst. constructor.
    + intro Hin. apply in_map_iff in Hin. destruct Hin as [y [E Hy]]. apply ins_by_In in Hy.
      destruct Hy as [->|Hy]; [apply Hx; left; congruence|]. apply Hz. rewrite <- E. apply in_map. exact Hy.
    + apply IH; [exact Ht|]. intro Hin. apply Hx. right. exact Hin.
Qed.
Lemma sort_by_keys_nodup : forall (A : Type) (key : A -> nat) l, NoDup (map key l) -> NoDup (map key (sort_by key l)).
Proof.
  intros A key l. unfold sort_by. induction l as [|x l IH]; intro Hnd; cbn [fold_right map]; [constructor|].
  inversion Hnd as [|a b Hx Hl]; subst. apply ins_by_keys_nodup; [apply IH; exact Hl|].
  intro Hin. apply Hx. apply in_map_iff in Hin. destruct Hin as [y [E Hy]]. apply sort_by_In in Hy.
  rewrite <- E. apply in_map. exact Hy.
Qed.

Lemma key_sorted_strict : forall (l : list (nat * nat)), key_sorted fst l -> NoDup (map fst l) -> ksorted l.
Proof.
  induction l as [|x r IH]; intros Hs Hnd; [exact I|]. destruct Hs as [Hx Hr].
  inversion Hnd as [|a b Hxn Hrn]; subst. cbn [ksorted]. split; [|apply IH; assumption].
  intros y Hy. specialize (Hx y Hy). assert (fst x <> fst y); [|lia].
  intro E. apply Hxn. rewrite E. apply in_map. exact Hy.
Qed.

Definition swap (lr : nat * nat) : nat * nat := (snd lr, fst lr).

(** C.getBlockMapping().left: (left, right) in increasing left *)
Lemma left_view_ksorted : forall bm, bimap_wf bm -> ksorted (left_view bm).
Proof.
  intros bm [H1 _]. unfold left_view. apply key_sorted_strict; [apply sort_by_sorted|apply sort_by_keys_nodup; exact H1].
Qed.
(** CX.getBlockMapping().right, read as (right, left): in increasing right *)
Lemma right_view_ksorted : forall bm, bimap_wf bm -> ksorted (map swap (right_view bm)).
Proof.
  intros bm [_ H2]. unfold right_view. apply key_sorted_strict.
  - pose proof (sort_by_sorted _ snd bm) as Hs. induction (sort_by snd bm) as [|x r IH]; [exact I|].
    destruct Hs as [Hx Hr]. cbn [map key_sorted]. split; [|apply IH; exact Hr].
    intros y Hy. apply in_map_iff in Hy. destruct Hy as [z [<- Hz]]. cbn. apply Hx. exact Hz.
  - rewrite map_map. cbn [swap fst]. apply sort_by_keys_nodup. exact H2.
Qed.

(** * 2. GreensFunction::prepare / Susceptibility::prepare on prepared operators *)

(** The walk over the two views, as modelled for property C01 (PV.GFPart.stripes), run on the bimaps of
    two prepared operators: it terminates within its fuel and selects (L, R) iff C maps L <- R and CX maps
    R <- L -- for ANY two bimaps that prepare() can produce. *)
Theorem gf_stripes_select : forall bmC bmCX, bimap_wf bmC -> bimap_wf bmCX ->
  let cl := left_view bmC in let cxr := map swap (right_view bmCX) in
  exists sel, stripes (stripes_fuel cl cxr) cl cxr = Some sel /\
    forall L R, In (L, R) sel <-> In (L, R) bmC /\ In (R, L) bmCX.
Proof.
  intros bmC bmCX HC HCX. cbn zeta.
  exists (stripes_spec (left_view bmC) (map swap (right_view bmCX))). split.
  - apply gf_stripes_complete; [apply left_view_ksorted; exact HC|apply right_view_ksorted; exact HCX|].
    unfold stripes_fuel. lia.
  - intros L R. rewrite in_stripes_spec. unfold left_view, right_view. rewrite sort_by_In.
    rewrite in_map_iff. split.
    + intros [H1 [[a b] [E H2]]]. unfold swap in E. cbn [fst snd] in E. inversion E; subst.
      apply sort_by_In in H2. split; assumption.
    + intros [H1 H2]. split; [exact H1|]. exists (R, L). split; [reflexivity|]. apply sort_by_In. exact H2.
Qed.

Section Sound.
Variable K : Type.
Variables (k0 k1 : K) (kadd kmul ksub : K -> K -> K) (kopp : K -> K).
Variable kzero : K -> bool.
Hypothesis Hring : ring_ok K k0 k1 kadd kmul ksub kopp kzero.
Hypothesis H10 : k1 <> k0.

Let Rth := proj1 Hring.
Add Ring KringPI : Rth.

Local Notation in_range := (poly_in_range K).
Local Notation uniform_shift := (uniform_shift K k0 k1 kadd kmul kopp).
Local Notation sc_compute := (sc_compute K k0 kadd ksub kopp kzero).
Local Notation prepare := (prepare K kadd kopp kzero).
Local Notation ksum := (@ksum K k0 kadd _).

Variables (N : nat) (ops : list (poly K)) (c : qclass K).
Hypothesis Hr : Forall (in_range N) ops.
Hypothesis Hu : Forall (uniform_shift N) ops.
Hypothesis Ec : sc_compute N ops = Done c.

Definition blk (s : nat) : nat := nth s (sc_sbi c) 0.
(** the operator o has a non-vanishing matrix element from some state of block R into block L *)
Definition connects (o : fop_kind) (L R : nat) : Prop :=
  R < numberOfBlocks c /\
  exists s sg t, In s (nth R (sc_blocks c) []) /\
                 act_mono (fop_mono o) (state_of_nat N s) = Done (Some (sg, t)) /\ blk (nat_of_state t) = L.

(** the stripes selected for G_ij are exactly the block pairs (L, R) with c_i : L <- R and c^+_j : R <- L *)
Theorem gf_stripes_exact : forall i j, i < N -> j < N ->
  exists fC fCX sel,
    prepare N c (fop_poly K k1 (FC i)) = Done fC /\ prepare N c (fop_poly K k1 (FCdag j)) = Done fCX /\
    (let cl := left_view (fo_bimap fC) in let cxr := map swap (right_view (fo_bimap fCX)) in
     stripes (stripes_fuel cl cxr) cl cxr = Some sel) /\
    forall L R, In (L, R) sel <-> connects (FC i) L R /\ connects (FCdag j) R L.
Proof.
  intros i j Hi Hj.
  destruct (single_target K k0 k1 kadd kmul ksub kopp kzero Hring H10 N ops c (FC i) Hr Hu Hi Ec) as [_ [fC [EC [_ HC]]]].
  destruct (single_target K k0 k1 kadd kmul ksub kopp kzero Hring H10 N ops c (FCdag j) Hr Hu Hj Ec) as [_ [fCX [ECX [_ HCX]]]].
  destruct (gf_stripes_select (fo_bimap fC) (fo_bimap fCX)
              (prepare_bimap_wf K kadd kopp kzero _ _ _ _ EC) (prepare_bimap_wf K kadd kopp kzero _ _ _ _ ECX)) as [sel [Es Hsel]].
  exists fC, fCX, sel. split; [exact EC|]. split; [exact ECX|]. split; [exact Es|].
  intros L R. rewrite Hsel, HC, HCX. unfold connects, blk. tauto.
Qed.

(** EnsembleAverage::prepare (EnsembleAverage.cpp:21-39): the diagonal entries of the left view whose
    block is retained *)
Definition avg_select (retained : nat -> bool) (bm : bimap) : list (nat * nat) :=
  filter (fun lr => Nat.eqb (fst lr) (snd lr) && retained (fst lr)) (left_view bm).

Theorem avg_stripes_complete : forall retained i j, i < N -> j < N ->
  exists fA, prepare N c (fop_poly K k1 (FQuad i j)) = Done fA /\
    forall L R, In (L, R) (avg_select retained (fo_bimap fA)) <->
                (L = R /\ retained L = true /\ connects (FQuad i j) L L).
Proof.
  intros retained i j Hi Hj.
  destruct (single_target K k0 k1 kadd kmul ksub kopp kzero Hring H10 N ops c (FQuad i j) Hr Hu (conj Hi Hj) Ec) as [_ [fA [EA [_ HA]]]].
  exists fA. split; [exact EA|]. intros L R. unfold avg_select, left_view.
  rewrite filter_In, sort_by_In, HA, andb_true_iff, Nat.eqb_eq. cbn [fst snd]. unfold connects, blk. split.
  - intros [H1 [H2 H3]]. subst R. tauto.
  - intros [H1 [H2 H3]]. subst R. tauto.
Qed.

(** * 3. Regrouping sums by blocks *)

Let I : SInv K k0 k1 kadd kmul kopp N ops c := sc_compute_inv K k0 k1 kadd kmul ksub kopp kzero Hring N ops c Hr Ec.

Lemma ksum_classify : forall (l : list nat) (beta : nat -> nat) (nb : nat) (g : nat -> K),
  (forall s, In s l -> beta s < nb) ->
  ksum l g = ksum (seq 0 nb) (fun b => ksum (filter (fun s => Nat.eqb (beta s) b) l) g).
Proof.
  intros l beta nb g. induction l as [|s l IH]; intro Hb.
  - symmetry. apply (ksum_zero_ext K k0 k1 kadd kmul ksub kopp kzero Hring). intros b _. reflexivity.
  - rewrite (ksum_cons K k0 kadd), IH by (intros x Hx; apply Hb; right; exact Hx).
    transitivity (kadd (ksum (seq 0 nb) (fun b => if Nat.eqb (beta s) b then g s else k0))
                       (ksum (seq 0 nb) (fun b => ksum (filter (fun s0 => Nat.eqb (beta s0) b) l) g))).
    + f_equal. symmetry. rewrite (ksum_single K k0 k1 kadd kmul ksub kopp kzero Hring _ _ (beta s)).
      * rewrite Nat.eqb_refl. reflexivity.
      * apply seq_NoDup.
      * apply in_seq. specialize (Hb s (or_introl eq_refl)). lia.
      * intros b _ Hne. destruct (Nat.eqb (beta s) b) eqn:E; [apply Nat.eqb_eq in E; congruence|reflexivity].
    + rewrite <- (ksum_add K k0 k1 kadd kmul ksub kopp kzero Hring). apply (ksum_ext K k0 kadd). intros b _.
      cbn [filter]. destruct (Nat.eqb (beta s) b); [rewrite (ksum_cons K k0 kadd); reflexivity|ring].
Qed.

(** a sum over 0..nb-1 of a function that vanishes outside a duplicate-free list = the sum over the list *)
Lemma ksum_support1 : forall (nb : nat) (F : nat -> K) (sel : list nat),
  NoDup sel -> (forall b, In b sel -> b < nb) -> (forall b, b < nb -> ~ In b sel -> F b = k0) ->
  ksum (seq 0 nb) F = ksum sel F.
Proof.
  intros nb F sel. revert F. induction sel as [|b sel IH]; intros F Hnd Hsel HF.
  - rewrite (ksum_nil K k0 kadd). apply (ksum_zero_ext K k0 k1 kadd kmul ksub kopp kzero Hring).
    intros x Hx. apply in_seq in Hx. apply HF; [lia|tauto].
  - inversion Hnd as [|a r Hb Hr']; subst. rewrite (ksum_cons K k0 kadd).
    transitivity (kadd (F b) (ksum sel (fun x => if Nat.eqb x b then k0 else F x))).
    2:{ f_equal. apply (ksum_ext K k0 kadd). intros x Hx. destruct (Nat.eqb x b) eqn:E; [|reflexivity].
        apply Nat.eqb_eq in E. subst. contradiction. }
    rewrite <- (IH (fun x => if Nat.eqb x b then k0 else F x) Hr').
    + transitivity (kadd (ksum (seq 0 nb) (fun x => if Nat.eqb x b then F b else k0))
                         (ksum (seq 0 nb) (fun x => if Nat.eqb x b then k0 else F x))).
      * rewrite <- (ksum_add K k0 k1 kadd kmul ksub kopp kzero Hring). apply (ksum_ext K k0 kadd). intros x _.
        destruct (Nat.eqb x b) eqn:E; [apply Nat.eqb_eq in E; subst; ring|ring].
      * f_equal. rewrite (ksum_single K k0 k1 kadd kmul ksub kopp kzero Hring _ _ b).
        -- rewrite Nat.eqb_refl. reflexivity.
        -- apply seq_NoDup.
        -- apply in_seq. specialize (Hsel b (or_introl eq_refl)). lia.
        -- intros x _ Hne. destruct (Nat.eqb x b) eqn:E; [apply Nat.eqb_eq in E; congruence|reflexivity].
    + intros x Hx. apply Hsel. right; exact Hx.
    + intros x Hx Hn. destruct (Nat.eqb x b) eqn:E; [reflexivity|]. apply HF; [exact Hx|].
      intros [->|Hin]; [rewrite Nat.eqb_refl in E; discriminate|contradiction].
Qed.

Lemma ksum_support2 : forall (nb : nat) (F : nat -> nat -> K) (sel : list (nat * nat)),
  NoDup sel -> (forall L R, In (L, R) sel -> L < nb /\ R < nb) ->
  (forall L R, L < nb -> R < nb -> ~ In (L, R) sel -> F L R = k0) ->
  ksum (seq 0 nb) (fun L => ksum (seq 0 nb) (fun R => F L R)) = ksum sel (fun LR => F (fst LR) (snd LR)).
Proof.
  intros nb F sel. revert F. induction sel as [|[L0 R0] sel IH]; intros F Hnd Hsel HF.
  - rewrite (ksum_nil K k0 kadd). apply (ksum_zero_ext K k0 k1 kadd kmul ksub kopp kzero Hring). intros L HL.
    apply (ksum_zero_ext K k0 k1 kadd kmul ksub kopp kzero Hring). intros R HR.
    apply in_seq in HL. apply in_seq in HR. apply HF; [lia|lia|tauto].
  - inversion Hnd as [|a r Hb Hr']; subst. rewrite (ksum_cons K k0 kadd). cbn [fst snd].
    destruct (Hsel L0 R0 (or_introl eq_refl)) as [HL0 HR0].
    transitivity (kadd (F L0 R0) (ksum sel (fun LR => if Nat.eqb (fst LR) L0 && Nat.eqb (snd LR) R0 then k0 else F (fst LR) (snd LR)))).
    2:{ f_equal. apply (ksum_ext K k0 kadd). intros [L R] Hin. cbn [fst snd].
        destruct (Nat.eqb L L0 && Nat.eqb R R0) eqn:E; [|reflexivity].
        apply andb_true_iff in E. destruct E as [E1 E2]. apply Nat.eqb_eq in E1. apply Nat.eqb_eq in E2. subst. contradiction. }
    rewrite <- (IH (fun L R => if Nat.eqb L L0 && Nat.eqb R R0 then k0 else F L R) Hr'
                  (fun L R HLR => Hsel L R (or_intror HLR))).
    + transitivity (kadd (ksum (seq 0 nb) (fun L => ksum (seq 0 nb) (fun R => if Nat.eqb L L0 && Nat.eqb R R0 then F L0 R0 else k0)))
                         (ksum (seq 0 nb) (fun L => ksum (seq 0 nb) (fun R => if Nat.eqb L L0 && Nat.eqb R R0 then k0 else F L R)))).
      * rewrite <- (ksum_add K k0 k1 kadd kmul ksub kopp kzero Hring). apply (ksum_ext K k0 kadd). intros L _.
        rewrite <- (ksum_add K k0 k1 kadd kmul ksub kopp kzero Hring). apply (ksum_ext K k0 kadd). intros R _.
        destruct (Nat.eqb L L0) eqn:E1; destruct (Nat.eqb R R0) eqn:E2; cbn [andb]; try ring.
        apply Nat.eqb_eq in E1. apply Nat.eqb_eq in E2. subst. ring.
      * f_equal. rewrite (ksum_single K k0 k1 kadd kmul ksub kopp kzero Hring _ _ L0).
        -- rewrite (ksum_single K k0 k1 kadd kmul ksub kopp kzero Hring _ _ R0).
           ++ rewrite !Nat.eqb_refl. reflexivity.
           ++ apply seq_NoDup.
           ++ apply in_seq. lia.
           ++ intros R _ Hne. rewrite Nat.eqb_refl. cbn [andb].
              destruct (Nat.eqb R R0) eqn:E; [apply Nat.eqb_eq in E; congruence|reflexivity].
        -- apply seq_NoDup.
        -- apply in_seq. lia.
        -- intros L _ Hne. apply (ksum_zero_ext K k0 k1 kadd kmul ksub kopp kzero Hring). intros R _.
           destruct (Nat.eqb L L0) eqn:E; [apply Nat.eqb_eq in E; congruence|reflexivity].
    + intros L R HL HR Hn. destruct (Nat.eqb L L0 && Nat.eqb R R0) eqn:E; [reflexivity|]. apply HF; [exact HL|exact HR|].
      intros [Heq|Hin]; [|contradiction]. inversion Heq; subst. rewrite !Nat.eqb_refl in E. discriminate.
Qed.

(** sum over all Fock states = sum over blocks of the sum over the block's states *)
Theorem blocks_sum_eq_full : forall g : nat -> K,
  ksum (seq 0 (Nat.pow 2 N)) g =
  ksum (seq 0 (numberOfBlocks c)) (fun b => ksum (nth b (sc_blocks c) []) g).
Proof.
  intros g. unfold SInv in I.
  rewrite (ksum_classify (seq 0 (Nat.pow 2 N)) blk (numberOfBlocks c) g).
  - apply (ksum_ext K k0 kadd). intros b Hb. apply in_seq in Hb.
    rewrite (inv_blocks _ _ _ _ _ I b) by (unfold numberOfBlocks in Hb; lia). reflexivity.
  - intros s Hs. apply in_seq in Hs. apply (block_lt _ _ _ _ _ I). lia.
Qed.

(** if g vanishes outside the selected blocks, the sum over the selected blocks is the full sum *)
Theorem selected_blocks_sum_eq_full : forall (g : nat -> K) (sel : list nat),
  NoDup sel -> (forall b, In b sel -> b < numberOfBlocks c) ->
  (forall s, s < Nat.pow 2 N -> ~ In (blk s) sel -> g s = k0) ->
  ksum (seq 0 (Nat.pow 2 N)) g = ksum sel (fun b => ksum (nth b (sc_blocks c) []) g).
Proof.
  intros g sel Hnd Hsel Hz. rewrite blocks_sum_eq_full. unfold SInv in I.
  set (F := fun b => ksum (nth b (sc_blocks c) []) g).
  assert (HF : forall b, b < numberOfBlocks c -> ~ In b sel -> F b = k0).
  { intros b Hb Hn. unfold F. apply (ksum_zero_ext K k0 k1 kadd kmul ksub kopp kzero Hring). intros s Hs.
    apply (in_block_iff _ _ _ _ _ I b s Hb) in Hs. destruct Hs as [Hs E]. apply Hz; [exact Hs|]. unfold blk. rewrite E. exact Hn. }
  apply ksum_support1; assumption.
Qed.

(** the same for double sums and stripes: if f(t, s) vanishes unless (block of t, block of s) is a
    selected stripe, the stripe-wise double sum is the full double sum over pairs of Fock states *)
Theorem stripes_sum_eq_full : forall (f : nat -> nat -> K) (sel : list (nat * nat)),
  NoDup sel -> (forall L R, In (L, R) sel -> L < numberOfBlocks c /\ R < numberOfBlocks c) ->
  (forall t s, t < Nat.pow 2 N -> s < Nat.pow 2 N -> ~ In (blk t, blk s) sel -> f t s = k0) ->
  ksum (seq 0 (Nat.pow 2 N)) (fun t => ksum (seq 0 (Nat.pow 2 N)) (fun s => f t s)) =
  ksum sel (fun LR => ksum (nth (fst LR) (sc_blocks c) []) (fun t => ksum (nth (snd LR) (sc_blocks c) []) (fun s => f t s))).
Proof.
  intros f sel Hnd Hsel Hz. unfold SInv in I.
  set (nb := numberOfBlocks c). set (size := Nat.pow 2 N).
  set (F := fun L R => ksum (nth L (sc_blocks c) []) (fun t => ksum (nth R (sc_blocks c) []) (fun s => f t s))).
  (* full sum = sum over all (L, R) of F L R *)
  transitivity (ksum (seq 0 nb) (fun L => ksum (seq 0 nb) (fun R => F L R))).
  { rewrite blocks_sum_eq_full. apply (ksum_ext K k0 kadd). intros L _. unfold F.
    transitivity (ksum (nth L (sc_blocks c) []) (fun t => ksum (seq 0 nb) (fun R => ksum (nth R (sc_blocks c) []) (fun s => f t s)))).
    - apply (ksum_ext K k0 kadd). intros t _. apply blocks_sum_eq_full.
    - apply (ksum_swap K k0 k1 kadd kmul ksub kopp kzero Hring). }
  assert (HF : forall L R, L < nb -> R < nb -> ~ In (L, R) sel -> F L R = k0).
  { intros L R HL HR Hn. unfold F. apply (ksum_zero_ext K k0 k1 kadd kmul ksub kopp kzero Hring). intros t Ht.
    apply (ksum_zero_ext K k0 k1 kadd kmul ksub kopp kzero Hring). intros s Hs.
    apply (in_block_iff _ _ _ _ _ I L t HL) in Ht. apply (in_block_iff _ _ _ _ _ I R s HR) in Hs.
    destruct Ht as [Ht Et]. destruct Hs as [Hs Es]. apply Hz; [exact Ht|exact Hs|]. unfold blk. rewrite Et, Es. exact Hn. }
  apply (ksum_support2 nb F sel Hnd Hsel HF).
Qed.

End Sound.
