(** C18 -- proofs about the model PV.Index of IndexClassification.

    Layers
    1. generic: [info_eqb], the association map, [for_range] (invariant rule, splitting);
    2. refinement: the imperative enumeration (vector + running counter, bounds-checked writes)
       writes exactly the functional enumeration [enum fixed order_spins ss], front to back;
    3. the functional enumeration: members = valid triples, no duplicates, length = sum;
       effect of the `break` (fixed = false): equal to the repaired enumeration iff the spin
       counts are non-increasing along the site order (orbital counts >= 1);
    4. the table returned by [prepare]: characterisation, then the C18 theorems;
    5. relabelling / re-ordering / switching the mode: the induced index map is a bijection.

    No axioms are used. *)
Require Import Bool List Arith Lia Permutation.
Require Strings.String Strings.Ascii.
From PV Require Import Outcome Index.
Import ListNotations.

(** * 1. Generic lemmas *)

Lemma info_eqb_spec (a b : info) : reflect (a = b) (info_eqb a b).
Proof.
  destruct a as [[la oa] za], b as [[lb ob] zb]. unfold info_eqb, info_label, info_orb, info_spin.
  cbn [fst snd].
  destruct (String.eqb_spec la lb) as [El|El]; cbn [andb];
    [destruct (Nat.eqb_spec oa ob) as [Eo|Eo]; cbn [andb];
     [destruct (Nat.eqb_spec za zb) as [Ez|Ez]|]|];
    constructor; congruence.
Qed.

Lemma info_eqb_refl (a : info) : info_eqb a a = true.
Proof. destruct (info_eqb_spec a a) as [_|N]; [reflexivity|congruence]. Qed.

Lemma map_find_set (y x : info) (i : nat) (m : imap) :
  map_find y (map_set x i m) = if info_eqb y x then Some i else map_find y m.
Proof.
  induction m as [|[k v] t IH]; cbn [map_set map_find].
  - reflexivity.
  - destruct (info_eqb_spec x k) as [Exk|Nxk]; cbn [map_find].
    + subst k. destruct (info_eqb y x); reflexivity.
    + destruct (info_eqb_spec y k) as [Eyk|Nyk].
      * subst k. destruct (info_eqb_spec y x) as [Eyx|_]; [congruence|reflexivity].
      * exact IH.
Qed.

Lemma bind_assoc {A B C : Type} (x : outcome A) (f : A -> outcome B) (g : B -> outcome C) :
  bind (bind x f) g = bind x (fun a => bind (f a) g).
Proof. destruct x; reflexivity. Qed.

(** invariant rule for the counted loop *)
Lemma for_range_inv {St : Type} (P : nat -> St -> Prop) (body : nat -> St -> outcome St) :
  forall (n lo : nat) (st : St),
  P lo st ->
  (forall i s, lo <= i < lo + n -> P i s -> exists s', body i s = Done s' /\ P (S i) s') ->
  exists s', for_range n lo body st = Done s' /\ P (lo + n) s'.
Proof.
  induction n as [|n IH]; intros lo st HP Hb.
  - exists st. rewrite Nat.add_0_r. split; [reflexivity|exact HP].
  - cbn [for_range]. destruct (Hb lo st) as [s1 [E1 P1]]; [lia|exact HP|].
    rewrite E1. cbn [bind].
    destruct (IH (S lo) s1 P1) as [s' [E' P']].
    + intros i s Hi. apply Hb. lia.
    + exists s'. split; [exact E'|]. replace (lo + S n) with (S lo + n) by lia. exact P'.
Qed.

Lemma for_range_app {St : Type} (body : nat -> St -> outcome St) :
  forall (a b lo : nat) (st : St),
  for_range (a + b) lo body st = bind (for_range a lo body st) (for_range b (lo + a) body).
Proof.
  induction a as [|a IH]; intros b lo st.
  - cbn [for_range plus bind]. rewrite Nat.add_0_r. reflexivity.
  - cbn [for_range plus]. rewrite bind_assoc.
    destruct (body lo st) as [s1| | |c|]; cbn [bind]; try reflexivity.
    rewrite IH. replace (S lo + a) with (lo + S a) by lia. reflexivity.
Qed.

Lemma flat_map_singleton {A B : Type} (f : A -> B) (l : list A) :
  flat_map (fun x => [f x]) l = map f l.
Proof. induction l as [|a l IH]; cbn; [reflexivity|rewrite IH; reflexivity]. Qed.

Lemma flat_map_length_const {A B : Type} (f : A -> list B) (c : nat) (l : list A) :
  (forall x, In x l -> length (f x) = c) -> length (flat_map f l) = length l * c.
Proof.
  induction l as [|a l IH]; intros H; cbn [flat_map length].
  - reflexivity.
  - rewrite app_length, H by (left; reflexivity).
    rewrite IH by (intros x Hx; apply H; right; exact Hx). lia.
Qed.

Lemma NoDup_app_intro {A : Type} (a b : list A) :
  NoDup a -> NoDup b -> (forall x, In x a -> ~ In x b) -> NoDup (a ++ b).
Proof.
  induction a as [|h t IH]; intros Ha Hb Hd; cbn [app].
  - exact Hb.
  - inversion Ha as [|h' t' Hnin Ht]; subst. constructor.
    + intros Hin. apply in_app_or in Hin. destruct Hin as [Hin|Hin].
      * exact (Hnin Hin).
      * exact (Hd h (or_introl eq_refl) Hin).
    + apply IH; [exact Ht|exact Hb|]. intros x Hx. apply Hd. right. exact Hx.
Qed.

(** no duplicates in a concatenation of groups, when every element remembers (through [key])
    which group it came from and the groups have distinct tags *)
Lemma NoDup_flat_map_key {A B K : Type} (g : A -> K) (key : B -> K) (f : A -> list B) (l : list A) :
  NoDup (map g l) ->
  (forall x, In x l -> NoDup (f x)) ->
  (forall x y, In x l -> In y (f x) -> key y = g x) ->
  NoDup (flat_map f l).
Proof.
  induction l as [|a l IH]; intros Hg Hf Hk; cbn [flat_map].
  - constructor.
  - cbn [map] in Hg. inversion Hg as [|ga gl Hnin Hgl]; subst.
    apply NoDup_app_intro.
    + apply Hf. left. reflexivity.
    + apply IH; [exact Hgl| |].
      * intros x Hx. apply Hf. right. exact Hx.
      * intros x y Hx Hy. apply (Hk x y); [right; exact Hx|exact Hy].
    + intros y Hya Hyl. apply in_flat_map in Hyl. destruct Hyl as [x [Hx Hyx]].
      apply Hnin. rewrite <- (Hk a y (or_introl eq_refl) Hya).
      rewrite (Hk x y (or_intror Hx) Hyx). apply in_map. exact Hx.
Qed.

Lemma NoDup_map_inj {A B : Type} (f : A -> B) (l : list A) :
  (forall x y, f x = f y -> x = y) -> NoDup l -> NoDup (map f l).
Proof.
  intros Hinj. induction 1 as [|a l Hnin Hl IH]; cbn [map]; constructor.
  - intros Hin. apply in_map_iff in Hin. destruct Hin as [x [E Hx]].
    apply Hinj in E. subst x. exact (Hnin Hx).
  - exact IH.
Qed.

(** * 2. The loops write the functional enumeration *)

(** the enumeration state in which the entries [pre] have been written, in this order from
    position 0, and [k] null entries remain *)
Definition wf_state (pre : list info) (k : nat) : estate :=
  (map Some pre ++ repeat None k, length pre).

(** [f] appends exactly the entries [l] whenever there is room for them *)
Definition emits (f : estate -> outcome estate) (l : list info) : Prop :=
  forall pre k, f (wf_state pre (length l + k)) = Done (wf_state (pre ++ l) k).

Lemma vec_set_app (a : vec) (y : option info) (b : vec) (x : info) :
  vec_set (a ++ y :: b) (length a) x = a ++ Some x :: b.
Proof. induction a as [|h t IH]; cbn [app length vec_set]; [reflexivity|rewrite IH; reflexivity]. Qed.

Lemma emits_emit (l : label) (i z : nat) : emits (emit l i z) [(l, i, z)].
Proof.
  intros pre k. unfold emit, wf_state. cbn [fst snd length plus repeat].
  unfold vec_write.
  assert (Hlt : (length pre <? length (map Some pre ++ None :: repeat None k)) = true).
  { apply Nat.ltb_lt. rewrite app_length, map_length. cbn [length]. lia. }
  rewrite Hlt. cbn [bind].
  rewrite <- (map_length (@Some info) pre) at 1. rewrite vec_set_app.
  rewrite map_app, <- app_assoc, app_length. cbn [map app length].
  rewrite Nat.add_1_r. reflexivity.
Qed.

Lemma emits_nil : emits (fun st => Done st) [].
Proof. intros pre k. cbn [length plus]. rewrite app_nil_r. reflexivity. Qed.

Lemma emits_seq (f : estate -> outcome estate) (g : estate -> outcome estate) (l1 l2 : list info) :
  emits f l1 -> emits g l2 -> emits (fun st => bind (f st) g) (l1 ++ l2).
Proof.
  intros Hf Hg pre k. rewrite app_length, <- Nat.add_assoc, Hf. cbn [bind].
  rewrite Hg, app_assoc. reflexivity.
Qed.

Lemma emits_for_range (body : nat -> estate -> outcome estate) (items : nat -> list info) :
  (forall j, emits (body j) (items j)) ->
  forall n lo, emits (for_range n lo body) (flat_map items (seq lo n)).
Proof.
  intros Hb. induction n as [|n IH]; intros lo.
  - exact emits_nil.
  - exact (emits_seq (body lo) (for_range n (S lo) body) (items lo) _ (Hb lo) (IH (S lo))).
Qed.

(** the functional enumerations *)

(** site-major: one site's entries, orbital outer, spin inner (cpp:63-68) *)
Definition site_items (s : site) : list info :=
  flat_map (fun i => map (fun z => (s_label s, i, z)) (seq 0 (s_spin s))) (seq 0 (s_orb s)).

Definition enum_site_major (ss : list site) : list info := flat_map site_items ss.

(** spin-major: one site's entries for a given spin z (cpp:54-57) *)
Definition site_items_z (z : nat) (s : site) : list info :=
  map (fun i => (s_label s, i, z)) (seq 0 (s_orb s)).

(** spin-major: the site loop for a given z, with `break` (fixed = false) or `continue` *)
Fixpoint enum_sites_z (fixed : bool) (z : nat) (ss : list site) : list info :=
  match ss with
  | [] => []
  | s :: r =>
    if s_spin s <=? z then (if fixed then enum_sites_z fixed z r else [])
    else site_items_z z s ++ enum_sites_z fixed z r
  end.

Definition enum_spin_major (fixed : bool) (ss : list site) : list info :=
  flat_map (fun z => enum_sites_z fixed z ss) (seq 0 (max_spin ss)).

Definition enum (fixed order_spins : bool) (ss : list site) : list info :=
  if order_spins then enum_spin_major fixed ss else enum_site_major ss.

Lemma emits_site_major (ss : list site) : emits (site_major ss) (enum_site_major ss).
Proof.
  induction ss as [|s r IH].
  - exact emits_nil.
  - unfold enum_site_major. cbn [flat_map site_major].
    apply (emits_seq _ (site_major r) (site_items s) _); [|exact IH].
    unfold site_items. apply emits_for_range. intros i.
    rewrite <- flat_map_singleton. apply emits_for_range. intros z. apply emits_emit.
Qed.

Lemma emits_site_items_z (z : nat) (s : site) :
  emits (for_range (s_orb s) 0 (fun i => emit (s_label s) i z)) (site_items_z z s).
Proof.
  unfold site_items_z. rewrite <- flat_map_singleton. apply emits_for_range.
  intros i. apply emits_emit.
Qed.

Lemma emits_sites_z (fixed : bool) (z : nat) (ss : list site) :
  emits (spin_major_sites fixed z ss) (enum_sites_z fixed z ss).
Proof.
  induction ss as [|s r IH].
  - exact emits_nil.
  - cbn [spin_major_sites enum_sites_z]. destruct (s_spin s <=? z) eqn:Ez.
    + destruct fixed; [exact IH|exact emits_nil].
    + exact (emits_seq _ (spin_major_sites fixed z r) _ _ (emits_site_items_z z s) IH).
Qed.

Lemma emits_spin_major (fixed : bool) (ss : list site) :
  emits (spin_major fixed ss) (enum_spin_major fixed ss).
Proof.
  unfold spin_major, enum_spin_major. apply emits_for_range. intros z. apply emits_sites_z.
Qed.

(** the enumeration loops of prepare(), started on the all-null vector, write the functional
    enumeration and leave the rest null -- provided the vector is long enough *)
Lemma fill_vector_refines (fixed order_spins : bool) (ss : list site) (k : nat) :
  length (enum fixed order_spins ss) + k = index_total ss ->
  fill_vector fixed order_spins ss = Done (wf_state (enum fixed order_spins ss) k).
Proof.
  intros Hlen. unfold fill_vector. rewrite <- Hlen.
  change (repeat None (length (enum fixed order_spins ss) + k), 0)
    with (wf_state [] (length (enum fixed order_spins ss) + k)).
  unfold enum. destruct order_spins.
  - rewrite (emits_spin_major fixed ss [] k). reflexivity.
  - rewrite (emits_site_major ss [] k). reflexivity.
Qed.

(** the loop at cpp:72 over a vector whose first entries are [e] *)

Lemma build_step_written (e : list info) (tail : vec) (i : nat) (x : info) (m : imap) :
  nth_error e i = Some x ->
  build_step (map Some e ++ tail) i m = Done (map_set x i m).
Proof.
  intros Hx. unfold build_step, vec_deref.
  assert (Hi : i < length e) by (apply nth_error_Some; congruence).
  rewrite nth_error_app1 by (rewrite map_length; exact Hi).
  rewrite nth_error_map, Hx. reflexivity.
Qed.

Lemma build_prefix_done (e : list info) (tail : vec) :
  exists m, for_range (length e) 0 (build_step (map Some e ++ tail)) [] = Done m.
Proof.
  destruct (for_range_inv (fun _ _ => True) (build_step (map Some e ++ tail)) (length e) 0 [] I)
    as [m [E _]].
  - intros i s Hi _. destruct (nth_error e i) as [x|] eqn:Ex.
    + exists (map_set x i s). split; [apply build_step_written; exact Ex|exact I].
    + apply nth_error_None in Ex. lia.
  - exists m. exact E.
Qed.

(** with no duplicates, the finished map sends every entry to its position *)
Lemma build_prefix_char (e : list info) (tail : vec) :
  NoDup e ->
  exists m, for_range (length e) 0 (build_step (map Some e ++ tail)) [] = Done m /\
            forall x j, map_find x m = Some j <-> nth_error e j = Some x.
Proof.
  intros Hnd.
  destruct (for_range_inv
              (fun i m => forall x j, map_find x m = Some j <-> (j < i /\ nth_error e j = Some x))
              (build_step (map Some e ++ tail)) (length e) 0 []) as [m [E HP]].
  - intros x j. cbn [map_find]. split; [discriminate|intros [Hj _]; lia].
  - intros i s Hi HP. destruct (nth_error e i) as [xi|] eqn:Exi.
    2:{ apply nth_error_None in Exi. lia. }
    exists (map_set xi i s). split; [apply build_step_written; exact Exi|].
    intros x j. rewrite map_find_set. destruct (info_eqb_spec x xi) as [Exx|Nxx].
    + subst x. split.
      * intros Ej. injection Ej as Ej. subst j. split; [lia|exact Exi].
      * intros [Hj Ej]. f_equal.
        apply (proj1 (NoDup_nth_error e) Hnd i j); [lia|congruence].
    + rewrite HP. split.
      * intros [Hj Ej]. split; [lia|exact Ej].
      * intros [Hj Ej]. split; [|exact Ej].
        assert (j <> i) by (intros ->; congruence). lia.
  - exists m. split; [exact E|]. intros x j. rewrite HP. cbn [plus]. split.
    + intros [_ Ej]. exact Ej.
    + intros Ej. split; [|exact Ej]. apply nth_error_Some. congruence.
Qed.

(** a null entry makes the loop at cpp:72 dereference a null pointer *)
Lemma build_hits_null (e : list info) (k : nat) :
  for_range (length e + S k) 0 (build_step (map Some e ++ repeat None (S k))) [] = Uninit.
Proof.
  rewrite for_range_app. destruct (build_prefix_done e (repeat None (S k))) as [m E].
  rewrite E. cbn [bind plus for_range]. unfold build_step, vec_deref.
  rewrite nth_error_app2 by (rewrite map_length; lia).
  rewrite map_length, Nat.sub_diag. reflexivity.
Qed.

(** * 3. The functional enumeration *)

Lemma spin_le_max (ss : list site) (s : site) : In s ss -> s_spin s <= max_spin ss.
Proof.
  induction ss as [|h t IH]; intros Hin; [destruct Hin|].
  cbn [max_spin]. destruct Hin as [->|Hin]; [lia|]. specialize (IH Hin). lia.
Qed.

Lemma in_site_items (s : site) (x : info) :
  In x (site_items s) <->
  (info_label x = s_label s /\ info_orb x < s_orb s /\ info_spin x < s_spin s).
Proof.
  unfold site_items. rewrite in_flat_map. split.
  - intros [i [Hi Hx]]. apply in_map_iff in Hx. destruct Hx as [z [<- Hz]].
    apply in_seq in Hi. apply in_seq in Hz. cbn. split; [reflexivity|lia].
  - destruct x as [[l i] z]. cbn. intros [-> [Hi Hz]].
    exists i. split; [apply in_seq; lia|]. apply in_map_iff. exists z.
    split; [reflexivity|apply in_seq; lia].
Qed.

Lemma in_site_items_z (z : nat) (s : site) (x : info) :
  In x (site_items_z z s) <->
  (info_label x = s_label s /\ info_orb x < s_orb s /\ info_spin x = z).
Proof.
  unfold site_items_z. rewrite in_map_iff. split.
  - intros [i [<- Hi]]. apply in_seq in Hi. cbn. split; [reflexivity|lia].
  - destruct x as [[l i] z']. cbn. intros [-> [Hi ->]]. exists i.
    split; [reflexivity|apply in_seq; lia].
Qed.

Lemma in_enum_site_major (ss : list site) (x : info) :
  In x (enum_site_major ss) <-> valid ss x.
Proof.
  unfold enum_site_major, valid. rewrite in_flat_map. split.
  - intros [s [Hs Hx]]. apply in_site_items in Hx. exists s. intuition congruence.
  - intros [s [Hs [Hl [Ho Hz]]]]. exists s. split; [exact Hs|]. apply in_site_items. intuition congruence.
Qed.

(** the repaired site loop for one z visits exactly the sites that have spin z *)
Lemma in_enum_sites_z_fixed (z : nat) (ss : list site) (x : info) :
  In x (enum_sites_z true z ss) <-> (valid ss x /\ info_spin x = z).
Proof.
  induction ss as [|s r IH]; cbn [enum_sites_z].
  - split; [intros []|intros [[s [[] _]] _]].
  - destruct (Nat.leb_spec (s_spin s) z) as [Hle|Hgt].
    + rewrite IH. split.
      * intros [[s' [Hs' Hv]] Hz]. split; [|exact Hz]. exists s'. split; [right; exact Hs'|exact Hv].
      * intros [[s' [[<-|Hs'] Hv]] Hz].
        -- destruct Hv as [_ [_ Hv]]. lia.
        -- split; [|exact Hz]. exists s'. split; [exact Hs'|exact Hv].
    + rewrite in_app_iff, IH, in_site_items_z. split.
      * intros [[Hl [Ho Hz]]|[[s' [Hs' Hv]] Hz]].
        -- split; [|exact Hz]. exists s. split; [left; reflexivity|]. repeat split; [congruence|lia|lia].
        -- split; [|exact Hz]. exists s'. split; [right; exact Hs'|exact Hv].
      * intros [[s' [[<-|Hs'] [Hl [Ho Hzs]]]] Hz].
        -- left. repeat split; [congruence|lia|exact Hz].
        -- right. split; [|exact Hz]. exists s'. split; [exact Hs'|]. repeat split; assumption.
Qed.

Lemma in_enum_spin_major_fixed (ss : list site) (x : info) :
  In x (enum_spin_major true ss) <-> valid ss x.
Proof.
  unfold enum_spin_major. rewrite in_flat_map. split.
  - intros [z [_ Hx]]. apply in_enum_sites_z_fixed in Hx. exact (proj1 Hx).
  - intros Hv. exists (info_spin x). split.
    + apply in_seq. destruct Hv as [s [Hs [_ [_ Hz]]]]. pose proof (spin_le_max ss s Hs). lia.
    + apply in_enum_sites_z_fixed. split; [exact Hv|reflexivity].
Qed.

Lemma NoDup_site_items (s : site) : NoDup (site_items s).
Proof.
  unfold site_items.
  apply (NoDup_flat_map_key (fun i : nat => i) info_orb).
  - rewrite map_id. apply seq_NoDup.
  - intros i _. apply NoDup_map_inj; [|apply seq_NoDup]. intros a b E. congruence.
  - intros i y _ Hy. apply in_map_iff in Hy. destruct Hy as [z [<- _]]. reflexivity.
Qed.

Lemma NoDup_site_items_z (z : nat) (s : site) : NoDup (site_items_z z s).
Proof.
  unfold site_items_z. apply NoDup_map_inj; [|apply seq_NoDup]. intros a b E. congruence.
Qed.

Lemma NoDup_enum_site_major (ss : list site) :
  NoDup (labels ss) -> NoDup (enum_site_major ss).
Proof.
  intros Hl. unfold enum_site_major.
  apply (NoDup_flat_map_key s_label info_label).
  - exact Hl.
  - intros s _. apply NoDup_site_items.
  - intros s y _ Hy. apply in_site_items in Hy. exact (proj1 Hy).
Qed.

Lemma NoDup_enum_sites_z_fixed (z : nat) (ss : list site) :
  NoDup (labels ss) -> NoDup (enum_sites_z true z ss).
Proof.
  induction ss as [|s r IH]; intros Hl; cbn [enum_sites_z].
  - constructor.
  - cbn [labels map] in Hl. inversion Hl as [|l ls Hnin Hr]; subst.
    destruct (s_spin s <=? z); [exact (IH Hr)|].
    apply NoDup_app_intro; [apply NoDup_site_items_z|exact (IH Hr)|].
    intros y Hy Hy'. apply in_site_items_z in Hy. apply in_enum_sites_z_fixed in Hy'.
    destruct Hy' as [[s' [Hs' [Hl' _]]] _]. apply Hnin.
    replace (s_label s) with (s_label s') by (destruct Hy as [Hy _]; congruence).
    apply in_map. exact Hs'.
Qed.

Lemma NoDup_enum_spin_major_fixed (ss : list site) :
  NoDup (labels ss) -> NoDup (enum_spin_major true ss).
Proof.
  intros Hl. unfold enum_spin_major.
  apply (NoDup_flat_map_key (fun z : nat => z) info_spin).
  - rewrite map_id. apply seq_NoDup.
  - intros z _. apply NoDup_enum_sites_z_fixed. exact Hl.
  - intros z y _ Hy. apply in_enum_sites_z_fixed in Hy. exact (proj2 Hy).
Qed.

Lemma length_site_items (s : site) : length (site_items s) = s_orb s * s_spin s.
Proof.
  unfold site_items. rewrite (flat_map_length_const _ (s_spin s)).
  - rewrite seq_length. reflexivity.
  - intros i _. rewrite map_length, seq_length. reflexivity.
Qed.

Lemma length_enum_site_major (ss : list site) : length (enum_site_major ss) = index_total ss.
Proof.
  induction ss as [|s r IH]; [reflexivity|].
  unfold enum_site_major in *. cbn [flat_map index_total].
  rewrite app_length, length_site_items, IH. reflexivity.
Qed.

(** the two repaired orders enumerate the same set without repetition, hence equally many entries *)
Lemma length_enum_spin_major_fixed (ss : list site) :
  NoDup (labels ss) -> length (enum_spin_major true ss) = index_total ss.
Proof.
  intros Hl. rewrite <- length_enum_site_major. apply Permutation_length.
  apply NoDup_Permutation.
  - apply NoDup_enum_spin_major_fixed. exact Hl.
  - apply NoDup_enum_site_major. exact Hl.
  - intros x. rewrite in_enum_spin_major_fixed, in_enum_site_major. reflexivity.
Qed.

(** ** the `break` *)

Lemma enum_sites_z_all_small (fixed : bool) (z : nat) (ss : list site) :
  (forall s, In s ss -> s_spin s <= z) -> enum_sites_z fixed z ss = [].
Proof.
  induction ss as [|s r IH]; intros H; cbn [enum_sites_z]; [reflexivity|].
  assert (E : (s_spin s <=? z) = true) by (apply Nat.leb_le; apply H; left; reflexivity).
  rewrite E. destruct fixed; [|reflexivity]. apply IH. intros s' Hs'. apply H. right. exact Hs'.
Qed.

(** with non-increasing spin counts the `break` only skips sites that `continue` would skip too *)
Lemma enum_sites_z_break_harmless (z : nat) (ss : list site) :
  spins_nonincreasing ss -> enum_sites_z false z ss = enum_sites_z true z ss.
Proof.
  induction ss as [|s r IH]; intros Hs; cbn [enum_sites_z]; [reflexivity|].
  cbn [spins_nonincreasing] in Hs. destruct Hs as [Hle Hr].
  destruct (Nat.leb_spec (s_spin s) z) as [Hz|Hz].
  - symmetry. apply enum_sites_z_all_small. intros s' Hs'. specialize (Hle s' Hs'). lia.
  - rewrite (IH Hr). reflexivity.
Qed.

Lemma enum_harmless (fixed order_spins : bool) (ss : list site) :
  harmless fixed order_spins ss -> enum fixed order_spins ss = enum true order_spins ss.
Proof.
  intros [->|[->|Hs]]; [reflexivity|reflexivity|].
  unfold enum. destruct order_spins; [|reflexivity]. destruct fixed; [reflexivity|].
  unfold enum_spin_major. apply flat_map_ext. intros z. apply enum_sites_z_break_harmless. exact Hs.
Qed.

(** counting, to show that a `break` that fires early really loses entries *)
Lemma length_enum_sites_z_le (z : nat) (ss : list site) :
  length (enum_sites_z false z ss) <= length (enum_sites_z true z ss).
Proof.
  induction ss as [|s r IH]; cbn [enum_sites_z]; [lia|].
  destruct (s_spin s <=? z); [cbn [length]; lia|]. rewrite !app_length. lia.
Qed.

Lemma length_flat_map_le {A B : Type} (f g : A -> list B) (l : list A) :
  (forall x, length (f x) <= length (g x)) -> length (flat_map f l) <= length (flat_map g l).
Proof.
  intros H. induction l as [|a l IH]; cbn [flat_map]; [lia|].
  rewrite !app_length. specialize (H a). lia.
Qed.

Lemma length_flat_map_lt {A B : Type} (f g : A -> list B) (l : list A) (a : A) :
  (forall x, length (f x) <= length (g x)) -> In a l -> length (f a) < length (g a) ->
  length (flat_map f l) < length (flat_map g l).
Proof.
  intros H Ha Hlt. induction l as [|h t IH]; [destruct Ha|].
  cbn [flat_map]. rewrite !app_length. destruct Ha as [->|Ha].
  - pose proof (length_flat_map_le f g t H). lia.
  - specialize (IH Ha). specialize (H h). lia.
Qed.

(** if the spin counts increase somewhere along the site order (and the later site has at least
    one orbital) there is a spin value for which the `break` variant visits fewer entries *)
Lemma break_loses_entries (ss : list site) :
  (forall s, In s ss -> 1 <= s_orb s) ->
  ~ spins_nonincreasing ss ->
  exists z, z < max_spin ss /\
            length (enum_sites_z false z ss) < length (enum_sites_z true z ss).
Proof.
  induction ss as [|s r IH]; intros Horb Hn.
  - exfalso. apply Hn. exact I.
  - cbn [spins_nonincreasing] in Hn.
    destruct (Forall_Exists_dec (fun s' => s_spin s' <= s_spin s)
                                (fun s' => le_dec (s_spin s') (s_spin s)) r) as [Hall|Hex].
    + (* the head is fine: the increase is inside the tail *)
      assert (Hnr : ~ spins_nonincreasing r).
      { intros Hr. apply Hn. split; [|exact Hr]. apply Forall_forall. exact Hall. }
      destruct (IH (fun s' Hs' => Horb s' (or_intror Hs')) Hnr) as [z [Hz Hlt]].
      exists z. split; [cbn [max_spin]; lia|]. cbn [enum_sites_z].
      destruct (s_spin s <=? z); [cbn [length]; lia|]. rewrite !app_length. lia.
    + (* a later site has more spins than the head: take z = the head's spin count *)
      apply Exists_exists in Hex. destruct Hex as [s' [Hs' Hgt]].
      exists (s_spin s). split.
      * cbn [max_spin]. pose proof (spin_le_max r s' Hs'). lia.
      * cbn [enum_sites_z]. rewrite Nat.leb_refl. cbn [length].
        assert (Hin : In (s_label s', 0, s_spin s) (enum_sites_z true (s_spin s) r)).
        { apply in_enum_sites_z_fixed. split; [|reflexivity]. exists s'. split; [exact Hs'|].
          cbn. repeat split; [|lia]. apply (Horb s'). right. exact Hs'. }
        destruct (enum_sites_z true (s_spin s) r); [destruct Hin|cbn [length]; lia].
Qed.

Lemma length_enum_break_lt (ss : list site) :
  NoDup (labels ss) -> (forall s, In s ss -> 1 <= s_orb s) -> ~ spins_nonincreasing ss ->
  length (enum false true ss) < index_total ss.
Proof.
  intros Hl Horb Hn. rewrite <- (length_enum_spin_major_fixed ss Hl).
  destruct (break_loses_entries ss Horb Hn) as [z [Hz Hlt]].
  unfold enum, enum_spin_major.
  apply (length_flat_map_lt _ _ _ z).
  - intros z'. apply length_enum_sites_z_le.
  - apply in_seq. lia.
  - exact Hlt.
Qed.

(** the three facts about the enumeration that everything else uses *)
Lemma enum_facts (fixed order_spins : bool) (ss : list site) :
  NoDup (labels ss) -> harmless fixed order_spins ss ->
  NoDup (enum fixed order_spins ss) /\
  (forall x, In x (enum fixed order_spins ss) <-> valid ss x) /\
  length (enum fixed order_spins ss) = index_total ss.
Proof.
  intros Hl Hh. rewrite (enum_harmless fixed order_spins ss Hh). unfold enum.
  destruct order_spins.
  - split; [apply NoDup_enum_spin_major_fixed; exact Hl|].
    split; [apply in_enum_spin_major_fixed|apply length_enum_spin_major_fixed; exact Hl].
  - split; [apply NoDup_enum_site_major; exact Hl|].
    split; [apply in_enum_site_major|apply length_enum_site_major].
Qed.

(** * 4. The table *)

(** what prepare() returns when every entry gets written *)
Lemma prepare_char (fixed order_spins : bool) (ss : list site) :
  NoDup (labels ss) -> harmless fixed order_spins ss ->
  exists m, prepare fixed order_spins ss =
            Done (mkTable (index_total ss) (map Some (enum fixed order_spins ss)) m) /\
            forall x j, map_find x m = Some j <-> nth_error (enum fixed order_spins ss) j = Some x.
Proof.
  intros Hl Hh. destruct (enum_facts fixed order_spins ss Hl Hh) as [Hnd [_ Hlen]].
  unfold prepare. rewrite (fill_vector_refines fixed order_spins ss 0) by lia.
  cbn [bind]. unfold wf_state. cbn [fst repeat].
  destruct (build_prefix_char (enum fixed order_spins ss) [] Hnd) as [m [E Hm]].
  rewrite <- Hlen, E. cbn [bind]. rewrite app_nil_r. exists m. split; [reflexivity|exact Hm].
Qed.

(** what prepare() does when entries stay null *)
Lemma prepare_uninit (fixed order_spins : bool) (ss : list site) :
  length (enum fixed order_spins ss) < index_total ss ->
  prepare fixed order_spins ss = Uninit.
Proof.
  intros Hlt. unfold prepare.
  remember (index_total ss - length (enum fixed order_spins ss) - 1) as k eqn:Ek.
  rewrite (fill_vector_refines fixed order_spins ss (S k)) by lia.
  cbn [bind]. unfold wf_state. cbn [fst].
  replace (index_total ss) with (length (enum fixed order_spins ss) + S k) by lia.
  rewrite build_hits_null. reflexivity.
Qed.

Section Table.
  Variables (fixed order_spins : bool) (ss : list site) (t : table).
  Hypothesis Hlabels : NoDup (labels ss).
  Hypothesis Hharmless : harmless fixed order_spins ss.
  Hypothesis Hprep : prepare fixed order_spins ss = Done t.

  Let e := enum fixed order_spins ss.

  Lemma table_shape :
    IndexSize t = index_total ss /\ IndicesToInfo t = map Some e /\
    (forall x j, map_find x (InfoToIndices t) = Some j <-> nth_error e j = Some x) /\
    NoDup e /\ (forall x, In x e <-> valid ss x) /\ length e = index_total ss.
  Proof.
    destruct (prepare_char fixed order_spins ss Hlabels Hharmless) as [m [E Hm]].
    rewrite E in Hprep. injection Hprep as <-. cbn [IndexSize IndicesToInfo InfoToIndices].
    destruct (enum_facts fixed order_spins ss Hlabels Hharmless) as [Hnd [Hin Hlen]].
    split; [reflexivity|]. split; [reflexivity|]. split; [exact Hm|].
    split; [exact Hnd|]. split; [exact Hin|exact Hlen].
  Qed.

  Lemma getInfo_nth (i : nat) (x : info) : getInfo t i = Done x <-> nth_error e i = Some x.
  Proof.
    destruct table_shape as [Hsz [Hvec [_ [_ [_ Hlen]]]]].
    unfold getInfo, vec_deref. rewrite Hsz, Hvec, nth_error_map.
    destruct (Nat.leb_spec (index_total ss) i) as [Hge|Hlt].
    - split; [discriminate|]. intros Ex.
      assert (i < length e) by (apply nth_error_Some; congruence). lia.
    - destruct (nth_error e i) as [y|] eqn:Ey; cbn [option_map].
      + split; intros E; injection E as ->; reflexivity.
      + apply nth_error_None in Ey. lia.
  Qed.

  (** IndexSize is the sum over the sites of orbitals * spins, and the vector has that length *)
  Lemma index_count :
    IndexSize t = index_total ss /\ length (IndicesToInfo t) = IndexSize t.
  Proof.
    destruct table_shape as [Hsz [Hvec [_ [_ [_ Hlen]]]]].
    split; [exact Hsz|]. rewrite Hvec, map_length, Hlen, Hsz. reflexivity.
  Qed.

  (** every index below IndexSize has an entry, and it names a mode of the lattice *)
  Lemma getInfo_total (i : nat) :
    i < IndexSize t -> exists x, getInfo t i = Done x /\ valid ss x.
  Proof.
    destruct table_shape as [Hsz [_ [_ [_ [Hin Hlen]]]]]. intros Hi.
    destruct (nth_error e i) as [x|] eqn:Ex.
    - exists x. split; [apply getInfo_nth; exact Ex|]. apply Hin. apply (nth_error_In e i). exact Ex.
    - apply nth_error_None in Ex. lia.
  Qed.

  Lemma getInfo_bound (i : nat) (x : info) : getInfo t i = Done x -> i < IndexSize t.
  Proof.
    destruct table_shape as [Hsz [_ [_ [_ [_ Hlen]]]]]. intros E. apply getInfo_nth in E.
    assert (i < length e) by (apply nth_error_Some; congruence). lia.
  Qed.

  (** two different indices never carry the same (label, orbital, spin) *)
  Lemma index_nodup (i j : nat) (x : info) :
    getInfo t i = Done x -> getInfo t j = Done x -> i = j.
  Proof.
    destruct table_shape as [_ [_ [_ [Hnd _]]]]. intros Ei Ej.
    apply getInfo_nth in Ei. apply getInfo_nth in Ej.
    apply (proj1 (NoDup_nth_error e) Hnd i j); [|congruence].
    apply nth_error_Some. congruence.
  Qed.

  (** the image of the enumeration is exactly the set of modes of the lattice *)
  Lemma index_covers (x : info) :
    valid ss x <-> exists i, i < IndexSize t /\ getInfo t i = Done x.
  Proof.
    destruct table_shape as [_ [_ [_ [_ [Hin _]]]]]. split.
    - intros Hv. apply Hin in Hv. apply In_nth_error in Hv. destruct Hv as [i Ei].
      apply getInfo_nth in Ei. exists i. split; [apply (getInfo_bound i x); exact Ei|exact Ei].
    - intros [i [_ Ei]]. apply getInfo_nth in Ei. apply Hin. apply (nth_error_In e i). exact Ei.
  Qed.

  Lemma getIndex_iff (x : info) (i : nat) :
    i < IndexSize t -> (getIndex t x = i <-> getInfo t i = Done x).
  Proof.
    destruct table_shape as [Hsz [_ [Hm _]]]. intros Hi. unfold getIndex. rewrite getInfo_nth.
    destruct (map_find x (InfoToIndices t)) as [j|] eqn:Ej.
    - apply Hm in Ej. split.
      + intros ->. exact Ej.
      + intros Ei. apply (index_nodup j i x); apply getInfo_nth; assumption.
    - split; [lia|]. intros Ei. apply Hm in Ei. congruence.
  Qed.

  (** getIndex after getInfo is the identity on 0 .. IndexSize-1 *)
  Lemma getIndex_getInfo (i : nat) :
    i < IndexSize t -> exists x, getInfo t i = Done x /\ getIndex t x = i.
  Proof.
    intros Hi. destruct (getInfo_total i Hi) as [x [Ex _]]. exists x.
    split; [exact Ex|]. apply getIndex_iff; assumption.
  Qed.

  (** getInfo after getIndex is the identity on the modes of the lattice *)
  Lemma getInfo_getIndex (x : info) :
    valid ss x -> getIndex t x < IndexSize t /\ getInfo t (getIndex t x) = Done x.
  Proof.
    intros Hv. apply index_covers in Hv. destruct Hv as [i [Hi Ei]].
    assert (E : getIndex t x = i) by (apply getIndex_iff; assumption).
    rewrite E. split; assumption.
  Qed.

  (** anything that is not a mode of the lattice is answered with IndexSize *)
  Lemma getIndex_unknown (x : info) : ~ valid ss x -> getIndex t x = IndexSize t.
  Proof.
    destruct table_shape as [_ [_ [Hm [_ [Hin _]]]]]. intros Hnv. unfold getIndex.
    destruct (map_find x (InfoToIndices t)) as [j|] eqn:Ej; [|reflexivity].
    exfalso. apply Hnv. apply Hin. apply Hm in Ej. apply (nth_error_In e j). exact Ej.
  Qed.

  Lemma getIndex_range (x : info) : getIndex t x <= IndexSize t.
  Proof.
    destruct table_shape as [Hsz [_ [Hm [_ [_ Hlen]]]]]. unfold getIndex.
    destruct (map_find x (InfoToIndices t)) as [j|] eqn:Ej; [|lia].
    apply Hm in Ej. assert (j < length e) by (apply nth_error_Some; congruence). lia.
  Qed.
End Table.

(** getInfo and checkIndex on any table *)
Lemma getInfo_throws (t : table) (i : nat) :
  IndexSize t <= i -> getInfo t i = Throws exWrongIndex.
Proof.
  intros Hi. unfold getInfo. apply Nat.leb_le in Hi. rewrite Hi. reflexivity.
Qed.

Lemma checkIndex_spec (t : table) (i : nat) : checkIndex t i = true <-> i < IndexSize t.
Proof. unfold checkIndex. apply Nat.ltb_lt. Qed.

(** prepare() terminates normally (no null dereference, no out-of-bounds write) *)
Lemma prepare_total (fixed order_spins : bool) (ss : list site) :
  NoDup (labels ss) -> harmless fixed order_spins ss ->
  exists t, prepare fixed order_spins ss = Done t.
Proof.
  intros Hl Hh. destruct (prepare_char fixed order_spins ss Hl Hh) as [m [E _]].
  eexists. exact E.
Qed.

(** The exact condition for the loop as written: with at least one orbital per site, the
    spin-major prepare() succeeds iff the spin counts never increase along the site order;
    otherwise it dereferences a null pointer at cpp:72. *)
Lemma spin_major_break_exact (ss : list site) :
  NoDup (labels ss) -> (forall s, In s ss -> 1 <= s_orb s) ->
  ((exists t, prepare false true ss = Done t) <-> spins_nonincreasing ss) /\
  (~ spins_nonincreasing ss -> prepare false true ss = Uninit).
Proof.
  intros Hl Horb.
  assert (Hbad : ~ spins_nonincreasing ss -> prepare false true ss = Uninit).
  { intros Hn. apply prepare_uninit. apply length_enum_break_lt; assumption. }
  split; [|exact Hbad]. split.
  - intros [t Et].
    assert (Hdec : spins_nonincreasing ss \/ ~ spins_nonincreasing ss).
    { clear. induction ss as [|s r IH]; [left; exact I|]. cbn [spins_nonincreasing].
      destruct IH as [Hr|Hr]; [|right; intros [_ H]; exact (Hr H)].
      destruct (Forall_Exists_dec (fun s' => s_spin s' <= s_spin s)
                                  (fun s' => le_dec (s_spin s') (s_spin s)) r) as [Hall|Hex].
      - left. split; [apply Forall_forall; exact Hall|exact Hr].
      - right. intros [H _]. apply Exists_exists in Hex. destruct Hex as [s' [Hs' Hgt]].
        specialize (H s' Hs'). lia. }
    destruct Hdec as [Hs|Hn]; [exact Hs|]. rewrite (Hbad Hn) in Et. discriminate Et.
  - intros Hs. apply prepare_total; [exact Hl|]. right. right. exact Hs.
Qed.

(** The loop as written does not cover every lattice: sites A(1 orbital, 1 spin), B(1, 2) in
    spin-major order.  Entry 2 stays null, prepare() dereferences it; and the vector that the
    enumeration loops leave behind misses the mode (B, 0, 1). *)
Definition witness_sites : list site :=
  [mkSite (String.String (Ascii.Ascii true false false false false false true false) String.EmptyString) 1 1;
   mkSite (String.String (Ascii.Ascii false true false false false false true false) String.EmptyString) 1 2].

Lemma index_covers_spin_major_refuted :
  exists ss, NoDup (labels ss) /\ (forall s, In s ss -> 1 <= s_orb s /\ 1 <= s_spin s) /\
             site_map ss = ss /\
             prepare false true ss = Uninit /\
             exists v cur x, fill_vector false true ss = Done (v, cur) /\
                             cur < index_total ss /\ nth_error v cur = Some None /\
                             valid ss x /\ ~ In (Some x) v.
Proof.
  exists witness_sites. split; [|split; [|split; [|split]]].
  - unfold witness_sites, labels. cbn [map s_label]. constructor.
    + intros [H|[]]. discriminate H.
    + constructor; [intros []|constructor].
  - intros s [<-|[<-|[]]]; cbn; lia.
  - vm_compute. reflexivity.
  - vm_compute. reflexivity.
  - eexists. eexists. exists (s_label (nth 1 witness_sites (mkSite String.EmptyString 0 0)), 0, 1).
    split; [vm_compute; reflexivity|]. split; [vm_compute; lia|].
    split; [vm_compute; reflexivity|]. split.
    + exists (nth 1 witness_sites (mkSite String.EmptyString 0 0)). cbn. repeat split; try lia.
      right. left. reflexivity.
    + cbn. intros [H|[H|[H|[]]]]; discriminate H.
Qed.

(** * 5. The site map; relabelling, re-ordering, switching the mode *)

Lemma map_insert_perm (s : site) (m : list site) :
  ~ In (s_label s) (labels m) -> Permutation (s :: m) (map_insert s m).
Proof.
  induction m as [|h t IH]; intros Hnin; cbn [map_insert].
  - apply Permutation_refl.
  - destruct (String.compare (s_label s) (s_label h)) eqn:Ec.
    + exfalso. apply String.compare_eq_iff in Ec. apply Hnin. left. symmetry. exact Ec.
    + apply Permutation_refl.
    + eapply Permutation_trans; [apply perm_swap|]. apply perm_skip. apply IH.
      intros Hin. apply Hnin. right. exact Hin.
Qed.

Lemma site_map_perm_aux (calls m : list site) :
  NoDup (labels (m ++ calls)) ->
  Permutation (m ++ calls) (fold_left (fun m s => map_insert s m) calls m).
Proof.
  revert m. induction calls as [|s r IH]; intros m Hnd; cbn [fold_left].
  - rewrite app_nil_r. apply Permutation_refl.
  - assert (Hs : ~ In (s_label s) (labels m)).
    { unfold labels in *. rewrite map_app in Hnd. cbn [map] in Hnd.
      apply NoDup_remove_2 in Hnd. intros Hin. apply Hnd. apply in_or_app. left. exact Hin. }
    pose proof (map_insert_perm s m Hs) as Hp.
    eapply Permutation_trans; [|apply IH].
    + eapply Permutation_trans; [apply Permutation_sym; apply Permutation_middle|].
      exact (Permutation_app_tail r Hp).
    + unfold labels. eapply Permutation_NoDup; [|exact Hnd].
      apply Permutation_map. eapply Permutation_trans; [apply Permutation_sym; apply Permutation_middle|].
      exact (Permutation_app_tail r Hp).
Qed.

(** with distinct labels the site map holds exactly the added sites (in label order) *)
Lemma site_map_perm (calls : list site) :
  NoDup (labels calls) -> Permutation calls (site_map calls).
Proof. intros Hnd. exact (site_map_perm_aux calls [] Hnd). Qed.

Lemma site_map_labels_NoDup (calls : list site) :
  NoDup (labels calls) -> NoDup (labels (site_map calls)).
Proof.
  intros Hnd. unfold labels. eapply Permutation_NoDup; [|exact Hnd].
  apply Permutation_map. apply site_map_perm. exact Hnd.
Qed.

Lemma valid_perm (a b : list site) (x : info) : Permutation a b -> valid a x -> valid b x.
Proof.
  intros Hp [s [Hs Hv]]. exists s. split; [|exact Hv]. eapply Permutation_in; eassumption.
Qed.

Lemma index_total_perm (a b : list site) : Permutation a b -> index_total a = index_total b.
Proof. induction 1; cbn [index_total]; lia. Qed.

Lemma index_total_rename (f : label -> label) (ss : list site) :
  index_total (map (rename_site f) ss) = index_total ss.
Proof. induction ss as [|s r IH]; cbn [map index_total rename_site s_orb s_spin]; [reflexivity|rewrite IH; reflexivity]. Qed.

Lemma valid_rename (f : label -> label) (ss : list site) (x : info) :
  valid ss x -> valid (map (rename_site f) ss) (rename_info f x).
Proof.
  intros [s [Hs [Hl [Ho Hz]]]]. exists (rename_site f s). split; [apply in_map; exact Hs|].
  destruct x as [[l o] z]. cbn in *. subst l. repeat split; assumption.
Qed.

(** One direction of the correspondence between two prepared tables: if [f] carries the modes
    of the first lattice to modes of the second and [g] undoes [f] on the labels of the first,
    then [index_perm t1 t2 f] lands in range, hits the renamed mode, and is undone by
    [index_perm t2 t1 g]. *)
Section Forward.
  Variables (fx1 m1 fx2 m2 : bool) (ss1 ss2 : list site) (t1 t2 : table) (f g : label -> label).
  Hypothesis Hl1 : NoDup (labels ss1).
  Hypothesis Hl2 : NoDup (labels ss2).
  Hypothesis Hh1 : harmless fx1 m1 ss1.
  Hypothesis Hh2 : harmless fx2 m2 ss2.
  Hypothesis Hp1 : prepare fx1 m1 ss1 = Done t1.
  Hypothesis Hp2 : prepare fx2 m2 ss2 = Done t2.
  Hypothesis Hfwd : forall x, valid ss1 x -> valid ss2 (rename_info f x).
  Hypothesis Hgf : forall x, valid ss1 x -> g (f (info_label x)) = info_label x.

  Lemma index_perm_forward (i : nat) :
    i < IndexSize t1 ->
    exists x, getInfo t1 i = Done x /\
              index_perm t1 t2 f i < IndexSize t2 /\
              getInfo t2 (index_perm t1 t2 f i) = Done (rename_info f x) /\
              index_perm t2 t1 g (index_perm t1 t2 f i) = i.
  Proof.
    intros Hi.
    destruct (getInfo_total fx1 m1 ss1 t1 Hl1 Hh1 Hp1 i Hi) as [x [Ex Hv]].
    exists x. split; [exact Ex|]. unfold index_perm at 1 2 4. rewrite Ex.
    destruct (getInfo_getIndex fx2 m2 ss2 t2 Hl2 Hh2 Hp2 (rename_info f x) (Hfwd x Hv)) as [Hlt E2].
    split; [exact Hlt|]. split; [exact E2|].
    unfold index_perm. rewrite E2.
    assert (Er : rename_info g (rename_info f x) = x).
    { destruct x as [[l o] z]. unfold rename_info. cbn [info_label info_orb info_spin fst snd].
      specialize (Hgf (l, o, z) Hv). cbn in Hgf. rewrite Hgf. reflexivity. }
    rewrite Er. apply (getIndex_iff fx1 m1 ss1 t1 Hl1 Hh1 Hp1 x i Hi). exact Ex.
  Qed.
End Forward.

(** The relabelling theorem.  A lattice is given by its addSite calls [calls1] (distinct labels).
    The second lattice is obtained by renaming the sites with [f] (undone by [g] on the labels
    that occur) and issuing the calls in any order [calls2]; the two index classifications may
    use different ordering modes.  (Take f = g = identity and calls2 = calls1 for the pure mode
    switch.)  Then both have the same IndexSize N, and pi = index_perm t1 t2 f -- getInfo of the
    first followed by getIndex of the second -- is a permutation of 0..N-1 with inverse
    index_perm t2 t1 g, and entry pi(i) of the second table is the renamed entry i of the first. *)
Lemma rename_is_mode_permutation
      (fx1 m1 fx2 m2 : bool) (calls1 calls2 : list site) (f g : label -> label) (t1 t2 : table) :
  NoDup (labels calls1) ->
  (forall l, In l (labels calls1) -> g (f l) = l) ->
  Permutation (map (rename_site f) calls1) calls2 ->
  harmless fx1 m1 (site_map calls1) -> harmless fx2 m2 (site_map calls2) ->
  prepare_lattice fx1 m1 calls1 = Done t1 ->
  prepare_lattice fx2 m2 calls2 = Done t2 ->
  let N := IndexSize t1 in
  let pi := index_perm t1 t2 f in
  let pi' := index_perm t2 t1 g in
  IndexSize t2 = N /\
  (forall i, i < N -> pi i < N) /\
  (forall k, k < N -> pi' k < N) /\
  (forall i, i < N -> pi' (pi i) = i) /\
  (forall k, k < N -> pi (pi' k) = k) /\
  (forall i j, i < N -> j < N -> pi i = pi j -> i = j) /\
  (forall k, k < N -> exists i, i < N /\ pi i = k) /\
  (forall i, i < N -> exists x, getInfo t1 i = Done x /\ getInfo t2 (pi i) = Done (rename_info f x)).
Proof.
  intros Hnd1 Hgf Hperm Hh1 Hh2 Hp1 Hp2 N pi pi'. unfold prepare_lattice in Hp1, Hp2.
  (* labels of the second lattice are distinct, and g undoes f *)
  assert (Hinj : forall a b, In a (labels calls1) -> In b (labels calls1) -> f a = f b -> a = b).
  { intros a b Ha Hb E. rewrite <- (Hgf a Ha), <- (Hgf b Hb), E. reflexivity. }
  assert (Hnd1r : NoDup (labels (map (rename_site f) calls1))).
  { unfold labels. rewrite map_map. cbn [rename_site s_label].
    clear - Hnd1 Hinj. unfold labels in *. induction calls1 as [|s r IH]; cbn [map]; [constructor|].
    cbn [map] in Hnd1. inversion Hnd1 as [|l ls Hnin Hr]; subst. constructor.
    - intros Hin. apply in_map_iff in Hin. destruct Hin as [s' [E Hs']]. apply Hnin.
      assert (Es : s_label s' = s_label s).
      { apply Hinj; [right; apply in_map; exact Hs'|left; reflexivity|exact E]. }
      rewrite <- Es. apply in_map. exact Hs'.
    - apply IH; [exact Hr|]. intros a b Ha Hb. apply Hinj; right; assumption. }
  assert (Hnd2 : NoDup (labels calls2)).
  { unfold labels. eapply Permutation_NoDup; [apply Permutation_map; exact Hperm|exact Hnd1r]. }
  pose proof (site_map_perm calls1 Hnd1) as HP1.
  pose proof (site_map_perm calls2 Hnd2) as HP2.
  pose proof (site_map_labels_NoDup calls1 Hnd1) as HL1.
  pose proof (site_map_labels_NoDup calls2 Hnd2) as HL2.
  (* modes correspond *)
  assert (Hfwd : forall x, valid (site_map calls1) x -> valid (site_map calls2) (rename_info f x)).
  { intros x Hv. apply (valid_perm calls2 _ _ HP2). apply (valid_perm _ calls2 _ Hperm).
    apply valid_rename. apply (valid_perm _ calls1 _ (Permutation_sym HP1)). exact Hv. }
  assert (Hgf1 : forall x, valid (site_map calls1) x -> g (f (info_label x)) = info_label x).
  { intros x [s [Hs [Hl _]]]. apply Hgf. rewrite <- Hl. unfold labels. apply in_map.
    eapply Permutation_in; [apply Permutation_sym; exact HP1|exact Hs]. }
  assert (Hback : forall y, valid (site_map calls2) y ->
                            valid (site_map calls1) (rename_info g y) /\ f (g (info_label y)) = info_label y).
  { intros y [s2 [Hs2 [Hl2 [Ho2 Hz2]]]].
    assert (Hs2' : In s2 (map (rename_site f) calls1)).
    { eapply Permutation_in; [apply Permutation_sym; exact Hperm|].
      eapply Permutation_in; [apply Permutation_sym; exact HP2|exact Hs2]. }
    apply in_map_iff in Hs2'. destruct Hs2' as [s1 [Es Hs1]]. subst s2.
    cbn [rename_site s_label s_orb s_spin] in Hl2, Ho2, Hz2.
    assert (Hg1 : g (f (s_label s1)) = s_label s1) by (apply Hgf; unfold labels; apply in_map; exact Hs1).
    split.
    - exists s1. split; [eapply Permutation_in; [exact HP1|exact Hs1]|].
      destruct y as [[l o] z]. cbn in *. subst l. repeat split; [symmetry; exact Hg1|exact Ho2|exact Hz2].
    - rewrite <- Hl2, Hg1. reflexivity. }
  assert (Hsize : IndexSize t2 = N).
  { unfold N.
    rewrite (proj1 (index_count fx2 m2 _ t2 HL2 Hh2 Hp2)), (proj1 (index_count fx1 m1 _ t1 HL1 Hh1 Hp1)).
    rewrite <- (index_total_perm _ _ HP2), <- (index_total_perm _ _ Hperm), index_total_rename.
    apply index_total_perm. exact HP1. }
  pose proof (index_perm_forward fx1 m1 fx2 m2 _ _ t1 t2 f g HL1 HL2 Hh1 Hh2 Hp1 Hp2 Hfwd Hgf1) as F12.
  pose proof (index_perm_forward fx2 m2 fx1 m1 _ _ t2 t1 g f HL2 HL1 Hh2 Hh1 Hp2 Hp1
                                 (fun y Hy => proj1 (Hback y Hy)) (fun y Hy => proj2 (Hback y Hy))) as F21.
  rewrite Hsize in F12, F21. fold N in F12, F21. fold pi in F12, F21. fold pi' in F12, F21.
  split; [exact Hsize|].
  split; [intros i Hi; destruct (F12 i Hi) as [x [_ [H _]]]; exact H|].
  split; [intros k Hk; destruct (F21 k Hk) as [x [_ [H _]]]; exact H|].
  split; [intros i Hi; destruct (F12 i Hi) as [x [_ [_ [_ H]]]]; exact H|].
  split; [intros k Hk; destruct (F21 k Hk) as [x [_ [_ [_ H]]]]; exact H|].
  split.
  { intros i j Hi Hj E. destruct (F12 i Hi) as [_ [_ [_ [_ Ii]]]]. destruct (F12 j Hj) as [_ [_ [_ [_ Ij]]]].
    rewrite <- Ii, <- Ij, E. reflexivity. }
  split.
  { intros k Hk. exists (pi' k). destruct (F21 k Hk) as [_ [_ [Hlt [_ Ik]]]]. split; [exact Hlt|exact Ik]. }
  intros i Hi. destruct (F12 i Hi) as [x [Ex [_ [E2 _]]]]. exists x. split; [exact Ex|exact E2].
Qed.

(** * 6. The statements at the level of the lattice (sequence of addSite calls) *)

Lemma valid_site_map (calls : list site) (x : info) :
  NoDup (labels calls) -> (valid (site_map calls) x <-> valid calls x).
Proof.
  intros Hnd. pose proof (site_map_perm calls Hnd) as HP. split.
  - apply valid_perm. apply Permutation_sym. exact HP.
  - apply valid_perm. exact HP.
Qed.

Lemma index_total_site_map (calls : list site) :
  NoDup (labels calls) -> index_total (site_map calls) = index_total calls.
Proof. intros Hnd. symmetry. apply index_total_perm. apply site_map_perm. exact Hnd. Qed.

(** Everything C18 says about one index classification, in one statement: for every lattice
    with distinct labels (any number of sites, any orbital and spin counts) and every ordering
    mode for which the enumeration is [harmless], prepare() terminates normally and
    - IndexSize = sum of orbitals * spins,
    - getInfo is defined on 0..IndexSize-1, yields modes of the lattice, and getIndex undoes it,
    - getIndex maps every mode of the lattice into 0..IndexSize-1 and getInfo undoes it,
    - getIndex answers IndexSize for everything else, getInfo throws from IndexSize on. *)
Lemma index_bijection (fixed order_spins : bool) (calls : list site) :
  NoDup (labels calls) -> harmless fixed order_spins (site_map calls) ->
  exists t, prepare_lattice fixed order_spins calls = Done t /\
    IndexSize t = index_total calls /\
    (forall i, i < IndexSize t ->
               exists x, getInfo t i = Done x /\ valid calls x /\ getIndex t x = i) /\
    (forall x, valid calls x -> getIndex t x < IndexSize t /\ getInfo t (getIndex t x) = Done x) /\
    (forall x, ~ valid calls x -> getIndex t x = IndexSize t) /\
    (forall i, IndexSize t <= i -> getInfo t i = Throws exWrongIndex).
Proof.
  intros Hnd Hh. pose proof (site_map_labels_NoDup calls Hnd) as HL.
  destruct (prepare_total fixed order_spins (site_map calls) HL Hh) as [t Et].
  exists t. unfold prepare_lattice. split; [exact Et|].
  split.
  { rewrite (proj1 (index_count _ _ _ t HL Hh Et)). apply index_total_site_map. exact Hnd. }
  split.
  { intros i Hi. destruct (getInfo_total _ _ _ t HL Hh Et i Hi) as [x [Ex Hv]].
    exists x. split; [exact Ex|]. split; [apply (valid_site_map calls x Hnd); exact Hv|].
    apply (getIndex_iff _ _ _ t HL Hh Et x i Hi). exact Ex. }
  split.
  { intros x Hv. apply (getInfo_getIndex _ _ _ t HL Hh Et). apply (valid_site_map calls x Hnd). exact Hv. }
  split.
  { intros x Hnv. apply (getIndex_unknown _ _ _ t HL Hh Et). intros Hv. apply Hnv.
    apply (valid_site_map calls x Hnd). exact Hv. }
  intros i Hi. apply getInfo_throws. exact Hi.
Qed.

(** the repaired loop: no condition on the lattice *)
Lemma index_bijection_fixed (order_spins : bool) (calls : list site) :
  NoDup (labels calls) ->
  exists t, prepare_lattice true order_spins calls = Done t /\
    IndexSize t = index_total calls /\
    (forall i, i < IndexSize t ->
               exists x, getInfo t i = Done x /\ valid calls x /\ getIndex t x = i) /\
    (forall x, valid calls x -> getIndex t x < IndexSize t /\ getInfo t (getIndex t x) = Done x) /\
    (forall x, ~ valid calls x -> getIndex t x = IndexSize t) /\
    (forall i, IndexSize t <= i -> getInfo t i = Throws exWrongIndex).
Proof. intros Hnd. apply index_bijection; [exact Hnd|]. left. reflexivity. Qed.

(** the loops as written: site-major order always, spin-major order when the spin counts do
    not increase along the label order of the sites *)
Lemma index_bijection_as_written (order_spins : bool) (calls : list site) :
  NoDup (labels calls) ->
  order_spins = false \/ spins_nonincreasing (site_map calls) ->
  exists t, prepare_lattice false order_spins calls = Done t /\
    IndexSize t = index_total calls /\
    (forall i, i < IndexSize t ->
               exists x, getInfo t i = Done x /\ valid calls x /\ getIndex t x = i) /\
    (forall x, valid calls x -> getIndex t x < IndexSize t /\ getInfo t (getIndex t x) = Done x) /\
    (forall x, ~ valid calls x -> getIndex t x = IndexSize t) /\
    (forall i, IndexSize t <= i -> getInfo t i = Throws exWrongIndex).
Proof. intros Hnd Hc. apply index_bijection; [exact Hnd|]. right. exact Hc. Qed.

(** * 7. The hypotheses are satisfiable (non-trivial values) *)
Module Examples.
  Import Strings.String.
  Local Open Scope string_scope.

  (** three sites of different shapes, added in an order that is not the label order *)
  Definition ex_calls : list site := [mkSite "b" 2 1; mkSite "a" 1 3; mkSite "ab" 3 2].

  Example ex_site_map : site_map ex_calls = [mkSite "a" 1 3; mkSite "ab" 3 2; mkSite "b" 2 1].
  Proof. vm_compute. reflexivity. Qed.

  Example ex_labels : NoDup (labels ex_calls).
  Proof.
    unfold ex_calls, labels. cbn [map s_label].
    repeat constructor; cbn [In]; intros H; repeat destruct H as [H|H]; try discriminate H; exact H.
  Qed.

  (** spin counts 3, 2, 1 in label order: the `break` is harmless here even as written *)
  Example ex_harmless_as_written : harmless false true (site_map ex_calls).
  Proof.
    right. right. rewrite ex_site_map. cbn [spins_nonincreasing s_spin In].
    repeat split; try exact I; intros s' H; repeat destruct H as [H|H]; try (subst s'; cbn; lia); destruct H.
  Qed.

  Example ex_prepare : exists t, prepare_lattice false true ex_calls = Done t /\ IndexSize t = 11.
  Proof. eexists. split; [vm_compute; reflexivity|reflexivity]. Qed.

  (** hypotheses of the section [Table] lemmas, all at once, on the example *)
  Example ex_table_hyps :
    NoDup (labels (site_map ex_calls)) /\ harmless false true (site_map ex_calls) /\
    exists t, prepare false true (site_map ex_calls) = Done t.
  Proof.
    split; [apply site_map_labels_NoDup; exact ex_labels|].
    split; [exact ex_harmless_as_written|]. eexists. vm_compute. reflexivity.
  Qed.

  (** a valid and an invalid triple, a valid and an invalid index *)
  Example ex_valid : valid ex_calls ("ab", 2, 1) /\ ~ valid ex_calls ("ab", 3, 0) /\ ~ valid ex_calls ("c", 0, 0).
  Proof.
    split; [exists (mkSite "ab" 3 2); cbn; repeat split; try lia; right; right; left; reflexivity|].
    split; intros [s [Hs [Hl [Ho Hz]]]]; cbn in Hs, Hl, Ho, Hz;
      repeat destruct Hs as [Hs|Hs]; try (subst s; cbn in *; try discriminate Hl; lia); destruct Hs.
  Qed.

  (** hypotheses of [spin_major_break_exact] with a lattice on each side of the condition *)
  Example ex_break_exact_hyps :
    (forall s, In s (site_map ex_calls) -> 1 <= s_orb s) /\ spins_nonincreasing (site_map ex_calls) /\
    (forall s, In s witness_sites -> 1 <= s_orb s) /\ ~ spins_nonincreasing witness_sites.
  Proof.
    rewrite ex_site_map. split.
    { intros s H. repeat destruct H as [H|H]; try (subst s; cbn; lia); destruct H. }
    split.
    { cbn [spins_nonincreasing s_spin In].
      repeat split; try exact I; intros s' H; repeat destruct H as [H|H]; try (subst s'; cbn; lia); destruct H. }
    split.
    { intros s H. repeat destruct H as [H|H]; try (subst s; cbn; lia); destruct H. }
    intros [H _]. specialize (H _ (or_introl eq_refl)). cbn in H. lia.
  Qed.

  (** relabelling a -> z, ab -> m, b -> c (changes the label order), calls reversed, other mode *)
  Definition ex_f (l : label) : label :=
    if l =? "a" then "z" else if l =? "ab" then "m" else if l =? "b" then "c" else l.
  Definition ex_g (l : label) : label :=
    if l =? "z" then "a" else if l =? "m" then "ab" else if l =? "c" then "b" else l.
  Definition ex_calls2 : list site := rev (map (rename_site ex_f) ex_calls).

  Example ex_rename_hyps :
    NoDup (labels ex_calls) /\
    (forall l, In l (labels ex_calls) -> ex_g (ex_f l) = l) /\
    Permutation (map (rename_site ex_f) ex_calls) ex_calls2 /\
    harmless true false (site_map ex_calls) /\ harmless true true (site_map ex_calls2) /\
    (exists t1, prepare_lattice true false ex_calls = Done t1) /\
    (exists t2, prepare_lattice true true ex_calls2 = Done t2).
  Proof.
    split; [exact ex_labels|]. split.
    { intros l H. cbn in H. repeat destruct H as [H|H]; try (subst l; reflexivity); destruct H. }
    split; [apply Permutation_rev|]. split; [left; reflexivity|]. split; [left; reflexivity|].
    split; eexists; vm_compute; reflexivity.
  Qed.

  (** the induced permutation on this example, computed: site-major a,ab,b  ->  spin-major c,m,z *)
  Example ex_perm_values :
    match prepare_lattice true false ex_calls, prepare_lattice true true ex_calls2 with
    | Done t1, Done t2 => map (index_perm t1 t2 ex_f) (seq 0 11) = [5; 9; 10; 2; 6; 3; 7; 4; 8; 0; 1]
    | _, _ => False
    end.
  Proof. vm_compute. reflexivity. Qed.
End Examples.
