(** The spine for the two-particle Green's function chi_{ijkl}(z1, z2; z3) (C02): the model pipeline composed from the models of
    the individual layers.  DEFINITIONS ONLY (executable); theorems: SpineChiPart.v (one part on dense data), SpineChiOneBlock.v
    (the one-block partition), statements in props/Properties_Spine.v.

      eigen-data, weights                    inputs / PV.Thermal.dm_compute                         (C09)   [Spine.spine_dm]
      FieldOperator::prepare / compute       PV.HPart.fo_prepare + fop_dense                        (C07/C10) [Spine.op_compute]
      FieldOperatorPart row-/col-major value the slices Chi.v's walk iterates over: per outer index the stored (inner index, value)
                                             pairs of Eigen's compressed storage = what HPart.prune keeps, in increasing inner index
                                             ([smat_rows] / [smat_cols]; the same [Spine.sparse_row] as in the G spine)
      TwoParticleGF::prepare                 PV.Chi.gf_prepare  (six permutations per pair of CX4's bimap; stripe condition and
                                             retention test of TwoParticleGF.cpp:68-106 = ThermalGen / Gen_RetainTPGF)
      TwoParticleGFPart::compute             PV.Chi.part_compute (merge walks, addMultiterm, the two term lists)
      TwoParticleGF::compute / operator()    PV.Chi.gf_compute (no table, no purge) then PV.Chi.gf_value on demand

    Two entry points: [spine_chi_dense] (one block; the four operators given as dense matrices in the eigenbasis -- the route the
    one-block theorem is about) and [spine_chi] (any classification, the operators computed by Spine.op_compute). *)
Require Import Bool List Arith ZArith.
From PV Require Import Outcome Fock Poly EDSpec HPart HPartSpec Sparse Spine Chi.
From PV Require Symm Thermal.
Import ListNotations.

Section ChiModel.
Variable K : Type.
Variable NO : numops K.
Variable keepf : K -> bool.          (* what sparseView / prune keeps *)

(** RowMajor: outer = row; ColMajor: outer = column (of a matrix with [ncols] columns) *)
Definition smat_rows (D : mat K) : smat K := map (sparse_row K keepf) D.
Definition smat_cols (ncols : nat) (D : mat K) : smat K := smat_rows (transpose K NO ncols D).

(** on-demand evaluation: prepare, compute without table and without purge; the value is Chi.gf_value of the result *)
Definition chi_on_demand (g : nat) (tl : tols K) (wd : world K) : outcome (gf_st K) :=
  bind (Chi.gf_prepare K wd) (fun ps =>
  bind (Chi.gf_compute K NO g tl false [] (gf_prepared K ps)) (fun ts => Done (snd ts))).

(** * one block: a field operator with the single part (0, 0) *)
Definition fieldop1 (n : nat) (D : mat K) : fieldop K :=
  {| fo_map := [(0, 0)%Z]; fo_parts := [(0%Z, (smat_rows D, smat_cols n D))] |}.
Definition world1 (n : nat) (beta : K) (E w : list K) (D1 D2 D3 D4 : mat K) : world K :=
  {| w_E := [E]; w_W := [w]; w_ret := [true]; w_beta := beta;
     w_C1 := fieldop1 n D1; w_C2 := fieldop1 n D2; w_CX3 := fieldop1 n D3; w_CX4 := fieldop1 n D4 |}.
Definition spine_chi_dense (g : nat) (tl : tols K) (n : nat) (beta : K) (E w : list K) (D1 D2 D3 D4 : mat K) : outcome (gf_st K) :=
  chi_on_demand g tl (world1 n beta E w D1 D2 D3 D4).

(** one block, the inputs produced by the other layers: weights from Thermal.dm_compute on the single block (C09), the four
    operators = the Jordan-Wigner matrices rotated by the eigenvector matrix U (C10: what FieldOperatorPart::compute stores for
    the single block pair, SpinePartition.rotated_block_entry) *)
Definition spine_chi_one_block_run (g : nat) (tl : tols K) (M : nat) (E : list K) (U : mat K) (beta : K) (i j k l : nat)
  : outcome (gf_st K) :=
  bind (spine_dm K NO beta (one_block M) [(E, U)]) (fun D =>
    spine_chi_dense g tl (Nat.pow 2 M) beta E (assembled_w K D)
      (rotate K NO (Nat.pow 2 M) U (op_matrix K NO M (cann i))) (rotate K NO (Nat.pow 2 M) U (op_matrix K NO M (cann j)))
      (rotate K NO (Nat.pow 2 M) U (op_matrix K NO M (cdag k))) (rotate K NO (Nat.pow 2 M) U (op_matrix K NO M (cdag l)))).

(** * any classification: the operators from Spine.op_compute *)
Variable fb : bool.
Variable eps : K.
(** mapPartsFromLeft is a std::map filled with operator[]=: the last part with the key wins ([find] on the reversed list) *)
Definition chi_fieldop (S : classification) (parts : list ((nat * nat) * mat K)) : fieldop K :=
  {| fo_map := map (fun lr => (Z.of_nat (fst lr), Z.of_nat (snd lr))) (fo_bimap (map fst parts));
     fo_parts := map (fun e => (Z.of_nat (fst (fst e)),
                                (smat_rows (snd e), smat_cols (block_size S (snd (fst e))) (snd e)))) (rev parts) |}.
Definition spine_chi_world (S : classification) (ED : eigdata K) (D : list (Thermal.dmpart K)) (beta : K)
           (p1 p2 p3 p4 : list ((nat * nat) * mat K)) : world K :=
  {| w_E := map fst ED; w_W := map (Thermal.dp_weights K) D; w_ret := map (Thermal.dp_retained K) D; w_beta := beta;
     w_C1 := chi_fieldop S p1; w_C2 := chi_fieldop S p2; w_CX3 := chi_fieldop S p3; w_CX4 := chi_fieldop S p4 |}.
Definition spine_chi (g : nat) (tl : tols K) (S : classification) (ED : eigdata K) (beta : K) (i j k l : nat) : outcome (gf_st K) :=
  bind (spine_dm K NO beta S ED) (fun D =>
  bind (op_compute K NO fb eps S ED (FC i)) (fun p1 =>
  bind (op_compute K NO fb eps S ED (FC j)) (fun p2 =>
  bind (op_compute K NO fb eps S ED (FCdag k)) (fun p3 =>
  bind (op_compute K NO fb eps S ED (FCdag l)) (fun p4 =>
    chi_on_demand g tl (spine_chi_world S ED D beta p1 p2 p3 p4)))))).

End ChiModel.
