(** Bridge 2 of the spine: the Hamiltonian layer.

    [eigensystem n H U E]        the EXACT certificate, entry by entry:  H U = U diag(E)  and  U^+ U = 1   (n x n, list-of-rows);
    [assembled_eigensystem]      for any partition satisfying [partition_ok] and any Hermitian-or-not matrix H without matrix
                                 elements between blocks: if every (E_b, U_b) is an eigen-system of the restriction of H to block b,
                                 the assembled (E, U) of PV.Spine is an eigen-system of H  (the list-level counterpart of C03's
                                 mathcomp statements blocks_diagonalise_full / blocks_unitary);
    [poly_matrix_coef]           the entries of EDSpec.poly_matrix are PolySem.coef_poly (the two specifications of <t|P|s>);
    [symm_H_block_diagonal]      C07 H_block_diagonal transported to the bridged classification and EDSpec.poly_matrix;
    [symm_respects]              ... in the form C03 needs (HPartProofs.respects), for every block;
    [spine_hblocks_symmetry]     the blocks filled by the model of HamiltonianPart::prepare on the partition produced by the
                                 symmetry analysis ARE the restrictions of poly_matrix h  (C03 hpart_prepare_is_restriction; needs
                                 the exact zero test of Operator::actRight, as C03 does);
    [spine_symmetry_eigensystem] corollary: certificates for THOSE blocks => (assembled E, assembled U) is an exact eigen-system of
                                 poly_matrix h, the Jordan-Wigner matrix of the Hamiltonian polynomial.
    Number type: one type K for the Hamiltonian polynomial, the symmetry analysis and the numerics (ring operations of [numops],
    an exact zero test [kzero], no zero divisors).  No axioms. *)
Require Import Bool List Arith Lia Ring Ring_theory.
From PV Require Import Outcome Fock Poly PolySem EDSpec HPart HPartSpec HPartProofs BigSum GFFullProofs
     Spine SpineLinAlg SpinePartition SpineBridge.
From PV Require Symm SymmProofs AlgebraBasics.
Import ListNotations.

(** * The exact certificate *)
Definition eigensystem (K : Type) (NO : numops K) (n : nat) (H U : mat K) (E : list K) : Prop :=
  (forall r k, r < n -> k < n ->
     mget K NO (mmul K NO n H U) r k = nmul K NO (mget K NO U r k) (nth k E (n0 K NO))) /\
  (forall k k', k < n -> k' < n ->
     mget K NO (mmul K NO n (adjoint K NO n U) U) k k' = if k =? k' then n1 K NO else n0 K NO).

Lemma off_split (dim : nat -> nat) : forall n g, g < off dim n -> exists b k, b < n /\ k < dim b /\ g = off dim b + k.
Proof.
  induction n as [|n IH]; intros g Hg; cbn [off] in Hg; [lia|].
  destruct (Nat.lt_ge_cases g (off dim n)) as [H|H].
  - destruct (IH g H) as [b [k [Hb [Hk E]]]]. exists b, k. repeat split; try assumption. lia.
  - exists n, (g - off dim n). repeat split; lia.
Qed.

Lemma off_inj (dim : nat -> nat) b k b' k' : k < dim b -> k' < dim b' -> off dim b + k = off dim b' + k' -> b = b' /\ k = k'.
Proof.
  intros Hk Hk' E. destruct (Nat.lt_trichotomy b b') as [H|[H|H]].
  - pose proof (off_mono dim b b' H). lia.
  - subst b'. split; [reflexivity|lia].
  - pose proof (off_mono dim b' b H). lia.
Qed.

Section Assembled.
Variable K : Type.
Variable NO : numops K.
Notation k0 := (n0 K NO).
Notation k1 := (n1 K NO).
Notation kadd := (nadd K NO).
Notation ksub := (nsub K NO).
Notation kmul := (nmul K NO).
Notation kopp := (nopp K NO).
Notation conj := (nconj K NO).
Hypothesis Kr : ring_theory k0 k1 kadd kmul ksub kopp (@eq K).
Hypothesis conj0 : conj k0 = k0.
Add Ring KringSBH : Kr.
Notation bsum := (bigsum K k0 kadd).
Let BS_ext := @bigsum_ext K k0 kadd.
Let BS_zero := @bigsum_zero K k0 k1 kadd kmul ksub kopp Kr.

Lemma restrict_entry (m : mat K) (rows cols : list nat) r q : r < length rows -> q < length cols ->
  mget K NO (restrict K NO m rows cols) r q = mget K NO m (nth r rows 0) (nth q cols 0).
Proof.
  intros Hr Hq. unfold restrict. unfold mget at 1.
  rewrite (nth_indep _ [] (map (fun s => mget K NO m 0 s) cols)) by (rewrite map_length; exact Hr).
  rewrite (map_nth (fun t => map (fun s => mget K NO m t s) cols) rows 0 r).
  rewrite (nth_indep _ k0 (mget K NO m (nth r rows 0) 0)) by (rewrite map_length; exact Hq).
  rewrite (map_nth (fun s => mget K NO m (nth r rows 0) s) cols 0 q). reflexivity.
Qed.

Lemma restrict_length (m : mat K) (rows cols : list nat) : length (restrict K NO m rows cols) = length rows.
Proof. unfold restrict. apply map_length. Qed.
Lemma restrict_row_length (m : mat K) (rows cols : list nat) r : r < length rows ->
  length (nth r (restrict K NO m rows cols) []) = length cols.
Proof.
  intros Hr. unfold restrict.
  rewrite (nth_indep _ [] (map (fun s => mget K NO m 0 s) cols)) by (rewrite map_length; exact Hr).
  rewrite (map_nth (fun t => map (fun s => mget K NO m t s) cols) rows 0 r). apply map_length.
Qed.

Variable S : classification.
Variable ED : eigdata K.
Hypothesis PO : partition_ok S.
Hypothesis EO : eig_ok K S ED.
Notation nb := (length (sc_states S)).
Notation dimf := (block_size S).
Notation N := (state_size S).
Notation states b := (nth b (sc_states S) []) (only parsing).
Notation Ug := (assembled_U K NO S ED).
Notation Eg := (assembled_E K ED).
Notation offs := (off (block_size S)).

Variable H : mat K.
Hypothesis H_sq : square K N H.
(** no matrix element between blocks *)
Hypothesis HBD : forall s t, s < N -> t < N -> block_of S s <> block_of S t -> mget K NO H s t = k0.

Definition Hblock (b : nat) : mat K := restrict K NO H (states b) (states b).
Hypothesis CERT : forall b, b < nb -> eigensystem K NO (dimf b) (Hblock b) (Uof K ED b) (Eof K ED b).

Lemma Eg_entry b k : b < nb -> k < dimf b -> nth (offs b + k) Eg k0 = nth k (Eof K ED b) k0.
Proof.
  intros Hb Hk. unfold assembled_E. rewrite (offs_concat S (map fst ED) k0 b k); try assumption.
  - unfold Eof. change (@nil K) with (fst (@nil K, @nil (list K))). rewrite map_nth. reflexivity.
  - rewrite map_length. exact (eo_len K S ED EO).
  - intros b' Hb'. change (@nil K) with (fst (@nil K, @nil (list K))). rewrite map_nth. exact (eo_E K S ED EO b' Hb').
Qed.

Lemma state_at_pos s : s < N -> nth (pos_in S s) (states (block_of S s)) 0 = s /\ pos_in S s < dimf (block_of S s).
Proof.
  intros Hs. destruct (po_cover S PO s Hs) as [Hb Hin]. destruct (In_nth _ _ 0 Hin) as [r [Hr E]].
  assert (Ep : pos_in S s = r) by (rewrite <- E; apply (pos_in_nth S PO (block_of S s) r Hb Hr)).
  rewrite Ep. split; [exact E|exact Hr].
Qed.

(** a sum over all labels against column (b, k) of the assembled U is a sum over the positions of block b *)
Lemma bsum_block_column (f : nat -> K) b k : b < nb -> k < dimf b ->
  bsum (seq 0 N) (fun t => kmul (f t) (mget K NO Ug t (offs b + k))) =
  bsum (seq 0 (dimf b)) (fun m => kmul (f (nth m (states b) 0)) (mget K NO (Uof K ED b) m k)).
Proof.
  intros Hb Hk.
  transitivity (bsum (seq 0 N) (fun t => if existsb (Nat.eqb t) (states b)
                                         then kmul (f t) (mget K NO (Uof K ED b) (pos_in S t) k) else k0)).
  { apply BS_ext. intros t Ht. apply in_seq in Ht. rewrite (Ug_entry K NO S ED EO t b k) by lia.
    rewrite (blk_mem S PO t b) by lia. destruct (existsb (Nat.eqb t) (states b)); ring. }
  rewrite (bsum_members K NO Kr N (states b)) by (try apply (states_nodup S PO b Hb); intros s Hs; apply (blk_in S PO b s Hb Hs)).
  rewrite (bsum_positions K NO 0). apply BS_ext. intros m Hm. apply in_seq in Hm.
  rewrite (pos_in_nth S PO b m Hb) by (unfold block_size in *; lia). reflexivity.
Qed.

Theorem assembled_eigensystem : eigensystem K NO N H Ug Eg.
Proof.
  pose proof (Ug_square K NO S ED PO EO) as [HUl HUr]. destruct H_sq as [HHl HHr].
  split.
  - intros s g Hs Hg.
    destruct (off_split dimf nb g) as [b [k [Hb [Hk ->]]]]; [rewrite (offs_total S PO); exact Hg|].
    rewrite (mmul_entry_sum K NO Kr N H Ug s (offs b + k) N) by (try rewrite HHl; try apply HHr; assumption).
    rewrite (bsum_block_column (fun t => mget K NO H s t) b k Hb Hk).
    rewrite (Eg_entry b k Hb Hk). rewrite (Ug_entry K NO S ED EO s b k Hs Hb Hk).
    destruct (Nat.eqb_spec b (block_of S s)) as [E|NE].
    + destruct (state_at_pos s Hs) as [Est Hr]. rewrite <- E in Est, Hr. set (r := pos_in S s) in *.
      destruct (CERT b Hb) as [C1 _]. rewrite <- (C1 r k Hr Hk).
      rewrite (mmul_entry_sum K NO Kr (dimf b) (Hblock b) (Uof K ED b) r k (dimf b)).
      * apply BS_ext. intros m Hm. apply in_seq in Hm. unfold Hblock. rewrite restrict_entry by (unfold block_size in *; lia).
        rewrite Est. reflexivity.
      * unfold Hblock. rewrite restrict_length. exact Hr.
      * exact Hk.
      * unfold Hblock. apply restrict_row_length. exact Hr.
      * exact (proj1 (eo_U K S ED EO b Hb)).
    + transitivity (n0 K NO); [|ring]. apply BS_zero. intros m Hm. apply in_seq in Hm.
      assert (Hin : In (nth m (states b) 0) (states b)) by (apply nth_In; unfold block_size in Hm; lia).
      destruct (blk_in S PO b _ Hb Hin) as [Hlt Eb].
      rewrite (HBD s (nth m (states b) 0) Hs Hlt) by congruence. ring.
  - intros g g' Hg Hg'.
    destruct (off_split dimf nb g) as [b [k [Hb [Hk ->]]]]; [rewrite (offs_total S PO); exact Hg|].
    destruct (off_split dimf nb g') as [b' [k' [Hb' [Hk' ->]]]]; [rewrite (offs_total S PO); exact Hg'|].
    rewrite (mmul_entry_sum K NO Kr N (adjoint K NO N Ug) Ug (offs b + k) (offs b' + k') N);
      [|rewrite adjoint_length; exact Hg|exact Hg'|rewrite adjoint_row by exact Hg; rewrite map_length; exact HUl|exact HUl].
    transitivity (bsum (seq 0 N) (fun s => kmul (conj (mget K NO Ug s (offs b + k))) (mget K NO Ug s (offs b' + k')))).
    { apply BS_ext. intros s Hs. apply in_seq in Hs. rewrite adjoint_entry by (rewrite ?HUl; lia). reflexivity. }
    rewrite (bsum_block_column (fun s => conj (mget K NO Ug s (offs b + k))) b' k' Hb' Hk').
    destruct (Nat.eq_dec b b') as [<-|NE].
    + transitivity (bsum (seq 0 (dimf b)) (fun m => kmul (mget K NO (adjoint K NO (dimf b) (Uof K ED b)) k m) (mget K NO (Uof K ED b) m k'))).
      { apply BS_ext. intros m Hm. apply in_seq in Hm.
        assert (Hin : In (nth m (states b) 0) (states b)) by (apply nth_In; unfold block_size in Hm; lia).
        destruct (blk_in S PO b _ Hb Hin) as [Hlt Eb].
        rewrite (Ug_entry K NO S ED EO _ b k Hlt Hb Hk). rewrite Eb, Nat.eqb_refl.
        rewrite (pos_in_nth S PO b m Hb) by lia.
        rewrite adjoint_entry by (rewrite ?(proj1 (eo_U K S ED EO b Hb)); lia). reflexivity. }
      destruct (CERT b Hb) as [_ C2]. rewrite <- (mmul_entry_sum K NO Kr (dimf b) (adjoint K NO (dimf b) (Uof K ED b)) (Uof K ED b) k k' (dimf b)).
      * rewrite (C2 k k' Hk Hk'). destruct (Nat.eqb_spec k k') as [->|NE]; [rewrite Nat.eqb_refl; reflexivity|].
        destruct (Nat.eqb_spec (offs b + k) (offs b + k')) as [E|_]; [lia|reflexivity].
      * rewrite adjoint_length. exact Hk.
      * exact Hk'.
      * rewrite adjoint_row by exact Hk. rewrite map_length. exact (proj1 (eo_U K S ED EO b Hb)).
      * exact (proj1 (eo_U K S ED EO b Hb)).
    + destruct (Nat.eqb_spec (offs b + k) (offs b' + k')) as [E|_].
      { exfalso. destruct (off_inj dimf b k b' k' Hk Hk' E). contradiction. }
      apply BS_zero. intros m Hm. apply in_seq in Hm.
      assert (Hin : In (nth m (states b') 0) (states b')) by (apply nth_In; unfold block_size in Hm; lia).
      destruct (blk_in S PO b' _ Hb' Hin) as [Hlt Eb].
      rewrite (Ug_entry K NO S ED EO _ b k Hlt Hb Hk). rewrite Eb.
      destruct (Nat.eqb_spec b b') as [E|_]; [contradiction|]. rewrite conj0. ring.
Qed.

End Assembled.

(** * The two specifications of a matrix element agree: EDSpec.poly_matrix and PolySem.coef_poly *)
Section Coef.
Variable K : Type.
Variable NO : numops K.
Notation k0 := (n0 K NO).
Notation k1 := (n1 K NO).
Notation kadd := (nadd K NO).
Notation ksub := (nsub K NO).
Notation kmul := (nmul K NO).
Notation kopp := (nopp K NO).
Hypothesis Kr : ring_theory k0 k1 kadd kmul ksub kopp (@eq K).
Add Ring KringSBC : Kr.
Notation cp := (coef_poly K k0 k1 kadd kmul kopp).

Lemma pm_term_coef M s t (mc : monomial * K) : t < Nat.pow 2 M ->
  pm_term K NO M s t mc = kmul (snd mc) (coef_mono K k0 k1 kopp (fst mc) (state_of_nat M s) (state_of_nat M t)).
Proof.
  intros Ht. unfold pm_term, mono_entry, coef_mono.
  destruct (act_mono (fst mc) (state_of_nat M s)) as [[[sg s']|]| | | |] eqn:E; try ring.
  pose proof (AlgebraBasics.act_mono_length _ _ _ _ E) as Hl. rewrite state_of_nat_length in Hl.
  rewrite <- (nat_of_state_of_nat M t Ht) at 1.
  rewrite (SymmProofs.nat_eqb_state_eqb s' (state_of_nat M t)) by (rewrite state_of_nat_length; exact Hl).
  destruct (state_eqb s' (state_of_nat M t)); [destruct sg|]; ring.
Qed.

Theorem poly_matrix_coef M (p : poly K) s t : s < Nat.pow 2 M -> t < Nat.pow 2 M ->
  mget K NO (poly_matrix K NO M p) t s = cp p (state_of_nat M s) (state_of_nat M t).
Proof.
  intros Hs Ht. rewrite (poly_matrix_entry K NO M p t s Ht Hs).
  rewrite (fold_left_bigsum K k0 k1 kadd kmul ksub kopp Kr).
  transitivity (bigsum K k0 kadd p (pm_term K NO M s t)); [ring|].
  unfold coef_poly. induction p as [|mc p IH]; [reflexivity|]. cbn [bigsum fold_right]. rewrite IH, (pm_term_coef M s t mc Ht). reflexivity.
Qed.
End Coef.

(** * The Hamiltonian on the partition produced by the symmetry analysis *)
Section SymmetryHamiltonian.
Variable K : Type.
Variable NO : numops K.
Notation k0 := (n0 K NO).
Notation k1 := (n1 K NO).
Notation kadd := (nadd K NO).
Notation ksub := (nsub K NO).
Notation kmul := (nmul K NO).
Notation kopp := (nopp K NO).
Variable kzero : K -> bool.
Variable khalf : K.
Hypothesis Kr : ring_theory k0 k1 kadd kmul ksub kopp (@eq K).
Hypothesis Kzero : forall x, kzero x = true <-> x = k0.
Hypothesis Kdom : forall a b : K, kmul a b = k0 -> a = k0 \/ b = k0.
Let RING : ring_ok K k0 k1 kadd kmul ksub kopp kzero := conj Kr Kzero.
Notation sc_compute := (Symm.sc_compute K k0 kadd ksub kopp kzero).
Notation symmetrize := (Symm.symmetrize K k0 k1 kadd kmul ksub kopp kzero khalf).

Variables (fz sf : bool) (mode : Symm.symm_mode K) (spins : list nat) (h : poly K).
Notation N := (length spins).
Hypothesis h_range : poly_in_range K N h.
Hypothesis cands_range : match mode with Symm.SymmCustom _ cands => Forall (poly_in_range K N) cands | _ => True end.
Variable sy : Symm.symm K.
Hypothesis Esy : symmetrize fz sf mode spins h = Done sy.
Variable c : Symm.qclass K.
Hypothesis Ec : sc_compute N (Symm.sy_ops sy) = Done c.
Notation S := (bridge N c).

Lemma ops_range : Forall (poly_in_range K N) (Symm.sy_ops sy).
Proof. exact (proj1 (SymmProofs.symmetrize_done K k0 k1 kadd kmul ksub kopp kzero khalf RING fz sf mode spins h sy cands_range Esy)). Qed.

Theorem symm_partition_ok_H : partition_ok S.
Proof. exact (symm_partition_ok K k0 k1 kadd kmul ksub kopp kzero RING N (Symm.sy_ops sy) c ops_range Ec). Qed.

(** C07 H_block_diagonal, for the bridged classification and the Jordan-Wigner matrix of EDSpec *)
Theorem symm_H_block_diagonal : forall s t, s < Nat.pow 2 N -> t < Nat.pow 2 N -> block_of S s <> block_of S t ->
  mget K NO (poly_matrix K NO N h) s t = k0.
Proof.
  intros s t Hs Ht NE. apply Kzero. destruct (kzero (mget K NO (poly_matrix K NO N h) s t)) eqn:Z; [reflexivity|]. exfalso. apply NE.
  assert (Hne : mget K NO (poly_matrix K NO N h) s t <> k0) by (intro E; apply Kzero in E; congruence).
  rewrite (poly_matrix_coef K NO Kr N h t s Ht Hs) in Hne.
  destruct (SymmProofs.H_block_diagonal K k0 k1 kadd kmul ksub kopp kzero khalf RING Kdom fz sf mode spins h sy c
              h_range cands_range Esy Ec t s Ht Hs Hne) as [b [G1 G2]].
  unfold block_of. cbn [bridge sc_index].
  rewrite (nth_error_nth _ _ 0 (gbn_nth (list K) N c s b Hs G2)), (nth_error_nth _ _ 0 (gbn_nth (list K) N c t b Ht G1)). reflexivity.
Qed.

Theorem symm_respects b : b < length (sc_states S) -> respects K NO N h (nth b (sc_states S) []).
Proof.
  intros Hb r t Hr Ht Hnot. destruct (blk_in S symm_partition_ok_H b r Hb Hr) as [Hrl Eb].
  apply symm_H_block_diagonal; [exact Ht|exact Hrl|]. intro E. apply Hnot. rewrite <- Eb, <- E.
  exact (proj2 (po_cover S symm_partition_ok_H t Ht)).
Qed.

(** C03: the blocks filled by HamiltonianPart::prepare are the restrictions of the Jordan-Wigner matrix of h *)
Variable fb : bool.
Variable eps : K.
Hypothesis zero_test_exact : forall x, is_zero K NO eps x = true <-> x = k0.

Theorem spine_hblocks_symmetry :
  spine_hblocks K NO fb eps S h = Done (map (Hblock K NO S (poly_matrix K NO N h)) (seq 0 (length (sc_states S)))).
Proof.
  unfold spine_hblocks. apply outcome_map_all_done. intros b Hb. apply in_seq in Hb.
  assert (add0l : forall x, kadd k0 x = x) by (intro x; apply (Radd_0_l Kr)).
  assert (addr0 : forall x, kadd x k0 = x) by (intro x; rewrite (Radd_comm Kr); apply (Radd_0_l Kr)).
  unfold Hblock.
  apply (hpart_prepare_is_restriction fb K NO eps add0l addr0 zero_test_exact S h b (nth b (sc_states S) [])).
  - exact (po_wf S symm_partition_ok_H).
  - exact h_range.
  - apply nth_error_nth'. lia.
  - apply symm_respects. lia.
Qed.

(** corollary: exact certificates for THOSE blocks make the assembled (E, U) an exact eigen-system of the Jordan-Wigner
    matrix of the Hamiltonian polynomial *)
Hypothesis conj0 : nconj K NO k0 = k0.
Theorem spine_symmetry_eigensystem (ED : eigdata K) (Hs : list (mat K)) :
  eig_ok K S ED ->
  spine_hblocks K NO fb eps S h = Done Hs ->
  (forall b, b < length (sc_states S) -> eigensystem K NO (block_size S b) (nth b Hs []) (Uof K ED b) (Eof K ED b)) ->
  eigensystem K NO (Nat.pow 2 N) (poly_matrix K NO N h) (assembled_U K NO S ED) (assembled_E K ED).
Proof.
  intros EO HH CERT. rewrite spine_hblocks_symmetry in HH. injection HH as <-.
  apply (assembled_eigensystem K NO Kr conj0 S ED symm_partition_ok_H EO (poly_matrix K NO N h) (poly_matrix_square K NO S h)
           symm_H_block_diagonal).
  intros b Hb. specialize (CERT b Hb).
  rewrite nth_map_seq in CERT by exact Hb. exact CERT.
Qed.

End SymmetryHamiltonian.
