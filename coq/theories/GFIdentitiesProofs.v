(** C11 -- proofs about the Lehmann sums of PV.GFIdentities (all finite Lehmann data).
    Layer 1: characterisation of the GENERATED per-term formulas (Gen_GFTau) at R and C.
    Layer 2: the identities, using only layer 1. *)
Require Import Reals List ZArith Bool Arith Lia Lra.
From Coquelicot Require Import Coquelicot.
From PV Require Import EDSpec GFIdentities.
From PVgen Require Import Gen_GFTau.
Import ListNotations.
Local Open Scope R_scope.

(** * Finite sums *)
Lemma csum_app : forall l1 l2, csum (l1 ++ l2) = (csum l1 + csum l2)%C.
Proof.
  induction l1 as [|a l1 IH]; intros l2; simpl.
  - now rewrite Cplus_0_l.
  - rewrite IH. now rewrite Cplus_assoc.
Qed.

Lemma csum_map_plus : forall {A} (f g : A -> C) l,
  csum (map (fun a => (f a + g a)%C) l) = (csum (map f l) + csum (map g l))%C.
Proof.
  intros A f g l. induction l as [|a l IH]; simpl.
  - now rewrite Cplus_0_l.
  - rewrite IH. ring.
Qed.

Lemma csum_map_scal : forall {A} (c : C) (f : A -> C) l,
  csum (map (fun a => (c * f a)%C) l) = (c * csum (map f l))%C.
Proof.
  intros A c f l. induction l as [|a l IH]; simpl.
  - now rewrite Cmult_0_r.
  - rewrite IH. ring.
Qed.

Lemma csum_map_opp : forall {A} (f : A -> C) l,
  csum (map (fun a => (- f a)%C) l) = (- csum (map f l))%C.
Proof.
  intros A f l. induction l as [|a l IH]; simpl.
  - now rewrite Copp_0.
  - rewrite IH. ring.
Qed.

Lemma csum_map_ext_in : forall {A} (f g : A -> C) l,
  (forall a, In a l -> f a = g a) -> csum (map f l) = csum (map g l).
Proof. intros A f g l H. f_equal. now apply map_ext_in. Qed.

Lemma csum_map_zero : forall {A} (f : A -> C) l,
  (forall a, In a l -> f a = RtoC 0) -> csum (map f l) = RtoC 0.
Proof.
  intros A f l. induction l as [|a l IH]; intros H; simpl; [reflexivity|].
  rewrite H by now left. rewrite IH by (intros; apply H; now right). now rewrite Cplus_0_l.
Qed.

Lemma csum_flat_map : forall {A B} (f : A -> list B) (g : B -> C) l,
  csum (map g (flat_map f l)) = csum (map (fun a => csum (map g (f a))) l).
Proof.
  intros A B f g l. induction l as [|a l IH]; simpl; [reflexivity|].
  rewrite map_app, csum_app, IH. reflexivity.
Qed.

(** exchange of two finite sums *)
Lemma csum_swap : forall {A B} (f : A -> B -> C) (la : list A) (lb : list B),
  csum (map (fun a => csum (map (fun b => f a b) lb)) la) =
  csum (map (fun b => csum (map (fun a => f a b) la)) lb).
Proof.
  intros A B f la lb. induction la as [|a la IH]; simpl.
  - symmetry. now apply csum_map_zero.
  - rewrite IH. now rewrite <- csum_map_plus.
Qed.

Lemma csum_conj : forall l, Cconj (csum l) = csum (map Cconj l).
Proof.
  induction l as [|a l IH]; simpl.
  - unfold Cconj, RtoC; simpl. now rewrite Ropp_0.
  - rewrite <- IH. unfold Cconj, Cplus; simpl. f_equal. ring.
Qed.

Lemma csum_Re : forall l, Re (csum l) = rsum (map Re l).
Proof. induction l as [|a l IH]; simpl; [reflexivity|]. now rewrite <- IH. Qed.
Lemma csum_Im : forall l, Im (csum l) = rsum (map Im l).
Proof. induction l as [|a l IH]; simpl; [reflexivity|]. now rewrite <- IH. Qed.

Lemma csum_RtoC : forall l, csum (map RtoC l) = RtoC (rsum l).
Proof. induction l as [|a l IH]; simpl; [reflexivity|]. rewrite IH. now rewrite <- RtoC_plus. Qed.

Lemma rsum_map_ext_in : forall {A} (f g : A -> R) l,
  (forall a, In a l -> f a = g a) -> rsum (map f l) = rsum (map g l).
Proof. intros A f g l H. f_equal. now apply map_ext_in. Qed.

Lemma rsum_map_scal : forall {A} (c : R) (f : A -> R) l,
  rsum (map (fun a => c * f a) l) = c * rsum (map f l).
Proof. intros A c f l. induction l as [|a l IH]; simpl; [ring|]. rewrite IH. ring. Qed.

Lemma rsum_map_le : forall {A} (f g : A -> R) l,
  (forall a, In a l -> f a <= g a) -> rsum (map f l) <= rsum (map g l).
Proof.
  intros A f g l. induction l as [|a l IH]; intros H; simpl; [lra|].
  apply Rplus_le_compat; [apply H; now left | apply IH; intros; apply H; now right].
Qed.

Lemma rsum_map_nonneg : forall {A} (f : A -> R) l,
  (forall a, In a l -> 0 <= f a) -> 0 <= rsum (map f l).
Proof.
  intros A f l. induction l as [|a l IH]; intros H; simpl; [lra|].
  apply Rplus_le_le_0_compat; [apply H; now left | apply IH; intros; apply H; now right].
Qed.

Lemma rsum_map_pos : forall {A} (f : A -> R) l,
  (forall a, In a l -> 0 <= f a) -> (exists a, In a l /\ 0 < f a) -> 0 < rsum (map f l).
Proof.
  intros A f l. induction l as [|a l IH]; intros H [b [Hb Hpos]]; simpl.
  - destruct Hb.
  - assert (Ha : 0 <= f a) by (apply H; now left).
    assert (Hl : 0 <= rsum (map f l)) by (apply rsum_map_nonneg; intros; apply H; now right).
    destruct Hb as [->|Hb]; [lra|].
    assert (0 < rsum (map f l)) by (apply IH; [intros; apply H; now right | exists b; split; assumption]).
    lra.
Qed.

Lemma Cmod_csum_le : forall l, Cmod (csum l) <= rsum (map Cmod l).
Proof.
  induction l as [|a l IH]; simpl.
  - rewrite Cmod_0. lra.
  - eapply Rle_trans; [apply Cmod_triangle|]. lra.
Qed.

(** * Layer 1: the generated per-term formulas *)

Lemma Rltb_true : forall a b, Rltb a b = true <-> a < b.
Proof. intros a b. unfold Rltb. destruct (Rlt_dec a b); split; intros; try assumption; try reflexivity; try discriminate; contradiction. Qed.

(** frequency: Residue / (z - Pole).  (Proved by computation; the second alternative tolerates a reordering
    of the generated expression.) *)
Lemma term_z_eq : forall t z, term_z t z = (fst t / (z - RtoC (snd t)))%C.
Proof.
  intros t z. unfold term_z, term_freq. cbn [COps t_add t_sub t_mul t_div t_opp].
  first [ reflexivity | unfold Cdiv; repeat f_equal; ring ].
Qed.

(** the two branches, real instance *)
Lemma term_tau_then_R : forall r P tau beta,
  term_tau_then R ROps r P tau beta = - r * exp (- tau * P) / (1 + exp (- beta * P)).
Proof.
  intros r P tau beta. unfold term_tau_then. cbn [ROps t_add t_sub t_mul t_div t_opp t_exp t_ofZ].
  first [ reflexivity | pose proof (exp_pos (- beta * P)); field; lra ].
Qed.
Lemma term_tau_else_R : forall r P tau beta,
  term_tau_else R ROps r P tau beta = - r * exp ((beta - tau) * P) / (exp (beta * P) + 1).
Proof.
  intros r P tau beta. unfold term_tau_else. cbn [ROps t_add t_sub t_mul t_div t_opp t_exp t_ofZ].
  first [ reflexivity | pose proof (exp_pos (beta * P)); field; lra ].
Qed.

(** tau_branches_agree: the two overflow-avoiding branches are the same real function (both are
    defined everywhere: 1 + e^x > 0). *)
Theorem tau_branches_agree : forall r P tau beta,
  term_tau_then R ROps r P tau beta = term_tau_else R ROps r P tau beta.
Proof.
  intros r P tau beta. rewrite term_tau_then_R, term_tau_else_R.
  assert (E1 : exp ((beta - tau) * P) = exp (beta * P) * exp (- tau * P)).
  { rewrite <- exp_plus. f_equal. ring. }
  assert (E2 : exp (- beta * P) = / exp (beta * P)).
  { replace (- beta * P) with (- (beta * P)) by ring. apply exp_Ropp. }
  rewrite E1, E2.
  pose proof (exp_pos (beta * P)) as Hp. pose proof (exp_pos (- tau * P)) as Hq.
  field. split; lra.
Qed.

(** hence the generated term_tau is the closed form, whatever the sign of the pole *)
Lemma term_tR_closed : forall r P beta tau,
  term_tR r P beta tau = - r * exp (- tau * P) / (1 + exp (- beta * P)).
Proof.
  intros r P beta tau. unfold term_tR, term_tau.
  destruct (term_tau_cond R ROps r P tau beta).
  - apply term_tau_then_R.
  - rewrite <- tau_branches_agree. apply term_tau_then_R.
Qed.

(** complex residue: real and imaginary parts are the real formula applied to Re / Im of the residue *)
(** the branch condition does not depend on the residue, and is the same at C (real arguments embedded) and at R *)
Lemma term_tau_cond_same : forall (Rs : C) (r P tau beta : R),
  term_tau_cond C COps Rs (RtoC P) (RtoC tau) (RtoC beta) = term_tau_cond R ROps r P tau beta.
Proof. reflexivity. Qed.

Lemma term_t_parts : forall t beta tau,
  term_t t beta tau = (term_tR (Re (fst t)) (snd t) beta tau, term_tR (Im (fst t)) (snd t) beta tau).
Proof.
  intros [[a b] P] beta tau. unfold term_t, term_tR, term_tau. simpl fst; simpl snd.
  unfold Re, Im; simpl fst; simpl snd.
  rewrite <- (term_tau_cond_same (a, b) a P tau beta), <- (term_tau_cond_same (a, b) b P tau beta).
  destruct (term_tau_cond C COps (a, b) (RtoC P) (RtoC tau) (RtoC beta)).
  - rewrite !term_tau_then_R.
    unfold term_tau_then; simpl. unfold Cdiv, Cinv, Cmult, Copp, Cplus, RtoC; simpl.
    pose proof (exp_pos (- beta * P)) as Hp.
    replace (- beta * P - - 0 * 0) with (- beta * P) by ring.
    replace (- tau * P - - 0 * 0) with (- tau * P) by ring.
    f_equal; field; nra.
  - rewrite !term_tau_else_R.
    unfold term_tau_else; simpl. unfold Cdiv, Cinv, Cmult, Copp, Cplus, Cminus, RtoC; simpl.
    pose proof (exp_pos (beta * P)) as Hp.
    replace (beta * P - 0 * 0) with (beta * P) by ring.
    replace ((beta + - tau) * P - (0 + - 0) * 0) with ((beta - tau) * P) by ring.
    f_equal; field; nra.
Qed.

(** * Relation with the executable specification PV.EDSpec.gf (numops instantiated at CNum) *)

Lemma ksum_csum : forall {A} (l : list A) (f : A -> C) (a0 : C),
  fold_left (fun acc a => nadd C CNum acc (f a)) l a0 = (a0 + csum (map f l))%C.
Proof.
  intros A l f. induction l as [|a l IH]; intros a0; simpl.
  - now rewrite Cplus_0_r.
  - rewrite IH. now rewrite Cplus_assoc.
Qed.

Lemma ksum_is_csum : forall {A} (l : list A) (f : A -> C), ksum C CNum l f = csum (map f l).
Proof. intros A l f. unfold ksum. rewrite ksum_csum. simpl. now rewrite Cplus_0_l. Qed.

Lemma combine_map_self : forall {A B} (f : A -> B) (l : list A),
  combine l (map f l) = map (fun k => (k, f k)) l.
Proof. intros A B f l. induction l as [|a l IH]; simpl; [reflexivity|]. now rewrite IH. Qed.

Lemma idx_map_seq : forall {B} (f : nat -> B) d,
  idx (map f (seq 0 d)) = map (fun k => (k, f k)) (seq 0 d).
Proof. intros B f d. unfold idx. rewrite map_length, seq_length. apply combine_map_self. Qed.

Lemma nth_map_seq : forall {B} (f : nat -> B) d k dflt, (k < d)%nat -> nth k (map f (seq 0 d)) dflt = f k.
Proof.
  intros B f d k dflt H.
  rewrite (nth_indep _ dflt (f 0%nat)) by (now rewrite map_length, seq_length).
  rewrite map_nth. now rewrite seq_nth.
Qed.

Lemma mget_matC : forall d f r c, (r < d)%nat -> (c < d)%nat -> mget C CNum (matC d f) r c = f r c.
Proof.
  intros d f r c Hr Hc. unfold mget, matC. rewrite nth_map_seq by assumption. now apply nth_map_seq.
Qed.

Lemma idx_matC : forall d f, idx (matC d f) = map (fun r => (r, map (fun c => f r c) (seq 0 d))) (seq 0 d).
Proof. intros d f. unfold matC. apply idx_map_seq. Qed.

(** G of the structured data IS the specification's gf with CX_j[m][n] = conj(C_j[n][m]) *)
Theorem G_is_EDSpec_gf : forall D i j z,
  gf C CNum (tabR (dim D) (En D)) (tabR (dim D) (wn D))
     (matC (dim D) (cop D i)) (matC (dim D) (fun m n => Cconj (cop D j n m))) z
  = G D i j z.
Proof.
  intros D i j z. unfold gf, G, lehmann, gterms.
  rewrite ksum_is_csum. rewrite idx_matC, map_map.
  rewrite csum_flat_map. apply csum_map_ext_in. intros n Hn. apply in_seq in Hn. simpl fst; simpl snd.
  rewrite ksum_is_csum, idx_map_seq, !map_map. apply csum_map_ext_in. intros m Hm. apply in_seq in Hm.
  simpl fst; simpl snd. unfold tabR.
  rewrite mget_matC by lia. rewrite !nth_map_seq by lia.
  rewrite term_z_eq. simpl fst; simpl snd. unfold residue, pole. simpl.
  now rewrite <- RtoC_plus, <- RtoC_minus.
Qed.

(** * gf_conj_symmetry *)
Lemma Cconj_mult : forall a b : C, Cconj (a * b)%C = (Cconj a * Cconj b)%C.
Proof. intros [a1 a2] [b1 b2]. unfold Cconj, Cmult; simpl. f_equal; ring. Qed.
Lemma Cconj_inv : forall a : C, Cconj (/ a)%C = (/ Cconj a)%C.
Proof.
  intros [a1 a2]. unfold Cconj, Cinv; simpl.
  replace (- a2 * (- a2 * 1)) with (a2 * (a2 * 1)) by ring. f_equal. unfold Rdiv. ring.
Qed.
Lemma Cconj_minus_R : forall (z : C) (P : R), Cconj (z - RtoC P)%C = (Cconj z - RtoC P)%C.
Proof. intros [a b] P. unfold Cconj, Cminus, Cplus, Copp, RtoC; simpl. f_equal; ring. Qed.
Lemma Cconj_conj : forall a, Cconj (Cconj a) = a.
Proof. intros [a b]. unfold Cconj; simpl. f_equal. ring. Qed.
Lemma Cconj_R : forall x : R, Cconj (RtoC x) = RtoC x.
Proof. intros x. unfold Cconj, RtoC; simpl. f_equal. ring. Qed.

Definition conj_terms (l : list term) : list term := map (fun t => (Cconj (fst t), snd t)) l.

Lemma term_z_conj : forall t z, Cconj (term_z t z) = term_z (Cconj (fst t), snd t) (Cconj z).
Proof.
  intros t z. rewrite !term_z_eq. simpl fst; simpl snd. unfold Cdiv.
  now rewrite Cconj_mult, Cconj_inv, Cconj_minus_R.
Qed.

(** plain form: conjugating the value = conjugating residues and argument (poles are real) *)
Theorem lehmann_conj : forall l z, Cconj (lehmann l z) = lehmann (conj_terms l) (Cconj z).
Proof.
  intros l z. unfold lehmann, conj_terms. rewrite csum_conj, !map_map. f_equal.
  apply map_ext. intros t. apply term_z_conj.
Qed.

Lemma residue_conj : forall D i j n m, Cconj (residue D i j n m) = residue D j i n m.
Proof.
  intros D i j n m. unfold residue. rewrite !Cconj_mult, Cconj_conj, Cconj_R. ring.
Qed.

Lemma conj_gterms : forall D i j, conj_terms (gterms D i j) = gterms D j i.
Proof.
  intros D i j. unfold conj_terms, gterms. rewrite flat_map_concat_map, concat_map, map_map.
  rewrite <- flat_map_concat_map. apply flat_map_ext. intros n. rewrite map_map. apply map_ext. intros m.
  simpl. now rewrite residue_conj.
Qed.

(** conj(G_ij(z)) = G_ji(conj z), for every finite Lehmann data, every z (also at a pole: both sides
    are then the same value of Coq's total division) *)
Theorem gf_conj_symmetry : forall D i j z, Cconj (G D i j z) = G D j i (Cconj z).
Proof. intros D i j z. unfold G. now rewrite lehmann_conj, conj_gterms. Qed.

(** * gf_tail: z G(z) -> sum of residues, with an explicit bound *)

Lemma Cmod_minus_ge : forall (z : C) (P Pmax : R), Rabs P <= Pmax -> Cmod z - Pmax <= Cmod (z - RtoC P)%C.
Proof.
  intros z P Pmax HP.
  assert (H : Cmod z <= Cmod (z - RtoC P)%C + Cmod (RtoC P)).
  { replace z with ((z - RtoC P) + RtoC P)%C at 1 by ring. apply Cmod_triangle. }
  rewrite Cmod_R in H. lra.
Qed.

Lemma term_tail : forall (t : term) (z : C) (Pmax : R),
  Rabs (snd t) <= Pmax -> Pmax < Cmod z ->
  Cmod (z * term_z t z - fst t)%C <= Cmod (fst t * RtoC (snd t))%C / (Cmod z - Pmax).
Proof.
  intros [Rs P] z Pmax HP Hz. rewrite term_z_eq. simpl fst in *; simpl snd in *.
  pose proof (Cmod_minus_ge z P Pmax HP) as Hge.
  assert (Hpos : 0 < Cmod (z - RtoC P)%C) by lra.
  assert (Hne : (z - RtoC P)%C <> RtoC 0).
  { intros E. rewrite E, Cmod_0 in Hpos. lra. }
  replace (z * (Rs / (z - RtoC P)) - Rs)%C with ((Rs * RtoC P) / (z - RtoC P))%C by (field; exact Hne).
  rewrite Cmod_div by exact Hne.
  unfold Rdiv. apply Rmult_le_compat_l; [apply Cmod_ge_0|].
  apply Rinv_le_contravar; lra.
Qed.

(** plain form *)
Theorem lehmann_tail : forall (l : list term) (z : C) (Pmax : R),
  (forall t, In t l -> Rabs (snd t) <= Pmax) -> Pmax < Cmod z ->
  Cmod (z * lehmann l z - residue_sum l)%C <=
  rsum (map (fun t => Cmod (fst t * RtoC (snd t))%C) l) / (Cmod z - Pmax).
Proof.
  intros l z Pmax HP Hz. unfold lehmann, residue_sum.
  replace (z * csum (map (fun t => term_z t z) l) - csum (map fst l))%C
    with (csum (map (fun t => (z * term_z t z - fst t)%C) l)).
  2:{ unfold Cminus. rewrite csum_map_plus, csum_map_scal, csum_map_opp. reflexivity. }
  eapply Rle_trans; [apply Cmod_csum_le|]. rewrite map_map.
  unfold Rdiv. rewrite Rmult_comm, <- rsum_map_scal.
  apply rsum_map_le. intros t Ht. rewrite Rmult_comm. apply term_tail; [now apply HP | exact Hz].
Qed.

(** the sum of the residues of the structured data is the anticommutator expectation value *)
Lemma in_gterms : forall D i j t, In t (gterms D i j) ->
  exists n m, (n < dim D)%nat /\ (m < dim D)%nat /\ t = (residue D i j n m, pole D n m).
Proof.
  intros D i j t H. unfold gterms in H. apply in_flat_map in H. destruct H as [n [Hn H]].
  apply in_map_iff in H. destruct H as [m [Ht Hm]]. apply in_seq in Hn. apply in_seq in Hm.
  exists n, m. repeat split; try lia. now symmetry.
Qed.

Lemma gterms_in : forall D i j n m, (n < dim D)%nat -> (m < dim D)%nat ->
  In (residue D i j n m, pole D n m) (gterms D i j).
Proof.
  intros D i j n m Hn Hm. unfold gterms. apply in_flat_map. exists n. split; [apply in_seq; lia|].
  apply in_map_iff. exists m. split; [reflexivity | apply in_seq; lia].
Qed.

Lemma sum_over_gterms : forall D i j (g : term -> C),
  csum (map g (gterms D i j)) =
  csum (map (fun n => csum (map (fun m => g (residue D i j n m, pole D n m)) (seq 0 (dim D)))) (seq 0 (dim D))).
Proof.
  intros D i j g. unfold gterms. rewrite csum_flat_map. apply csum_map_ext_in. intros n _. now rewrite map_map.
Qed.

Theorem residue_sum_is_delta : forall D i j,
  car_diag D i j -> weights_normalised D -> residue_sum (gterms D i j) = delta i j.
Proof.
  intros D i j Hcar Hw. unfold residue_sum. rewrite sum_over_gterms. simpl fst.
  set (d := dim D). set (a := fun n m => (cop D i n m * Cconj (cop D j n m))%C).
  transitivity (csum (map (fun n => csum (map (fun m => (RtoC (wn D n) * a n m + RtoC (wn D m) * a n m)%C) (seq 0 d))) (seq 0 d))).
  { apply csum_map_ext_in; intros n _. apply csum_map_ext_in; intros m _.
    unfold residue, a. rewrite RtoC_plus. ring. }
  transitivity (csum (map (fun n => (csum (map (fun m => (RtoC (wn D n) * a n m)%C) (seq 0 d)) +
                                    csum (map (fun m => (RtoC (wn D m) * a n m)%C) (seq 0 d)))%C) (seq 0 d))).
  { apply csum_map_ext_in; intros n _. apply csum_map_plus. }
  rewrite csum_map_plus.
  rewrite (csum_swap (fun n m => (RtoC (wn D m) * a n m)%C)).
  rewrite <- csum_map_plus.
  transitivity (csum (map (fun n => (RtoC (wn D n) * delta i j)%C) (seq 0 d))).
  { apply csum_map_ext_in; intros n Hn. apply in_seq in Hn.
    rewrite !csum_map_scal, <- Cmult_plus_distr_l. f_equal.
    rewrite <- (Hcar n) by (unfold d in Hn; lia). unfold a. fold d. f_equal.
    apply csum_map_ext_in; intros m _. ring. }
  rewrite <- (map_map (fun n => RtoC (wn D n)) (fun x => (x * delta i j)%C)).
  replace (csum (map (fun x : C => (x * delta i j)%C) (map (fun n => RtoC (wn D n)) (seq 0 d))))
    with (delta i j * csum (map (fun n => RtoC (wn D n)) (seq 0 d)))%C.
  2:{ rewrite <- csum_map_scal, map_map. apply csum_map_ext_in; intros; ring. }
  rewrite <- (map_map (wn D) RtoC), csum_RtoC. unfold weights_normalised in Hw. fold d in Hw. rewrite Hw. ring.
Qed.

(** gf_tail: |z G_ij(z) - delta_ij| <= sum |R P| / (|z| - max|P|)  for |z| > max|P| *)
Theorem gf_tail : forall D i j (z : C) (Pmax : R),
  car_diag D i j -> weights_normalised D ->
  (forall n m, (n < dim D)%nat -> (m < dim D)%nat -> Rabs (pole D n m) <= Pmax) -> Pmax < Cmod z ->
  Cmod (z * G D i j z - delta i j)%C <=
  rsum (map (fun t => Cmod (fst t * RtoC (snd t))%C) (gterms D i j)) / (Cmod z - Pmax).
Proof.
  intros D i j z Pmax Hcar Hw HP Hz. rewrite <- (residue_sum_is_delta D i j Hcar Hw).
  apply lehmann_tail; [|exact Hz].
  intros t Ht. apply in_gterms in Ht. destruct Ht as [n [m [Hn [Hm ->]]]]. simpl. now apply HP.
Qed.

(** consequence in the usual form: z G_ij(z) -> delta_ij as |z| -> infinity *)
Corollary gf_tail_limit : forall D i j, car_diag D i j -> weights_normalised D ->
  forall eps, 0 < eps -> exists Rad, forall z : C, Rad < Cmod z -> Cmod (z * G D i j z - delta i j)%C < eps.
Proof.
  intros D i j Hcar Hw eps Heps.
  set (Pmax := rsum (map (fun t => Rabs (snd t)) (gterms D i j))).
  set (S := rsum (map (fun t => Cmod (fst t * RtoC (snd t))%C) (gterms D i j))).
  assert (HS : 0 <= S) by (apply rsum_map_nonneg; intros; apply Cmod_ge_0).
  assert (HPm : forall t, In t (gterms D i j) -> Rabs (snd t) <= Pmax).
  { unfold Pmax. generalize (gterms D i j). induction l as [|a l IH]; intros t Ht; [destruct Ht|].
    simpl. assert (0 <= rsum (map (fun t => Rabs (snd t)) l)) by (apply rsum_map_nonneg; intros; apply Rabs_pos).
    destruct Ht as [->|Ht]; [lra|]. specialize (IH t Ht). pose proof (Rabs_pos (snd a)). lra. }
  exists (Pmax + S / eps + 1). intros z Hz.
  assert (Hq : 0 <= S / eps) by (apply Rmult_le_pos; [exact HS | left; now apply Rinv_0_lt_compat]).
  eapply Rle_lt_trans.
  { apply (gf_tail D i j z Pmax Hcar Hw); [|lra].
    intros n m Hn Hm. apply (HPm (residue D i j n m, pole D n m)). now apply gterms_in. }
  fold S. apply Rlt_div_l; [lra|].
  assert (S / eps < Cmod z - Pmax) by lra.
  apply Rlt_div_l in H; [|exact Heps]. lra.
Qed.

(** * gf_im_negative *)
Lemma term_im : forall (a P om : R), 0 < om ->
  Im (term_z (RtoC a, P) (0, om)) = - om * (a / (om ^ 2 + P ^ 2)).
Proof.
  intros a P om Hom. rewrite term_z_eq. simpl fst; simpl snd.
  unfold Cdiv, Cinv, Cminus, Cmult, Cplus, Copp, RtoC, Im; simpl.
  field. repeat split; nra.
Qed.

(** plain form: Im G(i om) = - om sum_k R_k / (om^2 + P_k^2) for real residues *)
Theorem lehmann_im_formula : forall (l : list term) (om : R),
  (forall t, In t l -> Im (fst t) = 0) -> 0 < om ->
  Im (lehmann l (0, om)) = - om * rsum (map (fun t => Re (fst t) / (om ^ 2 + (snd t) ^ 2)) l).
Proof.
  intros l om Hre Hom. unfold lehmann. rewrite csum_Im, map_map, <- rsum_map_scal.
  apply rsum_map_ext_in. intros [[a b] P] Ht. specialize (Hre _ Ht). simpl in Hre. subst b.
  simpl fst; simpl snd. now apply term_im.
Qed.

Theorem lehmann_im_negative : forall (l : list term) (om : R),
  nonneg_residues l -> (exists t, In t l /\ 0 < Re (fst t)) -> 0 < om -> Im (lehmann l (0, om)) < 0.
Proof.
  intros l om Hnn Hex Hom.
  rewrite lehmann_im_formula; [| intros t Ht; apply (Hnn t Ht) | exact Hom].
  assert (0 < rsum (map (fun t : term => Re (fst t) / (om ^ 2 + snd t ^ 2)) l)).
  { apply rsum_map_pos.
    - intros t Ht. apply Rmult_le_pos; [apply (Hnn t Ht)|]. left. apply Rinv_0_lt_compat. nra.
    - destruct Hex as [t [Ht Hpos]]. exists t. split; [exact Ht|].
      apply Rmult_lt_0_compat; [exact Hpos|]. apply Rinv_0_lt_compat. nra. }
  set (S := rsum _) in *. clearbody S. nra.
Qed.

Lemma residue_diag : forall D i n m,
  residue D i i n m = RtoC ((Cmod (cop D i n m)) ^ 2 * (wn D n + wn D m)).
Proof.
  intros D i n m. unfold residue. destruct (cop D i n m) as [a b].
  assert (Hm : (Cmod (a, b)) ^ 2 = a * a + b * b).
  { unfold Cmod. simpl fst; simpl snd. rewrite <- Rsqr_pow2, Rsqr_sqrt; nra. }
  rewrite Hm. unfold Cconj, Cmult, RtoC; simpl. f_equal; ring.
Qed.

Lemma diag_residues_nonneg : forall D i, weights_nonneg D -> nonneg_residues (gterms D i i).
Proof.
  intros D i Hw t Ht. apply in_gterms in Ht. destruct Ht as [n [m [Hn [Hm ->]]]]. simpl fst.
  rewrite residue_diag. simpl. split; [reflexivity|].
  apply Rmult_le_pos; [apply pow2_ge_0|]. pose proof (Hw n Hn). pose proof (Hw m Hm). lra.
Qed.

(** Im G_ii(i om) < 0 for om > 0 (non-negative weights, some transition with positive weight) *)
Theorem gf_im_negative : forall D i (om : R),
  weights_nonneg D ->
  (exists n m, (n < dim D)%nat /\ (m < dim D)%nat /\ cop D i n m <> RtoC 0 /\ 0 < wn D n + wn D m) ->
  0 < om -> Im (G D i i (0, om)) < 0.
Proof.
  intros D i om Hw [n [m [Hn [Hm [Hc Hpos]]]]] Hom. unfold G.
  apply lehmann_im_negative; [now apply diag_residues_nonneg | | exact Hom].
  exists (residue D i i n m, pole D n m). split; [now apply gterms_in|].
  simpl fst. rewrite residue_diag. simpl.
  apply Rmult_lt_0_compat; [|exact Hpos]. pose proof (proj1 (Cmod_gt_0 _) Hc). nra.
Qed.

(** and the formula itself on the diagonal *)
Theorem gf_im_formula : forall D i (om : R), 0 < om ->
  Im (G D i i (0, om)) = - om * rsum (map (fun t => Re (fst t) / (om ^ 2 + (snd t) ^ 2)) (gterms D i i)).
Proof.
  intros D i om Hom. unfold G. apply lehmann_im_formula; [|exact Hom].
  intros t Ht. apply in_gterms in Ht. destruct Ht as [n [m [_ [_ ->]]]]. simpl fst. now rewrite residue_diag.
Qed.

(** * Imaginary time *)

(** ** fermionic Matsubara frequencies: e^{i omega_n beta} = -1 *)
Lemma sin_Z_PI : forall k : Z, sin (IZR k * PI) = 0.
Proof. intros k. apply sin_eq_0_1. now exists k. Qed.

Lemma cos_odd_PI : forall n : Z, cos (IZR (2 * n + 1) * PI) = -1.
Proof.
  intros n. rewrite plus_IZR, mult_IZR.
  replace ((2 * IZR n + 1) * PI) with (2 * (IZR n * PI) + PI) by ring.
  rewrite neg_cos, cos_2a_sin, sin_Z_PI. ring.
Qed.

Lemma matsubara_beta : forall beta n, beta <> 0 -> matsubara beta n * beta = IZR (2 * n + 1) * PI.
Proof. intros beta n Hb. unfold matsubara. field. exact Hb. Qed.

Lemma matsubara_neq_0 : forall beta n, 0 < beta -> matsubara beta n <> 0.
Proof.
  intros beta n Hb. unfold matsubara. intros E.
  assert (H : IZR (2 * n + 1) * PI = 0).
  { apply (Rmult_eq_compat_r beta) in E. unfold Rdiv in E. rewrite Rmult_assoc, Rinv_l, Rmult_1_r, Rmult_0_l in E; lra. }
  apply Rmult_integral in H. destruct H as [H|H]; [apply eq_IZR_R0 in H; lia | pose proof PI_RGT_0; lra].
Qed.

(** ** tau_is_transform, real residue, real and imaginary parts *)
Section Transform.
Variables (r P beta om : R).
Hypothesis Hbeta : 0 < beta.
Hypothesis Hcos : cos (om * beta) = -1.
Hypothesis Hsin : sin (om * beta) = 0.
Hypothesis Hom : om <> 0.

Let A := - r / (1 + exp (- beta * P)).
Let Fc (tau : R) := A * exp (- tau * P) * (- P * cos (om * tau) + om * sin (om * tau)) / (P ^ 2 + om ^ 2).
Let Fs (tau : R) := A * exp (- tau * P) * (- P * sin (om * tau) - om * cos (om * tau)) / (P ^ 2 + om ^ 2).

Lemma D2_pos : 0 < P ^ 2 + om ^ 2.
Proof. assert (0 < om ^ 2) by (apply pow2_gt_0; exact Hom). nra. Qed.

Lemma Fc_derive : forall tau, is_derive Fc tau (A * exp (- tau * P) * cos (om * tau)).
Proof.
  intros tau. unfold Fc. auto_derive; [auto|]. pose proof D2_pos. field. lra.
Qed.
Lemma Fs_derive : forall tau, is_derive Fs tau (A * exp (- tau * P) * sin (om * tau)).
Proof.
  intros tau. unfold Fs. auto_derive; [auto|]. pose proof D2_pos. field. lra.
Qed.

Lemma closed_form_A : forall tau, term_tR r P beta tau = A * exp (- tau * P).
Proof. intros tau. rewrite term_tR_closed. unfold A. unfold Rdiv. ring. Qed.

Lemma transform_re_aux :
  is_RInt (fun tau => term_tR r P beta tau * cos (om * tau)) 0 beta (- r * P / (P ^ 2 + om ^ 2)).
Proof.
  apply (is_RInt_ext (fun tau => A * exp (- tau * P) * cos (om * tau))).
  { intros tau _. now rewrite closed_form_A. }
  replace (- r * P / (P ^ 2 + om ^ 2)) with (minus (Fc beta) (Fc 0)).
  - apply (is_RInt_derive Fc).
    + intros x _. apply Fc_derive.
    + intros x _. apply (ex_derive_continuous (fun t => A * exp (- t * P) * cos (om * t))). auto_derive; auto.
  - unfold minus, plus, opp; simpl. unfold Fc. rewrite Hcos, Hsin.
    replace (- 0 * P) with 0 by ring. replace (om * 0) with 0 by ring. rewrite exp_0, cos_0, sin_0.
    unfold A. pose proof D2_pos. pose proof (exp_pos (- beta * P)). field. split; lra.
Qed.

Lemma transform_im_aux :
  is_RInt (fun tau => term_tR r P beta tau * sin (om * tau)) 0 beta (- r * om / (P ^ 2 + om ^ 2)).
Proof.
  apply (is_RInt_ext (fun tau => A * exp (- tau * P) * sin (om * tau))).
  { intros tau _. now rewrite closed_form_A. }
  replace (- r * om / (P ^ 2 + om ^ 2)) with (minus (Fs beta) (Fs 0)).
  - apply (is_RInt_derive Fs).
    + intros x _. apply Fs_derive.
    + intros x _. apply (ex_derive_continuous (fun t => A * exp (- t * P) * sin (om * t))). auto_derive; auto.
  - unfold minus, plus, opp; simpl. unfold Fs. rewrite Hcos, Hsin.
    replace (- 0 * P) with 0 by ring. replace (om * 0) with 0 by ring. rewrite exp_0, cos_0, sin_0.
    unfold A. pose proof D2_pos. pose proof (exp_pos (- beta * P)). field. split; lra.
Qed.
End Transform.

Lemma term_z_parts : forall a b P om, om <> 0 ->
  term_z ((a, b), P) (0, om) =
  ((- a * P + b * om) / (P ^ 2 + om ^ 2), (- a * om - b * P) / (P ^ 2 + om ^ 2)).
Proof.
  intros a b P om Hom. rewrite term_z_eq. simpl fst; simpl snd.
  assert (0 < om ^ 2) by (apply pow2_gt_0; exact Hom).
  unfold Cdiv, Cinv, Cminus, Cmult, Cplus, Copp, RtoC; simpl. f_equal; field; nra.
Qed.

Definition cis (x : R) : C := (cos x, sin x).

(** tau_is_transform: per term, the Matsubara value is the Fourier transform over (0, beta) of the
    imaginary-time formula of the code (both branches), in real and imaginary parts; complex residues.
    (The inverse direction -- the tau values are determined by the Matsubara values -- is uniqueness of
    Fourier coefficients and is NOT proved here: trusted.) *)
Theorem tau_is_transform : forall (t : term) (beta : R) (n : Z), 0 < beta ->
  let om := matsubara beta n in
  is_RInt (fun tau => Re (term_t t beta tau * cis (om * tau))%C) 0 beta (Re (term_z t (0, om))) /\
  is_RInt (fun tau => Im (term_t t beta tau * cis (om * tau))%C) 0 beta (Im (term_z t (0, om))).
Proof.
  intros [[a b] P] beta n Hb om.
  assert (Hom : om <> 0) by (apply matsubara_neq_0; exact Hb).
  assert (Hc : cos (om * beta) = -1).
  { unfold om. rewrite matsubara_beta by lra. apply cos_odd_PI. }
  assert (Hs : sin (om * beta) = 0).
  { unfold om. rewrite matsubara_beta by lra. apply sin_Z_PI. }
  rewrite term_z_parts by exact Hom. unfold Re, Im. cbn [fst snd].
  pose proof (transform_re_aux a P beta om Hc Hs Hom) as Ha_re.
  pose proof (transform_im_aux a P beta om Hc Hs Hom) as Ha_im.
  pose proof (transform_re_aux b P beta om Hc Hs Hom) as Hb_re.
  pose proof (transform_im_aux b P beta om Hc Hs Hom) as Hb_im.
  split.
  - apply (is_RInt_ext (fun tau => minus (term_tR a P beta tau * cos (om * tau)) (term_tR b P beta tau * sin (om * tau)))).
    { intros tau _. rewrite term_t_parts. unfold cis, Cmult; simpl. reflexivity. }
    replace ((- a * P + b * om) / (P ^ 2 + om ^ 2)) with (minus (- a * P / (P ^ 2 + om ^ 2)) (- b * om / (P ^ 2 + om ^ 2))).
    + exact (is_RInt_minus (V := R_NormedModule) _ _ 0 beta _ _ Ha_re Hb_im).
    + unfold minus, plus, opp; simpl. unfold Rdiv. ring.
  - apply (is_RInt_ext (fun tau => plus (term_tR a P beta tau * sin (om * tau)) (term_tR b P beta tau * cos (om * tau)))).
    { intros tau _. rewrite term_t_parts. unfold cis, Cmult; simpl. reflexivity. }
    replace ((- a * om - b * P) / (P ^ 2 + om ^ 2)) with (plus (- a * om / (P ^ 2 + om ^ 2)) (- b * P / (P ^ 2 + om ^ 2))).
    + exact (is_RInt_plus (V := R_NormedModule) _ _ 0 beta _ _ Ha_im Hb_re).
    + unfold plus; simpl. unfold Rdiv. ring.
Qed.

(** the same for a whole term list: transform of G(tau) = G(i omega_n) *)
Theorem lehmann_tau_is_transform : forall (l : list term) (beta : R) (n : Z), 0 < beta ->
  let om := matsubara beta n in
  is_RInt (fun tau => Re (lehmann_tau l beta tau * cis (om * tau))%C) 0 beta (Re (lehmann l (0, om))) /\
  is_RInt (fun tau => Im (lehmann_tau l beta tau * cis (om * tau))%C) 0 beta (Im (lehmann l (0, om))).
Proof.
  intros l beta n Hb om. induction l as [|t l [IHre IHim]].
  - unfold lehmann_tau, lehmann; simpl. split.
    + apply (is_RInt_ext (fun _ => 0)); [intros x _; unfold Re, Im, Cmult, cis; simpl; ring|]. replace 0 with (scal (beta - 0) 0) at 2 by (unfold scal; simpl; unfold mult; simpl; ring).
      apply @is_RInt_const.
    + apply (is_RInt_ext (fun _ => 0)); [intros x _; unfold Re, Im, Cmult, cis; simpl; ring|]. replace 0 with (scal (beta - 0) 0) at 2 by (unfold scal; simpl; unfold mult; simpl; ring).
      apply @is_RInt_const.
  - destruct (tau_is_transform t beta n Hb) as [Hre Him]. fold om in Hre, Him.
    unfold lehmann_tau, lehmann in *; simpl map; simpl csum. split.
    + apply (is_RInt_ext (fun tau => plus (Re (term_t t beta tau * cis (om * tau))%C)
                                         (Re (csum (map (fun t0 => term_t t0 beta tau) l) * cis (om * tau))%C))).
      { intros tau _. unfold plus; simpl. ring. }
      exact (is_RInt_plus (V := R_NormedModule) _ _ 0 beta _ _ Hre IHre).
    + apply (is_RInt_ext (fun tau => plus (Im (term_t t beta tau * cis (om * tau))%C)
                                         (Im (csum (map (fun t0 => term_t t0 beta tau) l) * cis (om * tau))%C))).
      { intros tau _. unfold plus; simpl. ring. }
      exact (is_RInt_plus (V := R_NormedModule) _ _ 0 beta _ _ Him IHim).
Qed.

(** ** gtau_nonpositive *)
Lemma term_tR_nonpos : forall r P beta tau, 0 <= r -> term_tR r P beta tau <= 0.
Proof.
  intros r P beta tau Hr. rewrite term_tR_closed.
  pose proof (exp_pos (- tau * P)). pose proof (exp_pos (- beta * P)).
  assert (0 <= r * exp (- tau * P) / (1 + exp (- beta * P))).
  { apply Rmult_le_pos; [nra|]. left. apply Rinv_0_lt_compat. lra. }
  unfold Rdiv in *. nra.
Qed.
Lemma term_tR_zero : forall P beta tau, term_tR 0 P beta tau = 0.
Proof. intros. rewrite term_tR_closed. unfold Rdiv. ring. Qed.

(** plain form: for non-negative real residues G(tau) is real and <= 0 (for every tau, in particular on [0,beta]) *)
Theorem lehmann_tau_nonpositive : forall (l : list term) (beta tau : R),
  nonneg_residues l -> Im (lehmann_tau l beta tau) = 0 /\ Re (lehmann_tau l beta tau) <= 0.
Proof.
  intros l beta tau Hnn. unfold lehmann_tau. rewrite csum_Im, csum_Re, !map_map. split.
  - replace 0 with (0 * rsum (map (fun _ : term => 0) l)) by ring. rewrite <- rsum_map_scal.
    apply rsum_map_ext_in. intros t Ht. rewrite term_t_parts. simpl.
    rewrite (proj1 (Hnn t Ht)), term_tR_zero. ring.
  - assert (H : rsum (map (fun t => - Re (term_t t beta tau)) l) >= 0).
    { apply Rle_ge. apply rsum_map_nonneg. intros t Ht. rewrite term_t_parts. simpl.
      pose proof (term_tR_nonpos (Re (fst t)) (snd t) beta tau (proj2 (Hnn t Ht))). lra. }
    replace (rsum (map (fun t => - Re (term_t t beta tau)) l)) with (- rsum (map (fun t => Re (term_t t beta tau)) l)) in H.
    + lra.
    + replace (- rsum (map (fun t => Re (term_t t beta tau)) l)) with (-1 * rsum (map (fun t => Re (term_t t beta tau)) l)) by ring.
      rewrite <- rsum_map_scal. apply rsum_map_ext_in. intros; ring.
Qed.

Theorem gtau_nonpositive : forall D i (beta tau : R), weights_nonneg D ->
  Im (Gtau D beta i i tau) = 0 /\ Re (Gtau D beta i i tau) <= 0.
Proof. intros D i beta tau Hw. unfold Gtau. apply lehmann_tau_nonpositive. now apply diag_residues_nonneg. Qed.

(** ** gtau_jump *)
Lemma term_tR_jump : forall r P beta, term_tR r P beta 0 + term_tR r P beta beta = - r.
Proof.
  intros r P beta. rewrite !term_tR_closed. replace (- 0 * P) with 0 by ring. rewrite exp_0.
  pose proof (exp_pos (- beta * P)). field. lra.
Qed.

Lemma term_t_jump : forall t beta, (term_t t beta 0 + term_t t beta beta)%C = (- fst t)%C.
Proof.
  intros [[a b] P] beta. rewrite !term_t_parts. simpl fst; simpl snd. unfold Cplus, Copp; simpl.
  now rewrite !term_tR_jump.
Qed.

Theorem lehmann_tau_jump : forall (l : list term) (beta : R),
  (lehmann_tau l beta 0 + lehmann_tau l beta beta)%C = (- residue_sum l)%C.
Proof.
  intros l beta. unfold lehmann_tau, residue_sum. rewrite <- csum_map_plus, <- csum_map_opp.
  apply csum_map_ext_in. intros t _. apply term_t_jump.
Qed.

(** G_ij(0+) + G_ij(beta-) = - delta_ij *)
Theorem gtau_jump : forall D i j (beta : R), car_diag D i j -> weights_normalised D ->
  (Gtau D beta i j 0 + Gtau D beta i j beta)%C = (- delta i j)%C.
Proof. intros D i j beta Hcar Hw. unfold Gtau. now rewrite lehmann_tau_jump, residue_sum_is_delta. Qed.

(** ** gtau_beta_is_minus_n *)
Lemma rsum_map_plus : forall {A} (f g : A -> R) l,
  rsum (map (fun a => f a + g a) l) = rsum (map f l) + rsum (map g l).
Proof. intros A f g l. induction l as [|a l IH]; simpl; [ring|]. rewrite IH. ring. Qed.

Lemma rsum_swap : forall {A B} (f : A -> B -> R) (la : list A) (lb : list B),
  rsum (map (fun a => rsum (map (fun b => f a b) lb)) la) =
  rsum (map (fun b => rsum (map (fun a => f a b) la)) lb).
Proof.
  intros A B f la lb. induction la as [|a la IH]; simpl.
  - induction lb as [|b lb IHb]; simpl; [reflexivity|]. rewrite <- IHb. ring.
  - rewrite IH. now rewrite <- rsum_map_plus.
Qed.

Lemma term_beta_boltzmann : forall (c2 wn_ wm_ P beta : R),
  wm_ = wn_ * exp (- beta * P) -> term_tR (c2 * (wn_ + wm_)) P beta beta = - (c2 * wm_).
Proof.
  intros c2 wn_ wm_ P beta Hb. rewrite term_tR_closed, Hb.
  pose proof (exp_pos (- beta * P)). field. lra.
Qed.

(** G_ii(beta-) = - sum_{n,m} |c_nm|^2 w_m = - <n_i> *)
Theorem gtau_beta_is_minus_n : forall D i (beta : R), boltzmann D beta ->
  Gtau D beta i i beta = RtoC (- occupation D i).
Proof.
  intros D i beta Hb. unfold Gtau, lehmann_tau. rewrite sum_over_gterms.
  set (d := dim D).
  transitivity (csum (map (fun n => csum (map (fun m => RtoC (- ((Cmod (cop D i n m)) ^ 2 * wn D m))) (seq 0 d))) (seq 0 d))).
  { apply csum_map_ext_in; intros n Hn. apply csum_map_ext_in; intros m Hm. apply in_seq in Hn. apply in_seq in Hm.
    rewrite term_t_parts. simpl fst; simpl snd. rewrite residue_diag. simpl Re; simpl Im.
    rewrite term_tR_zero. unfold RtoC. f_equal.
    apply term_beta_boltzmann. apply Hb; unfold d in *; lia. }
  transitivity (RtoC (rsum (map (fun n => rsum (map (fun m => - ((Cmod (cop D i n m)) ^ 2 * wn D m)) (seq 0 d))) (seq 0 d)))).
  { rewrite <- csum_RtoC, map_map. apply csum_map_ext_in; intros n _. now rewrite <- csum_RtoC, map_map. }
  f_equal. rewrite rsum_swap. unfold occupation. fold d.
  replace (- rsum (map (fun m => wn D m * rsum (map (fun n => Cmod (cop D i n m) ^ 2) (seq 0 d))) (seq 0 d)))
    with (-1 * rsum (map (fun m => wn D m * rsum (map (fun n => Cmod (cop D i n m) ^ 2) (seq 0 d))) (seq 0 d))) by ring.
  rewrite <- rsum_map_scal. apply rsum_map_ext_in; intros m _.
  rewrite <- Rmult_assoc, <- rsum_map_scal. apply rsum_map_ext_in; intros n _. ring.
Qed.

(** the occupation is the one the density matrix gives: Tr(rho c^+_i c_i) in the specification *)
Theorem occupation_is_trace_rho : forall D i,
  trace_rho C CNum (tabR (dim D) (wn D)) (matC (dim D) (ndens D i)) = RtoC (occupation D i).
Proof.
  intros D i. unfold trace_rho. rewrite ksum_is_csum, idx_matC, map_map. unfold occupation.
  rewrite <- csum_RtoC, map_map. apply csum_map_ext_in; intros m Hm. apply in_seq in Hm.
  simpl fst; simpl snd. unfold tabR. rewrite !nth_map_seq by lia. simpl.
  rewrite RtoC_mult. f_equal. unfold ndens. rewrite <- csum_RtoC, map_map.
  apply csum_map_ext_in; intros n _. destruct (cop D i n m) as [a b].
  assert (Hm2 : (Cmod (a, b)) ^ 2 = a * a + b * b).
  { unfold Cmod. simpl fst; simpl snd. rewrite <- Rsqr_pow2, Rsqr_sqrt; nra. }
  change (Cmod (a, b) * (Cmod (a, b) * 1)) with (Cmod (a, b) ^ 2).
  rewrite Hm2. unfold Cconj, Cmult, RtoC; simpl. f_equal; ring.
Qed.

(** ** the specification's G(tau) (PV.EDSpec.gf_tau, what the oracle evaluates) is the code's formula
       under the Boltzmann relation *)
Theorem Gtau_is_EDSpec_gf_tau : forall D i j (beta tau : R), boltzmann D beta ->
  gf_tau C CNum (tabR (dim D) (En D)) (tabR (dim D) (wn D))
     (matC (dim D) (cop D i)) (matC (dim D) (fun m n => Cconj (cop D j n m))) (RtoC tau)
  = Gtau D beta i j tau.
Proof.
  intros D i j beta tau Hb. unfold gf_tau, Gtau, lehmann_tau. rewrite sum_over_gterms.
  rewrite ksum_is_csum. rewrite idx_matC, map_map.
  apply csum_map_ext_in. intros n Hn. apply in_seq in Hn. simpl fst; simpl snd.
  rewrite ksum_is_csum, idx_map_seq, !map_map. apply csum_map_ext_in. intros m Hm. apply in_seq in Hm.
  simpl fst; simpl snd. unfold tabR.
  rewrite mget_matC by lia. rewrite !nth_map_seq by lia.
  rewrite term_t_parts. simpl fst; simpl snd. rewrite !term_tR_closed. unfold residue, pole.
  rewrite (Hb n m) by lia.
  destruct (cop D i n m) as [a1 a2]. destruct (cop D j n m) as [b1 b2].
  pose proof (exp_pos (- beta * (En D m - En D n))).
  simpl. unfold Cmult, Copp, Cminus, Cplus, Cconj, RtoC, Re, Im; simpl.
  replace (tau * (En D m + - En D n) - 0 * (0 + - 0)) with (tau * (En D m - En D n)) by ring.
  replace (- (tau * (En D m - En D n))) with (- tau * (En D m - En D n)) by ring.
  f_equal; field; lra.
Qed.

(** * The hypotheses are satisfiable by a non-trivial value: one fermionic mode (level e, inverse
      temperature b): dimension 2, <0|c|1> = 1, Gibbs weights. *)
Example one_mode_car : forall e b, car_diag (one_mode e b) 0 0.
Proof.
  intros e b n Hn. simpl in Hn. unfold delta; simpl.
  destruct n as [|[|n]]; [| |lia]; simpl; unfold Cconj, Cmult, Cplus, RtoC; simpl; f_equal; ring.
Qed.
Example one_mode_normalised : forall e b, weights_normalised (one_mode e b).
Proof.
  intros e b. unfold weights_normalised; simpl. pose proof (exp_pos (- b * e)). field. lra.
Qed.
Example one_mode_nonneg : forall e b, weights_nonneg (one_mode e b).
Proof.
  intros e b n Hn. simpl in Hn. pose proof (exp_pos (- b * e)).
  assert (0 < / (1 + exp (- b * e))) by (apply Rinv_0_lt_compat; lra).
  destruct n as [|[|n]]; [| |lia]; simpl; unfold Rdiv; nra.
Qed.
Example one_mode_boltzmann : forall e b, boltzmann (one_mode e b) b.
Proof.
  intros e b n m Hn Hm. simpl in Hn, Hm. pose proof (exp_pos (- b * e)).
  destruct n as [|[|n]]; [| |lia]; (destruct m as [|[|m]]; [| |lia]); simpl.
  - replace (- b * (0 - 0)) with 0 by ring. rewrite exp_0. ring.
  - replace (- b * (e - 0)) with (- b * e) by ring. field. lra.
  - replace (- b * (0 - e)) with (- (- b * e)) by ring. rewrite exp_Ropp. field. lra.
  - replace (- b * (e - e)) with 0 by ring. rewrite exp_0. ring.
Qed.
Example one_mode_transition : forall e b,
  exists n m, (n < dim (one_mode e b))%nat /\ (m < dim (one_mode e b))%nat /\
              cop (one_mode e b) 0 n m <> RtoC 0 /\ 0 < wn (one_mode e b) n + wn (one_mode e b) m.
Proof.
  intros e b. exists 0%nat, 1%nat. simpl. repeat split; try lia.
  - intros H. apply (f_equal fst) in H. simpl in H. lra.
  - pose proof (exp_pos (- b * e)). assert (0 < / (1 + exp (- b * e))) by (apply Rinv_0_lt_compat; lra).
    unfold Rdiv. nra.
Qed.
(** and the statements are not vacuous there: G(z) = 1/(z - e) for this value *)
Example one_mode_G : forall e b z, G (one_mode e b) 0 0 z = (RtoC 1 / (z - RtoC e))%C.
Proof.
  intros e b z. unfold G, lehmann, gterms; simpl. rewrite !term_z_eq. unfold residue, pole; simpl.
  pose proof (exp_pos (- b * e)).
  replace (1 / (1 + exp (- b * e)) + exp (- b * e) / (1 + exp (- b * e))) with 1 by (field; lra).
  unfold Cdiv. replace (RtoC 0 * Cconj (RtoC 0))%C with (RtoC 0) by (unfold Cconj, Cmult, RtoC; simpl; f_equal; ring).
  replace (RtoC 1 * Cconj (RtoC 1) * RtoC 1)%C with (RtoC 1) by (unfold Cconj, Cmult, RtoC; simpl; f_equal; ring).
  replace (e - 0) with e by ring. ring.
Qed.
