(** C11 -- proofs about the Lehmann sums of PV.GFIdentities (all finite Lehmann data).
    Layer 1: characterisation of the GENERATED per-term formulas (Gen_GFTau) at R and C.
    Layer 2: the identities, using only layer 1. *)
Require Import Reals List ZArith Bool Arith Lia Lra.
From Coquelicot Require Import Coquelicot.
From PV Require Import EDSpec GFIdentities.
From PVgen Require Import Gen_GFTau.
Import ListNotations.
Local Open Scope R_scope.

(** * Finite sums *)
Lemma csum_app : forall l1 l2, csum (l1 ++ l2) = (csum l1 + csum l2)%C.
Proof.
  induction l1 as [|a l1 IH]; intros l2; simpl.
  - now rewrite Cplus_0_l.
  - rewrite IH. now rewrite Cplus_assoc.
Qed.

Lemma csum_map_plus : forall {A} (f g : A -> C) l,
  csum (map (fun a => (f a + g a)%C) l) = (csum (map f l) + csum (map g l))%C.
Proof.
  intros A f g l. induction l as [|a l IH]; simpl.
  - now rewrite Cplus_0_l.
  - rewrite IH. ring.
Qed.

Lemma csum_map_scal : forall {A} (c : C) (f : A -> C) l,
  csum (map (fun a => (c * f a)%C) l) = (c * csum (map f l))%C.
Proof.
  intros A c f l. induction l as [|a l IH]; simpl.
  - now rewrite Cmult_0_r.
  - rewrite IH. ring.
Qed.

Lemma csum_map_opp : forall {A} (f : A -> C) l,
  csum (map (fun a => (- f a)%C) l) = (- csum (map f l))%C.
Proof.
  intros A f l. induction l as [|a l IH]; simpl.
  - now rewrite Copp_0.
  - rewrite IH. ring.
Qed.

Lemma csum_map_ext_in : forall {A} (f g : A -> C) l,
  (forall a, In a l -> f a = g a) -> csum (map f l) = csum (map g l).
Proof. intros A f g l H. f_equal. now apply map_ext_in. Qed.

Lemma csum_map_zero : forall {A} (f : A -> C) l,
  (forall a, In a l -> f a = RtoC 0) -> csum (map f l) = RtoC 0.
Proof.
  intros A f l. induction l as [|a l IH]; intros H; simpl; [reflexivity|].
  rewrite H by now left. rewrite IH by (intros; apply H; now right). now rewrite Cplus_0_l.
Qed.

Lemma csum_flat_map : forall {A B} (f : A -> list B) (g : B -> C) l,
  csum (map g (flat_map f l)) = csum (map (fun a => csum (map g (f a))) l).
Proof.
  intros A B f g l. induction l as [|a l IH]; simpl; [reflexivity|].
  rewrite map_app, csum_app, IH. reflexivity.
Qed.

(** exchange of two finite sums *)
Lemma csum_swap : forall {A B} (f : A -> B -> C) (la : list A) (lb : list B),
  csum (map (fun a => csum (map (fun b => f a b) lb)) la) =
  csum (map (fun b => csum (map (fun a => f a b) la)) lb).
Proof.
  intros A B f la lb. induction la as [|a la IH]; simpl.
  - symmetry. now apply csum_map_zero.
  - rewrite IH. now rewrite <- csum_map_plus.
Qed.

Lemma csum_conj : forall l, Cconj (csum l) = csum (map Cconj l).
Proof.
  induction l as [|a l IH]; simpl.
  - unfold Cconj, RtoC; simpl. now rewrite Ropp_0.
  - rewrite <- IH. unfold Cconj, Cplus; simpl. f_equal. ring.
Qed.

Lemma csum_Re : forall l, Re (csum l) = rsum (map Re l).
Proof. induction l as [|a l IH]; simpl; [reflexivity|]. now rewrite <- IH. Qed.
Lemma csum_Im : forall l, Im (csum l) = rsum (map Im l).
Proof. induction l as [|a l IH]; simpl; [reflexivity|]. now rewrite <- IH. Qed.

Lemma csum_RtoC : forall l, csum (map RtoC l) = RtoC (rsum l).
Proof. induction l as [|a l IH]; simpl; [reflexivity|]. rewrite IH. now rewrite <- RtoC_plus. Qed.

Lemma rsum_map_ext_in : forall {A} (f g : A -> R) l,
  (forall a, In a l -> f a = g a) -> rsum (map f l) = rsum (map g l).
Proof. intros A f g l H. f_equal. now apply map_ext_in. Qed.

Lemma rsum_map_scal : forall {A} (c : R) (f : A -> R) l,
  rsum (map (fun a => c * f a) l) = c * rsum (map f l).
Proof. intros A c f l. induction l as [|a l IH]; simpl; [ring|]. rewrite IH. ring. Qed.

Lemma rsum_map_le : forall {A} (f g : A -> R) l,
  (forall a, In a l -> f a <= g a) -> rsum (map f l) <= rsum (map g l).
Proof.
  intros A f g l. induction l as [|a l IH]; intros H; simpl; [lra|].
  apply Rplus_le_compat; [apply H; now left | apply IH; intros; apply H; now right].
Qed.

Lemma rsum_map_nonneg : forall {A} (f : A -> R) l,
  (forall a, In a l -> 0 <= f a) -> 0 <= rsum (map f l).
Proof.
  intros A f l. induction l as [|a l IH]; intros H; simpl; [lra|].
  apply Rplus_le_le_0_compat; [apply H; now left | apply IH; intros; apply H; now right].
Qed.

Lemma rsum_map_pos : forall {A} (f : A -> R) l,
  (forall a, In a l -> 0 <= f a) -> (exists a, In a l /\ 0 < f a) -> 0 < rsum (map f l).
Proof.
  intros A f l. induction l as [|a l IH]; intros H [b [Hb Hpos]]; simpl.
  - destruct Hb.
  - assert (Ha : 0 <= f a) by (apply H; now left).
    assert (Hl : 0 <= rsum (map f l)) by (apply rsum_map_nonneg; intros; apply H; now right).
    destruct Hb as [->|Hb]; [lra|].
    assert (0 < rsum (map f l)) by (apply IH; [intros; apply H; now right | exists b; split; assumption]).
    lra.
Qed.

Lemma Cmod_csum_le : forall l, Cmod (csum l) <= rsum (map Cmod l).
Proof.
  induction l as [|a l IH]; simpl.
  - rewrite Cmod_0. lra.
  - eapply Rle_trans; [apply Cmod_triangle|]. lra.
Qed.

(** * Layer 1: the generated per-term formulas *)

Lemma Rltb_true : forall a b, Rltb a b = true <-> a < b.
Proof. intros a b. unfold Rltb. destruct (Rlt_dec a b); split; intros; try assumption; try reflexivity; try discriminate; contradiction. Qed.

(** frequency: Residue / (z - Pole) *)
Lemma term_z_eq : forall t z, term_z t z = (fst t / (z - RtoC (snd t)))%C.
Proof. intros t z. reflexivity. Qed.

(** the condition selecting the branch is Pole > 0 *)
Lemma term_tau_cond_R : forall r P tau beta, term_tau_cond R ROps r P tau beta = Rltb 0 P.
Proof. reflexivity. Qed.

(** the two branches, real instance *)
Lemma term_tau_then_R : forall r P tau beta,
  term_tau_then R ROps r P tau beta = - r * exp (- tau * P) / (1 + exp (- beta * P)).
Proof. reflexivity. Qed.
Lemma term_tau_else_R : forall r P tau beta,
  term_tau_else R ROps r P tau beta = - r * exp ((beta - tau) * P) / (exp (beta * P) + 1).
Proof. reflexivity. Qed.

(** tau_branches_agree: the two overflow-avoiding branches are the same real function (both are
    defined everywhere: 1 + e^x > 0). *)
Theorem tau_branches_agree : forall r P tau beta,
  term_tau_then R ROps r P tau beta = term_tau_else R ROps r P tau beta.
Proof.
  intros r P tau beta. rewrite term_tau_then_R, term_tau_else_R.
  assert (E1 : exp ((beta - tau) * P) = exp (beta * P) * exp (- tau * P)).
  { rewrite <- exp_plus. f_equal. ring. }
  assert (E2 : exp (- beta * P) = / exp (beta * P)).
  { replace (- beta * P) with (- (beta * P)) by ring. apply exp_Ropp. }
  rewrite E1, E2.
  pose proof (exp_pos (beta * P)) as Hp. pose proof (exp_pos (- tau * P)) as Hq.
  field. split; lra.
Qed.

(** hence the generated term_tau is the closed form, whatever the sign of the pole *)
Lemma term_tR_closed : forall r P beta tau,
  term_tR r P beta tau = - r * exp (- tau * P) / (1 + exp (- beta * P)).
Proof.
  intros r P beta tau. unfold term_tR, term_tau.
  destruct (term_tau_cond R ROps r P tau beta).
  - apply term_tau_then_R.
  - rewrite <- tau_branches_agree. apply term_tau_then_R.
Qed.

(** complex residue: real and imaginary parts are the real formula applied to Re / Im of the residue *)
Lemma term_tau_cond_C : forall Rs P tau beta,
  term_tau_cond C COps Rs (RtoC P) (RtoC tau) (RtoC beta) = Rltb 0 P.
Proof. reflexivity. Qed.

Lemma term_t_parts : forall t beta tau,
  term_t t beta tau = (term_tR (Re (fst t)) (snd t) beta tau, term_tR (Im (fst t)) (snd t) beta tau).
Proof.
  intros [[a b] P] beta tau. unfold term_t, term_tR, term_tau. simpl fst; simpl snd.
  rewrite term_tau_cond_C, !term_tau_cond_R. unfold Re, Im; simpl fst; simpl snd.
  destruct (Rltb 0 P).
  - rewrite !term_tau_then_R.
    unfold term_tau_then; simpl. unfold Cdiv, Cinv, Cmult, Copp, Cplus, RtoC; simpl.
    pose proof (exp_pos (- beta * P)) as Hp.
    replace (- beta * P - - 0 * 0) with (- beta * P) by ring.
    replace (- tau * P - - 0 * 0) with (- tau * P) by ring.
    f_equal; field; nra.
  - rewrite !term_tau_else_R.
    unfold term_tau_else; simpl. unfold Cdiv, Cinv, Cmult, Copp, Cplus, Cminus, RtoC; simpl.
    pose proof (exp_pos (beta * P)) as Hp.
    replace (beta * P - 0 * 0) with (beta * P) by ring.
    replace ((beta + - tau) * P - (0 + - 0) * 0) with ((beta - tau) * P) by ring.
    f_equal; field; nra.
Qed.

(** * Relation with the executable specification PV.EDSpec.gf (numops instantiated at CNum) *)

Lemma ksum_csum : forall {A} (l : list A) (f : A -> C) (a0 : C),
  fold_left (fun acc a => nadd C CNum acc (f a)) l a0 = (a0 + csum (map f l))%C.
Proof.
  intros A l f. induction l as [|a l IH]; intros a0; simpl.
  - now rewrite Cplus_0_r.
  - rewrite IH. now rewrite Cplus_assoc.
Qed.

Lemma ksum_is_csum : forall {A} (l : list A) (f : A -> C), ksum C CNum l f = csum (map f l).
Proof. intros A l f. unfold ksum. rewrite ksum_csum. simpl. now rewrite Cplus_0_l. Qed.

Lemma combine_map_self : forall {A B} (f : A -> B) (l : list A),
  combine l (map f l) = map (fun k => (k, f k)) l.
Proof. intros A B f l. induction l as [|a l IH]; simpl; [reflexivity|]. now rewrite IH. Qed.

Lemma idx_map_seq : forall {B} (f : nat -> B) d,
  idx (map f (seq 0 d)) = map (fun k => (k, f k)) (seq 0 d).
Proof. intros B f d. unfold idx. rewrite map_length, seq_length. apply combine_map_self. Qed.

Lemma nth_map_seq : forall {B} (f : nat -> B) d k dflt, (k < d)%nat -> nth k (map f (seq 0 d)) dflt = f k.
Proof.
  intros B f d k dflt H.
  rewrite (nth_indep _ dflt (f 0%nat)) by (now rewrite map_length, seq_length).
  rewrite map_nth. now rewrite seq_nth.
Qed.

Lemma mget_matC : forall d f r c, (r < d)%nat -> (c < d)%nat -> mget C CNum (matC d f) r c = f r c.
Proof.
  intros d f r c Hr Hc. unfold mget, matC. rewrite nth_map_seq by assumption. now apply nth_map_seq.
Qed.

Lemma idx_matC : forall d f, idx (matC d f) = map (fun r => (r, map (fun c => f r c) (seq 0 d))) (seq 0 d).
Proof. intros d f. unfold matC. apply idx_map_seq. Qed.

(** G of the structured data IS the specification's gf with CX_j[m][n] = conj(C_j[n][m]) *)
Theorem G_is_EDSpec_gf : forall D i j z,
  gf C CNum (tabR (dim D) (En D)) (tabR (dim D) (wn D))
     (matC (dim D) (cop D i)) (matC (dim D) (fun m n => Cconj (cop D j n m))) z
  = G D i j z.
Proof.
  intros D i j z. unfold gf, G, lehmann, gterms.
  rewrite ksum_is_csum. rewrite idx_matC, map_map.
  rewrite csum_flat_map. apply csum_map_ext_in. intros n Hn. apply in_seq in Hn. simpl fst; simpl snd.
  rewrite ksum_is_csum, idx_map_seq, !map_map. apply csum_map_ext_in. intros m Hm. apply in_seq in Hm.
  simpl fst; simpl snd. unfold tabR.
  rewrite mget_matC by lia. rewrite !nth_map_seq by lia.
  rewrite term_z_eq. simpl fst; simpl snd. unfold residue, pole. simpl.
  now rewrite <- RtoC_plus, <- RtoC_minus.
Qed.

(** * gf_conj_symmetry *)
Lemma Cconj_mult : forall a b : C, Cconj (a * b)%C = (Cconj a * Cconj b)%C.
Proof. intros [a1 a2] [b1 b2]. unfold Cconj, Cmult; simpl. f_equal; ring. Qed.
Lemma Cconj_inv : forall a : C, Cconj (/ a)%C = (/ Cconj a)%C.
Proof.
  intros [a1 a2]. unfold Cconj, Cinv; simpl.
  replace (- a2 * (- a2 * 1)) with (a2 * (a2 * 1)) by ring. f_equal. unfold Rdiv. ring.
Qed.
Lemma Cconj_minus_R : forall (z : C) (P : R), Cconj (z - RtoC P)%C = (Cconj z - RtoC P)%C.
Proof. intros [a b] P. unfold Cconj, Cminus, Cplus, Copp, RtoC; simpl. f_equal; ring. Qed.
Lemma Cconj_conj : forall a, Cconj (Cconj a) = a.
Proof. intros [a b]. unfold Cconj; simpl. f_equal. ring. Qed.
Lemma Cconj_R : forall x : R, Cconj (RtoC x) = RtoC x.
Proof. intros x. unfold Cconj, RtoC; simpl. f_equal. ring. Qed.

Definition conj_terms (l : list term) : list term := map (fun t => (Cconj (fst t), snd t)) l.

Lemma term_z_conj : forall t z, Cconj (term_z t z) = term_z (Cconj (fst t), snd t) (Cconj z).
Proof.
  intros t z. rewrite !term_z_eq. simpl fst; simpl snd. unfold Cdiv.
  now rewrite Cconj_mult, Cconj_inv, Cconj_minus_R.
Qed.

(** plain form: conjugating the value = conjugating residues and argument (poles are real) *)
Theorem lehmann_conj : forall l z, Cconj (lehmann l z) = lehmann (conj_terms l) (Cconj z).
Proof.
  intros l z. unfold lehmann, conj_terms. rewrite csum_conj, !map_map. f_equal.
  apply map_ext. intros t. apply term_z_conj.
Qed.

Lemma residue_conj : forall D i j n m, Cconj (residue D i j n m) = residue D j i n m.
Proof.
  intros D i j n m. unfold residue. rewrite !Cconj_mult, Cconj_conj, Cconj_R. ring.
Qed.

Lemma conj_gterms : forall D i j, conj_terms (gterms D i j) = gterms D j i.
Proof.
  intros D i j. unfold conj_terms, gterms. rewrite flat_map_concat_map, concat_map, map_map.
  rewrite <- flat_map_concat_map. apply flat_map_ext. intros n. rewrite map_map. apply map_ext. intros m.
  simpl. now rewrite residue_conj.
Qed.

(** conj(G_ij(z)) = G_ji(conj z), for every finite Lehmann data, every z (also at a pole: both sides
    are then the same value of Coq's total division) *)
Theorem gf_conj_symmetry : forall D i j z, Cconj (G D i j z) = G D j i (Cconj z).
Proof. intros D i j z. unfold G. now rewrite lehmann_conj, conj_gterms. Qed.
