(** Proofs about the merge walks of [PV.Sparse]: completeness (the walk returns exactly the positions with
    equal inner index), in-bounds for the repaired loops, refutation of in-bounds for the loops as
    written, and agreement of both whenever the loops as written do not leave the arrays. *)
Require Import Bool List Arith Lia.
From PV Require Import Sparse.
Import ListNotations.

(** * The specification lists *)
Section Matches.
Variables ia ib : nat -> nat.

Lemma flat_map_nil_fun {A B} (l : list A) : flat_map (fun _ : A => @nil B) l = [].
Proof. induction l as [|x l IH]; [reflexivity|exact IH]. Qed.

Lemma flat_map_ext_in {A B} (f g : A -> list B) (l : list A) :
  (forall x, In x l -> f x = g x) -> flat_map f l = flat_map g l.
Proof.
  induction l as [|x l IH]; intros H; [reflexivity|].
  cbn [flat_map]. rewrite (H x (or_introl eq_refl)). f_equal. apply IH. intros y Hy. apply H. right. exact Hy.
Qed.

Lemma row_matches_nil p q k :
  (forall q', q <= q' < q + k -> ia p <> ib q') -> row_matches ia ib p q k = [].
Proof.
  intros H. unfold row_matches.
  rewrite (flat_map_ext_in _ (fun _ => [])); [apply flat_map_nil_fun|].
  intros q' Hq. apply in_seq in Hq.
  destruct (Nat.eqb_spec (ia p) (ib q')) as [E|E]; [exfalso; exact (H q' Hq E)|reflexivity].
Qed.

Lemma row_matches_split p q k1 k2 :
  row_matches ia ib p q (k1 + k2) = row_matches ia ib p q k1 ++ row_matches ia ib p (q + k1) k2.
Proof. unfold row_matches. rewrite seq_app, flat_map_app. reflexivity. Qed.

Lemma matches_nil_l p q k : matches ia ib p 0 q k = [].
Proof. reflexivity. Qed.

Lemma matches_nil_r p n q : matches ia ib p n q 0 = [].
Proof. unfold matches, row_matches. cbn [seq flat_map]. apply flat_map_nil_fun. Qed.

Lemma matches_skip_b p n q k1 k2 :
  (forall p' q', p <= p' < p + n -> q <= q' < q + k1 -> ia p' <> ib q') ->
  matches ia ib p n q (k1 + k2) = matches ia ib p n (q + k1) k2.
Proof.
  intros H. unfold matches. apply flat_map_ext_in. intros p' Hp. apply in_seq in Hp.
  rewrite row_matches_split, row_matches_nil; [reflexivity|].
  intros q' Hq. apply H; assumption.
Qed.

Lemma matches_skip_a p n1 n2 q k :
  (forall p' q', p <= p' < p + n1 -> q <= q' < q + k -> ia p' <> ib q') ->
  matches ia ib p (n1 + n2) q k = matches ia ib (p + n1) n2 q k.
Proof.
  intros H. unfold matches. rewrite seq_app, flat_map_app.
  rewrite (flat_map_ext_in _ (fun _ => [])); [rewrite flat_map_nil_fun; reflexivity|].
  intros p' Hp. apply in_seq in Hp. apply row_matches_nil. intros q' Hq. apply H; assumption.
Qed.

Lemma matches_head p n q k :
  ia p = ib q ->
  (forall q', q < q' < q + S k -> ia p <> ib q') ->
  (forall p', p < p' < p + S n -> ia p' <> ib q) ->
  matches ia ib p (S n) q (S k) = (p, q) :: matches ia ib (S p) n (S q) k.
Proof.
  intros E Hq Hp. unfold matches. cbn [seq flat_map].
  replace (row_matches ia ib p q (S k)) with ([(p, q)] ++ row_matches ia ib p (S q) k).
  2:{ unfold row_matches at 2. cbn [seq flat_map].
      assert (T : (ia p =? ib q) = true) by (apply Nat.eqb_eq; exact E). rewrite T. reflexivity. }
  rewrite row_matches_nil.
  2:{ intros q' Hq'. apply Hq. lia. }
  cbn [app]. f_equal. apply flat_map_ext_in. intros p' Hp'. apply in_seq in Hp'.
  unfold row_matches. cbn [seq flat_map].
  destruct (Nat.eqb_spec (ia p') (ib q)) as [E'|E']; [exfalso; apply (Hp p'); [lia|exact E']|reflexivity].
Qed.

(** membership characterisation: the declarative content of the specification *)
Lemma in_matches p n q k x y :
  In (x, y) (matches ia ib p n q k) <-> (p <= x < p + n /\ q <= y < q + k /\ ia x = ib y).
Proof.
  unfold matches, row_matches. rewrite in_flat_map. split.
  - intros [p' [Hp Hin]]. apply in_seq in Hp. apply in_flat_map in Hin. destruct Hin as [q' [Hq Hin]].
    apply in_seq in Hq. destruct (Nat.eqb_spec (ia p') (ib q')) as [E|E]; [|destruct Hin].
    destruct Hin as [Hin|[]]. injection Hin as <- <-. auto.
  - intros [Hp [Hq E]]. exists x. split; [apply in_seq; exact Hp|].
    apply in_flat_map. exists y. split; [apply in_seq; exact Hq|].
    rewrite E, Nat.eqb_refl. left. reflexivity.
Qed.
End Matches.

(** * Reads on well-formed data *)
Lemma rd_cases {V} (m : cs V) e id :
  (id < length (cs_idx m) /\ id < e /\ rd m e id = Val (idx_at m id)) \/
  (id < length (cs_idx m) /\ e <= id /\ rd m e id = PastEnd (idx_at m id)) \/
  (length (cs_idx m) <= id /\ rd m e id = ROOB).
Proof.
  unfold rd, idx_at. destruct (nth_error (cs_idx m) id) as [v|] eqn:E.
  - assert (Hl : id < length (cs_idx m)) by (apply nth_error_Some; congruence).
    rewrite (nth_error_nth _ _ 0 E).
    destruct (Nat.ltb_spec id e); [left|right; left]; auto.
  - right. right. split; [apply nth_error_None; exact E|reflexivity].
Qed.

Lemma rd_val {V} (m : cs V) e id :
  id < e -> e <= length (cs_idx m) -> rd m e id = Val (idx_at m id).
Proof.
  intros H1 H2. destruct (rd_cases m e id) as [[_ [_ E]]|[[_ [H _]]|[H _]]]; [exact E|lia|lia].
Qed.

(** * The chase loop, all modes *)
Lemma chase_spec {V} (fixed lenient : bool) (sd : side) (m : cs V) (e t : nat) :
  e <= length (cs_idx m) ->
  forall fuel id, S (length (cs_idx m)) - id < fuel ->
  match chase fixed lenient sd m e t fuel id with
  | WDone id' => id <= id' /\ (forall k, id <= k -> k < id' -> k < e -> idx_at m k < t) /\
                 (id' < e -> t <= idx_at m id') /\ (fixed = true -> id <= e -> id' <= e) /\
                 (id < e -> idx_at m id < t -> id < id')
  | WPastEnd _ _ => fixed = false /\ lenient = false
  | WOOB _ _ => fixed = false
  | WFuel => False
  end.
Proof.
  intros He. induction fuel as [|f IH]; intros id Hf; [lia|].
  cbn [chase].
  destruct (fixed && negb (id <? e)) eqn:G.
  - apply andb_prop in G. destruct G as [Gf Ge]. apply negb_true_iff, Nat.ltb_ge in Ge.
    split; [lia|]. split; [intros; lia|]. split; [intros; lia|]. split; intros; lia.
  - assert (Gc : fixed = false \/ id < e).
    { destruct fixed; [right|left; reflexivity]. cbn in G. apply negb_false_iff, Nat.ltb_lt in G. exact G. }
    destruct (rd_cases m e id) as [[Hl [Hlt E]]|[[Hl [Hge E]]|[Hl E]]]; rewrite E.
    + destruct (Nat.ltb_spec (idx_at m id) t) as [Lt|Ge].
      * specialize (IH (S id)).
        destruct (chase fixed lenient sd m e t f (S id)) as [id'| | |]; try (apply IH; lia).
        destruct IH as [H1 [H2 [H3 [H4 H5]]]]; [lia|].
        split; [lia|]. split; [|split; [exact H3|split; [|lia]]].
        -- intros k Hk1 Hk2 Hk3. destruct (Nat.eq_dec k id) as [->|Hne]; [exact Lt|apply H2; lia].
        -- intros Hfx Hid. apply H4; [exact Hfx|lia].
      * split; [lia|]. split; [intros; lia|]. split; [intros; lia|]. split; intros; lia.
    + destruct Gc as [Gf|Gl]; [|lia].
      destruct lenient.
      * destruct (Nat.ltb_spec (idx_at m id) t) as [Lt|Ge].
        -- specialize (IH (S id)).
           destruct (chase fixed true sd m e t f (S id)) as [id'| | |]; try (apply IH; lia).
           destruct IH as [H1 [H2 [H3 [H4 H5]]]]; [lia|].
           split; [lia|]. split; [|split; [|split; [|lia]]].
           ++ intros k Hk1 Hk2 Hk3. lia.
           ++ intros; lia.
           ++ intros Hfx. congruence.
        -- split; [lia|]. split; [intros; lia|]. split; [intros; lia|]. split; [intros Hfx; congruence|intros; lia].
      * split; [exact Gf|reflexivity].
    + destruct Gc as [Gf|Gl]; [exact Gf|lia].
Qed.

(** * The walk, all modes *)
Section Walk.
Context {VA VB : Type}.
Variables (a : cs VA) (b : cs VB).
Variables (la pe lb qe : nat).
Hypothesis Hpe : pe <= length (cs_idx a).
Hypothesis Hqe : qe <= length (cs_idx b).
Hypothesis Hinca : forall k k', la <= k -> k < k' -> k' < pe -> idx_at a k < idx_at a k'.
Hypothesis Hincb : forall k k', lb <= k -> k < k' -> k' < qe -> idx_at b k < idx_at b k'.

Lemma walk_spec (fixed lenient : bool) :
  forall fuel p q, la <= p -> p <= pe -> lb <= q -> q <= qe -> (pe - p) + (qe - q) < fuel ->
  match walk fixed lenient a b pe qe fuel p q with
  | WDone l => l = matches (idx_at a) (idx_at b) p (pe - p) q (qe - q)
  | WPastEnd _ _ => fixed = false /\ lenient = false
  | WOOB _ _ => fixed = false
  | WFuel => False
  end.
Proof.
  induction fuel as [|f IH]; intros p q Hp1 Hp2 Hq1 Hq2 Hf; [lia|].
  cbn [walk].
  destruct (Nat.ltb_spec p pe) as [Lp|Gp]; cbn [andb].
  2:{ replace (pe - p) with 0 by lia. reflexivity. }
  destruct (Nat.ltb_spec q qe) as [Lq|Gq].
  2:{ replace (qe - q) with 0 by lia. rewrite matches_nil_r. reflexivity. }
  rewrite (rd_val a pe p Lp Hpe), (rd_val b qe q Lq Hqe).
  destruct (Nat.eqb_spec (idx_at a p) (idx_at b q)) as [E|NE].
  - (* match *)
    specialize (IH (S p) (S q)).
    destruct (walk fixed lenient a b pe qe f (S p) (S q)) as [l| | |]; cbn [wcons wmap];
      try (apply IH; lia).
    rewrite IH by lia.
    replace (pe - p) with (S (pe - S p)) by lia. replace (qe - q) with (S (qe - S q)) by lia.
    symmetry. apply matches_head.
    + exact E.
    + intros q' Hq'. rewrite E. assert (idx_at b q < idx_at b q') by (apply Hincb; lia). lia.
    + intros p' Hp'. rewrite <- E. assert (idx_at a p < idx_at a p') by (apply Hinca; lia). lia.
  - destruct (Nat.ltb_spec (idx_at b q) (idx_at a p)) as [Lt|Ge].
    + (* chase b up to idx_at a p *)
      pose proof (chase_spec fixed lenient SideB b qe (idx_at a p) Hqe (chase_fuel b) q) as C.
      unfold chase_fuel in C at 1.
      destruct (chase fixed lenient SideB b qe (idx_at a p) (chase_fuel b) q) as [q'| | |]; cbn [wbind];
        try (apply C; lia).
      destruct C as [C1 [C2 [C3 [C4 C5]]]]; [lia|].
      assert (Hgt : q < q') by (apply C5; assumption).
      destruct (Nat.le_gt_cases q' qe) as [Hle|Hov].
      * (* stayed inside: skip b[q..q') *)
        specialize (IH p q').
        destruct (walk fixed lenient a b pe qe f p q') as [l| | |]; try (apply IH; lia).
        rewrite IH by lia.
        replace (qe - q) with ((q' - q) + (qe - q')) by lia.
        rewrite matches_skip_b; [replace (q + (q' - q)) with q' by lia; reflexivity|].
        intros p' k Hp' Hk. assert (idx_at b k < idx_at a p) by (apply C2; lia).
        assert (idx_at a p <= idx_at a p').
        { destruct (Nat.eq_dec p p') as [->|]; [lia|]. assert (idx_at a p < idx_at a p') by (apply Hinca; lia). lia. }
        lia.
      * (* ran past the end of the inner vector (only possible for the unrepaired loop, lenient): nothing left to match *)
        destruct f as [|f']; [lia|]. cbn [walk].
        destruct (Nat.ltb_spec q' qe) as [|_]; [lia|]. rewrite andb_false_r.
        replace (qe - q) with ((qe - q) + 0) by lia.
        rewrite matches_skip_b; [rewrite matches_nil_r; reflexivity|].
        intros p' k Hp' Hk. assert (idx_at b k < idx_at a p) by (apply C2; lia).
        assert (idx_at a p <= idx_at a p').
        { destruct (Nat.eq_dec p p') as [->|]; [lia|]. assert (idx_at a p < idx_at a p') by (apply Hinca; lia). lia. }
        lia.
    + (* chase a up to idx_at b q *)
      assert (Lt : idx_at a p < idx_at b q) by lia.
      pose proof (chase_spec fixed lenient SideA a pe (idx_at b q) Hpe (chase_fuel a) p) as C.
      unfold chase_fuel in C at 1.
      destruct (chase fixed lenient SideA a pe (idx_at b q) (chase_fuel a) p) as [p'| | |]; cbn [wbind];
        try (apply C; lia).
      destruct C as [C1 [C2 [C3 [C4 C5]]]]; [lia|].
      assert (Hgt : p < p') by (apply C5; assumption).
      destruct (Nat.le_gt_cases p' pe) as [Hle|Hov].
      * specialize (IH p' q).
        destruct (walk fixed lenient a b pe qe f p' q) as [l| | |]; try (apply IH; lia).
        rewrite IH by lia.
        replace (pe - p) with ((p' - p) + (pe - p')) by lia.
        rewrite matches_skip_a; [replace (p + (p' - p)) with p' by lia; reflexivity|].
        intros k q'' Hk Hq''. assert (idx_at a k < idx_at b q) by (apply C2; lia).
        assert (idx_at b q <= idx_at b q'').
        { destruct (Nat.eq_dec q q'') as [->|]; [lia|]. assert (idx_at b q < idx_at b q'') by (apply Hincb; lia). lia. }
        lia.
      * destruct f as [|f']; [lia|]. cbn [walk].
        destruct (Nat.ltb_spec p' pe) as [|_]; [lia|]. cbn [andb].
        replace (pe - p) with ((pe - p) + 0) by lia.
        rewrite matches_skip_a; [rewrite matches_nil_l; reflexivity|].
        intros k q'' Hk Hq''. assert (idx_at a k < idx_at b q) by (apply C2; lia).
        assert (idx_at b q <= idx_at b q'').
        { destruct (Nat.eq_dec q q'') as [->|]; [lia|]. assert (idx_at b q < idx_at b q'') by (apply Hincb; lia). lia. }
        lia.
Qed.
End Walk.

(** * Facts about well-formed matrices *)
Section WF.
Context {V : Type}.
Variable m : cs V.
Hypothesis W : cs_wf m.

Lemma ptr_mono_le : forall o o', o <= o' -> o' <= cs_outer m -> ptr_at m o <= ptr_at m o'.
Proof.
  intros o o' H. induction H as [|o' H IH]; intros Ho; [lia|].
  transitivity (ptr_at m o'); [apply IH; lia|apply (wf_ptr_mono m W); lia].
Qed.

Lemma ptr_le_len : forall o, o <= cs_outer m -> ptr_at m o <= length (cs_idx m).
Proof. intros o Ho. rewrite <- (wf_ptr_last m W). apply ptr_mono_le; lia. Qed.

Lemma idx_incr_seg : forall o, o < cs_outer m ->
  forall k k', ptr_at m o <= k -> k < k' -> k' < ptr_at m (S o) -> idx_at m k < idx_at m k'.
Proof.
  intros o Ho k k' Hk Hlt. induction Hlt as [|k' Hlt IH]; intros Hk'.
  - apply (wf_idx_incr m W o); assumption.
  - transitivity (idx_at m k'); [apply IH; lia|apply (wf_idx_incr m W o); lia].
Qed.

Lemma iter_begin_wf : forall o, o < cs_outer m -> iter_begin m o = Some (ptr_at m o, ptr_at m (S o)).
Proof.
  intros o Ho. unfold iter_begin, ptr_at.
  pose proof (wf_ptr_nonempty m W) as L.
  rewrite (nth_error_nth' (cs_ptr m) 0) by lia.
  rewrite (nth_error_nth' (cs_ptr m) 0) by lia. reflexivity.
Qed.
End WF.

(** * Theorems about the walk over one outer index *)
Section Outer.
Context {VA VB : Type}.
Variables (a : cs VA) (b : cs VB).
Hypothesis Wa : cs_wf a.
Hypothesis Wb : cs_wf b.

Lemma walk_outer_spec (fixed lenient : bool) (o : nat) :
  o < cs_outer a -> o < cs_outer b ->
  match walk_outer fixed lenient a b o with
  | WDone l => l = matches_outer a b o
  | WPastEnd _ _ => fixed = false /\ lenient = false
  | WOOB _ _ => fixed = false
  | WFuel => False
  end.
Proof.
  intros Ha Hb. unfold walk_outer. rewrite (iter_begin_wf a Wa o Ha), (iter_begin_wf b Wb o Hb).
  unfold matches_outer.
  pose proof (wf_ptr_mono a Wa o Ha). pose proof (wf_ptr_mono b Wb o Hb).
  apply (walk_spec a b (ptr_at a o) (ptr_at a (S o)) (ptr_at b o) (ptr_at b (S o))).
  - apply (ptr_le_len a Wa). lia.
  - apply (ptr_le_len b Wb). lia.
  - apply (idx_incr_seg a Wa o Ha).
  - apply (idx_incr_seg b Wb o Hb).
  - lia.
  - assumption.
  - lia.
  - assumption.
  - unfold walk_fuel. lia.
Qed.

(** Completeness, for the loops as written and for the repaired loops, strict or lenient:
    whenever the walk returns, it returns exactly the specified list. *)
Theorem gf_walk_complete (fixed lenient : bool) (o : nat) (l : list (nat * nat)) :
  o < cs_outer a -> o < cs_outer b ->
  walk_outer fixed lenient a b o = WDone l -> l = matches_outer a b o.
Proof.
  intros Ha Hb E. pose proof (walk_outer_spec fixed lenient o Ha Hb) as S. rewrite E in S. exact S.
Qed.

(** The repaired loops never read outside the inner vector (nor outside the arrays), never run out of fuel. *)
Theorem gf_chase_in_bounds (lenient : bool) (o : nat) :
  o < cs_outer a -> o < cs_outer b ->
  walk_outer true lenient a b o = WDone (matches_outer a b o).
Proof.
  intros Ha Hb. pose proof (walk_outer_spec true lenient o Ha Hb) as S.
  destruct (walk_outer true lenient a b o) as [l|s p|s p|]; [subst l; reflexivity| | |contradiction].
  - destruct S as [S _]. discriminate S.
  - discriminate S.
Qed.

(** The defect is a memory-safety defect only: whenever the loops as written return (strict: no bad
    read at all; lenient: past-end reads inside the array continue with what is in memory), the
    repaired loops return the same list. *)
Theorem gf_fixed_agrees (lenient lenient' : bool) (o : nat) (l : list (nat * nat)) :
  o < cs_outer a -> o < cs_outer b ->
  walk_outer false lenient a b o = WDone l -> walk_outer true lenient' a b o = WDone l.
Proof.
  intros Ha Hb E. rewrite (gf_walk_complete false lenient o l Ha Hb E). apply gf_chase_in_bounds; assumption.
Qed.

(** the lenient run of the loops as written either leaves the arrays or returns the right list: a
    past-end read inside the arrays never changes the result *)
Theorem gf_pastend_harmless (o : nat) :
  o < cs_outer a -> o < cs_outer b ->
  walk_outer false true a b o = WDone (matches_outer a b o) \/
  exists s p, walk_outer false true a b o = WOOB s p.
Proof.
  intros Ha Hb. pose proof (walk_outer_spec false true o Ha Hb) as S.
  destruct (walk_outer false true a b o) as [l|s p|s p|]; [left; subst l; reflexivity| |right; eauto|contradiction].
  destruct S as [_ S]. discriminate S.
Qed.
End Outer.

(** * The whole part: all outer indices *)
Section Part.
Context {VA VB : Type}.
Variables (a : cs VA) (b : cs VB).
Hypothesis Wa : cs_wf a.
Hypothesis Wb : cs_wf b.
Hypothesis Hout : cs_outer a <= cs_outer b.

Lemma part_walk_from_spec (fixed lenient : bool) :
  forall n o, o + n <= cs_outer a ->
  match part_walk_from fixed lenient a b n o with
  | WDone l => l = flat_map (fun o' => map (fun pq => (o', pq)) (matches_outer a b o')) (seq o n)
  | WPastEnd _ _ => fixed = false /\ lenient = false
  | WOOB _ _ => fixed = false
  | WFuel => False
  end.
Proof.
  induction n as [|n IH]; intros o Ho; [reflexivity|].
  cbn [part_walk_from].
  pose proof (walk_outer_spec a b Wa Wb fixed lenient o) as Sp.
  destruct (walk_outer fixed lenient a b o) as [l| | |]; cbn [wbind]; try (apply Sp; lia).
  rewrite Sp by lia.
  specialize (IH (S o)).
  destruct (part_walk_from fixed lenient a b n (S o)) as [r| | |]; cbn [wmap]; try (apply IH; lia).
  rewrite IH by lia. reflexivity.
Qed.

Theorem part_walk_complete (fixed lenient : bool) (l : list (nat * (nat * nat))) :
  part_walk fixed lenient a b = WDone l -> l = matches_part a b.
Proof.
  intros E. pose proof (part_walk_from_spec fixed lenient (cs_outer a) 0 (Nat.le_refl _)) as S.
  unfold part_walk in E. rewrite E in S. exact S.
Qed.

Theorem part_walk_in_bounds (lenient : bool) :
  part_walk true lenient a b = WDone (matches_part a b).
Proof.
  pose proof (part_walk_from_spec true lenient (cs_outer a) 0 (Nat.le_refl _)) as S.
  unfold part_walk. destruct (part_walk_from true lenient a b (cs_outer a) 0) as [l|s p|s p|];
    [subst l; reflexivity| | |contradiction].
  - destruct S as [S _]. discriminate S.
  - discriminate S.
Qed.

Theorem part_walk_fixed_agrees (lenient lenient' : bool) (l : list (nat * (nat * nat))) :
  part_walk false lenient a b = WDone l -> part_walk true lenient' a b = WDone l.
Proof. intros E. rewrite (part_walk_complete false lenient l E). apply part_walk_in_bounds. Qed.
End Part.

(** Independently of well-formedness: a strict run of the loops as written that returns is, step for step,
    a run of the repaired loops (the added tests are all true). *)
Lemma chase_strict_done_fixed {V} (lenient' : bool) (sd : side) (m : cs V) (e t : nat) :
  forall fuel id id', chase false false sd m e t fuel id = WDone id' -> chase true lenient' sd m e t fuel id = WDone id'.
Proof.
  induction fuel as [|f IH]; intros id id' E; [discriminate E|].
  cbn [chase] in *. cbn [andb] in E.
  destruct (rd_cases m e id) as [[Hl [Hlt R]]|[[Hl [Hge R]]|[Hl R]]]; rewrite R in *.
  - destruct (Nat.ltb_spec id e) as [_|]; [|lia]. cbn [negb andb].
    destruct (idx_at m id <? t); [apply IH; exact E|exact E].
  - discriminate E.
  - discriminate E.
Qed.

Lemma walk_strict_done_fixed {VA VB} (lenient' : bool) (a : cs VA) (b : cs VB) (pe qe : nat) :
  forall fuel p q l, walk false false a b pe qe fuel p q = WDone l -> walk true lenient' a b pe qe fuel p q = WDone l.
Proof.
  induction fuel as [|f IH]; intros p q l E; [discriminate E|].
  cbn [walk] in *. destruct ((p <? pe) && (q <? qe)); [|exact E].
  destruct (rd a pe p) as [i|i|]; try discriminate E.
  destruct (rd b qe q) as [j|j|]; try discriminate E.
  destruct (i =? j).
  - destruct (walk false false a b pe qe f (S p) (S q)) as [l'| | |] eqn:W; cbn [wcons wmap] in E; try discriminate E.
    rewrite (IH _ _ _ W). exact E.
  - destruct (j <? i).
    + destruct (chase false false SideB b qe i (chase_fuel b) q) as [q'| | |] eqn:C; cbn [wbind] in E; try discriminate E.
      rewrite (chase_strict_done_fixed lenient' _ _ _ _ _ _ _ C). cbn [wbind]. apply IH. exact E.
    + destruct (chase false false SideA a pe j (chase_fuel a) p) as [p'| | |] eqn:C; cbn [wbind] in E; try discriminate E.
      rewrite (chase_strict_done_fixed lenient' _ _ _ _ _ _ _ C). cbn [wbind]. apply IH. exact E.
Qed.

Theorem walk_outer_strict_done_fixed {VA VB} (lenient' : bool) (a : cs VA) (b : cs VB) (o : nat) (l : list (nat * nat)) :
  walk_outer false false a b o = WDone l -> walk_outer true lenient' a b o = WDone l.
Proof.
  unfold walk_outer. destruct (iter_begin a o) as [[p pe]|]; [|intros E; discriminate E].
  destruct (iter_begin b o) as [[q qe]|]; [|intros E; discriminate E].
  apply walk_strict_done_fixed.
Qed.

(** * chaseIndices / the 2PGF walk *)
Lemma chase2_spec {V} (fixed lenient : bool) (sd : side) (m : cs V) (e t : nat) :
  e <= length (cs_idx m) ->
  forall fuel id, id <= e -> S e - id < fuel ->
  match chase2 fixed lenient sd m e t fuel id with
  | WDone id' => id <= id' /\ id' <= e /\ (forall k, id <= k -> k < id' -> idx_at m k < t) /\
                 (id' < e -> t <= idx_at m id') /\ (id < e -> idx_at m id < t -> id < id')
  | WPastEnd _ _ => fixed = false /\ lenient = false
  | WOOB _ _ => fixed = false
  | WFuel => False
  end.
Proof.
  intros He. induction fuel as [|f IH]; intros id Hid Hf; [lia|].
  cbn [chase2]. destruct fixed.
  - destruct (Nat.ltb_spec id e) as [Lt|Ge].
    + rewrite (rd_val m e id Lt He).
      destruct (Nat.ltb_spec (idx_at m id) t) as [L|G].
      * specialize (IH (S id)).
        destruct (chase2 true lenient sd m e t f (S id)) as [id'| | |]; try (apply IH; lia).
        destruct IH as [H1 [H2 [H3 [H4 H5]]]]; [lia|lia|].
        split; [lia|]. split; [lia|]. split; [|split; [exact H4|lia]].
        intros k Hk1 Hk2. destruct (Nat.eq_dec k id) as [->|]; [exact L|apply H3; lia].
      * split; [lia|]. split; [lia|]. split; [intros; lia|]. split; intros; lia.
    + split; [lia|]. split; [lia|]. split; [intros; lia|]. split; intros; lia.
  - destruct (rd_cases m e id) as [[Hl [Hlt R]]|[[Hl [Hge R]]|[Hl R]]]; rewrite R.
    + destruct (Nat.ltb_spec id e) as [_|]; [|lia]. rewrite andb_true_r.
      destruct (Nat.ltb_spec (idx_at m id) t) as [L|G].
      * specialize (IH (S id)).
        destruct (chase2 false lenient sd m e t f (S id)) as [id'| | |]; try (apply IH; lia).
        destruct IH as [H1 [H2 [H3 [H4 H5]]]]; [lia|lia|].
        split; [lia|]. split; [lia|]. split; [|split; [exact H4|lia]].
        intros k Hk1 Hk2. destruct (Nat.eq_dec k id) as [->|]; [exact L|apply H3; lia].
      * split; [lia|]. split; [lia|]. split; [intros; lia|]. split; intros; lia.
    + destruct lenient.
      * destruct (Nat.ltb_spec id e) as [|_]; [lia|]. rewrite andb_false_r.
        split; [lia|]. split; [lia|]. split; [intros; lia|]. split; intros; lia.
      * split; reflexivity.
    + reflexivity.
Qed.

Section Walk2.
Context {VA VB : Type}.
Variables (a : cs VA) (b : cs VB).
Variables (la pe lb qe : nat).
Hypothesis Hpe : pe <= length (cs_idx a).
Hypothesis Hqe : qe <= length (cs_idx b).
Hypothesis Hinca : forall k k', la <= k -> k < k' -> k' < pe -> idx_at a k < idx_at a k'.
Hypothesis Hincb : forall k k', lb <= k -> k < k' -> k' < qe -> idx_at b k < idx_at b k'.

(** chaseIndices, called as the code calls it (both iterators valid) *)
Lemma chaseIndices_spec (fixed lenient : bool) (p q : nat) :
  p < pe -> q < qe ->
  match chaseIndices fixed lenient a pe b qe p q with
  | WDone (true, (p', q')) => p' = p /\ q' = q /\ idx_at a p = idx_at b q
  | WDone (false, (p', q')) =>
      idx_at a p <> idx_at b q /\ p <= p' <= pe /\ q <= q' <= qe /\ p + q < p' + q' /\
      (forall k, p <= k -> k < p' -> idx_at a k < idx_at b q) /\ (forall k, q <= k -> k < q' -> idx_at b k < idx_at a p) /\
      (p' = p \/ q' = q)
  | WPastEnd _ _ => fixed = false /\ lenient = false
  | WOOB _ _ => fixed = false
  | WFuel => False
  end.
Proof.
  intros Lp Lq. unfold chaseIndices.
  rewrite (rd_val a pe p Lp Hpe), (rd_val b qe q Lq Hqe).
  destruct (Nat.eqb_spec (idx_at a p) (idx_at b q)) as [E|NE]; [auto|].
  destruct (Nat.ltb_spec (idx_at a p) (idx_at b q)) as [Lt|Ge].
  - pose proof (chase2_spec fixed lenient SideA a pe (idx_at b q) Hpe (chase_fuel a) p) as C.
    unfold chase_fuel in C at 1.
    destruct (chase2 fixed lenient SideA a pe (idx_at b q) (chase_fuel a) p) as [p'| | |]; cbn [wmap];
      try (apply C; lia).
    destruct C as [C1 [C2 [C3 [C4 C5]]]]; [lia|lia|].
    assert (p < p') by (apply C5; assumption).
    split; [exact NE|]. split; [lia|]. split; [lia|]. split; [lia|]. split; [exact C3|]. split; [intros; lia|right; reflexivity].
  - pose proof (chase2_spec fixed lenient SideB b qe (idx_at a p) Hqe (chase_fuel b) q) as C.
    unfold chase_fuel in C at 1.
    destruct (chase2 fixed lenient SideB b qe (idx_at a p) (chase_fuel b) q) as [q'| | |]; cbn [wmap];
      try (apply C; lia).
    destruct C as [C1 [C2 [C3 [C4 C5]]]]; [lia|lia|].
    assert (q < q') by (apply C5; lia).
    split; [exact NE|]. split; [lia|]. split; [lia|]. split; [lia|]. split; [intros; lia|]. split; [exact C3|left; reflexivity].
Qed.

Lemma walk2_spec (fixed lenient : bool) :
  forall fuel p q, la <= p -> p <= pe -> lb <= q -> q <= qe -> (pe - p) + (qe - q) < fuel ->
  match walk2 fixed lenient a b pe qe fuel p q with
  | WDone l => l = matches (idx_at a) (idx_at b) p (pe - p) q (qe - q)
  | WPastEnd _ _ => fixed = false /\ lenient = false
  | WOOB _ _ => fixed = false
  | WFuel => False
  end.
Proof.
  induction fuel as [|f IH]; intros p q Hp1 Hp2 Hq1 Hq2 Hf; [lia|].
  cbn [walk2].
  destruct (Nat.ltb_spec p pe) as [Lp|Gp]; cbn [andb].
  2:{ replace (pe - p) with 0 by lia. reflexivity. }
  destruct (Nat.ltb_spec q qe) as [Lq|Gq].
  2:{ replace (qe - q) with 0 by lia. rewrite matches_nil_r. reflexivity. }
  pose proof (chaseIndices_spec fixed lenient p q Lp Lq) as C.
  destruct (chaseIndices fixed lenient a pe b qe p q) as [[[|] [p' q']]| | |]; cbn [wbind]; try exact C.
  - destruct C as [-> [-> E]].
    specialize (IH (S p) (S q)).
    destruct (walk2 fixed lenient a b pe qe f (S p) (S q)) as [l| | |]; cbn [wcons wmap]; try (apply IH; lia).
    rewrite IH by lia.
    replace (pe - p) with (S (pe - S p)) by lia. replace (qe - q) with (S (qe - S q)) by lia.
    symmetry. apply matches_head.
    + exact E.
    + intros q'' Hq'. rewrite E. assert (idx_at b q < idx_at b q'') by (apply Hincb; lia). lia.
    + intros p'' Hp'. rewrite <- E. assert (idx_at a p < idx_at a p'') by (apply Hinca; lia). lia.
  - destruct C as [NE [Hp' [Hq' [Hprog [Ca [Cb Hone]]]]]].
    specialize (IH p' q').
    destruct (walk2 fixed lenient a b pe qe f p' q') as [l| | |]; try (apply IH; lia).
    rewrite IH by lia.
    destruct Hone as [->| ->].
    + replace (qe - q) with ((q' - q) + (qe - q')) by lia.
      rewrite matches_skip_b; [replace (q + (q' - q)) with q' by lia; reflexivity|].
      intros p'' k Hp'' Hk. assert (idx_at b k < idx_at a p) by (apply Cb; lia).
      assert (idx_at a p <= idx_at a p'').
      { destruct (Nat.eq_dec p p'') as [->|]; [lia|]. assert (idx_at a p < idx_at a p'') by (apply Hinca; lia). lia. }
      lia.
    + replace (pe - p) with ((p' - p) + (pe - p')) by lia.
      rewrite matches_skip_a; [replace (p + (p' - p)) with p' by lia; reflexivity|].
      intros k q'' Hk Hq''. assert (idx_at a k < idx_at b q) by (apply Ca; lia).
      assert (idx_at b q <= idx_at b q'').
      { destruct (Nat.eq_dec q q'') as [->|]; [lia|]. assert (idx_at b q < idx_at b q'') by (apply Hincb; lia). lia. }
      lia.
Qed.
End Walk2.

Section Outer2.
Context {VA VB : Type}.
Variables (a : cs VA) (b : cs VB).
Hypothesis Wa : cs_wf a.
Hypothesis Wb : cs_wf b.

Definition matches_outer2 (oa ob : nat) : list (nat * nat) :=
  matches (idx_at a) (idx_at b) (ptr_at a oa) (ptr_at a (S oa) - ptr_at a oa) (ptr_at b ob) (ptr_at b (S ob) - ptr_at b ob).

Lemma walk2_outer_spec (fixed lenient : bool) (oa ob : nat) :
  oa < cs_outer a -> ob < cs_outer b ->
  match walk2_outer fixed lenient a oa b ob with
  | WDone l => l = matches_outer2 oa ob
  | WPastEnd _ _ => fixed = false /\ lenient = false
  | WOOB _ _ => fixed = false
  | WFuel => False
  end.
Proof.
  intros Ha Hb. unfold walk2_outer. rewrite (iter_begin_wf a Wa oa Ha), (iter_begin_wf b Wb ob Hb).
  unfold matches_outer2.
  pose proof (wf_ptr_mono a Wa oa Ha). pose proof (wf_ptr_mono b Wb ob Hb).
  apply (walk2_spec a b (ptr_at a oa) (ptr_at a (S oa)) (ptr_at b ob) (ptr_at b (S ob))).
  - apply (ptr_le_len a Wa). lia.
  - apply (ptr_le_len b Wb). lia.
  - apply (idx_incr_seg a Wa oa Ha).
  - apply (idx_incr_seg b Wb ob Hb).
  - lia.
  - assumption.
  - lia.
  - assumption.
  - unfold walk_fuel. lia.
Qed.

(** the repaired chaseIndices never reads outside the inner vectors, when called as the code calls it *)
Theorem chaseIndices_in_bounds (lenient : bool) (oa ob p q : nat) :
  oa < cs_outer a -> ob < cs_outer b ->
  ptr_at a oa <= p < ptr_at a (S oa) -> ptr_at b ob <= q < ptr_at b (S ob) ->
  exists r, chaseIndices true lenient a (ptr_at a (S oa)) b (ptr_at b (S ob)) p q = WDone r.
Proof.
  intros Ha Hb Hp Hq.
  pose proof (chaseIndices_spec a b (ptr_at a (S oa)) (ptr_at b (S ob))
               (ptr_le_len a Wa (S oa) ltac:(lia)) (ptr_le_len b Wb (S ob) ltac:(lia))
               true lenient p q ltac:(lia) ltac:(lia)) as C.
  destruct (chaseIndices true lenient a (ptr_at a (S oa)) b (ptr_at b (S ob)) p q) as [r|s k|s k|];
    [eauto| | |contradiction].
  - destruct C as [C _]. discriminate C.
  - discriminate C.
Qed.

Theorem walk2_in_bounds (lenient : bool) (oa ob : nat) :
  oa < cs_outer a -> ob < cs_outer b ->
  walk2_outer true lenient a oa b ob = WDone (matches_outer2 oa ob).
Proof.
  intros Ha Hb. pose proof (walk2_outer_spec true lenient oa ob Ha Hb) as S.
  destruct (walk2_outer true lenient a oa b ob) as [l|s p|s p|]; [subst l; reflexivity| | |contradiction].
  - destruct S as [S _]. discriminate S.
  - discriminate S.
Qed.

Theorem walk2_complete (fixed lenient : bool) (oa ob : nat) (l : list (nat * nat)) :
  oa < cs_outer a -> ob < cs_outer b ->
  walk2_outer fixed lenient a oa b ob = WDone l -> l = matches_outer2 oa ob.
Proof.
  intros Ha Hb E. pose proof (walk2_outer_spec fixed lenient oa ob Ha Hb) as S. rewrite E in S. exact S.
Qed.
End Outer2.

(** * The boolean well-formedness test is sound *)
Lemma mono_b_sound (l : list nat) : mono_b l = true -> forall o, S o < length l -> nth o l 0 <= nth (S o) l 0.
Proof.
  induction l as [|x l IH]; intros H o Ho; [cbn in Ho; lia|].
  destruct l as [|y l']; [cbn in Ho; lia|].
  cbn [mono_b] in H. apply andb_prop in H. destruct H as [H1 H2]. apply Nat.leb_le in H1.
  destruct o as [|o]; [exact H1|].
  change (nth o (y :: l') 0 <= nth (S o) (y :: l') 0). apply IH; [exact H2|cbn [length] in *; lia].
Qed.

Lemma incr_from_sound (idx : list nat) : forall n p, incr_from idx p n = true ->
  forall k, p <= k -> k < p + n -> nth k idx 0 < nth (S k) idx 0.
Proof.
  induction n as [|n IH]; intros p H k Hk1 Hk2; [lia|].
  cbn [incr_from] in H. apply andb_prop in H. destruct H as [H1 H2]. apply Nat.ltb_lt in H1.
  destruct (Nat.eq_dec k p) as [->|]; [exact H1|]. apply (IH (S p)); [exact H2|lia|lia].
Qed.

Theorem cs_wf_b_sound {V} (m : cs V) : cs_wf_b m = true -> cs_wf m.
Proof.
  unfold cs_wf_b. destruct (cs_ptr m) as [|x l] eqn:P; [discriminate|].
  rewrite <- P. intros H.
  repeat (apply andb_prop in H; destruct H as [H ?]).
  assert (L : length (cs_ptr m) = S (cs_outer m)).
  { unfold cs_outer. rewrite P. reflexivity. }
  constructor.
  - exact L.
  - intros o Ho. unfold ptr_at. apply mono_b_sound; [assumption|lia].
  - apply Nat.eqb_eq. assumption.
  - apply Nat.eqb_eq. assumption.
  - intros o p Ho Hp1 Hp2. unfold idx_at.
    match goal with HH : forallb _ (seq 0 (cs_outer m)) = true |- _ =>
      rewrite forallb_forall in HH; specialize (HH o ltac:(apply in_seq; lia)) end.
    eapply incr_from_sound; [eassumption|exact Hp1|lia].
  - intros p Hp. unfold idx_at.
    match goal with HH : forallb _ (cs_idx m) = true |- _ => rewrite forallb_forall in HH;
      specialize (HH (nth p (cs_idx m) 0) ltac:(apply nth_In; exact Hp)) end.
    apply Nat.ltb_lt. assumption.
Qed.

(** * Refutations for the loops as written (witnesses found by reading the code; replayed on the library under ASan) *)

(** a = one row with entry in column 1;  b = one column with entry in row 0 (and nothing after it):
    Cinner.index() = 1, CXinner.index() = 0 < 1, so CXinner is chased: ++CXinner leaves the (last) column and the
    next CXinner.index() reads innerIndexPtr[1] of an array of length 1. *)
Definition wit_a : cs nat := mkcs 2 [0; 1] [1] [7].
Definition wit_b : cs nat := mkcs 2 [0; 1] [0] [9].
(** the same with a further column behind: the bad read stays inside the array and returns an entry of column 1 *)
Definition wit_a2 : cs nat := mkcs 2 [0; 1; 1] [1] [7].
Definition wit_b2 : cs nat := mkcs 2 [0; 1; 2] [0; 1] [9; 9].

Theorem gf_chase_in_bounds_refuted :
  exists (a b : cs nat) (o : nat), cs_wf a /\ cs_wf b /\ o < cs_outer a /\ o < cs_outer b /\
    walk_outer false false a b o = WOOB SideB 1.
Proof.
  exists wit_a, wit_b, 0. repeat split; try (apply cs_wf_b_sound; vm_compute; reflexivity); vm_compute; lia || reflexivity.
Qed.

Theorem gf_chase_past_end_refuted :
  exists (a b : cs nat) (o : nat), cs_wf a /\ cs_wf b /\ o < cs_outer a /\ o < cs_outer b /\
    walk_outer false false a b o = WPastEnd SideB 1 /\
    walk_outer false true a b o = WDone [] /\ walk_outer true false a b o = WDone [].
Proof.
  exists wit_a2, wit_b2, 0. repeat split; try (apply cs_wf_b_sound; vm_compute; reflexivity); vm_compute; lia || reflexivity.
Qed.

(** even in lenient mode (the hardware's view) the run leaves the arrays on the first witness *)
Theorem gf_chase_lenient_oob :
  exists (a b : cs nat) (o : nat), cs_wf a /\ cs_wf b /\ walk_outer false true a b o = WOOB SideB 1.
Proof.
  exists wit_a, wit_b, 0. repeat split; try (apply cs_wf_b_sound; vm_compute; reflexivity); vm_compute; reflexivity.
Qed.

Theorem chaseIndices_refuted :
  exists (a b : cs nat) (p q : nat), cs_wf a /\ cs_wf b /\
    ptr_at a 0 <= p < ptr_at a 1 /\ ptr_at b 0 <= q < ptr_at b 1 /\
    chaseIndices false false a (ptr_at a 1) b (ptr_at b 1) p q = WOOB SideB 1.
Proof.
  exists wit_a, wit_b, 0, 0. repeat split; try (apply cs_wf_b_sound; vm_compute; reflexivity); vm_compute; lia || reflexivity.
Qed.

Theorem chaseIndices_past_end_refuted :
  exists (a b : cs nat) (p q : nat), cs_wf a /\ cs_wf b /\
    ptr_at a 0 <= p < ptr_at a 1 /\ ptr_at b 0 <= q < ptr_at b 1 /\
    chaseIndices false false a (ptr_at a 1) b (ptr_at b 1) p q = WPastEnd SideB 1.
Proof.
  exists wit_a2, wit_b2, 0, 0. repeat split; try (apply cs_wf_b_sound; vm_compute; reflexivity); vm_compute; lia || reflexivity.
Qed.

(** * Examples: the hypotheses are satisfiable by non-trivial values *)
Definition ex_a : cs nat := mkcs 4 [0; 2; 3; 5] [0; 2; 1; 1; 3] [1; 2; 3; 4; 5].
Definition ex_b : cs nat := mkcs 3 [0; 2; 4; 5] [1; 2; 0; 1; 1] [6; 7; 8; 9; 10].
Example ex_wf : cs_wf ex_a /\ cs_wf ex_b /\ cs_outer ex_a <= cs_outer ex_b.
Proof. repeat split; try (apply cs_wf_b_sound; vm_compute; reflexivity). vm_compute. lia. Qed.
Example ex_walk : part_walk true false ex_a ex_b = WDone [(0, (1, 1)); (1, (2, 3)); (2, (3, 4))].
Proof. vm_compute. reflexivity. Qed.
Example ex_walk_spec : matches_part ex_a ex_b = [(0, (1, 1)); (1, (2, 3)); (2, (3, 4))].
Proof. vm_compute. reflexivity. Qed.
