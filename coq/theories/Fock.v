(** Fock states and the action of creation / annihilation operators, exactly as
    Operator::actRight(monomial, ket) in src/pomerol/Operator.cpp:

    - a Fock state is a bit string; mode i is bit i (least significant first);
    - the monomial is applied right to left;
    - Pauli principle: creating on an occupied / annihilating on an empty mode gives 0;
    - the sign is (-1)^(number of occupied modes j < ind)  (prev_pos_ is always 0 in the C++,
      so the first loop counts bits 0..ind-1 and the second loop never runs);
    - an index >= the size of the bit string is undefined behaviour in the C++
      (boost::dynamic_bitset), an explicit [OOB] here. *)
Require Import Bool List Arith.
From PV Require Import Outcome.
Import ListNotations.

(** operator = (is_annihilation, index). The C++ orders boost::tuple<op_type, ParticleIndex>
    lexicographically with creation = 0 < annihilation = 1. *)
Definition op := (bool * nat)%type.
Definition op_ann (o : op) : bool := fst o.
Definition op_idx (o : op) : nat := snd o.
Definition cdag (i : nat) : op := (false, i).
Definition cann (i : nat) : op := (true, i).
Definition flip_type (o : op) : op := (negb (fst o), snd o).

Definition state := list bool.

Fixpoint upd (i : nat) (v : bool) (s : state) : state :=
  match s, i with
  | [], _ => []
  | _ :: t, O => v :: t
  | b :: t, S j => b :: upd j v t
  end.

(** parity of the number of occupied modes among the first [n] *)
Fixpoint par (n : nat) (s : state) : bool :=
  match n, s with
  | O, _ => false
  | _, [] => false
  | S m, b :: t => xorb b (par m t)
  end.

(** result of one operator on a basis state: OOB, zero (None), or (sign, state); sign true = -1 *)
Definition act_op (o : op) (s : state) : outcome (option (bool * state)) :=
  let i := op_idx o in
  if i <? length s then
    let occ := nth i s false in
    (* creation on occupied, or annihilation on empty: Pauli principle *)
    if eqb occ (negb (op_ann o)) then Done None
    else Done (Some (par i s, upd i (negb (op_ann o)) s))
  else OOB.

(** the monomial m = [o1; o2; ...; ok] is o1 o2 ... ok: ok acts first *)
Fixpoint act_mono (m : list op) (s : state) : outcome (option (bool * state)) :=
  match m with
  | [] => Done (Some (false, s))
  | o :: rest =>
    match act_mono rest s with
    | Done (Some (sg, s')) =>
      match act_op o s' with
      | Done (Some (sg', s'')) => Done (Some (xorb sg sg', s''))
      | Done None => Done None
      | OOB => OOB | Uninit => Uninit | Throws c => Throws c | OutOfFuel => OutOfFuel
      end
    | r => r
    end
  end.

(** bit string <-> number (state label = sum of 2^i over occupied modes) *)
Fixpoint state_of_nat (M : nat) (n : nat) : state :=
  match M with
  | O => []
  | S M' => Nat.odd n :: state_of_nat M' (Nat.div2 n)
  end.
Fixpoint nat_of_state (s : state) : nat :=
  match s with
  | [] => 0
  | b :: t => (if b then 1 else 0) + 2 * nat_of_state t
  end.
Definition count_occ (s : state) : nat := length (filter (fun b => b) s).
