(** Specification of the observables of exact diagonalisation on the FULL Fock space,
    written independently of pomerol's block structure, sparse storage and term lists.
    These definitions are the right-hand sides of the C01/C02/C09/C10/C11/C12/C14/C19
    theorems and, extracted and run at binary64 complex numbers, the oracle of the
    correspondence checks.

    Everything is generic in a number type [K] with the operations of [numops]
    (a field with conjugation, a real exponential and an order on real parts);
    reals are embedded in K.  Matrices are lists of rows. *)
Require Import Bool List Arith ZArith.
From PV Require Import Outcome Fock Poly.
Import ListNotations.

Record numops (K : Type) := {
  n0 : K; n1 : K;
  nadd : K -> K -> K; nsub : K -> K -> K; nmul : K -> K -> K; ndiv : K -> K -> K;
  nopp : K -> K; nconj : K -> K;
  nexp : K -> K;                 (* real exponential, applied to real arguments only *)
  nre_ltb : K -> K -> bool;      (* Re a < Re b *)
  nabs : K -> K;                 (* |a| as a real in K *)
  nofZ : Z -> K;
  nI : K                         (* imaginary unit *)
}.

Section Spec.
Variable K : Type.
Variable NO : numops K.
Notation "0" := (n0 K NO).
Notation "1" := (n1 K NO).
Infix "+" := (nadd K NO).
Infix "-" := (nsub K NO).
Infix "*" := (nmul K NO).
Infix "/" := (ndiv K NO).
Notation "- x" := (nopp K NO x).
Notation conj := (nconj K NO).
Notation kexp := (nexp K NO).
Notation ltb := (nre_ltb K NO).
Notation kabs := (nabs K NO).
Notation ofZ := (nofZ K NO).
Notation II := (nI K NO).

Definition vec := list K.
Definition mat := list (list K).      (* rows *)

Definition ksum {A} (l : list A) (f : A -> K) : K := fold_left (fun acc a => acc + f a) l 0.
Definition dot (u v : vec) : K := fold_left (fun acc ab => acc + fst ab * snd ab) (combine u v) 0.
Fixpoint transpose_aux (n : nat) (m : mat) : mat :=
  match n with
  | O => []
  | S n' => map (fun r => hd 0 r) m :: transpose_aux n' (map (fun r => tl r) m)
  end.
Definition transpose (ncols : nat) (m : mat) : mat := transpose_aux ncols m.
Definition mmul (ncols_b : nat) (a b : mat) : mat :=
  let bt := transpose ncols_b b in map (fun r => map (fun c => dot r c) bt) a.
Definition adjoint (ncols : nat) (m : mat) : mat := map (map conj) (transpose ncols m).
Definition mget (m : mat) (i j : nat) : K := nth j (nth i m []) 0.
Definition idx {A} (l : list A) : list (nat * A) := combine (seq 0 (length l)) l.

(** * Fock-space matrices from the operator algebra (Jordan-Wigner) *)

(** column of the matrix of a monomial: <t| m |s> for t = 0..2^M-1 *)
Definition mono_entry (M : nat) (m : monomial) (s : nat) : option (bool * nat) :=
  match act_mono m (state_of_nat M s) with
  | Done (Some (sg, s')) => Some (sg, nat_of_state s')
  | _ => None
  end.

(** full matrix (2^M x 2^M) of a polynomial with coefficients in K: entry (t, s) = <t|P|s> *)
Definition poly_matrix (M : nat) (p : list (monomial * K)) : mat :=
  let dim := Nat.pow 2 M in
  map (fun t =>
    map (fun s =>
      ksum p (fun mc => match mono_entry M (fst mc) s with
                        | Some (sg, t') => if Nat.eqb t' t then (if sg then - (snd mc) else snd mc) else 0
                        | None => 0
                        end))
        (seq 0 dim))
      (seq 0 dim).

Definition op_matrix (M : nat) (o : op) : mat := poly_matrix M [([o], 1)].

(** * Certificate of an eigen-decomposition  H U = U diag(E),  U^+ U = 1  *)
Definition max_abs (l : list K) : K := fold_left (fun acc x => if ltb acc (kabs x) then kabs x else acc) l 0.
Definition residual_HU (dim : nat) (H U : mat) (E : vec) : K :=
  let HU := mmul dim H U in
  max_abs (concat (map (fun ir => map (fun jc => snd jc - mget U (fst ir) (fst jc) * nth (fst jc) E 0) (idx (snd ir))) (idx HU))).
Definition residual_unitary (dim : nat) (U : mat) : K :=
  let UU := mmul dim (adjoint dim U) U in
  max_abs (concat (map (fun ir => map (fun jc => snd jc - (if Nat.eqb (fst ir) (fst jc) then 1 else 0)) (idx (snd ir))) (idx UU))).

(** * Gibbs weights *)
Definition min_re (l : list K) : K := fold_left (fun acc x => if ltb x acc then x else acc) (tl l) (hd 0 l).
Definition weights (beta : K) (E : vec) : vec :=
  let e0 := min_re E in
  let u := map (fun e => kexp (- (beta * (e - e0)))) E in
  let Z := ksum u (fun x => x) in
  map (fun x => x / Z) u.

(** operator in the eigenbasis: U^+ O U *)
Definition rotate (dim : nat) (U Om : mat) : mat := mmul dim (adjoint dim U) (mmul dim Om U).

(** * Single-particle Green's function (Lehmann):
      G_ij(z) = sum_{n,m} <n|c_i|m><m|c^+_j|n> (w_n + w_m) / (z - (E_m - E_n)) *)
Definition gf (E w : vec) (Ci CXj : mat) (z : K) : K :=
  ksum (idx Ci) (fun nr =>
    let n := fst nr in
    ksum (idx (snd nr)) (fun mc =>
      let m := fst mc in
      let a := snd mc * mget CXj m n in
      a * (nth n w 0 + nth m w 0) / (z - (nth m E 0 - nth n E 0)))).

(** G_ij(tau) = - sum_{n,m} <n|c_i|m><m|c^+_j|n> w_n exp(-tau (E_m - E_n)),  0 <= tau <= beta
    (w_n e^{-tau P} = (w_n+w_m) e^{-tau P}/(1+e^{-beta P})) *)
Definition gf_tau (E w : vec) (Ci CXj : mat) (tau : K) : K :=
  ksum (idx Ci) (fun nr =>
    let n := fst nr in
    ksum (idx (snd nr)) (fun mc =>
      let m := fst mc in
      - (snd mc * mget CXj m n * nth n w 0 * kexp (- (tau * (nth m E 0 - nth n E 0)))))).

(** * Averages: Tr rho O for O given in the eigenbasis *)
Definition trace_rho (w : vec) (Om : mat) : K := ksum (idx Om) (fun nr => nth (fst nr) w 0 * nth (fst nr) (snd nr) 0).
Definition avg_energy (E w : vec) : K := dot w E.

(** * Dynamical susceptibility  chi_AB(i W) = int_0^beta <A(tau) B(0)> e^{i W tau} dtau
      = sum_{n,m, E_n <> E_m} A_nm B_mn (w_m - w_n)/(iW - (E_m - E_n))  +  [W = 0] beta sum_{E_n = E_m} A_nm B_mn w_n *)
Definition susc (beta tol : K) (E w : vec) (A B : mat) (z : K) (z_is_zero : bool) : K :=
  ksum (idx A) (fun nr =>
    let n := fst nr in
    ksum (idx (snd nr)) (fun mc =>
      let m := fst mc in
      let ab := snd mc * mget B m n in
      let P := nth m E 0 - nth n E 0 in
      if ltb (kabs P) tol then (if z_is_zero then beta * ab * nth n w 0 else 0)
      else ab * (nth m w 0 - nth n w 0) / (z - P))).

(** <A(tau) B(0)> = sum_{nm} w_n A_nm B_mn e^{tau (E_n - E_m)} *)
Definition susc_tau (E w : vec) (A B : mat) (tau : K) : K :=
  ksum (idx A) (fun nr =>
    let n := fst nr in
    ksum (idx (snd nr)) (fun mc =>
      let m := fst mc in
      snd mc * mget B m n * nth n w 0 * kexp (tau * (nth n E 0 - nth m E 0)))).

(** * Two-particle Green's function: the documented kernel phi of doc/gamma4.tex *)
Definition phi (beta tol : K) (Ei Ej Ek El wi wj wk wl z1 z2 z3 : K) : K :=
  let d1 := z1 + Ei - Ej in
  let d3 := z3 + Ek - El in
  let t1 := (wi + wl) / (d1 * (z1 + z2 + z3 + Ei - El) * d3) in
  let t2 := (wj + wk) / (d1 * (z2 + Ej - Ek) * d3) in
  let r12 := if ltb (kabs (z1 + z2)) tol && ltb (kabs (Ei - Ek)) tol
             then beta * wi else (wk - wi) / (z1 + z2 + Ei - Ek) in
  let r23 := if ltb (kabs (z2 + z3)) tol && ltb (kabs (Ej - El)) tol
             then beta * wj else (wl - wj) / (z2 + z3 + Ej - El) in
  t1 - t2 + r12 / (d1 * d3) - r23 / (d1 * d3).

(** sum_{ijkl} <i|O1|j><j|O2|k><k|O3|l><l|O4|i> phi_ijkl(z1,z2,z3), skipping vanishing matrix elements *)
Definition chi_ordering (beta tol : K) (E w : vec) (O1 O2 O3 O4 : mat) (z1 z2 z3 : K) : K :=
  let nz (r : list K) := filter (fun jc => ltb (n0 K NO) (kabs (snd jc))) (idx r) in
  ksum (idx O1) (fun ir =>
    let i := fst ir in
    ksum (nz (snd ir)) (fun ja =>
      let j := fst ja in
      ksum (nz (nth j O2 [])) (fun kb =>
        let k := fst kb in
        ksum (nz (nth k O3 [])) (fun lc =>
          let l := fst lc in
          let d := mget O4 l i in
          snd ja * snd kb * snd lc * d *
          phi beta tol (nth i E 0) (nth j E 0) (nth k E 0) (nth l E 0)
              (nth i w 0) (nth j w 0) (nth k w 0) (nth l w 0) z1 z2 z3)))).

(** chi_1234(z1,z2;z3) = sum over the 6 permutations P of (c_1, c_2, c^+_3) with (z1, z2, -z3) permuted alike, sign sgn P *)
Definition perms3 : list (list nat * bool) :=
  [([0;1;2], false); ([0;2;1], true); ([1;0;2], true); ([1;2;0], false); ([2;0;1], false); ([2;1;0], true)]%nat.
Definition chi (beta tol : K) (E w : vec) (C1 C2 CX3 CX4 : mat) (z1 z2 z3 : K) : K :=
  let ops := [C1; C2; CX3] in
  let zs := [z1; z2; - z3] in
  ksum perms3 (fun ps =>
    let p := fst ps in
    let sel {A} (l : list A) (d : A) (k : nat) := nth (nth k p 0%nat) l d in
    let v := chi_ordering beta tol E w (sel ops [] 0%nat) (sel ops [] 1%nat) (sel ops [] 2%nat) CX4
                          (sel zs 0 0%nat) (sel zs 0 1%nat) (sel zs 0 2%nat) in
    if snd ps then - v else v).

End Spec.
