(** Model of the dynamical susceptibility:
      SusceptibilityPart::compute             src/pomerol/SusceptibilityPart.cpp:42-91
      SusceptibilityPart::operator(), of_tau  include/pomerol/SusceptibilityPart.h:150-161
      Susceptibility::prepare / compute       src/pomerol/Susceptibility.cpp:27-79   (same stripe walk as GreensFunction)
      Susceptibility::subtractDisconnected    src/pomerol/Susceptibility.cpp:81-100  (three overloads)
      Susceptibility::operator(), of_tau      include/pomerol/Susceptibility.h:129-152
      EnsembleAverage::prepare / compute      src/pomerol/EnsembleAverage.cpp:14-57
    Same conventions as [PV.GFPart]; leaf expressions from [PVgen.Gen_C01]. *)
Require Import Bool List Arith ZArith.
From PV Require Import EDSpec NumLit Sparse TermList GFPart.
From PVgen Require Import Gen_C01.
Import ListNotations.

Section Susc.
Variable K : Type.
Variable NO : numops K.
Notation k0 := (n0 K NO).
Notation kadd := (nadd K NO).
Notation gterm := (gterm K).

Definition susc_tols_cpp : tols K :=
  mktols K (susc_MatrixElementTolerance K NO) (susc_tol_compare K NO) (susc_tol_negligible K NO) (susc_ReduceResonanceTolerance K NO).

(** what happens at one matched position  (SusceptibilityPart.cpp:64-79) *)
Inductive smatch : Type :=
| SZero (w : K) (pole : K)           (* |Pole| < ReduceResonanceTolerance: ZeroPoleWeight += w *)
| STerm (keep : bool) (t : gterm).   (* otherwise: residue; added if relevant *)

Definition susc_match (T : tols K) (inp : part_in K) (m : nat * (nat * nat)) : option smatch :=
  let index1 := fst m in
  let p := fst (snd m) in
  let q := snd (snd m) in
  match rdv (p_C K inp) p, rdv (p_CX K inp) q, nth_error (cs_idx (p_C K inp)) p with
  | Some va, Some vb, Some index2 =>
    match nth_error (p_wO K inp) index1, nth_error (p_wI K inp) index2,
          nth_error (p_eO K inp) index1, nth_error (p_eI K inp) index2 with
    | Some _, Some _, Some _, Some _ =>
      let rd_ (l : list K) := fun i => nth i l k0 in
      let Pole := susc_pole K NO (rd_ (p_eO K inp)) (rd_ (p_eI K inp)) index1 index2 in
      if susc_is_zero_pole K NO (t_resonance K T) Pole then
        Some (SZero (susc_zero_weight K NO va vb (rd_ (p_wO K inp)) (rd_ (p_wI K inp)) index1 index2) Pole)
      else
        let Residue := susc_residue K NO va vb (rd_ (p_wO K inp)) (rd_ (p_wI K inp)) index1 index2 in
        Some (STerm (susc_relevant K NO (t_matrix_element K T) Residue) (Pole, Residue))
    | _, _, _, _ => None
    end
  | _, _, _ => None
  end.

Definition s_kept (l : list smatch) : list gterm :=
  flat_map (fun s => match s with STerm true t => [t] | _ => [] end) l.
Definition s_dropped (l : list smatch) : list gterm :=
  flat_map (fun s => match s with STerm false t => [t] | _ => [] end) l.
(** ZeroPoleWeight: starts at 0 (constructor), `+=` in visiting order *)
Definition s_zero (l : list smatch) : K :=
  fold_left (fun acc s => match s with SZero w _ => kadd acc w | _ => acc end) l k0.

Definition susc_add_terms (T : tols K) (ts : list gterm) : list gterm * list (event K K) :=
  add_terms K K (susc_compare K NO (t_compare K T)) (susc_negligible K NO (t_negligible K T)) (susc_term_add K NO) ts [].

Record spart_out : Type := mksout {
  so_terms : list gterm;
  so_zero : K;                      (* ZeroPoleWeight *)
  so_raw : list smatch;
  so_events : list (event K K)
}.

(** SusceptibilityPart::compute *)
Definition susc_part_compute (fixed lenient : bool) (T : tols K) (inp : part_in K) : wres spart_out :=
  wbind (part_walk fixed lenient (p_C K inp) (p_CX K inp)) (fun l =>
    match all_some (map (susc_match T inp) l) with
    | None => WOOB SideA 0
    | Some raw => let r := susc_add_terms T (s_kept raw) in WDone (mksout (fst r) (s_zero raw) raw (snd r))
    end).

Definition susc_terms_eval (terms : list gterm) (z : K) : K :=
  eval K K K k0 kadd (fun t => susc_term_eval K NO (snd t) (fst t) z) terms.
Definition susc_terms_tau (terms : list gterm) (tau beta : K) : K :=
  eval K K K k0 kadd (fun t => susc_term_tau K NO (snd t) (fst t) tau beta) terms.
(** operator()(z) = Terms(z) + (abs(z) < 1e-15 ? ZeroPoleWeight*beta : 0);  of_tau = Terms(tau, beta) + ZeroPoleWeight *)
Definition susc_part_value (o : spart_out) (beta z : K) : K :=
  susc_part_eval K NO (susc_terms_eval (so_terms o) z) (so_zero o) beta z.
Definition susc_part_value_tau (o : spart_out) (tau beta : K) : K :=
  susc_part_tau K NO (susc_terms_tau (so_terms o) tau beta) (so_zero o).

Fixpoint scompute_parts (fixed lenient : bool) (T : tols K) (ps : list ((nat * nat) * part_in K))
  : wres (list ((nat * nat) * spart_out)) :=
  match ps with
  | [] => WDone []
  | (lr, inp) :: r =>
    wbind (susc_part_compute fixed lenient T inp) (fun o =>
      wmap (cons (lr, o)) (scompute_parts fixed lenient T r))
  end.

(** Susceptibility::prepare is GreensFunction::prepare with (A, B) for (C, CX): [gf_prepare] on the maps of A and B *)
Definition susc_compute (fixed lenient : bool) (T : tols K) (g : gf_in K) : wres (list ((nat * nat) * spart_out)) :=
  match gf_prepare K g with
  | None => WOOB SideA 0
  | Some ps => scompute_parts fixed lenient T ps
  end.

(** * EnsembleAverage  (EnsembleAverage.cpp)
    compute(Apart, Hpart, DMpart) = sum_{index1} Amatrix.coeff(index1, index1) * DMpart.getWeight(index1)          :45-57
    Eigen's coeff(row, col) on a compressed row-major matrix searches the inner vector of [row] for [col] and
    returns 0 when it is absent. *)
Fixpoint find_pos (idx : list nat) (p n i : nat) : option nat :=   (* first position in [p, p+n) holding inner index i *)
  match n with
  | O => None
  | S n' => if nth p idx 0 =? i then Some p else find_pos idx (S p) n' i
  end.
Definition cs_coeff (m : cs K) (o i : nat) : K :=
  match find_pos (cs_idx m) (ptr_at m o) (ptr_at m (S o) - ptr_at m o) i with
  | Some p => nth p (cs_val m) k0
  | None => k0
  end.
Definition ea_part (a : cs K) (w : list K) : K :=
  fold_left (fun acc i => kadd acc (nmul K NO (cs_coeff a i i) (nth i w k0))) (seq 0 (cs_outer a)) k0.

(** prepare(): for every (Aleft, Aright) of the left view with Aleft == Aright and Aleft retained: result += compute(part)   :21-39 *)
Definition ea_sum (g : gf_in K) (start : K) : K :=
  fold_left (fun acc lr =>
      if (fst lr =? snd lr) && g_ret K g (fst lr) then
        match g_cpart K g (fst lr) with
        | Some a => kadd acc (ea_part a (g_W K g (fst lr)))
        | None => acc
        end
      else acc) (g_cl K g) start.

(** the object: Status and result; prepare() returns at once when Status >= Prepared     :16 *)
Record ea_state : Type := mkea { ea_prepared : bool; ea_result : K }.
Definition ea_new : ea_state := mkea false k0.                        (* constructor: result(0) *)
Definition ea_prepare (g : gf_in K) (s : ea_state) : ea_state :=
  if ea_prepared s then s else mkea true (ea_sum g (ea_result s)).
Definition ensemble_average (g : gf_in K) : K := ea_result (ea_prepare g ea_new).

(** the three ways of supplying <A>, <B>  (Susceptibility.cpp:81-100) *)
Inductive supply : Type :=
| SupplyInternal                                (* subtractDisconnected(): fresh EnsembleAverage objects *)
| SupplyObjects (sa sb : ea_state)              (* subtractDisconnected(EA_A, EA_B): the caller's objects, in whatever state *)
| SupplyNumbers (aveA aveB : K).                (* subtractDisconnected(ave_A, ave_B) *)
Definition supplied (gA gB : gf_in K) (s : supply) : K * K :=
  match s with
  | SupplyInternal => (ea_result (ea_prepare gA ea_new), ea_result (ea_prepare gB ea_new))
  | SupplyObjects sa sb => (ea_result (ea_prepare gA sa), ea_result (ea_prepare gB sb))
  | SupplyNumbers a b => (a, b)
  end.

(** Susceptibility::operator()(z)  (Susceptibility.h:132-141) and of_tau (:143-152); [sub] = None: no subtraction *)
Definition susc_sum (parts : list ((nat * nat) * spart_out)) (beta z : K) : K :=
  fold_left (fun acc p => kadd acc (susc_part_value (snd p) beta z)) parts k0.
Definition susc_value (parts : list ((nat * nat) * spart_out)) (sub : option (K * K)) (beta z : K) : K :=
  let Value := susc_sum parts beta z in        (* Vanishing = no parts: the loop adds nothing *)
  match sub with
  | None => Value
  | Some (aveA, aveB) => susc_subtract K NO Value aveA aveB beta z
  end.
Definition susc_sum_tau (parts : list ((nat * nat) * spart_out)) (tau beta : K) : K :=
  fold_left (fun acc p => kadd acc (susc_part_value_tau (snd p) tau beta)) parts k0.
Definition susc_value_tau (parts : list ((nat * nat) * spart_out)) (sub : option (K * K)) (tau beta : K) : K :=
  let Value := susc_sum_tau parts tau beta in
  match sub with
  | None => Value
  | Some (aveA, aveB) => susc_subtract_tau K NO Value aveA aveB
  end.

Definition susc_matsubara (kpi beta : K) (n : Z) : K :=
  nmul K NO (matsubara_spacing K NO (nI K NO) kpi beta) (nofZ K NO (susc_total_matsubara_mult n)).

End Susc.
