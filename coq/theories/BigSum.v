(** Finite sums over lists in a commutative ring given by [ring_theory] (no axioms).
    Used by the Lehmann-sum proofs (GFPartProofs, SuscPartProofs). *)
Require Import Bool List Arith Lia Ring Ring_theory.
Import ListNotations.

Section BigSum.
Variable K : Type.
Variables (k0 k1 : K) (kadd kmul ksub : K -> K -> K) (kopp : K -> K).
Hypothesis Kr : ring_theory k0 k1 kadd kmul ksub kopp (@eq K).
Add Ring KringBS : Kr.
Notation "a + b" := (kadd a b).
Notation "a * b" := (kmul a b).
Notation "0" := k0.

Fixpoint bigsum {A : Type} (l : list A) (f : A -> K) : K :=
  match l with
  | [] => 0
  | a :: r => f a + bigsum r f
  end.

Lemma fold_left_bigsum {A} (l : list A) (f : A -> K) (a0 : K) :
  fold_left (fun acc a => acc + f a) l a0 = a0 + bigsum l f.
Proof.
  revert a0. induction l as [|x l IH]; intros a0; cbn [fold_left bigsum]; [ring|].
  rewrite IH. ring.
Qed.

Lemma bigsum_app {A} (l1 l2 : list A) f : bigsum (l1 ++ l2) f = bigsum l1 f + bigsum l2 f.
Proof. induction l1 as [|x l1 IH]; cbn [app bigsum]; [ring|]. rewrite IH. ring. Qed.

Lemma bigsum_ext {A} (l : list A) f g : (forall a, In a l -> f a = g a) -> bigsum l f = bigsum l g.
Proof.
  induction l as [|x l IH]; intros H; [reflexivity|]. cbn [bigsum].
  rewrite (H x (or_introl eq_refl)), IH; [reflexivity|]. intros a Ha. apply H. right. exact Ha.
Qed.

Lemma bigsum_zero {A} (l : list A) f : (forall a, In a l -> f a = 0) -> bigsum l f = 0.
Proof.
  induction l as [|x l IH]; intros H; [reflexivity|]. cbn [bigsum].
  rewrite (H x (or_introl eq_refl)), IH; [ring|]. intros a Ha. apply H. right. exact Ha.
Qed.

Lemma bigsum_plus {A} (l : list A) f g : bigsum l (fun a => f a + g a) = bigsum l f + bigsum l g.
Proof. induction l as [|x l IH]; cbn [bigsum]; [ring|]. rewrite IH. ring. Qed.

Lemma bigsum_scale_l {A} (l : list A) c f : c * bigsum l f = bigsum l (fun a => c * f a).
Proof. induction l as [|x l IH]; cbn [bigsum]; [ring|]. rewrite <- IH. ring. Qed.

Lemma bigsum_scale_r {A} (l : list A) c f : bigsum l f * c = bigsum l (fun a => f a * c).
Proof. induction l as [|x l IH]; cbn [bigsum]; [ring|]. rewrite <- IH. ring. Qed.

Lemma bigsum_flat_map {A B} (g : A -> list B) (l : list A) f :
  bigsum (flat_map g l) f = bigsum l (fun a => bigsum (g a) f).
Proof. induction l as [|x l IH]; cbn [flat_map bigsum]; [reflexivity|]. rewrite bigsum_app, IH. reflexivity. Qed.

Lemma bigsum_map {A B} (g : A -> B) (l : list A) f : bigsum (map g l) f = bigsum l (fun a => f (g a)).
Proof. induction l as [|x l IH]; cbn [map bigsum]; [reflexivity|]. rewrite IH. reflexivity. Qed.

Lemma bigsum_swap {A B} (l1 : list A) (l2 : list B) (f : A -> B -> K) :
  bigsum l1 (fun a => bigsum l2 (fun b => f a b)) = bigsum l2 (fun b => bigsum l1 (fun a => f a b)).
Proof.
  induction l1 as [|x l1 IH]; cbn [bigsum].
  - symmetry. apply bigsum_zero. reflexivity.
  - rewrite IH, <- bigsum_plus. reflexivity.
Qed.

Lemma bigsum_filter {A} (p : A -> bool) (l : list A) f :
  bigsum (filter p l) f = bigsum l (fun a => if p a then f a else 0).
Proof.
  induction l as [|x l IH]; cbn [filter bigsum]; [reflexivity|].
  destruct (p x); cbn [bigsum]; rewrite IH; ring.
Qed.

Lemma bigsum_delta_seq (s n k : nat) (f : nat -> K) :
  bigsum (seq s n) (fun i => if k =? i then f i else 0) = if (s <=? k) && (k <? s + n) then f k else 0.
Proof.
  revert s. induction n as [|n IH]; intros s; cbn [seq bigsum].
  - destruct (Nat.leb_spec s k); cbn [andb]; [|reflexivity].
    destruct (Nat.ltb_spec k (s + 0)); [lia|reflexivity].
  - rewrite IH. destruct (Nat.eqb_spec k s) as [->|NE].
    + rewrite Nat.leb_refl. cbn [andb].
      destruct (Nat.leb_spec (S s) s); [lia|]. cbn [andb].
      destruct (Nat.ltb_spec s (s + S n)); [ring|lia].
    + destruct (Nat.leb_spec (S s) k); destruct (Nat.leb_spec s k); try lia; cbn [andb].
      * destruct (Nat.ltb_spec k (S s + n)); destruct (Nat.ltb_spec k (s + S n)); try lia; ring.
      * ring.
Qed.
End BigSum.
