(** For every history of calls on a GFContainer, the element returned for (i, j) was created from (c_i, c^+_j). *)
Require Import Bool List Arith Lia.
From PV Require Import Container2.
Import ListNotations.

Definition created_from (k : key) (e : elem) : Prop := el_c e = fst k /\ el_cx e = snd k.
Definition cinv (st : cstate) : Prop := forall k e, In (k, e) (emap st) -> created_from k e.

Lemma key_eqb_eq a b : key_eqb a b = true -> a = b.
Proof.
  unfold key_eqb. intros H. apply andb_prop in H. destruct H as [H1 H2].
  apply Nat.eqb_eq in H1. apply Nat.eqb_eq in H2. destruct a, b. cbn in *. subst. reflexivity.
Qed.

Lemma mfind_in k m e : mfind k m = Some e -> In (k, e) m.
Proof.
  induction m as [|[k' e'] m IH]; cbn [mfind]; [discriminate|].
  destruct (key_eqb k k') eqn:E.
  - intros H. injection H as ->. apply key_eqb_eq in E. subst. left. reflexivity.
  - intros H. right. apply IH. exact H.
Qed.

Lemma mset_in k e m k' e' : In (k', e') (mset k e m) -> (k', e') = (k, e) \/ In (k', e') m.
Proof.
  induction m as [|[k1 e1] m IH]; cbn [mset].
  - intros [H|[]]. left. symmetry. exact H.
  - destruct (key_eqb k k1).
    + intros [H|H]; [left; symmetry; exact H|right; right; exact H].
    + destruct (key_ltb k k1).
      * intros [H|H]; [left; symmetry; exact H|right; exact H].
      * intros [H|H]; [right; left; exact H|]. destruct (IH H) as [H'|H']; [left; exact H'|right; right; exact H'].
Qed.

Section Proofs.
Variable N : nat.

Lemma create_from st k e : create N st k = Some e -> created_from k e.
Proof.
  unfold create. destruct ((fst k <? N) && (snd k <? N)); [|discriminate].
  intros H. injection H as <-. split; reflexivity.
Qed.

Lemma do_set_inv st k : cinv st -> cinv (fst (do_set N st k)) /\
  match snd (do_set N st k) with OElem e => created_from k e | OThrows => True | _ => False end.
Proof.
  intros I. unfold do_set. destruct (create N st k) as [e|] eqn:C; cbn [fst snd].
  - pose proof (create_from st k e C) as F. split; [|exact F].
    intros k' e' H. cbn [emap] in H. apply mset_in in H. destruct H as [H|H].
    + injection H as -> ->. exact F.
    + apply I. exact H.
  - split; [exact I|constructor].
Qed.

Lemma fill_loop_inv II : forall st, cinv st -> cinv (fst (fill_loop N st II)).
Proof.
  induction II as [|k r IH]; intros st I; cbn [fill_loop]; [exact I|].
  destruct (mfind k (emap st)); [apply IH; exact I|].
  destruct (do_set_inv st k I) as [I' _].
  destruct (do_set N st k) as [st' [| | |]]; cbn [fst] in *; try (apply IH; exact I'). exact I'.
Qed.

Lemma do_fill_inv st ks : cinv (fst (do_fill N st ks)).
Proof. unfold do_fill. apply fill_loop_inv. intros k e []. Qed.

Lemma all_status_inv f m : (forall k e, In (k, e) m -> created_from k e) ->
  forall k e, In (k, e) (all_status f m) -> created_from k e.
Proof.
  intros I k e H. unfold all_status in H. apply in_map_iff in H. destruct H as [[k0 e0] [E H]].
  cbn [fst snd] in E. injection E as <- <-. exact (I k0 e0 H).
Qed.

Lemma upd_status_inv f k0 m : (forall k e, In (k, e) m -> created_from k e) ->
  forall k e, In (k, e) (upd_status f k0 m) -> created_from k e.
Proof.
  intros I k e H. unfold upd_status in H. apply in_map_iff in H. destruct H as [[k1 e1] [E H]].
  cbn [fst snd] in E. destruct (key_eqb k0 k1).
  - injection E as <- <-. exact (I k1 e1 H).
  - injection E as <- <-. exact (I k1 e1 H).
Qed.

Lemma do_lookup_inv st k : cinv st -> cinv (fst (do_lookup N st k)) /\
  match snd (do_lookup N st k) with OElem e => created_from k e | OThrows => True | _ => False end.
Proof.
  intros I. unfold do_lookup. destruct (mfind k (emap st)) as [e|] eqn:F; cbn [fst snd].
  - split; [exact I|]. apply I. apply mfind_in. exact F.
  - apply do_set_inv. exact I.
Qed.

Lemma cstep_inv st o : cinv st -> cinv (fst (cstep N st o)).
Proof.
  intros I. destruct o as [ks|k|k|k|ks| |k|k]; cbn [cstep].
  - apply do_fill_inv.
  - apply do_set_inv. exact I.
  - exact I.
  - apply do_lookup_inv. exact I.
  - pose proof (do_fill_inv st ks) as I'. destruct (do_fill N st ks) as [st' [| | |]]; cbn [fst] in *;
      try (intros k0 e0 H0; cbn [emap] in H0; exact (all_status_inv _ _ I' k0 e0 H0)). exact I'.
  - intros k e H. cbn [fst emap] in H. exact (all_status_inv _ _ I k e H).
  - destruct (do_lookup_inv st k I) as [I' _]. destruct (do_lookup N st k) as [st' [| | e|]]; cbn [fst] in *; try exact I'.
    intros k' e' H. cbn [emap] in H. exact (upd_status_inv _ _ _ I' k' e' H).
  - destruct (do_lookup_inv st k I) as [I' _]. destruct (do_lookup N st k) as [st' [| | e|]]; cbn [fst] in *; try exact I'.
    intros k' e' H. cbn [emap] in H. exact (upd_status_inv _ _ _ I' k' e' H).
Qed.

Lemma crun_inv ops : forall st, cinv st -> cinv (crun N st ops).
Proof. induction ops as [|o r IH]; intros st I; cbn [crun]; [exact I|]. apply IH. apply cstep_inv. exact I. Qed.

(** the headline: after ANY history, operator()(i, j) -- hit or cache miss -- and set(i, j) return an element created from
    (c_i, c^+_j) *)
Theorem container2_returns_requested (ops : list cop) (k : key) (st' : cstate) (e : elem) :
  (cstep N (crun N cinit ops) (Lookup k) = (st', OElem e) \/ cstep N (crun N cinit ops) (SetK k) = (st', OElem e)) ->
  el_c e = fst k /\ el_cx e = snd k.
Proof.
  assert (I : cinv (crun N cinit ops)) by (apply crun_inv; intros k0 e0 []).
  intros [H|H]; cbn [cstep] in H.
  - destruct (do_lookup_inv _ k I) as [_ R]. rewrite H in R. exact R.
  - destruct (do_set_inv _ k I) as [_ R]. rewrite H in R. exact R.
Qed.

(** and every stored element is stored under the indices it was created from *)
Theorem container2_stored_consistent (ops : list cop) (k : key) (e : elem) :
  In (k, e) (emap (crun N cinit ops)) -> el_c e = fst k /\ el_cx e = snd k.
Proof. apply crun_inv. intros k0 e0 []. Qed.

(** a lookup with valid indices never throws *)
Theorem container2_lookup_total (ops : list cop) (k : key) :
  fst k < N -> snd k < N -> exists st' e, cstep N (crun N cinit ops) (Lookup k) = (st', OElem e).
Proof.
  intros H1 H2. cbn [cstep]. unfold do_lookup. destruct (mfind k (emap (crun N cinit ops))) as [e|]; [eauto|].
  unfold do_set, create. apply Nat.ltb_lt in H1. apply Nat.ltb_lt in H2. rewrite H1, H2. cbn [andb]. eauto.
Qed.
End Proofs.

(** Example: prepareAll on a subset, a cache miss, and a second fill *)
Example ex_history :
  let ops := [PrepareAll [(0, 1)]; ComputeAll; Lookup (1, 0); Fill [(1, 1); (0, 0)]] in
  map fst (emap (crun 2 cinit ops)) = [(0, 0); (1, 1)] /\
  snd (cstep 2 (crun 2 cinit [PrepareAll [(0, 1)]; ComputeAll]) (Lookup (1, 0))) = OElem (mkelem 1 1 0 Constructed).
Proof. vm_compute. split; reflexivity. Qed.
