(** PresetsSpec.v -- the DOCUMENTED operators of property C04, written from the doxygen comments of
    include/pomerol/LatticePresets.h (line numbers below) and independently of the term lists the
    presets build: matrices on the M-mode Fock space, entry [A s t] = <t| A |s>.

    Building blocks
      - [m_c i], [m_cdag i]: the Jordan-Wigner matrices of one annihilation / creation operator, in the
        library's index order (mode i = bit i; sign = parity of the occupied modes below i) -- Fock.act_op;
        PV.CAR proves that they obey the canonical anticommutation relations;
      - [m_n i]: the number operator as a DIAGONAL function, <s|n_i|s> = [i occupied in s];
        [m_nn i j]: n_i n_j acts diagonally by [i in s][j in s];
      - sums, scalar multiples, matrix products ([m_mul]: sum over the intermediate Fock states),
        conjugate transposes ([m_adj]).
    Index conventions: [idx l a z] is the ParticleIndex of (site label l, orbital a, spin z);
    enum spin {down, up} (Misc.h:123) gives down = 0, up = 1 (translator output Gen_LatticePresets.spin_up, spin_down).
    "sigma > sigma'" in the documented sums is the numeric order of the spin indices.

    Definitions only. *)
Require Import Bool List Arith.
From PV Require Import Lattice.
From PV Require Import Outcome Fock Poly PolySem.   (* imported last: [state], [op] are Fock's *)
From PVgen Require Import Gen_LatticePresets Gen_LatticeDocs.
Import ListNotations.

Section Spec.
Variable K : Type.
Variables (k0 k1 : K) (kadd kmul ksub : K -> K -> K) (kopp : K -> K).
Variable khalf : K.                    (* 1/2: [kadd khalf khalf = k1] is a hypothesis of the theorems *)
Variable kconj : K -> K.               (* complex conjugation; the identity in the real build *)
Variable M : nat.                      (* number of modes = IndexSize *)
Variable L : Type.
Variable idx : L -> nat -> nat -> nat.

Local Notation ksum := (@ksum K k0 kadd _).
Local Notation cm := (coef_mono K k0 k1 kopp).

Definition mat := state -> state -> K.

Definition m_zero : mat := fun _ _ => k0.
Definition m_id : mat := fun s t => if state_eqb s t then k1 else k0.
Definition m_add (A B : mat) : mat := fun s t => kadd (A s t) (B s t).
Definition m_sub (A B : mat) : mat := fun s t => ksub (A s t) (B s t).
Definition m_scale (c : K) (A : mat) : mat := fun s t => kmul c (A s t).
(** <t| A B |s> = sum_u <t|A|u> <u|B|s> *)
Definition m_mul (A B : mat) : mat := fun s t => ksum (all_states M) (fun u => kmul (A u t) (B s u)).
Definition m_sum {X : Type} (l : list X) (f : X -> mat) : mat := fun s t => ksum l (fun x => f x s t).
Definition m_diag (f : state -> K) : mat := fun s t => if state_eqb s t then f s else k0.
(** conjugate transpose *)
Definition m_adj (A : mat) : mat := fun s t => kconj (A t s).
Definition m_comm (A B : mat) : mat := m_sub (m_mul A B) (m_mul B A).

(** equality of matrices on the M-mode Fock space *)
Definition meq (A B : mat) : Prop := forall s t, length s = M -> length t = M -> A s t = B s t.
Definition m_hermitian (A : mat) : Prop := meq A (m_adj A).

(** ** elementary operators *)
Definition m_op (o : op) : mat := cm [o].
Definition m_c (i : nat) : mat := m_op (cann i).
Definition m_cdag (i : nat) : mat := m_op (cdag i).
(** product A1 A2 ... Ak of a list of matrices (the empty product is the identity) *)
Definition m_prod (l : list mat) : mat := fold_right m_mul m_id l.

Definition occ (i : nat) (s : state) : K := if nth i s false then k1 else k0.
Definition m_n (i : nat) : mat := m_diag (occ i).
Definition m_nn (i j : nat) : mat := m_diag (fun s => kmul (occ i s) (occ j s)).

Definition rng (n : nat) : list nat := seq 0 n.
(** restricted sums: sum_{x in l, p x} f x *)
Definition m_sum_if {X : Type} (l : list X) (p : X -> bool) (f : X -> mat) : mat :=
  m_sum l (fun x => if p x then f x else m_zero).

Definition up := spin_up.
Definition down := spin_down.

(** ** a raw term: Value * (product of its operators, read left to right as written) *)
Definition term_ops (t : Lattice.term L K) : list op :=
  map (fun x : bool * nat => if fst x then cdag (snd x) else cann (snd x))
      (combine (t_ops t)
               (map (fun y : L * nat * nat => idx (fst (fst y)) (snd (fst y)) (snd y))
                    (combine (combine (t_labels t) (t_orbs t)) (t_spins t)))).
Definition term_matrix (t : Lattice.term L K) : mat :=
  m_scale (t_val t) (m_prod (map m_op (term_ops t))).

(** ** LatticePresets.h:99-105  addCoulombS:
      sum_{alpha, sigma > sigma'} U n_{i alpha sigma} n_{i alpha sigma'} + sum_{alpha, sigma} eps n_{i alpha sigma} *)
Definition spec_level (l : L) (norb nspin : nat) (eps : K) : mat :=         (* also LatticePresets.h:128-133 addLevel *)
  m_sum (rng norb) (fun a => m_sum (rng nspin) (fun z => m_scale eps (m_n (idx l a z)))).

Definition spec_coulombS (l : L) (norb nspin : nat) (U eps : K) : mat :=
  m_add
    (m_sum (rng norb) (fun a =>
       m_sum (rng nspin) (fun z => m_sum_if (rng nspin) (fun z' => z' <? z) (fun z' =>
         m_scale U (m_nn (idx l a z) (idx l a z'))))))
    (spec_level l norb nspin eps).

(** ** LatticePresets.h:107-117  addCoulombP (Kanamori):
        U  sum_{alpha, sigma > sigma'} n_{alpha sigma} n_{alpha sigma'}
      + U' sum_{alpha <> alpha', sigma > sigma'} n_{alpha sigma} n_{alpha' sigma'}
      + (U'-J)/2 sum_{alpha <> alpha', sigma} n_{alpha sigma} n_{alpha' sigma}
      - J sum_{alpha <> alpha', sigma > sigma'} ( c^+_{alpha sigma} c^+_{alpha' sigma'} c_{alpha' sigma} c_{alpha sigma'}
                                                + c^+_{alpha' sigma} c^+_{alpha' sigma'} c_{alpha sigma} c_{alpha sigma'} )
      [+ sum_{alpha, sigma} eps n_{alpha sigma}: the parameter "Level - the local energy level on the site"] *)
Definition m_quartic (a b c d : nat) : mat := m_prod [m_cdag a; m_cdag b; m_c c; m_c d].

Definition spec_coulombP (l : L) (norb nspin : nat) (U Up J eps : K) : mat :=
  let pairs (f : nat -> nat -> mat) : mat :=                 (* sum_{alpha <> alpha'} *)
    m_sum (rng norb) (fun a => m_sum_if (rng norb) (fun a' => negb (a =? a')) (fun a' => f a a')) in
  let spins_gt (f : nat -> nat -> mat) : mat :=              (* sum_{sigma > sigma'} *)
    m_sum (rng nspin) (fun z => m_sum_if (rng nspin) (fun z' => z' <? z) (fun z' => f z z')) in
  m_add (m_add (m_add (m_add
    (m_scale U (m_sum (rng norb) (fun a => spins_gt (fun z z' => m_nn (idx l a z) (idx l a z')))))
    (m_scale Up (pairs (fun a a' => spins_gt (fun z z' => m_nn (idx l a z) (idx l a' z'))))))
    (m_scale (kmul (ksub Up J) khalf)
       (pairs (fun a a' => m_sum (rng nspin) (fun z => m_nn (idx l a z) (idx l a' z))))))
    (m_scale (kopp J)
       (pairs (fun a a' => spins_gt (fun z z' =>
          m_add (m_quartic (idx l a z) (idx l a' z') (idx l a' z) (idx l a z'))
                (m_quartic (idx l a' z) (idx l a' z') (idx l a z) (idx l a z')))))))
    (spec_level l norb nspin eps).

(** LatticePresets.h:118-119  the shortcut with U' = U - 2J *)
Definition spec_coulombP3 (l : L) (norb nspin : nat) (U J eps : K) : mat :=
  spec_coulombP l norb nspin U (ksub U (kadd J J)) J eps.

(** ** LatticePresets.h:121-126  addMagnetization.
      The documented formula is READ FROM THE HEADER on every run (translator/gen_c04.py ->
      PVgen.Gen_LatticeDocs.doc_magnetization_half):
        doc_magnetization_half = true :  sum_alpha mH 1/2 (n_{alpha up} - n_{alpha down})   (the text up to /repo commit 6442010)
        doc_magnetization_half = false:  sum_alpha mH     (n_{alpha up} - n_{alpha down})   (the text since then)
      [spec_magnetization_with] is the formula for either reading, [spec_magnetization] the one the header states. *)
Definition m_nud (l : L) (a : nat) : mat := m_sub (m_n (idx l a up)) (m_n (idx l a down)).      (* n_up - n_down *)
Definition m_sz (l : L) (a : nat) : mat := m_scale khalf (m_nud l a).                           (* S_z = 1/2 (n_up - n_down) *)
Definition spec_magnetization_with (half : bool) (l : L) (norb : nat) (mH : K) : mat :=
  m_sum (rng norb) (fun a => m_scale mH (if half then m_sz l a else m_nud l a)).
Definition spec_magnetization (l : L) (norb : nat) (mH : K) : mat :=
  spec_magnetization_with doc_magnetization_half l norb mH.

(** ** LatticePresets.h:135-145  addSzSz:
      sum_alpha J 1/2 (n_{i alpha up} - n_{i alpha down}) 1/2 (n_{j alpha up} - n_{j alpha down}) *)
Definition spec_szsz (l1 l2 : L) (norb : nat) (J : K) : mat :=
  m_sum (rng norb) (fun a => m_scale J (m_mul (m_sz l1 a) (m_sz l2 a))).

(** ** LatticePresets.h:147-154  addSS:  sum_alpha J S_{i alpha} . S_{j alpha},
      S.S = Sz Sz + 1/2 (S^+ S^- + S^- S^+),   S^+ = c^+_up c_down,  S^- = c^+_down c_up *)
Definition m_splus (l : L) (a : nat) : mat := m_mul (m_cdag (idx l a up)) (m_c (idx l a down)).
Definition m_sminus (l : L) (a : nat) : mat := m_mul (m_cdag (idx l a down)) (m_c (idx l a up)).
Definition spec_ss (l1 l2 : L) (norb : nat) (J : K) : mat :=
  m_sum (rng norb) (fun a =>
    m_scale J (m_add (m_mul (m_sz l1 a) (m_sz l2 a))
                     (m_scale khalf (m_add (m_mul (m_splus l1 a) (m_sminus l2 a))
                                           (m_mul (m_sminus l1 a) (m_splus l2 a)))))).

(** ** LatticePresets.h:156-172  addHopping: t c^+_{i alpha sigma} c_{j alpha' sigma'} + h.c.
      (the Hermitian conjugate carries conj(t); property text: "hopping with its Hermitian conjugate") *)
Definition m_hop (i j : nat) : mat := m_mul (m_cdag i) (m_c j).
Definition spec_hopping8 (l1 l2 : L) (t : K) (o1 o2 s1 s2 : nat) : mat :=
  m_add (m_scale t (m_hop (idx l1 o1 s1) (idx l2 o2 s2)))
        (m_scale (kconj t) (m_hop (idx l2 o2 s2) (idx l1 o1 s1))).
Definition spec_hopping7 (l1 l2 : L) (t : K) (o1 o2 s : nat) : mat := spec_hopping8 l1 l2 t o1 o2 s s.
(** sum_sigma t c^+_{i alpha sigma} c_{j alpha' sigma} + h.c. *)
Definition spec_hopping6 (l1 l2 : L) (nspin : nat) (t : K) (o1 o2 : nat) : mat :=
  m_sum (rng nspin) (fun z => spec_hopping8 l1 l2 t o1 o2 z z).
(** sum_{sigma, alpha} t c^+_{i alpha sigma} c_{j alpha sigma} + h.c. *)
Definition spec_hopping4 (l1 l2 : L) (norb nspin : nat) (t : K) : mat :=
  m_sum (rng nspin) (fun z => m_sum (rng norb) (fun a => spec_hopping8 l1 l2 t a a z z)).

(** ** total-spin raising and lowering operators of a set of two-spin sites (label, number of orbitals):
      S^+_tot = sum_{site, alpha} c^+_{alpha up} c_{alpha down},  S^-_tot = its adjoint *)
Definition m_Splus_tot (sites : list (L * nat)) : mat :=
  m_sum sites (fun ln => m_sum (rng (snd ln)) (fun a => m_splus (fst ln) a)).
Definition m_Sminus_tot (sites : list (L * nat)) : mat :=
  m_sum sites (fun ln => m_sum (rng (snd ln)) (fun a => m_sminus (fst ln) a)).

(** * Executable form of the specification.
    The definitions above are products of matrices ([m_mul] sums over all intermediate Fock states), which is
    the documented reading but exponentially expensive to evaluate when nested.  The [x...] versions below
    replace a product of elementary matrices by the Jordan-Wigner action of the operator string
    ([coef_mono], right to left) and a product of diagonal matrices by the diagonal of the product.
    PresetsProofs.v proves [meq (spec_...) (xspec_...)] for every one of them (theorems [xspec_..._ok]); the
    correspondence check evaluates the [x...] versions. *)
Definition x_quartic (a b c d : nat) : mat := cm [cdag a; cdag b; cann c; cann d].
Definition x_hop (i j : nat) : mat := cm [cdag i; cann j].
Definition sz_val (l : L) (a : nat) (s : state) : K :=
  kmul khalf (ksub (occ (idx l a up) s) (occ (idx l a down) s)).
Definition x_szsz (l1 l2 : L) (a : nat) : mat := m_diag (fun s => kmul (sz_val l1 a s) (sz_val l2 a s)).
Definition x_spsm (l1 l2 : L) (a : nat) : mat :=       (* S^+_{l1 a} S^-_{l2 a} *)
  cm [cdag (idx l1 a up); cann (idx l1 a down); cdag (idx l2 a down); cann (idx l2 a up)].
Definition x_smsp (l1 l2 : L) (a : nat) : mat :=       (* S^-_{l1 a} S^+_{l2 a} *)
  cm [cdag (idx l1 a down); cann (idx l1 a up); cdag (idx l2 a up); cann (idx l2 a down)].

Definition xspec_coulombP (l : L) (norb nspin : nat) (U Up J eps : K) : mat :=
  let pairs (f : nat -> nat -> mat) : mat :=
    m_sum (rng norb) (fun a => m_sum_if (rng norb) (fun a' => negb (a =? a')) (fun a' => f a a')) in
  let spins_gt (f : nat -> nat -> mat) : mat :=
    m_sum (rng nspin) (fun z => m_sum_if (rng nspin) (fun z' => z' <? z) (fun z' => f z z')) in
  m_add (m_add (m_add (m_add
    (m_scale U (m_sum (rng norb) (fun a => spins_gt (fun z z' => m_nn (idx l a z) (idx l a z')))))
    (m_scale Up (pairs (fun a a' => spins_gt (fun z z' => m_nn (idx l a z) (idx l a' z'))))))
    (m_scale (kmul (ksub Up J) khalf)
       (pairs (fun a a' => m_sum (rng nspin) (fun z => m_nn (idx l a z) (idx l a' z))))))
    (m_scale (kopp J)
       (pairs (fun a a' => spins_gt (fun z z' =>
          m_add (x_quartic (idx l a z) (idx l a' z') (idx l a' z) (idx l a z'))
                (x_quartic (idx l a' z) (idx l a' z') (idx l a z) (idx l a z')))))))
    (spec_level l norb nspin eps).
Definition xspec_coulombP3 (l : L) (norb nspin : nat) (U J eps : K) : mat :=
  xspec_coulombP l norb nspin U (ksub U (kadd J J)) J eps.
Definition xspec_szsz (l1 l2 : L) (norb : nat) (J : K) : mat :=
  m_sum (rng norb) (fun a => m_scale J (x_szsz l1 l2 a)).
Definition xspec_ss (l1 l2 : L) (norb : nat) (J : K) : mat :=
  m_sum (rng norb) (fun a =>
    m_scale J (m_add (x_szsz l1 l2 a) (m_scale khalf (m_add (x_spsm l1 l2 a) (x_smsp l1 l2 a))))).
Definition xspec_hopping8 (l1 l2 : L) (t : K) (o1 o2 s1 s2 : nat) : mat :=
  m_add (m_scale t (x_hop (idx l1 o1 s1) (idx l2 o2 s2)))
        (m_scale (kconj t) (x_hop (idx l2 o2 s2) (idx l1 o1 s1))).
Definition xspec_hopping6 (l1 l2 : L) (nspin : nat) (t : K) (o1 o2 : nat) : mat :=
  m_sum (rng nspin) (fun z => xspec_hopping8 l1 l2 t o1 o2 z z).
Definition xspec_hopping4 (l1 l2 : L) (norb nspin : nat) (t : K) : mat :=
  m_sum (rng nspin) (fun z => m_sum (rng norb) (fun a => xspec_hopping8 l1 l2 t a a z z)).
Definition x_Splus_tot (sites : list (L * nat)) : mat :=
  m_sum sites (fun ln => m_sum (rng (snd ln)) (fun a => x_hop (idx (fst ln) a up) (idx (fst ln) a down))).
Definition x_Sminus_tot (sites : list (L * nat)) : mat :=
  m_sum sites (fun ln => m_sum (rng (snd ln)) (fun a => x_hop (idx (fst ln) a down) (idx (fst ln) a up))).
(** a raw term: Value * <t| o_1 o_2 ... o_N |s> *)
Definition x_term_matrix (t : Lattice.term L K) : mat := m_scale (t_val t) (cm (term_ops t)).

End Spec.
