(** C18, optional part -- how the action of operator monomials on Fock states (PV.Fock, the model
    of Operator::actRight, owned by C05; read-only here) transforms under a permutation of the
    single-particle indices that is given as a product of adjacent transpositions.

    For the adjacent transposition tau_k = (k k+1) let U_k |s> = (-1)^(s_k s_{k+1}) |s with bits
    k, k+1 exchanged>.  Then for every creation / annihilation operator o,
        U_k o U_k^{-1} = tau_k(o),
    and the same for every monomial, and for every product of adjacent transpositions.
    [sem_permute_monomial_partial] is that statement on basis states, including the [OOB]
    outcome (an index beyond the number of modes) and the Pauli zero.

    What is NOT here (hence `_partial'): the linear extension to polynomials (needs the
    polynomial semantics of C05), the fact that every permutation of 0..N-1 is a product of
    adjacent transpositions, and the step from unitarily equivalent Hamiltonians to permuted
    observables.  Those are covered by the differential runs of checks/C18.py only. *)
Require Import Bool List Arith Lia.
From PV Require Import Outcome Fock.
Import ListNotations.

(** the adjacent transposition (k k+1) on indices *)
Definition tau (k i : nat) : nat := if i =? k then S k else if i =? S k then k else i.

(** ... on Fock states: exchange bits k and k+1 *)
Fixpoint swap_at (k : nat) (s : state) : state :=
  match k, s with
  | O, a :: b :: r => b :: a :: r
  | S k', h :: t => h :: swap_at k' t
  | _, _ => s
  end.

(** the sign of U_k on a basis state: -1 iff both modes are occupied *)
Definition sigma (k : nat) (s : state) : bool := nth k s false && nth (S k) s false.

Definition tau_op (k : nat) (o : op) : op := (fst o, tau k (snd o)).

(** conjugating a result: the new state is swapped, the sign picks up sigma before and after *)
Definition conj_result (k : nat) (s : state) (r : outcome (option (bool * state)))
  : outcome (option (bool * state)) :=
  match r with
  | Done (Some (sg, s')) => Done (Some (xorb sg (xorb (sigma k s) (sigma k s')), swap_at k s'))
  | r => r
  end.

Lemma tau_SS (k i : nat) : tau (S k) (S i) = S (tau k i).
Proof.
  unfold tau. cbn [Nat.eqb]. destruct (i =? k); [reflexivity|]. destruct (i =? S k); reflexivity.
Qed.

Lemma tau_S0 (k : nat) : tau (S k) 0 = 0.
Proof. reflexivity. Qed.

Lemma tau_invol (k i : nat) : tau k (tau k i) = i.
Proof.
  unfold tau. destruct (Nat.eqb_spec i k) as [->|N1].
  - rewrite Nat.eqb_refl. destruct (Nat.eqb_spec (S k) k); [lia|reflexivity].
  - destruct (Nat.eqb_spec i (S k)) as [->|N2].
    + rewrite Nat.eqb_refl. reflexivity.
    + destruct (Nat.eqb_spec i k); [lia|]. destruct (Nat.eqb_spec i (S k)); [lia|reflexivity].
Qed.

Lemma swap_at_length (k : nat) (s : state) : length (swap_at k s) = length s.
Proof.
  revert s. induction k as [|k IH]; intros s.
  - destruct s as [|a [|b r]]; reflexivity.
  - destruct s as [|h t]; [reflexivity|]. cbn [swap_at length]. rewrite IH. reflexivity.
Qed.

(** act_op on a state with one more mode in front *)
Lemma act_op_S (d : bool) (i : nat) (h : bool) (t : state) :
  act_op (d, S i) (h :: t) =
  match act_op (d, i) t with
  | Done (Some (sg, t')) => Done (Some (xorb h sg, h :: t'))
  | Done None => Done None
  | OOB => OOB | Uninit => Uninit | Throws c => Throws c | OutOfFuel => OutOfFuel
  end.
Proof.
  unfold act_op, op_idx, op_ann. cbn [fst snd length nth par upd].
  change (S i <? S (length t)) with (i <? length t).
  destruct (i <? length t); [|reflexivity].
  destruct (eqb (nth i t false) (negb d)); reflexivity.
Qed.

Lemma act_op_0 (d h : bool) (t : state) :
  act_op (d, 0) (h :: t) =
  if eqb h (negb d) then Done None else Done (Some (false, negb d :: t)).
Proof. reflexivity. Qed.

Lemma act_op_length (o : op) (s : state) (sg : bool) (s' : state) :
  act_op o s = Done (Some (sg, s')) -> length s' = length s.
Proof.
  destruct o as [d i]. revert s sg s'. induction i as [|i IH]; intros s sg s' E.
  - destruct s as [|h t]; [discriminate E|]. rewrite act_op_0 in E.
    destruct (eqb h (negb d)); [discriminate E|]. injection E as _ <-. reflexivity.
  - destruct s as [|h t]; [discriminate E|]. rewrite act_op_S in E.
    destruct (act_op (d, i) t) as [[[sg1 t1]|]| | |c|] eqn:E1; try discriminate E.
    injection E as _ <-. cbn [length]. f_equal. exact (IH t sg1 t1 E1).
Qed.

(** one operator, one adjacent transposition *)
Lemma act_op_swap (k : nat) : forall (s : state) (o : op),
  S k < length s -> act_op (tau_op k o) (swap_at k s) = conj_result k s (act_op o s).
Proof.
  induction k as [|k IH]; intros s [d i] Hlen; unfold tau_op; cbn [fst snd].
  - destruct s as [|a [|b r]]; cbn [length] in Hlen; try lia. cbn [swap_at].
    destruct i as [|[|i]].
    + (* i = 0 -> index 1 *)
      change (tau 0 0) with 1. rewrite act_op_S, !act_op_0. unfold conj_result, sigma. cbn [nth swap_at].
      destruct a, b, d; reflexivity.
    + (* i = 1 -> index 0 *)
      change (tau 0 1) with 0. rewrite act_op_S, !act_op_0. unfold conj_result, sigma. cbn [nth swap_at].
      destruct a, b, d; reflexivity.
    + (* i >= 2: untouched modes; the two swapped bits contribute the same parity *)
      change (tau 0 (S (S i))) with (S (S i)). rewrite !act_op_S.
      destruct (act_op (d, i) r) as [[[sg r']|]| | |c|]; try reflexivity.
      unfold conj_result, sigma. cbn [nth swap_at]. destruct a, b, sg; reflexivity.
  - destruct s as [|h t]; cbn [length] in Hlen; [lia|]. cbn [swap_at].
    destruct i as [|i].
    + rewrite tau_S0, !act_op_0. destruct (eqb h (negb d)); [reflexivity|].
      unfold conj_result, sigma. cbn [nth swap_at]. rewrite xorb_nilpotent. reflexivity.
    + rewrite tau_SS, !act_op_S.
      specialize (IH t (d, i) ltac:(lia)). unfold tau_op in IH. cbn [fst snd] in IH. rewrite IH.
      destruct (act_op (d, i) t) as [[[sg t']|]| | |c|]; try reflexivity.
      unfold conj_result, sigma. cbn [nth swap_at].
      destruct h, sg, (nth k t false && nth (S k) t false), (nth k t' false && nth (S k) t' false); reflexivity.
Qed.

Lemma act_mono_length (m : list op) : forall (s : state) (sg : bool) (s' : state),
  act_mono m s = Done (Some (sg, s')) -> length s' = length s.
Proof.
  induction m as [|o rest IH]; intros s sg s' E; cbn [act_mono] in E.
  - injection E as _ <-. reflexivity.
  - destruct (act_mono rest s) as [[[sg1 s1]|]| | |c|] eqn:E1; try discriminate E.
    destruct (act_op o s1) as [[[sg2 s2]|]| | |c|] eqn:E2; try discriminate E.
    injection E as _ <-. rewrite (act_op_length o s1 sg2 s2 E2). exact (IH s sg1 s1 E1).
Qed.

(** a monomial, one adjacent transposition: the signs telescope *)
Lemma act_mono_swap (k : nat) (m : list op) : forall s : state,
  S k < length s ->
  act_mono (map (tau_op k) m) (swap_at k s) = conj_result k s (act_mono m s).
Proof.
  induction m as [|o rest IH]; intros s Hlen; cbn [map act_mono].
  - unfold conj_result. rewrite xorb_nilpotent. reflexivity.
  - rewrite (IH s Hlen).
    destruct (act_mono rest s) as [[[sg1 s1]|]| | |c|] eqn:E1; cbn [conj_result]; try reflexivity.
    assert (Hlen1 : S k < length s1) by (rewrite (act_mono_length rest s sg1 s1 E1); exact Hlen).
    rewrite (act_op_swap k s1 o Hlen1).
    destruct (act_op o s1) as [[[sg2 s2]|]| | |c|]; cbn [conj_result]; try reflexivity.
    destruct sg1, sg2, (sigma k s), (sigma k s1), (sigma k s2); reflexivity.
Qed.

(** products of adjacent transpositions, given by the list of their positions (the head acts last) *)
Fixpoint perm_of (ks : list nat) (i : nat) : nat :=
  match ks with
  | [] => i
  | k :: r => tau k (perm_of r i)
  end.

Fixpoint state_perm (ks : list nat) (s : state) : state :=
  match ks with
  | [] => s
  | k :: r => swap_at k (state_perm r s)
  end.

Fixpoint sign_of (ks : list nat) (s : state) : bool :=
  match ks with
  | [] => false
  | k :: r => xorb (sign_of r s) (sigma k (state_perm r s))
  end.

Definition perm_op (ks : list nat) (o : op) : op := (fst o, perm_of ks (snd o)).

Lemma state_perm_length (ks : list nat) (s : state) : length (state_perm ks s) = length s.
Proof. induction ks as [|k r IH]; [reflexivity|]. cbn [state_perm]. rewrite swap_at_length. exact IH. Qed.

Lemma perm_of_inverse (ks : list nat) (i : nat) : perm_of (rev ks) (perm_of ks i) = i.
Proof.
  revert i. induction ks as [|k r IH]; intros i; [reflexivity|]. cbn [rev perm_of].
  assert (Happ : forall a b j, perm_of (a ++ b) j = perm_of a (perm_of b j)).
  { induction a as [|x a IHa]; intros b j; [reflexivity|]. cbn [app perm_of]. rewrite IHa. reflexivity. }
  rewrite Happ. cbn [perm_of]. rewrite tau_invol. apply IH.
Qed.

(** U_pi m U_pi^{-1} = pi(m) on basis states, U_pi |s> = (-1)^(sign_of ks s) |state_perm ks s>:
    applying the index-permuted monomial to the permuted state gives the permuted result with the
    sign corrected by the signs of U_pi on the initial and the final state; a Pauli zero stays a
    zero and an out-of-range index stays out of range. *)
Theorem sem_permute_monomial_partial (ks : list nat) (m : list op) (s : state) :
  (forall k, In k ks -> S k < length s) ->
  act_mono (map (perm_op ks) m) (state_perm ks s) =
  match act_mono m s with
  | Done (Some (sg, s')) =>
    Done (Some (xorb sg (xorb (sign_of ks s) (sign_of ks s')), state_perm ks s'))
  | r => r
  end.
Proof.
  induction ks as [|k r IH]; intros Hk.
  - cbn [state_perm sign_of]. unfold perm_op. cbn [perm_of].
    rewrite (map_ext _ (fun o => o)) by (intros [d i]; reflexivity). rewrite map_id.
    destruct (act_mono m s) as [[[sg s']|]| | |c|]; try reflexivity.
    rewrite xorb_false_r. reflexivity.
  - cbn [state_perm sign_of].
    replace (map (perm_op (k :: r)) m) with (map (tau_op k) (map (perm_op r) m))
      by (rewrite map_map; apply map_ext; intros [d i]; reflexivity).
    rewrite act_mono_swap by (rewrite state_perm_length; apply Hk; left; reflexivity).
    rewrite IH by (intros k' Hk'; apply Hk; right; exact Hk').
    destruct (act_mono m s) as [[[sg s']|]| | |c|]; cbn [conj_result]; try reflexivity.
    destruct sg, (sign_of r s), (sign_of r s'), (sigma k (state_perm r s)), (sigma k (state_perm r s')); reflexivity.
Qed.

(** the hypotheses are satisfiable: 4 modes, pi = (0 1)(1 2), the monomial c^+_2 c_0 on |1100> *)
Example sem_permute_example :
  let ks := [0; 1] in
  let s := [true; true; false; false] in
  let m := [cdag 2; cann 0] in
  (forall k, In k ks -> S k < length s) /\
  act_mono m s = Done (Some (true, [false; true; true; false])) /\
  act_mono (map (perm_op ks) m) (state_perm ks s) = Done (Some (false, [true; false; true; false])).
Proof.
  cbn zeta. split; [|split]; [|vm_compute; reflexivity|vm_compute; reflexivity].
  intros k [<-|[<-|[]]]; cbn; lia.
Qed.

(** * Polynomials: matrix elements of the index-permuted polynomial

    With the matrix-element semantics of PV.PolySem (<t| P |s> = sum over the monomials of
    coefficient * (+1 / -1 / 0 from [act_mono])), over any commutative ring of coefficients:
        < U_pi t | pi(P) | U_pi s >  =  < t | P | s >,      U_pi |s> = (-1)^(sign_of ks s) |state_perm ks s>,
    i.e. pi(P) = U_pi P U_pi^{-1}: the polynomial with every index renamed by pi is conjugate to
    the original by the signed permutation of the Fock basis induced by pi.  The polynomial is
    any list of (monomial, coefficient) pairs -- normal-ordered or not -- so this applies to the
    Hamiltonian that IndexHamiltonian::prepare assembles from the lattice terms and to c_i, c^+_i. *)
Require Import Ring_theory Ring.
From PV Require Import Poly PolySem.

Lemma swap_at_invol (k : nat) : forall s : state, swap_at k (swap_at k s) = s.
Proof.
  induction k as [|k IH]; intros s.
  - destruct s as [|a [|b r]]; reflexivity.
  - destruct s as [|h t]; [reflexivity|]. cbn [swap_at]. rewrite IH. reflexivity.
Qed.

Lemma state_perm_inj (ks : list nat) (s t : state) : state_perm ks s = state_perm ks t -> s = t.
Proof.
  revert s t. induction ks as [|k r IH]; intros s t E; [exact E|].
  cbn [state_perm] in E. apply IH.
  rewrite <- (swap_at_invol k (state_perm r s)), E. apply swap_at_invol.
Qed.

Lemma state_eqb_iff (s t : state) : state_eqb s t = true <-> s = t.
Proof.
  revert t. induction s as [|a s IH]; intros [|b t]; cbn [state_eqb]; split; intros E;
    try reflexivity; try discriminate E.
  - apply andb_true_iff in E. destruct E as [Eab Est]. apply eqb_prop in Eab. apply IH in Est. congruence.
  - injection E as -> ->. rewrite eqb_reflx. cbn [andb]. apply IH. reflexivity.
Qed.

Lemma state_eqb_perm (ks : list nat) (s t : state) :
  state_eqb (state_perm ks s) (state_perm ks t) = state_eqb s t.
Proof.
  destruct (state_eqb s t) eqn:E.
  - apply state_eqb_iff in E. subst t. apply state_eqb_iff. reflexivity.
  - destruct (state_eqb (state_perm ks s) (state_perm ks t)) eqn:E'; [|reflexivity].
    apply state_eqb_iff in E'. apply state_perm_inj in E'. apply state_eqb_iff in E'. congruence.
Qed.

Section PolyPermute.
  Variable K : Type.
  Variables (k0 k1 : K) (kadd kmul ksub : K -> K -> K) (kopp : K -> K).
  Hypothesis Rth : ring_theory k0 k1 kadd kmul ksub kopp (@eq K).
  Add Ring C18Kring : Rth.

  Local Notation coef_mono := (coef_mono K k0 k1 kopp).
  Local Notation coef_poly := (coef_poly K k0 k1 kadd kmul kopp).

  (** multiplication by (-1)^b *)
  Definition sgn (b : bool) (x : K) : K := if b then kopp x else x.

  (** every index of every monomial renamed by the permutation; coefficients untouched *)
  Definition poly_rename (ks : list nat) (p : poly K) : poly K :=
    map (fun mc => (map (perm_op ks) (fst mc), snd mc)) p.

  Lemma coef_mono_permute (ks : list nat) (m : monomial) (s t : state) :
    (forall k, In k ks -> S k < length s) ->
    coef_mono (map (perm_op ks) m) (state_perm ks s) (state_perm ks t) =
    sgn (xorb (sign_of ks s) (sign_of ks t)) (coef_mono m s t).
  Proof.
    intros Hk. unfold PolySem.coef_mono. rewrite (sem_permute_monomial_partial ks m s Hk).
    destruct (act_mono m s) as [[[sg s']|]| | |c|];
      try (unfold sgn; destruct (xorb (sign_of ks s) (sign_of ks t)); [ring|reflexivity]).
    rewrite state_eqb_perm. destruct (state_eqb s' t) eqn:E.
    - apply state_eqb_iff in E. subst s'. unfold sgn.
      destruct sg, (sign_of ks s), (sign_of ks t); cbn [xorb]; try reflexivity; ring.
    - unfold sgn. destruct (xorb (sign_of ks s) (sign_of ks t)); [ring|reflexivity].
  Qed.

  Theorem sem_permute_poly_partial (ks : list nat) (p : poly K) (s t : state) :
    (forall k, In k ks -> S k < length s) ->
    coef_poly (poly_rename ks p) (state_perm ks s) (state_perm ks t) =
    sgn (xorb (sign_of ks s) (sign_of ks t)) (coef_poly p s t).
  Proof.
    intros Hk. unfold PolySem.coef_poly, poly_rename.
    induction p as [|[m c] r IH]; cbn [map fold_right fst snd].
    - unfold sgn. destruct (xorb (sign_of ks s) (sign_of ks t)); [ring|reflexivity].
    - rewrite IH, (coef_mono_permute ks m s t Hk). unfold sgn.
      destruct (xorb (sign_of ks s) (sign_of ks t)); [ring|reflexivity].
  Qed.
End PolyPermute.

(** hypotheses satisfiable: integers as coefficients, H = 3 c^+_0 c_2 + 3 c^+_2 c_0 - 2 n_1 on 3 modes,
    pi = (0 1)(1 2); one matrix element, original and conjugated *)
Require Import ZArith.
Example sem_permute_poly_example :
  let ks := [0; 1] in
  let p : poly Z := [([cdag 0; cann 2], 3%Z); ([cdag 2; cann 0], 3%Z); ([cdag 1; cann 1], (-2)%Z)] in
  let s := [false; true; true] in
  let t := [true; true; false] in
  ring_theory 0%Z 1%Z Z.add Z.mul Z.sub Z.opp (@eq Z) /\
  (forall k, In k ks -> S k < length s) /\
  PolySem.coef_poly Z 0%Z 1%Z Z.add Z.mul Z.opp p s t = (-3)%Z /\
  PolySem.coef_poly Z 0%Z 1%Z Z.add Z.mul Z.opp (poly_rename Z ks p) (state_perm ks s) (state_perm ks t) = 3%Z /\
  xorb (sign_of ks s) (sign_of ks t) = true.
Proof.
  cbn zeta. split; [exact Zth|]. split; [intros k [<-|[<-|[]]]; cbn; lia|].
  split; [vm_compute; reflexivity|]. split; vm_compute; reflexivity.
Qed.
