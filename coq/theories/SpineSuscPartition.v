(** The susceptibility spine for an arbitrary partition of the Fock states: the value computed by the model pipeline
    [SpineSusc.spine_susc] equals the full-space specification [EDSpec.susc] on the assembled eigenvalues, assembled weights and
    the two quadratic operators rotated by the assembled eigenvector matrix, INCLUDING the zero-pole (beta-proportional) term at
    the zero test of Susceptibility::operator() and degenerate (resonant) pairs of distinct states.

    Mirrors PV.SpinePartition: [blocks_sound] and [assembled] (hypotheses of SpineSuscFull.susc_blocks_eq_full, the C14
    counterpart of C01's gf_blocks_eq_full) are DISCHARGED here for two arbitrary field operators oA, oB from
      - [partition_ok] (C07 partition_exact), [op_ok] for oA and oB (C07 single_target), in the representation of PV.HPart,
      - C10's HPartProofs.fop_dense_entries through SpinePartition.part_of_pair / rotated_block_entry / rot_term_zero,
      - [eig_ok] (shapes); the density-matrix facts come from the model (SpinePartition.spine_dm_ok).
    [two_ops_blocks_sound] is the analogue of SpinePartition.spine_blocks_sound for any two operators (there: c_i and c^+_j). *)
Require Import Bool List Arith Lia Ring Ring_theory.
From PV Require Import Outcome Fock Poly PolySem EDSpec HPart HPartSpec HPartProofs Sparse SparseProofs BigSum
     TermList GFPart GFPartProofs GFFullProofs SuscPart SuscPartProofs Spine SpineSparseProofs SpineLinAlg SpinePartition
     SpineSusc SpineSuscFull.
From PV Require Symm PartitionInvariance Thermal.
From PVgen Require Import Gen_C01.
Import ListNotations.

Section SpineS.
Variable K : Type.
Variable NO : numops K.
Notation k0 := (n0 K NO).
Notation k1 := (n1 K NO).
Notation kadd := (nadd K NO).
Notation ksub := (nsub K NO).
Notation kmul := (nmul K NO).
Notation kdiv := (ndiv K NO).
Notation kopp := (nopp K NO).
Notation conj := (nconj K NO).
Notation ltb := (nre_ltb K NO).
Notation kabs := (nabs K NO).
Variable kinv : K -> K.
Hypothesis Kr : ring_theory k0 k1 kadd kmul ksub kopp (@eq K).
Hypothesis Kdiv : forall a b, kdiv a b = kmul a (kinv b).
Hypothesis conj0 : conj k0 = k0.
Add Ring KringSS : Kr.
Notation bsum := (bigsum K k0 kadd).

Let BS_zero := @bigsum_zero K k0 k1 kadd kmul ksub kopp Kr.

Variable fb : bool.
Variable eps : K.
Hypothesis one_not_small : ltb (kabs k1) eps = false.
Hypothesis mone_not_small : ltb (kabs (kopp k1)) eps = false.
Hypothesis one_large : ltb eps (kabs k1) = true.
Hypothesis mone_large : ltb eps (kabs (kopp k1)) = true.
Variables reference prec : K.
Hypothesis Hkeep : forall x, keep_entry K NO reference prec x = false -> x = k0.

Variable S : classification.
Variable ED : eigdata K.
Notation nb := (length (sc_states S)).
Notation dimf := (block_size S).
Notation N := (state_size S).
Notation M := (sc_M S).
Notation Ug := (assembled_U K NO S ED).
Notation offs := (off (block_size S)).

Hypothesis PO : partition_ok S.
Hypothesis EO : eig_ok K S ED.

Variable D : list (Thermal.dmpart K).
Hypothesis DO : dm_ok K NO S D.

(** * blocks_sound and assembled for two arbitrary operators *)
Variables oA oB : fop.
Variables prsA prsB : list (nat * nat).
Hypothesis OA : op_ok K NO fb eps S oA prsA.
Hypothesis OB : op_ok K NO fb eps S oB prsB.
Variables aparts bparts : list ((nat * nat) * mat K).
Hypothesis HA : op_compute K NO fb eps S ED oA = Done aparts.
Hypothesis HB : op_compute K NO fb eps S ED oB = Done bparts.

Notation g := (spine_gf_in K NO reference prec S ED D aparts bparts).
Definition g2_all_retained : gf_in K :=
  mkgf K (g_cl K g) (g_cxr K g) (g_cpart K g) (g_cxpart K g) (g_E K g) (g_W K g) (fun _ => true).
Notation g' := g2_all_retained.

Notation Am := (rotate K NO N Ug (poly_matrix K NO M (fop_poly K NO oA))).
Notation Bm := (rotate K NO N Ug (poly_matrix K NO M (fop_poly K NO oB))).
Definition Af (L n R m : nat) : K := mget K NO Am (offs L + n) (offs R + m).
Definition Bf (R m L n : nat) : K := mget K NO Bm (offs R + m) (offs L + n).

Lemma in_cl2 L R : In (L, R) (g_cl K g') <-> In (L, R) prsA.
Proof.
  cbn [g_cl g2_all_retained spine_gf_in]. unfold Symm.left_view. rewrite PartitionInvariance.sort_by_In.
  rewrite (bimap_parts K NO fb eps S ED oA prsA OA aparts HA). reflexivity.
Qed.
Lemma in_cxr2 L R : In (L, R) (g_cxr K g') <-> In (R, L) prsB.
Proof.
  cbn [g_cxr g2_all_retained spine_gf_in]. unfold Symm.right_view. rewrite in_map_iff. split.
  - intros [[a b] [E H]]. unfold swap in E. cbn [fst snd] in E. injection E as <- <-.
    apply PartitionInvariance.sort_by_In in H. rewrite (bimap_parts K NO fb eps S ED oB prsB OB bparts HB) in H. exact H.
  - intros H. exists (R, L). split; [reflexivity|]. apply PartitionInvariance.sort_by_In.
    rewrite (bimap_parts K NO fb eps S ED oB prsB OB bparts HB). exact H.
Qed.

Notation part_of_pair' o prs OO parts HP :=
  (part_of_pair K NO Kr fb eps one_not_small mone_not_small one_large mone_large S ED PO EO o prs OO parts HP).

Theorem two_ops_blocks_sound : blocks_sound K NO nb dimf g' Af Bf.
Proof.
  constructor.
  - cbn [g_cl g2_all_retained spine_gf_in]. apply PartitionInvariance.left_view_ksorted. apply hp_fo_bimap_wf.
  - cbn [g_cxr g2_all_retained spine_gf_in]. exact (PartitionInvariance.right_view_ksorted _ (hp_fo_bimap_wf _)).
  - intros L R H. apply in_cl2 in H. exact (oo_pairs _ _ _ _ _ _ _ OA L R H).
  - intros L R H. apply in_cxr2 in H. destruct (oo_pairs _ _ _ _ _ _ _ OB R L H). split; assumption.
  - reflexivity.
  - intros L R H. apply in_cl2 in H. destruct (oo_pairs _ _ _ _ _ _ _ OA L R H) as [HL HR].
    destruct (part_of_pair' oA prsA OA aparts HA L R H) as [Dm [Hf [_ [Hlen [Hrow _]]]]].
    cbn [g_cpart g2_all_retained spine_gf_in]. rewrite Hf. cbn [snd]. eexists. split; [reflexivity|]. split; [|split].
    + apply cs_row_major_wf. intros r Hr. destruct (In_nth _ _ [] Hr) as [q [Hq <-]]. rewrite Hrow by lia. lia.
    + rewrite cs_row_major_outer. exact Hlen.
    + reflexivity.
  - intros L R H. apply in_cxr2 in H. destruct (oo_pairs _ _ _ _ _ _ _ OB R L H) as [HR HL].
    destruct (part_of_pair' oB prsB OB bparts HB R L H) as [Dm [_ [Hf [Hlen [Hrow _]]]]].
    cbn [g_cxpart g2_all_retained spine_gf_in]. rewrite Hf. cbn [fst snd]. eexists. split; [reflexivity|]. split; [|split].
    + apply cs_col_major_wf. lia.
    + apply cs_col_major_outer.
    + reflexivity.
  - intros b Hb. exact (eo_E K S ED EO b Hb).
  - intros b Hb. exact (do_W K NO S D DO b Hb).
  - intros L R n m HL HR Hn Hm. unfold Af.
    rewrite (rotated_block_entry K NO Kr conj0 S ED PO EO oA L R n m HL HR Hn Hm).
    destruct (memb (L, R) (g_cl K g')) eqn:Mb.
    + apply memb_in in Mb. apply in_cl2 in Mb.
      destruct (part_of_pair' oA prsA OA aparts HA L R Mb) as [Dm [Hf [_ [Hlen [Hrow Hent]]]]].
      cbn [g_cpart g2_all_retained spine_gf_in]. rewrite Hf. cbn [snd].
      rewrite (cs_row_major_get K NO Kr) by (rewrite ?Hrow; lia). rewrite (keep_id K NO reference prec Hkeep). symmetry. apply Hent; assumption.
    + apply BS_zero. intros k Hk. apply in_seq in Hk. apply (rot_term_zero K NO fb eps S ED PO oA prsA OA L R n m k HL HR); [lia|].
      intros Hin. apply in_cl2 in Hin. apply memb_in in Hin. congruence.
  - intros L R n m HL HR Hn Hm. unfold Bf.
    rewrite (rotated_block_entry K NO Kr conj0 S ED PO EO oB R L m n HR HL Hm Hn).
    destruct (memb (L, R) (g_cxr K g')) eqn:Mb.
    + apply memb_in in Mb. apply in_cxr2 in Mb.
      destruct (part_of_pair' oB prsB OB bparts HB R L Mb) as [Dm [_ [Hf [Hlen [Hrow Hent]]]]].
      cbn [g_cxpart g2_all_retained spine_gf_in]. rewrite Hf. cbn [fst snd].
      rewrite (cs_col_major_get K NO Kr) by lia. rewrite (keep_id K NO reference prec Hkeep). symmetry. apply Hent; assumption.
    + apply BS_zero. intros k Hk. apply in_seq in Hk. apply (rot_term_zero K NO fb eps S ED PO oB prsB OB R L m n k HR HL); [lia|].
      intros Hin. apply in_cxr2 in Hin. apply memb_in in Hin. congruence.
Qed.

Theorem two_ops_assembled : assembled K NO nb dimf g' Af Bf (assembled_E K ED) (assembled_w K D) Am Bm.
Proof.
  constructor.
  - rewrite rotate_length. symmetry. exact (offs_total S PO).
  - intros r Hr. rewrite (offs_total S PO) in *. apply rotate_row_length. exact Hr.
  - reflexivity.
  - reflexivity.
  - intros b k Hb Hk. cbn [g_E g2_all_retained spine_gf_in]. unfold assembled_E.
    rewrite (offs_concat S (map fst ED) k0 b k); try assumption.
    + unfold Eof. change (@nil K) with (fst (@nil K, @nil (list K))). rewrite map_nth. reflexivity.
    + rewrite map_length. exact (eo_len K S ED EO).
    + intros b' Hb'. change (@nil K) with (fst (@nil K, @nil (list K))). rewrite map_nth. exact (eo_E K S ED EO b' Hb').
  - intros b k Hb Hk. cbn [g_W g2_all_retained spine_gf_in]. unfold assembled_w.
    rewrite (offs_concat S (map (Thermal.dp_weights K) D) k0 b k); try assumption.
    + unfold Wof. change (@nil K) with (Thermal.dp_weights K (Thermal.mk_dmpart K [] k0 false)). rewrite map_nth. reflexivity.
    + rewrite map_length. exact (do_len K NO S D DO).
    + intros b' Hb'. change (@nil K) with (Thermal.dp_weights K (Thermal.mk_dmpart K [] k0 false)). rewrite map_nth. exact (do_W K NO S D DO b' Hb').
Qed.

(** isRetained is only asked for blocks of selected pairs, which are below the number of blocks: the selection of
    Susceptibility::prepare (isRetained(Aleft) || isRetained(Aright)) keeps every stripe *)
Variable T : tols K.
Lemma susc_compute_retained fixed lenient : susc_compute K NO fixed lenient T g = susc_compute K NO fixed lenient T g'.
Proof.
  unfold susc_compute.
  rewrite (gf_prepare_spec K g (bs_cl_sorted _ _ _ _ _ _ _ two_ops_blocks_sound) (bs_cxr_sorted _ _ _ _ _ _ _ two_ops_blocks_sound)).
  rewrite (gf_prepare_spec K g' (bs_cl_sorted _ _ _ _ _ _ _ two_ops_blocks_sound) (bs_cxr_sorted _ _ _ _ _ _ _ two_ops_blocks_sound)).
  change (g_cl K g') with (g_cl K g). change (g_cxr K g') with (g_cxr K g).
  replace (filter (fun lr => g_ret K g (fst lr) || g_ret K g (snd lr)) (stripes_spec (g_cl K g) (g_cxr K g)))
    with (filter (fun lr => g_ret K g' (fst lr) || g_ret K g' (snd lr)) (stripes_spec (g_cl K g) (g_cxr K g))); [reflexivity|].
  apply filter_ext_in. intros [L R] Hin. apply in_stripes_spec in Hin. destruct Hin as [H1 _].
  destruct (bs_cl_range _ _ _ _ _ _ _ two_ops_blocks_sound L R H1) as [HL _].
  cbn [g_ret g2_all_retained spine_gf_in fst snd]. rewrite (do_ret K NO S D DO L HL). reflexivity.
Qed.

Hypothesis Hrel : forall R, susc_relevant K NO (t_matrix_element K T) R = false -> R = k0.
Hypothesis Hcmp : forall a b, susc_compare K NO (t_compare K T) a b = false -> susc_compare K NO (t_compare K T) b a = true.

Theorem spine_susc_value_eq fixed lenient beta z parts :
  susc_compute K NO fixed lenient T g = WDone parts ->
  susc_value K NO parts None beta z =
  susc K NO beta (t_resonance K T) (assembled_E K ED) (assembled_w K D) Am Bm z (z_is_zero K NO z).
Proof.
  rewrite susc_compute_retained. intros H.
  exact (susc_blocks_eq_full K NO kinv Kr Kdiv T Hrel Hcmp nb dimf g' Af Bf two_ops_blocks_sound
           (assembled_E K ED) (assembled_w K D) Am Bm two_ops_assembled fixed lenient beta z parts H).
Qed.

(** with the repaired loops ([fixed] = true) the computation returns *)
Lemma scompute_parts_total lenient : forall ps, (forall p, In p ps -> part_wf K (snd p)) ->
  exists outs, scompute_parts K NO true lenient T ps = WDone outs.
Proof.
  induction ps as [|[lr inp] ps IH]; intros W; [exists []; reflexivity|].
  destruct (susc_part_compute_fixed K NO lenient T inp (W (lr, inp) (or_introl eq_refl))) as [o Ho].
  destruct IH as [outs Ho']; [intros p Hp; apply W; right; exact Hp|].
  exists ((lr, o) :: outs). cbn [scompute_parts]. rewrite Ho. cbn [wbind]. rewrite Ho'. reflexivity.
Qed.

Theorem spine_susc_compute_total lenient : exists parts, susc_compute K NO true lenient T g = WDone parts.
Proof.
  rewrite susc_compute_retained. unfold susc_compute.
  rewrite (gf_prepare_spec K g' (bs_cl_sorted _ _ _ _ _ _ _ two_ops_blocks_sound) (bs_cxr_sorted _ _ _ _ _ _ _ two_ops_blocks_sound)).
  set (sel := filter _ _).
  assert (Hsel : forall lr, In lr sel -> In lr (g_cl K g') /\ In lr (g_cxr K g')).
  { intros [L R] H. unfold sel in H. apply filter_In in H. destruct H as [H _]. apply in_stripes_spec in H. exact H. }
  rewrite (all_some_mkpart K NO nb dimf g' Af Bf two_ops_blocks_sound sel Hsel).
  apply scompute_parts_total. intros p Hp. apply in_map_iff in Hp. destruct Hp as [[L R] [<- Hin]]. cbn [snd].
  destruct (Hsel _ Hin) as [H1 H2].
  destruct (selected_part K NO nb dimf g' Af Bf two_ops_blocks_sound L R H1 H2) as [a [b [Em [_ [_ [W _]]]]]].
  unfold part_at. rewrite Em. exact W.
Qed.

End SpineS.

(** * The susceptibility spine theorem for any partition satisfying C07's conclusions, two arbitrary field operators *)
Theorem spine_susc_ops_partition (K : Type) (NO : numops K) (kinv : K -> K)
  (Kr : ring_theory (n0 K NO) (n1 K NO) (nadd K NO) (nmul K NO) (nsub K NO) (nopp K NO) (@eq K))
  (Kdiv : forall a b, ndiv K NO a b = nmul K NO a (kinv b))
  (conj0 : nconj K NO (n0 K NO) = n0 K NO)
  (fb : bool) (eps : K)
  (one_not_small : nre_ltb K NO (nabs K NO (n1 K NO)) eps = false)
  (mone_not_small : nre_ltb K NO (nabs K NO (nopp K NO (n1 K NO))) eps = false)
  (one_large : nre_ltb K NO eps (nabs K NO (n1 K NO)) = true)
  (mone_large : nre_ltb K NO eps (nabs K NO (nopp K NO (n1 K NO))) = true)
  (reference prec : K) (Hkeep : forall x, keep_entry K NO reference prec x = false -> x = n0 K NO)
  (T : tols K)
  (Hrel : forall R, susc_relevant K NO (t_matrix_element K T) R = false -> R = n0 K NO)
  (Hcmp : forall a b, susc_compare K NO (t_compare K T) a b = false -> susc_compare K NO (t_compare K T) b a = true)
  (S : classification) (ED : eigdata K) (oA oB : fop) (prsA prsB : list (nat * nat)) :
  partition_ok S -> eig_ok K S ED ->
  op_ok K NO fb eps S oA prsA -> op_ok K NO fb eps S oB prsB ->
  forall (fixed lenient : bool) (beta z : K) (parts : list ((nat * nat) * spart_out K)),
  spine_susc_ops K NO fb eps reference prec T fixed lenient S ED beta oA oB = Done (WDone parts) ->
  exists D, spine_dm K NO beta S ED = Done D /\
    spine_susc_value K NO parts beta z =
    susc K NO beta (t_resonance K T) (assembled_E K ED) (assembled_w K D)
       (rotate K NO (state_size S) (assembled_U K NO S ED) (poly_matrix K NO (sc_M S) (fop_poly K NO oA)))
       (rotate K NO (state_size S) (assembled_U K NO S ED) (poly_matrix K NO (sc_M S) (fop_poly K NO oB)))
       z (z_is_zero K NO z).
Proof.
  intros PO EO OA OB fixed lenient beta z parts. unfold spine_susc_ops.
  destruct (spine_dm K NO beta S ED) as [D| | | |] eqn:HD; cbn [bind]; try discriminate.
  destruct (op_compute K NO fb eps S ED oA) as [aparts| | | |] eqn:HA; cbn [bind]; try discriminate.
  destruct (op_compute K NO fb eps S ED oB) as [bparts| | | |] eqn:HB; cbn [bind]; try discriminate.
  intros E. injection E as E. exists D. split; [reflexivity|].
  exact (spine_susc_value_eq K NO kinv Kr Kdiv conj0 fb eps one_not_small mone_not_small one_large mone_large reference prec Hkeep
           S ED PO EO D (spine_dm_ok K NO S ED EO D beta HD) oA oB prsA prsB OA OB aparts bparts HA HB T Hrel Hcmp
           fixed lenient beta z parts E).
Qed.

(** the library's instance: A = c^+_a c_b, B = c^+_c c_d *)
Theorem spine_susc_partition (K : Type) (NO : numops K) (kinv : K -> K)
  (Kr : ring_theory (n0 K NO) (n1 K NO) (nadd K NO) (nmul K NO) (nsub K NO) (nopp K NO) (@eq K))
  (Kdiv : forall a b, ndiv K NO a b = nmul K NO a (kinv b))
  (conj0 : nconj K NO (n0 K NO) = n0 K NO)
  (fb : bool) (eps : K)
  (one_not_small : nre_ltb K NO (nabs K NO (n1 K NO)) eps = false)
  (mone_not_small : nre_ltb K NO (nabs K NO (nopp K NO (n1 K NO))) eps = false)
  (one_large : nre_ltb K NO eps (nabs K NO (n1 K NO)) = true)
  (mone_large : nre_ltb K NO eps (nabs K NO (nopp K NO (n1 K NO))) = true)
  (reference prec : K) (Hkeep : forall x, keep_entry K NO reference prec x = false -> x = n0 K NO)
  (T : tols K)
  (Hrel : forall R, susc_relevant K NO (t_matrix_element K T) R = false -> R = n0 K NO)
  (Hcmp : forall a b, susc_compare K NO (t_compare K T) a b = false -> susc_compare K NO (t_compare K T) b a = true)
  (S : classification) (ED : eigdata K) (a b c d : nat) (prsA prsB : list (nat * nat)) :
  partition_ok S -> eig_ok K S ED ->
  op_ok K NO fb eps S (FQuad a b) prsA -> op_ok K NO fb eps S (FQuad c d) prsB ->
  forall (fixed lenient : bool) (beta z : K) (parts : list ((nat * nat) * spart_out K)),
  spine_susc K NO fb eps reference prec T fixed lenient S ED beta a b c d = Done (WDone parts) ->
  exists D, spine_dm K NO beta S ED = Done D /\
    spine_susc_value K NO parts beta z =
    susc K NO beta (t_resonance K T) (assembled_E K ED) (assembled_w K D)
       (rotate K NO (state_size S) (assembled_U K NO S ED) (poly_matrix K NO (sc_M S) (p_n_offdiag K (n1 K NO) a b)))
       (rotate K NO (state_size S) (assembled_U K NO S ED) (poly_matrix K NO (sc_M S) (p_n_offdiag K (n1 K NO) c d)))
       z (z_is_zero K NO z).
Proof.
  intros PO EO OA OB fixed lenient beta z parts H.
  exact (spine_susc_ops_partition K NO kinv Kr Kdiv conj0 fb eps one_not_small mone_not_small one_large mone_large reference prec Hkeep
           T Hrel Hcmp S ED (FQuad a b) (FQuad c d) prsA prsB PO EO OA OB fixed lenient beta z parts H).
Qed.

(** with the repaired loops the whole pipeline returns a value *)
Theorem spine_susc_partition_total (K : Type) (NO : numops K)
  (Kr : ring_theory (n0 K NO) (n1 K NO) (nadd K NO) (nmul K NO) (nsub K NO) (nopp K NO) (@eq K))
  (conj0 : nconj K NO (n0 K NO) = n0 K NO)
  (fb : bool) (eps : K)
  (one_not_small : nre_ltb K NO (nabs K NO (n1 K NO)) eps = false)
  (mone_not_small : nre_ltb K NO (nabs K NO (nopp K NO (n1 K NO))) eps = false)
  (one_large : nre_ltb K NO eps (nabs K NO (n1 K NO)) = true)
  (mone_large : nre_ltb K NO eps (nabs K NO (nopp K NO (n1 K NO))) = true)
  (reference prec : K) (Hkeep : forall x, keep_entry K NO reference prec x = false -> x = n0 K NO)
  (T : tols K)
  (S : classification) (ED : eigdata K) (a b c d : nat) (prsA prsB : list (nat * nat)) :
  partition_ok S -> eig_ok K S ED ->
  op_ok K NO fb eps S (FQuad a b) prsA -> op_ok K NO fb eps S (FQuad c d) prsB ->
  forall (lenient : bool) (beta : K) D, spine_dm K NO beta S ED = Done D ->
  exists parts, spine_susc K NO fb eps reference prec T true lenient S ED beta a b c d = Done (WDone parts).
Proof.
  intros PO EO OA OB lenient beta D HD. unfold spine_susc, spine_susc_ops. rewrite HD. cbn [bind].
  destruct (op_compute_spec K NO Kr fb eps one_not_small mone_not_small one_large mone_large S ED PO EO (FQuad a b) prsA OA) as [aparts HA].
  destruct (op_compute_spec K NO Kr fb eps one_not_small mone_not_small one_large mone_large S ED PO EO (FQuad c d) prsB OB) as [bparts HB].
  rewrite HA, HB. cbn [bind].
  destruct (spine_susc_compute_total K NO Kr conj0 fb eps one_not_small mone_not_small one_large mone_large reference prec Hkeep
              S ED PO EO D (spine_dm_ok K NO S ED EO D beta HD) (FQuad a b) (FQuad c d) prsA prsB OA OB aparts bparts HA HB T lenient) as [parts Hp].
  exists parts. rewrite Hp. reflexivity.
Qed.
