(** IndexGen.v -- IndexClassification rebuilt around the control structure that the translator reads off the C++ (C18).

    PV.Index (one prepare() on a fresh object) and PV.IndexReprepare (the object across calls) are hand-written.
    translator/gen_index.py regenerates, on every run, from the source text of the tree under test (one file per function):

      PVgen.Gen_IndexInfoCtor    gen_info_fields, gen_info_hash_of_label                     IndexInfo::IndexInfo
      PVgen.Gen_IndexInfoLess    gen_info_lt                                                 IndexInfo::operator<
      PVgen.Gen_IndexPrepare     gen_prepare_reset, gen_maxspin_init, gen_first_size, gen_first_maxspin, gen_current_init,
                                 gen_resize, gen_order_spins_selects_count_outer, gen_sm_outer / _skip / _skip_action /
                                 _inner / _emit, gen_st_outer / _inner / _emit, gen_build_range / _store / _slot / _value
                                                                                             IndexClassification::prepare(bool)
      PVgen.Gen_IndexGetIndex    gen_getindex                                                getIndex(const IndexInfo&)
      PVgen.Gen_IndexGetIndex3   gen_getindex3_args                                          getIndex(Site, Orbital, Spin)
      PVgen.Gen_IndexGetInfo     gen_getinfo_throws, gen_getinfo_slot                        getInfo(ParticleIndex)
      PVgen.Gen_IndexCheckIndex  gen_checkindex                                              checkIndex(ParticleIndex)

    Below every function of Index.v / IndexReprepare.v is written once more, loop for loop, with the GENERATED range / test /
    skip action / argument order / reset list / store operation in the place of the hand-written one ([..._src]).  What the
    translator recognises structurally and does not describe is shared with Index.v: the vector write
    `IndicesToInfo[currentIndex] = new IndexInfo(..); currentIndex++` ([emit_info_src] = Index.emit on a ready-made IndexInfo),
    `*(IndicesToInfo[i])` ([Index.vec_deref]), std::vector::resize ([IndexReprepare.vec_resize]), the order in which std::map
    iterates the sites ([Index.site_map]).

    New here, and absent from Index.v: the std::map InfoToIndices is keyed the way the C++ keys it -- by IndexInfo::operator<
    ([gen_info_lt]) over (SiteLabelHash, Orbital, Spin), two keys being one entry iff neither is less than the other
    ([equiv_src]); [hash] stands for boost::hash<std::string>.  Index.v keys the map by (label, orbital, spin) and ASSUMES
    the hash injective; here that assumption is the explicit hypothesis of the agreement theorems (PV.IndexGenProofs), and what
    is compared, in which order, is read from the source.

    Definitions only. *)
Require Import Bool List Arith.
Require Strings.String.
From PV Require Import Outcome Index IndexReprepare IndexShapes.
From PVgen Require Import Gen_IndexInfoCtor Gen_IndexInfoLess Gen_IndexPrepare Gen_IndexGetIndex Gen_IndexGetIndex3
                          Gen_IndexGetInfo Gen_IndexCheckIndex.
Import ListNotations.

Section Src.
Variable hash : label -> nat.          (* boost::hash<std::string> *)

(** * IndexInfo: construction and the order of the map *)

(** new IndexInfo(l, o, s): the members, as the member-initialiser list sets them *)
Definition mk_info_src (l : label) (o s : nat) : info := gen_info_fields label l o s.

(** a < b for two IndexInfo objects; SiteLabelHash is the hash of the label member (gen_info_hash_of_label) *)
Definition lt_src (a b : info) : bool :=
  gen_info_lt (hash (info_label a)) (info_orb a) (info_spin a) (hash (info_label b)) (info_orb b) (info_spin b).

(** the equivalence std::map derives from its order: neither key is less than the other *)
Definition equiv_src (a b : info) : bool := negb (lt_src a b) && negb (lt_src b a).

(** InfoToIndices.find(k) *)
Fixpoint map_find_src (k : info) (m : imap) : option nat :=
  match m with
  | [] => None
  | (k', v) :: t => if equiv_src k k' then Some v else map_find_src k t
  end.

(** InfoToIndices[k] = v: an equivalent key keeps its key object and gets the new value *)
Fixpoint map_assign_src (k : info) (v : nat) (m : imap) : imap :=
  match m with
  | [] => [(k, v)]
  | (k', v') :: t => if equiv_src k k' then (k', v) :: t else (k', v') :: map_assign_src k v t
  end.

(** InfoToIndices.insert(std::make_pair(k, v)): nothing happens when an equivalent key is present *)
Fixpoint map_insert_src (k : info) (v : nat) (m : imap) : imap :=
  match m with
  | [] => [(k, v)]
  | (k', v') :: t => if equiv_src k k' then (k', v') :: t else (k', v') :: map_insert_src k v t
  end.

Definition map_store_src (op : map_store) : info -> nat -> imap -> imap :=
  match op with StoreAssign => map_assign_src | StoreInsert => map_insert_src end.

(** * prepare *)

(** [for (v = first; v < bound; ++v) body] for a generated (first, exclusive bound) *)
Definition for_pair {St : Type} (r : nat * nat) (body : nat -> St -> outcome St) (st : St) : outcome St :=
  for_range (snd r - fst r) (fst r) body st.

(** IndicesToInfo[currentIndex] = <a new IndexInfo>; currentIndex++ *)
Definition emit_info_src (x : info) (st : estate) : outcome estate :=
  bind (vec_write (fst st) (snd st) x) (fun v' => Done (v', S (snd st))).

(** new IndexInfo(label of the site, EMIT) with EMIT = (Orbital, Spin) as generated *)
Definition emit_src (l : label) (os : nat * nat) : estate -> outcome estate := emit_info_src (mk_info_src l (fst os) (snd os)).

(** the first loop over the sites: (IndexSize, MaxSpinSize) *)
Definition first_pass_src (ss : list site) (size0 : nat) : nat * nat :=
  fold_left (fun acc s => (gen_first_size (fst acc) (snd acc) (s_orb s) (s_spin s),
                           gen_first_maxspin (fst acc) (snd acc) (s_orb s) (s_spin s)))
            ss (size0, gen_maxspin_init).

(** the nest whose outer loop runs over the sites *)
Fixpoint site_major_src (ss : list site) (st : estate) : outcome estate :=
  match ss with
  | [] => Done st
  | s :: rest =>
    bind (for_pair (gen_st_outer (s_orb s) (s_spin s))
            (fun a => for_pair (gen_st_inner a (s_orb s) (s_spin s)) (fun b => emit_src (s_label s) (gen_st_emit a b))) st)
         (site_major_src rest)
  end.

(** the nest whose outer loop is counted: the loop over the sites for one value z of the outer counter *)
Fixpoint spin_major_sites_src (z : nat) (ss : list site) (st : estate) : outcome estate :=
  match ss with
  | [] => Done st
  | s :: rest =>
    if gen_sm_skip z (s_orb s) (s_spin s)
    then match gen_sm_skip_action with
         | SkipContinue => spin_major_sites_src z rest st
         | SkipBreak => Done st
         end
    else bind (for_pair (gen_sm_inner z (s_orb s) (s_spin s)) (fun i => emit_src (s_label s) (gen_sm_emit z i)) st)
              (spin_major_sites_src z rest)
  end.

Definition spin_major_src (size maxspin : nat) (ss : list site) (st : estate) : outcome estate :=
  for_pair (gen_sm_outer size maxspin) (fun z => spin_major_sites_src z ss) st.

(** one statement in front of the first loop *)
Definition reset_member_src (t : table) (m : idx_member) : table :=
  match m with
  | MemIndexSize => mkTable 0 (IndicesToInfo t) (InfoToIndices t)
  | MemInfoToIndices => mkTable (IndexSize t) (IndicesToInfo t) []
  | MemIndicesToInfo => mkTable (IndexSize t) [] (InfoToIndices t)
  end.
Definition reset_src (t0 : table) : table := fold_left reset_member_src gen_prepare_reset t0.

(** the last loop: InfoToIndices <- (key *(IndicesToInfo[slot]), value), stored by the generated operation *)
Definition build_step_src (v : vec) (i : nat) (m : imap) : outcome imap :=
  bind (vec_deref v (gen_build_slot i)) (fun x => Done (map_store_src gen_build_store x (gen_build_value i) m)).

(** IndexClassification::prepare(order_spins) on an object whose members hold [t0] and whose Sites iterate as [ss] *)
Definition prepare_on_src (order_spins : bool) (ss : list site) (t0 : table) : outcome table :=
  let t1 := reset_src t0 in
  let sm := first_pass_src ss (IndexSize t1) in
  let size := fst sm in
  let st0 := (vec_resize (IndicesToInfo t1) (gen_resize size (snd sm)), gen_current_init) in
  bind (if Bool.eqb order_spins gen_order_spins_selects_count_outer
        then spin_major_src size (snd sm) ss st0 else site_major_src ss st0) (fun st =>
  bind (for_pair (gen_build_range size) (build_step_src (fst st)) (InfoToIndices t1)) (fun m =>
  Done (mkTable size (fst st) m))).

(** ... on a freshly constructed object *)
Definition prepare_src (order_spins : bool) (ss : list site) : outcome table := prepare_on_src order_spins ss constructed.
Definition prepare_lattice_src (order_spins : bool) (calls : list site) : outcome table :=
  prepare_src order_spins (site_map calls).

(** prepare(m1); prepare(m2); ... on one object *)
Fixpoint prepare_history_src (ms : list bool) (ss : list site) (t0 : table) : outcome table :=
  match ms with
  | [] => Done t0
  | m :: r => bind (prepare_on_src m ss t0) (prepare_history_src r ss)
  end.

(** * Lookups *)
Definition getIndex_src (t : table) (x : info) : nat := gen_getindex (map_find_src x (InfoToIndices t)) (IndexSize t).

(** getIndex(Site, Orbital, Spin): the IndexInfo constructed from the generated argument list is looked up *)
Definition getIndex3_src (t : table) (l : label) (o s : nat) : nat :=
  let a := gen_getindex3_args label l o s in
  getIndex_src t (mk_info_src (fst (fst a)) (snd (fst a)) (snd a)).

Definition getInfo_src (t : table) (i : nat) : outcome info :=
  if gen_getinfo_throws i (IndexSize t) then Throws exWrongIndex else vec_deref (IndicesToInfo t) (gen_getinfo_slot i).

Definition checkIndex_src (t : table) (i : nat) : bool := gen_checkindex i (IndexSize t).

Definition index_perm_src (t1 t2 : table) (f : label -> label) (i : nat) : nat :=
  match getInfo_src t1 i with
  | Done x => getIndex_src t2 (rename_info f x)
  | _ => IndexSize t2
  end.

End Src.
