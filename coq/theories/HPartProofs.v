(** Proofs about the model of HPart.v (properties C03 and C10), standard-library style.

    Part A: list-level theorems about Hamiltonian::computeGroundEnergy, getEigenValue, getEigenValues
            and the 1x1 special case of HamiltonianPart::compute.
    Part B: [hpart_prepare_is_restriction]: for a partition that the Hamiltonian respects, the block
            filled by HamiltonianPart::prepare is the restriction of the full Fock-space matrix
            [EDSpec.poly_matrix] to the states of the block, and no out-of-bounds write occurs; examples of
            what happens on a partition that is not respected (wrong cell / OOB).
    Part C: the pruning bound of FieldOperatorPart, the container's adjoint copy, the Jordan-Wigner
            matrices of c_i and c^+_i are transposes of each other.

    No axioms.  The numeric type is abstract; each theorem lists the algebraic facts it uses as
    Section hypotheses, and the [Example]s at the end instantiate them at the integers. *)
Require Import Bool List Arith ZArith Lia Permutation.
From PV Require Import Outcome Fock Poly PolySem CAR EDSpec HPart HPartSpec FockAdjoint.
Import ListNotations.

(** * Generic list facts *)

Lemma nth_map_seq : forall {A} (f : nat -> A) (n i : nat) (d : A), i < n -> nth i (map f (seq 0 n)) d = f i.
Proof.
  intros A f n i d H.
  rewrite (nth_indep _ d (f 0)) by (rewrite map_length, seq_length; exact H).
  rewrite map_nth. rewrite seq_nth by exact H. reflexivity.
Qed.

Lemma map_nth_seq_id : forall {A} (l : list A) (d : A), map (fun i => nth i l d) (seq 0 (length l)) = l.
Proof.
  intros A l d. induction l as [|a l IH]; [reflexivity|].
  cbn [length seq map nth]. f_equal. rewrite <- seq_shift, map_map. exact IH.
Qed.

Lemma set_nth_length : forall {A} (l : list A) i v l', set_nth l i v = Some l' -> length l' = length l.
Proof.
  intros A l. induction l as [|x l IH]; intros i v l' H; destruct i as [|i]; cbn [set_nth] in H; try discriminate.
  - inversion H; reflexivity.
  - destruct (set_nth l i v) as [t'|] eqn:E; [|discriminate]. inversion H; subst. cbn [length]. f_equal. eapply IH; exact E.
Qed.

Lemma set_nth_some : forall {A} (l : list A) i v, i < length l -> exists l', set_nth l i v = Some l'.
Proof.
  intros A l. induction l as [|x l IH]; intros i v H; cbn [length] in H; [lia|].
  destruct i as [|i]; cbn [set_nth]; [eauto|].
  destruct (IH i v) as [l' E]; [lia|]. rewrite E. eauto.
Qed.

Lemma set_nth_none : forall {A} (l : list A) i v, length l <= i -> set_nth l i v = None.
Proof.
  intros A l. induction l as [|x l IH]; intros i v H; [destruct i; reflexivity|].
  cbn [length] in H. destruct i as [|i]; [lia|]. cbn [set_nth]. rewrite IH by lia. reflexivity.
Qed.

Lemma set_nth_nth : forall {A} (l : list A) i v l' j d, set_nth l i v = Some l' ->
  nth j l' d = if Nat.eqb j i then v else nth j l d.
Proof.
  intros A l. induction l as [|x l IH]; intros i v l' j d H; destruct i as [|i]; cbn [set_nth] in H; try discriminate.
  - inversion H; subst. destruct j; reflexivity.
  - destruct (set_nth l i v) as [t'|] eqn:E; [|discriminate]. inversion H; subst.
    destruct j as [|j]; [reflexivity|]. cbn [nth]. rewrite (IH _ _ _ j d E). reflexivity.
Qed.

Lemma Forall2_map_eq : forall {A B C} (f : B -> C) (g : A -> C) (la : list A) (lb : list B),
  Forall2 (fun a b => f b = g a) la lb -> map f lb = map g la.
Proof.
  intros A B C f g la lb H. induction H as [|a b la lb Hab H IH]; [reflexivity|].
  cbn [map]. rewrite Hab, IH. reflexivity.
Qed.

Lemma Forall2_weaken : forall {A B} (P Q : A -> B -> Prop) (la : list A) (lb : list B),
  (forall a b, P a b -> Q a b) -> Forall2 P la lb -> Forall2 Q la lb.
Proof. intros A B P Q la lb HPQ H. induction H; constructor; auto. Qed.

(** * Part A *)

Section ListLevel.
Variable K : Type.
Variable NO : numops K.
Notation ltb := (nre_ltb K NO).

(** the order facts used: [a <= b] is [ltb b a = false] *)
Hypothesis ltb_asym : forall a b, ltb a b = true -> ltb b a = false.
Hypothesis le_trans : forall a b c, ltb b a = false -> ltb c b = false -> ltb c a = false.

Lemma ltb_irrefl : forall a, ltb a a = false.
Proof. intro a. destruct (ltb a a) eqn:E; [|reflexivity]. rewrite (ltb_asym _ _ E) in E. discriminate. Qed.

Lemma fold_min_spec : forall (t : list K) (x : K),
  let m := fold_left (fun m v => if ltb v m then v else m) t x in
  In m (x :: t) /\ ltb x m = false /\ forall y, In y t -> ltb y m = false.
Proof.
  induction t as [|v t IH]; intros x; cbn [fold_left].
  - split; [left; reflexivity|]. split; [apply ltb_irrefl|]. intros y [].
  - destruct (ltb v x) eqn:E.
    + destruct (IH v) as [Hin [Hv Hall]]. split; [right; exact Hin|].
      split.
      * (* m <= v < x *) apply (le_trans _ v _); [exact Hv | apply ltb_asym; exact E].
      * intros y [Hy|Hy]; [subst y; exact Hv | apply Hall; exact Hy].
    + destruct (IH x) as [Hin [Hx Hall]]. split; [destruct Hin as [Hin|Hin]; [left; exact Hin | right; right; exact Hin]|].
      split; [exact Hx|].
      intros y [Hy|Hy]; [subst y; apply (le_trans _ x _); [exact Hx | exact E] | apply Hall; exact Hy].
Qed.

Lemma min_coeff_spec : forall l m, min_coeff K NO l = Done m ->
  In m l /\ forall y, In y l -> ltb y m = false.
Proof.
  intros [|x t] m H; cbn [min_coeff] in H; [discriminate|]. inversion H; subst m; clear H.
  destruct (fold_min_spec t x) as [Hin [Hx Hall]]. split; [exact Hin|].
  intros y [Hy|Hy]; [subst y; exact Hx | apply Hall; exact Hy].
Qed.

Lemma outcome_map_done : forall {A B} (f : A -> outcome B) (l : list A) (r : list B),
  outcome_map f l = Done r -> Forall2 (fun a b => f a = Done b) l r.
Proof.
  intros A B f. induction l as [|a l IH]; intros r H; cbn [outcome_map] in H.
  - inversion H. constructor.
  - destruct (f a) as [b| | | |] eqn:Ea; try discriminate. cbn [bind] in H.
    destruct (outcome_map f l) as [r'| | | |] eqn:El; try discriminate. cbn [bind] in H.
    inversion H; subst. constructor; [exact Ea | apply IH; reflexivity].
Qed.

Lemma outcome_map_all_done : forall {A B} (f : A -> outcome B) (g : A -> B) (l : list A),
  (forall a, In a l -> f a = Done (g a)) -> outcome_map f l = Done (map g l).
Proof.
  intros A B f g. induction l as [|a l IH]; intros H; [reflexivity|].
  cbn [outcome_map map]. rewrite (H a) by (left; reflexivity). cbn [bind].
  rewrite IH by (intros x Hx; apply H; right; exact Hx). reflexivity.
Qed.

(** Hamiltonian::computeGroundEnergy returns an eigenvalue of some block that is <= every eigenvalue of every block *)
Theorem ground_energy_is_min : forall (parts : list (hpart K)) (g : K),
  computeGroundEnergy K NO parts = Done g ->
  (exists p, In p parts /\ In g (fst p)) /\
  (forall p e, In p parts -> In e (fst p) -> ltb e g = false).
Proof.
  intros parts g H. unfold computeGroundEnergy in H.
  destruct (outcome_map (fun p => min_coeff K NO (fst p)) parts) as [lev| | | |] eqn:E; try discriminate.
  cbn [bind] in H. apply outcome_map_done in E. apply min_coeff_spec in H. destruct H as [Hin Hall].
  split.
  - clear Hall. induction E as [|p m parts lev Hp E IH]; [destruct Hin|].
    destruct Hin as [Hin|Hin].
    + subst m. exists p. split; [left; reflexivity|]. apply min_coeff_spec in Hp. tauto.
    + destruct (IH Hin) as [q [Hq Hg]]. exists q. split; [right; exact Hq | exact Hg].
  - intros p e Hp He. clear Hin.
    induction E as [|q m parts lev Hq E IH]; [destruct Hp|].
    destruct Hp as [Hp|Hp].
    + subst q. apply min_coeff_spec in Hq. destruct Hq as [_ Hq].
      apply (le_trans _ m _); [apply Hall; left; reflexivity | apply Hq; exact He].
    + apply IH; [intros y Hy; apply Hall; right; exact Hy | exact Hp].
Qed.

(** it never fails when there is at least one block and no block is empty *)
Theorem ground_energy_total : forall (parts : list (hpart K)),
  parts <> [] -> (forall p, In p parts -> fst p <> []) -> exists g, computeGroundEnergy K NO parts = Done g.
Proof.
  intros parts Hne Hall. unfold computeGroundEnergy.
  rewrite (outcome_map_all_done _ (fun p => match fst p with x :: t => fold_left (fun m v => if ltb v m then v else m) t x | [] => n0 K NO end)).
  - cbn [bind]. destruct parts as [|p parts]; [congruence|]. cbn [map min_coeff]. eauto.
  - intros p Hp. specialize (Hall p Hp). destruct (fst p); [congruence|]. reflexivity.
Qed.

End ListLevel.

(** * Well-formed classifications: what StatesClassification::compute establishes (C07's subject) *)
Definition wf_class (S : classification) : Prop :=
  (forall b states, nth_error (sc_states S) b = Some states -> NoDup states) /\
  (forall b states s, nth_error (sc_states S) b = Some states -> In s states ->
     s < state_size S /\ nth_error (sc_index S) s = Some b).

Lemma find_pos_nth : forall (l : list nat) (k s n : nat), NoDup l -> nth_error l k = Some s ->
  find_pos l s n = Some (n + k).
Proof.
  induction l as [|x l IH]; intros k s n Hnd Hk; [destruct k; discriminate|].
  cbn [find_pos]. destruct k as [|k]; cbn [nth_error] in Hk.
  - inversion Hk; subst. rewrite Nat.eqb_refl. f_equal. lia.
  - inversion Hnd as [|? ? Hnot Hnd']; subst.
    destruct (Nat.eqb x s) eqn:E.
    + apply Nat.eqb_eq in E. subst x. exfalso. apply Hnot. eapply nth_error_In; exact Hk.
    + rewrite (IH k s (S n) Hnd' Hk). f_equal. lia.
Qed.

Lemma label_not_rejected : forall fb S s, s < state_size S -> label_rejected fb S s = false.
Proof.
  intros fb S s H. unfold label_rejected. destruct fb.
  - apply Nat.leb_gt. exact H.
  - apply Nat.ltb_ge. lia.
Qed.

(** a state of block b at position k: block number b, inner state k *)
Lemma getBlockNumber_wf : forall fb S b states s, wf_class S ->
  nth_error (sc_states S) b = Some states -> In s states -> getBlockNumber fb S s = Done b.
Proof.
  intros fb S b states s [_ Hwf] Hb Hs. destruct (Hwf b states s Hb Hs) as [Hlt Hidx].
  unfold getBlockNumber. rewrite label_not_rejected by exact Hlt. rewrite Hidx. reflexivity.
Qed.

Lemma getInnerState_wf : forall fb S b states k s, wf_class S ->
  nth_error (sc_states S) b = Some states -> nth_error states k = Some s -> getInnerState fb S s = Done k.
Proof.
  intros fb S b states k s Hwf Hb Hk.
  assert (Hs : In s states) by (eapply nth_error_In; exact Hk).
  unfold getInnerState. rewrite (getBlockNumber_wf fb S b states s Hwf Hb Hs).
  destruct Hwf as [Hnd Hwf]. destruct (Hwf b states s Hb Hs) as [Hlt _].
  rewrite label_not_rejected by exact Hlt. cbn [bind]. rewrite Hb.
  rewrite (find_pos_nth states k s 0 (Hnd b states Hb) Hk). reflexivity.
Qed.

Section Lookup.
Variable K : Type.

(** Hamiltonian::getEigenValue(label) is the eigenvalue stored for the label's block at the label's position *)
Theorem eigenvalue_lookup : forall fb (S : classification) (parts : list (hpart K)) b states k s part e,
  wf_class S ->
  nth_error (sc_states S) b = Some states -> nth_error states k = Some s ->
  nth_error parts b = Some part -> nth_error (fst part) k = Some e ->
  getEigenValue fb K S parts s = Done e.
Proof.
  intros fb S parts b states k s part e Hwf Hb Hk Hp He.
  assert (Hs : In s states) by (eapply nth_error_In; exact Hk).
  destruct (proj2 Hwf b states s Hb Hs) as [Hlt _].
  unfold getEigenValue, getInnerState_label.
  rewrite label_not_rejected by exact Hlt. rewrite Nat.mod_small by exact Hlt.
  rewrite (getInnerState_wf fb S b states k s Hwf Hb Hk). cbn [bind].
  rewrite (getBlockNumber_wf fb S b states s Hwf Hb Hs). cbn [bind].
  rewrite Hp, He. reflexivity.
Qed.

(** with the test [>=] every label outside 0 .. 2^M - 1 is rejected by an exception ... *)
Theorem state_label_checked : forall (S : classification) (parts : list (hpart K)) q,
  state_size S <= q -> getEigenValue true K S parts q = Throws ex_wrong_state.
Proof.
  intros S parts q H. unfold getEigenValue, getInnerState_label, label_rejected.
  assert (E : (state_size S <=? q) = true) by (apply Nat.leb_le; exact H). rewrite E. reflexivity.
Qed.

(** ... and so do getBlockNumber / getInnerState *)
Theorem state_label_checked_classification : forall (S : classification) q,
  state_size S <= q ->
  getBlockNumber true S q = Throws ex_wrong_state /\ getInnerState_label true S q = Throws ex_wrong_state.
Proof.
  intros S q H. unfold getBlockNumber, getInnerState_label, label_rejected.
  assert (E : (state_size S <=? q) = true) by (apply Nat.leb_le; exact H). rewrite E. split; reflexivity.
Qed.

(** Hamiltonian::getEigenValues *)
Lemma write_range_app : forall (src pre : list K) (n : nat), length src <= n ->
  write_range (map Some pre ++ repeat None n) (length pre) src =
  Done (map Some (pre ++ src) ++ repeat None (n - length src)).
Proof.
  induction src as [|x src IH]; intros pre n H; cbn [write_range length] in *.
  - rewrite app_nil_r, Nat.sub_0_r. reflexivity.
  - destruct n as [|n]; [lia|].
    assert (E : set_nth (map Some pre ++ repeat None (S n)) (length pre) (Some x) =
                Some (map Some (pre ++ [x]) ++ repeat None n)).
    { clear. induction pre as [|p pre IHp]; [reflexivity|].
      cbn [map app length set_nth]. rewrite IHp. reflexivity. }
    rewrite E. replace (S (length pre)) with (length (pre ++ [x])) by (rewrite app_length; cbn; lia).
    rewrite IH by lia. rewrite <- app_assoc. cbn [app]. replace (S n - S (length src)) with (n - length src) by lia.
    reflexivity.
Qed.

Lemma read_all_some : forall (l : list K), read_all (map Some l ++ repeat None 0) = Done l.
Proof.
  induction l as [|x l IH]; [reflexivity|].
  cbn [map app read_all]. rewrite IH. reflexivity.
Qed.

Theorem getEigenValues_is_concat : forall (S : classification) (parts : list (hpart K)),
  length (concat (map fst parts)) = state_size S ->
  getEigenValues K S parts = Done (concat (map fst parts)).
Proof.
  intros S parts Hlen. unfold getEigenValues.
  assert (G : forall (ps : list (hpart K)) (pre : list K) (n : nat), length (concat (map fst ps)) <= n ->
    fold_left (fun acc part => bind acc (fun oi => bind (write_range (fst oi) (snd oi) (fst part))
                 (fun out' => Done (out', snd oi + length (fst part)))))
              ps (Done (map Some pre ++ repeat None n, length pre)) =
    Done (map Some (pre ++ concat (map fst ps)) ++ repeat None (n - length (concat (map fst ps))),
          length (pre ++ concat (map fst ps)))).
  { induction ps as [|p ps IH]; intros pre n H; cbn [fold_left map concat].
    - rewrite app_nil_r. cbn [length]. rewrite Nat.sub_0_r. reflexivity.
    - cbn [map concat] in H. rewrite app_length in H.
      cbn [bind fst snd]. rewrite write_range_app by lia. cbn [bind].
      replace (length pre + length (fst p)) with (length (pre ++ fst p)) by (rewrite app_length; reflexivity).
      rewrite IH by lia. rewrite <- app_assoc. rewrite !app_length.
      replace (n - length (fst p) - length (concat (map fst ps))) with (n - (length (fst p) + length (concat (map fst ps)))) by lia.
      reflexivity. }
  specialize (G parts [] (state_size S)). cbn [map app length] in G. rewrite G by lia. cbn [bind fst].
  rewrite Hlen, Nat.sub_diag. apply read_all_some.
Qed.

End Lookup.

(** the label test of the code as read ([in > StateSize]) lets the label 2^M through: one cell past StateBlockIndex *)
Theorem label_bound_refuted :
  exists (S : classification) (parts : list (hpart Z)) (q : nat),
    wf_class S /\ state_size S <= q /\
    getBlockNumber false S q = OOB /\ getEigenValue false Z S parts q = OOB.
Proof.
  exists (classification_of_blocks 1 [[0]; [1]]), [([5%Z], [[1%Z]]); ([7%Z], [[1%Z]])], 2.
  split; [|split; [cbn; lia | split; reflexivity]].
  split.
  - intros b states Hb. destruct b as [|[|b]]; cbn in Hb; try (destruct b; discriminate);
      inversion Hb; subst; repeat constructor; intros [].
  - intros b states s Hb Hs. destruct b as [|[|b]]; cbn in Hb; try (destruct b; discriminate);
      inversion Hb; subst; destruct Hs as [Hs|[]]; subst; cbn; split; (lia || reflexivity).
Qed.

(** * Part B: HamiltonianPart::prepare *)

Lemma state_of_nat_length : forall M n, length (state_of_nat M n) = M.
Proof. induction M as [|M IH]; intro n; cbn [state_of_nat length]; [reflexivity | rewrite IH; reflexivity]. Qed.

Lemma nat_of_state_of_nat : forall M n, n < Nat.pow 2 M -> nat_of_state (state_of_nat M n) = n.
Proof.
  induction M as [|M IH]; intros n H.
  - cbn in H. cbn. lia.
  - cbn [state_of_nat nat_of_state]. rewrite Nat.pow_succ_r' in H.
    pose proof (Nat.div2_odd n) as Hn. rewrite IH.
    + destruct (Nat.odd n); cbn [Nat.b2n] in Hn; lia.
    + destruct (Nat.odd n); cbn [Nat.b2n] in Hn; lia.
Qed.

Lemma nat_of_state_lt : forall s, nat_of_state s < Nat.pow 2 (length s).
Proof.
  induction s as [|b s IH]; cbn [nat_of_state length]; [cbn; lia|].
  rewrite Nat.pow_succ_r'. destruct b; lia.
Qed.

Section AssocLists.
Variable A : Type.

Fixpoint lookup (t : nat) (l : list (nat * A)) : option A :=
  match l with
  | [] => None
  | (t', c) :: r => if Nat.eqb t' t then Some c else lookup t r
  end.

Lemma lookup_none : forall t l, lookup t l = None <-> ~ In t (map fst l).
Proof.
  intros t l. induction l as [|[t' c] l IH]; cbn [lookup map fst In]; [tauto|].
  destruct (Nat.eqb t' t) eqn:E.
  - apply Nat.eqb_eq in E. split; [discriminate | intro H; exfalso; apply H; left; exact E].
  - apply Nat.eqb_neq in E. rewrite IH. tauto.
Qed.

Lemma lookup_some_in : forall t c l, lookup t l = Some c -> In (t, c) l.
Proof.
  intros t c l. induction l as [|[t' c'] l IH]; cbn [lookup In]; [discriminate|].
  destruct (Nat.eqb t' t) eqn:E.
  - apply Nat.eqb_eq in E. intro H; inversion H; subst. left; reflexivity.
  - intro H. right. apply IH. exact H.
Qed.

Lemma in_lookup_some : forall t c l, NoDup (map fst l) -> In (t, c) l -> lookup t l = Some c.
Proof.
  intros t c l. induction l as [|[t' c'] l IH]; cbn [lookup In map fst]; intros Hnd Hin; [destruct Hin|].
  inversion Hnd as [|? ? Hnot Hnd']; subst.
  destruct Hin as [Hin|Hin].
  - inversion Hin; subst. rewrite Nat.eqb_refl. reflexivity.
  - destruct (Nat.eqb t' t) eqn:E.
    + apply Nat.eqb_eq in E. subst t'. exfalso. apply Hnot. apply (in_map fst) in Hin. exact Hin.
    + apply IH; assumption.
Qed.

Lemma NoDup_map_fst_filter : forall (f : nat * A -> bool) (l : list (nat * A)),
  NoDup (map fst l) -> NoDup (map fst (filter f l)).
Proof.
  intros f l. induction l as [|x l IH]; cbn [map filter]; intro H; [constructor|].
  inversion H as [|? ? Hnot Hnd]; subst.
  destruct (f x); [|apply IH; exact Hnd].
  cbn [map]. constructor; [|apply IH; exact Hnd].
  intro Hin. apply Hnot. apply in_map_iff in Hin. destruct Hin as [y [Hy Hin]].
  apply filter_In in Hin. apply in_map_iff. exists y. tauto.
Qed.

End AssocLists.
Arguments lookup {A} t l.

Section Prepare.
Variable fb : bool.
Variable K : Type.
Variable NO : numops K.
Variable eps : K.
Notation "0" := (n0 K NO).
Notation kadd := (nadd K NO).
Notation kopp := (nopp K NO).
Notation PM := (fun M p t r => mget K NO (poly_matrix K NO M p) t r).

(** the algebraic facts used: 0 is neutral for +, and the zero test of Operator::actRight is exact *)
Hypothesis add0l : forall x, kadd 0 x = x.
Hypothesis addr0 : forall x, kadd x 0 = x.
Hypothesis is_zero_spec : forall x, is_zero K NO eps x = true <-> x = 0.

Definition lab (l : list (state * K)) : list (nat * K) := map (fun sc => (nat_of_state (fst sc), snd sc)) l.

Lemma lc_add_lookup : forall (l : list (state * K)) s c t,
  lookup t (lab (lc_add K kadd s c l)) =
  if Nat.eqb (nat_of_state s) t
  then Some (match lookup t (lab l) with Some c' => kadd c' c | None => c end)
  else lookup t (lab l).
Proof.
  induction l as [|[s' c'] l IH]; intros s c t.
  - cbn [lc_add lab map lookup fst snd]. reflexivity.
  - cbn [lc_add]. destruct (Nat.eqb (nat_of_state s) (nat_of_state s')) eqn:E.
    + apply Nat.eqb_eq in E. cbn [lab map lookup fst snd]. rewrite E.
      destruct (Nat.eqb (nat_of_state s') t); reflexivity.
    + cbn [lab map lookup fst snd]. fold (lab (lc_add K kadd s c l)). fold (lab l). rewrite IH.
      destruct (Nat.eqb (nat_of_state s') t) eqn:E1; [|reflexivity].
      apply Nat.eqb_eq in E1. subst t. rewrite E. reflexivity.
Qed.

Lemma lc_add_keys : forall (l : list (state * K)) s c t,
  In t (map fst (lab (lc_add K kadd s c l))) -> t = nat_of_state s \/ In t (map fst (lab l)).
Proof.
  intros l s c t H.
  destruct (in_dec Nat.eq_dec t (map fst (lab l))) as [Hi|Hn]; [right; exact Hi|].
  left. apply lookup_none in Hn.
  destruct (lookup t (lab (lc_add K kadd s c l))) as [x|] eqn:E.
  - rewrite lc_add_lookup in E. destruct (Nat.eqb (nat_of_state s) t) eqn:E1.
    + apply Nat.eqb_eq in E1. auto.
    + congruence.
  - apply lookup_none in E. contradiction.
Qed.

Lemma lc_add_nodup : forall (l : list (state * K)) s c,
  NoDup (map fst (lab l)) -> NoDup (map fst (lab (lc_add K kadd s c l))).
Proof.
  induction l as [|[s' c'] l IH]; intros s c H.
  - cbn. constructor; [intros []|constructor].
  - cbn [lc_add]. destruct (Nat.eqb (nat_of_state s) (nat_of_state s')) eqn:E.
    + cbn [lab map fst snd] in *. exact H.
    + cbn [lab map fst snd] in *. fold (lab l) in H. fold (lab (lc_add K kadd s c l)).
      inversion H as [|? ? Hnot Hnd]; subst. constructor; [|apply IH; exact Hnd].
      intro Hin. apply lc_add_keys in Hin. destruct Hin as [Hin|Hin]; [|contradiction].
      apply Nat.eqb_neq in E. congruence.
Qed.

(** accumulated coefficient [a] of the label [t] vs. the association list *)
Definition rel (t : nat) (l : list (state * K)) (a : K) : Prop :=
  lookup t (lab l) = Some a \/ (lookup t (lab l) = None /\ a = 0).

Definition pm_term (M : nat) (r t : nat) (mc : monomial * K) : K :=
  match mono_entry M (fst mc) r with
  | Some (sg, t') => if Nat.eqb t' t then (if sg then kopp (snd mc) else snd mc) else 0
  | None => 0
  end.

Lemma poly_matrix_entry : forall M p t r, t < Nat.pow 2 M -> r < Nat.pow 2 M ->
  PM M p t r = fold_left (fun acc mc => kadd acc (pm_term M r t mc)) p 0.
Proof.
  intros M p t r Ht Hr. unfold mget, poly_matrix.
  rewrite (nth_map_seq _ (Nat.pow 2 M) t []) by exact Ht.
  rewrite (nth_map_seq _ (Nat.pow 2 M) r 0) by exact Hr.
  reflexivity.
Qed.

Definition act_step (ket : state) (acc : outcome (list (state * K))) (mc : monomial * K) : outcome (list (state * K)) :=
  bind acc (fun l =>
    match act_mono (fst mc) ket with
    | Done (Some (sg, s')) => Done (lc_add K kadd s' (if sg then kopp (snd mc) else snd mc) l)
    | Done None => Done l
    | OOB => OOB | Uninit => Uninit | Throws c => Throws c | OutOfFuel => OutOfFuel
    end).

Lemma act_poly_fold : forall M r (p : poly K) (l0 : list (state * K)),
  poly_in_range K M p ->
  exists l, fold_left (act_step (state_of_nat M r)) p (Done l0) = Done l /\
    (NoDup (map fst (lab l0)) -> NoDup (map fst (lab l))) /\
    (forall t, In t (map fst (lab l)) -> In t (map fst (lab l0)) \/ t < Nat.pow 2 M) /\
    (forall t a0, rel t l0 a0 -> rel t l (fold_left (fun acc mc => kadd acc (pm_term M r t mc)) p a0)).
Proof.
  intros M r. induction p as [|[m c] p IH]; intros l0 Hr.
  - exists l0. cbn [fold_left]. repeat split; auto.
  - inversion Hr as [|? ? Hm Hp]; subst. cbn [fst] in Hm. cbn [fold_left].
    destruct (act_mono_in_range M m (state_of_nat M r) Hm (state_of_nat_length M r)) as [res Hres].
    unfold act_step at 2. cbn [bind fst snd]. rewrite Hres.
    destruct res as [[sg s']|].
    + destruct (IH (lc_add K kadd s' (if sg then kopp c else c) l0) Hp) as [l [Hl [Hnd [Hk Hrel]]]].
      exists l. split; [exact Hl|]. split; [intro H; apply Hnd; apply lc_add_nodup; exact H|]. split.
      * intros t Ht. destruct (Hk t Ht) as [Hin|Hlt]; [|right; exact Hlt].
        apply lc_add_keys in Hin. destruct Hin as [Hin|Hin]; [|left; exact Hin].
        right. subst t. pose proof (nat_of_state_lt s') as Hlt.
        rewrite (act_mono_length _ _ _ _ Hres), state_of_nat_length in Hlt. exact Hlt.
      * intros t a0 Ha. apply Hrel. unfold rel. rewrite lc_add_lookup.
        unfold pm_term, mono_entry. cbn [fst snd]. rewrite Hres.
        destruct (Nat.eqb (nat_of_state s') t) eqn:E.
        -- left. destruct Ha as [Ha|[Ha Hz]]; rewrite Ha; [reflexivity|]. subst a0. rewrite add0l. reflexivity.
        -- rewrite addr0. exact Ha.
    + destruct (IH l0 Hp) as [l [Hl [Hnd [Hk Hrel]]]].
      exists l. split; [exact Hl|]. split; [exact Hnd|]. split; [exact Hk|].
      intros t a0 Ha. assert (E : pm_term M r t (m, c) = 0).
      { unfold pm_term, mono_entry. cbn [fst]. rewrite Hres. reflexivity. }
      rewrite E, addr0. apply Hrel. exact Ha.
Qed.

(** sorting by label is a permutation *)
Lemma insert_sorted_perm : forall (e : nat * K) l, Permutation (insert_sorted K e l) (e :: l).
Proof.
  intros e l. induction l as [|x l IH]; cbn [insert_sorted]; [apply Permutation_refl|].
  destruct (fst e <=? fst x); [apply Permutation_refl|].
  eapply Permutation_trans; [apply perm_skip; exact IH | apply perm_swap].
Qed.
Lemma sort_by_label_perm : forall l, Permutation (sort_by_label K l) l.
Proof.
  induction l as [|x l IH]; cbn [sort_by_label fold_right]; [apply Permutation_refl|].
  eapply Permutation_trans; [apply insert_sorted_perm | apply perm_skip; exact IH].
Qed.

(** Operator::actRight(ket) as a map: its entries are exactly the non-zero entries of column [r] of the
    full Fock-space matrix *)
Lemma act_map_char : forall M (p : poly K) r, poly_in_range K M p -> r < Nat.pow 2 M ->
  exists entries, act_map K NO eps M p r = Done entries /\
    NoDup (map fst entries) /\
    (forall t c, In (t, c) entries -> t < Nat.pow 2 M /\ c = PM M p t r /\ c <> 0) /\
    (forall t, t < Nat.pow 2 M -> ~ In t (map fst entries) -> PM M p t r = 0).
Proof.
  intros M p r Hp Hr.
  destruct (act_poly_fold M r p [] Hp) as [l [Hl [Hnd [Hk Hrel]]]].
  assert (Hnd' : NoDup (map fst (lab l))) by (apply Hnd; constructor).
  assert (Hval : forall t, t < Nat.pow 2 M -> rel t l (PM M p t r)).
  { intros t Ht. rewrite poly_matrix_entry by assumption. apply Hrel. right. split; reflexivity. }
  set (nz := fun e : nat * K => negb (is_zero K NO eps (snd e))).
  exists (sort_by_label K (filter nz (lab l))).
  split.
  { unfold act_map, act_poly. change (fold_left _ p (Done [])) with (fold_left (act_step (state_of_nat M r)) p (Done [])).
    rewrite Hl. reflexivity. }
  pose proof (sort_by_label_perm (filter nz (lab l))) as Hperm.
  split.
  { eapply Permutation_NoDup; [apply Permutation_sym; apply Permutation_map; exact Hperm|].
    apply NoDup_map_fst_filter. exact Hnd'. }
  split.
  - intros t c Hin. apply (Permutation_in _ Hperm) in Hin. apply filter_In in Hin. destruct Hin as [Hin Hnz].
    assert (Ht : t < Nat.pow 2 M).
    { destruct (Hk t) as [[]|Hlt]; [|exact Hlt]. apply (in_map fst) in Hin. exact Hin. }
    split; [exact Ht|].
    apply in_lookup_some in Hin; [|exact Hnd'].
    split.
    + destruct (Hval t Ht) as [Hv|[Hv _]]; congruence.
    + intro Hc. unfold nz in Hnz. cbn [snd] in Hnz. apply (proj2 (is_zero_spec c)) in Hc. rewrite Hc in Hnz. discriminate.
  - intros t Ht Hnot.
    destruct (Hval t Ht) as [Hv|[_ Hv]]; [|exact Hv].
    apply lookup_some_in in Hv.
    destruct (is_zero K NO eps (PM M p t r)) eqn:Ez; [apply is_zero_spec; exact Ez|].
    exfalso. apply Hnot. apply (in_map fst) with (x := (t, PM M p t r)).
    apply (Permutation_in _ (Permutation_sym Hperm)). apply filter_In. split; [exact Hv|].
    unfold nz. cbn [snd]. rewrite Ez. reflexivity.
Qed.

(** writing the entries into a column *)
Lemma column_fold : forall (S : classification) b states, wf_class S -> nth_error (sc_states S) b = Some states ->
  forall (entries : list (nat * K)) (col0 : list K),
  length col0 = length states -> NoDup (map fst entries) ->
  (forall t c, In (t, c) entries -> In t states) ->
  exists col,
    fold_left (fun acc e => bind acc (fun col => bind (getInnerState fb S (fst e)) (fun left_st =>
                 match set_nth col left_st (snd e) with Some col' => Done col' | None => OOB end)))
              entries (Done col0) = Done col /\
    length col = length states /\
    forall i s, nth_error states i = Some s ->
      nth i col 0 = match lookup s entries with Some c => c | None => nth i col0 0 end.
Proof.
  intros S b states Hwf Hb. induction entries as [|[t c] entries IH]; intros col0 Hlen Hnd Hin.
  - exists col0. cbn [fold_left lookup]. auto.
  - cbn [fold_left bind fst snd].
    assert (Ht : In t states) by (apply (Hin t c); left; reflexivity).
    destruct (In_nth_error _ _ Ht) as [k Hk].
    rewrite (getInnerState_wf fb S b states k t Hwf Hb Hk). cbn [bind].
    assert (Hklt : k < length col0) by (rewrite Hlen; apply nth_error_Some; congruence).
    destruct (set_nth_some col0 k c Hklt) as [col1 Hset]. rewrite Hset.
    inversion Hnd as [|? ? Hnot Hnd']; subst.
    destruct (IH col1) as [col [Hf [Hl Hv]]].
    + rewrite (set_nth_length _ _ _ _ Hset). exact Hlen.
    + exact Hnd'.
    + intros t' c' H'. apply (Hin t' c'). right. exact H'.
    + exists col. split; [exact Hf|]. split; [exact Hl|].
      intros i s Hi. rewrite (Hv i s Hi). cbn [lookup].
      destruct (Nat.eqb t s) eqn:E.
      * apply Nat.eqb_eq in E. subst s.
        assert (Hnone : lookup t entries = None) by (apply lookup_none; exact Hnot). rewrite Hnone.
        rewrite (set_nth_nth _ _ _ _ i 0 Hset).
        assert (Hik : i = k).
        { destruct Hwf as [Hnodup _]. specialize (Hnodup b states Hb).
          apply (proj1 (NoDup_nth_error states) Hnodup); [apply nth_error_Some; congruence | congruence]. }
        subst i. rewrite Nat.eqb_refl. reflexivity.
      * destruct (lookup s entries); [reflexivity|].
        rewrite (set_nth_nth _ _ _ _ i 0 Hset).
        destruct (Nat.eqb i k) eqn:Eik; [|reflexivity].
        apply Nat.eqb_eq in Eik. subst i. apply Nat.eqb_neq in E. congruence.
Qed.

(** the partition is respected by the polynomial on block [states]: no matrix element leads out of it *)
Definition respects (M : nat) (p : poly K) (states : list nat) : Prop :=
  forall r t, In r states -> t < Nat.pow 2 M -> ~ In t states -> PM M p t r = 0.

Lemma hpart_column_char : forall (S : classification) (p : poly K) b states r,
  wf_class S -> poly_in_range K (sc_M S) p -> nth_error (sc_states S) b = Some states ->
  respects (sc_M S) p states -> In r states ->
  exists col, hpart_column fb K NO eps S p (length states) r = Done col /\
    length col = length states /\
    forall i s, nth_error states i = Some s -> nth i col 0 = PM (sc_M S) p s r.
Proof.
  intros S p b states r Hwf Hp Hb Hresp Hr.
  assert (Hrlt : r < Nat.pow 2 (sc_M S)) by (apply (proj2 Hwf b states r Hb Hr)).
  destruct (act_map_char (sc_M S) p r Hp Hrlt) as [entries [Hact [Hnd [Hin Hout]]]].
  unfold hpart_column. rewrite Hact. cbn [bind].
  destruct (column_fold S b states Hwf Hb entries (repeat 0 (length states))) as [col [Hf [Hl Hv]]].
  - apply repeat_length.
  - exact Hnd.
  - intros t c Htc. destruct (Hin t c Htc) as [Hlt [Hc Hnz]].
    destruct (in_dec Nat.eq_dec t states) as [Hi|Hn]; [exact Hi|].
    exfalso. apply Hnz. rewrite Hc. apply Hresp; assumption.
  - exists col. split; [exact Hf|]. split; [exact Hl|].
    intros i s Hi. rewrite (Hv i s Hi).
    assert (Hs : In s states) by (eapply nth_error_In; exact Hi).
    assert (Hslt : s < Nat.pow 2 (sc_M S)) by (apply (proj2 Hwf b states s Hb Hs)).
    destruct (lookup s entries) as [c|] eqn:El.
    + apply lookup_some_in in El. destruct (Hin s c El) as [_ [Hc _]]. exact Hc.
    + apply lookup_none in El. rewrite (Hout s Hslt El).
      apply nth_repeat.
Qed.

(** C03: for a partition the Hamiltonian respects, HamiltonianPart::prepare fills the block with the
    restriction of the full Fock-space matrix to the states of the block, without any out-of-bounds write *)
Theorem hpart_prepare_is_restriction : forall (S : classification) (p : poly K) b states,
  wf_class S -> poly_in_range K (sc_M S) p -> nth_error (sc_states S) b = Some states ->
  respects (sc_M S) p states ->
  hpart_prepare fb K NO eps S p b = Done (restrict K NO (poly_matrix K NO (sc_M S) p) states states).
Proof.
  intros S p b states Hwf Hp Hb Hresp.
  unfold hpart_prepare, getFockStates. rewrite Hb. cbn [bind].
  assert (Hcols : exists cols, outcome_map (hpart_column fb K NO eps S p (length states)) states = Done cols /\
            Forall2 (fun r col => length col = length states /\
                       forall i s, nth_error states i = Some s -> nth i col 0 = PM (sc_M S) p s r) states cols).
  { assert (G : forall sub, (forall r, In r sub -> In r states) ->
       exists cols, outcome_map (hpart_column fb K NO eps S p (length states)) sub = Done cols /\
            Forall2 (fun r col => length col = length states /\
                       forall i s, nth_error states i = Some s -> nth i col 0 = PM (sc_M S) p s r) sub cols).
    { induction sub as [|r sub IH]; intro Hsub.
      - exists []. split; [reflexivity | constructor].
      - destruct (hpart_column_char S p b states r Hwf Hp Hb Hresp (Hsub r (or_introl eq_refl))) as [col [Hc [Hl Hv]]].
        destruct IH as [cols [Hcs Hf]]; [intros x Hx; apply Hsub; right; exact Hx|].
        exists (col :: cols). cbn [outcome_map]. rewrite Hc. cbn [bind]. rewrite Hcs. cbn [bind].
        split; [reflexivity|]. constructor; [split; assumption | exact Hf]. }
    apply G. auto. }
  destruct Hcols as [cols [Hcs Hf]]. rewrite Hcs. cbn [bind]. f_equal.
  unfold rows_of_columns, restrict.
  transitivity (map (fun i => map (fun s => mget K NO (poly_matrix K NO (sc_M S) p) (nth i states 0%nat) s) states)
                    (seq 0 (length states))).
  2: { rewrite <- (map_map (fun i => nth i states 0%nat)
                          (fun t => map (fun s => mget K NO (poly_matrix K NO (sc_M S) p) t s) states)).
       rewrite map_nth_seq_id. reflexivity. }
  apply map_ext_in. intros i Hi. apply in_seq in Hi.
  assert (Hsi : nth_error states i = Some (nth i states 0%nat)) by (apply nth_error_nth'; lia).
  apply Forall2_map_eq. eapply Forall2_weaken; [|exact Hf].
  intros r col [_ Hv]. apply Hv. exact Hsi.
Qed.

End Prepare.

(** * Part C *)

Lemma state_of_nat_of_state : forall s, state_of_nat (length s) (nat_of_state s) = s.
Proof.
  induction s as [|b s IH]; [reflexivity|].
  cbn [length state_of_nat nat_of_state].
  assert (Hodd : Nat.odd ((if b then 1 else 0) + 2 * nat_of_state s) = b).
  { rewrite Nat.odd_add_mul_2. destruct b; reflexivity. }
  assert (Hdiv : Nat.div2 ((if b then 1 else 0) + 2 * nat_of_state s) = nat_of_state s).
  { destruct b; [apply (Nat.div2_succ_double (nat_of_state s)) | apply (Nat.div2_double (nat_of_state s))]. }
  rewrite Hodd, Hdiv, IH. reflexivity.
Qed.

(** <b| m |a> = sg   <->   <a| m^+ |b> = sg   on labels *)
Lemma mono_entry_adjoint_fwd : forall M m a b sg, a < Nat.pow 2 M ->
  mono_entry M m a = Some (sg, b) -> mono_entry M (mono_adjoint m) b = Some (sg, a).
Proof.
  intros M m a b sg Ha H. unfold mono_entry in *.
  destruct (act_mono m (state_of_nat M a)) as [[[sg' s']|]| | | |] eqn:E; try discriminate.
  inversion H; subst sg' b; clear H.
  assert (Hlen : length s' = M) by (rewrite (act_mono_length _ _ _ _ E); apply state_of_nat_length).
  rewrite <- Hlen at 1. rewrite state_of_nat_of_state.
  rewrite (proj1 (act_mono_adjoint m _ sg s') E).
  rewrite nat_of_state_of_nat by exact Ha. reflexivity.
Qed.

Lemma mono_entry_range : forall M m a sg b, mono_entry M m a = Some (sg, b) -> b < Nat.pow 2 M.
Proof.
  intros M m a sg b H. unfold mono_entry in H.
  destruct (act_mono m (state_of_nat M a)) as [[[sg' s']|]| | | |] eqn:E; try discriminate.
  inversion H; subst. pose proof (nat_of_state_lt s') as Hlt.
  rewrite (act_mono_length _ _ _ _ E), state_of_nat_length in Hlt. exact Hlt.
Qed.

Section Adjoint.
Variable K : Type.
Variable NO : numops K.
Notation "0" := (n0 K NO).
Notation "1" := (n1 K NO).
Notation kadd := (nadd K NO).

(** the Jordan-Wigner matrix of m^+ is the transpose of that of m (the entries are 0, 1, -1: real), for every
    monomial m; in particular  c_i = (c^+_i)^T  and  c^+_j c_i = (c^+_i c_j)^T *)
Theorem jw_matrix_adjoint : forall M (m : monomial) s t, s < Nat.pow 2 M -> t < Nat.pow 2 M ->
  mget K NO (poly_matrix K NO M [(mono_adjoint m, 1)]) s t = mget K NO (poly_matrix K NO M [(m, 1)]) t s.
Proof.
  intros M m s t Hs Ht.
  unfold mget, poly_matrix.
  rewrite (nth_map_seq _ (Nat.pow 2 M) s []) by exact Hs. rewrite (nth_map_seq _ (Nat.pow 2 M) t 0) by exact Ht.
  rewrite (nth_map_seq _ (Nat.pow 2 M) t []) by exact Ht. rewrite (nth_map_seq _ (Nat.pow 2 M) s 0) by exact Hs.
  unfold ksum. cbn [fold_left fst snd]. f_equal.
  destruct (mono_entry M (mono_adjoint m) t) as [[sg b]|] eqn:E1.
  - destruct (Nat.eqb b s) eqn:Eb.
    + apply Nat.eqb_eq in Eb. subst b. apply mono_entry_adjoint_fwd in E1; [|exact Ht].
      rewrite mono_adjoint_involutive in E1. rewrite E1, Nat.eqb_refl. reflexivity.
    + destruct (mono_entry M m s) as [[sg2 b2]|] eqn:E2; [|reflexivity].
      destruct (Nat.eqb b2 t) eqn:Eb2; [|reflexivity].
      apply Nat.eqb_eq in Eb2. subst b2. apply mono_entry_adjoint_fwd in E2; [|exact Hs].
      rewrite E2 in E1. inversion E1; subst. rewrite Nat.eqb_refl in Eb. discriminate.
  - destruct (mono_entry M m s) as [[sg2 b2]|] eqn:E2; [|reflexivity].
    destruct (Nat.eqb b2 t) eqn:Eb2; [|reflexivity].
    apply Nat.eqb_eq in Eb2. subst b2. apply mono_entry_adjoint_fwd in E2; [|exact Hs].
    rewrite E2 in E1. discriminate.
Qed.

Corollary jw_annihilation_is_transposed_creation : forall M i s t, s < Nat.pow 2 M -> t < Nat.pow 2 M ->
  mget K NO (op_matrix K NO M (cann i)) s t = mget K NO (op_matrix K NO M (cdag i)) t s.
Proof. intros M i s t Hs Ht. apply (jw_matrix_adjoint M [cdag i] s t Hs Ht). Qed.

(** pruning: a cell of the stored matrix is either the computed value, or 0 -- and then the computed value
    was not larger than |reference| * precision <= |reference| = MatrixElementTolerance *)
Notation ltb := (nre_ltb K NO).
Notation kabs := (nabs K NO).
Notation kmul := (nmul K NO).
Hypothesis le_trans : forall a b c, ltb b a = false -> ltb c b = false -> ltb c a = false.

Theorem pruning_bound : forall (reference prec : K) (m : mat K) i j,
  ltb (kabs reference) (kmul (kabs reference) prec) = false ->       (* |ref| * prec <= |ref|, i.e. prec <= 1 *)
  mget K NO (prune K NO reference prec m) i j = mget K NO m i j \/
  (mget K NO (prune K NO reference prec m) i j = 0 /\
   ltb (kmul (kabs reference) prec) (kabs (mget K NO m i j)) = false /\
   ltb (kabs reference) (kabs (mget K NO m i j)) = false).
Proof.
  intros reference prec m i j Hprec.
  set (f := fun x : K => if keep_entry K NO reference prec x then x else 0).
  assert (E : mget K NO (prune K NO reference prec m) i j = f (mget K NO m i j)).
  { unfold mget, prune. fold f.
    change (@nil K) with (map f []) at 1. rewrite map_nth.
    assert (H0 : f 0 = 0) by (unfold f; destruct (keep_entry K NO reference prec 0); reflexivity).
    rewrite <- H0 at 1. rewrite map_nth. reflexivity. }
  rewrite E. unfold f. destruct (keep_entry K NO reference prec (mget K NO m i j)) eqn:Ek; [left; reflexivity|].
  right. split; [reflexivity|]. unfold keep_entry in Ek. split; [exact Ek|].
  apply (le_trans _ (kmul (kabs reference) prec) _); [exact Ek | exact Hprec].
Qed.

(** FieldOperatorContainer::computeAll for one block pair: the annihilation part is the adjoint of the creation part *)
Theorem container_copy_is_adjoint : forall (ncols : nat -> nat) (l r : nat) (m : mat K),
  container_copy K NO ncols [(l, r)] [((l, r), m)] [(r, l)] = Done [((r, l), Some (adjoint K NO (ncols r) m))].
Proof.
  intros ncols l r m. unfold container_copy, assoc_right. cbn [fold_left map bind find fst snd].
  rewrite !Nat.eqb_refl. reflexivity.
Qed.

(** a missing annihilation part is an out-of-bounds access (find() == end() dereferenced) *)
Theorem container_copy_missing_part : forall (ncols : nat -> nat) (l r : nat) (m : mat K),
  container_copy K NO ncols [(l, r)] [((l, r), m)] [] = OOB.
Proof.
  intros ncols l r m. unfold container_copy, assoc_right. cbn [fold_left map bind find fst snd].
  rewrite Nat.eqb_refl. reflexivity.
Qed.

(** HamiltonianPart::compute on a 1x1 block: eigenvalue = the (real part of the) single entry, eigenvector = 1,
    whatever a solver would have returned *)
Theorem one_by_one_block : forall (kre : K -> K) (h : K) (solver : list K * mat K),
  hpart_compute K NO kre [[h]] solver = ([kre h], [[1]]).
Proof. reflexivity. Qed.

(** larger blocks: the solver's answer is passed through unchanged (it is certified per run, not proved) *)
Theorem larger_block_is_solver_output : forall (kre : K -> K) (H : mat K) (solver : list K * mat K),
  length H <> 1%nat -> hpart_compute K NO kre H solver = solver.
Proof.
  intros kre H solver Hn. unfold hpart_compute. apply Nat.eqb_neq in Hn. rewrite Hn. reflexivity.
Qed.

End Adjoint.

(** * The hypotheses are satisfiable: the integers, with the zero test |x| < 1 *)
Local Open Scope Z_scope.
Definition Zops : numops Z :=
  {| n0 := 0; n1 := 1; nadd := Z.add; nsub := Z.sub; nmul := Z.mul; ndiv := Z.div; nopp := Z.opp;
     nconj := fun x => x; nexp := fun x => x; nre_ltb := Z.ltb; nabs := Z.abs; nofZ := fun x => x; nI := 0 |}.

Example Z_add0l : forall x, nadd Z Zops (n0 Z Zops) x = x.
Proof. intro x. cbn. reflexivity. Qed.
Example Z_addr0 : forall x, nadd Z Zops x (n0 Z Zops) = x.
Proof. intro x. cbn. lia. Qed.
Example Z_is_zero_spec : forall x, is_zero Z Zops 1 x = true <-> x = n0 Z Zops.
Proof. intro x. unfold is_zero. cbn. rewrite Z.ltb_lt. lia. Qed.
Example Z_ltb_asym : forall a b, nre_ltb Z Zops a b = true -> nre_ltb Z Zops b a = false.
Proof. intros a b. cbn. rewrite Z.ltb_lt, Z.ltb_ge. lia. Qed.
Example Z_le_trans : forall a b c, nre_ltb Z Zops b a = false -> nre_ltb Z Zops c b = false -> nre_ltb Z Zops c a = false.
Proof. intros a b c. cbn. rewrite !Z.ltb_ge. lia. Qed.

(** H = 3 (c^+_0 c_1 + c^+_1 c_0) + 5 n_0 on two modes; labels: 0 = |00>, 1 = mode 0, 2 = mode 1, 3 = both *)
Definition ex_H : poly Z := [([cdag 0; cann 0], 5); ([cdag 0; cann 1], 3); ([cdag 1; cann 0], 3)].
(** the partition by particle number *)
Definition ex_S : classification := classification_of_blocks 2 [[0]; [1; 2]; [3]]%nat.

Example ex_prepare_N1 : hpart_prepare false Z Zops 1 ex_S ex_H 1 = Done [[5; 3]; [3; 0]].
Proof. vm_compute. reflexivity. Qed.

Example ex_wf : wf_class ex_S.
Proof.
  split.
  - intros b states Hb. destruct b as [|[|[|b]]]; cbn in Hb; try (destruct b; discriminate);
      inversion Hb; subst; repeat constructor; cbn; intuition lia.
  - intros b states s Hb Hs. destruct b as [|[|[|b]]]; cbn in Hb; try (destruct b; discriminate);
      inversion Hb; subst; cbn in Hs; destruct Hs as [Hs|Hs]; try (destruct Hs as [Hs|Hs]); try contradiction;
      subst; cbn; split; (lia || reflexivity).
Qed.

Example ex_in_range : poly_in_range Z 2 ex_H.
Proof. repeat constructor. Qed.

Example ex_respects : respects Z Zops 2 ex_H [1; 2]%nat.
Proof.
  intros r t Hr Ht Hn. cbn in Ht.
  assert (Hr' : r = 1%nat \/ r = 2%nat) by (cbn in Hr; intuition lia).
  assert (Ht' : t = 0%nat \/ t = 3%nat) by (cbn in Hn; lia).
  destruct Hr' as [-> | ->]; destruct Ht' as [-> | ->]; vm_compute; reflexivity.
Qed.

(** the theorem applied to the example: the block is the restriction of the 4 x 4 matrix *)
Example ex_prepare_by_theorem :
  hpart_prepare false Z Zops 1 ex_S ex_H 1 = Done (restrict Z Zops (poly_matrix Z Zops 2 ex_H) [1; 2]%nat [1; 2]%nat).
Proof.
  apply (hpart_prepare_is_restriction false Z Zops 1 Z_add0l Z_addr0 Z_is_zero_spec ex_S ex_H 1 [1; 2]%nat
           ex_wf ex_in_range eq_refl ex_respects).
Qed.

(** What the code does on a partition the Hamiltonian does NOT respect (every state its own block):
    the hopping term leads from state 1 to state 2, whose position in ITS block is 0, so the matrix
    element 3 overwrites the diagonal entry 5 -- a wrong cell, silently. *)
Theorem hpart_unsound_refuted :
  exists (S : classification) (b : nat) (states : list nat),
    wf_class S /\ nth_error (sc_states S) b = Some states /\
    exists H, hpart_prepare false Z Zops 1 S ex_H b = Done H /\
              H <> restrict Z Zops (poly_matrix Z Zops 2 ex_H) states states.
Proof.
  exists (classification_of_blocks 2 [[0]; [1]; [2]; [3]]%nat), 1%nat, [1%nat].
  split.
  { split.
    - intros b states Hb. destruct b as [|[|[|[|b]]]]; cbn in Hb; try (destruct b; discriminate);
        inversion Hb; subst; repeat constructor; cbn; intuition lia.
    - intros b states s Hb Hs. destruct b as [|[|[|[|b]]]]; cbn in Hb; try (destruct b; discriminate);
        inversion Hb; subst; cbn in Hs; destruct Hs as [Hs|Hs]; try contradiction;
        subst; cbn; split; (lia || reflexivity). }
  split; [reflexivity|].
  exists [[3]]. split; [vm_compute; reflexivity|]. vm_compute. intro H. inversion H.
Qed.

(** ... and when the position in the other block is not smaller than the size of this block, the write is
    outside the matrix *)
Theorem hpart_unsound_oob :
  hpart_prepare false Z Zops 1 (classification_of_blocks 2 [[1]; [0; 2]; [3]]%nat) ex_H 0 = OOB.
Proof. vm_compute. reflexivity. Qed.

Example ex_ground : computeGroundEnergy Z Zops [([4; 7], []); ([-2], []); ([0; 1; 9], [])] = Done (-2).
Proof. reflexivity. Qed.
Example ex_lookup : getEigenValue false Z ex_S [([10], []); ([20; 21], []); ([30], [])] 2 = Done 21.
Proof. reflexivity. Qed.
Example ex_concat : getEigenValues Z ex_S [([10], []); ([20; 21], []); ([30], [])] = Done [10; 20; 21; 30].
Proof. reflexivity. Qed.
Example ex_pruning_hyp : nre_ltb Z Zops (nabs Z Zops 8) (nmul Z Zops (nabs Z Zops 8) 1) = false.
Proof. reflexivity. Qed.

(** * Part D: the two loops of FieldOperatorPart::compute (C10)

    For a partition that the operator respects (the image of every state of the right block lies in the left block)
    the model of the two loops never leaves its arrays, and column k of LeftMat / row k of RightMat are given by the
    formulas that theories/Rotate.v takes as the definition of LeftMat and RightMat:
        LeftMat(n,k)  = conj(U_to(l_k, n)),   RightMat(k,m) = sign_k * U_from(k,m)      if O|K_k> = sign_k |L_(l_k)>
        LeftMat(.,k)  = 0,                    RightMat(k,.) = 0                         if O|K_k> = 0. *)
Local Close Scope Z_scope.

Section Rotation.
Variable fb : bool.
Variable K : Type.
Variable NO : numops K.
Variable eps : K.
Notation "0" := (n0 K NO).
Notation "1" := (n1 K NO).
Notation kadd := (nadd K NO).
Notation kmul := (nmul K NO).
Notation kopp := (nopp K NO).
Notation conj := (nconj K NO).
Notation ltb := (nre_ltb K NO).
Notation kabs := (nabs K NO).

(** the matrix elements +1 and -1 of a field operator pass both magnitude tests (|x| < eps is false, |x| > eps is true) *)
Hypothesis one_not_small : ltb (kabs 1) eps = false.
Hypothesis mone_not_small : ltb (kabs (kopp 1)) eps = false.
Hypothesis one_large : ltb eps (kabs 1) = true.
Hypothesis mone_large : ltb eps (kabs (kopp 1)) = true.

Definition fop_mono (o : fop) : monomial :=
  match o with FCdag i => [cdag i] | FC i => [cann i] | FQuad i j => [cdag i; cann j] end.

Lemma fop_poly_mono : forall o, fop_poly K NO o = [(fop_mono o, 1)].
Proof. intros [i|i|i j]; reflexivity. Qed.

(** O |Kst> = sign |L>  as (label of L, sign), or None *)
Definition tgt_of (M : nat) (o : fop) (Kst : nat) : option (nat * K) :=
  match act_mono (fop_mono o) (state_of_nat M Kst) with
  | Done (Some (sg, s')) => Some (nat_of_state s', if sg then kopp 1 else 1)
  | _ => None
  end.

Lemma act_map_fop : forall M o Kst, mono_in_range M (fop_mono o) ->
  act_map K NO eps M (fop_poly K NO o) Kst = Done (match tgt_of M o Kst with Some e => [e] | None => [] end).
Proof.
  intros M o Kst Hr. unfold act_map, act_poly, tgt_of. rewrite fop_poly_mono. cbn [fold_left bind fst snd].
  destruct (act_mono_in_range M (fop_mono o) (state_of_nat M Kst) Hr (state_of_nat_length M Kst)) as [res Hres].
  rewrite Hres. destruct res as [[sg s']|]; cbn [bind lc_add map fst snd filter]; [|reflexivity].
  unfold is_zero. destruct sg; cbn [snd]; [rewrite mone_not_small | rewrite one_not_small]; reflexivity.
Qed.

Lemma tgt_of_sign : forall M o Kst L sg, tgt_of M o Kst = Some (L, sg) -> ltb eps (kabs sg) = true.
Proof.
  intros M o Kst L sg H. unfold tgt_of in H.
  destruct (act_mono (fop_mono o) (state_of_nat M Kst)) as [[[s s']|]| | | |]; try discriminate.
  inversion H; subst. destruct s; assumption.
Qed.

Lemma mget_chk_done : forall (m : mat K) i j, i < length m -> j < length (nth i m []) ->
  mget_chk K m i j = Done (mget K NO m i j).
Proof.
  intros m i j Hi Hj. unfold mget_chk, mget.
  rewrite (nth_error_nth' m [] Hi). rewrite (nth_error_nth' (nth i m []) 0 Hj). reflexivity.
Qed.

Definition square (n : nat) (m : mat K) : Prop := length m = n /\ forall i, i < n -> length (nth i m []) = n.

Definition left_column (Hto : mat K) (nt l : nat) : list K := map (fun n => conj (mget K NO Hto l n)) (seq 0 nt).
Definition right_row (Hfrom : mat K) (nf k : nat) (sg : K) : list K := map (fun m => kmul sg (mget K NO Hfrom k m)) (seq 0 nf).

Theorem fop_fill_char : forall (S : classification) (o : fop) (from to : nat) (fromStates toStates : list nat) (Hfrom Hto : mat K),
  wf_class S -> mono_in_range (sc_M S) (fop_mono o) ->
  nth_error (sc_states S) from = Some fromStates -> nth_error (sc_states S) to = Some toStates ->
  square (length fromStates) Hfrom -> square (length toStates) Hto ->
  (* the operator respects the pair of blocks *)
  (forall Kst L sg, In Kst fromStates -> tgt_of (sc_M S) o Kst = Some (L, sg) -> In L toStates) ->
  exists Lc Rr,
    fop_fill fb K NO eps S o Hfrom Hto (length toStates) (length fromStates) fromStates = Done (Lc, Rr) /\
    length Lc = length fromStates /\ length Rr = length fromStates /\
    forall k Kst, nth_error fromStates k = Some Kst ->
      match tgt_of (sc_M S) o Kst with
      | Some (L, sg) => exists l, nth_error toStates l = Some L /\
                          nth k Lc [] = left_column Hto (length toStates) l /\
                          nth k Rr [] = right_row Hfrom (length fromStates) k sg
      | None => nth k Lc [] = repeat 0 (length toStates) /\ nth k Rr [] = repeat 0 (length fromStates)
      end.
Proof.
  intros S o from to fromStates toStates Hfrom Hto Hwf Hr Hf Ht [HfromL HfromR] [HtoL HtoR] Hresp.
  set (nt := length toStates) in *. set (nf := length fromStates) in *.
  (* generalised over the part of the right block already processed *)
  assert (G : forall (sub : list nat) (LR0 : list (list K) * list (list K)),
    (forall x, In x sub -> In x fromStates) -> NoDup sub ->
    length (fst LR0) = nf -> length (snd LR0) = nf ->
    exists LR,
      fold_left (fun acc Kst => bind acc (fun LR =>
        bind (act_map K NO eps (sc_M S) (fop_poly K NO o) Kst) (fun result1 =>
          match result1 with
          | [] => Done LR
          | (Lst, sign) :: _ =>
            if ltb eps (kabs sign) then
              bind (getInnerState fb S Lst) (fun l =>
              bind (getInnerState fb S Kst) (fun k =>
              bind (outcome_map (fun n => bind (mget_chk K Hto l n) (fun x => Done (conj x))) (seq 0 nt)) (fun lcol =>
              bind (outcome_map (fun m => bind (mget_chk K Hfrom k m) (fun x => Done (kmul sign x))) (seq 0 nf)) (fun rrow =>
                match set_nth (fst LR) k lcol, set_nth (snd LR) k rrow with
                | Some L', Some R' => Done (L', R')
                | _, _ => OOB
                end))))
            else Done LR
          end))) sub (Done LR0) = Done LR /\
      length (fst LR) = nf /\ length (snd LR) = nf /\
      forall k Kst, nth_error fromStates k = Some Kst ->
        match (if in_dec Nat.eq_dec Kst sub then tgt_of (sc_M S) o Kst else None) with
        | Some (L, sg) => exists l, nth_error toStates l = Some L /\
                            nth k (fst LR) [] = left_column Hto nt l /\ nth k (snd LR) [] = right_row Hfrom nf k sg
        | None => nth k (fst LR) [] = nth k (fst LR0) [] /\ nth k (snd LR) [] = nth k (snd LR0) []
        end).
  { induction sub as [|x sub IH]; intros LR0 Hsub Hnd HL0 HR0.
    - exists LR0. cbn [fold_left]. repeat split; auto.
    - cbn [fold_left bind]. rewrite (act_map_fop (sc_M S) o x Hr).
      assert (Hx : In x fromStates) by (apply Hsub; left; reflexivity).
      destruct (In_nth_error _ _ Hx) as [kx Hkx].
      assert (Hkxlt : kx < nf) by (apply nth_error_Some; congruence).
      inversion Hnd as [|? ? Hnotin Hnd']; subst.
      assert (Hsub' : forall y, In y sub -> In y fromStates) by (intros y Hy; apply Hsub; right; exact Hy).
      destruct (tgt_of (sc_M S) o x) as [[L sg]|] eqn:Etgt.
      + cbn [bind]. rewrite (tgt_of_sign _ _ _ _ _ Etgt).
        assert (HL : In L toStates) by (eapply Hresp; eauto).
        destruct (In_nth_error _ _ HL) as [l Hl].
        assert (Hllt : l < nt) by (apply nth_error_Some; congruence).
        rewrite (getInnerState_wf fb S to toStates l L Hwf Ht Hl). cbn [bind].
        rewrite (getInnerState_wf fb S from fromStates kx x Hwf Hf Hkx). cbn [bind].
        rewrite (outcome_map_all_done _ (fun n => conj (mget K NO Hto l n))).
        2: { intros n Hn. apply in_seq in Hn. rewrite mget_chk_done; [reflexivity | lia | rewrite HtoR; lia]. }
        cbn [bind].
        rewrite (outcome_map_all_done _ (fun m => kmul sg (mget K NO Hfrom kx m))).
        2: { intros m Hm. apply in_seq in Hm. rewrite mget_chk_done; [reflexivity | lia | rewrite HfromR; lia]. }
        cbn [bind].
        destruct (set_nth_some (fst LR0) kx (map (fun n => conj (mget K NO Hto l n)) (seq 0 nt))) as [L1 HL1]; [lia|].
        destruct (set_nth_some (snd LR0) kx (map (fun m => kmul sg (mget K NO Hfrom kx m)) (seq 0 nf))) as [R1 HR1]; [lia|].
        rewrite HL1, HR1.
        destruct (IH (L1, R1) Hsub' Hnd') as [LR [Hfold [HLl [HRl Hchar]]]].
        { cbn [fst]. rewrite (set_nth_length _ _ _ _ HL1). exact HL0. }
        { cbn [snd]. rewrite (set_nth_length _ _ _ _ HR1). exact HR0. }
        exists LR. split; [exact Hfold|]. split; [exact HLl|]. split; [exact HRl|].
        intros k Kst Hk. specialize (Hchar k Kst Hk).
        destruct (in_dec Nat.eq_dec Kst (x :: sub)) as [Hin|Hnin].
        * destruct (in_dec Nat.eq_dec Kst sub) as [Hin'|Hnin'].
          { destruct (tgt_of (sc_M S) o Kst) as [[L' sg']|]; [exact Hchar|].
            destruct Hchar as [HcL HcR]. cbn [fst snd] in HcL, HcR. rewrite HcL, HcR.
            assert (Hne : k <> kx).
            { intro; subst k. apply Hnotin. replace x with Kst by congruence. exact Hin'. }
            apply Nat.eqb_neq in Hne.
            rewrite (set_nth_nth _ _ _ _ k [] HL1), (set_nth_nth _ _ _ _ k [] HR1), Hne. split; reflexivity. }
          destruct Hin as [Hin|Hin]; [|contradiction]. subst Kst.
          assert (Hkk : k = kx).
          { apply (proj1 (NoDup_nth_error fromStates) (proj1 Hwf from fromStates Hf)); [apply nth_error_Some; congruence | congruence]. }
          subst k. rewrite Etgt. exists l. split; [exact Hl|].
          destruct Hchar as [HcL HcR]. cbn [fst snd] in HcL, HcR.
          rewrite HcL, HcR. rewrite (set_nth_nth _ _ _ _ kx [] HL1), (set_nth_nth _ _ _ _ kx [] HR1), Nat.eqb_refl.
          split; reflexivity.
        * destruct (in_dec Nat.eq_dec Kst sub) as [Hin'|Hnin']; [exfalso; apply Hnin; right; exact Hin'|].
          destruct Hchar as [HcL HcR]. cbn [fst snd] in HcL, HcR. rewrite HcL, HcR.
          assert (Hne : k <> kx).
          { intro; subst k. apply Hnin. left. congruence. }
          apply Nat.eqb_neq in Hne.
          rewrite (set_nth_nth _ _ _ _ k [] HL1), (set_nth_nth _ _ _ _ k [] HR1), Hne. split; reflexivity.
      + cbn [bind].
        destruct (IH LR0 Hsub' Hnd' HL0 HR0) as [LR [Hfold [HLl [HRl Hchar]]]].
        exists LR. split; [exact Hfold|]. split; [exact HLl|]. split; [exact HRl|].
        intros k Kst Hk. specialize (Hchar k Kst Hk).
        destruct (in_dec Nat.eq_dec Kst (x :: sub)) as [Hin|Hnin].
        * destruct (in_dec Nat.eq_dec Kst sub) as [Hin'|Hnin']; [exact Hchar|].
          destruct Hin as [Hin|Hin]; [|contradiction]. subst Kst. rewrite Etgt. exact Hchar.
        * destruct (in_dec Nat.eq_dec Kst sub) as [Hin'|Hnin']; [exfalso; apply Hnin; right; exact Hin'|]. exact Hchar. }
  destruct (G fromStates (repeat (repeat 0 nt) nf, repeat (repeat 0 nf) nf)) as [LR [Hfold [HLl [HRl Hchar]]]].
  - auto.
  - exact (proj1 Hwf from fromStates Hf).
  - apply repeat_length.
  - apply repeat_length.
  - exists (fst LR), (snd LR). unfold fop_fill. fold nt nf. rewrite Hfold. destruct LR as [Lc Rr]. cbn [fst snd] in *.
    split; [reflexivity|]. split; [exact HLl|]. split; [exact HRl|].
    intros k Kst Hk. specialize (Hchar k Kst Hk).
    assert (Hin : In Kst fromStates) by (eapply nth_error_In; exact Hk).
    destruct (in_dec Nat.eq_dec Kst fromStates) as [_|Hn]; [|contradiction].
    destruct (tgt_of (sc_M S) o Kst) as [[L sg]|]; [exact Hchar|].
    assert (Hklt : k < nf) by (apply nth_error_Some; congruence).
    destruct Hchar as [HcL HcR]. rewrite HcL, HcR. cbn [fst snd].
    split.
    + rewrite (nth_indep _ [] (repeat 0 nt)) by (rewrite repeat_length; exact Hklt). apply nth_repeat.
    + rewrite (nth_indep _ [] (repeat 0 nf)) by (rewrite repeat_length; exact Hklt). apply nth_repeat.
Qed.

End Rotation.

(** the magnitude hypotheses hold at the integers with eps = 0 < 1 (any 0 <= eps < 1 in an ordered field) *)
Example Z_one_tests :
  nre_ltb Z Zops (nabs Z Zops (n1 Z Zops)) 0%Z = false /\ nre_ltb Z Zops (nabs Z Zops (nopp Z Zops (n1 Z Zops))) 0%Z = false /\
  nre_ltb Z Zops 0%Z (nabs Z Zops (n1 Z Zops)) = true /\ nre_ltb Z Zops 0%Z (nabs Z Zops (nopp Z Zops (n1 Z Zops))) = true.
Proof. repeat split. Qed.

(** c^+_1 from the N = 1 block [1;2] to the N = 2 block [3] of two modes, eigenvectors = identity:
    c^+_1 |1> = -|3> (mode 0 occupied), c^+_1 |2> = 0 *)
Example ex_fop_fill :
  fop_fill false Z Zops 0%Z ex_S (FCdag 1) [[1; 0]; [0; 1]]%Z [[1]]%Z 1 2 [1; 2] = Done ([[1]; [0]]%Z, [[-1; 0]; [0; 0]]%Z).
Proof. vm_compute. reflexivity. Qed.

(** * Part E: the entries of the dense product LeftMat * RightMat of the model, as explicit sums
    (the bridge to the matrix statement Rotate.rotation_formula, completed in theories/RotateBridge.v) *)

Section DenseEntries.
Variable K : Type.
Variable NO : numops K.
Notation "0" := (n0 K NO).
Notation kadd := (nadd K NO).
Notation kmul := (nmul K NO).

Lemma transpose_aux_length : forall nc (m : mat K), length (transpose_aux K NO nc m) = nc.
Proof. induction nc as [|nc IH]; intro m; cbn [transpose_aux length]; [reflexivity | rewrite IH; reflexivity]. Qed.

Lemma transpose_nth : forall nc (m : mat K) n, n < nc ->
  nth n (transpose K NO nc m) [] = map (fun r => nth n r 0) m.
Proof.
  unfold transpose. induction nc as [|nc IH]; intros m n H; [lia|].
  cbn [transpose_aux]. destruct n as [|n]; cbn [nth].
  - apply map_ext. intros [|x r]; reflexivity.
  - rewrite IH by lia. rewrite map_map. apply map_ext. intros [|x r]; [destruct n; reflexivity | reflexivity].
Qed.

Lemma dot_maps : forall {A} (l : list A) (f g : A -> K),
  dot K NO (map f l) (map g l) = fold_left (fun acc x => kadd acc (kmul (f x) (g x))) l 0.
Proof.
  intros A l f g. unfold dot. generalize 0. induction l as [|x l IH]; intro a; [reflexivity|].
  cbn [map combine fold_left fst snd]. apply IH.
Qed.

Lemma mmul_entry : forall ncb (a b : mat K) i j, i < length a -> j < ncb ->
  mget K NO (mmul K NO ncb a b) i j = dot K NO (nth i a []) (map (fun r => nth j r 0) b).
Proof.
  intros ncb a b i j Hi Hj. unfold mget, mmul. cbv zeta.
  assert (Hbt : length (transpose K NO ncb b) = ncb) by (apply transpose_aux_length).
  rewrite <- (transpose_nth ncb b j Hj).
  generalize dependent (transpose K NO ncb b). intros bt Hbt.
  rewrite (nth_indep _ [] (map (fun c => dot K NO (nth 0 a []) c) bt)) by (rewrite map_length; exact Hi).
  rewrite (map_nth (fun r => map (fun c => dot K NO r c) bt) a (nth 0 a []) i).
  rewrite (nth_indep a (nth 0 a []) []) by exact Hi.
  rewrite (nth_indep _ 0 (dot K NO (nth i a []) [])).
  2: { rewrite map_length. unfold vec. rewrite Hbt. exact Hj. }
  rewrite (map_nth (fun c => dot K NO (nth i a []) c) bt [] j). reflexivity.
Qed.

(** entry (n, m) of  (columns Lc)^T-as-rows  *  (rows Rr)  is  sum_k Lc[k][n] * Rr[k][m] *)
Lemma columns_times_rows_entry : forall nt nf (Lc Rr : list (list K)) n m,
  length Lc = nf -> length Rr = nf -> n < nt -> m < nf ->
  mget K NO (mmul K NO nf (transpose K NO nt Lc) Rr) n m =
  fold_left (fun acc k => kadd acc (kmul (nth n (nth k Lc []) 0) (nth m (nth k Rr []) 0))) (seq 0 nf) 0.
Proof.
  intros nt nf Lc Rr n m HL HR Hn Hm.
  rewrite mmul_entry; [|unfold transpose; rewrite transpose_aux_length; exact Hn | exact Hm].
  rewrite transpose_nth by exact Hn.
  rewrite <- (map_nth_seq_id Lc []) at 1. rewrite <- (map_nth_seq_id Rr []) at 1.
  rewrite HL, HR, !map_map. apply dot_maps.
Qed.

End DenseEntries.

Lemma fold_left_add_ext_in : forall {K A} (add : K -> K -> K) (f g : A -> K) (l : list A) (a : K),
  (forall x, In x l -> f x = g x) ->
  fold_left (fun acc x => add acc (f x)) l a = fold_left (fun acc x => add acc (g x)) l a.
Proof.
  intros K A add f g l. induction l as [|x l IH]; intros a E; [reflexivity|].
  cbn [fold_left]. rewrite (E x) by (left; reflexivity). apply IH. intros y Hy. apply E. right. exact Hy.
Qed.

Lemma find_pos_lt : forall (l : list nat) s n0 n, find_pos l s n0 = Some n -> n < n0 + length l.
Proof.
  induction l as [|x l IH]; intros s n0 n H; cbn [find_pos] in H; [discriminate|].
  cbn [length]. destruct (Nat.eqb x s); [inversion H; lia|]. apply IH in H. lia.
Qed.

Section DenseRotation.
Variable fb : bool.
Variable K : Type.
Variable NO : numops K.
Variable eps : K.
Notation "0" := (n0 K NO).
Notation "1" := (n1 K NO).
Notation kadd := (nadd K NO).
Notation kmul := (nmul K NO).
Notation kopp := (nopp K NO).
Notation conj := (nconj K NO).
Notation ltb := (nre_ltb K NO).
Notation kabs := (nabs K NO).
Hypothesis one_not_small : ltb (kabs 1) eps = false.
Hypothesis mone_not_small : ltb (kabs (kopp 1)) eps = false.
Hypothesis one_large : ltb eps (kabs 1) = true.
Hypothesis mone_large : ltb eps (kabs (kopp 1)) = true.

(** LeftMat(n,k) and RightMat(k,m) as functions of the positions, for the k-th state of the right block *)
Definition lentry (M : nat) (o : fop) (fromStates toStates : list nat) (Hto : mat K) (k n : nat) : K :=
  match tgt_of K NO M o (nth k fromStates 0%nat) with
  | Some (L, sg) => match find_pos toStates L 0 with Some l => conj (mget K NO Hto l n) | None => 0 end
  | None => 0
  end.
Definition rentry (M : nat) (o : fop) (fromStates : list nat) (Hfrom : mat K) (k m : nat) : K :=
  match tgt_of K NO M o (nth k fromStates 0%nat) with
  | Some (L, sg) => kmul sg (mget K NO Hfrom k m)
  | None => 0
  end.

Theorem fop_dense_entries : forall (S : classification) (o : fop) (from to : nat) (fromStates toStates : list nat) (Hfrom Hto : mat K),
  wf_class S -> mono_in_range (sc_M S) (fop_mono o) ->
  nth_error (sc_states S) from = Some fromStates -> nth_error (sc_states S) to = Some toStates ->
  square K (length fromStates) Hfrom -> square K (length toStates) Hto ->
  (forall Kst L sg, In Kst fromStates -> tgt_of K NO (sc_M S) o Kst = Some (L, sg) -> In L toStates) ->
  exists D, fop_dense fb K NO eps S o from to Hfrom Hto = Done D /\
    forall n m, n < length toStates -> m < length fromStates ->
      mget K NO D n m =
      fold_left (fun acc k => kadd acc (kmul (lentry (sc_M S) o fromStates toStates Hto k n) (rentry (sc_M S) o fromStates Hfrom k m)))
                (seq 0 (length fromStates)) 0.
Proof.
  intros S o from to fromStates toStates Hfrom Hto Hwf Hr Hf Ht HsqF HsqT Hresp.
  destruct (fop_fill_char fb K NO eps one_not_small mone_not_small one_large mone_large
              S o from to fromStates toStates Hfrom Hto Hwf Hr Hf Ht HsqF HsqT Hresp) as [Lc [Rr [Hfill [HL [HR Hchar]]]]].
  unfold fop_dense, getFockStates. rewrite Ht, Hf. cbn [bind]. rewrite Hfill. cbn [bind fst snd].
  eexists. split; [reflexivity|].
  intros n m Hn Hm. rewrite (columns_times_rows_entry K NO (length toStates) (length fromStates) Lc Rr n m HL HR Hn Hm).
  assert (E : forall k, In k (seq 0 (length fromStates)) ->
            kmul (nth n (nth k Lc []) 0) (nth m (nth k Rr []) 0) =
            kmul (lentry (sc_M S) o fromStates toStates Hto k n) (rentry (sc_M S) o fromStates Hfrom k m)).
  { intros k Hk. apply in_seq in Hk.
    assert (Hkn : nth_error fromStates k = Some (nth k fromStates 0%nat)) by (apply nth_error_nth'; lia).
    specialize (Hchar k _ Hkn). unfold lentry, rentry.
    destruct (tgt_of K NO (sc_M S) o (nth k fromStates 0%nat)) as [[L sg]|].
    - destruct Hchar as [l [Hl [HcL HcR]]].
      rewrite (find_pos_nth toStates l L 0 (proj1 Hwf to toStates Ht) Hl). cbn [Nat.add].
      rewrite HcL, HcR. unfold left_column, right_row.
      rewrite (nth_map_seq _ (length toStates) n 0) by exact Hn.
      rewrite (nth_map_seq _ (length fromStates) m 0) by exact Hm. reflexivity.
    - destruct Hchar as [HcL HcR]. rewrite HcL, HcR, !nth_repeat. reflexivity. }
  apply fold_left_add_ext_in. exact E.
Qed.

End DenseRotation.

(** the Jordan-Wigner matrix of a field operator in terms of [tgt_of]: column r has its only non-zero entry, the sign,
    in the row of the image state *)
Lemma jw_entry_tgt : forall (K : Type) (NO : numops K) M (o : fop) t r, t < Nat.pow 2 M -> r < Nat.pow 2 M ->
  mget K NO (poly_matrix K NO M (fop_poly K NO o)) t r =
  nadd K NO (n0 K NO) (match tgt_of K NO M o r with
                       | Some (L, sg) => if Nat.eqb L t then sg else n0 K NO
                       | None => n0 K NO
                       end).
Proof.
  intros K NO M o t r Ht Hr. unfold mget, poly_matrix.
  rewrite (nth_map_seq _ (Nat.pow 2 M) t []) by exact Ht. rewrite (nth_map_seq _ (Nat.pow 2 M) r (n0 K NO)) by exact Hr.
  rewrite fop_poly_mono. unfold ksum. cbn [fold_left fst snd]. f_equal.
  unfold mono_entry, tgt_of.
  destruct (act_mono (fop_mono o) (state_of_nat M r)) as [[[sg s']|]| | | |]; reflexivity.
Qed.

Lemma find_pos_in : forall (l : list nat) s n0, In s l -> exists n, find_pos l s n0 = Some n.
Proof.
  induction l as [|x l IH]; intros s n0 H; [destruct H|].
  cbn [find_pos]. destruct (Nat.eqb x s) eqn:E; [eauto|].
  destruct H as [H|H]; [subst x; rewrite Nat.eqb_refl in E; discriminate | apply IH; exact H].
Qed.

Lemma find_pos_sound : forall (l : list nat) s n0 n, find_pos l s n0 = Some n -> nth_error l (n - n0) = Some s.
Proof.
  induction l as [|x l IH]; intros s n0 n H; cbn [find_pos] in H; [discriminate|].
  destruct (Nat.eqb x s) eqn:E.
  - inversion H; subst. apply Nat.eqb_eq in E. subst. rewrite Nat.sub_diag. reflexivity.
  - pose proof (IH s (S n0) n H) as H1.
    assert (Hlt : n0 < n).
    { clear -H. revert n0 n H. induction l as [|y l IHl]; intros n0 n H; cbn [find_pos] in H; [discriminate|].
      destruct (Nat.eqb y s); [inversion H; lia | apply IHl in H; lia]. }
    replace (n - n0) with (S (n - S n0)) by lia. exact H1.
Qed.

Lemma restrict_entry : forall (K : Type) (NO : numops K) (m : mat K) (rows cols : list nat) i j,
  i < length rows -> j < length cols ->
  mget K NO (restrict K NO m rows cols) i j = mget K NO m (nth i rows 0) (nth j cols 0).
Proof.
  intros K NO m rows cols i j Hi Hj. unfold restrict, mget at 1.
  rewrite (nth_indep _ [] (map (fun s => mget K NO m (nth 0 rows 0) s) cols)) by (rewrite map_length; exact Hi).
  rewrite (map_nth (fun t => map (fun s => mget K NO m t s) cols) rows (nth 0 rows 0) i).
  rewrite (nth_indep rows (nth 0 rows 0) 0) by exact Hi.
  rewrite (nth_indep _ (n0 K NO) (mget K NO m (nth i rows 0) (nth 0 cols 0))) by (rewrite map_length; exact Hj).
  rewrite (map_nth (fun s => mget K NO m (nth i rows 0) s) cols (nth 0 cols 0) j).
  rewrite (nth_indep cols (nth 0 cols 0) 0) by exact Hj. reflexivity.
Qed.

(** the hypotheses of [fop_fill_char] are satisfiable: c^+_1 from the N = 1 block [1;2] to the N = 2 block [3] of [ex_S] *)
Example ex_fop_fill_by_theorem :
  exists Lc Rr,
    fop_fill false Z Zops 0%Z ex_S (FCdag 1) [[1; 0]; [0; 1]]%Z [[1]]%Z 1 2 [1; 2] = Done (Lc, Rr) /\ length Lc = 2 /\ length Rr = 2.
Proof.
  destruct (fop_fill_char false Z Zops 0%Z (proj1 Z_one_tests) (proj1 (proj2 Z_one_tests))
              (proj1 (proj2 (proj2 Z_one_tests))) (proj2 (proj2 (proj2 Z_one_tests)))
              ex_S (FCdag 1) 1 2 [1; 2] [3] [[1; 0]; [0; 1]]%Z [[1]]%Z ex_wf) as [Lc [Rr [H [HL [HR _]]]]].
  - repeat constructor.
  - reflexivity.
  - reflexivity.
  - split; [reflexivity|]. intros i Hi. destruct i as [|[|i]]; [reflexivity | reflexivity | cbn in Hi; lia].
  - split; [reflexivity|]. intros i Hi. destruct i as [|i]; [reflexivity | cbn in Hi; lia].
  - intros Kst L sg HK. cbn in HK. destruct HK as [<-|[<-|[]]]; vm_compute; intro HH; inversion HH; auto.
  - exists Lc, Rr. auto.
Qed.
