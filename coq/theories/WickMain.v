(** C12 -- assembly for the two-mode free model H = e1 n_0 + e2 n_1:
    for ALL sixteen index quadruples and every regular point the specification's two-particle Green's
    function is the documented Wick part, hence the GENERATED Vertex4::value (PVgen.Gen_Vertex4) vanishes. *)
Require Import List Bool ZArith Field Arith Lia.
From PV Require Import Outcome Fock Poly EDSpec Matsubara4Spec Wick WickProofs.
From PV Require Import WickCase0101 WickCase0110 WickCase1010 WickCase1001 WickCaseDiag WickCaseZero WickCaseZeroB.
From PVgen Require Import Gen_Vertex4.
Import ListNotations.

Section Main.
Variable F : fsetting.
Notation K := (fK F).
Notation "0" := (f0 F). Notation "1" := (f1 F).
Infix "+" := (fadd F). Infix "*" := (fmul F). Infix "-" := (fsub F). Infix "/" := (fdiv F).
Notation "- x" := (fopp F x).
Notation NO := (FNum F).
Notation isz := (fisz F).
Add Field Ffield_Main : (fKf F).

(** chi = chi0 for every index quadruple *)
Theorem free_chi_is_chi0 : forall beta e1 e2 x1 x2 z1 z2 z3 i j k l,
  (i < 2)%nat -> (j < 2)%nat -> (k < 2)%nat -> (l < 2)%nat ->
  regular F e1 e2 x1 x2 z1 z2 z3 ->
  chi K NO beta (ftol F) (energies F [e1;e2]) (gibbs F [x1;x2]) (Cm F 2 i) (Cm F 2 j) (CXm F 2 k) (CXm F 2 l) z1 z2 z3 =
  chi0_free F [e1;e2] beta i j k l z1 z2 z3.
Proof.
  intros beta e1 e2 x1 x2 z1 z2 z3 i j k l Hi Hj Hk Hl Hreg.
  destruct i as [|[|i]]; [| |exfalso; lia]; (destruct j as [|[|j]]; [| |exfalso; lia]);
  (destruct k as [|[|k]]; [| |exfalso; lia]); (destruct l as [|[|l]]; [| |exfalso; lia]);
  match goal with
  | |- chi _ _ _ _ _ _ (Cm F 2 O) (Cm F 2 O) (CXm F 2 O) (CXm F 2 O) _ _ _ = _ => exact (free_chi_0000 F beta e1 e2 x1 x2 z1 z2 z3 Hreg)
  | |- chi _ _ _ _ _ _ (Cm F 2 O) (Cm F 2 O) (CXm F 2 O) (CXm F 2 (S O)) _ _ _ = _ =>
      rewrite (energies2 F), (gibbs2 F), (chi0_free_offdiag F) by reflexivity; exact (chi_0001_zero F _ _ _ _ _ _ _ _ _ _ _ _ _)
  | |- chi _ _ _ _ _ _ (Cm F 2 O) (Cm F 2 O) (CXm F 2 (S O)) (CXm F 2 O) _ _ _ = _ =>
      rewrite (energies2 F), (gibbs2 F), (chi0_free_offdiag F) by reflexivity; exact (chi_0010_zero F _ _ _ _ _ _ _ _ _ _ _ _ _)
  | |- chi _ _ _ _ _ _ (Cm F 2 O) (Cm F 2 O) (CXm F 2 (S O)) (CXm F 2 (S O)) _ _ _ = _ =>
      rewrite (energies2 F), (gibbs2 F), (chi0_free_offdiag F) by reflexivity; exact (chi_0011_zero F _ _ _ _ _ _ _ _ _ _ _ _ _)
  | |- chi _ _ _ _ _ _ (Cm F 2 O) (Cm F 2 (S O)) (CXm F 2 O) (CXm F 2 O) _ _ _ = _ =>
      rewrite (energies2 F), (gibbs2 F), (chi0_free_offdiag F) by reflexivity; exact (chi_0100_zero F _ _ _ _ _ _ _ _ _ _ _ _ _)
  | |- chi _ _ _ _ _ _ (Cm F 2 O) (Cm F 2 (S O)) (CXm F 2 O) (CXm F 2 (S O)) _ _ _ = _ => exact (free_chi_0101 F beta e1 e2 x1 x2 z1 z2 z3 Hreg)
  | |- chi _ _ _ _ _ _ (Cm F 2 O) (Cm F 2 (S O)) (CXm F 2 (S O)) (CXm F 2 O) _ _ _ = _ => exact (free_chi_0110 F beta e1 e2 x1 x2 z1 z2 z3 Hreg)
  | |- chi _ _ _ _ _ _ (Cm F 2 O) (Cm F 2 (S O)) (CXm F 2 (S O)) (CXm F 2 (S O)) _ _ _ = _ =>
      rewrite (energies2 F), (gibbs2 F), (chi0_free_offdiag F) by reflexivity; exact (chi_0111_zero F _ _ _ _ _ _ _ _ _ _ _ _ _)
  | |- chi _ _ _ _ _ _ (Cm F 2 (S O)) (Cm F 2 O) (CXm F 2 O) (CXm F 2 O) _ _ _ = _ =>
      rewrite (energies2 F), (gibbs2 F), (chi0_free_offdiag F) by reflexivity; exact (chi_1000_zero F _ _ _ _ _ _ _ _ _ _ _ _ _)
  | |- chi _ _ _ _ _ _ (Cm F 2 (S O)) (Cm F 2 O) (CXm F 2 O) (CXm F 2 (S O)) _ _ _ = _ => exact (free_chi_1001 F beta e1 e2 x1 x2 z1 z2 z3 Hreg)
  | |- chi _ _ _ _ _ _ (Cm F 2 (S O)) (Cm F 2 O) (CXm F 2 (S O)) (CXm F 2 O) _ _ _ = _ => exact (free_chi_1010 F beta e1 e2 x1 x2 z1 z2 z3 Hreg)
  | |- chi _ _ _ _ _ _ (Cm F 2 (S O)) (Cm F 2 O) (CXm F 2 (S O)) (CXm F 2 (S O)) _ _ _ = _ =>
      rewrite (energies2 F), (gibbs2 F), (chi0_free_offdiag F) by reflexivity; exact (chi_1011_zero F _ _ _ _ _ _ _ _ _ _ _ _ _)
  | |- chi _ _ _ _ _ _ (Cm F 2 (S O)) (Cm F 2 (S O)) (CXm F 2 O) (CXm F 2 O) _ _ _ = _ =>
      rewrite (energies2 F), (gibbs2 F), (chi0_free_offdiag F) by reflexivity; exact (chi_1100_zero F _ _ _ _ _ _ _ _ _ _ _ _ _)
  | |- chi _ _ _ _ _ _ (Cm F 2 (S O)) (Cm F 2 (S O)) (CXm F 2 O) (CXm F 2 (S O)) _ _ _ = _ =>
      rewrite (energies2 F), (gibbs2 F), (chi0_free_offdiag F) by reflexivity; exact (chi_1101_zero F _ _ _ _ _ _ _ _ _ _ _ _ _)
  | |- chi _ _ _ _ _ _ (Cm F 2 (S O)) (Cm F 2 (S O)) (CXm F 2 (S O)) (CXm F 2 O) _ _ _ = _ =>
      rewrite (energies2 F), (gibbs2 F), (chi0_free_offdiag F) by reflexivity; exact (chi_1110_zero F _ _ _ _ _ _ _ _ _ _ _ _ _)
  | |- chi _ _ _ _ _ _ (Cm F 2 (S O)) (Cm F 2 (S O)) (CXm F 2 (S O)) (CXm F 2 (S O)) _ _ _ = _ => exact (free_chi_1111 F beta e1 e2 x1 x2 z1 z2 z3 Hreg)
  end.
Qed.

(** Matsubara numbers: an injection zf of Z into the field (zf n = i (2n+1) pi / beta over C) *)
Variable zf : Z -> K.
Hypothesis zf_inj : forall n m, zf n - zf m = 0 -> n = m.

Lemma isz_zf : forall n m, isz (zf n - zf m) = Z.eqb n m.
Proof.
  intros n m. destruct (Z.eqb n m) eqn:E.
  - apply Z.eqb_eq in E. subst m. apply isz_true. ring.
  - apply isz_false. intro H. apply zf_inj in H. apply Z.eqb_neq in E. contradiction.
Qed.

(** the objects Vertex4 is built from, as functions of Matsubara numbers *)
Definition Chi4 (beta e1 e2 x1 x2 : K) (i j k l : nat) (n1 n2 n3 : Z) : K :=
  chi K NO beta (ftol F) (energies F [e1;e2]) (gibbs F [x1;x2]) (Cm F 2 i) (Cm F 2 j) (CXm F 2 k) (CXm F 2 l)
      (zf n1) (zf n2) (zf n3).
Definition Gmn (e1 e2 x1 x2 : K) (i j : nat) (n : Z) : K :=
  gf K NO (energies F [e1;e2]) (gibbs F [x1;x2]) (Cm F 2 i) (CXm F 2 j) (zf n).

Lemma Gmn_free : forall e1 e2 x1 x2 z2 z3 i j n, (i < 2)%nat -> (j < 2)%nat ->
  regular F e1 e2 x1 x2 (zf n) z2 z3 -> Gmn e1 e2 x1 x2 i j n = gfree F [e1;e2] i j (zf n).
Proof.
  intros e1 e2 x1 x2 z2 z3 i j n Hi Hj Hreg. unfold Gmn. destruct Hreg. now apply free_gf_diag_2.
Qed.

Lemma regular_swap12 : forall e1 e2 x1 x2 z1 z2 z3,
  regular F e1 e2 x1 x2 z1 z2 z3 -> z2 - e1 <> 0 /\ z2 - e2 <> 0 /\ 1 + x1 <> 0 /\ 1 + x2 <> 0.
Proof. intros e1 e2 x1 x2 z1 z2 z3 H. destruct H. repeat split; assumption. Qed.

(** chi is the documented chi0 (PV.Matsubara4Spec.chi0, doc/gamma4.tex) built from the specification's G *)
Theorem free_chi_is_documented_chi0 : forall beta e1 e2 x1 x2 i j k l n1 n2 n3,
  (i < 2)%nat -> (j < 2)%nat -> (k < 2)%nat -> (l < 2)%nat ->
  regular F e1 e2 x1 x2 (zf n1) (zf n2) (zf n3) ->
  Chi4 beta e1 e2 x1 x2 i j k l n1 n2 n3 =
  chi0 K 0 1 (fmul F) (fsub F) beta
       (Gmn e1 e2 x1 x2 i k) (Gmn e1 e2 x1 x2 j l) (Gmn e1 e2 x1 x2 i l) (Gmn e1 e2 x1 x2 j k) n1 n2 n3.
Proof.
  intros beta e1 e2 x1 x2 i j k l n1 n2 n3 Hi Hj Hk Hl Hreg.
  unfold Chi4. rewrite free_chi_is_chi0 by assumption.
  destruct (regular_swap12 _ _ _ _ _ _ _ Hreg) as [H21 [H22 [Hx1 Hx2]]].
  assert (G2 : forall a b, (a < 2)%nat -> (b < 2)%nat -> Gmn e1 e2 x1 x2 a b n2 = gfree F [e1;e2] a b (zf n2)).
  { intros a b Ha Hb. unfold Gmn. apply free_gf_diag_2; assumption. }
  unfold chi0, delta. cbv zeta. rewrite (Gmn_free e1 e2 x1 x2 (zf n2) (zf n3) i k n1), (Gmn_free e1 e2 x1 x2 (zf n2) (zf n3) i l n1) by assumption.
  rewrite (G2 j l), (G2 j k) by assumption.
  unfold chi0_free. rewrite !isz_zf.
  replace (n1 =? n1 + n2 - n3)%Z with (n2 =? n3)%Z.
  2:{ destruct (Z.eqb n2 n3) eqn:E1; symmetry; [apply Z.eqb_eq; apply Z.eqb_eq in E1; lia | apply Z.eqb_neq; apply Z.eqb_neq in E1; lia]. }
  replace (n2 =? n1 + n2 - n3)%Z with (n1 =? n3)%Z.
  2:{ destruct (Z.eqb n1 n3) eqn:E1; symmetry; [apply Z.eqb_eq; apply Z.eqb_eq in E1; lia | apply Z.eqb_neq; apply Z.eqb_neq in E1; lia]. }
  destruct (Z.eqb n2 n3), (Z.eqb n1 n3); ring.
Qed.

(** free_vertex_zero: the generated Vertex4::value vanishes *)
Theorem free_vertex_zero : forall beta e1 e2 x1 x2 i j k l n1 n2 n3,
  (i < 2)%nat -> (j < 2)%nat -> (k < 2)%nat -> (l < 2)%nat ->
  regular F e1 e2 x1 x2 (zf n1) (zf n2) (zf n3) ->
  vertex_value K (fadd F) (fsub F) (fmul F) beta (Chi4 beta e1 e2 x1 x2 i j k l)
     (Gmn e1 e2 x1 x2 i k) (Gmn e1 e2 x1 x2 j l) (Gmn e1 e2 x1 x2 i l) (Gmn e1 e2 x1 x2 j k) n1 n2 n3 = 0.
Proof.
  intros beta e1 e2 x1 x2 i j k l n1 n2 n3 Hi Hj Hk Hl Hreg.
  unfold vertex_value. unfold Chi4. rewrite free_chi_is_chi0 by assumption.
  destruct (regular_swap12 _ _ _ _ _ _ _ Hreg) as [H21 [H22 [Hx1 Hx2]]].
  assert (G2 : forall a b, (a < 2)%nat -> (b < 2)%nat -> Gmn e1 e2 x1 x2 a b n2 = gfree F [e1;e2] a b (zf n2)).
  { intros a b Ha Hb. unfold Gmn. apply free_gf_diag_2; assumption. }
  rewrite (Gmn_free e1 e2 x1 x2 (zf n2) (zf n3) i k n1), (Gmn_free e1 e2 x1 x2 (zf n2) (zf n3) i l n1) by assumption.
  rewrite (G2 j l), (G2 j k) by assumption.
  unfold chi0_free. rewrite !isz_zf.
  destruct (Z.eqb n2 n3), (Z.eqb n1 n3); ring.
Qed.
End Main.
