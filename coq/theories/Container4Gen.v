(** Container4Gen.v -- the functions of the hand-written model PV.Container4 rebuilt around the SOURCE TEXT of the tree under test (C13).

    translator/gen_container.py reads, on every run, each function of IndexContainer4 / ElementWithPermFreq
    (include/pomerol/IndexContainer4.h) and of TwoParticleGFContainer (src/pomerol/TwoParticleGFContainer.cpp) statement by statement and
    emits it as a Gallina function over abstract primitives (one generated file per C++ function):

      PVgen.Gen_C4Perms              gen_permutations4           src/pomerol/Misc.cpp: permutations4[24]
      PVgen.Gen_C4Eval               gen_eval                    ElementWithPermFreq::operator()
      PVgen.Gen_C4IsIn               gen_isInContainer           IndexContainer4::isInContainer
      PVgen.Gen_C4Enumerate          gen_enumerateInitialIndices IndexContainer4::enumerateInitialIndices
      PVgen.Gen_C4Fill               gen_fill                    IndexContainer4::fill
      PVgen.Gen_C4Set                gen_set                     IndexContainer4::set
      PVgen.Gen_C4Lookup             gen_lookup                  IndexContainer4::operator()(Indices)
      PVgen.Gen_C4CreateElement      gen_createElement           TwoParticleGFContainer::createElement
      PVgen.Gen_C4PrepareAll         gen_prepareAll              TwoParticleGFContainer::prepareAll
      PVgen.Gen_C4ComputeAll         gen_computeAll              TwoParticleGFContainer::computeAll
      PVgen.Gen_C4ComputeAllNosplit  gen_computeAll_nosplit      TwoParticleGFContainer::computeAll_nosplit
      PVgen.Gen_C4ComputeAllSplit    gen_split_maps, gen_computeAll_split   TwoParticleGFContainer::computeAll_split (the colour
                                                                 arithmetic itself is PVgen.Gen_SplitColors, imported there)

    Here the primitives are instantiated with the operations of PV.Container4 on its state ([cstate]: the two maps as sorted
    association lists, the store of elements with their status): the [..._src] functions.  What stays hand-written: std::map
    (qfind / qinsert), the status logic of TwoParticleGF (prepare_elem, compute_elem, the cases of TwoParticleGF::operator()), and the
    propagation of an exception out of a loop ([lift_step]: once an outcome other than OUnit is pending nothing further happens).
    PV.Container4GenProofs proves [..._src = model]; nothing is proved here. *)
Require Import ZArith Bool List Arith.
Import ListNotations.
From PVgen Require Import Gen_Container4 Gen_SplitColors.
From PVgen Require Import Gen_C4Perms Gen_C4Eval Gen_C4IsIn Gen_C4Enumerate Gen_C4Fill Gen_C4Set Gen_C4Lookup Gen_C4CreateElement
                          Gen_C4PrepareAll Gen_C4ComputeAll Gen_C4ComputeAllNosplit Gen_C4ComputeAllSplit.
From PV Require Import Container4 Container4Spec.
Local Open Scope Z_scope.

(** * Keys, the permutation table, entries *)

Definition mkquad (a b c d : nat) : quad := (a, b, c, d).                 (* IndexCombination4(.,.,.,.) *)
Definition perm_at_src (k : nat) : perm4 := nth k gen_permutations4 bad_perm.       (* permutations4[k] of THIS tree *)
Definition entry := (nat * perm4)%type.                                      (* ElementWithPermFreq: (pElement, FrequenciesPermutation) *)
Definition mkentry_src (e k : nat) : entry := (e, perm_at_src k).

(** * ElementWithPermFreq::operator() *)

(** the permuted triple and the sign factor, for the statements about an abstract chi (PV.Container4Spec.entry_denotes) *)
Definition perm_eval_src (p : perm4) (n : triple) : Z * triple :=
  let '(n1, n2, n3) := n in
  gen_eval (Z * triple) (fun a b c => (1, (a, b, c))) (pnth p) (snd p) (fun s v => (s * fst v, snd v)) n1 n2 n3.

(** TwoParticleGF::operator()(long,long,long) of element [e] (hand-written cases, as PV.Container4.eval_elem), value with sign 1 *)
Definition elem_value (van : quad -> bool) (el : estore) (e : nat) (a b c : Z) : cout :=
  match nth_error el e with
  | None => OThrows Dangling
  | Some (q0, Constructed) => OZero 1
  | Some (q0, Prepared) => if van q0 then OVal 1 q0 (a, b, c) else OThrows UncomputedPart
  | Some (q0, Computed) => OVal 1 q0 (a, b, c)
  end.

(** value * RealType(sign) on symbolic outcomes *)
Definition scale_out (s : Z) (o : cout) : cout :=
  match o with
  | OVal s' q t => OVal (s * s') q t
  | OZero s' => OZero (s * s')
  | _ => o
  end.

Definition eval_elem_src (van : quad -> bool) (el : estore) (r : entry) (n : triple) : cout :=
  let '(n1, n2, n3) := n in
  gen_eval cout (elem_value van el (fst r)) (pnth (snd r)) (snd (snd r)) scale_out n1 n2 n3.

(** * IndexContainer4 *)

Definition emap_count (st : cstate) (q : quad) : nat :=                       (* ElementsMap.count(q) *)
  match qfind q (emap st) with Some _ => 1%nat | None => 0%nat end.

Definition isInContainer_src (st : cstate) (q : quad) : bool := gen_isInContainer cstate quad emap_count st q.

(** the quadruple whose TwoParticleGF createElement builds: (index of C1, of C2, of CX3, of CX4) *)
Definition created_quad_src (q : quad) : quad :=
  gen_createElement quad nat nat quad sel (fun i => i) (fun i => i) mkquad q.

Definition create_src (st : cstate) (q : quad) : cstate * nat :=
  (mkState (emap st) (nontriv st) (elems st ++ [(created_quad_src q, Constructed)]), length (elems st)).

(** ElementsMap.insert(pair(k, v)): no effect when the key is present; .first points to the entry stored under k afterwards *)
Definition emap_insert (st : cstate) (k : quad) (v : entry) : cstate * entry :=
  let em := qinsert k v (emap st) in
  (mkState em (nontriv st) (elems st), match qfind k em with Some r => r | None => v end).

Definition nontriv_insert (st : cstate) (k : quad) (e : nat) : cstate :=
  mkState (emap st) (qinsert k e (nontriv st)) (elems st).

Definition set_src (st : cstate) (q : quad) : cstate * entry :=
  gen_set cstate quad nat entry sel mkquad create_src mkentry_src emap_insert nontriv_insert isInContainer_src st q.

Definition iter_is_end (o : option entry) : bool := match o with None => true | Some _ => false end.
Definition iter_second (o : option entry) : entry := match o with Some r => r | None => (0%nat, bad_perm) end.

Definition lookup_src (st : cstate) (q : quad) : cstate * entry :=
  gen_lookup cstate quad entry (option entry) (fun st k => qfind k (emap st)) iter_is_end iter_second isInContainer_src set_src st q.

Definition enumerate_src (nidx : nat) : list quad := gen_enumerateInitialIndices quad mkquad qset_of_list nidx.

Definition clear_emap (st : cstate) : cstate := mkState [] (nontriv st) (elems st).
Definition clear_nontriv (st : cstate) : cstate := mkState (emap st) [] (elems st).

(** [ii]: the std::set passed in (sorted, without repetitions) *)
Definition fill_set_src (nidx : nat) (st : cstate) (ii : list quad) : cstate :=
  gen_fill cstate quad entry clear_emap clear_nontriv (enumerate_src nidx) isInContainer_src set_src ii st.

Definition fill_src (nidx : nat) (st : cstate) (qs : list quad) : cstate := fill_set_src nidx st (qset_of_list qs).

(** * TwoParticleGFContainer *)

(** container state with a pending outcome: an exception leaves every loop and function *)
Definition xstate := (cstate * cout)%type.

Definition lift_step (f : nat -> estore -> estore * cout) (e : nat) (x : xstate) : xstate :=
  match snd x with
  | OUnit => let '(el, o) := f e (elems (fst x)) in (with_elems (fst x) el, o)
  | _ => x
  end.

Definition xemap (x : xstate) : list (quad * entry) := emap (fst x).
Definition xnontriv (x : xstate) : list (quad * nat) := nontriv (fst x).
Definition entry_elem (r : entry) : nat := fst r.                                 (* ElementWithPermFreq::operator ElementType&() *)

Definition prepare_all_src (nidx : nat) (st : cstate) (qs : list quad) : cstate * cout :=
  gen_prepareAll xstate quad nat entry (fun ii x => (fill_set_src nidx (fst x) ii, snd x)) xemap xnontriv entry_elem
                 (fun _ _ x => x) (lift_step prepare_elem) (qset_of_list qs) (st, OUnit).

Definition compute_all_nosplit_src (st : cstate) : cstate * cout :=
  gen_computeAll_nosplit xstate quad nat entry unit unit xemap xnontriv entry_elem
                         (fun _ e x => (lift_step compute_elem e x, tt)) (fun _ _ x => x) tt (st, OUnit).

(** chi.setStatus(TwoParticleGF::Computed) *)
Definition set_status_src (e : nat) (x : xstate) : xstate :=
  match snd x with
  | OUnit => (with_elems (fst x) (match nth_error (elems (fst x)) e with
                                  | Some (q, _) => upd e (q, Computed) (elems (fst x))
                                  | None => elems (fst x)
                                  end), OUnit)
  | _ => x
  end.

(** computeAll_split as seen by rank [rank] of [P]; [np e] = parts.size() of element e.  Collectives and the tables move no status
    of this rank's objects except the marks of the distribution loop. *)
Definition compute_all_split_src (P rank : Z) (np : nat -> Z) (st : cstate) : cstate * cout :=
  gen_computeAll_split xstate quad nat entry unit unit xemap xnontriv entry_elem P rank false tt (fun _ => tt) (fun _ x => x)
                       (fun _ e x => (lift_step compute_elem e x, tt)) (fun _ _ x => x) (fun _ _ x => x) (fun _ _ => tt) (fun _ _ => tt) tt
                       (fun e _ => np e) (fun _ _ _ _ _ x => x) (fun _ d _ x => (x, d)) set_status_src (fun _ _ x => x) (st, OUnit).

(** computeAll(false, freqs, comm, split) on a single rank *)
Definition compute_all_src (np : nat -> Z) (st : cstate) (split : bool) : cstate * cout :=
  gen_computeAll cstate (cstate * cout) (compute_all_split_src 1 0 np) compute_all_nosplit_src split st.

(** * One call, histories *)

Definition cstep_src (van : quad -> bool) (nidx : nat) (np : nat -> Z) (st : cstate) (op : cop) : cstate * cout :=
  match op with
  | Fill qs => (fill_src nidx st qs, OUnit)
  | PrepareAll qs => prepare_all_src nidx st qs
  | ComputeAll split => compute_all_src np st split
  | Lookup q => (fst (lookup_src st q), OUnit)
  | PrepareElem q =>
    let '(st1, r) := lookup_src st q in
    let '(el, o) := prepare_elem (fst r) (elems st1) in (with_elems st1 el, o)
  | ComputeElem q =>
    let '(st1, r) := lookup_src st q in
    let '(el, o) := compute_elem (fst r) (elems st1) in (with_elems st1 el, o)
  | Eval q n =>
    let '(st1, r) := lookup_src st q in
    (st1, eval_elem_src van (elems st1) r n)
  end.

Definition rstep_src (van : quad -> bool) (nidx : nat) (np : nat -> Z) (sg : cstate * gmap) (op : cop) : cstate * gmap :=
  let '(st', o) := cstep_src van nidx np (fst sg) op in (st', gstep (snd sg) op st' o).

(** state and caller's view after a history, starting from a freshly constructed container *)
Definition run_src (van : quad -> bool) (nidx : nat) (np : nat -> Z) (ops : list cop) : cstate * gmap :=
  fold_left (rstep_src van nidx np) ops (init, []).

Definition eval_out_src (van : quad -> bool) (nidx : nat) (np : nat -> Z) (st : cstate) (q : quad) (n : triple) : cout :=
  snd (cstep_src van nidx np st (Eval q n)).

(** * The colour maps of computeAll_split *)

Definition split_proc_color (P ncomponents p : Z) : Z := gen_zm_get (fst (fst (gen_split_maps P ncomponents))) p.
Definition split_elem_color (P ncomponents i : Z) : Z := gen_zm_get (snd (fst (gen_split_maps P ncomponents))) i.
(** int sender = color_roots[elem_colors[comp]] *)
Definition split_sender (P ncomponents comp : Z) : Z :=
  gen_zm_get (snd (gen_split_maps P ncomponents)) (split_elem_color P ncomponents comp).

(** * Reading aids for the statements of PV.Container4GenProofs / props/Properties_C13_source.v (nothing below is executed) *)

(** one alias block: if (c) { if (!isInContainer(k)) ElementsMap.insert(pair(k, (e, permutations4[idx]))); } *)
Definition alias_block (e : nat) (c : bool) (k : quad) (idx : nat) (st : cstate) : cstate :=
  if c then (if negb (isInContainer_src st k) then fst (emap_insert st k (mkentry_src e idx)) else st) else st.

Definition maps3 := (gen_zmap * gen_zmap * gen_zmap)%type.

(** loop over the ranks: proc_colors[p] = colour of p; color_roots[colour] = p unless the colour has a root already *)
Definition root_body (f : Z -> Z) (m : maps3) (i : Z) : maps3 :=
  let '(pc, ec, cr) := m in
  (gen_zm_set pc i (f i), ec, if negb (gen_zm_count cr (f i)) then gen_zm_set cr (f i) i else cr).
(** loop over the components: elem_colors[i] = colour of component i *)
Definition elem_body (g : Z -> Z) (m : maps3) (i : Z) : maps3 :=
  let '(pc, ec, cr) := m in (pc, gen_zm_set ec i (g i), cr).

(** what rank [rank] of [P] does in the two loops of the generated computeAll_split, in terms of the colour maps:
    the computation loop computes the components of this rank's colour on the split communicator; the distribution loop marks
    every part-carrying component Computed on the ranks other than the sender *)
Definition split_compute_body (P rank n : Z) (x : xstate) (ckv : Z * (quad * nat)) : xstate :=
  if Z.eqb (split_elem_color P n (fst ckv)) (split_proc_color P n rank) then lift_step compute_elem (snd (snd ckv)) x else x.

Definition split_distribute_body (P rank n : Z) (np : nat -> Z) (x : xstate) (ckv : Z * (quad * nat)) : xstate :=
  fold_left (fun x _ => if negb (Z.eqb rank (split_sender P n (fst ckv))) then set_status_src (snd (snd ckv)) x else x)
            (gen_zrange 0 (np (snd (snd ckv)))) x.

(** an entry (element for q0, permutation p) stored under key q returns chi q -- with the generated operator() *)
Definition entry_denotes_src (V : Type) (vscale : Z -> V -> V) (chi : quad -> triple -> V) (p : perm4) (q0 q : quad) : Prop :=
  forall n, vscale (fst (perm_eval_src p n)) (chi q0 (snd (perm_eval_src p n))) = chi q n.

(** element [e] of the store is Computed *)
Definition computed_in (el : estore) (e : nat) : Prop := exists q, nth_error el e = Some (q, Computed).
