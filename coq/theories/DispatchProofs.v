(** DispatchProofs.v -- invariants, deadlock freedom, progress measure, final state and rounds for
    the dispatcher model of Dispatch.v.  Everything is proved for an arbitrary number of jobs, ranks,
    rounds and for every interleaving (induction over event lists); nothing here is bounded. *)
Require Import List Arith Bool PeanoNat Lia.
From PV Require Import Dispatch.
Import ListNotations.

Arguments upd : simpl never.

(** * Basics *)

Lemma upd_same : forall A (f : nat -> A) k v, upd f k v k = v.
Proof. intros A f k v. unfold upd. rewrite Nat.eqb_refl. reflexivity. Qed.

Lemma upd_other : forall A (f : nat -> A) k v x, x <> k -> upd f k v x = f x.
Proof. intros A f k v x H. unfold upd. destruct (Nat.eqb_spec x k) as [E|E]; [contradiction|reflexivity]. Qed.

Definition memb (w : nat) (l : list nat) : bool := existsb (Nat.eqb w) l.

Lemma memb_In : forall w l, memb w l = true <-> In w l.
Proof.
  intros w l. unfold memb. rewrite existsb_exists. split.
  - intros [x [Hx He]]. apply Nat.eqb_eq in He. subst. exact Hx.
  - intros H. exists w. split; [exact H|apply Nat.eqb_refl].
Qed.

Lemma memb_false : forall w l, memb w l = false <-> ~ In w l.
Proof.
  intros w l. rewrite <- memb_In. destruct (memb w l); split; intros H; congruence.
Qed.

Lemma memb_cons_other : forall w x l, w <> x -> memb w (x :: l) = memb w l.
Proof. intros w x l H. unfold memb. simpl. destruct (Nat.eqb_spec w x); [contradiction|reflexivity]. Qed.

Lemma memb_cons_same : forall w l, memb w (w :: l) = true.
Proof. intros. unfold memb. simpl. rewrite Nat.eqb_refl. reflexivity. Qed.

(** counting *)
Lemma cnt_app : forall j a b, cnt j (a ++ b) = cnt j a + cnt j b.
Proof. intros j a b. induction a as [|x a IH]; simpl; [reflexivity|rewrite IH; lia]. Qed.

Lemma cnt_pos_In : forall j l, 0 < cnt j l <-> In j l.
Proof.
  intros j l. induction l as [|x l IH]; simpl.
  - split; [lia|tauto].
  - destruct (Nat.eqb_spec x j) as [E|E].
    + split; [intros _; left; exact E|lia].
    + rewrite <- IH. split; [intros H; right; lia|intros [H|H]; [contradiction|lia]].
Qed.

Lemma cnt_zero_notIn : forall j l, cnt j l = 0 <-> ~ In j l.
Proof. intros j l. rewrite <- cnt_pos_In. lia. Qed.

Lemma cnt_NoDup : forall j l, NoDup l -> cnt j l <= 1.
Proof.
  intros j l H. induction H as [|x l Hx Hl IH]; simpl; [lia|].
  destruct (Nat.eqb_spec x j) as [E|E]; [|lia].
  subst. apply cnt_zero_notIn in Hx. lia.
Qed.

Lemma cnt_NoDup_In : forall j l, NoDup l -> In j l -> cnt j l = 1.
Proof.
  intros j l Hn Hi. pose proof (cnt_NoDup j l Hn). apply cnt_pos_In in Hi. lia.
Qed.

Lemma NoDup_of_cnt : forall l, (forall j, cnt j l <= 1) -> NoDup l.
Proof.
  induction l as [|x l IH]; intros H; constructor.
  - intros Hi. apply cnt_pos_In in Hi. specialize (H x). simpl in H. rewrite Nat.eqb_refl in H. lia.
  - apply IH. intros j. specialize (H j). simpl in H. lia.
Qed.

(** sums over a list of ranks *)
Fixpoint sumf (f : nat -> nat) (l : list nat) : nat :=
  match l with [] => 0 | x :: l' => f x + sumf f l' end.

Lemma sumf_ext : forall f g l, (forall x, In x l -> g x = f x) -> sumf g l = sumf f l.
Proof.
  intros f g l. induction l as [|x l IH]; intros H; simpl; [reflexivity|].
  rewrite H by (left; reflexivity). rewrite IH; [reflexivity|]. intros y Hy. apply H. right. exact Hy.
Qed.

Lemma sumf_change : forall f g l w, NoDup l -> In w l ->
  (forall x, In x l -> x <> w -> g x = f x) -> sumf g l + f w = sumf f l + g w.
Proof.
  intros f g l w Hn. induction Hn as [|x l Hx Hl IH]; intros Hi H; simpl; [destruct Hi|].
  destruct Hi as [E|Hi].
  - subst x. rewrite (sumf_ext f g l); [lia|].
    intros y Hy. apply H; [right; exact Hy|]. intros E. subst. contradiction.
  - assert (x <> w) by (intros E; subst; contradiction).
    rewrite (H x) by (auto; left; reflexivity).
    specialize (IH Hi). rewrite <- Nat.add_assoc. rewrite IH; [lia|].
    intros y Hy Hne. apply H; [right; exact Hy|exact Hne].
Qed.

Lemma sumf_zero : forall f l, (forall x, In x l -> f x = 0) -> sumf f l = 0.
Proof.
  intros f l. induction l as [|x l IH]; intros H; simpl; [reflexivity|].
  rewrite H by (left; reflexivity). rewrite IH; [reflexivity|]. intros y Hy. apply H. right. exact Hy.
Qed.

Lemma sumf_zero_inv : forall f l x, sumf f l = 0 -> In x l -> f x = 0.
Proof.
  intros f l x. induction l as [|y l IH]; simpl; intros H Hi; [destruct Hi|].
  destruct Hi as [E|Hi]; [subst; lia|apply IH; [lia|exact Hi]].
Qed.

(** the worker pool *)
Lemma pool_NoDup : forall c, NoDup (pool c).
Proof. intros c. unfold pool. destruct (ib c); apply seq_NoDup. Qed.

Lemma ranks_NoDup : forall c, NoDup (ranks c).
Proof. intros c. apply seq_NoDup. Qed.

Lemma in_ranks : forall c r, In r (ranks c) <-> r < np c.
Proof. intros c r. unfold ranks. rewrite in_seq. lia. Qed.

Lemma in_pool : forall c w, In w (pool c) <-> is_worker c w = true.
Proof.
  intros c w. unfold pool, is_worker. destruct (ib c); rewrite in_seq; simpl.
  - rewrite andb_true_r. rewrite Nat.ltb_lt. lia.
  - rewrite andb_true_iff, Nat.ltb_lt, negb_true_iff, Nat.eqb_neq. lia.
Qed.

Lemma pool_lt : forall c w, In w (pool c) -> w < np c.
Proof. intros c w H. apply in_pool in H. unfold is_worker in H. apply andb_true_iff in H. destruct H as [H _]. apply Nat.ltb_lt. exact H. Qed.

Lemma not_pool : forall c r, r < np c -> ~ In r (pool c) -> r = 0 /\ ib c = false.
Proof.
  intros c r Hr Hn. rewrite in_pool in Hn. unfold is_worker in Hn.
  apply Nat.ltb_lt in Hr. rewrite Hr in Hn. simpl in Hn.
  destruct (ib c); simpl in Hn; [congruence|].
  destruct (Nat.eqb_spec r 0); simpl in Hn; [tauto|congruence].
Qed.

Lemma is_worker_false_pool : forall c r, is_worker c r = false -> ~ In r (pool c).
Proof. intros c r H Hi. apply in_pool in Hi. congruence. Qed.

Lemma valid_pool_nonempty : forall c, valid_cfg c = true -> exists w, In w (pool c).
Proof.
  intros c H. unfold valid_cfg, nprocs in H. destruct (pool c) as [|w l]; simpl in H; [discriminate|].
  exists w. left. reflexivity.
Qed.

Lemma valid_np_pos : forall c, valid_cfg c = true -> 0 < np c.
Proof. intros c H. destruct (valid_pool_nonempty c H) as [w Hw]. apply pool_lt in Hw. lia. Qed.

(** * The invariant *)

(** The protocol state of the link between the master and one worker of the pool:
      (on WorkerStack?, completion receive active?, Finish sent?, link contents, worker status,
       posting order, rank left the loop?)                                                       *)
Inductive link_shape : bool -> bool -> bool -> list msg -> wstat -> bool -> bool -> Prop :=
| LIdle     : forall po,    link_shape true  false false []          Pending  po    false
| LSent     : forall j,     link_shape false true  false [MWork j]   Pending  false false
| LWork     : forall j,     link_shape false true  false []          (Work j) true  false
| LDone     :               link_shape false true  false [MPend]     Pending  true  false
| LFinSent  : forall po,    link_shape true  false true  [MFinish]   Pending  po    false
| LFinished : forall po ex, link_shape true  false true  []          Finish   po    ex.

Definition link_ok (s : sys) (w : wid) : Prop :=
  link_shape (memb w (wstack s)) (outst s w) (wfin s w) (chan s w) (wst s w) (pend_older s w) (exited s w).

Definition msg_jobs (m : msg) : list job := match m with MWork j => [j] | _ => [] end.
Definition st_jobs (st : wstat) : list job := match st with Work j => [j] | _ => [] end.

(** jobs in flight to, or running on, worker w *)
Definition active (s : sys) (w : wid) : list job := st_jobs (wst s w) ++ flat_map msg_jobs (chan s w).

Definition on_stack (j : job) (s : sys) : nat := cnt j (jobstack s).
Definition in_flight (c : cfg) (j : job) (s : sys) : nat := sumf (fun w => cnt j (active s w)) (pool c).
Definition executed (j : job) (s : sys) : nat := cnt j (map fst (log s)).

Record Inv (c : cfg) (s : sys) : Prop := mkInv {
  inv_links : forall w, In w (pool c) -> link_ok s w;
  inv_ws_nodup : NoDup (wstack s);
  inv_ws_pool : forall w, In w (wstack s) -> In w (pool c);
  inv_jobs_nodup : NoDup (alljobs s);
  inv_cons : forall j, on_stack j s + in_flight c j s + executed j s = cnt j (alljobs s);
  inv_dmap_active : forall w j, In w (pool c) -> In j (active s w) -> dmap s j = Some w;
  inv_dmap_log : forall j w, In (j, w) (log s) -> dmap s j = Some w /\ In w (pool c);
  inv_dmap_dom : forall j w, dmap s j = Some w -> In j (alljobs s);
  inv_fin : (forall w, In w (pool c) -> wfin s w = false) \/
            ((forall w, In w (pool c) -> wfin s w = true) /\ jobstack s = []);
  inv_outside : forall w, ~ In w (pool c) -> chan s w = [];
  inv_exit_root : exited s 0 = true -> forall w, In w (pool c) -> wfin s w = true;
  inv_err : err s = false
}.

(** initial states, pointwise (no functional extensionality needed) *)
Definition is_init (c : cfg) (js : list job) (s : sys) : Prop :=
  jobstack s = js /\ wstack s = pool c /\ (forall w, outst s w = false) /\ (forall w, wfin s w = false) /\
  (forall j, dmap s j = None) /\ alljobs s = js /\ (forall w, wst s w = Pending) /\
  (forall w, chan s w = []) /\ (forall w, exited s w = false) /\ log s = [] /\ err s = false.

Lemma init_is_init : forall c js, is_init c js (init c js).
Proof. intros c js. unfold is_init, init, fresh; simpl. repeat split; reflexivity. Qed.

Lemma inv_of_init : forall c js s, NoDup js -> is_init c js s -> Inv c s.
Proof.
  intros c js s Hn (Hj & Hw & Ho & Hf & Hd & Ha & Hs & Hc & He & Hl & Her).
  constructor.
  - intros w Hi. unfold link_ok. rewrite Hw, Ho, Hf, Hc, Hs, He.
    assert (M : memb w (pool c) = true) by (apply memb_In; exact Hi). rewrite M. constructor.
  - rewrite Hw. apply pool_NoDup.
  - rewrite Hw. auto.
  - rewrite Ha. exact Hn.
  - intros j. unfold on_stack, in_flight, executed. rewrite Hj, Ha, Hl. simpl.
    rewrite sumf_zero; [lia|]. intros w _. unfold active. rewrite Hs, Hc. reflexivity.
  - intros w j _ Hi. unfold active in Hi. rewrite Hs, Hc in Hi. destruct Hi.
  - intros j w Hi. rewrite Hl in Hi. destruct Hi.
  - intros j w Hi. rewrite Hd in Hi. discriminate.
  - left. intros w _. apply Hf.
  - intros w _. apply Hc.
  - intros Hx. rewrite He in Hx. discriminate.
  - exact Her.
Qed.

(** * Helper lemmas for preservation *)

Lemma link_frame : forall s s' w,
  memb w (wstack s') = memb w (wstack s) -> outst s' w = outst s w -> wfin s' w = wfin s w ->
  chan s' w = chan s w -> wst s' w = wst s w -> pend_older s' w = pend_older s w ->
  exited s' w = exited s w -> link_ok s w -> link_ok s' w.
Proof. intros s s' w H1 H2 H3 H4 H5 H6 H7 H. unfold link_ok in *. rewrite H1, H2, H3, H4, H5, H6, H7. exact H. Qed.

Lemma active_frame : forall s s' w, wst s' w = wst s w -> chan s' w = chan s w -> active s' w = active s w.
Proof. intros s s' w H1 H2. unfold active. rewrite H1, H2. reflexivity. Qed.

Lemma in_flight_change : forall c s s' w j, In w (pool c) ->
  (forall x, In x (pool c) -> x <> w -> active s' x = active s x) ->
  in_flight c j s' + cnt j (active s w) = in_flight c j s + cnt j (active s' w).
Proof.
  intros c s s' w j Hi H. unfold in_flight.
  apply (sumf_change (fun x => cnt j (active s x)) (fun x => cnt j (active s' x)) (pool c) w (pool_NoDup c) Hi).
  intros x Hx Hne. rewrite H by assumption. reflexivity.
Qed.

Lemma in_flight_same : forall c s s' j,
  (forall x, In x (pool c) -> active s' x = active s x) -> in_flight c j s' = in_flight c j s.
Proof. intros c s s' j H. unfold in_flight. apply sumf_ext. intros x Hx. rewrite H by assumption. reflexivity. Qed.

Lemma sumf_ge : forall f l w, In w l -> f w <= sumf f l.
Proof.
  intros f l w. induction l as [|x l IH]; simpl; intros H; [destruct H|].
  destruct H as [E|H]; [subst; lia|specialize (IH H); lia].
Qed.

Lemma active_in_flight : forall c s w j, In w (pool c) -> In j (active s w) -> 1 <= in_flight c j s.
Proof.
  intros c s w j Hw Hj. unfold in_flight. apply cnt_pos_In in Hj.
  pose proof (sumf_ge (fun x => cnt j (active s x)) (pool c) w Hw) as H. simpl in H. lia.
Qed.

Lemma log_executed : forall s j w, In (j, w) (log s) -> 1 <= executed j s.
Proof.
  intros s j w H. unfold executed. apply (in_map fst) in H. simpl in H. apply cnt_pos_In in H. lia.
Qed.

Lemma stack_on_stack : forall s j, In j (jobstack s) -> 1 <= on_stack j s.
Proof. intros s j H. unfold on_stack. apply cnt_pos_In in H. lia. Qed.

Lemma cons_le1 : forall c s j, Inv c s -> on_stack j s + in_flight c j s + executed j s <= 1.
Proof. intros c s j I. rewrite (inv_cons c s I). apply cnt_NoDup. apply (inv_jobs_nodup c s I). Qed.

Ltac upds :=
  repeat first [ rewrite upd_same | rewrite upd_other by congruence ].

(** a worker on the stack while jobs remain is idle *)
Lemma stack_worker_idle : forall c s w, Inv c s -> In w (wstack s) -> wfin s w = false ->
  outst s w = false /\ chan s w = [] /\ wst s w = Pending /\ exited s w = false.
Proof.
  intros c s w I Hi Hf. pose proof (inv_links c s I w (inv_ws_pool c s I w Hi)) as L.
  unfold link_ok in L. apply memb_In in Hi. rewrite Hi, Hf in L. inversion L; subst. repeat split; congruence.
Qed.

(** * Preservation: order() *)

Lemma inv_order_one : forall c s j0 js w0 ws, Inv c s -> jobstack s = j0 :: js -> wstack s = w0 :: ws ->
  Inv c (order_worker w0 j0 (set_stacks js ws s)).
Proof.
  intros c s j0 js w0 ws I Hj Hw.
  assert (Hw0 : In w0 (wstack s)) by (rewrite Hw; left; reflexivity).
  assert (Hp0 : In w0 (pool c)) by (apply (inv_ws_pool c s I); exact Hw0).
  assert (Hnf : forall w, In w (pool c) -> wfin s w = false).
  { destruct (inv_fin c s I) as [H|[_ H]]; [exact H|rewrite Hj in H; discriminate]. }
  destruct (stack_worker_idle c s w0 I Hw0 (Hnf w0 Hp0)) as (Ho & Hc & Hs & He).
  pose proof (inv_ws_nodup c s I) as Hnd. rewrite Hw in Hnd. inversion Hnd as [|x l Hnot Hnd']; subst x l.
  assert (Hon : 1 <= on_stack j0 s) by (apply stack_on_stack; rewrite Hj; left; reflexivity).
  assert (Act0 : active (order_worker w0 j0 (set_stacks js ws s)) w0 = [j0]).
  { unfold active; simpl. upds. rewrite Hs, Hc. reflexivity. }
  assert (Act : forall x, x <> w0 -> active (order_worker w0 j0 (set_stacks js ws s)) x = active s x).
  { intros x Hx. apply active_frame; simpl; upds; reflexivity. }
  assert (Act0s : active s w0 = []).
  { unfold active. rewrite Hs, Hc. reflexivity. }
  constructor; simpl.
  - intros w Hi. destruct (Nat.eq_dec w w0) as [E|E].
    + subst w. unfold link_ok; simpl. upds. rewrite Hc, Hs, He, (Hnf w0 Hp0).
      apply memb_false in Hnot. rewrite Hnot. simpl. constructor.
    + apply (link_frame s); simpl; upds; try reflexivity.
      * rewrite Hw. symmetry. apply memb_cons_other. exact E.
      * apply (inv_links c s I). exact Hi.
  - exact Hnd'.
  - intros w Hi. apply (inv_ws_pool c s I). rewrite Hw. right. exact Hi.
  - apply (inv_jobs_nodup c s I).
  - intros j. pose proof (inv_cons c s I j) as C.
    pose proof (in_flight_change c s (order_worker w0 j0 (set_stacks js ws s)) w0 j Hp0) as F.
    rewrite Act0, Act0s in F. simpl in F.
    unfold on_stack in *. simpl. rewrite Hj in C. simpl in C.
    unfold executed in *. simpl.
    rewrite <- C. specialize (F (fun x _ Hx => Act x Hx)). lia.
  - intros w j Hi Ha. destruct (Nat.eq_dec w w0) as [E|E].
    + subst w. rewrite Act0 in Ha. destruct Ha as [Ha|[]]. subst j. upds. reflexivity.
    + rewrite Act in Ha by exact E.
      assert (j <> j0).
      { intros Ej. subst j. pose proof (active_in_flight c s w j0 Hi Ha). pose proof (cons_le1 c s j0 I). lia. }
      upds. apply (inv_dmap_active c s I); assumption.
  - intros j w Hi.
    assert (j <> j0).
    { intros Ej. subst j. pose proof (log_executed s j0 w Hi). pose proof (cons_le1 c s j0 I). lia. }
    upds. apply (inv_dmap_log c s I). exact Hi.
  - intros j w. destruct (Nat.eq_dec j j0) as [E|E].
    + subst j. intros _. apply cnt_pos_In. rewrite <- (inv_cons c s I). lia.
    + upds. apply (inv_dmap_dom c s I).
  - left. exact Hnf.
  - intros w Hn. assert (w <> w0) by (intros E; subst; contradiction). upds. apply (inv_outside c s I). exact Hn.
  - apply (inv_exit_root c s I).
  - rewrite (inv_err c s I), Ho. reflexivity.
Qed.

Lemma inv_order_loop : forall c js ws s, Inv c s -> jobstack s = js -> wstack s = ws ->
  Inv c (order_loop js ws s).
Proof.
  intros c js. induction js as [|j js IH]; intros ws s I Hj Hw; simpl; [exact I|].
  destruct ws as [|w ws]; [exact I|].
  apply IH; [|reflexivity|reflexivity].
  apply inv_order_one; assumption.
Qed.

Lemma inv_order : forall c s, Inv c s -> Inv c (do_order s).
Proof. intros c s I. unfold do_order. apply inv_order_loop; [exact I|reflexivity|reflexivity]. Qed.

(** * Case analysis on the shape of a link *)

Ltac shapes s w L :=
  let L' := fresh "L" in
  pose proof L as L'; unfold link_ok in L';
  let a1 := fresh "a" in let a2 := fresh "a" in let a3 := fresh "a" in let a4 := fresh "a" in
  let a5 := fresh "a" in let a6 := fresh "a" in let a7 := fresh "a" in
  remember (memb w (wstack s)) as a1 eqn:Em in L';
  remember (outst s w) as a2 eqn:Eo in L';
  remember (wfin s w) as a3 eqn:Ef in L';
  remember (chan s w) as a4 eqn:Ec in L';
  remember (wst s w) as a5 eqn:Es in L';
  remember (pend_older s w) as a6 eqn:Ep in L';
  remember (exited s w) as a7 eqn:Ee in L';
  destruct L'; symmetry in Em, Eo, Ef, Ec, Es, Ep, Ee.

(** the master's completion receive can complete only in shape LDone *)
Lemma pend_match_shape : forall s w l, link_ok s w -> outst s w = true -> pend_match s w = Some l ->
  l = [] /\ chan s w = [MPend] /\ wst s w = Pending /\ memb w (wstack s) = false /\ wfin s w = false /\
  exited s w = false /\ pend_older s w = true.
Proof.
  intros s w l L Ho Hm. shapes s w L; try congruence;
    unfold pend_match, wildcard_posted in Hm; rewrite Ec, Ep, Es in Hm;
    destruct (shared w); simpl in Hm; try discriminate.
  - inversion Hm. repeat split; congruence.
  - inversion Hm. repeat split; congruence.
Qed.

(** the worker's wildcard receive can complete only in shapes LSent (with the Work message) and LFinSent
    (with the Finish message); in particular never with a completion report *)
Lemma wild_match_shape : forall s w m l, link_ok s w -> wst s w = Pending -> wild_match s w = Some (m, l) ->
  l = [] /\ exited s w = false /\
  ((exists j, m = MWork j /\ chan s w = [MWork j] /\ memb w (wstack s) = false /\ outst s w = true /\ wfin s w = false) \/
   (m = MFinish /\ chan s w = [MFinish] /\ memb w (wstack s) = true /\ outst s w = false /\ wfin s w = true)).
Proof.
  intros s w m l L Hs Hm. shapes s w L; try congruence;
    unfold wild_match in Hm; rewrite Ec, Eo, Ep in Hm;
    destruct (shared w); simpl in Hm; try discriminate; inversion Hm; subst; split; try reflexivity; split; trivial.
  - left. exists j. repeat split; congruence.
  - left. exists j. repeat split; congruence.
  - right. repeat split; congruence.
  - right. repeat split; congruence.
Qed.

(** * Preservation: check_workers() *)

Lemma inv_see : forall c s w s', Inv c s -> In w (pool c) -> see w s = Some s' -> Inv c s'.
Proof.
  intros c s w s' I Hp Hsee. unfold see in Hsee.
  destruct (outst s w) eqn:Ho; [|discriminate].
  destruct (pend_match s w) as [l|] eqn:Hm; [|discriminate].
  inversion Hsee as [Hs']; clear Hsee.
  destruct (pend_match_shape s w l (inv_links c s I w Hp) Ho Hm) as (El & Hc & Hs & Hmem & Hf & He & Hpo).
  subst l.
  assert (Act : forall x, active s' x = active s x).
  { intros x. subst s'. unfold active; simpl. destruct (Nat.eq_dec x w) as [E|E].
    - subst x. upds. rewrite Hc. reflexivity.
    - upds. reflexivity. }
  constructor.
  - intros x Hx. destruct (Nat.eq_dec x w) as [E|E].
    + subst x s'. unfold link_ok; simpl. upds. rewrite memb_cons_same, Hf, Hs, He. constructor.
    + subst s'. apply (link_frame s); simpl; upds; try reflexivity.
      * apply memb_cons_other. exact E.
      * apply (inv_links c s I). exact Hx.
  - subst s'; simpl. constructor; [apply memb_false; exact Hmem|apply (inv_ws_nodup c s I)].
  - subst s'; simpl. intros x [E|Hx]; [subst; exact Hp|apply (inv_ws_pool c s I); exact Hx].
  - subst s'; simpl. apply (inv_jobs_nodup c s I).
  - intros j. rewrite (in_flight_same c s s' j (fun x _ => Act x)).
    subst s'. unfold on_stack, executed; simpl. apply (inv_cons c s I).
  - intros x j Hx Hj. rewrite Act in Hj. subst s'; simpl. apply (inv_dmap_active c s I); assumption.
  - subst s'; simpl. apply (inv_dmap_log c s I).
  - subst s'; simpl. apply (inv_dmap_dom c s I).
  - subst s'; simpl. apply (inv_fin c s I).
  - subst s'; simpl. intros x Hx. assert (x <> w) by (intros E; subst; contradiction). upds.
    apply (inv_outside c s I). exact Hx.
  - subst s'; simpl. apply (inv_exit_root c s I).
  - subst s'; simpl. apply (inv_err c s I).
Qed.

Lemma inv_check_loop : forall c ws seen s s', (forall w, In w ws -> In w (pool c)) -> Inv c s ->
  check_loop ws seen s = Some s' -> Inv c s'.
Proof.
  intros c ws. induction ws as [|w ws IH]; intros seen s s' Hin I H; simpl in H.
  - destruct seen; [inversion H; subst; exact I|discriminate].
  - destruct seen as [|w' seen']; [inversion H; subst; exact I|].
    destruct (Nat.eqb_spec w w') as [E|E].
    + destruct (see w s) as [s1|] eqn:Hsee; [|discriminate].
      apply (IH seen' s1 s'); [intros x Hx; apply Hin; right; exact Hx| |exact H].
      apply (inv_see c s w s1 I); [apply Hin; left; reflexivity|exact Hsee].
    + apply (IH (w' :: seen') s s'); [intros x Hx; apply Hin; right; exact Hx|exact I|exact H].
Qed.

(** finish_all, pointwise *)
Lemma finish_all_fields : forall l s,
  jobstack (finish_all l s) = jobstack s /\ wstack (finish_all l s) = wstack s /\
  outst (finish_all l s) = outst s /\ dmap (finish_all l s) = dmap s /\ alljobs (finish_all l s) = alljobs s /\
  wst (finish_all l s) = wst s /\ pend_older (finish_all l s) = pend_older s /\
  exited (finish_all l s) = exited s /\ log (finish_all l s) = log s /\ err (finish_all l s) = err s /\
  round (finish_all l s) = round s.
Proof.
  induction l as [|w l IH]; intros s; simpl; [repeat split; reflexivity|].
  unfold finish_all in IH. destruct (IH (send_finish w s)) as (H1 & H2 & H3 & H4 & H5 & H6 & H7 & H8 & H9 & H10 & H11).
  unfold finish_all; simpl. rewrite H1, H2, H3, H4, H5, H6, H7, H8, H9, H10, H11. simpl. repeat split; reflexivity.
Qed.

Lemma finish_all_wfin : forall l s w, wfin (finish_all l s) w = wfin s w || memb w l.
Proof.
  induction l as [|x l IH]; intros s w; simpl; [rewrite orb_false_r; reflexivity|].
  unfold finish_all in *; simpl. rewrite IH. simpl. unfold memb; simpl.
  destruct (Nat.eqb_spec w x) as [E|E].
  - subst. upds. reflexivity.
  - upds. reflexivity.
Qed.

Lemma finish_all_chan : forall l s w, NoDup l ->
  chan (finish_all l s) w = if memb w l then chan s w ++ [MFinish] else chan s w.
Proof.
  induction l as [|x l IH]; intros s w Hn; simpl; [reflexivity|].
  inversion Hn as [|y l' Hx Hn']; subst.
  unfold finish_all in *; simpl. rewrite IH by exact Hn'. simpl. unfold memb; simpl.
  destruct (Nat.eqb_spec w x) as [E|E].
  - subst. apply memb_false in Hx. unfold memb in Hx. rewrite Hx. upds. reflexivity.
  - simpl. upds. reflexivity.
Qed.

Lemma filter_all : forall (f : nat -> bool) l, (forall x, In x l -> f x = true) -> filter f l = l.
Proof.
  intros f l. induction l as [|x l IH]; intros H; simpl; [reflexivity|].
  rewrite H by (left; reflexivity). rewrite IH; [reflexivity|]. intros y Hy. apply H. right. exact Hy.
Qed.

Lemma filter_none : forall (f : nat -> bool) l, (forall x, In x l -> f x = false) -> filter f l = [].
Proof.
  intros f l. induction l as [|x l IH]; intros H; simpl; [reflexivity|].
  rewrite H by (left; reflexivity). apply IH. intros y Hy. apply H. right. exact Hy.
Qed.

(** what check_workers sends: nothing, or Finish to the whole pool when every job has been executed *)
Lemma finish_targets_cases : forall c s, Inv c s ->
  finish_targets c s = [] \/
  (finish_targets c s = pool c /\ jobstack s = [] /\
   forall w, In w (pool c) ->
     memb w (wstack s) = true /\ outst s w = false /\ wfin s w = false /\ chan s w = [] /\ wst s w = Pending /\
     exited s w = false).
Proof.
  intros c s I. unfold finish_targets, finish_cond.
  destruct (jobstack s) as [|j js] eqn:Hj; [|left; reflexivity].
  destruct (Nat.leb_spec (nprocs c) (length (wstack s))) as [Hle|Hgt]; [|left; reflexivity].
  destruct (inv_fin c s I) as [Hf|[Hf _]].
  - right. split; [|split; [reflexivity|]].
    + apply filter_all. intros w Hw. rewrite Hf by exact Hw. reflexivity.
    + intros w Hw.
      assert (Hin : In w (wstack s)).
      { apply (NoDup_length_incl (inv_ws_nodup c s I)); [exact Hle| |exact Hw].
        intros x Hx. apply (inv_ws_pool c s I). exact Hx. }
      destruct (stack_worker_idle c s w I Hin (Hf w Hw)) as (Ho & Hc & Hs & He).
      apply memb_In in Hin. repeat split; auto.
  - left. apply filter_none. intros w Hw. rewrite Hf by exact Hw. reflexivity.
Qed.

Lemma inv_finish : forall c s, Inv c s -> Inv c (finish_all (finish_targets c s) s).
Proof.
  intros c s I. destruct (finish_targets_cases c s I) as [E|(E & Hj & Hall)]; rewrite E; [exact I|].
  destruct (finish_all_fields (pool c) s) as (H1 & H2 & H3 & H4 & H5 & H6 & H7 & H8 & H9 & H10 & H11).
  pose proof (finish_all_wfin (pool c) s) as Hwf.
  pose proof (fun w => finish_all_chan (pool c) s w (pool_NoDup c)) as Hch.
  assert (Act : forall x, active (finish_all (pool c) s) x = active s x).
  { intros x. unfold active. rewrite H6, Hch. destruct (memb x (pool c)) eqn:M; [|reflexivity].
    apply memb_In in M. destruct (Hall x M) as (_ & _ & _ & Hc & _). rewrite Hc. reflexivity. }
  constructor.
  - intros w Hw. unfold link_ok. rewrite H2, H3, H6, H7, H8, Hwf, Hch.
    destruct (Hall w Hw) as (Hm & Ho & Hf & Hc & Hs & He).
    apply memb_In in Hw. rewrite Hw, Hm, Ho, Hf, Hc, Hs, He. simpl. constructor.
  - rewrite H2. apply (inv_ws_nodup c s I).
  - rewrite H2. apply (inv_ws_pool c s I).
  - rewrite H5. apply (inv_jobs_nodup c s I).
  - intros j. rewrite (in_flight_same c s _ j (fun x _ => Act x)).
    unfold on_stack, executed. rewrite H1, H9, H5. apply (inv_cons c s I).
  - intros w j Hw Hjj. rewrite Act in Hjj. rewrite H4. apply (inv_dmap_active c s I); assumption.
  - rewrite H9, H4. apply (inv_dmap_log c s I).
  - rewrite H4, H5. apply (inv_dmap_dom c s I).
  - right. split; [|rewrite H1; exact Hj].
    intros w Hw. rewrite Hwf. apply memb_In in Hw. rewrite Hw. apply orb_true_r.
  - intros w Hw. rewrite Hch. apply memb_false in Hw. rewrite Hw. apply (inv_outside c s I). apply memb_false. exact Hw.
  - intros _ w Hw. rewrite Hwf. apply memb_In in Hw. rewrite Hw. apply orb_true_r.
  - rewrite H10. apply (inv_err c s I).
Qed.
